#!/bin/sh
# MANIFEST.setup_cmd: build the Lean models, proofs and the line-protocol driver from files on disk only.
set -e
cd "$(dirname "$0")/lean"
python3 gen_dispatch.py
# the build's own exit status decides (a pipe into tail would hide it)
if lake build rvdriver RallyModel RallyProofs RallyProps > .setup.log 2>&1; then
  tail -3 .setup.log
else
  grep -v '^✔\|^ℹ' .setup.log | tail -40
  echo "setup FAILED: lake build" >&2
  exit 1
fi
echo '{"m":"ping","op":"x","a":null}' | .lake/build/bin/rvdriver | grep -q pong
echo "setup ok"
