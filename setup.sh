#!/bin/sh
# MANIFEST.setup_cmd: build the Lean models, proofs and the line-protocol driver from files on disk only.
set -e
cd "$(dirname "$0")/lean"
python3 gen_dispatch.py
lake build rvdriver RallyModel RallyProofs RallyProps 2>&1 | tail -5
echo '{"m":"ping","op":"x","a":null}' | .lake/build/bin/rvdriver | grep -q pong
echo "setup ok"
