#!/bin/bash
# tools_seedsweep.sh [ids like C01-3 ...] — run the quick check of each stored seeded change's property against a scratch worktree with
# the change applied and record one line per change in seeded/SWEEP.txt (fi = VIOLATION lines with a failing input, nfi = without).
# Default: every change under seeded/. VERIF_ESCALATE=0 gives the first pass only. Runs $SWEEP_JOBS (default 3) changes at a time.
cd /verif
if [ $# -eq 0 ]; then set -- $(ls -d seeded/C*-* | sed 's#seeded/##' | sort -t- -k1,1 -k2,2n); fi
one() {
  id=$1; P=${id%%-*}
  out=$(./tools_seedtest.sh $P seeded/$id/patch.diff 2>&1)
  fi=$(echo "$out" | grep '^VIOLATION' | grep -vc 'no-failing-input-found'); nfi=$(echo "$out" | grep -c 'no-failing-input-found'); h=$(echo "$out" | grep -c 'HARNESS-ERROR')
  line="$id fi=$fi nfi=$nfi harness=$h $(echo "$out" | grep -E 'tier=quick' | tail -1 | sed 's/.*correspondence cases, //' | cut -c1-120)"
  ( flock 9; grep -v "^$id " seeded/SWEEP.txt > seeded/.s.tmp 2>/dev/null; echo "$line" >> seeded/.s.tmp; sort -t- -k1,1 -k2,2n seeded/.s.tmp > seeded/SWEEP.txt; rm -f seeded/.s.tmp ) 9>/tmp/seedsweep.lock
  echo "$line"
}
export -f one
printf '%s\n' "$@" | xargs -P ${SWEEP_JOBS:-3} -I{} bash -c 'one {}'
