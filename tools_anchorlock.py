#!/venv/bin/python
"""tools_anchorlock.py : write anchors.lock.json from the clean /repo (run after every commit to /repo, as part of the closing
routine). The lock records what the hand-written models were last validated against; see harness/drift.py."""
import json, os, subprocess, sys
sys.path.insert(0, os.path.dirname(os.path.abspath(__file__)))
from harness import drift

repo = "/repo"
st = subprocess.run(["git", "-C", repo, "status", "--porcelain", "--", "esrally"], capture_output=True, text=True).stdout.strip()
if st:
    sys.exit("refusing: /repo/esrally has uncommitted changes:\n" + st)
commit = subprocess.run(["git", "-C", repo, "rev-parse", "HEAD"], capture_output=True, text=True).stdout.strip()
files = drift.digests(repo)
json.dump({"repo_commit": commit, "python": sys.version.split()[0], "files": files}, open(drift.LOCK, "w"), indent=0, sort_keys=True)
print(f"anchors.lock.json: {len(files)} files, {sum(len(v) for v in files.values())} definitions at {commit[:8]}")
