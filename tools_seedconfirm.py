#!/usr/bin/env python3
"""tools_seedconfirm.py <PROPERTY> <n> : confirm seeded change /tmp/seedout/<P>/change<n>.diff + demo<n>.py in a scratch
worktree (demo passes without / fails with; suite at baseline with), run ./check <P> --tier quick against it, and store it
under /verif/seeded/<P>-<n>/ (patch.diff, demo.py, meta.json)."""
import json, os, re, shutil, subprocess, sys, tempfile

P, n = sys.argv[1], sys.argv[2]
srcroot = sys.argv[3] if len(sys.argv) > 3 else "/tmp/seedout"
outn = sys.argv[4] if len(sys.argv) > 4 else n
src = f"{srcroot}/{P}"
patch, demo = f"{src}/change{n}.diff", f"{src}/demo{n}.py"
W = tempfile.mkdtemp(prefix="seedconf_")
os.rmdir(W)
run = lambda cmd, **kw: subprocess.run(cmd, shell=True, capture_output=True, text=True, **kw)
assert run(f"git -C /repo worktree add -q --detach {W} HEAD").returncode == 0
meta = {"property": P, "source": "independent sub-agent given only the property text and a scratch worktree"}
try:
    env = dict(os.environ, PYTHONPATH=W)
    meta["round"] = 7 if "seedout7" in srcroot else 6 if "seedout6" in srcroot else 5 if "seedout5" in srcroot else 4 if "seedout4" in srcroot else 3 if "seedout3" in srcroot else 2 if "seedout2" in srcroot else 1
    d = open(demo).read().replace(f"/tmp/seedwt/{P}", W)
    open(f"{W}/_demo.py", "w").write(d)
    r0 = run(f"cd {W} && /venv/bin/python _demo.py", env=env, timeout=900)
    ap = run(f"git -C {W} apply {patch}")
    meta["patch_applies"] = ap.returncode == 0
    if ap.returncode != 0:
        print("patch does not apply:", ap.stderr); sys.exit(1)
    r1 = run(f"cd {W} && /venv/bin/python _demo.py", env=env, timeout=900)
    meta["demo_exit_without_change"] = r0.returncode
    meta["demo_exit_with_change"] = r1.returncode
    t = run(f"cd {W} && /venv/bin/python -m pytest -q -p no:cacheprovider --timeout=900 --color=no --continue-on-collection-errors tests 2>&1 | tail -3", env=env, timeout=1800)
    m = re.search(r"(\d+) failed, (\d+) passed.*?(\d+) error", t.stdout)
    meta["suite_with_change"] = t.stdout.strip().splitlines()[-1] if t.stdout.strip() else ""
    meta["suite_at_baseline"] = bool(m and int(m.group(1)) <= 1 and int(m.group(2)) >= 1268 and int(m.group(3)) <= 3)
    if not meta["suite_at_baseline"] and m and int(m.group(3)) <= 3:
        # wall-clock tests of the suite fail under machine load: re-run the failed tests alone (up to 3 times each); the launcher daemon
        # test is the baseline's own failure
        t2 = run(f"cd {W} && /venv/bin/python -m pytest -q -rf -p no:cacheprovider --timeout=900 --color=no --continue-on-collection-errors tests 2>&1 | grep '^FAILED' ", env=env, timeout=1800)
        failed = [l.split()[1] for l in t2.stdout.splitlines() if l.startswith("FAILED") and "launcher_test" not in l]
        still = []
        for tid in failed:
            ok1 = False
            for _ in range(3):
                if run(f"cd {W} && /venv/bin/python -m pytest -q -p no:cacheprovider --timeout=900 --color=no '{tid}'", env=env, timeout=900).returncode == 0:
                    ok1 = True
                    break
            if not ok1:
                still.append(tid)
        meta["suite_rerun_of_failed_tests"] = {"failed_in_second_full_run": failed, "still_failing_alone": still}
        meta["suite_at_baseline"] = not still
    os.remove(f"{W}/_demo.py")
    c = run(f"cd /verif && RALLY_REPO_ROOT={W} ./check {P} --tier quick", timeout=3000)
    meta["check_cmd"] = f"RALLY_REPO_ROOT=<worktree with patch> ./check {P} --tier quick"
    meta["check_exit"] = c.returncode
    meta["check_violation_lines"] = [l.replace(W, "<worktree>") for l in c.stdout.splitlines() if l.startswith("VIOLATION")][:5]
    meta["check_summary"] = (c.stdout.strip().splitlines() or [""])[-1]
    if c.returncode == 2:
        meta["check_stderr"] = c.stderr[-800:]
    notes = open(f"{src}/NOTES.md").read() if os.path.exists(f"{src}/NOTES.md") else ""
    meta["needs_to_manifest"] = "see NOTES.md (agent's description)"
    ok = meta["demo_exit_without_change"] == 0 and meta["demo_exit_with_change"] != 0 and meta["suite_at_baseline"]
    meta["confirmed"] = ok
    meta["detected"] = c.returncode == 1
    if meta["detected"]:
        # a verdict on the changed tree only counts if the same check is quiet on the unchanged tree at this moment (a false alarm of
        # the machinery would otherwise pass for a detection)
        c0 = run(f"cd /verif && ./check {P} --tier quick", timeout=3000)
        meta["clean_tree_exit_at_confirmation"] = c0.returncode
        if c0.returncode != 0:
            meta["detected"] = False
            meta["detected_note"] = "the check also alarms on the unchanged tree (exit %d): verdict not counted" % c0.returncode
    if ok:
        out = f"/verif/seeded/{P}-{outn}"
        os.makedirs(out, exist_ok=True)
        shutil.copy(patch, f"{out}/patch.diff")
        shutil.copy(demo, f"{out}/demo.py")
        if notes:
            open(f"{out}/NOTES.md", "w").write(notes)
        json.dump(meta, open(f"{out}/meta.json", "w"), indent=1)
        # the verdict of the check as it stood when the change arrived is kept (first run only)
        hp = "/verif/seeded/HISTORY.json"
        import fcntl

        lockf = open("/tmp/seed_history.lock", "w")
        fcntl.flock(lockf, fcntl.LOCK_EX)
        hist = json.load(open(hp)) if os.path.exists(hp) else {}
        sid = f"{P}-{outn}"
        if sid not in hist:
            only_nfi = bool(meta["check_violation_lines"]) and all("no-failing-input-found" in l for l in meta["check_violation_lines"])
            hist[sid] = {"first_run_detected": bool(meta["detected"]) and not only_nfi}
            if meta["check_exit"] == 2:
                hist[sid]["first_run_note"] = "harness error (exit 2)"
            elif only_nfi:
                hist[sid]["first_run_note"] = "only no-failing-input-found (an obligation broke, no failing input was produced)"
            json.dump(hist, open(hp, "w"), indent=1)
    print(json.dumps(meta, indent=1))
finally:
    run(f"git -C /repo worktree remove --force {W}")
