#!/bin/sh
# usage: tools_seedtest.sh <PROPERTY> <patch.diff> [extra check args]  — apply a seeded change to a scratch worktree, run the quick check against it
P=$1; D=$(realpath "$2"); shift 2
W=/tmp/seedtest_$$
git -C /repo worktree add -q --detach $W HEAD || exit 3
if ! git -C $W apply "$D"; then echo "PATCH DOES NOT APPLY"; git -C /repo worktree remove --force $W; exit 3; fi
cd /verif && RALLY_REPO_ROOT=$W ./check $P --tier quick "$@" > /tmp/seedtest_$$.out 2>&1; rc=$?
tail -4 /tmp/seedtest_$$.out; rm -f /tmp/seedtest_$$.out
echo "exit=$rc"
git -C /repo worktree remove --force $W
