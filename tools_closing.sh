#!/bin/bash
# tools_closing.sh [seeds...] — closing routine, step 1 and 4 of DESIGN section 18: every quick check on the clean /repo under the given
# seeds (default "1 2 3 0": seed 0 last so that the committed evidence and lean/RallyGen/* come from a seed-0 run on the clean tree),
# four checks at a time. Prints one line per run; non-zero exit if any run did not exit 0.
cd /verif
[ $# -gt 0 ] || set -- 1 2 3 0
bad=0
for seed in "$@"; do
  printf '%s\n' C01 C02 C03 C04 C05 C06 C07 C08 C09 C10 C11 C12 C13 C14 C15 C16 C17 C18 C19 C20 | \
    xargs -P 4 -I{} sh -c 'out=$(VERIF_SEED='"$seed"' ./check {} --tier quick 2>&1); rc=$?; echo "seed='"$seed"' {} exit=$rc $(echo "$out" | grep -c "^VIOLATION") violations | $(echo "$out" | grep -E "tier=quick|HARNESS" | tail -1 | cut -c1-170)"' | tee -a /tmp/closing.log
done
grep -v 'exit=0 0 violations' /tmp/closing.log && bad=1
exit $bad
