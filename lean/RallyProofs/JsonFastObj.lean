import RallyModel.JsonFast
import RallyProofs.JsonFast
/-! C19: flat objects through `runner.parse` (the composite-agg `after_key`). -/
namespace JsonFast

/-! ## flat objects (`objects=[…]`, used for the composite `after_key`) -/

/-- the dict `parse` builds from the members of a flat object (members in order, a later duplicate
    overwrites; `null` is recorded as None since commit 4b176e5) = what full parsing gives -/
def flatDict (kvs : List (Str × Json)) (d : List (Str × SVal)) : List (Str × SVal) :=
  match kvs with
  | [] => d
  | (k, v) :: rest => flatDict rest (dset d k v.toSVal)

/-- the single event of a scalar value -/
def scalarEv : Json → Ev
  | .null => .null
  | .bool b => .boolean b
  | .num n => .number n
  | .str x => .string x
  | _ => .null

section Obj
variable (props lists : List Str) (o : Str)

theorem step_other_prefix (s : PS) (e : Str × Ev) (he : e.1 ≠ o) (hio : s.inObj = none) :
    (step props lists [o] s e).pobjs = s.pobjs ∧ (step props lists [o] s e).inObj = none ∧
    (step props lists [o] s e).curObj = s.curObj := by
  obtain ⟨h1, h2, h3⟩ := resolve_objs s e
  rw [hio] at h2
  have hio' : inObjTruthy (resolve s e).inObj = none := by rw [h2]; rfl
  rw [step_eq]
  simp only [List.mem_singleton, he, and_false, if_false, hio']
  split
  · exact ⟨h1, h2, h3⟩
  · split
    · exact ⟨h1, h2, h3⟩
    · exact ⟨h1, h2, h3⟩

theorem run_other_prefix : ∀ (evs : List (Str × Ev)) (s : PS), (∀ e ∈ evs, e.1 ≠ o) → s.inObj = none →
    (run props lists [o] s evs).pobjs = s.pobjs ∧ (run props lists [o] s evs).inObj = none ∧
    (run props lists [o] s evs).curObj = s.curObj := by
  intro evs
  induction evs with
  | nil => intro s _ h; exact ⟨rfl, h, rfl⟩
  | cons e es ih =>
    intro s h hio
    obtain ⟨a, b, c⟩ := step_other_prefix props lists o s e (h e (by simp)) hio
    simp only [run]
    split
    · exact ⟨a, b, c⟩
    · obtain ⟨a', b', c'⟩ := ih _ (fun e' he' => h e' (by simp [he'])) b
      exact ⟨by rw [a', a], b', by rw [c', c]⟩

theorem done_false_of_no_obj (s : PS) (h : s.pobjs = []) : done props lists [o] s = false := by
  simp [done, h]

/-- before the object: nothing recorded, no early exit -/
theorem run_prefix_no_obj : ∀ (A rest : List (Str × Ev)) (s : PS), (∀ e ∈ A, e.1 ≠ o) → s.inObj = none → s.pobjs = [] →
    ∃ s', run props lists [o] s (A ++ rest) = run props lists [o] s' rest ∧ s'.inObj = none ∧ s'.pobjs = [] ∧ s'.curObj = s.curObj := by
  intro A
  induction A with
  | nil => intro rest s _ h1 h2; exact ⟨s, rfl, h1, h2, rfl⟩
  | cons a A ih =>
    intro rest s h h1 h2
    obtain ⟨p, q, r⟩ := step_other_prefix props lists o s a (h a (by simp)) h1
    have hd := done_false_of_no_obj props lists o (step props lists [o] s a) (by rw [p, h2])
    simp only [List.cons_append, run, hd, Bool.false_eq_true, if_false]
    obtain ⟨s', e1, e2, e3, e4⟩ := ih rest _ (fun e he => h e (by simp [he])) q (by rw [p, h2])
    exact ⟨s', e1, e2, e3, by rw [e4, r]⟩

/-- the events of a flat object's members -/
def memberEvents (kvs : List (Str × Json)) : List (Str × Ev) :=
  match kvs with
  | [] => []
  | (k, v) :: rest => (o, Ev.mapKey k) :: (o ++ '.' :: k, scalarEv v) :: memberEvents rest

theorem drop_member (k : Str) : (o ++ '.' :: k).drop (o.length + 1) = k := by
  rw [show o ++ '.' :: k = (o ++ ['.']) ++ k by simp]
  rw [show o.length + 1 = (o ++ ['.']).length by simp]
  exact List.drop_left

theorem step_member_key (s : PS) (k : Str) (hop : o ∉ props) (hio : s.inObj = some o) (hne : o ≠ []) :
    (step props lists [o] s (o, Ev.mapKey k)).pobjs = s.pobjs ∧ (step props lists [o] s (o, Ev.mapKey k)).inObj = some o ∧
    (step props lists [o] s (o, Ev.mapKey k)).curObj = s.curObj := by
  obtain ⟨h1, h2, h3⟩ := resolve_objs s (o, Ev.mapKey k)
  rw [hio] at h2
  have ht : inObjTruthy (resolve s (o, Ev.mapKey k)).inObj = some o := by
    rw [h2]
    cases o with
    | nil => exact absurd rfl hne
    | cons c t => rfl
  rw [step_eq]
  simp only [hop, if_false, reduceCtorEq, and_false, false_and, ht, Ev.isPrimitive, Bool.false_eq_true]
  exact ⟨h1, h2, h3⟩

theorem step_member_ev (s : PS) (k : Str) (ev : Ev) (hev : ev = Ev.null ∨ ev.isPrimitive = true)
    (hkp : (o ++ '.' :: k) ∉ props) (hio : s.inObj = some o) (hne : o ≠ []) :
    (step props lists [o] s (o ++ '.' :: k, ev)).pobjs = s.pobjs ∧ (step props lists [o] s (o ++ '.' :: k, ev)).inObj = some o ∧
    (step props lists [o] s (o ++ '.' :: k, ev)).curObj = (if ev.isPrimitive then dset s.curObj k ev.value else s.curObj) := by
  obtain ⟨h1, h2, h3⟩ := resolve_objs s (o ++ '.' :: k, ev)
  rw [hio] at h2
  have ht : inObjTruthy (resolve s (o ++ '.' :: k, ev)).inObj = some o := by
    rw [h2]
    cases o with
    | nil => exact absurd rfl hne
    | cons c t => rfl
  have hsa : ev ≠ Ev.startArray := by rcases hev with h | h <;> (intro hh; subst hh; simp [Ev.isPrimitive] at h)
  have hsm : ev ≠ Ev.startMap := by rcases hev with h | h <;> (intro hh; subst hh; simp [Ev.isPrimitive] at h)
  have hem : ev ≠ Ev.endMap := by rcases hev with h | h <;> (intro hh; subst hh; simp [Ev.isPrimitive] at h)
  rw [step_eq]
  simp only [hkp, if_false, hsa, hsm, hem, and_false, false_and, ht, drop_member]
  by_cases hp : ev.isPrimitive = true
  · simp only [hp, if_true]
    exact ⟨h1, h2, by rw [h3]⟩
  · simp only [hp, if_false]
    exact ⟨h1, h2, h3⟩

omit props lists o in
theorem scalarEv_ok (d : List (Str × SVal)) (k : Str) (v : Json) (hv : v.isScalar = true) :
    (scalarEv v = Ev.null ∨ (scalarEv v).isPrimitive = true) ∧
    (if (scalarEv v).isPrimitive then dset d k (scalarEv v).value else d) = dset d k v.toSVal := by
  cases v with
  | null => exact ⟨Or.inl rfl, rfl⟩
  | bool b => exact ⟨Or.inr rfl, rfl⟩
  | num n => exact ⟨Or.inr rfl, rfl⟩
  | str x => exact ⟨Or.inr rfl, rfl⟩
  | arr xs => simp [Json.isScalar] at hv
  | obj kvs => simp [Json.isScalar] at hv

/-- through the members: the current object grows by the members, nothing else changes -/
theorem run_members (hop : o ∉ props) (hne : o ≠ []) : ∀ (kvs : List (Str × Json)) (rest : List (Str × Ev)) (s : PS),
    (∀ kv ∈ kvs, kv.2.isScalar = true ∧ (o ++ '.' :: kv.1) ∉ props) → s.inObj = some o → s.pobjs = [] →
    ∃ s', run props lists [o] s (memberEvents o kvs ++ rest) = run props lists [o] s' rest ∧ s'.inObj = some o ∧
      s'.pobjs = [] ∧ s'.curObj = flatDict kvs s.curObj := by
  intro kvs
  induction kvs with
  | nil => intro rest s _ h1 h2; exact ⟨s, rfl, h1, h2, rfl⟩
  | cons a t ih =>
    intro rest s h h1 h2
    obtain ⟨k, v⟩ := a
    obtain ⟨hv, hkp⟩ := h (k, v) (by simp)
    obtain ⟨a1, a2, a3⟩ := step_member_key props lists o s k hop h1 hne
    have hd1 := done_false_of_no_obj props lists o (step props lists [o] s (o, Ev.mapKey k)) (by rw [a1, h2])
    obtain ⟨ok1, ok2⟩ := scalarEv_ok (step props lists [o] s (o, Ev.mapKey k)).curObj k v hv
    obtain ⟨b1, b2, b3⟩ := step_member_ev props lists o (step props lists [o] s (o, Ev.mapKey k)) k (scalarEv v) ok1 hkp a2 hne
    rw [ok2] at b3
    have hd2 := done_false_of_no_obj props lists o _ (by rw [b1, a1, h2])
    simp only [memberEvents, List.cons_append, run, hd1, hd2, Bool.false_eq_true, if_false]
    obtain ⟨s', e1, e2, e3, e4⟩ := ih rest _ (fun kv hkv => h kv (by simp [hkv])) b2 (by rw [b1, a1, h2])
    refine ⟨s', e1, e2, e3, ?_⟩
    rw [e4, b3, a3]
    rfl

theorem step_start (s : PS) (hop : o ∉ props) :
    (step props lists [o] s (o, Ev.startMap)).pobjs = s.pobjs ∧ (step props lists [o] s (o, Ev.startMap)).inObj = some o ∧
    (step props lists [o] s (o, Ev.startMap)).curObj = [] := by
  obtain ⟨h1, _, _⟩ := resolve_objs s (o, Ev.startMap)
  rw [step_eq]
  simp only [hop, if_false, reduceCtorEq, and_false, false_and, List.mem_singleton, and_self, if_true, and_true]
  exact h1

theorem step_end (s : PS) (hop : o ∉ props) :
    (step props lists [o] s (o, Ev.endMap)).pobjs = dset s.pobjs s.inObj s.curObj ∧
    (step props lists [o] s (o, Ev.endMap)).inObj = none := by
  obtain ⟨h1, h2, h3⟩ := resolve_objs s (o, Ev.endMap)
  rw [step_eq]
  simp only [hop, if_false, reduceCtorEq, and_false, false_and, List.mem_singleton, and_self, if_true, and_true]
  rw [h1, h2, h3]

/-- **run level**: a flat object that occurs once is recorded with its members -/
theorem run_flat_object (hop : o ∉ props) (hne : o ≠ []) (A B : List (Str × Ev)) (kvs : List (Str × Json))
    (hA : ∀ e ∈ A, e.1 ≠ o) (hB : ∀ e ∈ B, e.1 ≠ o)
    (hk : ∀ kv ∈ kvs, kv.2.isScalar = true ∧ (o ++ '.' :: kv.1) ∉ props) :
    (run props lists [o] {} (A ++ ((o, Ev.startMap) :: (memberEvents o kvs ++ (o, Ev.endMap) :: B)))).pobjs =
      [(some o, flatDict kvs [])] := by
  obtain ⟨s1, e1, i1, p1, _⟩ := run_prefix_no_obj props lists o A ((o, Ev.startMap) :: (memberEvents o kvs ++ (o, Ev.endMap) :: B)) {} hA rfl rfl
  rw [e1]
  obtain ⟨a1, a2, a3⟩ := step_start props lists o s1 hop
  have hd1 := done_false_of_no_obj props lists o (step props lists [o] s1 (o, Ev.startMap)) (by rw [a1, p1])
  simp only [run, hd1, Bool.false_eq_true, if_false]
  obtain ⟨s2, e2, i2, p2, c2⟩ := run_members props lists o hop hne kvs ((o, Ev.endMap) :: B) _ hk a2 (by rw [a1, p1])
  rw [e2]
  obtain ⟨b1, b2⟩ := step_end props lists o s2 hop
  have hfin : (step props lists [o] s2 (o, Ev.endMap)).pobjs = [(some o, flatDict kvs [])] := by
    rw [b1, p2, i2, c2, a3]; rfl
  simp only [run]
  split
  · exact hfin
  · obtain ⟨c1, _, _⟩ := run_other_prefix props lists o B _ hB b2
    rw [c1, hfin]

end Obj

theorem pget_finish_obj {props lists : List Str} {o : Str} {s : PS} (d : List (Str × SVal)) (h : s.pobjs = [(some o, d)]) :
    pget (finish s) o = some (.dict d) := by
  unfold pget finish
  rw [dget_dupdate_nodup _ _ _ (by rw [h]; simp [keys])]
  rw [h]
  simp [dget]

theorem eventsMembers_flat (comps : List Str) (hc : comps ≠ []) : ∀ (kvs : List (Str × Json)),
    (∀ kv ∈ kvs, kv.2.isScalar = true) → eventsMembers comps kvs = memberEvents (joinDots comps) kvs := by
  intro kvs
  induction kvs with
  | nil => intro _; rfl
  | cons a t ih =>
    intro h
    obtain ⟨k, v⟩ := a
    have hv : v.isScalar = true := h (k, v) (by simp)
    have hj : joinDots (comps ++ [k]) = joinDots comps ++ '.' :: k := by
      rw [joinDots_append hc (by simp)]; rfl
    have hev : events (comps ++ [k]) v = [(joinDots comps ++ '.' :: k, scalarEv v)] := by
      rw [← hj]
      cases v with
      | null => simp [events, scalarEv]
      | bool b => simp [events, scalarEv]
      | num n => simp [events, scalarEv]
      | str x => simp [events, scalarEv]
      | arr xs => simp [Json.isScalar] at hv
      | obj o => simp [Json.isScalar] at hv
    simp only [eventsMembers, memberEvents, hev, ih (fun kv hkv => h kv (by simp [hkv]))]
    rfl

/-- **parse, flat objects**: for an unambiguous dotted name at which full parsing finds an object with scalar
    members, `parse(…, objects=[name])` returns the dict of its members. -/
theorem parse_object_flat (j : Json) (props lists : List Str) (comps : List Str) (hc : comps ≠ [])
    (h0 : joinDots comps ≠ []) (hna : NoAlias comps j) (hop : joinDots comps ∉ props)
    (kvs : List (Str × Json)) (hget : getPath j comps = some (.obj kvs))
    (hflat : ∀ kv ∈ kvs, kv.2.isScalar = true ∧ (joinDots comps ++ '.' :: kv.1) ∉ props) :
    pget (parseSel props lists [joinDots comps] (events [] j)) (joinDots comps) = some (.dict (flatDict kvs [])) := by
  have hd := events_decomp comps [] j hc (fun _ => h0) hna
  simp only [List.nil_append] at hd
  rw [hget] at hd
  obtain ⟨A, B, hev, hA, hB⟩ := hd
  have hm := eventsMembers_flat comps hc kvs (fun kv hkv => (hflat kv hkv).1)
  have hev' : events [] j = A ++ ((joinDots comps, Ev.startMap) ::
      (memberEvents (joinDots comps) kvs ++ (joinDots comps, Ev.endMap) :: B)) := by
    rw [hev]; simp [events, hm]
  unfold parseSel
  rw [hev']
  exact pget_finish_obj (props := props) (lists := lists) _
    (run_flat_object props lists (joinDots comps) hop h0 A B kvs hA hB hflat)

theorem flatDict_eq_foldl : ∀ (kvs : List (Str × Json)) (d : List (Str × SVal)),
    flatDict kvs d = kvs.foldl (fun acc kv => dset acc kv.1 kv.2.toSVal) d := by
  intro kvs
  induction kvs with
  | nil => intro d; rfl
  | cons a t ih =>
    intro d
    obtain ⟨k, v⟩ := a
    simp only [flatDict, List.foldl_cons]
    exact ih _

/-! ## a checker for `GoodAlong` (used by the non-vacuity examples) -/

def goodObjB (kvs : List (Str × Json)) : Bool :=
  decide ((keys kvs).Nodup) && (keys kvs).all (fun k => decide ('.' ∉ k))

def goodAlongB : List Str → Json → Bool
  | [], _ => true
  | k :: rest, .obj kvs => goodObjB kvs && kvs.all (fun kv => kv.1 != k || goodAlongB rest kv.2)
  | _ :: _, _ => true

theorem goodAlong_of_B : ∀ (comps : List Str) (j : Json), goodAlongB comps j = true → GoodAlong comps j
  | [], _, _ => trivial
  | k :: rest, j, h => by
    cases j with
    | obj kvs =>
      simp only [goodAlongB, Bool.and_eq_true, List.all_eq_true, Bool.or_eq_true] at h
      obtain ⟨hg, hall⟩ := h
      simp only [goodObjB, Bool.and_eq_true, decide_eq_true_eq, List.all_eq_true] at hg
      refine ⟨⟨hg.1, fun k' hk' => by simpa using hg.2 k' hk'⟩, ?_⟩
      intro v hv
      rcases hall (k, v) hv with hne | hrec
      · simp at hne
      · exact goodAlong_of_B rest v hrec
    | null => trivial
    | bool b => trivial
    | num n => trivial
    | str x => trivial
    | arr xs => trivial

theorem tookOf_ok (kvs : List (Str × Json)) (h : scalarOrAbsent (oget kvs kTook)) :
    tookOf (.obj kvs) = .ok ((oget kvs kTook).map (fun n => PVal.s n.toSVal)) := by
  cases hg : oget kvs kTook with
  | none => simp [tookOf, hg]
  | some n =>
    rw [hg] at h
    cases n with
    | arr xs => simp [scalarOrAbsent, Json.isScalar] at h
    | obj o => simp [scalarOrAbsent, Json.isScalar] at h
    | null => simp [tookOf, hg]
    | bool b => simp [tookOf, hg]
    | num x => simp [tookOf, hg]
    | str x => simp [tookOf, hg]

theorem getPath_one {j v : Json} {k : Str} (h : getPath j [k] = some v) :
    ∃ l1 l2, j = .obj (l1 ++ (k, v) :: l2) := by
  cases j with
  | obj kvs =>
    simp only [getPath] at h
    cases hg : oget kvs k with
    | none => rw [hg] at h; cases h
    | some w =>
      rw [hg] at h
      simp only [Option.some.injEq] at h
      subst h
      obtain ⟨l1, l2, e, _⟩ := oget_some_split kvs k w hg
      exact ⟨l1, l2, by rw [e]⟩
  | null => cases h
  | bool b => cases h
  | num n => cases h
  | str x => cases h
  | arr xs => cases h

/-! ## sessions -/

/-- a call that neither reads nor writes the instance state makes a session the map of the independent calls -/
theorem session_stateless {σ α β : Type} (call : σ → α → σ × β) (f : α → β) (h : ∀ s a, call s a = (s, f a)) :
    ∀ (s : σ) (cs : List α), session call s cs = cs.map f := by
  intro s cs
  induction cs generalizing s with
  | nil => rfl
  | cons a rest ih => simp only [session, h, List.map_cons, ih]

/-- results of a session whose state does not influence the result component -/
theorem session_result_indep {σ α β γ : Type} (call : σ → α → σ × (β × γ)) (f : α → β)
    (h : ∀ s a, (call s a).2.1 = f a) : ∀ (s : σ) (cs : List α), (session call s cs).map (·.1) = cs.map f := by
  intro s cs
  induction cs generalizing s with
  | nil => rfl
  | cons a rest ih => simp only [session, List.map_cons, h, ih]

end JsonFast
