import RallyModel.RaceOfAlloc
import RallyProofs.RacePlain
import RallyProofs.Alloc
/-! The race configuration derived from the allocator model (`RaceOfAlloc.cfgOf`): well-formed, elements without
    completed-by are plain, and every logical client of an element occurs in a column of the worker that owns its
    physical client (link between C02 and C01). -/
namespace RaceOfAlloc
open Alloc Race

theorem cfgOf_wf (finite : Nat → Bool) (sched : List Element) (workers : List (List Nat)) (h : workers ≠ []) :
    (cfgOf finite sched workers).WF := by
  refine ⟨?_, ?_⟩
  · simp only [cfgOf]
    exact List.length_pos_iff.mpr h
  · simp [cfgOf]

/-- an element none of whose tasks completes the parent (no `completed-by`) -/
def NoCompletedBy (el : Element) : Prop := ∀ s ∈ el.tasks, s.completesParent = false ∧ s.anyCompletes = false

theorem mem_expand {el : Element} {c : Nat} {sub : Sub} {i : Nat} (h : (expand el)[c]? = some (sub, i)) :
    sub ∈ el.tasks ∧ i < sub.clients := by
  have hm : (sub, i) ∈ expand el := List.mem_of_getElem? h
  unfold expand at hm
  simp only [List.mem_flatMap, List.mem_map, List.mem_range, Prod.mk.injEq] at hm
  obtain ⟨s, hs, j, hj, rfl, rfl⟩ := hm
  exact ⟨hs, hj⟩

theorem completingClients_nil (m : Nat) (el : Element) (h : NoCompletedBy el) : completingClients m el = [] := by
  unfold completingClients
  rw [List.filterMap_eq_nil_iff]
  rintro ⟨⟨sub, i⟩, c⟩ hmem
  have hget := List.mem_zipIdx_iff_getElem?.mp hmem
  have := (h sub (mem_expand hget).1).1
  simp [this]

theorem anyCompletingClients_nil (m : Nat) (el : Element) (h : NoCompletedBy el) : anyCompletingClients m el = [] := by
  unfold anyCompletingClients
  rw [List.filterMap_eq_nil_iff]
  rintro ⟨⟨sub, i⟩, c⟩ hmem
  have hget := List.mem_zipIdx_iff_getElem?.mp hmem
  have := h sub (mem_expand hget).1
  simp [this.1, this.2]

/-- what a member of a column is -/
theorem mem_column {finite : Nat → Bool} {m : Nat} {el : Element} {rows : List Nat} {k : Nat} {t : TaskA}
    (h : t ∈ column finite m el rows k) :
    ∃ r ∈ rows, ∃ sub i, r + k * m < el.total ∧ (expand el)[r + k * m]? = some (sub, i) ∧
      t = ⟨r, sub.id, finite sub.id, sub.completesParent, sub.anyCompletes⟩ := by
  unfold column at h
  rw [List.mem_filterMap] at h
  obtain ⟨r, hr, hf⟩ := h
  split at hf
  · rename_i hlt
    unfold taskEntry at hf
    cases hx : (expand el)[r + k * m]? with
    | none => simp [hx, toTaskA] at hf
    | some p =>
      obtain ⟨sub, i⟩ := p
      simp only [hx, toTaskA, Option.some.injEq] at hf
      exact ⟨r, hr, sub, i, hlt, hx, hf.symm⟩
  · exact absurd hf (by simp)

theorem mem_elemCols {finite : Nat → Bool} {m : Nat} {el : Element} {rows : List Nat} {col : List TaskA}
    (h : col ∈ elemCols finite m el rows) : ∃ k, k < ncols m el ∧ col = column finite m el rows k ∧ col ≠ [] := by
  unfold elemCols at h
  simp only [List.mem_filter, List.mem_map, List.mem_range, Bool.not_eq_eq_eq_not, Bool.not_true,
    List.isEmpty_eq_false_iff] at h
  obtain ⟨⟨k, hk, rfl⟩, hne⟩ := h
  exact ⟨k, hk, rfl, hne⟩

/-- elements without completed-by are plain elements of the derived configuration -/
theorem cfgOf_plain (finite : Nat → Bool) (sched : List Element) (workers : List (List Nat)) (e : Nat) (el : Element)
    (hel : sched[e]? = some el) (hn : NoCompletedBy el) : PlainElem (cfgOf finite sched workers) e := by
  refine ⟨?_, ?_, ?_⟩
  · simp [cfgOf, hel, completingClients_nil _ _ hn]
  · simp [cfgOf, hel, anyCompletingClients_nil _ _ hn]
  · intro w c col t hcol ht
    simp only [cfgOf, hel] at hcol
    cases hw : workers[w]? with
    | none => simp [hw] at hcol
    | some rows =>
      simp only [hw] at hcol
      have hmemc : col ∈ elemCols finite (maxClients sched) el rows := List.mem_of_getElem? hcol
      obtain ⟨k, _, rfl, _⟩ := mem_elemCols hmemc
      obtain ⟨r, _, sub, i, _, hx, rfl⟩ := mem_column ht
      have := hn sub (mem_expand hx).1
      simp [completingType, this.1, this.2]

/-- **coverage** — logical client `c` of element `el` (the `c`-th in allocation order: sub-task `sub`, client index
    `i` in that task) is executed by the worker that owns physical client `c % m`, in one of that worker's columns -/
theorem client_in_a_column (finite : Nat → Bool) (sched : List Element) (workers : List (List Nat)) (e w c : Nat)
    (el : Element) (rows : List Nat) (sub : Sub) (i : Nat)
    (hel : sched[e]? = some el) (hw : workers[w]? = some rows) (hc : (expand el)[c]? = some (sub, i))
    (hr : c % maxClients sched ∈ rows) :
    ∃ (c' : Nat) (col : List TaskA), ((cfgOf finite sched workers).elems w e)[c']? = some col ∧
      (⟨c % maxClients sched, sub.id, finite sub.id, sub.completesParent, sub.anyCompletes⟩ : TaskA) ∈ col := by
  have hm : maxClients sched > 0 := maxClients_pos sched
  have hct : c < el.total := by
    have h1 : c < (expand el).length := by
      rcases Nat.lt_or_ge c (expand el).length with h | h
      · exact h
      · rw [List.getElem?_eq_none_iff.mpr h] at hc; exact absurd hc (by simp)
    have h2 : (expand el).length = el.total := by
      unfold expand Element.total sumClients
      induction el.tasks with
      | nil => rfl
      | cons s ss ih => simp [List.flatMap_cons, ih]
    omega
  let k := c / maxClients sched
  have hck : c % maxClients sched + k * maxClients sched = c := by
    show c % maxClients sched + c / maxClients sched * maxClients sched = c
    rw [Nat.mul_comm]; exact Nat.mod_add_div c _
  have hmemt : (⟨c % maxClients sched, sub.id, finite sub.id, sub.completesParent, sub.anyCompletes⟩ : TaskA) ∈
      column finite (maxClients sched) el rows k := by
    unfold column
    rw [List.mem_filterMap]
    refine ⟨c % maxClients sched, hr, ?_⟩
    rw [hck, if_pos hct]
    simp [taskEntry, hc, toTaskA]
  have hk : k < ncols (maxClients sched) el := by
    show c / maxClients sched < (el.total + maxClients sched - 1) / maxClients sched
    rw [Nat.div_lt_iff_lt_mul hm]
    have := Nat.div_add_mod (el.total + maxClients sched - 1) (maxClients sched)
    have hlt := Nat.mod_lt (el.total + maxClients sched - 1) hm
    have hmul : maxClients sched * ((el.total + maxClients sched - 1) / maxClients sched) =
        (el.total + maxClients sched - 1) / maxClients sched * maxClients sched := Nat.mul_comm _ _
    omega
  have hmemc : column finite (maxClients sched) el rows k ∈ elemCols finite (maxClients sched) el rows := by
    unfold elemCols
    simp only [List.mem_filter, List.mem_map, List.mem_range, Bool.not_eq_eq_eq_not, Bool.not_true,
      List.isEmpty_eq_false_iff]
    exact ⟨⟨k, hk, rfl⟩, List.ne_nil_of_mem hmemt⟩
  obtain ⟨c', hc'⟩ := List.mem_iff_getElem?.mp hmemc
  refine ⟨c', _, ?_, hmemt⟩
  simp only [cfgOf, hw, hel]
  exact hc'

/-- a schedule all of whose tasks end by themselves gives a configuration all of whose tasks are finite -/
theorem cfgOf_allFinite (finite : Nat → Bool) (sched : List Element) (workers : List (List Nat))
    (hf : ∀ id, finite id = true) : (cfgOf finite sched workers).AllFinite := by
  intro w e col hcol t ht
  simp only [cfgOf] at hcol
  cases hw : workers[w]? with
  | none => simp [hw] at hcol
  | some rows =>
    cases hel : sched[e]? with
    | none => simp [hw, hel] at hcol
    | some el =>
      simp only [hw, hel] at hcol
      obtain ⟨k, _, rfl, _⟩ := mem_elemCols hcol
      obtain ⟨r, _, sub, i, _, _, rfl⟩ := mem_column ht
      exact hf sub.id

/-! ### every element can end (`Cfg.CanEnd`) for schedules with completed-by, when no element is over-committed -/

/-- the worker `workerOf` names for a physical client that some started worker owns does own it -/
theorem workerOf_spec (finite : Nat → Bool) (sched : List Element) (workers : List (List Nat)) (c : Nat)
    (h : ∃ (w : Nat) (rows : List Nat), workers[w]? = some rows ∧ c ∈ rows) :
    ∃ (rows : List Nat), workers[(cfgOf finite sched workers).workerOf c]? = some rows ∧ c ∈ rows ∧
      (cfgOf finite sched workers).workerOf c < workers.length := by
  obtain ⟨w, rows, hw, hc⟩ := h
  have hex : ∃ x, x ∈ workers ∧ (fun l : List Nat => l.contains c) x = true :=
    ⟨rows, List.mem_of_getElem? hw, by simpa using hc⟩
  have hsome : (workers.findIdx? fun l => l.contains c).isSome = true := by
    rw [List.findIdx?_isSome]
    simpa using hex
  obtain ⟨i, hi⟩ := Option.isSome_iff_exists.mp hsome
  have hspec := List.findIdx?_eq_some_iff_getElem.mp hi
  obtain ⟨hlt, hp, _⟩ := hspec
  have hwo : (cfgOf finite sched workers).workerOf c = i := by
    show (workers.findIdx? fun l => l.contains c).getD 0 = i
    rw [hi]; rfl
  rw [hwo]
  exact ⟨workers[i], List.getElem?_eq_getElem hlt, by simpa using hp, hlt⟩

/-- an element that fits into one column: at most as many logical clients as the race has physical ones -/
theorem elemCols_single (finite : Nat → Bool) (m : Nat) (el : Element) (rows : List Nat) (hm : m > 0) (ht : el.total ≤ m) :
    elemCols finite m el rows = [] ∨ elemCols finite m el rows = [column finite m el rows 0] := by
  unfold elemCols
  have hn : ncols m el ≤ 1 := by
    unfold ncols
    have : (el.total + m - 1) / m < 2 := by
      rw [Nat.div_lt_iff_lt_mul hm]; omega
    omega
  rcases Nat.lt_or_ge (ncols m el) 1 with h0 | h1
  · have : ncols m el = 0 := by omega
    left; simp [this]
  · have : ncols m el = 1 := by omega
    rw [this]
    simp only [List.range_one, List.map_cons, List.map_nil, List.filter_cons, List.filter_nil]
    split
    · right; rfl
    · left; rfl

/-- in a one-column element the logical client `idx` is in the (only) column of the worker that owns physical client `idx` -/
theorem single_column_has (finite : Nat → Bool) (sched : List Element) (workers : List (List Nat)) (e w idx i : Nat)
    (el : Element) (rows : List Nat) (sub : Sub)
    (hel : sched[e]? = some el) (hw : workers[w]? = some rows) (hidx : (expand el)[idx]? = some (sub, i))
    (ht : el.total ≤ maxClients sched) (hr : idx ∈ rows) :
    (cfgOf finite sched workers).elems w e = [column finite (maxClients sched) el rows 0] ∧
      (⟨idx, sub.id, finite sub.id, sub.completesParent, sub.anyCompletes⟩ : TaskA) ∈ column finite (maxClients sched) el rows 0 := by
  have hm := maxClients_pos sched
  have hlt : idx < el.total := by
    have h1 : idx < (expand el).length := by
      rcases Nat.lt_or_ge idx (expand el).length with h | h
      · exact h
      · rw [List.getElem?_eq_none_iff.mpr h] at hidx; exact absurd hidx (by simp)
    have h2 : (expand el).length = el.total := by
      unfold expand Element.total sumClients
      induction el.tasks with
      | nil => rfl
      | cons s ss ih => simp [List.flatMap_cons, ih]
    omega
  have hmem : (⟨idx, sub.id, finite sub.id, sub.completesParent, sub.anyCompletes⟩ : TaskA) ∈
      column finite (maxClients sched) el rows 0 := by
    unfold column
    rw [List.mem_filterMap]
    refine ⟨idx, hr, ?_⟩
    simp [hlt, taskEntry, hidx, toTaskA]
  refine ⟨?_, hmem⟩
  have hcols : (cfgOf finite sched workers).elems w e = elemCols finite (maxClients sched) el rows := by
    simp [cfgOf, hw, hel]
  rw [hcols]
  rcases elemCols_single finite (maxClients sched) el rows hm ht with h0 | h1
  · exfalso
    -- the column is not empty, so it survives the filter
    have : column finite (maxClients sched) el rows 0 ∈ elemCols finite (maxClients sched) el rows := by
      unfold elemCols
      simp only [List.mem_filter, List.mem_map, List.mem_range, Bool.not_eq_eq_eq_not, Bool.not_true,
        List.isEmpty_eq_false_iff]
      refine ⟨⟨0, ?_, rfl⟩, List.ne_nil_of_mem hmem⟩
      unfold ncols
      rw [Nat.div_pos_iff]
      omega
    rw [h0] at this
    exact absurd this (by simp)
  · exact h1

/-- a worker whose only column of element `e` holds a finite completing-type task can finish the element on its own -/
theorem selfEnding_single (finite : Nat → Bool) (sched : List Element) (workers : List (List Nat)) (e w : Nat)
    (col : List TaskA) (t' : TaskA)
    (hcols : (cfgOf finite sched workers).elems w e = [col]) (ht' : t' ∈ col)
    (hc : completingType t' = true) (hf : t'.finite = true) : SelfEnding (cfgOf finite sched workers) w e := by
  intro c col0 t hcol0 _ _
  rw [hcols] at hcol0 ⊢
  cases c with
  | zero =>
    simp only [List.getElem?_cons_zero, Option.some.injEq] at hcol0
    subst hcol0
    exact ⟨0, col, t', Nat.le_refl _, by simp, ht', hc, hf⟩
  | succ c => simp at hcol0

/-- what the schedule must look like for the element to be able to end: all its tasks end by themselves, or it fits
    into one column and has a named completing task that ends by itself, or it fits into one column, is completed by
    any of its tasks and its first task with clients ends by itself -/
def ElemCanEnd (finite : Nat → Bool) (m : Nat) (el : Element) : Prop :=
  (∀ s ∈ el.tasks, finite s.id = true) ∨
  (el.total ≤ m ∧ ∃ (idx : Nat) (sub : Sub) (i : Nat), (expand el)[idx]? = some (sub, i) ∧ sub.completesParent = true) ∨
  (el.total ≤ m ∧ ∃ (idx : Nat) (sub : Sub) (i : Nat), (expand el)[idx]? = some (sub, i) ∧ sub.completesParent = false ∧ sub.anyCompletes = true ∧
    finite sub.id = true)

/-- **the derived configuration can end** — for any schedule in which named completing tasks end by themselves, every
    element satisfies `ElemCanEnd`, and every physical client is handed to a started worker -/
theorem cfgOf_canEnd (finite : Nat → Bool) (sched : List Element) (workers : List (List Nat))
    (hcover : ∀ r, r < maxClients sched → ∃ (w : Nat) (rows : List Nat), workers[w]? = some rows ∧ r ∈ rows)
    (hcp : ∀ (e : Nat) (el : Element) (s : Sub), sched[e]? = some el → s ∈ el.tasks → s.completesParent = true → finite s.id = true)
    (hel : ∀ (e : Nat) (el : Element), sched[e]? = some el → ElemCanEnd finite (maxClients sched) el) :
    (cfgOf finite sched workers).CanEnd := by
  have hm := maxClients_pos sched
  refine ⟨?_, ?_⟩
  · -- named completing tasks are finite
    intro w e col t hcol ht hcpt
    simp only [cfgOf] at hcol
    cases hw : workers[w]? with
    | none => simp [hw] at hcol
    | some rows =>
      cases he : sched[e]? with
      | none => simp [hw, he] at hcol
      | some el =>
        simp only [hw, he] at hcol
        obtain ⟨k, _, rfl, _⟩ := mem_elemCols hcol
        obtain ⟨r, _, sub, i, _, hx, rfl⟩ := mem_column ht
        exact hcp e el sub he (mem_expand hx).1 hcpt
  · intro e heS
    have heS' : e < sched.length := by simpa [cfgOf] using heS
    have he : sched[e]? = some sched[e] := List.getElem?_eq_getElem heS'
    rcases hel e sched[e] he with hall | ⟨htot, idx, sub, i, hidx, hcpt⟩ | ⟨htot, idx, sub, i, hidx, hncp, hacp, hfin⟩
    · -- every task ends by itself
      left
      intro u _ c col t hcol ht hnf
      exfalso
      simp only [cfgOf, he] at hcol
      cases hw : workers[u]? with
      | none => simp [hw] at hcol
      | some rows =>
        simp only [hw] at hcol
        have hmemc := List.mem_of_getElem? hcol
        obtain ⟨k, _, rfl, _⟩ := mem_elemCols hmemc
        obtain ⟨r, _, sub, i, _, hx, rfl⟩ := mem_column ht
        have := hall sub (mem_expand hx).1
        simp [this] at hnf
    · -- a named completing task
      right; left
      have hidxlt : idx < maxClients sched := by
        have h1 : idx < (expand sched[e]).length := by
          rcases Nat.lt_or_ge idx (expand sched[e]).length with h | h
          · exact h
          · rw [List.getElem?_eq_none_iff.mpr h] at hidx; exact absurd hidx (by simp)
        have h2 : (expand sched[e]).length = (sched[e]).total := by
          unfold expand Element.total sumClients
          induction (sched[e]).tasks with
          | nil => rfl
          | cons s ss ih => simp [List.flatMap_cons, ih]
        omega
      refine ⟨?_, ?_⟩
      · -- the list of completing clients is not empty
        simp only [cfgOf, he]
        intro hnil
        unfold completingClients at hnil
        rw [List.filterMap_eq_nil_iff] at hnil
        have := hnil ((sub, i), idx) (List.mem_zipIdx_iff_getElem?.mpr hidx)
        simp [hcpt] at this
      · intro c hc
        simp only [cfgOf, he] at hc
        unfold completingClients at hc
        rw [List.mem_filterMap] at hc
        obtain ⟨⟨⟨sub', i'⟩, idx'⟩, hmem, hval⟩ := hc
        have hget' := List.mem_zipIdx_iff_getElem?.mp hmem
        simp only at hget' hval
        split at hval
        · rename_i hcp'
          simp only [Option.some.injEq] at hval
          have hidx'lt : idx' < maxClients sched := by
            have h1 : idx' < (expand sched[e]).length := by
              rcases Nat.lt_or_ge idx' (expand sched[e]).length with h | h
              · exact h
              · rw [List.getElem?_eq_none_iff.mpr h] at hget'; exact absurd hget' (by simp)
            have h2 : (expand sched[e]).length = (sched[e]).total := by
              unfold expand Element.total sumClients
              induction (sched[e]).tasks with
              | nil => rfl
              | cons s ss ih => simp [List.flatMap_cons, ih]
            omega
          have hcidx : c = idx' := by rw [← hval]; exact Nat.mod_eq_of_lt hidx'lt
          subst hcidx
          obtain ⟨rows, hwr, hcr, hwlt⟩ := workerOf_spec finite sched workers c (hcover c hidx'lt)
          refine ⟨by simpa [cfgOf] using hwlt, ?_⟩
          obtain ⟨hcols, hmemt⟩ := single_column_has finite sched workers e _ c i' sched[e] rows sub' he hwr hget' htot hcr
          exact selfEnding_single finite sched workers e _ _ _ hcols hmemt (by simp [completingType, hcp'])
            (hcp e sched[e] sub' he (mem_expand hget').1 hcp')
        · exact absurd hval (by simp)
    · -- completed by any of its tasks
      right; right
      have hidxlt : idx < maxClients sched := by
        have h1 : idx < (expand sched[e]).length := by
          rcases Nat.lt_or_ge idx (expand sched[e]).length with h | h
          · exact h
          · rw [List.getElem?_eq_none_iff.mpr h] at hidx; exact absurd hidx (by simp)
        have h2 : (expand sched[e]).length = (sched[e]).total := by
          unfold expand Element.total sumClients
          induction (sched[e]).tasks with
          | nil => rfl
          | cons s ss ih => simp [List.flatMap_cons, ih]
        omega
      obtain ⟨rows, hwr, hcr, hwlt⟩ := workerOf_spec finite sched workers idx (hcover idx hidxlt)
      refine ⟨(cfgOf finite sched workers).workerOf idx, by simpa [cfgOf] using hwlt, ⟨idx, ?_, ?_⟩, ?_⟩
      · simp only [cfgOf, he]
        unfold anyCompletingClients
        rw [List.mem_filterMap]
        refine ⟨((sub, i), idx), List.mem_zipIdx_iff_getElem?.mpr hidx, ?_⟩
        simp [hncp, hacp, Nat.mod_eq_of_lt hidxlt]
      · show idx ∈ (workers[(cfgOf finite sched workers).workerOf idx]?).getD []
        rw [hwr]
        exact hcr
      · obtain ⟨hcols, hmemt⟩ := single_column_has finite sched workers e _ idx i sched[e] rows sub he hwr hidx htot hcr
        exact selfEnding_single finite sched workers e _ _ _ hcols hmemt (by simp [completingType, hacp]) hfin

/-- every client `0 … n−1` is handed to a started worker by `calculate_worker_assignments` (C02: `assign_partition`) -/
theorem workersOf_cover (hosts : List Host) (n : Nat) (hne : hosts ≠ []) (hc : ∀ h ∈ hosts, h.cores > 0) (r : Nat)
    (hr : r < n) : ∃ (w : Nat) (rows : List Nat), (workersOf hosts n)[w]? = some rows ∧ r ∈ rows := by
  have hflat : flatClients (assign hosts n) = List.range n := by
    unfold assign
    rw [assignFrom_flat _ _ _ _ hc]
    have hl : hosts.length > 0 := List.length_pos_iff.mpr hne
    rw [assignRemaining_zero _ _ _ (ceilDiv_mul_ge n hosts.length hl)]
    simp [List.range_eq_range']
  have hmem : r ∈ flatClients (assign hosts n) := by rw [hflat]; simpa using hr
  unfold flatClients at hmem
  simp only [List.mem_flatten, List.mem_map] at hmem
  obtain ⟨l, ⟨p, hp, rfl⟩, hrl⟩ := hmem
  simp only [List.mem_flatten] at hrl
  obtain ⟨rows, hrows, hrr⟩ := hrl
  have hin : rows ∈ workersOf hosts n := by
    unfold workersOf
    simp only [List.mem_filter, List.mem_flatMap, Bool.not_eq_eq_eq_not, Bool.not_true, List.isEmpty_eq_false_iff]
    exact ⟨⟨p, hp, hrows⟩, List.ne_nil_of_mem hrr⟩
  obtain ⟨w, hw⟩ := List.mem_iff_getElem?.mp hin
  exact ⟨w, rows, hw, hrr⟩

end RaceOfAlloc
