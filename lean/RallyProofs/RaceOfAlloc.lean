import RallyModel.RaceOfAlloc
import RallyProofs.RacePlain
import RallyProofs.Alloc
/-! The race configuration derived from the allocator model (`RaceOfAlloc.cfgOf`): well-formed, elements without
    completed-by are plain, and every logical client of an element occurs in a column of the worker that owns its
    physical client (link between C02 and C01). -/
namespace RaceOfAlloc
open Alloc Race

theorem cfgOf_wf (finite : Nat → Bool) (sched : List Element) (workers : List (List Nat)) (h : workers ≠ []) :
    (cfgOf finite sched workers).WF := by
  refine ⟨?_, ?_⟩
  · simp only [cfgOf]
    exact List.length_pos_iff.mpr h
  · simp [cfgOf]

/-- an element none of whose tasks completes the parent (no `completed-by`) -/
def NoCompletedBy (el : Element) : Prop := ∀ s ∈ el.tasks, s.completesParent = false ∧ s.anyCompletes = false

theorem mem_expand {el : Element} {c : Nat} {sub : Sub} {i : Nat} (h : (expand el)[c]? = some (sub, i)) :
    sub ∈ el.tasks ∧ i < sub.clients := by
  have hm : (sub, i) ∈ expand el := List.mem_of_getElem? h
  unfold expand at hm
  simp only [List.mem_flatMap, List.mem_map, List.mem_range, Prod.mk.injEq] at hm
  obtain ⟨s, hs, j, hj, rfl, rfl⟩ := hm
  exact ⟨hs, hj⟩

theorem completingClients_nil (m : Nat) (el : Element) (h : NoCompletedBy el) : completingClients m el = [] := by
  unfold completingClients
  rw [List.filterMap_eq_nil_iff]
  rintro ⟨⟨sub, i⟩, c⟩ hmem
  have hget := List.mem_zipIdx_iff_getElem?.mp hmem
  have := (h sub (mem_expand hget).1).1
  simp [this]

theorem anyCompletingClients_nil (m : Nat) (el : Element) (h : NoCompletedBy el) : anyCompletingClients m el = [] := by
  unfold anyCompletingClients
  rw [List.filterMap_eq_nil_iff]
  rintro ⟨⟨sub, i⟩, c⟩ hmem
  have hget := List.mem_zipIdx_iff_getElem?.mp hmem
  have := h sub (mem_expand hget).1
  simp [this.1, this.2]

/-- what a member of a column is -/
theorem mem_column {finite : Nat → Bool} {m : Nat} {el : Element} {rows : List Nat} {k : Nat} {t : TaskA}
    (h : t ∈ column finite m el rows k) :
    ∃ r ∈ rows, ∃ sub i, r + k * m < el.total ∧ (expand el)[r + k * m]? = some (sub, i) ∧
      t = ⟨r, sub.id, finite sub.id, sub.completesParent, sub.anyCompletes⟩ := by
  unfold column at h
  rw [List.mem_filterMap] at h
  obtain ⟨r, hr, hf⟩ := h
  split at hf
  · rename_i hlt
    unfold taskEntry at hf
    cases hx : (expand el)[r + k * m]? with
    | none => simp [hx, toTaskA] at hf
    | some p =>
      obtain ⟨sub, i⟩ := p
      simp only [hx, toTaskA, Option.some.injEq] at hf
      exact ⟨r, hr, sub, i, hlt, hx, hf.symm⟩
  · exact absurd hf (by simp)

theorem mem_elemCols {finite : Nat → Bool} {m : Nat} {el : Element} {rows : List Nat} {col : List TaskA}
    (h : col ∈ elemCols finite m el rows) : ∃ k, k < ncols m el ∧ col = column finite m el rows k ∧ col ≠ [] := by
  unfold elemCols at h
  simp only [List.mem_filter, List.mem_map, List.mem_range, Bool.not_eq_eq_eq_not, Bool.not_true,
    List.isEmpty_eq_false_iff] at h
  obtain ⟨⟨k, hk, rfl⟩, hne⟩ := h
  exact ⟨k, hk, rfl, hne⟩

/-- elements without completed-by are plain elements of the derived configuration -/
theorem cfgOf_plain (finite : Nat → Bool) (sched : List Element) (workers : List (List Nat)) (e : Nat) (el : Element)
    (hel : sched[e]? = some el) (hn : NoCompletedBy el) : PlainElem (cfgOf finite sched workers) e := by
  refine ⟨?_, ?_, ?_⟩
  · simp [cfgOf, hel, completingClients_nil _ _ hn]
  · simp [cfgOf, hel, anyCompletingClients_nil _ _ hn]
  · intro w c col t hcol ht
    simp only [cfgOf, hel] at hcol
    cases hw : workers[w]? with
    | none => simp [hw] at hcol
    | some rows =>
      simp only [hw] at hcol
      have hmemc : col ∈ elemCols finite (maxClients sched) el rows := List.mem_of_getElem? hcol
      obtain ⟨k, _, rfl, _⟩ := mem_elemCols hmemc
      obtain ⟨r, _, sub, i, _, hx, rfl⟩ := mem_column ht
      have := hn sub (mem_expand hx).1
      simp [completingType, this.1, this.2]

/-- **coverage** — logical client `c` of element `el` (the `c`-th in allocation order: sub-task `sub`, client index
    `i` in that task) is executed by the worker that owns physical client `c % m`, in one of that worker's columns -/
theorem client_in_a_column (finite : Nat → Bool) (sched : List Element) (workers : List (List Nat)) (e w c : Nat)
    (el : Element) (rows : List Nat) (sub : Sub) (i : Nat)
    (hel : sched[e]? = some el) (hw : workers[w]? = some rows) (hc : (expand el)[c]? = some (sub, i))
    (hr : c % maxClients sched ∈ rows) :
    ∃ (c' : Nat) (col : List TaskA), ((cfgOf finite sched workers).elems w e)[c']? = some col ∧
      (⟨c % maxClients sched, sub.id, finite sub.id, sub.completesParent, sub.anyCompletes⟩ : TaskA) ∈ col := by
  have hm : maxClients sched > 0 := maxClients_pos sched
  have hct : c < el.total := by
    have h1 : c < (expand el).length := by
      rcases Nat.lt_or_ge c (expand el).length with h | h
      · exact h
      · rw [List.getElem?_eq_none_iff.mpr h] at hc; exact absurd hc (by simp)
    have h2 : (expand el).length = el.total := by
      unfold expand Element.total sumClients
      induction el.tasks with
      | nil => rfl
      | cons s ss ih => simp [List.flatMap_cons, ih]
    omega
  let k := c / maxClients sched
  have hck : c % maxClients sched + k * maxClients sched = c := by
    show c % maxClients sched + c / maxClients sched * maxClients sched = c
    rw [Nat.mul_comm]; exact Nat.mod_add_div c _
  have hmemt : (⟨c % maxClients sched, sub.id, finite sub.id, sub.completesParent, sub.anyCompletes⟩ : TaskA) ∈
      column finite (maxClients sched) el rows k := by
    unfold column
    rw [List.mem_filterMap]
    refine ⟨c % maxClients sched, hr, ?_⟩
    rw [hck, if_pos hct]
    simp [taskEntry, hc, toTaskA]
  have hk : k < ncols (maxClients sched) el := by
    show c / maxClients sched < (el.total + maxClients sched - 1) / maxClients sched
    rw [Nat.div_lt_iff_lt_mul hm]
    have := Nat.div_add_mod (el.total + maxClients sched - 1) (maxClients sched)
    have hlt := Nat.mod_lt (el.total + maxClients sched - 1) hm
    have hmul : maxClients sched * ((el.total + maxClients sched - 1) / maxClients sched) =
        (el.total + maxClients sched - 1) / maxClients sched * maxClients sched := Nat.mul_comm _ _
    omega
  have hmemc : column finite (maxClients sched) el rows k ∈ elemCols finite (maxClients sched) el rows := by
    unfold elemCols
    simp only [List.mem_filter, List.mem_map, List.mem_range, Bool.not_eq_eq_eq_not, Bool.not_true,
      List.isEmpty_eq_false_iff]
    exact ⟨⟨k, hk, rfl⟩, List.ne_nil_of_mem hmemt⟩
  obtain ⟨c', hc'⟩ := List.mem_iff_getElem?.mp hmemc
  refine ⟨c', _, ?_, hmemt⟩
  simp only [cfgOf, hw, hel]
  exact hc'

/-- a schedule all of whose tasks end by themselves gives a configuration all of whose tasks are finite -/
theorem cfgOf_allFinite (finite : Nat → Bool) (sched : List Element) (workers : List (List Nat))
    (hf : ∀ id, finite id = true) : (cfgOf finite sched workers).AllFinite := by
  intro w e col hcol t ht
  simp only [cfgOf] at hcol
  cases hw : workers[w]? with
  | none => simp [hw] at hcol
  | some rows =>
    cases hel : sched[e]? with
    | none => simp [hw, hel] at hcol
    | some el =>
      simp only [hw, hel] at hcol
      obtain ⟨k, _, rfl, _⟩ := mem_elemCols hcol
      obtain ⟨r, _, sub, i, _, _, rfl⟩ := mem_column ht
      exact hf sub.id

end RaceOfAlloc
