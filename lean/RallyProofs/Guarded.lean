import RallyModel.Guarded
/-!
Helper lemmas about `Guarded.loop` (model of `metrics.EsClient.guarded`) for the C17 property theorems.
Core tactics only; inductions on the script, generalising the execution counter.
-/
namespace Guarded

/-- the model-level test "this outcome is answered by sleep-and-retry while the budget lasts" -/
def isTransient : Outcome → Bool
  | .connTimeout => true
  | .connError => true
  | .api s => retryableStatusCodes.contains s
  | .bulk sts => (firstUnretryable sts).isNone
  | _ => false

theorem handle_sleepRetry (c : Nat) (o : Outcome) :
    handle c o = .sleepRetry ↔ (isTransient o = true ∧ c ≤ maxExecutionCount) := by
  cases o with
  | bulk sts => cases h : firstUnretryable sts <;> simp [handle, isTransient, h]
  | api s =>
    by_cases h1 : retryableStatusCodes.contains s = true <;> by_cases h2 : c ≤ maxExecutionCount <;>
      simp [handle, isTransient, h1, h2]
  | _ => simp [handle, isTransient]

/-- while the budget lasts, an outcome that is not transient ends the loop with a result that does not depend on the counter -/
def terminal : Outcome → Res
  | .success t => .returned t
  | .connTimeout => .rallyError .timeoutExhausted
  | .connError => .rallyError .connExhausted
  | .authn => .systemSetupError .authn
  | .authz => .systemSetupError .authz
  | .bulk sts => match firstUnretryable sts with
    | some i => .rallyError (.bulkUnretryable i)
    | none => .rallyError .bulkExhausted
  | .api s => .rallyError (.apiError s)
  | .transportOther => .rallyError .transportError
  | .otherExc t => .propagated t

theorem handle_done (c : Nat) (o : Outcome) (h : handle c o ≠ .sleepRetry) : handle c o = .done (terminal o) := by
  cases o with
  | bulk sts =>
    cases hf : firstUnretryable sts <;> simp [handle, terminal, hf] at h ⊢
    omega
  | api s =>
    by_cases h1 : retryableStatusCodes.contains s = true <;> by_cases h2 : c ≤ maxExecutionCount <;>
      simp [handle, terminal, h2] at h ⊢ <;> assumption
  | connTimeout => simp [handle, terminal] at h ⊢; omega
  | connError => simp [handle, terminal] at h ⊢; omega
  | _ => simp [handle, terminal]

/-! one-step unfoldings -/
theorem loop_gt (rnd : Nat → Rat) (a : Nat) (outs : List Outcome) (ha : ¬ a ≤ maxExecutionCount) :
    loop rnd a outs = ⟨.loopExit, []⟩ := by
  cases outs <;> simp [loop, ha]

theorem loop_nil (rnd : Nat → Rat) (a : Nat) (ha : a ≤ maxExecutionCount) : loop rnd a [] = ⟨.pending, []⟩ := by
  simp [loop, ha]

theorem loop_done (rnd : Nat → Rat) (a : Nat) (o : Outcome) (rest : List Outcome) (r : Res) (ha : a ≤ maxExecutionCount)
    (h : handle (a + 1) o = .done r) : loop rnd a (o :: rest) = ⟨r, [.call]⟩ := by
  simp only [loop]; rw [if_pos ha, h]

theorem loop_retry (rnd : Nat → Rat) (a : Nat) (o : Outcome) (rest : List Outcome) (ha : a ≤ maxExecutionCount)
    (h : handle (a + 1) o = .sleepRetry) :
    loop rnd a (o :: rest) =
      ⟨(loop rnd (a + 1) rest).res, .call :: .sleep (pause a (rnd a)) :: (loop rnd (a + 1) rest).trace⟩ := by
  simp only [loop]; rw [if_pos ha, h]

theorem loop_calls_le (rnd : Nat → Rat) (a : Nat) (outs : List Outcome) :
    nCalls (loop rnd a outs).trace ≤ maxExecutionCount + 1 - a ∧ nCalls (loop rnd a outs).trace ≤ outs.length := by
  induction outs generalizing a with
  | nil => simp [loop]; split <;> simp [nCalls]
  | cons o rest ih =>
    by_cases ha : a ≤ maxExecutionCount
    · cases hs : handle (a + 1) o with
      | done r => rw [loop_done rnd a o rest r ha hs]; simp [nCalls]; omega
      | sleepRetry =>
        rw [loop_retry rnd a o rest ha hs]
        have := ih (a + 1)
        have := ((handle_sleepRetry _ _).mp hs).2
        simp [nCalls]; omega
    · rw [loop_gt rnd a _ ha]; simp [nCalls]

theorem loop_zero_calls (rnd : Nat → Rat) (a : Nat) (outs : List Outcome) (ha : a ≤ maxExecutionCount)
    (h : nCalls (loop rnd a outs).trace = 0) : (loop rnd a outs).res = .pending := by
  cases outs with
  | nil => rw [loop_nil rnd a ha]
  | cons o rest =>
    cases hs : handle (a + 1) o with
    | done r => rw [loop_done rnd a o rest r ha hs] at h; simp [nCalls] at h
    | sleepRetry => rw [loop_retry rnd a o rest ha hs] at h; simp [nCalls] at h

/-- what happens at every consumed script position `i` (the execution counter there is `a + i + 1`) -/
theorem loop_at (rnd : Nat → Rat) (a : Nat) (outs : List Outcome) (i : Nat) (o : Outcome)
    (ho : outs[i]? = some o) (hi : i < nCalls (loop rnd a outs).trace) :
    (∀ r, handle (a + i + 1) o = .done r → nCalls (loop rnd a outs).trace = i + 1 ∧ (loop rnd a outs).res = r) ∧
    (handle (a + i + 1) o = .sleepRetry →
      i + 1 < nCalls (loop rnd a outs).trace ∨ (i + 1 = nCalls (loop rnd a outs).trace ∧ (loop rnd a outs).res = .pending)) := by
  induction outs generalizing a i with
  | nil => simp at ho
  | cons x rest ih =>
    by_cases ha : a ≤ maxExecutionCount
    · cases i with
      | zero =>
        simp at ho; subst ho
        simp only [Nat.add_zero]
        cases hs : handle (a + 1) x with
        | done r => rw [loop_done rnd a x rest r ha hs]; simp [nCalls]
        | sleepRetry =>
          rw [loop_retry rnd a x rest ha hs]
          have h1 := ((handle_sleepRetry _ _).mp hs).2
          simp [nCalls]
          by_cases hz : nCalls (loop rnd (a + 1) rest).trace = 0
          · right; exact ⟨by omega, loop_zero_calls rnd (a + 1) rest h1 hz⟩
          · left; omega
      | succ j =>
        simp at ho
        have hidx : a + (j + 1) + 1 = a + 1 + j + 1 := by omega
        rw [hidx]
        cases hs : handle (a + 1) x with
        | done r => rw [loop_done rnd a x rest r ha hs] at hi; simp [nCalls] at hi
        | sleepRetry =>
          rw [loop_retry rnd a x rest ha hs] at hi ⊢
          simp only [nCalls] at hi ⊢
          have := ih (a + 1) j ho (by omega)
          simpa using this
    · rw [loop_gt rnd a _ ha] at hi; simp [nCalls] at hi

/-- how a run can end -/
theorem loop_res (rnd : Nat → Rat) (a : Nat) (outs : List Outcome) :
    (a ≤ maxExecutionCount → (loop rnd a outs).res ≠ .loopExit) ∧
    ((loop rnd a outs).res = .pending → nCalls (loop rnd a outs).trace = outs.length ∧ a + outs.length ≤ maxExecutionCount) := by
  induction outs generalizing a with
  | nil =>
    by_cases ha : a ≤ maxExecutionCount
    · rw [loop_nil rnd a ha]; simp [nCalls, ha]
    · rw [loop_gt rnd a _ ha]; simp [ha]
  | cons x rest ih =>
    by_cases ha : a ≤ maxExecutionCount
    · cases hs : handle (a + 1) x with
      | done r =>
        rw [loop_done rnd a x rest r ha hs]
        have hd := handle_done (a + 1) x (by rw [hs]; simp)
        rw [hs] at hd
        injection hd with hd
        subst hd
        constructor
        · intro _; cases x <;> simp [terminal]; split <;> simp
        · cases x <;> simp [terminal]; split <;> simp
      | sleepRetry =>
        rw [loop_retry rnd a x rest ha hs]
        have h1 := ((handle_sleepRetry _ _).mp hs).2
        have := ih (a + 1)
        simp only [nCalls, List.length_cons]
        constructor
        · intro _; exact this.1 h1
        · intro hp; have := this.2 hp; omega
    · rw [loop_gt rnd a _ ha]; simp [ha]

/-- the expected trace: `n` calls, the pause after the call of iteration `k` being `pause k (rnd k)`;
    with `pend` a pause also follows the last call -/
def backoff (rnd : Nat → Rat) (pend : Bool) : Nat → Nat → List Ev
  | _, 0 => []
  | k, n + 1 => if n = 0 && !pend then [.call] else .call :: .sleep (pause k (rnd k)) :: backoff rnd pend (k + 1) n

theorem loop_trace (rnd : Nat → Rat) (a : Nat) (outs : List Outcome) :
    (loop rnd a outs).trace = backoff rnd ((loop rnd a outs).res == .pending) a (nCalls (loop rnd a outs).trace) := by
  induction outs generalizing a with
  | nil =>
    by_cases ha : a ≤ maxExecutionCount
    · rw [loop_nil rnd a ha]; simp [nCalls, backoff]
    · rw [loop_gt rnd a _ ha]; simp [nCalls, backoff]
  | cons x rest ih =>
    by_cases ha : a ≤ maxExecutionCount
    · cases hs : handle (a + 1) x with
      | done r =>
        rw [loop_done rnd a x rest r ha hs]
        have hd := handle_done (a + 1) x (by rw [hs]; simp)
        rw [hs] at hd
        injection hd with hd
        subst hd
        have : (terminal x == Res.pending) = false := by
          cases x <;> simp [terminal]; split <;> simp
        simp [nCalls, backoff, this]
      | sleepRetry =>
        rw [loop_retry rnd a x rest ha hs]
        have h1 := ((handle_sleepRetry _ _).mp hs).2
        have := ih (a + 1)
        simp only [nCalls]
        by_cases hz : nCalls (loop rnd (a + 1) rest).trace = 0
        · have hp := loop_zero_calls rnd (a + 1) rest h1 hz
          rw [hz] at this ⊢
          simp [backoff, hp, this]
        · simp only [backoff]
          rw [if_neg (by simp [hz])]
          rw [← this]
    · rw [loop_gt rnd a _ ha]; simp [nCalls, backoff]

theorem nCalls_backoff (rnd : Nat → Rat) (pend : Bool) (k n : Nat) : nCalls (backoff rnd pend k n) = n := by
  induction n generalizing k with
  | zero => simp [backoff, nCalls]
  | succ n ih =>
    simp only [backoff]
    split
    · rename_i h; simp at h; simp [nCalls, h.1]
    · simp [nCalls, ih]

theorem sleeps_backoff_length (rnd : Nat → Rat) (pend : Bool) (k n : Nat) :
    (sleepsOf (backoff rnd pend k n)).length = if pend then n else n - 1 := by
  induction n generalizing k with
  | zero => simp [backoff, sleepsOf]
  | succ n ih =>
    simp only [backoff]
    split
    · rename_i h; simp at h; simp [sleepsOf, h.1, h.2]
    · rename_i h
      simp [sleepsOf, ih]
      cases pend <;> simp at h ⊢
      omega

/-- `firstUnretryable` finds the first item whose status is missing or not in the list -/
theorem firstUnretryable_none (sts : List (Option Nat)) :
    firstUnretryable sts = none ↔ ∀ x ∈ sts, itemRetryable x = true := by
  induction sts with
  | nil => simp [firstUnretryable]
  | cons x rest ih =>
    simp only [firstUnretryable]
    by_cases hx : itemRetryable x = true
    · simp [hx, ih]
    · simp [hx]

theorem firstUnretryable_some (sts : List (Option Nat)) (j : Nat) (h : firstUnretryable sts = some j) :
    (∃ x, sts[j]? = some x ∧ itemRetryable x = false) ∧
    ∀ i, i < j → ∃ y, sts[i]? = some y ∧ itemRetryable y = true := by
  induction sts generalizing j with
  | nil => simp [firstUnretryable] at h
  | cons x rest ih =>
    simp only [firstUnretryable] at h
    by_cases hx : itemRetryable x = true
    · rw [if_pos hx] at h
      cases hr : firstUnretryable rest with
      | none => simp [hr] at h
      | some j' =>
        simp [hr] at h
        subst h
        have := ih j' hr
        refine ⟨by simpa using this.1, ?_⟩
        intro i hi
        cases i with
        | zero => exact ⟨x, by simp, hx⟩
        | succ i' => simpa using this.2 i' (by omega)
    · rw [if_neg hx] at h
      injection h with h
      subst h
      exact ⟨⟨x, by simp, by simpa using hx⟩, by intro i hi; omega⟩

/-! ### the loop never looks at the object a successful invocation returns -/

def retagStep (f : Nat → Nat) : Step → Step
  | .done r => .done (retagRes f r)
  | .sleepRetry => .sleepRetry

theorem handle_retag (f : Nat → Nat) (c : Nat) (o : Outcome) : handle c (retag f o) = retagStep f (handle c o) := by
  cases o with
  | bulk sts =>
    simp only [retag, handle]
    cases firstUnretryable sts with
    | some i => rfl
    | none => simp only []; split <;> rfl
  | api s => simp only [retag, handle]; split <;> rfl
  | connTimeout => simp only [retag, handle]; split <;> rfl
  | connError => simp only [retag, handle]; split <;> rfl
  | _ => rfl

theorem loop_retag (rnd : Nat → Rat) (f : Nat → Nat) (a : Nat) (outs : List Outcome) :
    loop rnd a (outs.map (retag f)) = ⟨retagRes f (loop rnd a outs).res, (loop rnd a outs).trace⟩ := by
  induction outs generalizing a with
  | nil => simp only [List.map_nil, loop]; split <;> rfl
  | cons o rest ih =>
    by_cases ha : a ≤ maxExecutionCount
    · cases hs : handle (a + 1) o with
      | done r =>
        have h' : handle (a + 1) (retag f o) = .done (retagRes f r) := by rw [handle_retag, hs]; rfl
        rw [List.map_cons, loop_done rnd a _ _ _ ha h', loop_done rnd a o rest r ha hs]
      | sleepRetry =>
        have h' : handle (a + 1) (retag f o) = .sleepRetry := by rw [handle_retag, hs]; rfl
        rw [List.map_cons, loop_retry rnd a _ _ ha h', loop_retry rnd a o rest ha hs, ih (a + 1)]
    · rw [loop_gt rnd a _ ha, loop_gt rnd a _ ha]; rfl

theorem Value.code_lt (v : Value) : v.code < nValues := by cases v <;> decide

theorem Value.ofCode_code (v : Value) : Value.ofCode v.code = v := by cases v <;> rfl

theorem tagAttempt_resultTag (a : Nat) (v : Value) : tagAttempt (resultTag a v) = a := by
  have := Value.code_lt v
  simp only [tagAttempt, resultTag, nValues] at *
  omega

theorem tagValue_resultTag (a : Nat) (v : Value) : tagValue (resultTag a v) = v := by
  have h := Value.code_lt v
  have : (a * nValues + v.code) % nValues = v.code := by
    simp only [nValues] at *
    omega
  simp only [tagValue, resultTag, this, Value.ofCode_code]

end Guarded

namespace Guarded

/-- every document ever added is either acknowledged or still buffered, in order, none twice -/
def StoreInv (s : Store) : Prop := s.acked ++ s.buffer = List.range s.next

theorem flushStep_inv (rnd : Nat → Rat) (s : Store) (refresh : Bool) (bulk refr : List Outcome) (h : StoreInv s) :
    StoreInv (flushStep rnd s refresh bulk refr).1 := by
  unfold StoreInv at h ⊢
  by_cases he : s.buffer.isEmpty = true
  · cases refresh <;> simp [flushStep, he, h]
  · by_cases hb : isReturned (callThenSucceed rnd s.draws bulk).res = true
    · cases refresh <;> simp [flushStep, he, hb, h]
    · cases refresh <;> simp [flushStep, he, hb, h]

theorem storeStep_inv (rnd : Nat → Rat) (s : Store) (st : StoreStep) (h : StoreInv s) : StoreInv (storeStep rnd s st).1 := by
  cases st with
  | put n =>
    unfold StoreInv at h ⊢
    simp only [storeStep]
    rw [← List.append_assoc, h, List.range_add]
  | flush refresh bulk refr => exact flushStep_inv rnd s refresh bulk refr h

theorem runStore_inv (rnd : Nat → Rat) (s : Store) (steps : List StoreStep) (h : StoreInv s) :
    StoreInv (runStore rnd s steps).1 := by
  induction steps generalizing s with
  | nil => exact h
  | cons st rest ih =>
    simp only [runStore]
    exact ih _ (storeStep_inv rnd s st h)

/-- a flush whose bulk call did not raise leaves an empty buffer; otherwise it raised after that one call and
    buffer and acknowledgements are as before -/
theorem flushStep_buffer (rnd : Nat → Rat) (s : Store) (refresh : Bool) (bulk refr : List Outcome) :
    (flushStep rnd s refresh bulk refr).1.buffer = [] ∨
    ((flushStep rnd s refresh bulk refr).2.err.isSome = true ∧ (flushStep rnd s refresh bulk refr).2.runs.length = 1 ∧
      (flushStep rnd s refresh bulk refr).1.buffer = s.buffer ∧ (flushStep rnd s refresh bulk refr).1.acked = s.acked) := by
  by_cases he : s.buffer.isEmpty = true
  · left
    have : s.buffer = [] := by simpa using he
    cases refresh <;> simp [flushStep, he, this]
  · by_cases hb : isReturned (callThenSucceed rnd s.draws bulk).res = true
    · left; cases refresh <;> simp [flushStep, he, hb]
    · right; cases refresh <;> simp [flushStep, he, hb]

end Guarded
