import RallyProofs.Mechanic

/-! the protocol does not depend on the switches that only parameterise the node-level clean-up
(`preserve.install`) and the storing of system metrics (race found in the race store) -/

set_option linter.unusedSimpArgs false
set_option linter.unusedVariables false

namespace Mechanic

/-- everything except the calls on the Mechanic's collaborators: messages sent / received / dead-lettered,
actors created and exited, registrations, wake-ups -/
def isProto : Out → Bool
  | .call _ _ => false
  | _ => true

def isProtoEff : Eff → Bool
  | .call _ _ => false
  | _ => true

/-- the configuration with other clean-up / metrics-store switches -/
def Config.withSwitches (cfg : Config) (preserve raceFound : Bool) : Config :=
  { cfg with preserve := preserve, raceFound := raceFound }

theorem recvMech_switch (cfg : Config) (p r : Bool) (st : MSt) (msg : Msg) (src : Aid) :
    recvMech (cfg.withSwitches p r) st msg src = recvMech cfg st msg src := by
  cases msg <;> rfl

theorem recvDisp_switch (cfg : Config) (p r : Bool) (st : DSt) (msg : Msg) (src : Aid) :
    recvDisp (cfg.withSwitches p r) st msg src = recvDisp cfg st msg src := by
  cases msg <;> rfl

theorem stopEffs_proto (cfg : Config) (m : Mech) : (stopEffs cfg m).filter isProtoEff = [] := by
  apply List.filter_eq_nil_iff.2
  intro e he
  have := stopEffs_kind cfg m e he
  cases e <;> simp [isStopEff, isProtoEff] at this ⊢

theorem recvNode_switch (cfg : Config) (p r : Bool) (h : Nat) (st : NSt) (msg : Msg) (src : Aid) :
    (recvNode (cfg.withSwitches p r) h st msg src).1 = (recvNode cfg h st msg src).1 ∧
      (recvNode (cfg.withSwitches p r) h st msg src).2.filter isProtoEff = (recvNode cfg h st msg src).2.filter isProtoEff := by
  cases msg <;> try exact ⟨rfl, rfl⟩
  · simp only [recvNode]
    split
    · exact ⟨rfl, by simp [List.filter_append, stopEffs_proto]⟩
    · exact ⟨rfl, rfl⟩
  · simp only [recvNode]
    split
    · exact ⟨rfl, by simp [List.filter_append, stopEffs_proto]⟩
    · exact ⟨rfl, rfl⟩

theorem applyEffs_filter (self : Aid) (effs : List Eff) (s : State) :
    applyEffs self s (effs.filter isProtoEff) = applyEffs self s effs := by
  induction effs generalizing s with
  | nil => rfl
  | cons e rest ih =>
    cases e <;> simp only [List.filter_cons, isProtoEff, applyEffs, List.foldl_cons, if_true] <;>
      first
      | exact ih _
      | (simp only [Bool.false_eq_true, if_false]; exact ih _)

theorem applyEffs_congr {self : Aid} {e1 e2 : List Eff} (s : State) (h : e1.filter isProtoEff = e2.filter isProtoEff) :
    applyEffs self s e1 = applyEffs self s e2 := by
  rw [← applyEffs_filter self e1, ← applyEffs_filter self e2, h]

theorem map_toOut_filter (self : Aid) (effs : List Eff) :
    (effs.map (toOut self)).filter isProto = (effs.filter isProtoEff).map (toOut self) := by
  induction effs with
  | nil => rfl
  | cons e rest ih => cases e <;> simp [toOut, isProto, isProtoEff, List.filter_cons, ih]

/-- same state, same protocol outputs -/
def SameProto : Option (State × List Out) → Option (State × List Out) → Prop
  | none, none => True
  | some (s, o), some (s', o') => s = s' ∧ o.filter isProto = o'.filter isProto
  | _, _ => False

theorem handle_switch (cfg : Config) (p r : Bool) (s : State) (dst src : Aid) (msg : Msg) :
    (handle (cfg.withSwitches p r) s dst src msg = none ∧ handle cfg s dst src msg = none) ∨
      ∃ s1 e1 e2, handle (cfg.withSwitches p r) s dst src msg = some (s1, e1) ∧ handle cfg s dst src msg = some (s1, e2) ∧
        e1.filter isProtoEff = e2.filter isProtoEff := by
  cases dst with
  | rc => exact Or.inr ⟨_, _, _, rfl, rfl, rfl⟩
  | sys => exact Or.inr ⟨_, _, _, rfl, rfl, rfl⟩
  | mech =>
    right
    simp only [handle, recvMech_switch]
    exact ⟨_, _, _, rfl, rfl, rfl⟩
  | disp =>
    cases hd : s.dispCreated with
    | true =>
      right
      simp only [handle, recvDisp_switch, hd, if_true]
      exact ⟨_, _, _, rfl, rfl, rfl⟩
    | false =>
      left
      simp [handle, hd]
  | node h =>
    cases ha : (s.n h).alive with
    | true =>
      right
      obtain ⟨k1, k2⟩ := recvNode_switch cfg p r h (s.n h) msg src
      simp only [handle, ha, if_true]
      exact ⟨_, _, _, by rw [k1], rfl, k2⟩
    | false =>
      left
      simp [handle, ha]

theorem receive_switch (cfg : Config) (p r : Bool) (s : State) (dst src : Aid) (msg : Msg) :
    (receive (cfg.withSwitches p r) s dst src msg).1 = (receive cfg s dst src msg).1 ∧
      (receive (cfg.withSwitches p r) s dst src msg).2.filter isProto = (receive cfg s dst src msg).2.filter isProto := by
  rcases handle_switch cfg p r s dst src msg with ⟨h1, h2⟩ | ⟨s1, e1, e2, h1, h2, h3⟩
  · simp [receive, h1, h2]
  · simp only [receive, h1, h2]
    refine ⟨applyEffs_congr s1 h3, ?_⟩
    simp only [List.filter_cons, isProto, if_true, map_toOut_filter, h3]

theorem step_switch (cfg : Config) (p r : Bool) (s : State) (e : Event) :
    SameProto (step (cfg.withSwitches p r) s e) (step cfg s e) := by
  cases e with
  | rcStart => simp only [step]; split <;> simp [SameProto]
  | rcStop => simp only [step]; split <;> simp [SameProto]
  | sysConv a ip => simp only [step]; split <;> simp [SameProto]
  | deliver src dst =>
    simp only [step]
    split
    · trivial
    · exact receive_switch cfg p r _ dst src _
  | timer h =>
    simp only [step]
    split
    · exact receive_switch cfg p r _ _ _ _
    · trivial

/-- whole histories: the same events are enabled, they lead to the same state and to the same protocol outputs -/
theorem run_switch (cfg : Config) (p r : Bool) (s : State) (es : List Event) :
    SameProto (run (cfg.withSwitches p r) s es) (run cfg s es) := by
  induction es generalizing s with
  | nil => simp [run, SameProto]
  | cons e es ih =>
    have h1 := step_switch cfg p r s e
    simp only [run]
    cases ha : step (cfg.withSwitches p r) s e with
    | none =>
      cases hb : step cfg s e with
      | none => trivial
      | some x => rw [ha, hb] at h1; obtain ⟨_, _⟩ := x; exact h1.elim
    | some x =>
      obtain ⟨s1, o1⟩ := x
      cases hb : step cfg s e with
      | none => rw [ha, hb] at h1; exact h1.elim
      | some y =>
        obtain ⟨s2, o2⟩ := y
        rw [ha, hb] at h1
        obtain ⟨k1, k2⟩ := h1
        subst k1
        have h2 := ih s1
        simp only []
        cases hc : run (cfg.withSwitches p r) s1 es with
        | none =>
          cases hd : run cfg s1 es with
          | none => trivial
          | some z => rw [hc, hd] at h2; obtain ⟨_, _⟩ := z; exact h2.elim
        | some z =>
          obtain ⟨s3, o3⟩ := z
          cases hd : run cfg s1 es with
          | none => rw [hc, hd] at h2; exact h2.elim
          | some w =>
            obtain ⟨s4, o4⟩ := w
            rw [hc, hd] at h2
            obtain ⟨k3, k4⟩ := h2
            exact ⟨k3, by simp only [List.filter_append, k2, k4]⟩


/-- in terms of reachability: whatever is reachable with other switches is reachable with these, in the same
state and with the same protocol trace -/
theorem reach_switch {cfg : Config} {p r : Bool} {s : State} {tr : List Out} (hr : Reach (cfg.withSwitches p r) s tr) :
    ∃ tr', Reach cfg s tr' ∧ tr.filter isProto = tr'.filter isProto := by
  induction hr with
  | init => exact ⟨[], Reach.init, rfl⟩
  | @step s s' tr outs e hr hs ih =>
    obtain ⟨tr', h1, h2⟩ := ih
    have h3 := step_switch cfg p r s e
    rw [hs] at h3
    cases hb : step cfg s e with
    | none => rw [hb] at h3; exact h3.elim
    | some y =>
      obtain ⟨s2, o2⟩ := y
      rw [hb] at h3
      obtain ⟨k1, k2⟩ := h3
      subst k1
      exact ⟨tr' ++ o2, Reach.step h1 hb, by simp only [List.filter_append, h2, k2]⟩

end Mechanic
