import RallyModel.Mechanic

set_option linter.unusedSimpArgs false
set_option linter.unusedVariables false

namespace Mechanic

inductive Reach (cfg : Config) : State → List Out → Prop
  | init : Reach cfg State.init []
  | step {s s' : State} {tr outs : List Out} {e : Event} :
      Reach cfg s tr → step cfg s e = some (s', outs) → Reach cfg s' (tr ++ outs)

/-- messages told to `b` by a list of effects -/
def told (b : Aid) : List Eff → List Msg
  | [] => []
  | .tell d m :: r => if d = b then m :: told b r else told b r
  | .call _ _ :: r => told b r
  | .createNode _ :: r => told b r
  | .createDisp :: r => told b r
  | .notify _ :: r => told b r
  | .wake :: r => told b r
  | .exit :: r => told b r

theorem applyEffs_chan (self : Aid) (effs : List Eff) (s : State) (a b : Aid) :
    (applyEffs self s effs).chan a b = s.chan a b ++ (if a = self then told b effs else []) := by
  induction effs generalizing s with
  | nil => simp [applyEffs, told]
  | cons e r ih =>
    have : applyEffs self s (e :: r) = applyEffs self (applyEff self s e) r := by simp [applyEffs]
    rw [this, ih]
    cases e <;> simp [applyEff, told, push]
    all_goals (by_cases h1 : a = self <;> simp [h1])
    rename_i dst m
    by_cases h2 : b = dst
    · subst h2; simp
    · have h3 : ¬ dst = b := fun h => h2 h.symm
      simp [h2, h3]


@[simp] theorem applyEffs_m (self : Aid) (effs : List Eff) (s : State) : (applyEffs self s effs).m = s.m := by
  induction effs generalizing s with
  | nil => rfl
  | cons e r ih =>
    have : applyEffs self s (e :: r) = applyEffs self (applyEff self s e) r := by simp [applyEffs]
    rw [this, ih]; cases e <;> rfl

@[simp] theorem applyEffs_d (self : Aid) (effs : List Eff) (s : State) : (applyEffs self s effs).d = s.d := by
  induction effs generalizing s with
  | nil => rfl
  | cons e r ih =>
    have : applyEffs self s (e :: r) = applyEffs self (applyEff self s e) r := by simp [applyEffs]
    rw [this, ih]; cases e <;> rfl

@[simp] theorem applyEffs_r (self : Aid) (effs : List Eff) (s : State) : (applyEffs self s effs).r = s.r := by
  induction effs generalizing s with
  | nil => rfl
  | cons e r ih =>
    have : applyEffs self s (e :: r) = applyEffs self (applyEff self s e) r := by simp [applyEffs]
    rw [this, ih]; cases e <;> rfl

theorem applyEffs_n (self : Aid) (effs : List Eff) (s : State) (h : Nat) :
    (applyEffs self s effs).n h = if Eff.createNode h ∈ effs then NSt.fresh else s.n h := by
  induction effs generalizing s with
  | nil => simp [applyEffs]
  | cons e r ih =>
    have : applyEffs self s (e :: r) = applyEffs self (applyEff self s e) r := by simp [applyEffs]
    rw [this, ih]
    by_cases hr : Eff.createNode h ∈ r
    · simp [hr]
    · cases e <;> simp [hr, applyEff, updN]

theorem applyEffs_dispCreated (self : Aid) (effs : List Eff) (s : State) :
    (applyEffs self s effs).dispCreated = (s.dispCreated || decide (Eff.createDisp ∈ effs)) := by
  induction effs generalizing s with
  | nil => simp [applyEffs]
  | cons e r ih =>
    have : applyEffs self s (e :: r) = applyEffs self (applyEff self s e) r := by simp [applyEffs]
    rw [this, ih]
    cases e <;> simp [applyEff]

/-- how a receiving step starts: a message popped from a channel, or a timer firing -/
inductive Pre (s : State) : State → Aid → Aid → Msg → Prop
  | pop (src dst : Aid) (msg : Msg) (rest : List Msg) : s.chan src dst = msg :: rest →
      Pre s { s with chan := setChan s.chan src dst rest } dst src msg
  | timer (h : Nat) : (s.n h).alive = true → (s.n h).timers > 0 →
      Pre s { s with n := updN s.n h { s.n h with timers := (s.n h).timers - 1 } } (.node h) (.node h) .wakeup

theorem step_elim {cfg : Config} {s s' : State} {e : Event} {outs : List Out}
    (hs : step cfg s e = some (s', outs)) {motive : State → List Out → Prop}
    (rcStart : s.r.sentStart = false →
      motive { s with r := { s.r with sentStart := true }, chan := push s.chan .rc .mech .startEngine }
        [Out.send .rc .mech .startEngine])
    (rcStop : s.r.started > 0 → s.r.sentStop = false →
      motive { s with r := { s.r with sentStop := true }, chan := push s.chan .rc .mech .stopEngine }
        [Out.send .rc .mech .stopEngine])
    (sysConv : ∀ added ip, s.d.registered = true →
      motive { s with chan := push s.chan .sys .disp (.conv added ip) } [Out.send .sys .disp (.conv added ip)])
    (dead : ∀ s0 dst src msg, Pre s s0 dst src msg → handle cfg s0 dst src msg = none →
      motive s0 [Out.dead dst src msg])
    (recv : ∀ s0 dst src msg s1 effs, Pre s s0 dst src msg → handle cfg s0 dst src msg = some (s1, effs) →
      motive (applyEffs dst s1 effs) (Out.recv dst src msg :: effs.map (toOut dst))) :
    motive s' outs := by
  cases e with
  | rcStart =>
    simp only [step] at hs
    split at hs
    · cases hs
    · rename_i h; cases hs; exact rcStart (by simpa using h)
  | rcStop =>
    simp only [step] at hs
    split at hs
    · rename_i h; cases hs; exact rcStop h.1 (by simpa using h.2)
    · cases hs
  | sysConv added ip =>
    simp only [step] at hs
    split at hs
    · rename_i h; cases hs; exact sysConv added ip h
    · cases hs
  | deliver src dst =>
    simp only [step] at hs
    split at hs
    · cases hs
    · rename_i msg rest hc
      have hp := Pre.pop (s := s) src dst msg rest hc
      simp only [receive] at hs
      split at hs
      · rename_i hh; cases hs; exact dead _ _ _ _ hp hh
      · rename_i s1 effs hh; cases hs; exact recv _ _ _ _ _ _ hp hh
  | timer h =>
    simp only [step] at hs
    split at hs
    · rename_i hc
      have hp := Pre.timer (s := s) h hc.1 hc.2
      simp only [receive] at hs
      split at hs
      · rename_i hh; cases hs; exact dead _ _ _ _ hp hh
      · rename_i s1 effs hh; cases hs; exact recv _ _ _ _ _ _ hp hh
    · cases hs


theorem handle_chan {cfg : Config} {s0 s1 : State} {dst src : Aid} {msg : Msg} {effs : List Eff}
    (h : handle cfg s0 dst src msg = some (s1, effs)) : s1.chan = s0.chan := by
  cases dst <;> simp only [handle] at h
  · cases h; rfl
  · cases h; rfl
  · split at h
    · cases h; rfl
    · cases h
  · cases h; rfl
  · split at h
    · cases h; rfl
    · cases h

theorem count_toOut_send (self a b : Aid) (m : Msg) (effs : List Eff) :
    (effs.map (toOut self)).count (Out.send a b m) = if a = self then (told b effs).count m else 0 := by
  induction effs with
  | nil => simp [told]
  | cons e r ih =>
    cases e with
    | tell d m' =>
      simp only [List.map_cons, toOut, told, List.count_cons, ih]
      by_cases h1 : a = self
      · subst h1
        by_cases h2 : d = b
        · subst h2
          by_cases h3 : m' = m <;> simp [h3]
        · have : ¬ (Out.send a d m' = Out.send a b m) := by intro hh; injection hh with _ h4 _; exact h2 h4
          simp [h2, this]
      · have : ¬ (Out.send self d m' = Out.send a b m) := by intro hh; injection hh with h4 _ _; exact h1 h4.symm
        simp [h1, this]
    | _ => simp [toOut, told, ih]

theorem count_toOut_recv (self a b : Aid) (m : Msg) (effs : List Eff) :
    (effs.map (toOut self)).count (Out.recv a b m) = 0 := by
  induction effs with
  | nil => simp
  | cons e r ih => cases e <;> simp [toOut, ih]

theorem count_toOut_dead (self a b : Aid) (m : Msg) (effs : List Eff) :
    (effs.map (toOut self)).count (Out.dead a b m) = 0 := by
  induction effs with
  | nil => simp
  | cons e r ih => cases e <;> simp [toOut, ih]

theorem count_ite_nil (c : Prop) [Decidable c] (l : List Msg) (m : Msg) :
    (if c then l else []).count m = if c then l.count m else 0 := by
  split <;> simp

theorem count_push (ch : Aid → Aid → List Msg) (x y a b : Aid) (m m' : Msg) :
    (push ch x y m' a b).count m = (ch a b).count m + if a = x ∧ b = y ∧ m' = m then 1 else 0 := by
  unfold push
  by_cases h : a = x ∧ b = y
  · by_cases h3 : m' = m <;> simp [h, h3, List.count_append]
  · have : ¬ (a = x ∧ b = y ∧ m' = m) := fun hh => h ⟨hh.1, hh.2.1⟩
    simp [h, this]

/-- every message ever sent is still in its channel, or was received, or became a dead letter
(wake-ups are timers, not channel messages) -/
theorem conservation {cfg : Config} {s : State} {tr : List Out} (hr : Reach cfg s tr)
    (a b : Aid) (m : Msg) (hm : m ≠ .wakeup) :
    tr.count (Out.send a b m) = (s.chan a b).count m + tr.count (Out.recv b a m) + tr.count (Out.dead b a m) := by
  induction hr with
  | init => simp [State.init]
  | @step s s' tr outs e hr hs ih =>
    refine step_elim (motive := fun s' outs => (tr ++ outs).count (Out.send a b m) =
      (s'.chan a b).count m + (tr ++ outs).count (Out.recv b a m) + (tr ++ outs).count (Out.dead b a m)) hs ?_ ?_ ?_ ?_ ?_
    · intro _
      simp only [List.count_append, List.count_cons, List.count_nil, count_push, ih]
      by_cases h : a = Aid.rc ∧ b = Aid.mech ∧ Msg.startEngine = m
      · obtain ⟨h1, h2, h3⟩ := h; subst h1 h2 h3; simp; omega
      · have : ¬ (Out.send Aid.rc Aid.mech Msg.startEngine = Out.send a b m) := by
          intro hh; injection hh with h1 h2 h3; exact h ⟨h1.symm, h2.symm, h3⟩
        simp [h, this]
    · intro _ _
      simp only [List.count_append, List.count_cons, List.count_nil, count_push, ih]
      by_cases h : a = Aid.rc ∧ b = Aid.mech ∧ Msg.stopEngine = m
      · obtain ⟨h1, h2, h3⟩ := h; subst h1 h2 h3; simp; omega
      · have : ¬ (Out.send Aid.rc Aid.mech Msg.stopEngine = Out.send a b m) := by
          intro hh; injection hh with h1 h2 h3; exact h ⟨h1.symm, h2.symm, h3⟩
        simp [h, this]
    · intro added ip _
      simp only [List.count_append, List.count_cons, List.count_nil, count_push, ih]
      by_cases h : a = Aid.sys ∧ b = Aid.disp ∧ Msg.conv added ip = m
      · obtain ⟨h1, h2, h3⟩ := h; subst h1 h2 h3; simp; omega
      · have : ¬ (Out.send Aid.sys Aid.disp (Msg.conv added ip) = Out.send a b m) := by
          intro hh; injection hh with h1 h2 h3; exact h ⟨h1.symm, h2.symm, h3⟩
        simp [h, this]
    · intro s0 dst src msg hp _
      cases hp with
      | pop src dst msg rest hc =>
        simp only [List.count_append, List.count_cons, List.count_nil, ih, setChan]
        by_cases h : a = src ∧ b = dst
        · obtain ⟨h1, h2⟩ := h; subst h1 h2
          simp [hc, List.count_cons]
          by_cases h3 : msg = m
          · subst h3; simp; omega
          · have : ¬ (Out.dead b a msg = Out.dead b a m) := by intro hh; injection hh with _ _ h4; exact h3 h4
            simp [h3, this]
        · have : ¬ (Out.dead dst src msg = Out.dead b a m) := by
            intro hh; injection hh with h1 h2 _; exact h ⟨h2.symm, h1.symm⟩
          simp [h, this]
      | timer h hal ht =>
        have : ¬ (Out.dead (Aid.node h) (Aid.node h) Msg.wakeup = Out.dead b a m) := by
          intro hh; injection hh with _ _ h4; exact hm h4.symm
        simp [List.count_append, List.count_cons, ih, this]
    · intro s0 dst src msg s1 effs hp hh
      have hc1 := handle_chan hh
      simp only [List.count_append, List.count_cons, List.count_nil, ih, applyEffs_chan, hc1,
        count_toOut_send, count_toOut_recv, count_toOut_dead, count_ite_nil]
      cases hp with
      | pop src dst msg rest hc =>
        simp only [setChan]
        by_cases h : a = src ∧ b = dst
        · obtain ⟨h1, h2⟩ := h; subst h1 h2
          simp [hc, List.count_cons]
          by_cases h3 : msg = m
          · subst h3; simp; omega
          · have : ¬ (Out.recv b a msg = Out.recv b a m) := by intro hh; injection hh with _ _ h4; exact h3 h4
            simp [h3, this]; omega
        · have : ¬ (Out.recv dst src msg = Out.recv b a m) := by
            intro hh; injection hh with h1 h2 _; exact h ⟨h2.symm, h1.symm⟩
          simp [h, this]; omega
      | timer h hal ht =>
        have : ¬ (Out.recv (Aid.node h) (Aid.node h) Msg.wakeup = Out.recv b a m) := by
          intro hh; injection hh with _ _ h4; exact hm h4.symm
        simp [this]; omega

end Mechanic
