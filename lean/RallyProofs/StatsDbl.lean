import RallyModel.Dbl
import Mathlib.Tactic.Linarith
import Mathlib.Tactic.Ring
import Mathlib.Tactic.Positivity
import Mathlib.Tactic.NormNum
import Mathlib.Tactic.FieldSimp
import Mathlib.Algebra.Order.Field.Power
/-! Facts about the `Dbl` rounding model used by C08 (all proved, no floating-point axioms):
    `ilog2_spec`, `fl_err` / `fl_rel_err` (half-ulp / 2⁻⁵³ relative error), `fl_exact` (doubles are fixed points),
    `fl_neg`, `fl_mono` (round-to-nearest is monotone). Exponent range is unbounded (no overflow / subnormals). -/

namespace StatsDbl
open Dbl

theorem pow2_eq_zpow (e : Int) : pow2 e = (2 : Rat) ^ e := by
  unfold pow2
  split
  · next h =>
    have : e = (e.toNat : Int) := (Int.toNat_of_nonneg h).symm
    conv_rhs => rw [this]
    rw [zpow_natCast]
    push_cast
    rfl
  · next h =>
    have : e = -((-e).toNat : Int) := by
      rw [Int.toNat_of_nonneg (by omega)]; ring
    conv_rhs => rw [this]
    rw [zpow_neg, zpow_natCast]
    push_cast
    rw [one_div]

theorem pow2_pos (e : Int) : 0 < pow2 e := by
  rw [pow2_eq_zpow]; positivity

theorem pow2_add (a b : Int) : pow2 (a + b) = pow2 a * pow2 b := by
  simp only [pow2_eq_zpow]
  exact zpow_add₀ (by norm_num) a b

theorem pow2_le {a b : Int} (h : a ≤ b) : pow2 a ≤ pow2 b := by
  simp only [pow2_eq_zpow]
  exact zpow_le_zpow_right₀ (by norm_num) h

theorem pow2_lt {a b : Int} (h : a < b) : pow2 a < pow2 b := by
  simp only [pow2_eq_zpow]
  exact zpow_lt_zpow_right₀ (by norm_num) h

theorem pow2_lt_iff {a b : Int} : pow2 a < pow2 b ↔ a < b := by
  simp only [pow2_eq_zpow]
  exact zpow_lt_zpow_iff_right₀ (by norm_num)

theorem pow2_natCast (k : Nat) : pow2 (k : Int) = ((2 ^ k : Nat) : Rat) := by
  rw [pow2_eq_zpow, zpow_natCast]; push_cast; rfl

/-! ### `rhe` (round half to even) -/

theorem rhe_bounds (q : Rat) : q.floor ≤ rhe q ∧ rhe q ≤ q.floor + 1 := by
  unfold rhe
  simp only
  split_ifs <;> omega

theorem rhe_intCast (z : Int) : rhe (z : Rat) = z := by
  unfold rhe
  simp only [Rat.floor_intCast, sub_self]
  norm_num

theorem rhe_err (q : Rat) : |((rhe q : Int) : Rat) - q| ≤ 1 / 2 := by
  have h1 := Rat.floor_le q
  have h2 := Rat.lt_floor_add_one q
  push_cast at h2
  unfold rhe
  simp only
  split_ifs <;> rw [abs_le] <;> constructor <;> push_cast <;> linarith

theorem rhe_mono {q q' : Rat} (h : q ≤ q') : rhe q ≤ rhe q' := by
  have hf : q.floor ≤ q'.floor := Rat.floor_monotone h
  rcases lt_or_eq_of_le hf with hlt | heq
  · have := (rhe_bounds q).2
    have := (rhe_bounds q').1
    omega
  · unfold rhe
    simp only
    rw [← heq]
    have hd : q - (q.floor : Rat) ≤ q' - (q.floor : Rat) := by linarith
    split_ifs <;> first | omega | (exfalso; linarith)

theorem rhe_nonneg {q : Rat} (h : 0 ≤ q) : 0 ≤ rhe q := by
  have := rhe_mono h
  rw [show (0 : Rat) = ((0 : Int) : Rat) by norm_num, rhe_intCast] at this
  exact this

/-! ### `ilog2` is ⌊log₂ |q|⌋ -/

theorem qabs_eq_abs (q : Rat) : qabs q = |q| := by
  unfold qabs
  split_ifs with h
  · rw [abs_of_neg h]
  · rw [abs_of_nonneg (not_lt.mp h)]

theorem ilog2_spec {q : Rat} (hq : q ≠ 0) : pow2 (ilog2 q) ≤ |q| ∧ |q| < pow2 (ilog2 q + 1) := by
  have ha : 0 < qabs q := by rw [qabs_eq_abs]; exact abs_pos.mpr hq
  rw [← qabs_eq_abs]
  unfold ilog2
  simp only
  generalize qabs q = a at ha ⊢
  have hnum : 0 < a.num := Rat.num_pos.mpr ha
  have hN : ((a.num.natAbs : Nat) : Int) = a.num := Int.natAbs_of_nonneg (le_of_lt hnum)
  have hNpos : a.num.natAbs ≠ 0 := by omega
  have hDpos : a.den ≠ 0 := a.den_nz
  have haeq : a = ((a.num.natAbs : Nat) : Rat) / ((a.den : Nat) : Rat) := by
    have h1 : (a.num : Rat) = ((a.num.natAbs : Nat) : Rat) := by
      conv_lhs => rw [← hN]
      exact Int.cast_natCast _
    have := Rat.num_div_den a
    rw [h1] at this
    exact this.symm
  generalize a.num.natAbs = N at hN hNpos haeq ⊢
  generalize a.den = D at hDpos haeq ⊢
  have hD0 : (0 : Rat) < (D : Rat) := by exact_mod_cast Nat.pos_of_ne_zero hDpos
  have n1 : ((2 ^ N.log2 : Nat) : Rat) ≤ (N : Rat) := by exact_mod_cast Nat.log2_self_le hNpos
  have n2 : (N : Rat) < ((2 ^ (N.log2 + 1) : Nat) : Rat) := by exact_mod_cast (Nat.lt_log2_self (n := N))
  have d1 : ((2 ^ D.log2 : Nat) : Rat) ≤ (D : Rat) := by exact_mod_cast Nat.log2_self_le hDpos
  have d2 : (D : Rat) < ((2 ^ (D.log2 + 1) : Nat) : Rat) := by exact_mod_cast (Nat.lt_log2_self (n := D))
  have hhi : a < pow2 ((N.log2 : Int) - (D.log2 : Int) + 1) := by
    have e : pow2 ((N.log2 : Int) - (D.log2 : Int) + 1) = ((2 ^ (N.log2 + 1) : Nat) : Rat) / ((2 ^ D.log2 : Nat) : Rat) := by
      rw [show (N.log2 : Int) - (D.log2 : Int) + 1 = ((N.log2 + 1 : Nat) : Int) - ((D.log2 : Nat) : Int) by push_cast; ring]
      rw [pow2_eq_zpow, zpow_sub₀ (by norm_num), zpow_natCast, zpow_natCast]
      push_cast; rfl
    rw [e, haeq]
    have p1 : (0 : Rat) < ((2 ^ D.log2 : Nat) : Rat) := by positivity
    rw [div_lt_div_iff₀ hD0 p1]
    nlinarith
  have hlo : pow2 ((N.log2 : Int) - (D.log2 : Int) - 1) < a := by
    have e : pow2 ((N.log2 : Int) - (D.log2 : Int) - 1) = ((2 ^ N.log2 : Nat) : Rat) / ((2 ^ (D.log2 + 1) : Nat) : Rat) := by
      rw [show (N.log2 : Int) - (D.log2 : Int) - 1 = ((N.log2 : Nat) : Int) - ((D.log2 + 1 : Nat) : Int) by push_cast; ring]
      rw [pow2_eq_zpow, zpow_sub₀ (by norm_num), zpow_natCast, zpow_natCast]
      push_cast; rfl
    rw [e, haeq]
    have p1 : (0 : Rat) < ((2 ^ (D.log2 + 1) : Nat) : Rat) := by positivity
    have p0 : (0 : Rat) < ((2 ^ N.log2 : Nat) : Rat) := by positivity
    rw [div_lt_div_iff₀ p1 hD0]
    nlinarith
  split_ifs with h
  · exact ⟨h, hhi⟩
  · refine ⟨le_of_lt hlo, ?_⟩
    rw [show (N.log2 : Int) - (D.log2 : Int) - 1 + 1 = (N.log2 : Int) - (D.log2 : Int) by ring]
    exact not_le.mp h

/-! ### `fl` (round to nearest double, unbounded exponent range) -/

theorem fl_zero : fl 0 = 0 := by simp [fl]

theorem fl_def {q : Rat} (hq : q ≠ 0) :
    fl q = ((rhe (q / pow2 (ilog2 q - 52)) : Int) : Rat) * pow2 (ilog2 q - 52) := by
  unfold fl
  rw [if_neg hq]

theorem pow2_neg_one : pow2 (-1) = 1 / 2 := by
  rw [pow2_eq_zpow]; norm_num

/-- absolute error: half a unit in the last place -/
theorem fl_err {q : Rat} (hq : q ≠ 0) : |fl q - q| ≤ pow2 (ilog2 q - 53) := by
  rw [fl_def hq]
  set P := pow2 (ilog2 q - 52) with hP
  have hPpos : 0 < P := pow2_pos _
  have e1 : ((rhe (q / P) : Int) : Rat) * P - q = (((rhe (q / P) : Int) : Rat) - q / P) * P := by
    field_simp
  rw [e1, abs_mul, abs_of_pos hPpos]
  have e2 : pow2 (ilog2 q - 53) = 1 / 2 * P := by
    rw [show ilog2 q - 53 = -1 + (ilog2 q - 52) by ring, pow2_add, pow2_neg_one]
  rw [e2]
  exact mul_le_mul_of_nonneg_right (rhe_err _) (le_of_lt hPpos)

theorem pow2_neg53 : pow2 (-53) = 1 / 2 ^ 53 := by
  rw [pow2_eq_zpow]; norm_num

/-- relative error: `|fl q − q| ≤ 2⁻⁵³ · |q|` -/
theorem fl_rel_err (q : Rat) : |fl q - q| ≤ |q| / 2 ^ 53 := by
  by_cases hq : q = 0
  · subst hq; simp [fl_zero]
  · have h1 := fl_err hq
    have h2 := (ilog2_spec hq).1
    have e : pow2 (ilog2 q - 53) = pow2 (ilog2 q) / 2 ^ 53 := by
      rw [show ilog2 q - 53 = ilog2 q + (-53) by ring, pow2_add, pow2_neg53]; ring
    rw [e] at h1
    have : pow2 (ilog2 q) / 2 ^ 53 ≤ |q| / 2 ^ 53 := by
      apply div_le_div_of_nonneg_right h2; positivity
    linarith

/-- every rational `m · 2^j` with `|m| < 2^53` is a double: `fl` leaves it unchanged -/
theorem fl_exact (m j : Int) (hm : |m| < 2 ^ 53) : fl ((m : Rat) * pow2 j) = (m : Rat) * pow2 j := by
  by_cases hm0 : m = 0
  · subst hm0; simp [fl_zero]
  have hq : (m : Rat) * pow2 j ≠ 0 := mul_ne_zero (by exact_mod_cast hm0) (ne_of_gt (pow2_pos j))
  set q := (m : Rat) * pow2 j with hqdef
  -- ilog2 q < 53 + j
  have hL : ilog2 q < 53 + j := by
    have h1 := (ilog2_spec hq).1
    have h2 : |q| < pow2 (53 + j) := by
      rw [hqdef, abs_mul, abs_of_pos (pow2_pos j), pow2_add]
      apply mul_lt_mul_of_pos_right _ (pow2_pos j)
      rw [show (53 : Int) = ((53 : Nat) : Int) by norm_num, pow2_natCast]
      have : |(m : Rat)| = ((|m| : Int) : Rat) := by push_cast; rfl
      rw [this]
      exact_mod_cast hm
    exact pow2_lt_iff.mp (lt_of_le_of_lt h1 h2)
  rw [fl_def hq]
  set e := ilog2 q - 52 with he
  have hje : 0 ≤ j - e := by omega
  have e1 : q / pow2 e = ((m * 2 ^ (j - e).toNat : Int) : Rat) := by
    rw [hqdef, mul_div_assoc]
    have : pow2 j / pow2 e = pow2 (j - e) := by
      have h : pow2 j = pow2 (j - e) * pow2 e := by
        rw [← pow2_add]; congr 1; ring
      rw [h, mul_div_assoc, div_self (ne_of_gt (pow2_pos e)), mul_one]
    rw [this]
    have : j - e = ((j - e).toNat : Int) := (Int.toNat_of_nonneg hje).symm
    rw [this, pow2_natCast]
    push_cast
    rw [← this]
  rw [e1, rhe_intCast, ← e1]
  have := pow2_pos e
  field_simp

/-! ### monotonicity of `fl` -/

theorem rhe_neg (x : Rat) : rhe (-x) = -rhe x := by
  have hf1 := Rat.floor_le x
  have hf2 := Rat.lt_floor_add_one x
  push_cast at hf2
  have hnf : (-x).floor = -x.ceil := by
    have := Rat.ceil_eq_neg_floor_neg x
    omega
  by_cases hint : x = (x.floor : Rat)
  · rw [hint, show -((x.floor : Int) : Rat) = ((-x.floor : Int) : Rat) by push_cast; rfl, rhe_intCast, rhe_intCast]
  · have hlt : (x.floor : Rat) < x := lt_of_le_of_ne hf1 (Ne.symm hint)
    have hc : x.ceil = x.floor + 1 := by
      apply le_antisymm
      · apply Rat.ceil_le_iff.mpr; push_cast; linarith
      · have : x.floor < x.ceil := by
          rw [Rat.lt_ceil_iff]; exact hlt
        omega
    unfold rhe
    simp only [hnf, hc]
    push_cast
    split_ifs <;> first | omega | (exfalso; linarith)

theorem ilog2_neg (q : Rat) : ilog2 (-q) = ilog2 q := by
  unfold ilog2
  have : qabs (-q) = qabs q := by rw [qabs_eq_abs, qabs_eq_abs, abs_neg]
  simp only [this]

theorem fl_neg (q : Rat) : fl (-q) = -fl q := by
  by_cases hq : q = 0
  · subst hq; simp [fl_zero]
  · rw [fl_def hq, fl_def (neg_ne_zero.mpr hq), ilog2_neg, neg_div, rhe_neg]
    push_cast; ring

theorem fl_nonneg {q : Rat} (h : 0 ≤ q) : 0 ≤ fl q := by
  by_cases hq : q = 0
  · subst hq; simp [fl_zero]
  · rw [fl_def hq]
    have hP := pow2_pos (ilog2 q - 52)
    have : 0 ≤ rhe (q / pow2 (ilog2 q - 52)) := rhe_nonneg (div_nonneg h (le_of_lt hP))
    have : (0 : Rat) ≤ ((rhe (q / pow2 (ilog2 q - 52)) : Int) : Rat) := by exact_mod_cast this
    positivity

theorem pow2_53 : pow2 53 = ((2 ^ 53 : Int) : Rat) := by
  rw [pow2_eq_zpow]; norm_num

theorem pow2_52 : pow2 52 = ((2 ^ 52 : Int) : Rat) := by
  rw [pow2_eq_zpow]; norm_num

/-- a positive number and its rounding lie in the same closed binade -/
theorem fl_binade {q : Rat} (hq : 0 < q) : pow2 (ilog2 q) ≤ fl q ∧ fl q ≤ pow2 (ilog2 q + 1) := by
  have hq0 : q ≠ 0 := ne_of_gt hq
  obtain ⟨h1, h2⟩ := ilog2_spec hq0
  rw [abs_of_pos hq] at h1 h2
  rw [fl_def hq0]
  set e := ilog2 q - 52 with he
  have hP := pow2_pos e
  have a1 : pow2 52 ≤ q / pow2 e := by
    rw [le_div_iff₀ hP, ← pow2_add, show (52 : Int) + e = ilog2 q by omega]; exact h1
  have a2 : q / pow2 e ≤ pow2 53 := by
    rw [div_le_iff₀ hP, ← pow2_add, show (53 : Int) + e = ilog2 q + 1 by omega]; exact le_of_lt h2
  have b1 : (2 ^ 52 : Int) ≤ rhe (q / pow2 e) := by
    have := rhe_mono a1
    rwa [pow2_52, rhe_intCast] at this
  have b2 : rhe (q / pow2 e) ≤ (2 ^ 53 : Int) := by
    have := rhe_mono a2
    rwa [pow2_53, rhe_intCast] at this
  constructor
  · have : pow2 (ilog2 q) = pow2 52 * pow2 e := by rw [← pow2_add]; congr 1; omega
    rw [this, pow2_52]
    apply mul_le_mul_of_nonneg_right _ (le_of_lt hP)
    exact_mod_cast b1
  · have : pow2 (ilog2 q + 1) = pow2 53 * pow2 e := by rw [← pow2_add]; congr 1; omega
    rw [this, pow2_53]
    apply mul_le_mul_of_nonneg_right _ (le_of_lt hP)
    exact_mod_cast b2

theorem fl_mono_pos {q q' : Rat} (hq : 0 < q) (h : q ≤ q') : fl q ≤ fl q' := by
  have hq' : 0 < q' := lt_of_lt_of_le hq h
  have hq0 : q ≠ 0 := ne_of_gt hq
  have hq0' : q' ≠ 0 := ne_of_gt hq'
  obtain ⟨h1, _⟩ := ilog2_spec hq0
  obtain ⟨_, h2'⟩ := ilog2_spec hq0'
  rw [abs_of_pos hq] at h1
  rw [abs_of_pos hq'] at h2'
  have hLL : ilog2 q ≤ ilog2 q' := by
    have : pow2 (ilog2 q) < pow2 (ilog2 q' + 1) := lt_of_le_of_lt h1 (lt_of_le_of_lt h h2')
    have := pow2_lt_iff.mp this
    omega
  rcases lt_or_eq_of_le hLL with hlt | heq
  · calc fl q ≤ pow2 (ilog2 q + 1) := (fl_binade hq).2
      _ ≤ pow2 (ilog2 q') := pow2_le (by omega)
      _ ≤ fl q' := (fl_binade hq').1
  · rw [fl_def hq0, fl_def hq0', heq]
    have hP := pow2_pos (ilog2 q' - 52)
    apply mul_le_mul_of_nonneg_right _ (le_of_lt hP)
    have : rhe (q / pow2 (ilog2 q' - 52)) ≤ rhe (q' / pow2 (ilog2 q' - 52)) :=
      rhe_mono (div_le_div_of_nonneg_right h (le_of_lt hP))
    exact_mod_cast this

/-- rounding to nearest is monotone -/
theorem fl_mono {q q' : Rat} (h : q ≤ q') : fl q ≤ fl q' := by
  rcases lt_trichotomy q 0 with hq | hq | hq
  · rcases lt_or_ge q' 0 with hq' | hq'
    · -- both negative: mirror
      have := fl_mono_pos (q := -q') (q' := -q) (by linarith) (by linarith)
      rw [fl_neg, fl_neg] at this
      linarith
    · have h1 : fl q ≤ 0 := by
        have := fl_nonneg (q := -q) (by linarith)
        rw [fl_neg] at this; linarith
      exact le_trans h1 (fl_nonneg hq')
  · subst hq; rw [fl_zero]; exact fl_nonneg h
  · exact fl_mono_pos hq h

end StatsDbl
