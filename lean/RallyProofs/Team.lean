import RallyModel.Team
/-!
Helper lemmas for C13 (car composition, provisioning, cleanup).
-/
namespace Team

/-! ### association lists as Python dicts -/

/-- the value of the *last* binding of `k` in a list of bindings (what survives `dict.update`) -/
def lastOf : Vars → Str → Option Val
  | [], _ => none
  | (k', v) :: t, k =>
    match lastOf t k with
    | some x => some x
    | none => if k' = k then some v else none

/-- first layer (highest rank first) that defines `k` -/
def ranked (layers : List Vars) (k : Str) : Option Val := layers.findSome? (fun l => lastOf l k)

def keys (d : Vars) : List Str := d.map Prod.fst

theorem dget_dset (d : Vars) (k k' : Str) (v : Val) :
    dget (dset d k v) k' = if k = k' then some v else dget d k' := by
  induction d with
  | nil => simp [dset, dget]
  | cons h t ih =>
    obtain ⟨a, b⟩ := h
    by_cases hak : a = k
    · subst hak
      by_cases h2 : a = k' <;> simp [dset, dget, h2]
    · by_cases h2 : a = k'
      · subst h2
        simp [dset, dget, hak]
        intro h; exact absurd h.symm hak
      · simp [dset, dget, hak, h2, ih]

theorem dupdate_cons (d : Vars) (kv : Str × Val) (u : Vars) :
    dupdate d (kv :: u) = dupdate (dset d kv.1 kv.2) u := rfl

theorem dupdate_nil (d : Vars) : dupdate d [] = d := rfl

theorem dupdate_append (d a b : Vars) : dupdate d (a ++ b) = dupdate (dupdate d a) b := by
  simp [dupdate, List.foldl_append]

theorem dget_dupdate (d u : Vars) (k : Str) :
    dget (dupdate d u) k = (lastOf u k).or (dget d k) := by
  induction u generalizing d with
  | nil => simp [dupdate_nil, lastOf]
  | cons h t ih =>
    obtain ⟨a, b⟩ := h
    rw [dupdate_cons, ih, dget_dset]
    simp only [lastOf]
    cases hl : lastOf t k with
    | some x => simp
    | none => by_cases hak : a = k <;> simp [hak]

theorem lastOf_append (a b : Vars) (k : Str) : lastOf (a ++ b) k = (lastOf b k).or (lastOf a k) := by
  induction a with
  | nil => simp [lastOf]
  | cons h t ih =>
    obtain ⟨x, y⟩ := h
    simp only [List.cons_append, lastOf, ih]
    cases hb : lastOf b k <;> cases ht : lastOf t k <;> simp

theorem dget_eq_none_iff (d : Vars) (k : Str) : dget d k = none ↔ k ∉ keys d := by
  induction d with
  | nil => simp [dget, keys]
  | cons h t ih =>
    obtain ⟨a, b⟩ := h
    by_cases hak : a = k
    · simp [dget, keys, hak]
    · simp only [dget, hak, if_false, ih, keys, List.map_cons, List.mem_cons, not_or]
      constructor
      · intro h; exact ⟨fun e => hak e.symm, h⟩
      · intro h; exact h.2

theorem lastOf_eq_none_iff (d : Vars) (k : Str) : lastOf d k = none ↔ k ∉ keys d := by
  induction d with
  | nil => simp [lastOf, keys]
  | cons h t ih =>
    obtain ⟨a, b⟩ := h
    simp only [lastOf, keys, List.map_cons, List.mem_cons, not_or]
    cases hl : lastOf t k with
    | some x =>
      have : ¬ (k ∉ keys t) := fun hn => by rw [ih.mpr hn] at hl; cases hl
      simp only [keys] at this
      constructor
      · intro h; cases h
      · intro h; exact absurd h.2 this
    | none =>
      have hk := ih.mp hl
      simp only [keys] at hk
      by_cases hak : a = k
      · simp [hak]
      · simp [hak, hk]; intro e; exact hak e.symm

/-- for a dict (unique keys) the last binding is the only one -/
theorem lastOf_eq_dget (d : Vars) (k : Str) (h : (keys d).Nodup) : lastOf d k = dget d k := by
  induction d with
  | nil => rfl
  | cons hd t ih =>
    obtain ⟨a, b⟩ := hd
    simp only [keys, List.map_cons, List.nodup_cons] at h
    have iht := ih h.2
    simp only [lastOf, dget]
    by_cases hak : a = k
    · subst hak
      have : lastOf t a = none := (lastOf_eq_none_iff t a).mpr h.1
      simp [this]
    · simp only [hak, if_false, iht]
      cases dget t k <;> rfl

theorem keys_dset (d : Vars) (k : Str) (v : Val) :
    keys (dset d k v) = if k ∈ keys d then keys d else keys d ++ [k] := by
  induction d with
  | nil => simp [dset, keys]
  | cons h t ih =>
    obtain ⟨a, b⟩ := h
    by_cases hak : a = k
    · simp [dset, keys, hak]
    · have hka : ¬ k = a := fun e => hak e.symm
      simp only [keys] at ih
      simp only [dset, hak, if_false, keys, List.map_cons, List.mem_cons, hka, false_or, ih]
      split <;> simp_all

theorem nodup_dset (d : Vars) (k : Str) (v : Val) (h : (keys d).Nodup) : (keys (dset d k v)).Nodup := by
  rw [keys_dset]
  split
  · exact h
  · rename_i hk
    rw [List.nodup_append]
    refine ⟨h, by simp, ?_⟩
    intro a ha b hb
    simp at hb; subst hb
    intro e; subst e; exact hk ha

theorem nodup_dupdate (d u : Vars) (h : (keys d).Nodup) : (keys (dupdate d u)).Nodup := by
  induction u generalizing d with
  | nil => exact h
  | cons kv t ih => rw [dupdate_cons]; exact ih _ (nodup_dset d kv.1 kv.2 h)

theorem nodup_foldl_dupdate {α : Type} (f : α → Vars) (l : List α) (d : Vars) (h : (keys d).Nodup) :
    (keys (l.foldl (fun acc x => dupdate acc (f x)) d)).Nodup := by
  induction l generalizing d with
  | nil => exact h
  | cons x t ih => exact ih _ (nodup_dupdate d (f x) h)

theorem foldl_dupdate_eq {α : Type} (f : α → Vars) (l : List α) (d : Vars) :
    l.foldl (fun acc x => dupdate acc (f x)) d = dupdate d (l.flatMap f) := by
  induction l generalizing d with
  | nil => rfl
  | cons x t ih => simp only [List.foldl_cons, List.flatMap_cons, dupdate_append, ih]

theorem lastOf_flatMap_eq_ranked {α : Type} (f : α → Vars) (l : List α) (k : Str) :
    lastOf (l.flatMap f) k = ranked (l.reverse.map f) k := by
  induction l with
  | nil => simp [lastOf, ranked]
  | cons x t ih =>
    simp only [List.flatMap_cons, lastOf_append, ih, List.reverse_cons, List.map_append, List.map_cons,
      List.map_nil, ranked, List.findSome?_append, List.findSome?_cons, List.findSome?_nil]
    cases List.findSome? (fun l => lastOf l k) (List.map f t.reverse) <;> cases lastOf (f x) k <;> rfl

theorem ranked_append (a b : List Vars) (k : Str) : ranked (a ++ b) k = (ranked a k).or (ranked b k) := by
  simp only [ranked, List.findSome?_append]

theorem ranked_cons (a : Vars) (b : List Vars) (k : Str) : ranked (a :: b) k = (lastOf a k).or (ranked b k) := by
  simp only [ranked, List.findSome?_cons]
  cases lastOf a k <;> rfl

/-- every layer starts with the same overriding bindings `p` -/
theorem ranked_map_or {α : Type} (f : α → Vars) (g : α → Vars) (p : Vars) (l : List α) (k : Str) (hne : l ≠ [])
    (hf : ∀ x, lastOf (f x) k = (lastOf p k).or (lastOf (g x) k)) :
    ranked (l.map f) k = (lastOf p k).or (ranked (l.map g) k) := by
  induction l with
  | nil => exact absurd rfl hne
  | cons x t ih =>
    simp only [List.map_cons, ranked_cons, hf]
    cases hp : lastOf p k with
    | some v => simp
    | none =>
      by_cases ht : t = []
      · subst ht; simp [ranked]
      · have := ih ht
        rw [hp] at this
        simp only [Option.none_or] at this ⊢
        rw [this]

/-! ### team.load_car -/

/-- the `[variables]` sections of the cars in the order given -/
def carVarLists (t : TeamDir) (names : List Str) : List Vars :=
  names.filterMap (fun nm => (findCar t nm).map (·.vars))

/-- the `[variables]` sections of the config bases: cars in the order given, each car's bases in
    the order of its `base=` line (a base used twice is listed twice) -/
def baseVarLists (t : TeamDir) (names : List Str) : List Vars :=
  names.flatMap (fun nm => match findCar t nm with
    | some ini => (basesOf ini).map (fun b => (baseOf t b).vars)
    | none => [])

/-- all config bases named by the cars, in order, with repetitions -/
def baseNames (t : TeamDir) (names : List Str) : List Str :=
  names.flatMap (fun nm => match findCar t nm with
    | some ini => basesOf ini
    | none => [])

theorem findCars_ok (t : TeamDir) (names : List Str) (inis : List CarIni) (h : findCars t names = .ok inis) :
    carVarLists t names = inis.map (·.vars) ∧
    baseVarLists t names = inis.flatMap (fun ini => (basesOf ini).map (fun b => (baseOf t b).vars)) ∧
    baseNames t names = inis.flatMap basesOf ∧
    names.length = inis.length := by
  induction names generalizing inis with
  | nil =>
    simp only [findCars] at h
    injection h with h; subst h
    simp [carVarLists, baseVarLists, baseNames]
  | cons n ns ih =>
    simp only [findCars] at h
    cases hc : findCar t n with
    | none => simp [hc] at h
    | some ini =>
      simp only [hc] at h
      cases hr : findCars t ns with
      | error e => simp [hr] at h
      | ok rest =>
        simp only [hr] at h
        injection h with h; subst h
        obtain ⟨h1, h2, h3, h4⟩ := ih rest hr
        simp only [carVarLists, baseVarLists, baseNames] at h1 h2 h3 ⊢
        simp [hc, h1, h2, h3, h4]

/-- first occurrences, in order, of the elements of `l` that are not in `seen` -/
def firsts (seen : List Str) : List Str → List Str
  | [] => []
  | x :: xs => if x ∈ seen then firsts seen xs else x :: firsts (seen ++ [x]) xs

theorem foldl_addUnique (acc l : List Str) : l.foldl addUnique acc = acc ++ firsts acc l := by
  induction l generalizing acc with
  | nil => simp [firsts]
  | cons x xs ih =>
    simp only [List.foldl_cons, addUnique, firsts]
    split
    · exact ih acc
    · rw [ih]; simp

theorem mem_firsts (seen l : List Str) (x : Str) : x ∈ firsts seen l ↔ x ∈ l ∧ x ∉ seen := by
  induction l generalizing seen with
  | nil => simp [firsts]
  | cons y ys ih =>
    simp only [firsts]
    split
    · rename_i hy
      rw [ih]
      constructor
      · intro ⟨h1, h2⟩; exact ⟨List.mem_cons_of_mem _ h1, h2⟩
      · intro ⟨h1, h2⟩
        rcases List.mem_cons.mp h1 with e | h
        · subst e; exact absurd hy h2
        · exact ⟨h, h2⟩
    · rename_i hy
      simp only [List.mem_cons, ih, List.mem_append, not_or, List.not_mem_nil, or_false]
      constructor
      · rintro (e | ⟨h1, h2, h3⟩)
        · subst e; exact ⟨Or.inl rfl, hy⟩
        · exact ⟨Or.inr h1, h2⟩
      · rintro ⟨e | h1, h2⟩
        · exact Or.inl e
        · by_cases e : x = y
          · exact Or.inl e
          · exact Or.inr ⟨h1, h2, e⟩

theorem nodup_firsts (seen l : List Str) : (firsts seen l).Nodup := by
  induction l generalizing seen with
  | nil => simp [firsts]
  | cons y ys ih =>
    simp only [firsts]
    split
    · exact ih seen
    · rw [List.nodup_cons]
      refine ⟨?_, ih _⟩
      rw [mem_firsts]
      simp

theorem firsts_sublist (seen l : List Str) : (firsts seen l).Sublist l := by
  induction l generalizing seen with
  | nil => simp [firsts]
  | cons y ys ih =>
    simp only [firsts]
    split
    · exact (ih seen).cons _
    · exact (ih _).cons_cons _

/-- the element at a first occurrence is emitted right after the distinct elements before it -/
theorem firsts_split (seen l r : List Str) (x : Str) (hx : x ∉ l) (hs : x ∉ seen) :
    firsts seen (l ++ x :: r) = firsts seen l ++ x :: firsts (seen ++ firsts seen l ++ [x]) r := by
  induction l generalizing seen with
  | nil => simp [firsts, hs]
  | cons y ys ih =>
    have hxy : x ≠ y := fun e => hx (by simp [e])
    have hx' : x ∉ ys := fun h => hx (List.mem_cons_of_mem _ h)
    simp only [List.cons_append, firsts]
    split
    · exact ih seen hx' hs
    · have hs' : x ∉ seen ++ [y] := by simp [hs, hxy]
      rw [ih (seen ++ [y]) hx' hs']
      simp

/-- membership in `firsts` does not depend on `seen` beyond exclusion; used for the suffix part -/
theorem firsts_seen_perm (s1 s2 l : List Str) (h : ∀ x, x ∈ s1 ↔ x ∈ s2) : firsts s1 l = firsts s2 l := by
  induction l generalizing s1 s2 with
  | nil => rfl
  | cons y ys ih =>
    simp only [firsts, h y]
    split
    · exact ih s1 s2 h
    · congr 1
      apply ih
      intro x; simp [h x]

theorem configPaths_eq (descs : List Descriptor) :
    descs.foldl (fun acc d => d.configPaths.foldl addUnique acc) [] = firsts [] (descs.flatMap (·.configPaths)) := by
  rw [← List.foldl_flatMap (f := fun d : Descriptor => d.configPaths) (g := addUnique), foldl_addUnique]
  simp

/-! ### variable precedence -/

theorem keys_nil_nodup : (keys ([] : Vars)).Nodup := by simp [keys]

/-- building a dict from a list of bindings keeps, for every key, the last binding -/
theorem lastOf_dict (d : Vars) (k : Str) : lastOf (dupdate [] d) k = lastOf d k := by
  rw [lastOf_eq_dget _ _ (nodup_dupdate [] d keys_nil_nodup), dget_dupdate]
  simp [dget]

theorem dget_dict (d : Vars) (k : Str) : dget (dupdate [] d) k = lastOf d k := by
  rw [dget_dupdate]; simp [dget]

theorem lastOf_flatMap_congr {α : Type} (f g : α → Vars) (l : List α) (k : Str)
    (h : ∀ x ∈ l, lastOf (f x) k = lastOf (g x) k) : lastOf (l.flatMap f) k = lastOf (l.flatMap g) k := by
  induction l with
  | nil => rfl
  | cons x t ih =>
    simp only [List.flatMap_cons, lastOf_append]
    rw [h x (by simp), ih (fun y hy => h y (List.mem_cons_of_mem _ hy))]

theorem describe_vars (t : TeamDir) (params : Vars) (ini : CarIni) (k : Str) :
    lastOf (describe t params ini).vars k = (lastOf params k).or (lastOf ini.vars k) := by
  simp only [describe]
  rw [lastOf_eq_dget _ _ (nodup_dupdate _ _ (nodup_dupdate [] _ keys_nil_nodup)), dget_dupdate, dget_dict]

theorem describe_baseVars (t : TeamDir) (params : Vars) (ini : CarIni) (k : Str) :
    lastOf (describe t params ini).baseVars k = lastOf ((basesOf ini).flatMap (fun b => (baseOf t b).vars)) k := by
  simp only [describe]
  rw [foldl_dupdate_eq, lastOf_dict]

theorem describe_configPaths (t : TeamDir) (params : Vars) (ini : CarIni) :
    (describe t params ini).configPaths = basesOf ini := rfl

theorem ranked_reverse_flatMap_map {α : Type} (g : α → List Vars) (l : List α) (k : Str) :
    lastOf ((l.flatMap g).flatMap id) k = ranked (l.flatMap g).reverse k := by
  have := lastOf_flatMap_eq_ranked (fun v : Vars => v) (l.flatMap g) k
  simpa using this

/-- what `team.load_car` computes, as a structure-free statement about its inputs -/
theorem loadCar_ok (t : TeamDir) (names : List Str) (params : Vars) (car : Car)
    (h : loadCar t names params = .ok car) :
    ∃ inis, findCars t names = .ok inis ∧ inis ≠ [] ∧
      car.names = names ∧
      car.configPaths = firsts [] (inis.flatMap basesOf) ∧ car.configPaths ≠ [] ∧
      (keys car.vars).Nodup ∧
      ∀ k, dget car.vars k =
        (lastOf params k).or ((ranked (inis.map (·.vars)).reverse k).or
          (ranked (inis.flatMap (fun ini => (basesOf ini).map (fun b => (baseOf t b).vars))).reverse k)) := by
  unfold loadCar at h
  cases hf : findCars t names with
  | error e => simp [hf] at h
  | ok inis =>
    simp only [hf] at h
    split at h
    · cases h
    · rename_i hne
      injection h with h
      subst h
      have hcp : (inis.map (describe t params)).foldl (fun acc d => d.configPaths.foldl addUnique acc) []
          = firsts [] (inis.flatMap basesOf) := by
        rw [configPaths_eq, List.flatMap_map]
        rfl
      have hne' : firsts [] (inis.flatMap basesOf) ≠ [] := by
        rw [← hcp]; intro e; rw [e] at hne; exact hne rfl
      have hin : inis ≠ [] := by
        intro e; subst e; exact hne' rfl
      refine ⟨inis, rfl, hin, rfl, hcp, by rw [hcp]; exact hne', ?_, ?_⟩
      · exact nodup_dupdate _ _ (nodup_dupdate [] _ keys_nil_nodup)
      · intro k
        simp only
        rw [dget_dupdate, dget_dict]
        -- car variables
        rw [foldl_dupdate_eq, foldl_dupdate_eq, lastOf_dict, lastOf_dict]
        rw [List.flatMap_map, List.flatMap_map]
        have hc : lastOf (inis.flatMap (fun ini => (describe t params ini).vars)) k
            = (lastOf params k).or (ranked (inis.map (·.vars)).reverse k) := by
          rw [lastOf_flatMap_eq_ranked, ← List.map_reverse]
          rw [ranked_map_or (fun ini => (describe t params ini).vars) (·.vars) params inis.reverse k
            (by simpa using hin) (fun ini => describe_vars t params ini k)]
        have hb : lastOf (inis.flatMap (fun ini => (describe t params ini).baseVars)) k
            = ranked (inis.flatMap (fun ini => (basesOf ini).map (fun b => (baseOf t b).vars))).reverse k := by
          rw [lastOf_flatMap_congr _ (fun ini => (basesOf ini).flatMap (fun b => (baseOf t b).vars)) inis k
            (fun ini _ => describe_baseVars t params ini k)]
          rw [← ranked_reverse_flatMap_map]
          congr 1
          simp [List.flatMap_assoc, List.flatMap_map]
        rw [hc, hb]
        cases lastOf params k <;> simp

theorem defaults_keys_nodup (n : Node) (dp : List Str) : (keys (defaults n dp)).Nodup := by
  simp [keys, defaults, kDataPaths]

theorem defaults_no_cluster_settings (n : Node) (dp : List Str) : dget (defaults n dp) kClusterSettings = none := by
  simp [defaults, dget, kClusterSettings, kDataPaths]

theorem installerVars_nodup (cv : Vars) (n : Node) (dp : List Str) : (keys (installerVars cv n dp)).Nodup :=
  nodup_dupdate _ _ (nodup_dupdate [] _ keys_nil_nodup)

theorem dget_installerVars (cv : Vars) (n : Node) (dp : List Str) (k : Str) :
    dget (installerVars cv n dp) k = (dget (defaults n dp) k).or (lastOf cv k) := by
  unfold installerVars
  rw [dget_dupdate, dget_dict, lastOf_eq_dget _ _ (defaults_keys_nodup n dp)]

theorem dget_provisionerVars (iv : Vars) (plugins : List Plugin) (k : Str) (hk : k ≠ kClusterSettings)
    (hiv : (keys iv).Nodup) :
    dget (provisionerVars iv plugins) k = (lastOf (plugins.flatMap (·.vars)) k).or (dget iv k) := by
  unfold provisionerVars
  simp only
  rw [dget_dset, if_neg (fun e => hk e.symm), dget_dupdate, dget_dict, foldl_dupdate_eq, lastOf_dict,
    lastOf_eq_dget _ _ hiv]

/-! ### files -/

/-- what one more provider does to the content of its target -/
def stepContent (vars : Vars) (cur : Option Bytes) (f : SrcFile) : Option Bytes :=
  some (if plainText f.name then cur.getD [] ++ renderBytes vars f.body else srcBytes f.body)

theorem getF_putF (fs : List (Path × Bytes)) (p q : Path) (b : Bytes) :
    getF (putF fs p b) q = if p = q then some b else getF fs q := by
  induction fs with
  | nil => simp [putF, getF]
  | cons h t ih =>
    obtain ⟨a, c⟩ := h
    by_cases hap : a = p
    · subst hap
      by_cases h2 : a = q <;> simp [putF, getF, h2]
    · by_cases h2 : a = q
      · subst h2
        simp [putF, getF, hap]
        intro e; exact absurd e.symm hap
      · simp [putF, getF, hap, h2, ih]

/-- all (target path, source file) pairs of a walk, in processing order -/
def walkOps (walk : List WalkDir) : List (Path × SrcFile) :=
  walk.flatMap (fun wd => wd.files.map (fun f => (wd.rel ++ [f.name], f)))

theorem ensureDir_files (fs : FS) (p : Path) : (ensureDir fs p).files = fs.files := rfl

theorem applyFile_dirs (vars : Vars) (dir : Path) (fs : FS) (f : SrcFile) : (applyFile vars dir fs f).dirs = fs.dirs := by
  unfold applyFile; split <;> rfl

theorem getF_applyFile (vars : Vars) (dir : Path) (fs : FS) (f : SrcFile) (q : Path) :
    getF (applyFile vars dir fs f).files q =
      if dir ++ [f.name] = q then stepContent vars (getF fs.files q) f else getF fs.files q := by
  unfold applyFile stepContent
  cases hp : plainText f.name
  · simp only [Bool.false_eq_true, if_false, getF_putF]
  · simp only [if_true, getF_putF]
    split
    · rename_i e; rw [e]
    · rfl

theorem foldl_applyFile_dirs (vars : Vars) (dir : Path) (files : List SrcFile) (fs : FS) :
    (files.foldl (applyFile vars dir) fs).dirs = fs.dirs := by
  induction files generalizing fs with
  | nil => rfl
  | cons f t ih => simp only [List.foldl_cons, ih, applyFile_dirs]

theorem getF_foldl_applyFile (vars : Vars) (dir : Path) (files : List SrcFile) (fs : FS) (q : Path) :
    getF (files.foldl (applyFile vars dir) fs).files q =
      (files.filter (fun f => dir ++ [f.name] = q)).foldl (stepContent vars) (getF fs.files q) := by
  induction files generalizing fs with
  | nil => rfl
  | cons f t ih =>
    simp only [List.foldl_cons, ih, getF_applyFile, List.filter_cons]
    by_cases h : dir ++ [f.name] = q <;> simp [h]

/-- providers of target `q` in one walk, in order -/
def walkProviders (walk : List WalkDir) (q : Path) : List SrcFile :=
  walk.flatMap (fun wd => wd.files.filter (fun f => wd.rel ++ [f.name] = q))

theorem getF_applyConfig (vars : Vars) (walk : List WalkDir) (fs : FS) (q : Path) :
    getF (applyConfig vars fs walk).files q = (walkProviders walk q).foldl (stepContent vars) (getF fs.files q) := by
  induction walk generalizing fs with
  | nil => rfl
  | cons wd t ih =>
    simp only [applyConfig, List.foldl_cons] at ih ⊢
    rw [ih]
    simp only [applyDir, getF_foldl_applyFile, ensureDir_files, walkProviders, List.flatMap_cons, List.foldl_append]

/-- providers of target `q` over all config bases, in order -/
def providers (walks : List (List WalkDir)) (q : Path) : List SrcFile := walks.flatMap (fun w => walkProviders w q)

theorem getF_applyConfigs (vars : Vars) (walks : List (List WalkDir)) (fs : FS) (q : Path) :
    getF (applyConfigs vars fs walks).files q = (providers walks q).foldl (stepContent vars) (getF fs.files q) := by
  induction walks generalizing fs with
  | nil => rfl
  | cons w t ih =>
    simp only [applyConfigs, List.foldl_cons] at ih ⊢
    rw [ih, getF_applyConfig]
    simp only [providers, List.flatMap_cons, List.foldl_append]

theorem providers_name (walks : List (List WalkDir)) (q : Path) (f : SrcFile) (h : f ∈ providers walks q) :
    q.getLast? = some f.name := by
  simp only [providers, walkProviders, List.mem_flatMap, List.mem_filter, decide_eq_true_eq] at h
  obtain ⟨w, _, wd, _, _, he⟩ := h
  rw [← he]; simp

theorem foldl_step_plain (vars : Vars) (provs : List SrcFile) (init : Option Bytes)
    (hp : ∀ f ∈ provs, plainText f.name = true) (hne : provs ≠ []) :
    provs.foldl (stepContent vars) init = some (init.getD [] ++ (provs.map (fun f => renderBytes vars f.body)).flatten) := by
  induction provs generalizing init with
  | nil => exact absurd rfl hne
  | cons f t ih =>
    have hf : plainText f.name = true := hp f (by simp)
    simp only [List.foldl_cons, stepContent, hf, if_true]
    by_cases ht : t = []
    · subst ht; simp
    · rw [ih _ (fun g hg => hp g (List.mem_cons_of_mem _ hg)) ht]
      simp

theorem foldl_step_binary (vars : Vars) (provs : List SrcFile) (init : Option Bytes)
    (hp : ∀ f ∈ provs, plainText f.name = false) (hne : provs ≠ []) :
    provs.foldl (stepContent vars) init = provs.getLast?.map (fun f => srcBytes f.body) := by
  induction provs generalizing init with
  | nil => exact absurd rfl hne
  | cons f t ih =>
    have hf : plainText f.name = false := hp f (by simp)
    simp only [List.foldl_cons, stepContent, hf]
    by_cases ht : t = []
    · subst ht; simp
    · rw [ih _ (fun g hg => hp g (List.mem_cons_of_mem _ hg)) ht]
      rw [List.getLast?_cons_of_ne_nil ht] <;> simp

/-! ### directories -/

theorem mem_foldl_addDir (qs : List Path) (dirs : List Path) (d : Path) :
    d ∈ qs.foldl addDir dirs ↔ d ∈ dirs ∨ d ∈ qs := by
  induction qs generalizing dirs with
  | nil => simp
  | cons q t ih =>
    simp only [List.foldl_cons, ih, addDir, List.mem_cons]
    split
    · rename_i hq
      constructor
      · rintro (h | h); exact Or.inl h; exact Or.inr (Or.inr h)
      · rintro (h | h | h)
        · exact Or.inl h
        · subst h; exact Or.inl hq
        · exact Or.inr h
    · simp only [List.mem_append, List.mem_singleton]
      constructor
      · rintro ((h | h) | h)
        · exact Or.inl h
        · exact Or.inr (Or.inl h)
        · exact Or.inr (Or.inr h)
      · rintro (h | h | h)
        · exact Or.inl (Or.inl h)
        · exact Or.inl (Or.inr h)
        · exact Or.inr h

theorem mem_dirs_applyDir (vars : Vars) (fs : FS) (wd : WalkDir) (d : Path) :
    d ∈ (applyDir vars fs wd).dirs ↔ d ∈ fs.dirs ∨ d ∈ prefixes wd.rel := by
  simp only [applyDir, foldl_applyFile_dirs, ensureDir, mem_foldl_addDir]

theorem mem_dirs_applyConfig (vars : Vars) (walk : List WalkDir) (fs : FS) (d : Path) :
    d ∈ (applyConfig vars fs walk).dirs ↔ d ∈ fs.dirs ∨ ∃ wd ∈ walk, d ∈ prefixes wd.rel := by
  induction walk generalizing fs with
  | nil => simp [applyConfig]
  | cons wd t ih =>
    simp only [applyConfig, List.foldl_cons] at ih ⊢
    rw [ih, mem_dirs_applyDir]
    simp only [List.mem_cons, exists_eq_or_imp]
    constructor
    · rintro ((h | h) | h)
      · exact Or.inl h
      · exact Or.inr (Or.inl h)
      · exact Or.inr (Or.inr h)
    · rintro (h | h | h)
      · exact Or.inl (Or.inl h)
      · exact Or.inl (Or.inr h)
      · exact Or.inr h

theorem mem_dirs_applyConfigs (vars : Vars) (walks : List (List WalkDir)) (fs : FS) (d : Path) :
    d ∈ (applyConfigs vars fs walks).dirs ↔ d ∈ fs.dirs ∨ ∃ w ∈ walks, ∃ wd ∈ w, d ∈ prefixes wd.rel := by
  induction walks generalizing fs with
  | nil => simp [applyConfigs]
  | cons w t ih =>
    simp only [applyConfigs, List.foldl_cons] at ih ⊢
    rw [ih, mem_dirs_applyConfig]
    simp only [List.mem_cons, exists_eq_or_imp]
    constructor
    · rintro ((h | h) | h)
      · exact Or.inl h
      · exact Or.inr (Or.inl h)
      · exact Or.inr (Or.inr h)
    · rintro (h | h | h)
      · exact Or.inl (Or.inl h)
      · exact Or.inl (Or.inr h)
      · exact Or.inr h

theorem mem_prefixes (p d : Path) : d ∈ prefixes p ↔ d ≠ [] ∧ d <+: p := by
  induction p generalizing d with
  | nil =>
    simp only [prefixes, List.not_mem_nil, List.prefix_nil, false_iff, not_and]
    intro h e; exact h e
  | cons x xs ih =>
    simp only [prefixes, List.mem_cons, List.mem_map]
    constructor
    · rintro (e | ⟨a, ha, e⟩)
      · subst e; exact ⟨by simp, by simp [List.prefix_cons_iff]⟩
      · subst e
        obtain ⟨_, hp⟩ := (ih a).mp ha
        exact ⟨by simp, by simpa [List.cons_prefix_cons] using hp⟩
    · rintro ⟨hne, hp⟩
      cases d with
      | nil => exact absurd rfl hne
      | cons y ys =>
        rw [List.cons_prefix_cons] at hp
        obtain ⟨e, hp⟩ := hp
        subst e
        by_cases hys : ys = []
        · subst hys; exact Or.inl rfl
        · exact Or.inr ⟨ys, (ih ys).mpr ⟨hys, hp⟩, rfl⟩

/-! ### cleanup -/

/-- `d` can be removed by `shutil.rmtree`: it is a real directory, or there is nothing at or below it -/
def Clearable (l : Listing) (d : Path) : Prop := kindOf l d = some .dir ∨ ∀ e ∈ l, ¬ d <+: e.1

theorem isPrefixOf_false (p q : Path) : List.isPrefixOf p q = false ↔ ¬ p <+: q := by
  have hiff := @List.isPrefixOf_iff_prefix _ _ _ p q
  constructor
  · intro h hp; rw [hiff.mpr hp] at h; cases h
  · intro h
    cases hb : List.isPrefixOf p q
    · rfl
    · exact absurd (hiff.mp hb) h

theorem deletePath_sub (l : Listing) (p : Path) : (deletePath l p).Sublist l := by
  unfold deletePath
  split
  · exact List.filter_sublist
  · exact List.Sublist.refl _

theorem kindOf_filter (l : Listing) (f : Path × Kind → Bool) (d : Path) (h : ∀ k, f (d, k) = true) :
    kindOf (l.filter f) d = kindOf l d := by
  induction l with
  | nil => rfl
  | cons e t ih =>
    obtain ⟨p, k⟩ := e
    by_cases hp : p = d
    · subst hp; simp [h, kindOf]
    · by_cases hf : f (p, k) = true
      · simp [hf, kindOf, hp, ih]
      · simp [hf, kindOf, hp, ih]

theorem kindOf_some_mem (l : Listing) (d : Path) (k : Kind) (h : kindOf l d = some k) : (d, k) ∈ l := by
  induction l with
  | nil => simp [kindOf] at h
  | cons e t ih =>
    obtain ⟨p, k'⟩ := e
    by_cases hp : p = d
    · simp [kindOf, hp] at h; subst h; simp [hp]
    · simp only [kindOf, hp, if_false] at h
      exact List.mem_cons_of_mem _ (ih h)

/-- deleting one path keeps every other path clearable -/
theorem clearable_deletePath (l : Listing) (p d : Path) (h : Clearable l d) : Clearable (deletePath l p) d := by
  unfold deletePath
  split
  · rename_i hk
    by_cases hpd : p <+: d
    · right
      intro e he hde
      have h2 := (List.mem_filter.mp he).2
      have : p <+: e.1 := hpd.trans hde
      simp only [Bool.not_eq_eq_eq_not, Bool.not_true, isPrefixOf_false] at h2
      exact h2 this
    · rcases h with h | h
      · left
        rw [kindOf_filter]; exact h
        intro k; simp only [Bool.not_eq_eq_eq_not, Bool.not_true, isPrefixOf_false]; exact hpd
      · right
        intro e he
        exact h e (List.mem_filter.mp he).1
  · exact h

theorem clearable_foldl_deletePath (ps : List Path) (l : Listing) (d : Path) (h : Clearable l d) :
    Clearable (ps.foldl deletePath l) d := by
  induction ps generalizing l with
  | nil => exact h
  | cons p t ih => exact ih _ (clearable_deletePath l p d h)

theorem gone_deletePath (l : Listing) (p : Path) (h : Clearable l p) : ∀ e ∈ deletePath l p, ¬ p <+: e.1 := by
  intro e he
  unfold deletePath at he
  rcases h with h | h
  · simp only [h] at he
    have h2 := (List.mem_filter.mp he).2
    intro hp
    simp only [Bool.not_eq_eq_eq_not, Bool.not_true, isPrefixOf_false] at h2
    exact h2 hp
  · split at he
    · exact h e (List.mem_filter.mp he).1
    · exact h e he

theorem foldl_deletePath_sub (ps : List Path) (l : Listing) : (ps.foldl deletePath l).Sublist l := by
  induction ps generalizing l with
  | nil => exact List.Sublist.refl _
  | cons p t ih => exact (ih _).trans (deletePath_sub l p)

theorem gone_foldl_deletePath (ps : List Path) (l : Listing) (h : ∀ d ∈ ps, Clearable l d) :
    ∀ e ∈ ps.foldl deletePath l, ∀ d ∈ ps, ¬ d <+: e.1 := by
  induction ps generalizing l with
  | nil => intro e _ d hd; cases hd
  | cons p t ih =>
    intro e he d hd
    simp only [List.foldl_cons] at he
    rcases List.mem_cons.mp hd with e1 | hd'
    · subst e1
      have hsub := foldl_deletePath_sub t (deletePath l d)
      exact gone_deletePath l d (h d (by simp)) e (hsub.subset he)
    · exact ih (deletePath l p) (fun d' hd'' => clearable_deletePath l p d' (h d' (List.mem_cons_of_mem _ hd''))) e he d hd'

theorem keep_deletePath (l : Listing) (p : Path) (e : Path × Kind) (he : e ∈ l) (hp : ¬ p <+: e.1) : e ∈ deletePath l p := by
  unfold deletePath
  split
  · simp only [List.mem_filter, he, true_and, Bool.not_eq_eq_eq_not, Bool.not_true, isPrefixOf_false]; exact hp
  · exact he

theorem keep_foldl_deletePath (ps : List Path) (l : Listing) (e : Path × Kind) (he : e ∈ l)
    (hp : ∀ d ∈ ps, ¬ d <+: e.1) : e ∈ ps.foldl deletePath l := by
  induction ps generalizing l with
  | nil => exact he
  | cons p t ih =>
    exact ih _ (keep_deletePath l p e he (hp p (by simp))) (fun d hd => hp d (List.mem_cons_of_mem _ hd))

end Team
