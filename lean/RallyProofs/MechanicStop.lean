import RallyModel.MechanicStop
import RallyProofs.MechanicLauncher

/-! `provisioner.cleanup` wipes every listed path and nothing else; `ProcessLauncher.stop` stores the system metrics of
every node and leaves no node process behind, whichever processes died before the stop -/

set_option linter.unusedSimpArgs false
set_option linter.unusedVariables false

namespace Mechanic.Cleanup

/-- a directory tree: with a directory all its ancestors exist -/
def Closed (fs : List Path) : Prop := ∀ q ∈ fs, ∀ p : Path, p <+: q → p ∈ fs

theorem below_iff (p q : Path) : below p q = true ↔ p <+: q := by
  simp [below, List.isPrefixOf_iff_prefix]

theorem mem_deletePath {fs : List Path} (hc : Closed fs) (p q : Path) :
    q ∈ deletePath fs p ↔ q ∈ fs ∧ ¬ p <+: q := by
  unfold deletePath
  split
  · simp only [rmtree, List.mem_filter, Bool.not_eq_true']
    constructor
    · intro h; exact ⟨h.1, fun hp => by rw [(below_iff p q).2 hp] at h; exact absurd h.2 (by simp)⟩
    · intro h; refine ⟨h.1, ?_⟩
      cases hb : below p q
      · rfl
      · exact absurd ((below_iff p q).1 hb) h.2
  · rename_i h
    have hp : p ∉ fs := by simpa using h
    exact ⟨fun hq => ⟨hq, fun hpq => hp (hc q hq p hpq)⟩, fun h => h.1⟩

theorem closed_deletePath {fs : List Path} (hc : Closed fs) (p : Path) : Closed (deletePath fs p) := by
  intro q hq r hr
  rw [mem_deletePath hc] at hq ⊢
  exact ⟨hc q hq.1 r hr, fun hpr => hq.2 (hpr.trans hr)⟩

theorem mem_foldl_deletePath (ds : List Path) {fs : List Path} (hc : Closed fs) (q : Path) :
    Closed (ds.foldl deletePath fs) ∧ (q ∈ ds.foldl deletePath fs ↔ q ∈ fs ∧ ∀ d ∈ ds, ¬ d <+: q) := by
  induction ds generalizing fs with
  | nil => simp [hc]
  | cons d ds ih =>
    simp only [List.foldl_cons]
    obtain ⟨c, m⟩ := ih (closed_deletePath hc d)
    refine ⟨c, ?_⟩
    rw [m, mem_deletePath hc, List.forall_mem_cons]
    exact ⟨fun h => ⟨h.1.1, h.1.2, h.2⟩, fun h => ⟨⟨h.1, h.2.1⟩, h.2.2⟩⟩

/-- what is left after `provisioner.cleanup` -/
theorem cleanup_spec (preserve : Bool) (install : Path) (ds : List Path) {fs : List Path} (hc : Closed fs) (q : Path) :
    q ∈ cleanup preserve install ds fs ↔
      q ∈ fs ∧ (preserve = true ∨ (¬ install <+: q ∧ ∀ d ∈ ds, ¬ d <+: q)) := by
  cases preserve
  · obtain ⟨c, m⟩ := mem_foldl_deletePath ds hc q
    simp only [cleanup, Bool.false_eq_true, if_false, false_or]
    rw [mem_deletePath c, m]
    exact ⟨fun h => ⟨h.1.1, h.2, h.1.2⟩, fun h => ⟨⟨h.1, h.2.2⟩, h.2.1⟩⟩
  · simp [cleanup]

theorem dataPathsOf_none (home : Path) (v : CarVar) : dataPathsOf home v = none ↔ v = .other := by
  cases v <;> simp [dataPathsOf]

theorem dataPathsOf_spec (home : Path) (v : CarVar) {ds : List Path} (h : dataPathsOf home v = some ds) :
    (v = .absent → ds = [home ++ [0]]) ∧ (∀ p, v = .str p → ds = [p]) ∧ (∀ ps, v = .list ps → ds = ps) := by
  cases v <;> simp [dataPathsOf] at h <;> subst h <;> simp

end Mechanic.Cleanup

namespace Mechanic.Launcher

theorem stopNodeT_world (x : World × Tele) (n : Nat × Nat) : (stopNodeT x n).1 = stopNode x.1 n.2 := by
  unfold stopNodeT stopNode
  split <;> rfl

theorem stopNodeT_stored (x : World × Tele) (n : Nat × Nat) :
    (stopNodeT x n).2.stored = x.2.stored ++ [n.1] ∧ (stopNodeT x n).2.metaInfo = x.2.metaInfo ++ [n.1] := by
  unfold stopNodeT
  split <;> exact ⟨rfl, rfl⟩

theorem stopAll_cons (w : World) (n : Nat × Nat) (ns : List (Nat × Nat)) :
    stopAll w (n :: ns) = stopAll (stopNode w n.2) ns := by simp [stopAll]

/-- the process side of the extended model is the model of round 4 -/
theorem stopAllT_world (nodes : List (Nat × Nat)) (x : World × Tele) : (stopAllT x nodes).1 = stopAll x.1 nodes := by
  induction nodes generalizing x with
  | nil => simp [stopAllT, stopAll]
  | cons n ns ih =>
    have h := ih (stopNodeT x n)
    simp only [stopAllT] at h
    simp only [stopAllT, List.foldl_cons, stopAll_cons]
    rw [h, stopNodeT_world]

/-- meta data and system metrics of every node, once each, in order — whether its process exists or not -/
theorem stopAllT_stored (nodes : List (Nat × Nat)) (x : World × Tele) :
    (stopAllT x nodes).2.stored = x.2.stored ++ nodes.map (·.1) ∧
      (stopAllT x nodes).2.metaInfo = x.2.metaInfo ++ nodes.map (·.1) := by
  induction nodes generalizing x with
  | nil => simp [stopAllT]
  | cons n ns ih =>
    have h := ih (stopNodeT x n)
    simp only [stopAllT] at h
    obtain ⟨s1, s2⟩ := stopNodeT_stored x n
    simp only [stopAllT, List.foldl_cons, List.map_cons]
    rw [h.1, h.2, s1, s2]
    simp [List.append_assoc]

theorem stopNode_sub (w : World) (p q : Nat) (h : q ∈ (stopNode w p).running) : q ∈ w.running := by
  unfold stopNode at h
  split at h
  · exact List.mem_of_mem_erase h
  · exact h

theorem stopAll_sub (nodes : List (Nat × Nat)) (w : World) (q : Nat) (h : q ∈ (stopAll w nodes).running) :
    q ∈ w.running := by
  induction nodes generalizing w with
  | nil => simpa [stopAll] using h
  | cons n ns ih =>
    rw [stopAll_cons] at h
    exact stopNode_sub w n.2 q (ih _ h)

theorem stopNode_nodup {w : World} (h : w.running.Nodup) (p : Nat) : (stopNode w p).running.Nodup := by
  unfold stopNode
  split
  · exact h.erase p
  · exact h

theorem stopNode_gone {w : World} (h : w.running.Nodup) (p : Nat) : p ∉ (stopNode w p).running := by
  unfold stopNode
  split
  · intro hx; exact ((h.mem_erase_iff).1 hx).1 rfl
  · assumption

/-- after `stop` no process of any of the nodes runs — no assumption that they were all alive -/
theorem stopAll_none_running (nodes : List (Nat × Nat)) (w : World) (h : w.running.Nodup) :
    ∀ n ∈ nodes, n.2 ∉ (stopAll w nodes).running := by
  induction nodes generalizing w with
  | nil => intro n hn; cases hn
  | cons n ns ih =>
    intro m hm
    rw [stopAll_cons]
    rcases List.mem_cons.1 hm with hm | hm
    · subst hm
      exact fun hx => stopNode_gone h m.2 (stopAll_sub ns _ _ hx)
    · exact ih (stopNode w n.2) (stopNode_nodup h _) m hm

theorem die_nodup (dead : List Nat) {w : World} (h : w.running.Nodup) : (dead.foldl die w).running.Nodup := by
  induction dead generalizing w with
  | nil => exact h
  | cons d ds ih => exact ih (w := die w d) (h.erase d)

/-- a SIGTERM goes only to a process that exists at that moment -/
theorem stopNode_terms (w : World) (p q : Nat) (hq : q ∉ w.running) :
    (stopNode w p).terms.count q = w.terms.count q := by
  unfold stopNode
  split
  · rename_i hp
    have : p ≠ q := fun e => hq (e ▸ hp)
    simp [List.count_append, List.count_cons, this]
  · rfl

theorem stopAll_terms_dead (nodes : List (Nat × Nat)) (w : World) (q : Nat) (hq : q ∉ w.running) :
    (stopAll w nodes).terms.count q = w.terms.count q := by
  induction nodes generalizing w with
  | nil => simp [stopAll]
  | cons n ns ih =>
    rw [stopAll_cons, ih _ (fun hx => hq (stopNode_sub w n.2 q hx)), stopNode_terms w n.2 q hq]

end Mechanic.Launcher
