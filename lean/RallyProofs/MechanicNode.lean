import RallyProofs.MechanicDisp

set_option linter.unusedSimpArgs false
set_option linter.unusedVariables false

namespace Mechanic

/-! ### node actors: a host group is started at most once and stopped at most once -/

/-- the start on host group `h` succeeds (no planned failure takes effect, cluster not external) -/
def startOk (cfg : Config) (h : Nat) : Prop :=
  ¬ (planOf cfg h = .failEarly ∨ cfg.external = true) ∧ planOf cfg h ≠ .failSupply ∧
    (prepares h (failAtOf (planOf cfg h)) (idsOf cfg h) 0).2.2 = false ∧ planOf cfg h ≠ .failLaunch

instance (cfg : Config) (h : Nat) : Decidable (startOk cfg h) := by unfold startOk; infer_instance

/-- the calls of `Mechanic.stop_engine` on host group `h` -/
def isStop (h : Nat) : Out → Bool
  | .call h' (.lstop _) => h' == h
  | .call h' (.flush true) => h' == h
  | .call h' (.store _) => h' == h
  | .call h' .close => h' == h
  | .call h' (.cleanup _ _) => h' == h
  | _ => false

theorem prepares_ok (h : Nat) (f : Option Nat) (ids : List Nat) (j : Nat)
    (hk : (prepares h f ids j).2.2 = false) : (prepares h f ids j).2.1 = ids := by
  induction ids generalizing j with
  | nil => simp [prepares]
  | cons id rest ih =>
    simp only [prepares] at hk ⊢
    split at hk
    · cases hk
    · rename_i hf; simp only [hf, if_false]; rw [ih _ hk]

theorem prepares_calls (h : Nat) (f : Option Nat) (ids : List Nat) (j : Nat) :
    ∀ e ∈ (prepares h f ids j).1, ∃ id, e = Eff.call h (.prepare id) := by
  induction ids generalizing j with
  | nil => simp [prepares]
  | cons id rest ih =>
    simp only [prepares]
    split
    · intro e he; simp at he; exact ⟨id, he⟩
    · intro e he
      rcases List.mem_cons.1 he with he | he
      · exact ⟨id, he⟩
      · exact ih _ e he

def isStopEff (h : Nat) : Eff → Prop
  | .call h' (.lstop _) => h' = h
  | .call h' (.flush true) => h' = h
  | .call h' (.store _) => h' = h
  | .call h' .close => h' = h
  | .call h' (.cleanup _ _) => h' = h
  | _ => False

theorem stopEffs_kind (cfg : Config) (m : Mech) : ∀ e ∈ stopEffs cfg m, isStopEff m.host e := by
  intro e he
  simp only [stopEffs, List.mem_append, List.mem_cons, List.not_mem_nil, or_false] at he
  rcases he with (((he | he) | he) | he) | he
  · subst he; simp [isStopEff]
  · subst he; simp [isStopEff]
  · split at he
    · obtain ⟨id, _, rfl⟩ := List.mem_map.1 he; simp [isStopEff]
    · cases he
  · subst he; simp [isStopEff]
  · obtain ⟨id, _, rfl⟩ := List.mem_map.1 he; simp [isStopEff]

theorem filter_isStop_stopEffs (cfg : Config) (m : Mech) (a : Aid) :
    ((stopEffs cfg m).map (toOut a)).filter (isStop m.host) = (stopEffs cfg m).map (toOut a) := by
  apply List.filter_eq_self.2
  intro o ho
  obtain ⟨e, he, rfl⟩ := List.mem_map.1 ho
  have := stopEffs_kind cfg m e he
  cases e <;> simp [toOut, isStop, isStopEff] at this ⊢
  rename_i h' c
  cases c with
  | flush b => cases b <;> simp [toOut, isStop, isStopEff] at this ⊢ <;> exact this
  | _ => simp [toOut, isStop, isStopEff] at this ⊢ <;> exact this

theorem filter_isStop_other (cfg : Config) (m : Mech) (a : Aid) (h : Nat) (hh : m.host ≠ h) :
    ((stopEffs cfg m).map (toOut a)).filter (isStop h) = [] := by
  apply List.filter_eq_nil_iff.2
  intro o ho
  obtain ⟨e, he, rfl⟩ := List.mem_map.1 ho
  have := stopEffs_kind cfg m e he
  cases e <;> simp [toOut, isStop, isStopEff] at this ⊢
  rename_i h' c
  cases c with
  | flush b => cases b <;> simp [toOut, isStop, isStopEff] at this ⊢ <;> (subst this; exact hh)
  | _ => simp [toOut, isStop, isStopEff] at this ⊢ <;> (subst this; exact hh)

/-- the kinds of effect of `receiveMsg_StartNodes` -/
def isStartEff (h : Nat) (r : Aid) : Eff → Prop
  | .call h' .mopen => h' = h
  | .call h' .supply => h' = h
  | .call h' (.prepare _) => h' = h
  | .call h' (.launch _ _) => h' = h
  | .wake => True
  | .tell d _ => d = r
  | _ => False

theorem startNodes_kind (cfg : Config) (st : NSt) (h : Nat) (r : Aid) :
    ∀ e ∈ (startNodes cfg st h r).2, isStartEff h r e := by
  have hp : ∀ e ∈ (prepares h (failAtOf (planOf cfg h)) (idsOf cfg h) 0).1, isStartEff h r e := by
    intro e he
    obtain ⟨id, rfl⟩ := prepares_calls h _ _ _ e he
    simp [isStartEff]
  unfold startNodes
  simp only []
  repeat' split
  all_goals
    simp only [List.cons_append, List.nil_append, List.forall_mem_cons, List.forall_mem_append]
    and_intros
    all_goals first | exact hp | (simp [isStartEff]; done)

theorem startNodes_filter (cfg : Config) (st : NSt) (h : Nat) (r : Aid) (a : Aid) (h' : Nat) :
    ((startNodes cfg st h r).2.map (toOut a)).filter (isStop h') = [] := by
  apply List.filter_eq_nil_iff.2
  intro o ho
  obtain ⟨e, he, rfl⟩ := List.mem_map.1 ho
  have := startNodes_kind cfg st h r e he
  cases e <;> simp [toOut, isStop, isStartEff] at this ⊢
  rename_i c; cases c <;> simp [toOut, isStop, isStartEff] at this ⊢


theorem prepares_count_tell (h : Nat) (f : Option Nat) (ids : List Nat) (j : Nat) (d : Aid) (m : Msg) :
    (prepares h f ids j).1.count (Eff.tell d m) = 0 :=
  List.count_eq_zero_of_not_mem (prepares_no_tell h f ids j d m)

theorem startNodes_ok {cfg : Config} {h : Nat} (st : NSt) (r : Aid) (hok : startOk cfg h) :
    (startNodes cfg st h r).1.mech = some ⟨h, idsOf cfg h, idsOf cfg h⟩ ∧
      Eff.call h (.launch (idsOf cfg h) true) ∈ (startNodes cfg st h r).2 ∧
      (startNodes cfg st h r).2.count (Eff.tell r .nodesStarted) = 1 := by
  obtain ⟨h1, h2, h3, h4⟩ := hok
  have h5 := prepares_ok _ _ _ _ h3
  have h3' : ¬ (prepares h (failAtOf (planOf cfg h)) (idsOf cfg h) 0).2.2 = true := by simp [h3]
  unfold startNodes
  simp only []
  rw [if_neg h1, if_neg h2, if_neg h3', if_neg h4, h5]
  refine ⟨rfl, by simp, ?_⟩
  simp [List.count_append, List.count_cons, prepares_count_tell]

theorem startNodes_fail {cfg : Config} {h : Nat} (st : NSt) (r : Aid) (hno : ¬ startOk cfg h) :
    Eff.tell r (.failure (.start h)) ∈ (startNodes cfg st h r).2 ∧
      (startNodes cfg st h r).2.count (Eff.tell r .nodesStarted) = 0 := by
  unfold startNodes
  simp only []
  by_cases h1 : planOf cfg h = .failEarly ∨ cfg.external = true
  · rw [if_pos h1]; simp [List.count_cons]
  · rw [if_neg h1]
    by_cases h2 : planOf cfg h = .failSupply
    · rw [if_pos h2]; simp [List.count_cons]
    · rw [if_neg h2]
      by_cases h3 : (prepares h (failAtOf (planOf cfg h)) (idsOf cfg h) 0).2.2 = true
      · rw [if_pos h3]
        simp [List.count_append, List.count_cons, prepares_count_tell]
      · rw [if_neg h3]
        by_cases h4 : planOf cfg h = .failLaunch
        · rw [if_pos h4]
          simp [List.count_append, List.count_cons, prepares_count_tell]
        · exact absurd ⟨h1, h2, by simpa using h3, h4⟩ hno

theorem startNodes_mech (cfg : Config) (st : NSt) (h : Nat) (r : Aid) :
    ((startNodes cfg st h r).1.mech = st.mech ∨ ∃ m, (startNodes cfg st h r).1.mech = some m ∧ m.host = h) ∧
      (startNodes cfg st h r).1.alive = st.alive := by
  unfold startNodes
  simp only []
  repeat' split
  all_goals simp


theorem recvNode_cases {H : Nat} {src : Aid} {k : Nat} {msg : Msg}
    (ha : allowed H src (.node k) msg ∨ (msg = .wakeup ∧ src = .node k)) :
    (msg = .startNodes k .mech ∧ src = .disp ∧ k < H) ∨ (msg = .stopNodes ∧ src = .mech) ∨
      (msg = .exitReq ∧ src = .mech) ∨ (∃ f, msg = .failure f ∧ src = .mech) ∨
      (∃ p, msg = .poison p ∧ src = .mech) ∨ (msg = .wakeup ∧ src = .node k) := by
  rcases ha with ha | ha
  · cases msg <;> cases src <;> simp [allowed] at ha ⊢
    obtain ⟨h1, h2, h3⟩ := ha; subst h1 h2; exact ⟨⟨rfl, rfl⟩, h3⟩
  · simp [ha.1, ha.2]

theorem pre_n {s s0 : State} {dst src : Aid} {msg : Msg} (hp : Pre s s0 dst src msg) (h : Nat) :
    (s0.n h).mech = (s.n h).mech := by
  cases hp with
  | pop => rfl
  | timer k _ _ =>
    simp only [updN]
    split
    · rename_i hh; subst hh; rfl
    · rfl

theorem handle_n_other {cfg : Config} {s0 s1 : State} {dst src : Aid} {msg : Msg} {effs : List Eff}
    (hd : ∀ k, dst ≠ .node k) (hh : handle cfg s0 dst src msg = some (s1, effs)) : s1.n = s0.n := by
  cases dst with
  | rc => rw [(handle_rc hh).2]
  | sys => rw [(handle_sys hh).2]
  | mech => rw [(handle_mech hh).2]
  | disp => rw [(handle_disp hh).2.2]
  | node h => exact absurd rfl (hd h)

def noCall : Eff → Prop
  | .call _ _ => False
  | .wake => False
  | .exit => False
  | _ => True

theorem noCall_exitReqs (l : List (Option Aid)) : ∀ e ∈ (exitReqs l).1, noCall e := by
  induction l with
  | nil => simp [exitReqs]
  | cons c r ih =>
    cases c with
    | none => simp [exitReqs]
    | some a =>
      intro e he
      simp only [exitReqs, List.mem_cons] at he
      rcases he with he | he
      · subst he; trivial
      · exact ih e he

theorem noCall_onStarted (st : MSt) : ∀ e ∈ (onStarted st).effs, noCall e := by
  unfold onStarted; split <;> simp [noCall]

theorem noCall_onStopped (st : MSt) : ∀ e ∈ (onStopped st).effs, noCall e := by
  unfold onStopped
  split
  · simp
  · have := noCall_exitReqs st.children
    split <;> (intro e he; rcases List.mem_cons.1 he with he | he <;> first | (subst he; trivial) | exact this e he)

theorem noCall_transition (st : MSt) (e n : Status) (k : MSt → Res MSt) (hk : ∀ st', ∀ x ∈ (k st').effs, noCall x) :
    ∀ x ∈ (transition st e n k).effs, noCall x := by
  rcases transition_cases st e n k with ⟨_, _, h3⟩ | ⟨h3, _⟩
  · rw [h3]; exact hk _
  · rw [h3]; simp

theorem noCall_tellRc (st : MSt) (m : Msg) : ∀ e ∈ (tellRc st m).effs, noCall e := by
  unfold tellRc; split <;> simp [noCall]

theorem noCall_guard {σ : Type} (sender : Aid) (r : Res σ) (h : ∀ e ∈ r.effs, noCall e) :
    ∀ e ∈ (guard sender r).effs, noCall e := by
  intro e he
  rw [guard_effs_eq] at he
  rcases List.mem_append.1 he with he | he
  · exact h e he
  · split at he <;> simp at he; subst he; trivial

theorem noCall_poisonEff (r : Bool) (src : Aid) (msg : Msg) : ∀ e ∈ poisonEff r src msg, noCall e := by
  unfold poisonEff
  split
  · split <;> simp [noCall]
  · simp

theorem noCall_recvMech (cfg : Config) (st : MSt) (msg : Msg) (src : Aid) :
    ∀ e ∈ (recvMech cfg st msg src).effs, noCall e := by
  cases msg <;> simp only [recvMech] <;> try (simp; done)
  · apply noCall_guard; unfold mechStart; split
    · simp
    · split <;> simp [noCall]
  · apply noCall_guard; unfold mechStop; split
    · exact noCall_onStopped st
    · intro e he; obtain ⟨a, _, rfl⟩ := List.mem_map.1 he; trivial
  · apply noCall_guard; unfold mechNodesStarted; exact noCall_transition _ _ _ _ (fun st' => noCall_onStarted st')
  · apply noCall_guard; unfold mechNodesStopped; exact noCall_transition _ _ _ _ (fun st' => noCall_onStopped st')
  · exact noCall_tellRc _ _
  · split
    · simp
    · exact noCall_tellRc _ _
  · exact noCall_tellRc _ _

theorem noCall_distribute (sender : Aid) (l : List ((Nat × Nat) × List Nat)) (i : Nat)
    (acc : List Eff × List (Nat × Aid) × List (Nat × List (Nat × Aid))) (h : ∀ e ∈ acc.1, noCall e) :
    ∀ e ∈ (distribute sender l i acc).1, noCall e := by
  induction l generalizing i acc with
  | nil => simpa [distribute] using h
  | cons g rest ih =>
    obtain ⟨⟨ip, port⟩, ids⟩ := g
    obtain ⟨effs, pending, remotes⟩ := acc
    simp only [distribute]
    split
    · apply ih
      intro e he
      rcases List.mem_append.1 he with he | he
      · exact h e he
      · simp at he; subst he; trivial
    · apply ih; exact h

theorem noCall_sendAll (l : List (Nat × Aid)) : ∀ e ∈ sendAll l, noCall e := by
  intro e he; obtain ⟨p, _, rfl⟩ := List.mem_map.1 he; trivial

theorem noCall_recvDisp (cfg : Config) (st : DSt) (msg : Msg) (src : Aid) :
    ∀ e ∈ (recvDisp cfg st msg src).effs, noCall e := by
  cases msg <;> simp only [recvDisp] <;> try (simp; done)
  · apply noCall_guard
    have hd := noCall_distribute src (groups cfg) 0 ([], [], []) (by simp)
    generalize distribute src (groups cfg) 0 ([], [], []) = dd at hd
    obtain ⟨effs, pending, remotes⟩ := dd
    simp only []
    split
    · intro e he
      rcases List.mem_append.1 he with he | he
      · exact hd e he
      · exact noCall_sendAll _ e he
    · intro e he
      rcases List.mem_append.1 he with he | he
      · exact hd e he
      · simp at he; subst he; trivial
  · split <;> simp [noCall]
  · rename_i added ip
    cases added
    · simp only []
      split
      · split <;> simp [noCall]
      · simp
    · simp only []
      split
      · simp
      · split
        · intro e he
          simp only [List.mem_append, List.mem_map, List.mem_singleton] at he
          rcases he with (⟨p, _, rfl⟩ | he) | he
          · trivial
          · subst he; trivial
          · exact noCall_sendAll _ e he
        · intro e he; obtain ⟨p, _, rfl⟩ := List.mem_map.1 he; trivial
  · split <;> simp [noCall]

/-- only the handler of a node actor produces calls, wake-ups and exits -/
theorem noCall_other {cfg : Config} {s0 s1 : State} {dst src : Aid} {msg : Msg} {effs : List Eff}
    (hd : ∀ k, dst ≠ .node k) (hh : handle cfg s0 dst src msg = some (s1, effs)) :
    ∀ e ∈ effs, noCall e := by
  cases dst with
  | rc => rw [(handle_rc hh).1]; simp
  | sys => rw [(handle_sys hh).1]; simp
  | mech =>
    rw [(handle_mech' hh).1]
    intro e he
    rcases List.mem_append.1 he with he | he
    · exact noCall_recvMech _ _ _ _ e he
    · exact noCall_poisonEff _ _ _ e he
  | disp =>
    rw [(handle_disp' hh).1]
    intro e he
    rcases List.mem_append.1 he with he | he
    · exact noCall_recvDisp _ _ _ _ e he
    · exact noCall_poisonEff _ _ _ e he
  | node k => exact absurd rfl (hd k)

end Mechanic
