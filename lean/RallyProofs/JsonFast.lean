import RallyModel.JsonFast
/-! Helper lemmas for C19 (core tactics only). -/
namespace JsonFast

/-! ## association lists -/

section Dict
variable {κ α : Type}

def keys (d : List (κ × α)) : List κ := d.map (·.1)

@[simp] theorem keys_nil : keys ([] : List (κ × α)) = [] := rfl
@[simp] theorem keys_cons (a : κ × α) (d : List (κ × α)) : keys (a :: d) = a.1 :: keys d := rfl

variable [DecidableEq κ]

theorem dget_dset_same (d : List (κ × α)) (k : κ) (v : α) : dget (dset d k v) k = some v := by
  induction d with
  | nil => simp [dset, dget]
  | cons a t ih =>
    obtain ⟨k', v'⟩ := a
    by_cases h : k' = k
    · simp [dset, dget, h]
    · simp [dset, dget, h, ih]

theorem dget_dset_other (d : List (κ × α)) (k k' : κ) (v : α) (h : k' ≠ k) : dget (dset d k v) k' = dget d k' := by
  induction d with
  | nil => simp [dset, dget, Ne.symm h]
  | cons a t ih =>
    obtain ⟨k0, v0⟩ := a
    by_cases h0 : k0 = k
    · subst h0
      simp [dset, dget, Ne.symm h]
    · by_cases h1 : k0 = k'
      · subst h1
        simp [dset, dget, h0]
      · simp [dset, dget, h0, h1, ih]

theorem dget_none_iff (d : List (κ × α)) (k : κ) : dget d k = none ↔ k ∉ keys d := by
  induction d with
  | nil => simp [dget]
  | cons a t ih =>
    obtain ⟨k0, v0⟩ := a
    by_cases h0 : k0 = k
    · simp [dget, h0]
    · simp [dget, h0, ih, Ne.symm h0]

theorem keys_dset (d : List (κ × α)) (k : κ) (v : α) :
    keys (dset d k v) = if k ∈ keys d then keys d else keys d ++ [k] := by
  induction d with
  | nil => simp [dset]
  | cons a t ih =>
    obtain ⟨k0, v0⟩ := a
    by_cases h0 : k0 = k
    · simp [dset, h0]
    · have : ¬ k = k0 := fun h => h0 h.symm
      simp only [dset, h0, if_false, keys_cons, ih, List.mem_cons, this, false_or]
      split <;> simp

theorem keys_dset_subset (d : List (κ × α)) (k : κ) (v : α) (S : List κ) (hk : k ∈ S) (h : ∀ x ∈ keys d, x ∈ S) :
    ∀ x ∈ keys (dset d k v), x ∈ S := by
  intro x hx
  rw [keys_dset] at hx
  split at hx
  · exact h x hx
  · rcases List.mem_append.mp hx with hx | hx
    · exact h x hx
    · simp at hx; subst hx; exact hk

theorem keys_dset_nodup (d : List (κ × α)) (k : κ) (v : α) (h : (keys d).Nodup) : (keys (dset d k v)).Nodup := by
  rw [keys_dset]
  split
  · exact h
  · rename_i hk
    refine List.nodup_append.mpr ⟨h, by simp, ?_⟩
    intro a ha b hb
    simp at hb; subst hb
    intro hab; subst hab; exact hk ha

theorem nodup_subset_length {β : Type} [DecidableEq β] : ∀ (l m : List β), l.Nodup → (∀ x ∈ l, x ∈ m) → l.length ≤ m.length := by
  intro l
  induction l with
  | nil => intros; simp
  | cons a l ih =>
    intro m hnd hsub
    have ha : a ∈ m := hsub a (by simp)
    have hnd' := (List.nodup_cons.mp hnd)
    have := ih (m.erase a) hnd'.2 (by
      intro x hx
      have hxa : x ≠ a := fun h => hnd'.1 (h ▸ hx)
      exact (List.mem_erase_of_ne hxa).mpr (hsub x (by simp [hx])))
    rw [List.length_erase_of_mem ha] at this
    have : 0 < m.length := List.length_pos_of_mem ha
    simp only [List.length_cons]
    omega

/-- a dict whose keys are drawn from `S` and that misses one element of `S` is shorter than `S` -/
theorem length_lt_of_missing (d : List (κ × α)) (S : List κ) (p : κ) (hnd : (keys d).Nodup)
    (hsub : ∀ x ∈ keys d, x ∈ S) (hp : p ∈ S) (hmiss : p ∉ keys d) : d.length < S.length := by
  have := nodup_subset_length (p :: keys d) S (List.nodup_cons.mpr ⟨hmiss, hnd⟩) (by
    intro x hx
    rcases List.mem_cons.mp hx with h | h
    · subst h; exact hp
    · exact hsub x h)
  simp [keys] at this
  omega

theorem dget_dupdate_not_mem (d e : List (κ × α)) (k : κ) (h : k ∉ keys e) : dget (dupdate d e) k = dget d k := by
  unfold dupdate
  induction e generalizing d with
  | nil => rfl
  | cons a t ih =>
    simp only [List.foldl_cons]
    have h1 : k ≠ a.1 := fun hh => h (by simp [hh])
    have h2 : k ∉ keys t := fun hh => h (by simp [hh])
    rw [ih _ h2, dget_dset_other _ _ _ _ h1]

end Dict

/-! ## `joinDots` -/

theorem joinDots_cons_cons (a b : Str) (l : List Str) : joinDots (a :: b :: l) = a ++ '.' :: joinDots (b :: l) := by
  simp [joinDots]

theorem joinDots_append {l1 l2 : List Str} (h1 : l1 ≠ []) (h2 : l2 ≠ []) :
    joinDots (l1 ++ l2) = joinDots l1 ++ '.' :: joinDots l2 := by
  induction l1 with
  | nil => exact absurd rfl h1
  | cons a t ih =>
    cases t with
    | nil =>
      cases l2 with
      | nil => exact absurd rfl h2
      | cons b l => simp [joinDots]
    | cons c t' =>
      have := ih (by simp)
      simp only [List.cons_append] at this ⊢
      rw [joinDots_cons_cons, this, joinDots_cons_cons]
      simp

/-- `S` is `p` or a dotted proper prefix of `p` -/
def DotPrefix (S p : Str) : Prop := p = S ∨ ∃ t, p = S ++ '.' :: t

theorem dotPrefix_joinDots_ext (q ext : List Str) (hq : q ≠ []) : DotPrefix (joinDots q) (joinDots (q ++ ext)) := by
  cases ext with
  | nil => left; simp
  | cons a t => right; exact ⟨_, joinDots_append hq (by simp)⟩

/-- cancellation of a common path -/
theorem joinDots_cancel (path l1 l2 : List Str) (h1 : l1 ≠ []) (h2 : l2 ≠ [])
    (h : joinDots (path ++ l1) = joinDots (path ++ l2)) : joinDots l1 = joinDots l2 := by
  by_cases hp : path = []
  · subst hp; simpa using h
  · rw [joinDots_append hp h1, joinDots_append hp h2] at h
    have := List.append_cancel_left h
    exact (List.cons.inj this).2

theorem joinDots_ne_ext (path comps : List Str) (hc : comps ≠ []) (h0 : path = [] → joinDots comps ≠ []) :
    joinDots path ≠ joinDots (path ++ comps) := by
  by_cases hp : path = []
  · subst hp
    simp only [List.nil_append]
    intro h
    exact h0 rfl (by rw [← h]; rfl)
  · rw [joinDots_append hp hc]
    intro h
    have := congrArg List.length h
    simp at this

/-! ## structure of the event stream -/

mutual
  theorem events_prefix : ∀ (j : Json) (q : List Str), ∀ e ∈ events q j, ∃ ext, e.1 = joinDots (q ++ ext)
    | .null, q => by intro e he; simp [events] at he; exact ⟨[], by simp [he]⟩
    | .bool _, q => by intro e he; simp [events] at he; exact ⟨[], by simp [he]⟩
    | .num _, q => by intro e he; simp [events] at he; exact ⟨[], by simp [he]⟩
    | .str _, q => by intro e he; simp [events] at he; exact ⟨[], by simp [he]⟩
    | .arr xs, q => by
      intro e he
      simp only [events, List.mem_cons, List.mem_append, List.mem_nil_iff, or_false] at he
      rcases he with he | he | he
      · exact ⟨[], by simp [he]⟩
      · obtain ⟨ext, h⟩ := eventsElems_prefix xs (q ++ [itemKey]) e he
        exact ⟨itemKey :: ext, by simpa using h⟩
      · exact ⟨[], by simp [he]⟩
    | .obj kvs, q => by
      intro e he
      simp only [events, List.mem_cons, List.mem_append, List.mem_nil_iff, or_false] at he
      rcases he with he | he | he
      · exact ⟨[], by simp [he]⟩
      · exact eventsMembers_prefix kvs q e he
      · exact ⟨[], by simp [he]⟩
  theorem eventsElems_prefix : ∀ (xs : List Json) (q : List Str), ∀ e ∈ eventsElems q xs, ∃ ext, e.1 = joinDots (q ++ ext)
    | [], q => by intro e he; simp [eventsElems] at he
    | x :: rest, q => by
      intro e he
      simp only [eventsElems, List.mem_append] at he
      rcases he with he | he
      · exact events_prefix x q e he
      · exact eventsElems_prefix rest q e he
  theorem eventsMembers_prefix : ∀ (kvs : List (Str × Json)) (q : List Str),
      ∀ e ∈ eventsMembers q kvs, ∃ ext, e.1 = joinDots (q ++ ext)
    | [], q => by intro e he; simp [eventsMembers] at he
    | (k, v) :: rest, q => by
      intro e he
      simp only [eventsMembers, List.mem_cons, List.mem_append] at he
      rcases he with he | he | he
      · exact ⟨[], by simp [he]⟩
      · obtain ⟨ext, h⟩ := events_prefix v (q ++ [k]) e he
        exact ⟨k :: ext, by simpa using h⟩
      · exact eventsMembers_prefix rest q e he
end

/-! ## locating a dotted path in the event stream -/

/-- No other node of the document has the ijson prefix of the node `comps` leads to: at every object on the
    way the key is unique and no sibling key is a dotted prefix of the remaining name; an array on the way
    would alias only through a component called `item`. -/
def NoAlias : List Str → Json → Prop
  | [], _ => True
  | k :: rest, .obj kvs =>
    (∀ kv ∈ kvs, kv.1 ≠ k → ¬ DotPrefix kv.1 (joinDots (k :: rest))) ∧
    (∀ l1 v l2, kvs = l1 ++ (k, v) :: l2 → (∀ kv ∈ l1, kv.1 ≠ k) ∧ (∀ kv ∈ l2, kv.1 ≠ k)) ∧
    (∀ v, (k, v) ∈ kvs → NoAlias rest v)
  | k :: rest, .arr _ => ¬ DotPrefix itemKey (joinDots (k :: rest))
  | _ :: _, _ => True

theorem dotPrefix_head (k : Str) (ext : List Str) : DotPrefix k (joinDots (k :: ext)) := by
  cases ext with
  | nil => left; rfl
  | cons a t => right; exact ⟨_, joinDots_cons_cons k a t⟩

/-- events below a child `k'` that is not a dotted prefix of the remaining name never carry the target prefix -/
theorem child_events_ne (path comps : List Str) (k' : Str) (hc : comps ≠ [])
    (h : ¬ DotPrefix k' (joinDots comps)) (ext : List Str) :
    joinDots ((path ++ [k']) ++ ext) ≠ joinDots (path ++ comps) := by
  intro he
  rw [List.append_assoc] at he
  have := joinDots_cancel path ([k'] ++ ext) comps (by simp) hc he
  apply h
  rw [← this]
  exact dotPrefix_head k' ext

theorem oget_none_iff (kvs : List (Str × Json)) (k : Str) : oget kvs k = none ↔ ∀ kv ∈ kvs, kv.1 ≠ k := by
  induction kvs with
  | nil => simp [oget]
  | cons a t ih =>
    obtain ⟨k0, v0⟩ := a
    simp only [oget]
    cases h : oget t k with
    | some w =>
      simp only [List.mem_cons, forall_eq_or_imp]
      constructor
      · intro hh; cases hh
      · intro hh
        have := ih.mpr hh.2
        rw [h] at this; cases this
    | none =>
      have := ih.mp h
      by_cases h0 : k0 = k
      · simp [h0]
      · simp only [h0, if_false, List.mem_cons, forall_eq_or_imp, true_iff]
        exact ⟨h0, this⟩

theorem oget_some_split (kvs : List (Str × Json)) (k : Str) (v : Json) (h : oget kvs k = some v) :
    ∃ l1 l2, kvs = l1 ++ (k, v) :: l2 ∧ ∀ kv ∈ l2, kv.1 ≠ k := by
  induction kvs with
  | nil => simp [oget] at h
  | cons a t ih =>
    obtain ⟨k0, v0⟩ := a
    simp only [oget] at h
    cases ht : oget t k with
    | some w =>
      rw [ht] at h
      simp at h
      subst h
      obtain ⟨l1, l2, e, hl⟩ := ih ht
      exact ⟨(k0, v0) :: l1, l2, by simp [e], hl⟩
    | none =>
      rw [ht] at h
      by_cases h0 : k0 = k
      · simp [h0] at h
        subst h; subst h0
        exact ⟨[], t, rfl, (oget_none_iff t k0).mp ht⟩
      · simp [h0] at h

theorem eventsMembers_append (path : List Str) (l1 l2 : List (Str × Json)) :
    eventsMembers path (l1 ++ l2) = eventsMembers path l1 ++ eventsMembers path l2 := by
  induction l1 with
  | nil => simp [eventsMembers]
  | cons a t ih =>
    obtain ⟨k, v⟩ := a
    simp [eventsMembers, ih]

/-- members none of which is (a dotted prefix of) the wanted key contribute no event with the target prefix -/
theorem eventsMembers_ne (path comps : List Str) (hc : comps ≠ []) (h0 : path = [] → joinDots comps ≠ [])
    (l : List (Str × Json)) (hl : ∀ kv ∈ l, ¬ DotPrefix kv.1 (joinDots comps)) :
    ∀ e ∈ eventsMembers path l, e.1 ≠ joinDots (path ++ comps) := by
  induction l with
  | nil => intro e he; simp [eventsMembers] at he
  | cons a t ih =>
    obtain ⟨k', v'⟩ := a
    intro e he
    simp only [eventsMembers, List.mem_cons, List.mem_append] at he
    rcases he with he | he | he
    · rw [he]; exact joinDots_ne_ext path comps hc h0
    · obtain ⟨ext, hx⟩ := events_prefix v' (path ++ [k']) e he
      rw [hx]
      exact child_events_ne path comps k' hc (hl (k', v') (by simp)) ext
    · exact ih (fun kv hkv => hl kv (by simp [hkv])) e he

theorem eventsElems_ne (path comps : List Str) (hc : comps ≠ [])
    (h : ¬ DotPrefix itemKey (joinDots comps)) (xs : List Json) :
    ∀ e ∈ eventsElems (path ++ [itemKey]) xs, e.1 ≠ joinDots (path ++ comps) := by
  intro e he
  obtain ⟨ext, hx⟩ := eventsElems_prefix xs (path ++ [itemKey]) e he
  rw [hx]
  exact child_events_ne path comps itemKey hc h ext

/-- **Decomposition**: under `NoAlias`, the event stream of the document is `A ++ (events of the selected
    node) ++ B` where no event of `A` or `B` carries the selected prefix; if full parsing finds nothing at
    the path, no event carries the prefix at all. -/
theorem events_decomp : ∀ (comps : List Str) (path : List Str) (j : Json), comps ≠ [] →
    (path = [] → joinDots comps ≠ []) → NoAlias comps j →
    match getPath j comps with
    | some n => ∃ A B, events path j = A ++ events (path ++ comps) n ++ B ∧
        (∀ e ∈ A, e.1 ≠ joinDots (path ++ comps)) ∧ (∀ e ∈ B, e.1 ≠ joinDots (path ++ comps))
    | none => ∀ e ∈ events path j, e.1 ≠ joinDots (path ++ comps)
  | [], _, _, hc, _, _ => absurd rfl hc
  | k :: rest, path, j, hc, h0, hna => by
    have hown := joinDots_ne_ext path (k :: rest) hc h0
    cases j with
    | null => simp [getPath, events]; exact hown
    | bool b => simp [getPath, events]; exact hown
    | num n => simp [getPath, events]; exact hown
    | str s => simp [getPath, events]; exact hown
    | arr xs =>
      simp only [getPath]
      intro e he
      simp only [events, List.mem_cons, List.mem_append, List.mem_nil_iff, or_false] at he
      rcases he with he | he | he
      · rw [he]; exact hown
      · exact eventsElems_ne path (k :: rest) hc hna xs e he
      · rw [he]; exact hown
    | obj kvs =>
      obtain ⟨hsib, huniq, hrec⟩ := hna
      simp only [getPath]
      cases hg : oget kvs k with
      | none =>
        simp only
        have hall := (oget_none_iff kvs k).mp hg
        intro e he
        simp only [events, List.mem_cons, List.mem_append, List.mem_nil_iff, or_false] at he
        rcases he with he | he | he
        · rw [he]; exact hown
        · exact eventsMembers_ne path (k :: rest) hc h0 kvs (fun kv hkv => hsib kv hkv (hall kv hkv)) e he
        · rw [he]; exact hown
      | some v =>
        simp only
        obtain ⟨l1, l2, hsplit, _⟩ := oget_some_split kvs k v hg
        obtain ⟨hl1, hl2⟩ := huniq l1 v l2 hsplit
        have hm1 := eventsMembers_ne path (k :: rest) hc h0 l1 (fun kv hkv => hsib kv (by simp [hsplit, hkv]) (hl1 kv hkv))
        have hm2 := eventsMembers_ne path (k :: rest) hc h0 l2 (fun kv hkv => hsib kv (by simp [hsplit, hkv]) (hl2 kv hkv))
        have hev : events path (.obj kvs) = ((joinDots path, Ev.startMap) :: (eventsMembers path l1 ++ [(joinDots path, Ev.mapKey k)])) ++
            events (path ++ [k]) v ++ (eventsMembers path l2 ++ [(joinDots path, Ev.endMap)]) := by
          simp [events, hsplit, eventsMembers_append, eventsMembers]
        have hA : ∀ e ∈ (joinDots path, Ev.startMap) :: (eventsMembers path l1 ++ [(joinDots path, Ev.mapKey k)]),
            e.1 ≠ joinDots (path ++ k :: rest) := by
          intro e he
          simp only [List.mem_cons, List.mem_append, List.mem_nil_iff, or_false] at he
          rcases he with he | he | he
          · rw [he]; exact hown
          · exact hm1 e he
          · rw [he]; exact hown
        have hB : ∀ e ∈ eventsMembers path l2 ++ [(joinDots path, Ev.endMap)], e.1 ≠ joinDots (path ++ k :: rest) := by
          intro e he
          simp only [List.mem_cons, List.mem_append, List.mem_nil_iff, or_false] at he
          rcases he with he | he
          · exact hm2 e he
          · rw [he]; exact hown
        have hassoc : (path ++ [k]) ++ rest = path ++ k :: rest := by simp
        cases rest with
        | nil =>
          simp only [getPath]
          exact ⟨_, _, hev, hA, hB⟩
        | cons k2 rest2 =>
          have ih := events_decomp (k2 :: rest2) (path ++ [k]) v (by simp) (by simp) (hrec v (by simp [hsplit]))
          rw [hassoc] at ih
          cases hg2 : getPath v (k2 :: rest2) with
          | none =>
            rw [hg2] at ih
            simp only at ih ⊢
            intro e he
            rw [hev] at he
            rcases List.mem_append.mp he with he | he
            · rcases List.mem_append.mp he with he | he
              · exact hA e he
              · exact ih e he
            · exact hB e he
          | some n =>
            rw [hg2] at ih
            simp only at ih ⊢
            obtain ⟨A', B', hev', hA', hB'⟩ := ih
            refine ⟨((joinDots path, Ev.startMap) :: (eventsMembers path l1 ++ [(joinDots path, Ev.mapKey k)])) ++ A',
              B' ++ (eventsMembers path l2 ++ [(joinDots path, Ev.endMap)]), ?_, ?_, ?_⟩
            · rw [hev, hev']; simp
            · intro e he
              rcases List.mem_append.mp he with he | he
              · exact hA e he
              · exact hA' e he
            · intro e he
              rcases List.mem_append.mp he with he | he
              · exact hB' e he
              · exact hB e he

/-! ## the loop of `parse` -/

structure Inv (props lists : List Str) (s : PS) : Prop where
  pk_nodup : (keys s.parsed).Nodup
  pk_sub : ∀ x ∈ keys s.parsed, x ∈ props
  lk_nodup : (keys s.plists).Nodup
  lk_sub : ∀ x ∈ keys s.plists, x ∈ lists
  cur_sub : s.expectEnd = true → s.curList ∈ lists

theorem inv_init (props lists : List Str) : Inv props lists {} :=
  ⟨by simp [keys], by simp [keys], by simp [keys], by simp [keys], by simp⟩

/-- the first statement of the loop body: resolve a pending list-emptiness question -/
def resolve (s0 : PS) (e : Str × Ev) : PS :=
  if s0.expectEnd then { s0 with plists := dset s0.plists s0.curList (e.2 == Ev.endArray), expectEnd := false } else s0

theorem resolve_parsed (s0 : PS) (e : Str × Ev) : (resolve s0 e).parsed = s0.parsed := by
  unfold resolve; split <;> rfl

theorem resolve_expectEnd (s0 : PS) (e : Str × Ev) : (resolve s0 e).expectEnd = false := by
  unfold resolve; split
  · rfl
  · rename_i h; simpa using h

theorem inv_resolve {props lists : List Str} {s : PS} (h : Inv props lists s) (e : Str × Ev) : Inv props lists (resolve s e) := by
  unfold resolve
  split
  · rename_i he
    exact ⟨h.pk_nodup, h.pk_sub, keys_dset_nodup _ _ _ h.lk_nodup, keys_dset_subset _ _ _ _ (h.cur_sub he) h.lk_sub, by simp⟩
  · exact h

theorem step_eq (props lists objs : List Str) (s0 : PS) (e : Str × Ev) :
    step props lists objs s0 e =
      (let s := resolve s0 e
       if e.1 ∈ props then { s with parsed := dset s.parsed e.1 e.2.value }
       else if e.1 ∈ lists ∧ e.2 = Ev.startArray then { s with curList := e.1, expectEnd := true }
       else if e.2 = Ev.endMap ∧ e.1 ∈ objs then { s with pobjs := dset s.pobjs s.inObj s.curObj, inObj := none }
       else if e.2 = Ev.startMap ∧ e.1 ∈ objs then { s with inObj := some e.1, curObj := [] }
       else
         match inObjTruthy s.inObj with
         | some io => if e.2.isPrimitive then { s with curObj := dset s.curObj (e.1.drop (io.length + 1)) e.2.value } else s
         | none => s) := rfl

theorem step_parsed_of_mem (props lists objs : List Str) (s : PS) (e : Str × Ev) (h : e.1 ∈ props) :
    (step props lists objs s e).parsed = dset s.parsed e.1 e.2.value := by
  rw [step_eq]; simp [h, resolve_parsed]

theorem step_parsed_of_not_mem (props lists objs : List Str) (s : PS) (e : Str × Ev) (h : e.1 ∉ props) :
    (step props lists objs s e).parsed = s.parsed := by
  rw [step_eq]
  simp only [h, if_false]
  split
  · exact resolve_parsed s e
  · split
    · exact resolve_parsed s e
    · split
      · exact resolve_parsed s e
      · split
        · split <;> exact resolve_parsed s e
        · exact resolve_parsed s e

theorem step_plists_of_mem (props lists objs : List Str) (s : PS) (e : Str × Ev) (h : e.1 ∈ props) :
    (step props lists objs s e).plists = (resolve s e).plists ∧ (step props lists objs s e).expectEnd = false ∧
    (step props lists objs s e).curList = (resolve s e).curList := by
  rw [step_eq]; simp [h, resolve_expectEnd]

theorem step_lists (props lists objs : List Str) (s : PS) (e : Str × Ev) :
    (step props lists objs s e).plists = (resolve s e).plists ∧
    (((step props lists objs s e).expectEnd = true ∧ (step props lists objs s e).curList = e.1 ∧
        e.1 ∉ props ∧ e.1 ∈ lists ∧ e.2 = Ev.startArray) ∨
     ((step props lists objs s e).expectEnd = false ∧ ¬ (e.1 ∉ props ∧ e.1 ∈ lists ∧ e.2 = Ev.startArray))) := by
  rw [step_eq]
  by_cases hp : e.1 ∈ props
  · simp [hp, resolve_expectEnd]
  · by_cases hl : e.1 ∈ lists ∧ e.2 = Ev.startArray
    · simp [hp, hl]
    · have hl' : ¬ (e.1 ∉ props ∧ e.1 ∈ lists ∧ e.2 = Ev.startArray) := fun h => hl ⟨h.2.1, h.2.2⟩
      refine ⟨?_, Or.inr ⟨?_, hl'⟩⟩
      · simp only [hp, hl, if_false]
        split
        · rfl
        · split
          · rfl
          · split
            · split <;> rfl
            · rfl
      · simp only [hp, hl, if_false]
        split
        · exact resolve_expectEnd s e
        · split
          · exact resolve_expectEnd s e
          · split
            · split <;> exact resolve_expectEnd s e
            · exact resolve_expectEnd s e

theorem inv_step {props lists objs : List Str} {s : PS} (h : Inv props lists s) (e : Str × Ev) :
    Inv props lists (step props lists objs s e) := by
  have hr := inv_resolve h e
  obtain ⟨hpl, hcase⟩ := step_lists props lists objs s e
  by_cases hp : e.1 ∈ props
  · have h1 := step_parsed_of_mem props lists objs s e hp
    refine ⟨?_, ?_, ?_, ?_, ?_⟩
    · rw [h1]; exact keys_dset_nodup _ _ _ h.pk_nodup
    · rw [h1]; exact keys_dset_subset _ _ _ _ hp h.pk_sub
    · rw [hpl]; exact hr.lk_nodup
    · rw [hpl]; exact hr.lk_sub
    · rcases hcase with hc | hc
      · exact absurd hp hc.2.2.1
      · intro hh; rw [hc.1] at hh; cases hh
  · have h1 := step_parsed_of_not_mem props lists objs s e hp
    refine ⟨?_, ?_, ?_, ?_, ?_⟩
    · rw [h1]; exact h.pk_nodup
    · rw [h1]; exact h.pk_sub
    · rw [hpl]; exact hr.lk_nodup
    · rw [hpl]; exact hr.lk_sub
    · rcases hcase with hc | hc
      · intro _; rw [hc.2.1]; exact hc.2.2.2.1
      · intro hh; rw [hc.1] at hh; cases hh

theorem done_false_of_prop_missing {props lists objs : List Str} {s : PS} (h : Inv props lists s) {p : Str}
    (hp : p ∈ props) (hm : dget s.parsed p = none) : done props lists objs s = false := by
  have := length_lt_of_missing s.parsed props p h.pk_nodup h.pk_sub hp ((dget_none_iff _ _).mp hm)
  simp only [done, Bool.and_eq_false_iff, beq_eq_false_iff_ne]
  left; left; omega

theorem done_false_of_list_missing {props lists objs : List Str} {s : PS} (h : Inv props lists s) {l : Str}
    (hl : l ∈ lists) (hm : dget s.plists l = none) : done props lists objs s = false := by
  have := length_lt_of_missing s.plists lists l h.lk_nodup h.lk_sub hl ((dget_none_iff _ _).mp hm)
  simp only [done, Bool.and_eq_false_iff, beq_eq_false_iff_ne]
  left; right; omega

/-- events with another prefix leave `parsed[p]` alone -/
theorem run_preserves_prop (props lists objs : List Str) (p : Str) :
    ∀ (evs : List (Str × Ev)) (s : PS), (∀ e ∈ evs, e.1 ≠ p) →
      dget (run props lists objs s evs).parsed p = dget s.parsed p := by
  intro evs
  induction evs with
  | nil => intro s _; rfl
  | cons e es ih =>
    intro s h
    have he : e.1 ≠ p := h e (by simp)
    have hstep : dget (step props lists objs s e).parsed p = dget s.parsed p := by
      by_cases hp : e.1 ∈ props
      · rw [step_parsed_of_mem _ _ _ _ _ hp, dget_dset_other _ _ _ _ (Ne.symm he)]
      · rw [step_parsed_of_not_mem _ _ _ _ _ hp]
    simp only [run]
    split
    · exact hstep
    · rw [ih _ (fun e' he' => h e' (by simp [he'])), hstep]

/-- **a property that occurs exactly once in the stream is returned with its value** (the early exit cannot
    fire before, because the dict is still missing that property) -/
theorem run_prop_unique (props lists objs : List Str) (p : Str) (hp : p ∈ props) (ev : Ev) (B : List (Str × Ev))
    (hB : ∀ e ∈ B, e.1 ≠ p) :
    ∀ (A : List (Str × Ev)) (s : PS), Inv props lists s → dget s.parsed p = none → (∀ e ∈ A, e.1 ≠ p) →
      dget (run props lists objs s (A ++ (p, ev) :: B)).parsed p = some ev.value := by
  intro A
  induction A with
  | nil =>
    intro s _ _ _
    have hstep : dget (step props lists objs s (p, ev)).parsed p = some ev.value := by
      rw [step_parsed_of_mem _ _ _ _ _ hp, dget_dset_same]
    simp only [List.nil_append, run]
    split
    · exact hstep
    · rw [run_preserves_prop _ _ _ _ _ _ hB, hstep]
  | cons a A ih =>
    intro s hinv hm hA
    have ha : a.1 ≠ p := hA a (by simp)
    have hstep : dget (step props lists objs s a).parsed p = none := by
      by_cases hpa : a.1 ∈ props
      · rw [step_parsed_of_mem _ _ _ _ _ hpa, dget_dset_other _ _ _ _ (Ne.symm ha)]; exact hm
      · rw [step_parsed_of_not_mem _ _ _ _ _ hpa]; exact hm
    have hinv' := inv_step (objs := objs) hinv a
    simp only [List.cons_append, run]
    rw [done_false_of_prop_missing hinv' hp hstep]
    simp only [Bool.false_eq_true, if_false]
    exact ih _ hinv' hstep (fun e he => hA e (by simp [he]))

/-! ### `parsed_objects` bookkeeping and the final merge -/

def InvO (objs : List Str) (s : PS) : Prop :=
  (∀ x ∈ keys s.pobjs, x = none ∨ ∃ o ∈ objs, x = some o) ∧ (s.inObj = none ∨ ∃ o ∈ objs, s.inObj = some o)

theorem resolve_objs (s0 : PS) (e : Str × Ev) :
    (resolve s0 e).pobjs = s0.pobjs ∧ (resolve s0 e).inObj = s0.inObj ∧ (resolve s0 e).curObj = s0.curObj := by
  unfold resolve; split <;> exact ⟨rfl, rfl, rfl⟩

theorem step_objs (props lists objs : List Str) (s : PS) (e : Str × Ev) :
    ((step props lists objs s e).pobjs = s.pobjs ∧
      ((step props lists objs s e).inObj = s.inObj ∨ ((step props lists objs s e).inObj = some e.1 ∧ e.1 ∈ objs))) ∨
    ((step props lists objs s e).pobjs = dset s.pobjs s.inObj s.curObj ∧ (step props lists objs s e).inObj = none) := by
  obtain ⟨h1, h2, h3⟩ := resolve_objs s e
  rw [step_eq]
  simp only
  split
  · left; exact ⟨h1, Or.inl h2⟩
  · split
    · left; exact ⟨h1, Or.inl h2⟩
    · split
      · right; simp [h1, h2, h3]
      · split
        · rename_i hh
          left; exact ⟨h1, Or.inr ⟨rfl, hh.2⟩⟩
        · split
          · split
            · left; exact ⟨h1, Or.inl h2⟩
            · left; exact ⟨h1, Or.inl h2⟩
          · left; exact ⟨h1, Or.inl h2⟩

theorem invO_init (objs : List Str) : InvO objs {} := ⟨by simp [keys], Or.inl rfl⟩

theorem invO_step {props lists objs : List Str} {s : PS} (h : InvO objs s) (e : Str × Ev) :
    InvO objs (step props lists objs s e) := by
  rcases step_objs props lists objs s e with ⟨hp, hi⟩ | ⟨hp, hi⟩
  · refine ⟨by rw [hp]; exact h.1, ?_⟩
    rcases hi with hi | hi
    · rw [hi]; exact h.2
    · right; exact ⟨e.1, hi.2, hi.1⟩
  · refine ⟨?_, Or.inl hi⟩
    rw [hp]
    intro x hx
    rw [keys_dset] at hx
    split at hx
    · exact h.1 x hx
    · rcases List.mem_append.mp hx with hx | hx
      · exact h.1 x hx
      · simp at hx; subst hx; exact h.2

theorem inv_run {props lists objs : List Str} : ∀ (evs : List (Str × Ev)) {s : PS}, Inv props lists s → InvO objs s →
    Inv props lists (run props lists objs s evs) ∧ InvO objs (run props lists objs s evs) := by
  intro evs
  induction evs with
  | nil => intro s h1 h2; exact ⟨h1, h2⟩
  | cons e es ih =>
    intro s h1 h2
    simp only [run]
    split
    · exact ⟨inv_step h1 e, invO_step h2 e⟩
    · exact ih (inv_step h1 e) (invO_step h2 e)

theorem dget_map_some {α β : Type} (d : List (Str × α)) (f : α → β) (p : Str) :
    dget (d.map (fun kv => ((some kv.1 : Option Str), f kv.2))) (some p) = (dget d p).map f := by
  induction d with
  | nil => rfl
  | cons a t ih =>
    obtain ⟨k, v⟩ := a
    by_cases h : k = p
    · simp [dget, h]
    · simp [dget, h, ih]

theorem keys_map_some {α β : Type} (d : List (Str × α)) (f : α → β) :
    keys (d.map (fun kv => ((some kv.1 : Option Str), f kv.2))) = (keys d).map some := by
  simp [keys, List.map_map, Function.comp_def]

/-- a property that is neither a requested list nor a requested object survives the final merge -/
theorem pget_finish_prop {props lists objs : List Str} {s : PS} (h1 : Inv props lists s) (h2 : InvO objs s) (p : Str)
    (hl : p ∉ lists) (ho : p ∉ objs) : pget (finish s) p = (dget s.parsed p).map PVal.s := by
  unfold pget finish
  rw [dget_dupdate_not_mem, dget_dupdate_not_mem, dget_map_some]
  · rw [keys_map_some (f := fun b => PVal.s (SVal.bool b))]
    intro hmem
    obtain ⟨x, hx, hxe⟩ := List.mem_map.mp hmem
    injection hxe with hxe
    subst hxe
    exact hl (h1.lk_sub _ hx)
  · intro hmem
    simp only [keys, List.map_map, List.mem_map, Function.comp_def] at hmem
    obtain ⟨x, hx, hxe⟩ := hmem
    have : x.1 ∈ keys s.pobjs := List.mem_map.mpr ⟨x, hx, rfl⟩
    rcases h2.1 x.1 this with hn | ⟨o, ho', hoe⟩
    · rw [hn] at hxe; cases hxe
    · rw [hoe] at hxe; cases hxe; exact ho ho'

/-- **runner.parse, scalar property occurring once**: the value of the single event with that prefix -/
theorem parseSel_prop_unique (props lists objs : List Str) (p : Str) (hp : p ∈ props) (hl : p ∉ lists) (ho : p ∉ objs)
    (A B : List (Str × Ev)) (ev : Ev) (hA : ∀ e ∈ A, e.1 ≠ p) (hB : ∀ e ∈ B, e.1 ≠ p) :
    pget (parseSel props lists objs (A ++ (p, ev) :: B)) p = some (.s ev.value) := by
  unfold parseSel
  obtain ⟨i1, i2⟩ := inv_run (objs := objs) (A ++ (p, ev) :: B) (inv_init props lists) (invO_init objs)
  rw [pget_finish_prop i1 i2 p hl ho, run_prop_unique props lists objs p hp ev B hB A {} (inv_init props lists) rfl hA]
  rfl

/-- **runner.parse, absent property**: no event with that prefix, no entry -/
theorem parseSel_absent (props lists objs : List Str) (p : Str) (hl : p ∉ lists) (ho : p ∉ objs)
    (evs : List (Str × Ev)) (h : ∀ e ∈ evs, e.1 ≠ p) : pget (parseSel props lists objs evs) p = none := by
  unfold parseSel
  obtain ⟨i1, i2⟩ := inv_run (objs := objs) evs (inv_init props lists) (invO_init objs)
  rw [pget_finish_prop i1 i2 p hl ho, run_preserves_prop props lists objs p evs {} h]
  rfl

/-! ### list-emptiness flags -/

def Pending (l : Str) (s : PS) : Prop := s.expectEnd = true ∧ s.curList = l

theorem resolve_plists_not_pending (l : Str) (s : PS) (e : Str × Ev) (h : ¬ Pending l s) :
    dget (resolve s e).plists l = dget s.plists l := by
  unfold resolve
  split
  · rename_i he
    have : l ≠ s.curList := fun hh => h ⟨he, hh.symm⟩
    simp only
    rw [dget_dset_other _ _ _ _ this]
  · rfl

theorem resolve_plists_pending (l : Str) (s : PS) (e : Str × Ev) (h : Pending l s) :
    dget (resolve s e).plists l = some (e.2 == Ev.endArray) := by
  unfold resolve
  rw [if_pos h.1]
  simp only
  rw [h.2, dget_dset_same]

theorem step_not_pending (props lists objs : List Str) (l : Str) (s : PS) (e : Str × Ev)
    (he : ¬ (e.1 = l ∧ e.2 = Ev.startArray)) : ¬ Pending l (step props lists objs s e) := by
  intro hp
  rcases (step_lists props lists objs s e).2 with hc | hc
  · exact he ⟨hc.2.1 ▸ hp.2, hc.2.2.2.2⟩
  · have := hp.1
    rw [hc.1] at this
    cases this

theorem step_list_other (props lists objs : List Str) (l : Str) (s : PS) (e : Str × Ev) (hs : ¬ Pending l s) :
    dget (step props lists objs s e).plists l = dget s.plists l := by
  rw [(step_lists props lists objs s e).1, resolve_plists_not_pending l s e hs]

theorem run_preserves_list (props lists objs : List Str) (l : Str) :
    ∀ (evs : List (Str × Ev)) (s : PS), ¬ Pending l s → (∀ e ∈ evs, ¬ (e.1 = l ∧ e.2 = Ev.startArray)) →
      dget (run props lists objs s evs).plists l = dget s.plists l := by
  intro evs
  induction evs with
  | nil => intro s _ _; rfl
  | cons e es ih =>
    intro s hs h
    have h1 := step_list_other props lists objs l s e hs
    have h2 := step_not_pending props lists objs l s e (h e (by simp))
    simp only [run]
    split
    · exact h1
    · rw [ih _ h2 (fun e' he' => h e' (by simp [he'])), h1]

/-- **a requested list whose `start_array` occurs once**: the flag says whether the next event closes it -/
theorem run_list_flag (props lists objs : List Str) (l : Str) (hl : l ∈ lists) (hlp : l ∉ props)
    (nxt : Str × Ev) (B : List (Str × Ev)) (hn : ¬ (nxt.1 = l ∧ nxt.2 = Ev.startArray))
    (hB : ∀ e ∈ B, ¬ (e.1 = l ∧ e.2 = Ev.startArray)) :
    ∀ (A : List (Str × Ev)) (s : PS), Inv props lists s → dget s.plists l = none → ¬ Pending l s →
      (∀ e ∈ A, ¬ (e.1 = l ∧ e.2 = Ev.startArray)) →
      dget (run props lists objs s (A ++ (l, Ev.startArray) :: nxt :: B)).plists l = some (nxt.2 == Ev.endArray) := by
  intro A
  induction A with
  | nil =>
    intro s hinv hm hs _
    have h1 := step_list_other props lists objs l s (l, Ev.startArray) hs
    have hinv1 := inv_step (objs := objs) hinv (l, Ev.startArray)
    have hpend : Pending l (step props lists objs s (l, Ev.startArray)) := by
      rcases (step_lists props lists objs s (l, Ev.startArray)).2 with hc | hc
      · exact ⟨hc.1, hc.2.1⟩
      · exact absurd ⟨hlp, hl, rfl⟩ hc.2
    simp only [List.nil_append, run]
    rw [done_false_of_list_missing hinv1 hl (by rw [h1]; exact hm)]
    simp only [Bool.false_eq_true, if_false]
    have h2 : dget (step props lists objs (step props lists objs s (l, Ev.startArray)) nxt).plists l = some (nxt.2 == Ev.endArray) := by
      rw [(step_lists props lists objs _ nxt).1, resolve_plists_pending l _ nxt hpend]
    have h3 := step_not_pending props lists objs l (step props lists objs s (l, Ev.startArray)) nxt hn
    split
    · exact h2
    · rw [run_preserves_list props lists objs l B _ h3 hB, h2]
  | cons a A ih =>
    intro s hinv hm hs hA
    have h1 := step_list_other props lists objs l s a hs
    have h2 := step_not_pending props lists objs l s a (hA a (by simp))
    have hinv1 := inv_step (objs := objs) hinv a
    simp only [List.cons_append, run]
    rw [done_false_of_list_missing hinv1 hl (by rw [h1]; exact hm)]
    simp only [Bool.false_eq_true, if_false]
    exact ih _ hinv1 (by rw [h1]; exact hm) h2 (fun e he => hA e (by simp [he]))

theorem dget_dupdate_nodup {κ α : Type} [DecidableEq κ] (e : List (κ × α)) : ∀ (d : List (κ × α)) (k : κ), (keys e).Nodup →
    dget (dupdate d e) k = match dget e k with
      | some v => some v
      | none => dget d k := by
  induction e with
  | nil => intro d k _; rfl
  | cons a t ih =>
    intro d k hnd
    obtain ⟨k0, v0⟩ := a
    have hnd' := List.nodup_cons.mp hnd
    have hstep : dupdate d ((k0, v0) :: t) = dupdate (dset d k0 v0) t := rfl
    rw [hstep, ih _ _ hnd'.2]
    by_cases hk : k0 = k
    · subst hk
      have : dget t k0 = none := (dget_none_iff _ _).mpr hnd'.1
      simp [this, dget, dget_dset_same]
    · simp only [dget, hk, if_false]
      rw [dget_dset_other _ _ _ _ (Ne.symm hk)]

theorem nodup_map_some {β : Type} (l : List β) (h : l.Nodup) : (l.map (some : β → Option β)).Nodup := by
  induction l with
  | nil => simp
  | cons a t ih =>
    have h' := List.nodup_cons.mp h
    simp only [List.map_cons]
    refine List.nodup_cons.mpr ⟨?_, ih h'.2⟩
    intro hm
    obtain ⟨x, hx, hxe⟩ := List.mem_map.mp hm
    injection hxe with hxe
    subst hxe
    exact h'.1 hx

theorem pget_finish_list {props lists objs : List Str} {s : PS} (h1 : Inv props lists s) (h2 : InvO objs s) (l : Str)
    (ho : l ∉ objs) (b : Bool) (hb : dget s.plists l = some b) : pget (finish s) l = some (.s (.bool b)) := by
  unfold pget finish
  rw [dget_dupdate_not_mem]
  · rw [dget_dupdate_nodup]
    · rw [dget_map_some (f := fun b => PVal.s (SVal.bool b)), hb]; rfl
    · rw [keys_map_some (f := fun b => PVal.s (SVal.bool b))]
      exact nodup_map_some _ h1.lk_nodup
  · intro hmem
    simp only [keys, List.map_map, List.mem_map, Function.comp_def] at hmem
    obtain ⟨x, hx, hxe⟩ := hmem
    have : x.1 ∈ keys s.pobjs := List.mem_map.mpr ⟨x, hx, rfl⟩
    rcases h2.1 x.1 this with hn | ⟨o, ho', hoe⟩
    · rw [hn] at hxe; cases hxe
    · rw [hoe] at hxe; cases hxe; exact ho ho'

theorem parseSel_list_flag (props lists objs : List Str) (l : Str) (hl : l ∈ lists) (hlp : l ∉ props) (ho : l ∉ objs)
    (A B : List (Str × Ev)) (nxt : Str × Ev) (hA : ∀ e ∈ A, ¬ (e.1 = l ∧ e.2 = Ev.startArray))
    (hn : ¬ (nxt.1 = l ∧ nxt.2 = Ev.startArray)) (hB : ∀ e ∈ B, ¬ (e.1 = l ∧ e.2 = Ev.startArray)) :
    pget (parseSel props lists objs (A ++ (l, Ev.startArray) :: nxt :: B)) l = some (.s (.bool (nxt.2 == Ev.endArray))) := by
  unfold parseSel
  obtain ⟨i1, i2⟩ := inv_run (objs := objs) (A ++ (l, Ev.startArray) :: nxt :: B) (inv_init props lists) (invO_init objs)
  exact pget_finish_list i1 i2 l ho _
    (run_list_flag props lists objs l hl hlp nxt B hn hB A {} (inv_init props lists) rfl (by simp [Pending]) hA)

/-! ### document level: selective parsing against full parsing -/

theorem events_scalar (q : List Str) (n : Json) (h : n.isScalar = true) :
    ∃ ev, events q n = [(joinDots q, ev)] ∧ ev.value = n.toSVal := by
  cases n with
  | null => exact ⟨.null, by simp [events], rfl⟩
  | bool b => exact ⟨.boolean b, by simp [events], rfl⟩
  | num x => exact ⟨.number x, by simp [events], rfl⟩
  | str x => exact ⟨.string x, by simp [events], rfl⟩
  | arr xs => simp [Json.isScalar] at h
  | obj kvs => simp [Json.isScalar] at h

/-- the first event of a value is at the value's own prefix and never closes an array -/
theorem events_head (q : List Str) (j : Json) :
    ∃ e rest, events q j = e :: rest ∧ e.1 = joinDots q ∧ e.2 ≠ Ev.endArray := by
  cases j with
  | null => exact ⟨(joinDots q, Ev.null), [], by rw [events], rfl, by simp⟩
  | bool b => exact ⟨(joinDots q, Ev.boolean b), [], by rw [events], rfl, by simp⟩
  | num x => exact ⟨(joinDots q, Ev.number x), [], by rw [events], rfl, by simp⟩
  | str x => exact ⟨(joinDots q, Ev.string x), [], by rw [events], rfl, by simp⟩
  | arr xs => exact ⟨(joinDots q, Ev.startArray), _, by rw [events], rfl, by simp⟩
  | obj kvs => exact ⟨(joinDots q, Ev.startMap), _, by rw [events], rfl, by simp⟩

/-- a `start_array` among the member events of an object belongs to a child: its prefix is strictly longer -/
theorem eventsMembers_startArray_ne (q : List Str) (hq : q ≠ []) : ∀ (kvs : List (Str × Json)),
    ∀ e ∈ eventsMembers q kvs, e.2 = Ev.startArray → e.1 ≠ joinDots q := by
  intro kvs
  induction kvs with
  | nil => intro e he; simp [eventsMembers] at he
  | cons a t ih =>
    obtain ⟨k', v'⟩ := a
    intro e he hs
    simp only [eventsMembers, List.mem_cons, List.mem_append] at he
    rcases he with he | he | he
    · rw [he] at hs; simp at hs
    · obtain ⟨ext', hx'⟩ := events_prefix v' (q ++ [k']) e he
      rw [hx', List.append_assoc]
      exact (joinDots_ne_ext q ([k'] ++ ext') (by simp) (fun h => absurd h hq)).symm
    · exact ih e he hs

/-- **parse, scalar properties**: for a dotted name that is unambiguous in the document, `parse` returns
    exactly what full parsing finds at that path (nothing if nothing is there). -/
theorem parse_prop_eq_full (j : Json) (props lists objs : List Str) (comps : List Str) (hc : comps ≠ [])
    (h0 : joinDots comps ≠ []) (hna : NoAlias comps j)
    (hp : joinDots comps ∈ props) (hl : joinDots comps ∉ lists) (ho : joinDots comps ∉ objs) :
    match getPath j comps with
    | none => pget (parseSel props lists objs (events [] j)) (joinDots comps) = none
    | some n => n.isScalar = true → pget (parseSel props lists objs (events [] j)) (joinDots comps) = some (.s n.toSVal) := by
  have hd := events_decomp comps [] j hc (fun _ => h0) hna
  simp only [List.nil_append] at hd
  cases hg : getPath j comps with
  | none =>
    rw [hg] at hd
    exact parseSel_absent props lists objs _ hl ho _ hd
  | some n =>
    rw [hg] at hd
    intro hs
    obtain ⟨A, B, hev, hA, hB⟩ := hd
    obtain ⟨ev, he, hv⟩ := events_scalar comps n hs
    rw [hev, he, ← hv]
    simpa using parseSel_prop_unique props lists objs _ hp hl ho A B ev hA hB

theorem pget_finish_none {props lists objs : List Str} {s : PS} (h1 : Inv props lists s) (h2 : InvO objs s) (l : Str)
    (hlp : l ∉ props) (ho : l ∉ objs) (hb : dget s.plists l = none) : pget (finish s) l = none := by
  unfold pget finish
  rw [dget_dupdate_not_mem]
  · rw [dget_dupdate_nodup]
    · rw [dget_map_some (f := fun b => PVal.s (SVal.bool b)), hb, dget_map_some]
      have : dget s.parsed l = none := (dget_none_iff _ _).mpr (fun hm => hlp (h1.pk_sub l hm))
      simp [this]
    · rw [keys_map_some (f := fun b => PVal.s (SVal.bool b))]
      exact nodup_map_some _ h1.lk_nodup
  · intro hmem
    simp only [keys, List.map_map, List.mem_map, Function.comp_def] at hmem
    obtain ⟨x, hx, hxe⟩ := hmem
    have : x.1 ∈ keys s.pobjs := List.mem_map.mpr ⟨x, hx, rfl⟩
    rcases h2.1 x.1 this with hn | ⟨o, ho', hoe⟩
    · rw [hn] at hxe; cases hxe
    · rw [hoe] at hxe; cases hxe; exact ho ho'

theorem parseSel_list_none (props lists objs : List Str) (l : Str) (hlp : l ∉ props) (ho : l ∉ objs)
    (evs : List (Str × Ev)) (h : ∀ e ∈ evs, ¬ (e.1 = l ∧ e.2 = Ev.startArray)) :
    pget (parseSel props lists objs evs) l = none := by
  unfold parseSel
  obtain ⟨i1, i2⟩ := inv_run (objs := objs) evs (inv_init props lists) (invO_init objs)
  refine pget_finish_none i1 i2 l hlp ho ?_
  rw [run_preserves_list props lists objs l evs {} (by simp [Pending]) h]
  rfl

/-- **parse, list-emptiness flags**: for an unambiguous dotted name the flag is present iff full parsing finds
    a list there, and says whether that list is empty. -/
theorem parse_list_eq_full (j : Json) (props lists objs : List Str) (comps : List Str) (hc : comps ≠ [])
    (h0 : joinDots comps ≠ []) (hna : NoAlias comps j)
    (hl : joinDots comps ∈ lists) (hlp : joinDots comps ∉ props) (ho : joinDots comps ∉ objs) :
    pget (parseSel props lists objs (events [] j)) (joinDots comps) =
      match getPath j comps with
      | some (.arr xs) => some (.s (.bool xs.isEmpty))
      | _ => none := by
  have hd := events_decomp comps [] j hc (fun _ => h0) hna
  simp only [List.nil_append] at hd
  cases hg : getPath j comps with
  | none =>
    rw [hg] at hd
    exact parseSel_list_none props lists objs _ hlp ho _ (fun e he hh => hd e he hh.1)
  | some n =>
    rw [hg] at hd
    obtain ⟨A, B, hev, hA, hB⟩ := hd
    have hA' : ∀ e ∈ A, ¬ (e.1 = joinDots comps ∧ e.2 = Ev.startArray) := fun e he hh => hA e he hh.1
    have hB' : ∀ e ∈ B, ¬ (e.1 = joinDots comps ∧ e.2 = Ev.startArray) := fun e he hh => hB e he hh.1
    have hnon : ∀ (n : Json), (∀ e ∈ events comps n, e.2 ≠ Ev.startArray ∨ e.1 ≠ joinDots comps) →
        events [] j = A ++ events comps n ++ B →
        pget (parseSel props lists objs (events [] j)) (joinDots comps) = none := by
      intro n hne hev
      refine parseSel_list_none props lists objs _ hlp ho _ ?_
      intro e he hh
      rw [hev] at he
      rcases List.mem_append.mp he with he | he
      · rcases List.mem_append.mp he with he | he
        · exact hA' e he hh
        · rcases hne e he with h | h
          · exact h hh.2
          · exact h hh.1
      · exact hB' e he hh
    cases n with
    | null => exact hnon _ (by intro e he; simp [events] at he; left; rw [he]; simp) hev
    | bool b => exact hnon _ (by intro e he; simp [events] at he; left; rw [he]; simp) hev
    | num x => exact hnon _ (by intro e he; simp [events] at he; left; rw [he]; simp) hev
    | str x => exact hnon _ (by intro e he; simp [events] at he; left; rw [he]; simp) hev
    | obj kvs =>
      refine hnon _ ?_ hev
      intro e he
      simp only [events, List.mem_cons, List.mem_append, List.mem_nil_iff, or_false] at he
      rcases he with he | he | he
      · left; rw [he]; simp
      · by_cases hs : e.2 = Ev.startArray
        · right; exact eventsMembers_startArray_ne comps hc kvs e he hs
        · left; exact hs
      · left; rw [he]; simp
    | arr xs =>
      simp only
      have hinner : ∀ e ∈ eventsElems (comps ++ [itemKey]) xs, e.1 ≠ joinDots comps := by
        intro e he
        obtain ⟨ext, hx⟩ := eventsElems_prefix xs (comps ++ [itemKey]) e he
        rw [hx, List.append_assoc]
        exact (joinDots_ne_ext comps ([itemKey] ++ ext) (by simp) (fun h => absurd h hc)).symm
      cases xs with
      | nil =>
        have : events [] j = A ++ (joinDots comps, Ev.startArray) :: (joinDots comps, Ev.endArray) :: B := by
          rw [hev]; simp [events, eventsElems]
        rw [this]
        simpa using parseSel_list_flag props lists objs _ hl hlp ho A B (joinDots comps, Ev.endArray) hA' (by simp) hB'
      | cons x rest =>
        obtain ⟨e0, r0, he0, hp0, hne0⟩ := events_head (comps ++ [itemKey]) x
        have hmem0 : e0 ∈ eventsElems (comps ++ [itemKey]) (x :: rest) := by
          simp [eventsElems, he0]
        have : events [] j = A ++ (joinDots comps, Ev.startArray) :: e0 ::
            (r0 ++ eventsElems (comps ++ [itemKey]) rest ++ [(joinDots comps, Ev.endArray)] ++ B) := by
          rw [hev]; simp [events, eventsElems, he0]
        rw [this]
        have hflag := parseSel_list_flag props lists objs _ hl hlp ho A
          (r0 ++ eventsElems (comps ++ [itemKey]) rest ++ [(joinDots comps, Ev.endArray)] ++ B) e0 hA'
          (fun hh => hinner e0 hmem0 hh.1)
          (by
            intro e he hh
            simp only [List.mem_append, List.mem_cons, List.mem_nil_iff, or_false] at he
            rcases he with ((he | he) | he) | he
            · exact hinner e (by simp [eventsElems, he0, he]) hh.1
            · exact hinner e (by simp [eventsElems, he]) hh.1
            · rw [he] at hh; simp at hh
            · exact hB' e he hh)
        rw [hflag]
        have : (e0.2 == Ev.endArray) = false := by simpa using hne0
        simp [this]

/-! ## sufficient criterion for `NoAlias`: dot-free, duplicate-free keys on the way -/

theorem append_dot_inj : ∀ (a b x y : Str), '.' ∉ a → '.' ∉ b → a ++ '.' :: x = b ++ '.' :: y → a = b := by
  intro a
  induction a with
  | nil =>
    intro b x y _ hb h
    cases b with
    | nil => rfl
    | cons d b' =>
      simp only [List.nil_append, List.cons_append] at h
      have := (List.cons.inj h).1
      exact absurd (by rw [← this]; simp) hb
  | cons c a' ih =>
    intro b x y ha hb h
    cases b with
    | nil =>
      simp only [List.nil_append, List.cons_append] at h
      have := (List.cons.inj h).1
      exact absurd (by rw [this]; simp) ha
    | cons d b' =>
      simp only [List.cons_append] at h
      obtain ⟨h1, h2⟩ := List.cons.inj h
      have := ih b' x y (fun hh => ha (by simp [hh])) (fun hh => hb (by simp [hh])) h2
      rw [h1, this]

theorem dotPrefix_eq_of_dotfree (k' k : Str) (rest : List Str) (h' : '.' ∉ k') (h : '.' ∉ k)
    (hd : DotPrefix k' (joinDots (k :: rest))) : k' = k := by
  have hj : joinDots (k :: rest) = k ∨ ∃ t, joinDots (k :: rest) = k ++ '.' :: t := by
    cases rest with
    | nil => left; rfl
    | cons a t => right; exact ⟨_, joinDots_cons_cons k a t⟩
  rcases hd with hd | ⟨t', hd⟩ <;> rcases hj with hj | ⟨t, hj⟩
  · rw [← hd, hj]
  · rw [hj] at hd; exact absurd (by rw [← hd]; simp) h'
  · rw [hj] at hd; exact absurd (by rw [hd]; simp) h
  · rw [hj] at hd; exact (append_dot_inj k k' t t' h h' hd).symm

/-- keys of an object are pairwise different and contain no dot -/
def GoodObj (kvs : List (Str × Json)) : Prop := (keys kvs).Nodup ∧ ∀ k ∈ keys kvs, '.' ∉ k

/-- every object visited on the way down `comps` is a `GoodObj` -/
def GoodAlong : List Str → Json → Prop
  | [], _ => True
  | k :: rest, .obj kvs => GoodObj kvs ∧ ∀ v, (k, v) ∈ kvs → GoodAlong rest v
  | _ :: _, _ => True

theorem noAlias_of_goodAlong : ∀ (comps : List Str) (j : Json), (∀ k ∈ comps, '.' ∉ k ∧ k ≠ itemKey) →
    GoodAlong comps j → NoAlias comps j
  | [], _, _, _ => trivial
  | k :: rest, j, hdf, hg => by
    have hk := hdf k (by simp)
    cases j with
    | null => trivial
    | bool b => trivial
    | num n => trivial
    | str x => trivial
    | arr xs =>
      intro hd
      have : itemKey = k := dotPrefix_eq_of_dotfree itemKey k rest (by decide) hk.1 hd
      exact hk.2 this.symm
    | obj kvs =>
      obtain ⟨⟨hnd, hfree⟩, hrec⟩ := hg
      refine ⟨?_, ?_, ?_⟩
      · intro kv hkv hne hd
        exact hne (dotPrefix_eq_of_dotfree kv.1 k rest (hfree kv.1 (List.mem_map.mpr ⟨kv, hkv, rfl⟩)) hk.1 hd)
      · intro l1 v l2 hsplit
        rw [hsplit] at hnd
        simp only [keys, List.map_append, List.map_cons] at hnd
        have h1 := List.nodup_append.mp hnd
        have h2 := List.nodup_cons.mp h1.2.1
        constructor
        · intro kv hkv hh
          exact h1.2.2 kv.1 (List.mem_map.mpr ⟨kv, hkv, rfl⟩) k (by simp) hh
        · intro kv hkv hh
          exact h2.1 (hh ▸ List.mem_map.mpr ⟨kv, hkv, rfl⟩)
      · intro v hv
        exact noAlias_of_goodAlong rest v (fun k' hk' => hdf k' (by simp [hk'])) (hrec v hv)

theorem oget_mem (kvs : List (Str × Json)) (k : Str) (v : Json) (h : oget kvs k = some v) : (k, v) ∈ kvs := by
  obtain ⟨l1, l2, e, _⟩ := oget_some_split kvs k v h
  rw [e]; simp

theorem oget_of_mem_nodup (kvs : List (Str × Json)) (k : Str) (v : Json) (hnd : (keys kvs).Nodup) (h : (k, v) ∈ kvs) :
    oget kvs k = some v := by
  cases hg : oget kvs k with
  | none => exact absurd rfl ((oget_none_iff kvs k).mp hg (k, v) h)
  | some w =>
    obtain ⟨l1, l2, e, hl2⟩ := oget_some_split kvs k w hg
    rw [e] at h hnd
    simp only [keys, List.map_append, List.map_cons] at hnd
    have h1 := List.nodup_append.mp hnd
    have h2 := List.nodup_cons.mp h1.2.1
    rcases List.mem_append.mp h with h | h
    · exact absurd rfl (h1.2.2 k (List.mem_map.mpr ⟨(k, v), h, rfl⟩) k (by simp))
    · rcases List.mem_cons.mp h with h | h
      · cases h; rfl
      · exact absurd (List.mem_map.mpr ⟨(k, v), h, rfl⟩) h2.1

/-! ## bulk accounting -/

/-- what the item loop learns from one item: `none` = succeeded, `some (status, reason)` = failed -/
def classify (detailed : Bool) (item : Json) : Except Err (Option (Int × Option Str)) :=
  match itemData item with
  | .error e => .error e
  | .ok data =>
    match (if detailed then detailedPre data else .ok ()) with
    | .error e => .error e
    | .ok _ =>
      match isFailed data with
      | .error e => .error e
      | .ok true =>
        match errorDetail data with
        | .error e => .error e
        | .ok d => .ok (some d)
      | .ok false => .ok none

def tally (c : Counts) : List (Option (Int × Option Str)) → Counts
  | [] => c
  | none :: rs => tally { c with succ := c.succ + 1 } rs
  | some d :: rs => tally { c with err := c.err + 1, details := setAdd c.details d } rs

theorem countItems_cons (detailed : Bool) (item : Json) (rest : List Json) (c : Counts) :
    countItems detailed (item :: rest) c =
      match classify detailed item with
      | .error e => .error e
      | .ok none => countItems detailed rest { c with succ := c.succ + 1 }
      | .ok (some d) => countItems detailed rest { c with err := c.err + 1, details := setAdd c.details d } := by
  simp only [countItems, classify, bind, Except.bind]
  cases itemData item with
  | error e => rfl
  | ok data =>
    simp only
    cases detailed with
    | false =>
      simp only [Bool.false_eq_true, if_false]
      cases isFailed data with
      | error e => rfl
      | ok f =>
        cases f with
        | false => simp
        | true =>
          simp only [if_true]
          cases errorDetail data <;> rfl
    | true =>
      simp only [if_true]
      cases detailedPre data with
      | error e => rfl
      | ok u =>
        simp only
        cases isFailed data with
        | error e => rfl
        | ok f =>
          cases f with
          | false => simp
          | true =>
            simp only [if_true]
            cases errorDetail data <;> rfl

inductive Classified (detailed : Bool) : List Json → List (Option (Int × Option Str)) → Prop
  | nil : Classified detailed [] []
  | cons {i : Json} {r : Option (Int × Option Str)} {is : List Json} {rs : List (Option (Int × Option Str))} :
      classify detailed i = .ok r → Classified detailed is rs → Classified detailed (i :: is) (r :: rs)

theorem countItems_eq (detailed : Bool) : ∀ (items : List Json) (rs : List (Option (Int × Option Str))) (c : Counts),
    Classified detailed items rs → countItems detailed items c = .ok (tally c rs) := by
  intro items rs c h
  induction h generalizing c with
  | nil => rfl
  | @cons i r _ _ h1 _ ih =>
    rw [countItems_cons, h1]
    cases r with
    | none => exact ih _
    | some d => exact ih _

theorem tally_counts : ∀ (rs : List (Option (Int × Option Str))) (c : Counts),
    (tally c rs).succ = c.succ + (rs.filter (·.isNone)).length ∧
    (tally c rs).err = c.err + (rs.filter (·.isSome)).length := by
  intro rs
  induction rs with
  | nil => intro c; simp [tally]
  | cons r rs ih =>
    intro c
    cases r with
    | none =>
      obtain ⟨h1, h2⟩ := ih { c with succ := c.succ + 1 }
      simp only [tally, h1, h2]
      simp
      omega
    | some d =>
      obtain ⟨h1, h2⟩ := ih { c with err := c.err + 1, details := setAdd c.details d }
      simp only [tally, h1, h2]
      simp
      omega

theorem mem_setAdd {α : Type} [DecidableEq α] (s : List α) (x y : α) : y ∈ setAdd s x ↔ y ∈ s ∨ y = x := by
  unfold setAdd
  split
  · rename_i h
    constructor
    · exact Or.inl
    · rintro (h' | h')
      · exact h'
      · rw [h']; exact h
  · simp

/-- the set of error tuples is exactly the set of tuples of the failed items -/
theorem tally_details : ∀ (rs : List (Option (Int × Option Str))) (c : Counts) (d : Int × Option Str),
    d ∈ (tally c rs).details ↔ d ∈ c.details ∨ some d ∈ rs := by
  intro rs
  induction rs with
  | nil => intro c d; simp [tally]
  | cons r rs ih =>
    intro c d
    cases r with
    | none => simp [tally, ih]
    | some x =>
      simp only [tally, ih, mem_setAdd, List.mem_cons, Option.some.injEq]
      constructor
      · rintro ((h | h) | h)
        · exact Or.inl h
        · exact Or.inr (Or.inl h)
        · exact Or.inr (Or.inr h)
      · rintro (h | h | h)
        · exact Or.inl (Or.inl h)
        · exact Or.inl (Or.inr h)
        · exact Or.inr h

/-! ### the property's own notion of a failed item, by full-parse lookups -/

def intAt (j : Json) (path : List Str) : Option Int :=
  match getPath j path with
  | some (.num n) => n.toInt?
  | _ => none

/-- `{"index": {...}}`: the action name and its data -/
def SingleMember (item : Json) (data : Json) : Prop := ∃ op, item = .obj [(op, data)]

/-- `status > 299 or _shards.failed > 0` on the fully parsed item data (absent fields count as "no") -/
def dataFailedB (data : Json) : Bool :=
  (match intAt data [kStatus] with
   | some s => decide (299 < s)
   | none => false) ||
  (match intAt data [kShards, kFailed] with
   | some f => decide (0 < f)
   | none => false)

def itemFailedB (item : Json) : Bool :=
  match item with
  | .obj [(_, data)] => dataFailedB data
  | _ => false

theorem intOf_ok {v : Json} {i : Int} (h : intOf v = .ok i) : ∃ n, v = .num n ∧ n.toInt? = some i := by
  cases v with
  | num n =>
    simp only [intOf] at h
    cases hn : n.toInt? with
    | none => rw [hn] at h; cases h
    | some k => rw [hn] at h; cases h; exact ⟨n, rfl, hn⟩
  | null => cases h
  | bool b => cases h
  | str x => cases h
  | arr xs => cases h
  | obj kvs => cases h

theorem subscript_ok {d v : Json} {k : Str} (h : subscript d k = .ok v) : ∃ kvs, d = .obj kvs ∧ oget kvs k = some v := by
  cases d with
  | obj kvs =>
    simp only [subscript] at h
    cases hg : oget kvs k with
    | none => rw [hg] at h; cases h
    | some w => rw [hg] at h; cases h; exact ⟨kvs, rfl, hg⟩
  | null => cases h
  | bool b => cases h
  | num n => cases h
  | str x => cases h
  | arr xs => cases h

theorem isFailed_ok (data : Json) (f : Bool) (h : isFailed data = .ok f) : f = dataFailedB data := by
  unfold isFailed at h
  simp only [bind, Except.bind] at h
  cases hs : subscript data kStatus with
  | error e => rw [hs] at h; cases h
  | ok st =>
    rw [hs] at h
    simp only at h
    cases hi : intOf st with
    | error e => rw [hi] at h; cases h
    | ok s =>
      rw [hi] at h
      simp only at h
      obtain ⟨kvs, hd, hg⟩ := subscript_ok hs
      obtain ⟨n, hn, hni⟩ := intOf_ok hi
      subst hd; subst hn
      have hst : intAt (.obj kvs) [kStatus] = some s := by simp [intAt, getPath, hg, hni]
      by_cases h299 : s > 299
      · simp only [h299, if_true, pure, Except.pure] at h
        cases h
        simp [dataFailedB, hst, h299]
      · simp only [h299, if_false] at h
        have hl : decide (299 < s) = false := by simpa using h299
        cases hsh : oget kvs kShards with
        | none =>
          rw [hsh] at h
          simp only [pure, Except.pure] at h
          cases h
          have hsf : intAt (.obj kvs) [kShards, kFailed] = none := by simp [intAt, getPath, hsh]
          simp [dataFailedB, hst, hl, hsf]
        | some sh =>
          rw [hsh] at h
          simp only at h
          cases hf : subscript sh kFailed with
          | error e => rw [hf] at h; cases h
          | ok fv =>
            rw [hf] at h
            simp only at h
            cases hfi : intOf fv with
            | error e => rw [hfi] at h; cases h
            | ok fi =>
              rw [hfi] at h
              simp only [pure, Except.pure] at h
              cases h
              obtain ⟨skvs, hsd, hsg⟩ := subscript_ok hf
              obtain ⟨m, hm, hmi⟩ := intOf_ok hfi
              subst hsd; subst hm
              have hsf : intAt (.obj kvs) [kShards, kFailed] = some fi := by simp [intAt, getPath, hsh, hsg, hmi]
              simp [dataFailedB, hst, hl, hsf]

theorem classify_ok_isSome (detailed : Bool) (op : Str) (data : Json) (r : Option (Int × Option Str))
    (h : classify detailed (.obj [(op, data)]) = .ok r) : r.isSome = dataFailedB data := by
  unfold classify at h
  have hid : itemData (.obj [(op, data)]) = .ok data := by simp [itemData, oget]
  rw [hid] at h
  simp only at h
  cases hp : (if detailed = true then detailedPre data else Except.ok ()) with
  | error e => rw [hp] at h; cases h
  | ok u =>
    rw [hp] at h
    simp only at h
    cases hf : isFailed data with
    | error e => rw [hf] at h; cases h
    | ok f =>
      rw [hf] at h
      have := isFailed_ok data f hf
      cases f with
      | false => simp only at h; cases h; simpa using this
      | true =>
        simp only at h
        cases he : errorDetail data with
        | error e => rw [he] at h; cases h
        | ok d => rw [he] at h; cases h; simpa using this

theorem classify_true_false (item : Json) (r : Option (Int × Option Str)) (h : classify true item = .ok r) :
    classify false item = .ok r := by
  unfold classify at h ⊢
  cases hid : itemData item with
  | error e => rw [hid] at h; cases h
  | ok data =>
    rw [hid] at h
    simp only [if_true] at h
    simp only [Bool.false_eq_true, if_false]
    cases hp : detailedPre data with
    | error e => rw [hp] at h; cases h
    | ok u => rw [hp] at h; exact h

theorem classified_true_false : ∀ (items : List Json) (rs : List (Option (Int × Option Str))),
    Classified true items rs → Classified false items rs := by
  intro items rs h
  induction h with
  | nil => exact .nil
  | cons h1 _ ih => exact .cons (classify_true_false _ _ h1) ih

/-- the loop's tallies are the numbers of failed / succeeded items in the property's sense -/
theorem classified_counts (detailed : Bool) : ∀ (items : List Json) (rs : List (Option (Int × Option Str))),
    Classified detailed items rs → (∀ item ∈ items, ∃ data, SingleMember item data) →
    (rs.filter (·.isSome)).length = items.countP itemFailedB ∧
    (rs.filter (·.isNone)).length = items.countP (fun i => !itemFailedB i) := by
  intro items rs h
  induction h with
  | nil => intro _; simp
  | @cons i r is rs' h1 _ ih =>
    intro hs
    obtain ⟨data, op, hi⟩ := hs i (by simp)
    subst hi
    have hr := classify_ok_isSome detailed op data r h1
    obtain ⟨ih1, ih2⟩ := ih (fun item hm => hs item (by simp [hm]))
    have hb : itemFailedB (.obj [(op, data)]) = dataFailedB data := rfl
    cases hd : dataFailedB data with
    | false =>
      rw [hd] at hr
      have hn : r.isNone = true := by cases r <;> simp_all
      simp [List.filter_cons, List.countP_cons, hr, hn, hb, hd, ih1, ih2]
    | true =>
      rw [hd] at hr
      have hn : r.isNone = false := by cases r <;> simp_all
      simp [List.filter_cons, List.countP_cons, hr, hn, hb, hd, ih1, ih2]

/-! ### the two selectors of the bulk fast path -/

def scalarOrAbsent (o : Option Json) : Prop :=
  match o with
  | none => True
  | some n => n.isScalar = true

/-- a top-level, dot-free selector on a response whose top-level keys are pairwise different and dot-free -/
theorem parse_top_scalar (kvs : List (Str × Json)) (hg : GoodObj kvs) (props lists objs : List Str) (k : Str)
    (hk : '.' ∉ k) (hki : k ≠ itemKey) (hne : k ≠ []) (hp : k ∈ props) (hl : k ∉ lists) (ho : k ∉ objs)
    (hs : scalarOrAbsent (oget kvs k)) :
    pget (parseSel props lists objs (events [] (.obj kvs))) k = (oget kvs k).map (fun n => PVal.s n.toSVal) := by
  have hna : NoAlias [k] (.obj kvs) :=
    noAlias_of_goodAlong [k] (.obj kvs) (by intro k' hk'; simp at hk'; subst hk'; exact ⟨hk, hki⟩) ⟨hg, fun _ _ => trivial⟩
  have := parse_prop_eq_full (.obj kvs) props lists objs [k] (by simp) (by simpa [joinDots] using hne) hna
    (by simpa [joinDots] using hp) (by simpa [joinDots] using hl) (by simpa [joinDots] using ho)
  simp only [getPath, joinDots] at this
  cases hg' : oget kvs k with
  | none => rw [hg'] at this; simpa using this
  | some n =>
    rw [hg'] at this hs
    simpa using this hs

/-- what `props.get("errors", False)` is on the fully parsed response -/
def errorsFlag (kvs : List (Str × Json)) : Bool :=
  match oget kvs kErrors with
  | some n => n.toSVal.truthy
  | none => false

theorem simpleStats_normal (bulkSize : Int) (unitDocs : Bool) (kvs : List (Str × Json)) (hg : GoodObj kvs)
    (hE : scalarOrAbsent (oget kvs kErrors)) (hT : scalarOrAbsent (oget kvs kTook)) :
    simpleStats bulkSize unitDocs (.obj kvs) =
      simpleStatsWith bulkSize unitDocs (.obj kvs) (errorsFlag kvs) ((oget kvs kTook).map (fun n => PVal.s n.toSVal)) := by
  have hpe := parse_top_scalar kvs hg [kErrors, kTook] [] [] kErrors (by decide) (by decide) (by decide) (by simp) (by simp) (by simp) hE
  have hpt := parse_top_scalar kvs hg [kErrors, kTook] [] [] kTook (by decide) (by decide) (by decide) (by simp) (by simp) (by simp) hT
  unfold simpleStats errorsFlag
  simp only [hpe, hpt]
  cases oget kvs kErrors <;> rfl

instance {ε α : Type} [DecidableEq ε] [DecidableEq α] : DecidableEq (Except ε α) := fun a b =>
  match a, b with
  | .ok x, .ok y => if h : x = y then isTrue (by rw [h]) else isFalse (fun h' => h (Except.ok.inj h'))
  | .error x, .error y => if h : x = y then isTrue (by rw [h]) else isFalse (fun h' => h (Except.error.inj h'))
  | .ok _, .error _ => isFalse (fun h => by cases h)
  | .error _, .ok _ => isFalse (fun h => by cases h)

theorem countP_not_add (p : Json → Bool) (l : List Json) : l.countP (fun i => !p i) + l.countP p = l.length := by
  induction l with
  | nil => rfl
  | cons a t ih =>
    simp only [List.countP_cons, List.length_cons]
    cases p a <;> simp <;> omega

/-! ## page / hit accounting: what the fast extraction reads = what full parsing gives -/

/-- `doc[k1][k2]…` by full parsing, if a scalar is there -/
def fullScalar (j : Json) (comps : List Str) : Option PVal :=
  match getPath j comps with
  | some n => if n.isScalar then some (.s n.toSVal) else none
  | none => none

/-- `len(doc[k1][k2]…) == 0` by full parsing, if a list is there -/
def fullListFlag (j : Json) (comps : List Str) : Option PVal :=
  match getPath j comps with
  | some (.arr xs) => some (.s (.bool xs.isEmpty))
  | _ => none

theorem pget_full (j : Json) (props lists objs : List Str) (comps : List Str)
    (hdf : ∀ k ∈ comps, '.' ∉ k ∧ k ≠ itemKey) (hc : comps ≠ []) (h0 : joinDots comps ≠ [])
    (hg : GoodAlong comps j) (hp : joinDots comps ∈ props) (hl : joinDots comps ∉ lists) (ho : joinDots comps ∉ objs)
    (hs : scalarOrAbsent (getPath j comps)) :
    pget (parseSel props lists objs (events [] j)) (joinDots comps) = fullScalar j comps := by
  have := parse_prop_eq_full j props lists objs comps hc h0 (noAlias_of_goodAlong comps j hdf hg) hp hl ho
  unfold fullScalar
  cases hgp : getPath j comps with
  | none => rw [hgp] at this; exact this
  | some n =>
    rw [hgp] at this hs
    simp only [scalarOrAbsent] at hs
    simp only [hs, if_true]
    exact this hs

theorem pget_full_list (j : Json) (props lists objs : List Str) (comps : List Str)
    (hdf : ∀ k ∈ comps, '.' ∉ k ∧ k ≠ itemKey) (hc : comps ≠ []) (h0 : joinDots comps ≠ [])
    (hg : GoodAlong comps j) (hl : joinDots comps ∈ lists) (hlp : joinDots comps ∉ props) (ho : joinDots comps ∉ objs) :
    pget (parseSel props lists objs (events [] j)) (joinDots comps) = fullListFlag j comps := by
  have := parse_list_eq_full j props lists objs comps hc h0 (noAlias_of_goodAlong comps j hdf hg) hl hlp ho
  rw [this]
  unfold fullListFlag
  cases getPath j comps with
  | none => rfl
  | some n => cases n <;> rfl

/-- a name that was not requested is not in the result -/
theorem pget_not_requested (props lists objs : List Str) (k : Str) (hp : k ∉ props) (hl : k ∉ lists) (ho : k ∉ objs)
    (evs : List (Str × Ev)) : pget (parseSel props lists objs evs) k = none := by
  unfold parseSel
  obtain ⟨i1, i2⟩ := inv_run (objs := objs) evs (inv_init props lists) (invO_init objs)
  rw [pget_finish_prop i1 i2 k hl ho]
  have : dget (run props lists objs {} evs).parsed k = none := (dget_none_iff _ _).mpr (fun hm => hp (i1.pk_sub k hm))
  rw [this]
  rfl

theorem goodAlong_last : ∀ (l : List Str) (k k' : Str) (j : Json), GoodAlong (l ++ [k]) j → GoodAlong (l ++ [k']) j
  | [], k, k', j, h => by
    cases j with
    | obj kvs => exact ⟨h.1, fun _ _ => trivial⟩
    | null => trivial
    | bool b => trivial
    | num n => trivial
    | str x => trivial
    | arr xs => trivial
  | a :: l, k, k', j, h => by
    cases j with
    | obj kvs => exact ⟨h.1, fun v hv => goodAlong_last l k k' v (h.2 v hv)⟩
    | null => trivial
    | bool b => trivial
    | num n => trivial
    | str x => trivial
    | arr xs => trivial

theorem goodAlong_prefix : ∀ (l1 l2 : List Str) (j : Json), GoodAlong (l1 ++ l2) j → GoodAlong l1 j
  | [], _, _, _ => trivial
  | a :: l, l2, j, h => by
    cases j with
    | obj kvs => exact ⟨h.1, fun v hv => goodAlong_prefix l l2 v (h.2 v hv)⟩
    | null => trivial
    | bool b => trivial
    | num n => trivial
    | str x => trivial
    | arr xs => trivial

theorem goodAlong_top (k0 : Str) (rest : List Str) (k : Str) (j : Json) (h : GoodAlong (k0 :: rest) j) : GoodAlong [k] j :=
  goodAlong_last [] k0 k j (goodAlong_prefix [k0] rest j h)

/-- A search / scroll page: the objects on the way to the selected names (top level, `hits`, `hits.total`,
    `_shards`) have pairwise different dot-free keys; the selected names hold scalars or are absent;
    `hits.total` is a number (ES ≤ 6) or an object carrying `value` (ES ≥ 7).  Hits, sources, aggregations,
    further keys and the key order are arbitrary. -/
structure SearchShape (j : Json) : Prop where
  gHits : GoodAlong [kHits, kTotal, kValue] j
  gShards : GoodAlong [kShards, kTotal] j
  took : scalarOrAbsent (getPath j [kTook])
  timedOut : scalarOrAbsent (getPath j [kTimedOut])
  scrollId : scalarOrAbsent (getPath j [kScrollId])
  pitId : scalarOrAbsent (getPath j [kPitId])
  total : scalarOrAbsent (getPath j [kHits, kTotal]) ∨ ∃ v, getPath j [kHits, kTotal, kValue] = some v ∧ v.isScalar = true
  value : scalarOrAbsent (getPath j [kHits, kTotal, kValue])
  relation : scalarOrAbsent (getPath j [kHits, kTotal, kRelation])
  shTotal : scalarOrAbsent (getPath j [kShards, kTotal])
  shSuccessful : scalarOrAbsent (getPath j [kShards, kSuccessful])
  shSkipped : scalarOrAbsent (getPath j [kShards, kSkipped])
  shFailed : scalarOrAbsent (getPath j [kShards, kFailed])

/-- `hits.total.value` if present, else `hits.total`, else the default — by full parsing -/
def fullHits (j : Json) (d : PVal) : PVal :=
  getOr (fullScalar j [kHits, kTotal, kValue]) (getOr (fullScalar j [kHits, kTotal]) d)

section Selectors
variable (j : Json) (h : SearchShape j) (props lists objs : List Str)
include h

theorem sel_top (k : Str) (hk : '.' ∉ k ∧ k ≠ itemKey) (hne : k ≠ []) (hp : k ∈ props) (hl : k ∉ lists) (ho : k ∉ objs)
    (hs : scalarOrAbsent (getPath j [k])) :
    pget (parseSel props lists objs (events [] j)) k = fullScalar j [k] := by
  have := pget_full j props lists objs [k] (by intro k' hk'; simp at hk'; subst hk'; exact hk) (by simp)
    (by simpa [joinDots] using hne) (goodAlong_top kHits _ k j h.gHits) (by simpa [joinDots] using hp)
    (by simpa [joinDots] using hl) (by simpa [joinDots] using ho) hs
  simpa [joinDots] using this

theorem sel_value (hp : kHitsTotalValue ∈ props) (hl : kHitsTotalValue ∉ lists) (ho : kHitsTotalValue ∉ objs) :
    pget (parseSel props lists objs (events [] j)) kHitsTotalValue = fullScalar j [kHits, kTotal, kValue] :=
  pget_full j props lists objs [kHits, kTotal, kValue] (by decide) (by simp) (by decide) h.gHits hp hl ho h.value

theorem sel_relation (hp : kHitsTotalRelation ∈ props) (hl : kHitsTotalRelation ∉ lists) (ho : kHitsTotalRelation ∉ objs) :
    pget (parseSel props lists objs (events [] j)) kHitsTotalRelation = fullScalar j [kHits, kTotal, kRelation] :=
  pget_full j props lists objs [kHits, kTotal, kRelation] (by decide) (by simp) (by decide)
    (goodAlong_last [kHits, kTotal] kValue kRelation j h.gHits) hp hl ho h.relation

/-- the combination `props.get("hits.total.value", props.get("hits.total", d))` -/
theorem sel_hits (d : PVal) (hp1 : kHitsTotalValue ∈ props) (hl1 : kHitsTotalValue ∉ lists) (ho1 : kHitsTotalValue ∉ objs)
    (hp2 : kHitsTotal ∈ props) (hl2 : kHitsTotal ∉ lists) (ho2 : kHitsTotal ∉ objs) :
    getOr (pget (parseSel props lists objs (events [] j)) kHitsTotalValue)
      (getOr (pget (parseSel props lists objs (events [] j)) kHitsTotal) d) = fullHits j d := by
  rw [sel_value j h props lists objs hp1 hl1 ho1]
  unfold fullHits
  rcases h.total with ht | ⟨v, hv, hvs⟩
  · have := pget_full j props lists objs [kHits, kTotal] (by decide) (by simp) (by decide)
      (goodAlong_prefix [kHits, kTotal] [kValue] j h.gHits) hp2 hl2 ho2 ht
    rw [show joinDots [kHits, kTotal] = kHitsTotal from rfl] at this
    rw [this]
  · simp [fullScalar, hv, hvs, getOr]

theorem sel_shards (k : Str) (hk : '.' ∉ k ∧ k ≠ itemKey) (hne : joinDots [kShards, k] ≠ [])
    (hp : joinDots [kShards, k] ∈ props) (hl : joinDots [kShards, k] ∉ lists)
    (ho : joinDots [kShards, k] ∉ objs) (hs : scalarOrAbsent (getPath j [kShards, k])) :
    pget (parseSel props lists objs (events [] j)) (joinDots [kShards, k]) = fullScalar j [kShards, k] :=
  pget_full j props lists objs [kShards, k] (by
      intro k' hk'
      simp only [List.mem_cons, List.mem_nil_iff, or_false] at hk'
      rcases hk' with hk' | hk'
      · subst hk'; decide
      · subst hk'; exact hk) (by simp) hne
    (goodAlong_last [kShards] kTotal k j h.gShards) hp hl ho hs

theorem sel_hits_list (hl : kHitsHits ∈ lists) (hp : kHitsHits ∉ props) (ho : kHitsHits ∉ objs) :
    pget (parseSel props lists objs (events [] j)) kHitsHits = fullListFlag j [kHits, kHits] :=
  pget_full_list j props lists objs [kHits, kHits] (by decide) (by simp) (by decide)
    (goodAlong_last [kHits] kTotal kHits j (goodAlong_prefix [kHits, kTotal] [kValue] j h.gHits)) hl hp ho

end Selectors

/-! ### request-body search, detailed results -/

def requestBodyFull (j : Json) : RBRes :=
  { hits := fullHits j pyZero,
    hitsRel := getOr (fullScalar j [kHits, kTotal, kRelation]) pyEq,
    timedOut := getOr (fullScalar j [kTimedOut]) pyFalse,
    took := getOr (fullScalar j [kTook]) pyZero,
    shTotal := getOr (fullScalar j [kShards, kTotal]) pyZero,
    shSuccessful := getOr (fullScalar j [kShards, kSuccessful]) pyZero,
    shSkipped := getOr (fullScalar j [kShards, kSkipped]) pyZero,
    shFailed := getOr (fullScalar j [kShards, kFailed]) pyZero }

theorem requestBody_eq_full (j : Json) (h : SearchShape j) : requestBodyDetailed j = requestBodyFull j := by
  unfold requestBodyDetailed requestBodyFull
  have e1 := sel_hits j h rbProps [] [] pyZero (by decide) (by simp) (by simp) (by decide) (by simp) (by simp)
  have e2 := sel_relation j h rbProps [] [] (by decide) (by simp) (by simp)
  have e3 := sel_top j h rbProps [] [] kTimedOut (by decide) (by decide) (by decide) (by simp) (by simp) h.timedOut
  have e4 := sel_top j h rbProps [] [] kTook (by decide) (by decide) (by decide) (by simp) (by simp) h.took
  have e5 := sel_shards j h rbProps [] [] kTotal (by decide) (by decide) (by decide) (by simp) (by simp) h.shTotal
  have e6 := sel_shards j h rbProps [] [] kSuccessful (by decide) (by decide) (by decide) (by simp) (by simp) h.shSuccessful
  have e7 := sel_shards j h rbProps [] [] kSkipped (by decide) (by decide) (by decide) (by simp) (by simp) h.shSkipped
  have e8 := sel_shards j h rbProps [] [] kFailed (by decide) (by decide) (by decide) (by simp) (by simp) h.shFailed
  simp only [] at e1 e2 e3 e4 e5 e6 e7 e8 ⊢
  rw [e1, e2, e3, e4]
  rw [show kShardsTotal = joinDots [kShards, kTotal] from rfl, show kShardsSuccessful = joinDots [kShards, kSuccessful] from rfl,
    show kShardsSkipped = joinDots [kShards, kSkipped] from rfl, show kShardsFailed = joinDots [kShards, kFailed] from rfl,
    e5, e6, e7, e8]

/-! ### scroll -/

/-- what full parsing gives for the names `_scroll_query` reads (first page / following pages) -/
def fullScrollView (first : Bool) (j : Json) : ScrollView :=
  { scrollId := if first then fullScalar j [kScrollId] else none,
    hits := if first then fullHits j pyZero else pyZero,
    hitsRel := if first then fullScalar j [kHits, kTotal, kRelation] else none,
    timedOut := fullScalar j [kTimedOut],
    took := fullScalar j [kTook],
    hitsEmpty := fullListFlag j [kHits, kHits] }

theorem scrollFirstView_eq_full (j : Json) (h : SearchShape j) : scrollFirstView j = fullScrollView true j := by
  unfold scrollFirstView scrollViewOf fullScrollView
  have e0 := sel_top j h scrollFirstProps [kHitsHits] [] kScrollId (by decide) (by decide) (by decide) (by decide) (by simp) h.scrollId
  have e1 := sel_hits j h scrollFirstProps [kHitsHits] [] pyZero (by decide) (by decide) (by simp) (by decide) (by decide) (by simp)
  have e2 := sel_relation j h scrollFirstProps [kHitsHits] [] (by decide) (by decide) (by simp)
  have e3 := sel_top j h scrollFirstProps [kHitsHits] [] kTimedOut (by decide) (by decide) (by decide) (by decide) (by simp) h.timedOut
  have e4 := sel_top j h scrollFirstProps [kHitsHits] [] kTook (by decide) (by decide) (by decide) (by decide) (by simp) h.took
  have e5 := sel_hits_list j h scrollFirstProps [kHitsHits] [] (by simp) (by decide) (by simp)
  simp only [e0, e1, e2, e3, e4, e5, if_true]

theorem scrollNextView_eq_full (j : Json) (h : SearchShape j) : scrollNextView j = fullScrollView false j := by
  unfold scrollNextView scrollViewOf fullScrollView
  have n0 := pget_not_requested scrollNextProps [kHitsHits] [] kScrollId (by decide) (by decide) (by simp) (events [] j)
  have n1 := pget_not_requested scrollNextProps [kHitsHits] [] kHitsTotalValue (by decide) (by decide) (by simp) (events [] j)
  have n2 := pget_not_requested scrollNextProps [kHitsHits] [] kHitsTotal (by decide) (by decide) (by simp) (events [] j)
  have n3 := pget_not_requested scrollNextProps [kHitsHits] [] kHitsTotalRelation (by decide) (by decide) (by simp) (events [] j)
  have e3 := sel_top j h scrollNextProps [kHitsHits] [] kTimedOut (by decide) (by decide) (by decide) (by decide) (by simp) h.timedOut
  have e4 := sel_top j h scrollNextProps [kHitsHits] [] kTook (by decide) (by decide) (by decide) (by decide) (by simp) h.took
  have e5 := sel_hits_list j h scrollNextProps [kHitsHits] [] (by simp) (by decide) (by simp)
  simp only [n0, n1, n2, n3, e3, e4, e5, getOr, Bool.false_eq_true, if_false]

theorem scrollLoopWith_congr (n1 n2 : Json → ScrollView) (total : Nat) :
    ∀ (resps : List Json) (page : Nat) (acc : ScrollAcc), (∀ r ∈ resps, n1 r = n2 r) →
      scrollLoopWith n1 total resps page acc = scrollLoopWith n2 total resps page acc := by
  intro resps
  induction resps with
  | nil => intro page acc _; rfl
  | cons r rest ih =>
    intro page acc hh
    simp only [scrollLoopWith]
    rw [hh r (by simp)]
    split
    · rfl
    · cases scrollNext acc (n2 r) with
      | error e => rfl
      | ok p =>
        obtain ⟨a, d⟩ := p
        simp only
        split
        · rfl
        · exact ih _ _ (fun r' hr' => hh r' (by simp [hr']))

theorem scrollQuery_eq_full (size : Option Nat) (total : Nat) (resps : List Json) (h : ∀ r ∈ resps, SearchShape r) :
    scrollQuery size total resps = scrollQueryWith (fullScrollView true) (fullScrollView false) size total resps := by
  unfold scrollQuery scrollQueryWith
  split
  · rfl
  · cases resps with
    | nil => rfl
    | cons r rest =>
      simp only
      rw [scrollFirstView_eq_full r (h r (by simp))]
      cases scrollFirst size (fullScrollView true r) with
      | error e => rfl
      | ok p =>
        obtain ⟨a, d⟩ := p
        simp only
        split
        · rfl
        · exact scrollLoopWith_congr _ _ total rest 1 _ (fun r' hr' => scrollNextView_eq_full r' (h r' (by simp [hr'])))

/-! ### search_after pages -/

theorem dget_dpop_other {κ α : Type} [DecidableEq κ] (d : List (κ × α)) (k k' : κ) (h : k' ≠ k) :
    dget (dpop d k) k' = dget d k' := by
  induction d with
  | nil => rfl
  | cons a t ih =>
    obtain ⟨k0, v0⟩ := a
    by_cases h0 : k0 = k
    · subst h0
      simp [dpop, dget, Ne.symm h]
    · by_cases h1 : k0 = k'
      · subst h1; simp [dpop, dget, h0]
      · simp [dpop, dget, h0, h1, ih]

theorem pget_dset_same (d : List (Option Str × PVal)) (k : Str) (v : PVal) : pget (dset d (some k) v) k = some v :=
  dget_dset_same d (some k) v

theorem pget_dset_other (d : List (Option Str × PVal)) (k k' : Str) (v : PVal) (h : k' ≠ k) :
    pget (dset d (some k) v) k' = pget d k' :=
  dget_dset_other d (some k) (some k') v (by intro hh; injection hh with hh; exact h hh)

theorem pget_dpop_other (d : List (Option Str × PVal)) (k k' : Str) (h : k' ≠ k) : pget (dpop d (some k)) k' = pget d k' :=
  dget_dpop_other d (some k) (some k') (by intro hh; injection hh with hh; exact h hh)

/-- what the standardized dict answers for the names the page loops read -/
theorem standardize_view (P : List (Option Str × PVal)) (ht : PVal) :
    pget (standardize P ht) kHitsTotalValue = some (getOr (pget P kHitsTotalValue) (getOr (pget P kHitsTotal) ht)) ∧
    pget (standardize P ht) kHitsTotalRelation = some (getOr (pget P kHitsTotalRelation) pyEq) ∧
    ∀ k, k ≠ kHitsTotal → k ≠ kHitsTotalValue → k ≠ kHitsTotalRelation → pget (standardize P ht) k = pget P k := by
  have hvr : kHitsTotalValue ≠ kHitsTotalRelation := by decide
  have hvt : kHitsTotalValue ≠ kHitsTotal := by decide
  have hrt : kHitsTotalRelation ≠ kHitsTotal := by decide
  unfold standardize
  simp only
  refine ⟨?_, ?_, ?_⟩
  · rw [pget_dset_other _ _ _ _ hvr, pget_dset_same, pget_dpop_other _ _ _ hvt]
    cases pget P kHitsTotalValue <;> cases pget P kHitsTotal <;> rfl
  · rw [pget_dset_same, pget_dset_other _ _ _ _ (Ne.symm hvr), pget_dpop_other _ _ _ (Ne.symm hvr), pget_dpop_other _ _ _ hrt]
    cases pget P kHitsTotalRelation <;> rfl
  · intro k h1 h2 h3
    rw [pget_dset_other _ _ _ _ h3, pget_dset_other _ _ _ _ h2, pget_dpop_other _ _ _ h2, pget_dpop_other _ _ _ h1]

/-- what full parsing gives for the names the search_after / composite loops read from a page -/
def fullPageView (pit : Bool) (ht : PVal) (j : Json) : PageView :=
  { hitsValue := some (if ht = pyNone then fullHits j ht else ht),
    hitsRel := some (if ht = pyNone then getOr (fullScalar j [kHits, kTotal, kRelation]) pyEq else pyEq),
    took := fullScalar j [kTook],
    timedOut := fullScalar j [kTimedOut],
    pitId := if pit then fullScalar j [kPitId] else none,
    afterKey := none }

/-- `SearchAfterExtractor` with every selective lookup replaced by full parsing (the cursor is still the
    text-level `lastSort`, related to the last hit by `cursor_is_last_sort`) -/
def saExtractFull (st : Style) (pit : Bool) (ht : PVal) (j : Json) : Except Err (PageView × Option Json) :=
  if pit && optFalsy (fullScalar j [kPitId]) then .error .assertion else
  match lastSort (renderDoc st j) with
  | .error e => .error e
  | .ok ls => .ok (fullPageView pit ht j, ls)

theorem mem_pageProps (pit : Bool) (ht : PVal) (k : Str) :
    k ∈ pageProps pit ht ↔ k = kTimedOut ∨ k = kTook ∨ (pit = true ∧ k = kPitId) ∨
      (ht = pyNone ∧ (k = kHitsTotal ∨ k = kHitsTotalValue ∨ k = kHitsTotalRelation)) := by
  unfold pageProps
  cases pit <;> by_cases h : ht = pyNone <;> simp [h]

theorem pageProps_mem (pit : Bool) (ht : PVal) :
    kTimedOut ∈ pageProps pit ht ∧ kTook ∈ pageProps pit ht ∧ (pit = true → kPitId ∈ pageProps pit ht) ∧
    (pit = false → kPitId ∉ pageProps pit ht) ∧ kAfterKey ∉ pageProps pit ht ∧
    (ht = pyNone → kHitsTotal ∈ pageProps pit ht ∧ kHitsTotalValue ∈ pageProps pit ht ∧ kHitsTotalRelation ∈ pageProps pit ht) ∧
    (ht ≠ pyNone → kHitsTotal ∉ pageProps pit ht ∧ kHitsTotalValue ∉ pageProps pit ht ∧ kHitsTotalRelation ∉ pageProps pit ht) := by
  have d1 : kPitId ≠ kTimedOut := by decide
  have d2 : kPitId ≠ kTook := by decide
  have d3 : kPitId ≠ kHitsTotal ∧ kPitId ≠ kHitsTotalValue ∧ kPitId ≠ kHitsTotalRelation := by decide
  have d4 : kAfterKey ≠ kTimedOut ∧ kAfterKey ≠ kTook ∧ kAfterKey ≠ kPitId ∧ kAfterKey ≠ kHitsTotal ∧
      kAfterKey ≠ kHitsTotalValue ∧ kAfterKey ≠ kHitsTotalRelation := by decide
  have d5 : kHitsTotal ≠ kTimedOut ∧ kHitsTotal ≠ kTook ∧ kHitsTotal ≠ kPitId := by decide
  have d6 : kHitsTotalValue ≠ kTimedOut ∧ kHitsTotalValue ≠ kTook ∧ kHitsTotalValue ≠ kPitId := by decide
  have d7 : kHitsTotalRelation ≠ kTimedOut ∧ kHitsTotalRelation ≠ kTook ∧ kHitsTotalRelation ≠ kPitId := by decide
  refine ⟨by simp [mem_pageProps], by simp [mem_pageProps], fun hp => by simp [mem_pageProps, hp], ?_, ?_, ?_, ?_⟩
  · intro hp
    simp [mem_pageProps, hp, d1, d2, d3.1, d3.2.1, d3.2.2]
  · simp [mem_pageProps, d4.1, d4.2.1, d4.2.2.1, d4.2.2.2.1, d4.2.2.2.2.1, d4.2.2.2.2.2]
  · intro hh
    simp [mem_pageProps, hh]
  · intro hh
    simp [mem_pageProps, hh, d5.1, d5.2.1, d5.2.2, d6.1, d6.2.1, d6.2.2, d7.1, d7.2.1, d7.2.2]

theorem saExtract_eq_full (st : Style) (pit : Bool) (ht : PVal) (j : Json) (h : SearchShape j) :
    saExtract st pit ht j = saExtractFull st pit ht j := by
  obtain ⟨m1, m2, m3, m4, m5, m6, m7⟩ := pageProps_mem pit ht
  have eto := sel_top j h (pageProps pit ht) [] [] kTimedOut (by decide) (by decide) m1 (by simp) (by simp) h.timedOut
  have etk := sel_top j h (pageProps pit ht) [] [] kTook (by decide) (by decide) m2 (by simp) (by simp) h.took
  have eak := pget_not_requested (pageProps pit ht) [] [] kAfterKey m5 (by simp) (by simp) (events [] j)
  have epit : pget (parseSel (pageProps pit ht) [] [] (events [] j)) kPitId = if pit then fullScalar j [kPitId] else none := by
    cases pit with
    | true => simpa using sel_top j h (pageProps true ht) [] [] kPitId (by decide) (by decide) (m3 rfl) (by simp) (by simp) h.pitId
    | false => simpa using pget_not_requested (pageProps false ht) [] [] kPitId (m4 rfl) (by simp) (by simp) (events [] j)
  have ehits : getOr (pget (parseSel (pageProps pit ht) [] [] (events [] j)) kHitsTotalValue)
      (getOr (pget (parseSel (pageProps pit ht) [] [] (events [] j)) kHitsTotal) ht) = if ht = pyNone then fullHits j ht else ht := by
    by_cases hh : ht = pyNone
    · obtain ⟨a, b, _⟩ := m6 hh
      rw [if_pos hh]
      exact sel_hits j h (pageProps pit ht) [] [] ht b (by simp) (by simp) a (by simp) (by simp)
    · obtain ⟨a, b, _⟩ := m7 hh
      rw [if_neg hh, pget_not_requested _ [] [] _ b (by simp) (by simp), pget_not_requested _ [] [] _ a (by simp) (by simp)]
      rfl
  have erel : getOr (pget (parseSel (pageProps pit ht) [] [] (events [] j)) kHitsTotalRelation) pyEq =
      if ht = pyNone then getOr (fullScalar j [kHits, kTotal, kRelation]) pyEq else pyEq := by
    by_cases hh : ht = pyNone
    · obtain ⟨_, _, c⟩ := m6 hh
      rw [if_pos hh, sel_relation j h (pageProps pit ht) [] [] c (by simp) (by simp)]
    · obtain ⟨_, _, c⟩ := m7 hh
      rw [if_neg hh, pget_not_requested _ [] [] _ c (by simp) (by simp)]
      rfl
  obtain ⟨s1, s2, s3⟩ := standardize_view (parseSel (pageProps pit ht) [] [] (events [] j)) ht
  have hview : viewOf (standardize (parseSel (pageProps pit ht) [] [] (events [] j)) ht) = fullPageView pit ht j := by
    unfold viewOf fullPageView
    rw [s1, s2, s3 kTook (by decide) (by decide) (by decide), s3 kTimedOut (by decide) (by decide) (by decide),
      s3 kPitId (by decide) (by decide) (by decide), s3 kAfterKey (by decide) (by decide) (by decide),
      ehits, erel, etk, eto, epit, eak]
  simp only [saExtract, searchAfterExtract, saExtractFull, pitMissing, epit]
  cases pit with
  | false =>
    simp only [Bool.false_and, Bool.false_eq_true, if_false]
    cases lastSort (renderDoc st j) with
    | error e => rfl
    | ok ls => simp only; rw [hview]
  | true =>
    simp only [if_true, Bool.true_and]
    generalize optFalsy (fullScalar j [kPitId]) = b
    cases b with
    | true => rfl
    | false =>
      simp only [Bool.false_eq_true, if_false]
      cases lastSort (renderDoc st j) with
      | error e => rfl
      | ok ls => simp only; rw [hview]

theorem saLoopWith_congr (e1 e2 : PVal → Json → Except Err (PageView × Option Json)) (pit : Bool) (size total : Nat) :
    ∀ (resps : List Json) (page : Nat) (acc : PageAcc), (∀ r ∈ resps, ∀ ht, e1 ht r = e2 ht r) →
      saLoopWith e1 pit size total resps page acc = saLoopWith e2 pit size total resps page acc := by
  intro resps
  induction resps with
  | nil => intro page acc _; rfl
  | cons r rest ih =>
    intro page acc hh
    simp only [saLoopWith]
    rw [hh r (by simp)]
    split
    · rfl
    · cases e2 acc.hits r with
      | error e => rfl
      | ok p =>
        obtain ⟨v, ls⟩ := p
        simp only
        cases accountPage pit page v acc with
        | error e => rfl
        | ok acc' =>
          simp only
          cases morePages acc'.hits size page with
          | error e => rfl
          | ok b =>
            cases b with
            | false => rfl
            | true => exact ih _ _ (fun r' hr' => hh r' (by simp [hr']))

theorem searchAfterQuery_eq_full (st : Style) (pit : Bool) (size total : Nat) (resps : List Json)
    (h : ∀ r ∈ resps, SearchShape r) :
    searchAfterQuery st pit size total resps = saLoopWith (saExtractFull st pit) pit size total resps 1 {} :=
  saLoopWith_congr _ _ pit size total resps 1 {} (fun r hr ht => saExtract_eq_full st pit ht r (h r hr))

end JsonFast
