import RallyModel.TrackTemplate
/-! Helper lemmas for the template layer of C10. -/
namespace TrackTemplate

theorem foldl_set_lookup (g : Str → Option Str) :
    ∀ (l : List Str) (r : Repl) (q : Str),
      (l.foldl (fun r p => r.set p (g p)) r) q = if q ∈ l then some (g q) else r q
  | [], r, q => by simp
  | p :: rest, r, q => by
    rw [List.foldl_cons, foldl_set_lookup g rest (r.set p (g p)) q]
    by_cases h1 : q ∈ rest
    · simp [h1]
    · by_cases h2 : q = p
      · subst h2
        simp [h1, Repl.set]
      · simp [h1, h2, Repl.set]

theorem mem_patternsOf {frag : Fragment} {p : Str} : p ∈ patternsOf frag ↔ Piece.collect p ∈ frag := by
  unfold patternsOf
  rw [List.mem_filterMap]
  constructor
  · rintro ⟨pc, hpc, h⟩
    cases pc with
    | text _ => simp at h
    | collect q => simp at h; subst h; exact hpc
  · intro h
    exact ⟨_, h, rfl⟩

theorem concatOpt_none_of_mem {l : List (Option Str)} (h : none ∈ l) : concatOpt l = none := by
  induction l with
  | nil => simp at h
  | cons x rest ih =>
    cases x with
    | none => rfl
    | some s =>
      have : none ∈ rest := by simpa using h
      simp [concatOpt, ih this]

/-- the dict keyed by the pattern text is harmless *because it lives for one call, i.e. one base directory*:
    what `replace_includes` computes is the declarative expansion -/
theorem replaceIncludes_eq_expand (fs : FS) :
    ∀ (fuel : Nat) (base : Path) (frag : Fragment), replaceIncludes fs fuel base frag = expand fs fuel base frag
  | 0, base, frag => by
    unfold replaceIncludes expand
    split
    · rfl
    · rename_i hne
      symm
      apply concatOpt_none_of_mem
      cases hp : patternsOf frag with
      | nil => exact absurd hp hne
      | cons p rest =>
        have hmem : Piece.collect p ∈ frag := mem_patternsOf.mp (by rw [hp]; exact List.mem_cons_self)
        exact List.mem_map.mpr ⟨_, hmem, rfl⟩
  | fuel + 1, base, frag => by
    unfold replaceIncludes expand
    simp only
    congr 1
    apply List.map_congr_left
    intro pc hpc
    cases pc with
    | text s => rfl
    | collect p =>
      simp only
      rw [foldl_set_lookup (fun p => replaceIncludes fs fuel (dirOf base p) (readGlobFiles fs base p))]
      have : p ∈ patternsOf frag := mem_patternsOf.mpr hpc
      simp only [this, if_true]
      exact replaceIncludes_eq_expand fs fuel _ _

theorem lookupVar_append (a b : Vars) (n : Str) :
    lookupVar (a ++ b) n = match lookupVar a n with
      | some v => some v
      | none => lookupVar b n := by
  unfold lookupVar
  rw [List.find?_append]
  cases List.find? (fun kv => decide (kv.1 = n)) a <;> simp

theorem lookupVar_filter_of_ne {vs : Vars} {P : Str × Str → Bool} {n : Str}
    (h : ∀ kv ∈ vs, kv.1 = n → P kv = true) : lookupVar (vs.filter P) n = lookupVar vs n := by
  unfold lookupVar
  induction vs with
  | nil => rfl
  | cons kv rest ih =>
    have ih' := ih (fun kv' hkv' => h kv' (List.mem_cons_of_mem _ hkv'))
    rw [List.filter_cons]
    by_cases hk : kv.1 = n
    · have hP := h kv List.mem_cons_self hk
      rw [if_pos hP, List.find?_cons, List.find?_cons]
      simp only [hk, decide_true]
    · by_cases hp : P kv = true
      · rw [if_pos hp, List.find?_cons, List.find?_cons]
        simp only [hk, decide_false]
        exact ih'
      · rw [if_neg hp, List.find?_cons]
        simp only [hk, decide_false]
        exact ih'

theorem mem_free {b l : List Str} {n : Str} : n ∈ free b l ↔ n ∈ l ∧ n ∉ b := by
  simp [free]

theorem readsContext_of_mem_undeclared :
    ∀ (full b : List Str) (l : List Stmt) (n : Str), n ∈ undeclared full b l → ReadsContext full b l n := by
  intro full b l
  fun_induction undeclared full b l with
  | case1 full b => intro n h; simp at h
  | case2 full b x rest ih =>
    intro n h
    rw [List.mem_append] at h
    rcases h with h | h
    · obtain ⟨h1, h2⟩ := mem_free.mp h
      simp only [List.mem_singleton] at h1
      subst h1
      exact .read h2
    · exact .later (s := .read x) (ih n h)
  | case3 full b x rhs rest ih =>
    intro n h
    rw [List.mem_append] at h
    rcases h with h | h
    · obtain ⟨h1, h2⟩ := mem_free.mp h
      exact .setRhs h1 h2
    · exact .later (s := .set x rhs) (ih n h)
  | case4 full b v it body rest ih1 ih2 =>
    intro n h
    rw [List.mem_append, List.mem_append] at h
    rcases h with (h | h) | h
    · obtain ⟨h1, h2⟩ := mem_free.mp h
      exact .forIter h1 h2
    · exact .forBody (ih1 n h)
    · exact .later (s := .forLoop v it body) (ih2 n h)
  | case5 full b name args body rest ih1 ih2 =>
    intro n h
    rw [List.mem_append] at h
    rcases h with h | h
    · exact .macroBody (ih1 n h)
    · exact .later (s := .macro name args body) (ih2 n h)
  | case6 full b x rhs body rest ih1 ih2 =>
    intro n h
    rw [List.mem_append, List.mem_append] at h
    rcases h with (h | h) | h
    · obtain ⟨h1, h2⟩ := mem_free.mp h
      exact .withRhs h1 h2
    · exact .withBody (ih1 n h)
    · exact .later (s := .withBlock x rhs body) (ih2 n h)
  | case7 full b x rest ih =>
    intro n h
    exact .later (s := .importAs x) (ih n h)

theorem mem_undeclared_of_readsContext {full b : List Str} {l : List Stmt} {n : Str}
    (h : ReadsContext full b l n) : n ∈ undeclared full b l := by
  induction h with
  | read hb => simp [undeclared, free, hb]
  | setRhs h1 h2 => simp [undeclared, free, h1, h2]
  | forIter h1 h2 => simp [undeclared, free, h1, h2]
  | forBody _ ih => simp [undeclared, ih]
  | macroBody _ ih => simp [undeclared, ih]
  | withRhs h1 h2 => simp [undeclared, free, h1, h2]
  | withBody _ ih => simp [undeclared, ih]
  | @later full b s rest n _ ih =>
    cases s <;> simp only [undeclared, List.mem_append] <;> simp only [bindsAfter, List.nil_append, List.cons_append] at ih <;>
      first
        | exact Or.inr ih
        | exact ih

end TrackTemplate
