import RallyModel.JsonFastMore
import RallyProofs.JsonFast
/-! helper lemmas for the second C19 model file (error description, searches in flight together) -/
namespace JsonFast

/-! ## sorting keeps every collected failure -/

theorem insertDetail_perm (x : Int × Option Str) : ∀ l, (insertDetail x l).Perm (x :: l)
  | [] => List.Perm.refl _
  | y :: ys => by
    unfold insertDetail
    split
    · exact List.Perm.refl _
    · exact ((insertDetail_perm x ys).cons y).trans (List.Perm.swap x y ys)

theorem sortDetails_perm : ∀ l, (sortDetails l).Perm l
  | [] => List.Perm.refl _
  | d :: ds => by
    unfold sortDetails
    exact (insertDetail_perm d _).trans ((sortDetails_perm ds).cons d)

theorem sortDetails_length (l : List (Int × Option Str)) : (sortDetails l).length = l.length :=
  (sortDetails_perm l).length_eq

theorem sortDetails_mem (l : List (Int × Option Str)) (d : Int × Option Str) : d ∈ sortDetails l ↔ d ∈ l :=
  (sortDetails_perm l).mem_iff

/-- the sum of the counts of the summary -/
def countSum (l : List (Int × Nat)) : Nat := (l.map (·.2)).sum

theorem insertStatus_sum (s : Int) : ∀ l, countSum (insertStatus s l) = countSum l + 1
  | [] => by simp [insertStatus, countSum]
  | (t, n) :: r => by
    unfold insertStatus
    split
    · simp [countSum]; omega
    · split
      · simp [countSum]; omega
      · have := insertStatus_sum s r
        simp only [countSum, List.map_cons, List.sum_cons] at this ⊢
        omega

theorem statusCounts_sum : ∀ l, countSum (statusCounts l) = l.length
  | [] => rfl
  | d :: ds => by
    unfold statusCounts
    rw [insertStatus_sum, statusCounts_sum ds]; rfl

theorem insertStatus_mem (s : Int) : ∀ l, ∃ n, (s, n) ∈ insertStatus s l ∧ n > 0
  | [] => ⟨1, by simp [insertStatus], by omega⟩
  | (t, n) :: r => by
    unfold insertStatus
    split
    · exact ⟨1, by simp, by omega⟩
    · split
      · rename_i h; subst h; exact ⟨n + 1, by simp, by omega⟩
      · obtain ⟨m, hm, hp⟩ := insertStatus_mem s r
        exact ⟨m, by simp [hm], hp⟩

theorem insertStatus_keeps (s t : Int) : ∀ l n, (t, n) ∈ l → ∃ m, (t, m) ∈ insertStatus s l ∧ m ≥ n
  | [], _, h => by cases h
  | (u, k) :: r, n, h => by
    unfold insertStatus
    split
    · exact ⟨n, by simp [h], by omega⟩
    · split
      · rename_i hsu
        rcases List.mem_cons.mp h with h | h
        · cases h; exact ⟨k + 1, by simp, by omega⟩
        · exact ⟨n, by simp [h], by omega⟩
      · rcases List.mem_cons.mp h with h | h
        · cases h; exact ⟨k, by simp, by omega⟩
        · obtain ⟨m, hm, hp⟩ := insertStatus_keeps s t r n h
          exact ⟨m, by simp [hm], hp⟩

/-- every status among the collected failures appears in the summary with a positive count -/
theorem statusCounts_mem : ∀ (l : List (Int × Option Str)) (d : Int × Option Str), d ∈ l →
    ∃ n, (d.1, n) ∈ statusCounts l ∧ n > 0
  | [], _, h => by cases h
  | e :: es, d, h => by
    unfold statusCounts
    rcases List.mem_cons.mp h with h | h
    · subst h; exact insertStatus_mem d.1 _
    · obtain ⟨n, hn, hp⟩ := statusCounts_mem es d h
      obtain ⟨m, hm, hge⟩ := insertStatus_keeps e.1 d.1 _ n hn
      exact ⟨m, hm, by omega⟩

/-! ## searches in flight together -/

theorem saLoop_cons (st : Style) (pit : Bool) (size total : Nat) (r : Json) (rest : List Json) (page : Nat) (acc : PageAcc) :
    saLoopWith (saExtract st pit) pit size total (r :: rest) page acc =
      match saPage st pit size total r page acc with
      | .done x => x
      | .more a => saLoopWith (saExtract st pit) pit size total rest (page + 1) a := by
  rw [saLoopWith]
  unfold saPage
  split
  · rfl
  · cases h1 : saExtract st pit acc.hits r with
    | error e => rfl
    | ok p =>
      obtain ⟨v, ls⟩ := p
      simp only
      cases h2 : accountPage pit page v acc with
      | error e => rfl
      | ok acc2 =>
        simp only
        cases h3 : morePages acc2.hits size page with
        | error e => rfl
        | ok b => cases b <;> rfl

theorem saStep_done (st : Style) (v : SaInv) (x : Except Err PageAcc) (h : v.res = some x) : saStep st v = v := by
  unfold saStep; rw [h]

theorem saQuanta_done (st : Style) (n : Nat) (v : SaInv) (x : Except Err PageAcc) (h : v.res = some x) : saQuanta st n v = v := by
  induction n with
  | zero => rfl
  | succ n ih => simp only [saQuanta]; rw [saStep_done st v x h, ih]

/-- enough quanta run a search to the end of its big-step run -/
theorem saQuanta_complete (st : Style) (pit : Bool) (size total : Nat) :
    ∀ (resps : List Json) (page : Nat) (acc : PageAcc) (n : Nat), resps.length + 1 ≤ n →
      (saQuanta st n ⟨pit, size, total, resps, page, acc, none⟩).res
        = some (saLoopWith (saExtract st pit) pit size total resps page acc)
  | [], page, acc, n, hn => by
    obtain ⟨m, rfl⟩ : ∃ m, n = m + 1 := ⟨n - 1, by omega⟩
    simp only [saQuanta]
    have hs : saStep st ⟨pit, size, total, [], page, acc, none⟩ =
        ⟨pit, size, total, [], page, acc, some (if page > total then .ok acc else .error .exhausted)⟩ := rfl
    rw [hs, saQuanta_done st m _ _ rfl]
    simp only [saLoopWith]
  | r :: rest, page, acc, n, hn => by
    obtain ⟨m, rfl⟩ : ∃ m, n = m + 1 := ⟨n - 1, by omega⟩
    simp only [saQuanta]
    rw [saLoop_cons]
    cases h : saPage st pit size total r page acc with
    | done x =>
      have hs : saStep st ⟨pit, size, total, r :: rest, page, acc, none⟩ = ⟨pit, size, total, r :: rest, page, acc, some x⟩ := by
        simp only [saStep, h]
      rw [hs, saQuanta_done st m _ _ rfl]
    | more a =>
      have hs : saStep st ⟨pit, size, total, r :: rest, page, acc, none⟩ = ⟨pit, size, total, rest, page + 1, a, none⟩ := by
        simp only [saStep, h]
      rw [hs]
      exact saQuanta_complete st pit size total rest (page + 1) a m (by simp at hn; omega)

/-- the schedule touches a search only in its own quanta -/
theorem saSchedule_get (st : Style) (sched : List Nat) (invs : List SaInv) (j : Nat) :
    (saSchedule st sched invs)[j]? = (invs[j]?).map (saQuanta st (sched.count j)) := by
  induction sched generalizing invs with
  | nil => cases h : invs[j]? <;> simp [saSchedule, saQuanta, h]
  | cons i rest ih =>
    simp only [saSchedule, List.foldl_cons] at ih ⊢
    rw [ih (invs.modify i (saStep st))]
    by_cases hij : i = j
    · subst hij
      simp [List.getElem?_modify, List.count_cons]
      cases invs[i]? <;> simp [saQuanta]
    · simp [List.getElem?_modify, hij, List.count_cons]

end JsonFast
