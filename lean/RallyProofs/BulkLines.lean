import RallyModel.BulkLines
import RallyProofs.Bulk
/-!
Helper lemmas for the byte-level notion of a line (C03): `splitLines` for every byte content, `readlines`
element count and consumed bytes, text-mode split vs. `\n` split.
-/

namespace Bulk

/-- the `\n` split loses and invents nothing -/
theorem splitLines_flatten : ∀ bs : List Byte, (splitLines bs).flatten = bs := by
  intro bs
  induction bs with
  | nil => simp [splitLines]
  | cons b t ih =>
    simp only [splitLines]
    split_ifs with hb
    · simp [ih]
    · cases hs : splitLines t with
      | nil => rw [splitLines_eq_nil.mp hs]; simp
      | cons l ls => rw [hs] at ih; simp only [List.flatten_cons] at ih ⊢; rw [← ih]; simp

/-- a line is not empty and `\n` occurs in it at most as its last byte -/
theorem splitLines_shape : ∀ bs : List Byte, ∀ l ∈ splitLines bs, l ≠ [] ∧ 10 ∉ l.dropLast := by
  intro bs
  induction bs with
  | nil => intro l hl; simp [splitLines] at hl
  | cons b t ih =>
    intro l hl
    simp only [splitLines] at hl
    split_ifs at hl with hb
    · rcases List.mem_cons.mp hl with rfl | h
      · simp
      · exact ih l h
    · cases hs : splitLines t with
      | nil => rw [hs] at hl; simp only [List.mem_singleton] at hl; subst hl; simp
      | cons l0 ls =>
        rw [hs] at hl ih
        rcases List.mem_cons.mp hl with rfl | h
        · have h0 := ih l0 (List.mem_cons_self ..)
          refine ⟨by simp, ?_⟩
          rw [List.dropLast_cons_of_ne_nil h0.1]
          intro hm
          rcases List.mem_cons.mp hm with e | e
          · exact hb e.symm
          · exact h0.2 e
        · exact ih l (List.mem_cons_of_mem _ h)

theorem splitLines_step (b : Byte) (t : List Byte) :
    splitLines (b :: t) = if b = 10 then [b] :: splitLines t else
      match splitLines t with
      | [] => [[b]]
      | l :: ls => (b :: l) :: ls := by
  rfl

theorem lineLen_le : ∀ l : List Byte, lineLen l ≤ l.length := by
  intro l
  induction l with
  | nil => simp [lineLen]
  | cons b t ih => simp only [lineLen, List.length_cons]; split_ifs <;> omega

/-- every line but the last one ends in `\n` -/
theorem splitLines_length : ∀ bs : List Byte,
    (splitLines bs).length = countNL bs + (if endsNL bs then 0 else 1) := by
  intro bs
  induction bs with
  | nil => simp [splitLines, countNL, endsNL]
  | cons b t ih =>
    cases t with
    | nil =>
      by_cases hb : b = 10 <;> simp [splitLines, countNL, endsNL, hb]
    | cons c r =>
      have e : endsNL (b :: c :: r) = endsNL (c :: r) := rfl
      rw [e]
      have ec : countNL (b :: c :: r) = (if b = 10 then 1 else 0) + countNL (c :: r) := rfl
      rw [ec]
      by_cases hb : b = 10
      · rw [splitLines_step b (c :: r), if_pos hb, List.length_cons, ih, if_pos hb]; omega
      · rw [splitLines_step b (c :: r), if_neg hb, if_neg hb]
        cases hs : splitLines (c :: r) with
        | nil => exact absurd (splitLines_eq_nil.mp hs) (by simp)
        | cons l ls =>
          rw [hs] at ih
          simp only [List.length_cons] at ih ⊢
          omega

/-- `readlines(k)`: the elements returned, the bytes left and the position afterwards -/
theorem readlines_consumed : ∀ (k : Nat) (s : Src),
    (s.readlines k).1.flatten ++ (s.readlines k).2.rest = s.rest ∧
      (s.readlines k).2.pos = s.pos + (s.readlines k).1.flatten.length := by
  intro k
  induction k with
  | zero => intro s; simp [Src.readlines]
  | succ k ih =>
    intro s
    simp only [Src.readlines]
    split_ifs with h0
    · simp
    · obtain ⟨a, b⟩ := ih s.readline.2
      have hr : s.readline.1 ++ s.readline.2.rest = s.rest := by simp [Src.readline]
      have hp : s.readline.2.pos = s.pos + s.readline.1.length := by
        simp only [Src.readline, List.length_take]
        have := lineLen_le s.rest
        omega
      refine ⟨?_, ?_⟩
      · simp only [List.flatten_cons, List.append_assoc]; rw [a, hr]
      · simp only [List.flatten_cons, List.length_append]; rw [b, hp]; omega

theorem noBareCR_tail {b : Byte} {t : List Byte} (h : noBareCR (b :: t) = true) : noBareCR t = true := by
  cases t with
  | nil => rfl
  | cons c r => simp only [noBareCR, Bool.and_eq_true] at h; exact h.2

theorem textLines_step (b c : Byte) (r : List Byte) :
    textLines (b :: c :: r) =
      if b = 10 then [b] :: textLines (c :: r)
      else if b = 13 then
        if c = 10 then [13, 10] :: textLines r else [13] :: textLines (c :: r)
      else
        match textLines (c :: r) with
        | [] => [[b]]
        | l :: ls => (b :: l) :: ls := by
  rfl

/-- on files whose every `\r` is followed by `\n` (CRLF files included) the text-mode reader and the mmap
    reader see the same lines -/
theorem textLines_eq_splitLines : ∀ bs : List Byte, noBareCR bs = true → textLines bs = splitLines bs
  | [], _ => by simp [textLines, splitLines]
  | [b], _ => by by_cases hb : b = 10 <;> simp [textLines, splitLines, hb]
  | b :: c :: r, h => by
    have ih1 := textLines_eq_splitLines (c :: r) (noBareCR_tail h)
    by_cases hb : b = 10
    · rw [textLines_step, if_pos hb, ih1, splitLines_step b, if_pos hb]
    · by_cases hb13 : b = 13
      · by_cases hc : c = 10
        · have ih2 := textLines_eq_splitLines r (noBareCR_tail (noBareCR_tail h))
          subst hb13; subst hc
          rw [textLines_step, if_neg (by decide), if_pos rfl, if_pos rfl, ih2, splitLines_step 13, if_neg (by decide),
            splitLines_step 10, if_pos rfl]
        · subst hb13
          simp [noBareCR, hc] at h
      · rw [textLines_step, if_neg hb, if_neg hb13, ih1, splitLines_step b, if_neg hb]

theorem prepareOffsetTableText_eq (every : Nat) (bs : List Byte) (h : noBareCR bs = true) :
    prepareOffsetTableText every bs = prepareOffsetTable every bs := by
  unfold prepareOffsetTableText prepareOffsetTable
  rw [textLines_eq_splitLines bs h]

theorem tableLoop_count (every : Nat) : ∀ (ls : List (List Byte)) (a b : Nat), (tableLoop every ls a b).2 = a + ls.length := by
  intro ls
  induction ls with
  | nil => intro a b; simp [tableLoop]
  | cons l ls ih =>
    intro a b
    simp only [tableLoop, List.length_cons]
    split_ifs <;> rw [ih] <;> omega

end Bulk
