import RallyProofs.MechanicMech

set_option linter.unusedSimpArgs false
set_option linter.unusedVariables false

namespace Mechanic

/-! ### the Dispatcher hands every host group to exactly one node actor, once -/

def flatR (r : List (Nat × List (Nat × Aid))) : List (Nat × Aid) := r.flatMap (·.2)

def cntP (s : State) (h : Nat) : Nat :=
  match s.d.work with
  | some (p, _) => p.count (h, Aid.mech)
  | none => 0

def cntR (s : State) (h : Nat) : Nat :=
  match s.d.work with
  | some (_, r) => (flatR r).count (h, Aid.mech)
  | none => 0

/-- the StartNodes sub-message for host group `h` leaving the Dispatcher -/
local notation "SN(" h ")" => Out.send Aid.disp (Aid.node h) (Msg.startNodes h Aid.mech)

theorem flatR_addRemote (r : List (Nat × List (Nat × Aid))) (ip : Nat) (x y : Nat × Aid) :
    (flatR (addRemote r ip x)).count y = (flatR r).count y + if x = y then 1 else 0 := by
  induction r with
  | nil => simp [addRemote, flatR, List.count_cons]
  | cons g rest ih =>
    obtain ⟨k, xs⟩ := g
    simp only [addRemote]
    split
    · simp [flatR, List.count_append, List.count_cons]; omega
    · simp only [flatR, List.flatMap_cons, List.count_append] at ih ⊢
      omega

theorem flatR_lookup_erase (r : List (Nat × List (Nat × Aid))) (ip : Nat) (y : Nat × Aid) :
    (flatR r).count y = (lookupRemote r ip).count y + (flatR (eraseRemote r ip)).count y := by
  induction r with
  | nil => simp [lookupRemote, eraseRemote, flatR]
  | cons g rest ih =>
    obtain ⟨k, xs⟩ := g
    simp only [lookupRemote, eraseRemote]
    split
    · simp [flatR, List.count_append]
    · simp only [flatR, List.flatMap_cons, List.count_append] at ih ⊢
      omega

theorem sendAll_count (l : List (Nat × Aid)) (h : Nat) (r : Aid) :
    (sendAll l).count (Eff.tell (.node h) (.startNodes h r)) = l.count (h, r) := by
  induction l with
  | nil => simp [sendAll]
  | cons p rest ih =>
    obtain ⟨a, b⟩ := p
    simp only [sendAll, List.map_cons, List.count_cons] at ih ⊢
    rw [ih]
    by_cases hh : a = h ∧ b = r
    · obtain ⟨h1, h2⟩ := hh; subst h1 h2; simp
    · have h1 : ¬ (Eff.tell (Aid.node a) (Msg.startNodes a b) == Eff.tell (Aid.node h) (Msg.startNodes h r)) = true := by
        simp only [beq_iff_eq]; intro he; injection he with _ he; injection he with h2 h3; exact hh ⟨h2, h3⟩
      have h2 : ¬ ((a, b) == (h, r)) = true := by
        simp only [beq_iff_eq]; intro he; injection he with h2 h3; exact hh ⟨h2, h3⟩
      simp [h1, h2]

theorem distribute_count (sender : Aid) (l : List ((Nat × Nat) × List Nat)) (i : Nat)
    (acc : List Eff × List (Nat × Aid) × List (Nat × List (Nat × Aid))) (h : Nat) :
    (distribute sender l i acc).2.1.count (h, sender) + (flatR (distribute sender l i acc).2.2).count (h, sender) =
      acc.2.1.count (h, sender) + (flatR acc.2.2).count (h, sender) + (if i ≤ h ∧ h < i + l.length then 1 else 0) := by
  induction l generalizing i acc with
  | nil => simp [distribute]
  | cons g rest ih =>
    obtain ⟨⟨ip, port⟩, ids⟩ := g
    obtain ⟨effs, pending, remotes⟩ := acc
    simp only [distribute]
    split
    · rw [ih]
      simp only [List.count_append, List.count_cons, List.count_nil, List.length_cons]
      by_cases hi : i = h
      · subst hi
        have : ¬ (i + 1 ≤ i ∧ i < i + 1 + rest.length) := by omega
        simp [this]; omega
      · have : ¬ ((i, sender) == (h, sender)) = true := by
          simp only [beq_iff_eq]; intro he; injection he with h2 _; exact hi h2
        simp only [this, if_false]
        by_cases h1 : i + 1 ≤ h ∧ h < i + 1 + rest.length
        · have : i ≤ h ∧ h < i + (rest.length + 1) := by omega
          simp [h1, this]
        · have : ¬ (i ≤ h ∧ h < i + (rest.length + 1)) := by omega
          simp [h1, this]
    · rw [ih]
      simp only [flatR_addRemote, List.length_cons]
      by_cases hi : i = h
      · subst hi
        have : ¬ (i + 1 ≤ i ∧ i < i + 1 + rest.length) := by omega
        simp [this]; omega
      · have : ¬ ((i, sender) = (h, sender)) := by intro he; injection he with h2 _; exact hi h2
        simp only [this, if_false]
        by_cases h1 : i + 1 ≤ h ∧ h < i + 1 + rest.length
        · have : i ≤ h ∧ h < i + (rest.length + 1) := by omega
          simp [h1, this]
        · have : ¬ (i ≤ h ∧ h < i + (rest.length + 1)) := by omega
          simp [h1, this]

theorem distribute_no_tell (sender : Aid) (l : List ((Nat × Nat) × List Nat)) (i : Nat)
    (acc : List Eff × List (Nat × Aid) × List (Nat × List (Nat × Aid)))
    (h : ∀ d m, Eff.tell d m ∉ acc.1) : ∀ d m, Eff.tell d m ∉ (distribute sender l i acc).1 :=
  (distribute_ty sender l i acc (fun _ => True) (fun _ _ _ => trivial) h (fun _ _ => trivial)
    (fun _ _ _ _ => trivial)).1


def cP (w : Option (List (Nat × Aid) × List (Nat × List (Nat × Aid)))) (h : Nat) : Nat :=
  match w with
  | some (p, _) => p.count (h, Aid.mech)
  | none => 0

def cR (w : Option (List (Nat × Aid) × List (Nat × List (Nat × Aid)))) (h : Nat) : Nat :=
  match w with
  | some (_, r) => (flatR r).count (h, Aid.mech)
  | none => 0


theorem count_creates (l : List (Nat × Aid)) (e : Eff) (he : ∀ k, e ≠ Eff.createNode k) :
    (l.map (fun p => Eff.createNode p.1)).count e = 0 := by
  apply List.count_eq_zero_of_not_mem
  intro hm
  obtain ⟨p, _, hp⟩ := List.mem_map.1 hm
  exact he _ hp.symm

theorem poisonEff_count_tSN (r : Bool) (src : Aid) (msg : Msg) (h : Nat) : (poisonEff r src msg).count (Eff.tell (Aid.node h) (Msg.startNodes h Aid.mech)) = 0 := by
  apply List.count_eq_zero_of_not_mem
  intro hm
  cases (poisonEff_tell hm).1

theorem flatR_isEmpty {r : List (Nat × List (Nat × Aid))} (h : r.isEmpty = true) : flatR r = [] := by
  cases r with
  | nil => rfl
  | cons _ _ => cases h

/-- the Dispatcher on StartEngine (first time): every host group is pending, waiting or sent, exactly once -/
theorem disp_token_start {cfg : Config} {st : DSt} {src : Aid} {h : Nat} (hh : h < nHosts cfg) :
    let r := recvDisp cfg st .startEngine .mech
    (r.effs ++ poisonEff r.raised src .startEngine).count (Eff.tell (Aid.node h) (Msg.startNodes h Aid.mech)) + cP r.st.work h + cR r.st.work h = 1 ∧
      r.st.work.isSome = true ∧ r.st.startSender = some .mech := by
  have hc := distribute_count .mech (groups cfg) 0 ([], [], []) h
  have hn := distribute_no_tell .mech (groups cfg) 0 ([], [], []) (by simp)
  simp only [recvDisp, guard_effs_eq, guard_st, guard_raised]
  generalize distribute Aid.mech (groups cfg) 0 ([], [], []) = dd at hc hn
  obtain ⟨effs, pending, remotes⟩ := dd
  have h1 : (0 ≤ h ∧ h < 0 + (groups cfg).length) := ⟨Nat.zero_le _, by simpa [nHosts] using hh⟩
  simp only [List.count_nil, flatR, List.flatMap_nil, h1, and_self, if_true] at hc
  have he : effs.count (Eff.tell (Aid.node h) (Msg.startNodes h Aid.mech)) = 0 := List.count_eq_zero_of_not_mem (hn _ _)
  simp only []
  split
  · rename_i hemp
    have := flatR_isEmpty hemp
    simp only [flatR] at this
    simp only [List.count_append, poisonEff_count_tSN, he, sendAll_count, cP, cR, flatR, List.count_nil,
      List.flatMap_nil, this] at hc ⊢
    simp [poisonEff] at hc ⊢
    omega
  · simp only [List.count_append, poisonEff_count_tSN, he, cP, cR, flatR] at hc ⊢
    simp [poisonEff, List.count_cons] at hc ⊢
    omega

theorem disp_start_work (cfg : Config) (st : DSt) :
    (recvDisp cfg st .startEngine .mech).st.work.isSome = true ∧
      (recvDisp cfg st .startEngine .mech).st.startSender = some .mech := by
  simp only [recvDisp, guard_st]
  generalize distribute Aid.mech (groups cfg) 0 ([], [], []) = dd
  obtain ⟨effs, pending, remotes⟩ := dd
  simp only []
  split <;> simp

/-- the Dispatcher on any other message keeps the token count -/
theorem disp_token_other {cfg : Config} {st : DSt} {msg : Msg} {src : Aid} {h : Nat} (hm : msg ≠ .startEngine) :
    let r := recvDisp cfg st msg src
    (r.effs ++ poisonEff r.raised src msg).count (Eff.tell (Aid.node h) (Msg.startNodes h Aid.mech)) + cP r.st.work h + cR r.st.work h = cP st.work h + cR st.work h ∧
      r.st.work.isSome = st.work.isSome ∧ r.st.startSender = st.startSender := by
  simp only [List.count_append, poisonEff_count_tSN]
  cases msg <;> simp only [recvDisp] <;> try (simp; done)
  · exact absurd rfl hm
  · -- failure
    split <;> simp [List.count_cons]
  · -- conv
    rename_i added ip
    cases added
    · simp only []
      split
      · split <;> simp [List.count_cons]
      · simp
    · simp only []
      split
      · simp
      · rename_i pending remotes hw
        have hle := flatR_lookup_erase remotes ip (h, Aid.mech)
        split
        · rename_i hemp
          have := flatR_isEmpty hemp
          simp only [hw, cP, cR, List.count_append, count_creates _ (Eff.tell (Aid.node h) (Msg.startNodes h Aid.mech)) (by intro k hk; cases hk), sendAll_count,
            List.count_cons, List.count_nil, this] at hle ⊢
          simp [flatR] at hle ⊢
          omega
        · simp only [hw, cP, cR, List.count_append, count_creates _ (Eff.tell (Aid.node h) (Msg.startNodes h Aid.mech)) (by intro k hk; cases hk)] at hle ⊢
          simp
          omega
  · -- poison
    split <;> simp [List.count_cons]


theorem handle_d_other {cfg : Config} {s0 s1 : State} {dst src : Aid} {msg : Msg} {effs : List Eff}
    (hd : dst ≠ .disp) (hh : handle cfg s0 dst src msg = some (s1, effs)) : s1.d = s0.d := by
  cases dst with
  | rc => rw [(handle_rc hh).2]
  | sys => rw [(handle_sys hh).2]
  | mech => rw [(handle_mech hh).2]
  | disp => exact absurd rfl hd
  | node h => rw [(handle_node hh).2.2]

theorem handle_disp' {cfg : Config} {s0 s1 : State} {src : Aid} {msg : Msg} {effs : List Eff}
    (h : handle cfg s0 .disp src msg = some (s1, effs)) :
    effs = (recvDisp cfg s0.d msg src).effs ++ poisonEff (recvDisp cfg s0.d msg src).raised src msg ∧
      s1 = { s0 with d := (recvDisp cfg s0.d msg src).st } := by
  obtain ⟨_, h1, h2⟩ := handle_disp h
  rw [disp_run] at h1 h2
  exact ⟨h1, h2⟩

theorem count_outs_recv {dst src : Aid} {msg : Msg} {effs : List Eff} {a b : Aid} {m : Msg} :
    (Out.recv dst src msg :: effs.map (toOut dst)).count (Out.recv a b m) =
      if dst = a ∧ src = b ∧ msg = m then 1 else 0 := by
  rw [List.count_cons, count_toOut_recv]
  by_cases h : dst = a ∧ src = b ∧ msg = m
  · obtain ⟨h1, h2, h3⟩ := h; subst h1 h2 h3; simp
  · have : ¬ (Out.recv dst src msg == Out.recv a b m) = true := by
      simp only [beq_iff_eq]; intro he; injection he with h1 h2 h3; exact h ⟨h1, h2, h3⟩
    simp [h, this]

structure DI (cfg : Config) (s : State) (tr : List Out) : Prop where
  d1 : tr.count (Out.recv .disp .mech .startEngine) = if s.d.work.isSome then 1 else 0
  d2 : ∀ h, h < nHosts cfg → tr.count SN(h) + cP s.d.work h + cR s.d.work h = if s.d.work.isSome then 1 else 0
  d3 : s.d.work.isSome = true → s.d.startSender = some .mech

theorem di_reach {cfg : Config} {s : State} {tr : List Out} (hr : Reach cfg s tr) : DI cfg s tr := by
  induction hr with
  | init => exact ⟨by simp [State.init, DSt.init], by intro h _; simp [State.init, DSt.init, cP, cR],
      by simp [State.init, DSt.init]⟩
  | @step s s' tr outs e hr hs ih =>
    have hT := ty_reach hr
    have hM := ms_reach hr
    -- steps that do not involve the Dispatcher
    have other : ∀ (s1 : State) (o : List Out), s1.d = s.d → (∀ b m, Out.send .disp b m ∉ o) →
        (∀ b m, Out.recv .disp b m ∉ o) → DI cfg s1 (tr ++ o) := by
      intro s1 o h1 h2 h3
      refine ⟨?_, ?_, ?_⟩
      · rw [h1, List.count_append, List.count_eq_zero_of_not_mem (h3 _ _)]; exact ih.d1
      · intro h hh; rw [h1, List.count_append, List.count_eq_zero_of_not_mem (h2 _ _)]; exact ih.d2 h hh
      · rw [h1]; exact ih.d3
    refine step_elim (motive := fun s' outs => DI cfg s' (tr ++ outs)) hs ?_ ?_ ?_ ?_ ?_
    · intro _; exact other _ _ rfl (by simp) (by simp)
    · intro _ _; exact other _ _ rfl (by simp) (by simp)
    · intro added ip _; exact other _ _ rfl (by simp) (by simp)
    · intro s0 dst src msg hp _
      obtain ⟨_, _, _, h4⟩ := pre_allowed hT hp
      exact other _ _ h4 (by simp) (by simp)
    · intro s0 dst src msg s1 effs hp hh
      obtain ⟨ha, _, _, h4⟩ := pre_allowed hT hp
      by_cases hd : dst = .disp
      · subst hd
        obtain ⟨he, h1⟩ := handle_disp' hh
        rw [h4] at he h1
        have ha : allowed (nHosts cfg) src .disp msg := by
          rcases ha with ha | ⟨_, k, hk, _⟩
          · exact ha
          · cases hk
        have hst : (applyEffs Aid.disp s1 effs).d = (recvDisp cfg s.d msg src).st := by rw [applyEffs_d, h1]
        by_cases hm : msg = .startEngine
        · subst hm
          have hsrc : src = .mech := by cases src <;> simp [allowed] at ha; rfl
          subst hsrc
          have hnone : s.d.work.isSome = false := by
            cases hp with
            | pop _ _ _ rest hc =>
              have := head_count hr hc
              have h2 := hM.ms2
              have h1 := ih.d1
              cases hw : s.d.work.isSome
              · rfl
              · rw [hw] at h1; simp at h1; omega
          have hw' := disp_start_work cfg s.d
          refine ⟨?_, ?_, ?_⟩
          · rw [hst, hw'.1, List.count_append, count_outs_recv]
            have := ih.d1; rw [hnone] at this; simp at this ⊢; omega
          · intro h hh
            have := ih.d2 h hh
            rw [hnone] at this
            have hz : tr.count SN(h) = 0 := by simp at this; omega
            have hk := (disp_token_start (cfg := cfg) (st := s.d) (src := .mech) hh).1
            rw [hst, hw'.1, List.count_append, hz, count_outs_send, he]
            simp only [if_true]
            omega
          · intro _; rw [hst]; exact hw'.2
        · have hk := fun h => disp_token_other (cfg := cfg) (st := s.d) (src := src) (h := h) hm
          simp only [] at hk
          refine ⟨?_, ?_, ?_⟩
          · rw [hst, List.count_append, count_outs_recv, (hk 0).2.1]
            have : ¬ (Aid.disp = Aid.disp ∧ src = Aid.mech ∧ msg = Msg.startEngine) := fun h => hm h.2.2
            rw [if_neg this, Nat.add_zero]; exact ih.d1
          · intro h hh
            rw [hst, List.count_append, count_outs_send, he, (hk h).2.1]
            have := ih.d2 h hh
            have := (hk h).1
            omega
          · intro hw; rw [hst] at hw ⊢; rw [(hk 0).2.1] at hw; rw [(hk 0).2.2]; exact ih.d3 hw
      · have hd1 := handle_d_other hd hh
        refine other _ _ (by rw [applyEffs_d, hd1, h4]) ?_ ?_
        · intro b m hm; exact hd (mem_outs_send.1 hm).1.symm
        · intro b m hm; exact hd (mem_outs_recv.1 hm).1.symm

end Mechanic
