import RallyProofs.MechanicFail

/-! externally provisioned cluster: acknowledged, never touched -/

set_option linter.unusedSimpArgs false
set_option linter.unusedVariables false

namespace Mechanic

local notation "ES" => Out.send Aid.mech Aid.rc Msg.engineStarted
local notation "EP" => Out.send Aid.mech Aid.rc Msg.engineStopped
local notation "RSE" => Out.recv Aid.mech Aid.rc Msg.stopEngine

theorem ext_no_disp {cfg : Config} (hx : cfg.external = true) {s : State} {tr : List Out} (hr : Reach cfg s tr) :
    s.dispCreated = false := by
  cases h : s.dispCreated with
  | false => rfl
  | true => have := (rc_known hr).1 h; rw [hx] at this; cases this

theorem ext_idle {cfg : Config} (hx : cfg.external = true) {s : State} {tr : List Out} (hr : Reach cfg s tr) : Idle s tr :=
  idle_reach hr (ext_no_disp hx hr)

structure EX (cfg : Config) (s : State) (tr : List Out) : Prop where
  e1 : Out.recv .mech .rc .startEngine ∈ tr → cfg.hosts ≠ [] → ES ∈ tr
  e2 : RSE ∈ tr → EP ∈ tr
  e3 : ES ∈ tr → s.m.external = true

theorem ex_reach {cfg : Config} (hx : cfg.external = true) {s : State} {tr : List Out} (hr : Reach cfg s tr) : EX cfg s tr := by
  induction hr with
  | init => exact ⟨by simp, by simp, by simp⟩
  | @step s s' tr outs e hr hs ih =>
    have hT := ty_reach hr
    have I := ext_idle hx hr
    have quiet : ∀ (s1 : State) (o : List Out), s1.m = s.m → (∀ a m, Out.recv .mech a m ∉ o) → ES ∉ o →
        EX cfg s1 (tr ++ o) := by
      intro s1 o h1 h2 h3
      refine ⟨?_, ?_, ?_⟩
      · intro hx hh; rcases List.mem_append.1 hx with hx | hx
        · exact List.mem_append_left _ (ih.e1 hx hh)
        · exact absurd hx (h2 _ _)
      · intro hx; rcases List.mem_append.1 hx with hx | hx
        · exact List.mem_append_left _ (ih.e2 hx)
        · exact absurd hx (h2 _ _)
      · intro hx; rw [h1]; rcases List.mem_append.1 hx with hx | hx
        · exact ih.e3 hx
        · exact absurd hx h3
    refine step_elim (motive := fun s' outs => EX cfg s' (tr ++ outs)) hs ?_ ?_ ?_ ?_ ?_
    · intro _; exact quiet _ _ rfl (by simp) (by simp)
    · intro _ _; exact quiet _ _ rfl (by simp) (by simp)
    · intro _ _ _; exact quiet _ _ rfl (by simp) (by simp)
    · intro s0 dst src msg hp _
      obtain ⟨_, _, h3, _⟩ := pre_allowed hT hp
      exact quiet _ _ h3 (by simp) (by simp)
    · intro s0 dst src msg s1 effs hp hh
      obtain ⟨ha, _, h3, _⟩ := pre_allowed hT hp
      by_cases hd : dst = .mech
      · subst hd
        obtain ⟨he, h1⟩ := handle_mech' hh
        rw [h3] at he h1
        have hst : (applyEffs Aid.mech s1 effs).m = (recvMech cfg s.m msg src).st := by rw [applyEffs_m, h1]
        cases hp with
        | pop _ _ _ rest hc =>
          have hsrc : src = .rc := by
            rcases I.a1 src .mech (by rw [hc]; simp) with ⟨h, _⟩ | ⟨_, h⟩
            · exact h
            · cases h
          subst hsrc
          have hal := hT.chan .rc .mech msg (by rw [hc]; exact List.mem_cons_self)
          have hmsg : msg = .startEngine ∨ msg = .stopEngine := by cases msg <;> simp [allowed] at hal ⊢
          rcases hmsg with rfl | rfl
          · -- StartEngine: acknowledged at once
            by_cases hh0 : cfg.hosts = []
            · rw [mech_start_empty cfg s.m hh0] at he hst
              have he' : effs = [Eff.tell .rc (.failure .guard)] := by rw [he]; simp [poisonEff]
              subst he'
              refine ⟨fun _ hne => absurd hh0 hne, ?_, ?_⟩
              · intro hx; rcases List.mem_append.1 hx with hx | hx
                · exact List.mem_append_left _ (ih.e2 hx)
                · simp [toOut] at hx
              · intro hx; rw [hst]; rcases List.mem_append.1 hx with hx | hx
                · exact ih.e3 hx
                · simp [toOut] at hx
            · have hne : cfg.hosts.isEmpty = false := by cases h : cfg.hosts <;> simp_all
              have hcomp : recvMech cfg s.m .startEngine .rc =
                  ⟨{ s.m with raceControl := some .rc, external := true, status := .clusterStarted, received := 0 },
                    [Eff.tell .rc .engineStarted], false⟩ := by
                simp [recvMech, mechStart, guard, hne, hx]
              rw [hcomp] at he hst
              have he' : effs = [Eff.tell .rc .engineStarted] := by rw [he]; simp [poisonEff]
              subst he'
              refine ⟨fun _ _ => by simp [toOut], ?_, fun _ => by rw [hst]⟩
              intro hx; rcases List.mem_append.1 hx with hx | hx
              · exact List.mem_append_left _ (ih.e2 hx)
              · simp [toOut] at hx
          · -- StopEngine: acknowledged at once, nobody else is told
            obtain ⟨_, hES⟩ := head_stopEngine hr hc
            have hext := ih.e3 hES
            have hrc : s.m.raceControl = some .rc := by
              apply (rc_known hr).2; right
              apply (ms_reach hr).ms3
              intro hn; exact (ms_reach hr).ms4 hn hES
            have hEP : Eff.tell .rc .engineStopped ∈ (recvMech cfg s.m .stopEngine .rc).effs := by
              simp only [recvMech, guard_effs_eq, mechStop, hext, if_true, onStopped, hrc]
              split <;> simp
            refine ⟨?_, ?_, ?_⟩
            · intro hx hh; rcases List.mem_append.1 hx with hx | hx
              · exact List.mem_append_left _ (ih.e1 hx hh)
              · have := (mem_outs_recv.1 hx).2.2; cases this
            · intro _; apply List.mem_append_right; apply mem_outs_send.2
              exact ⟨rfl, by rw [he]; exact List.mem_append_left _ hEP⟩
            · intro _; rw [hst]
              simp only [recvMech, guard_st, mechStop, hext, if_true]
              simp only [onStopped, hrc]
              split <;> exact hext
      · refine quiet _ _ (by rw [applyEffs_m, handle_m_other hd hh, h3]) ?_ ?_
        · intro a m hx; exact hd (mem_outs_recv.1 hx).1.symm
        · intro hx; exact hd (mem_outs_send.1 hx).1.symm

end Mechanic
