import RallyProofs.MechanicMain

/-! as long as no Dispatcher has been created (in particular: always, for an externally provisioned
cluster) only race control and the MechanicActor talk to each other -/

set_option linter.unusedSimpArgs false
set_option linter.unusedVariables false

namespace Mechanic

def idleOut : Out → Prop
  | .send .rc .mech _ => True
  | .send .mech .rc _ => True
  | .recv .rc .mech _ => True
  | .recv .mech .rc _ => True
  | _ => False

structure Idle (s : State) (tr : List Out) : Prop where
  a1 : ∀ a b, s.chan a b ≠ [] → (a = .rc ∧ b = .mech) ∨ (a = .mech ∧ b = .rc)
  a2 : ∀ h, (s.n h).alive = false
  a3 : s.d.registered = false
  a4 : somes s.m.children = []
  a5 : ∀ o ∈ tr, idleOut o

/-- the MechanicActor only tells and creates the Dispatcher -/
def mechEff : Eff → Prop
  | .tell _ _ => True
  | .createDisp => True
  | _ => False

theorem mechEff_exitReqs (l : List (Option Aid)) : ∀ e ∈ (exitReqs l).1, mechEff e := by
  induction l with
  | nil => simp [exitReqs]
  | cons c r ih =>
    cases c with
    | none => simp [exitReqs]
    | some a =>
      intro e he
      simp only [exitReqs, List.mem_cons] at he
      rcases he with he | he
      · subst he; trivial
      · exact ih e he

theorem mechEff_onStarted (st : MSt) : ∀ e ∈ (onStarted st).effs, mechEff e := by
  unfold onStarted; split <;> simp [mechEff]

theorem mechEff_onStopped (st : MSt) : ∀ e ∈ (onStopped st).effs, mechEff e := by
  unfold onStopped
  split
  · simp
  · have := mechEff_exitReqs st.children
    split <;> (intro e he; rcases List.mem_cons.1 he with he | he <;> first | (subst he; trivial) | exact this e he)

theorem mechEff_transition (st : MSt) (e n : Status) (k : MSt → Res MSt) (hk : ∀ st', ∀ x ∈ (k st').effs, mechEff x) :
    ∀ x ∈ (transition st e n k).effs, mechEff x := by
  rcases transition_cases st e n k with ⟨_, _, h3⟩ | ⟨h3, _⟩
  · rw [h3]; exact hk _
  · rw [h3]; simp

theorem mechEff_tellRc (st : MSt) (m : Msg) : ∀ e ∈ (tellRc st m).effs, mechEff e := by
  unfold tellRc; split <;> simp [mechEff]

theorem mechEff_guard {σ : Type} (sender : Aid) (r : Res σ) (h : ∀ e ∈ r.effs, mechEff e) :
    ∀ e ∈ (guard sender r).effs, mechEff e := by
  intro e he
  rw [guard_effs_eq] at he
  rcases List.mem_append.1 he with he | he
  · exact h e he
  · split at he <;> simp at he; subst he; trivial

theorem mechEff_poisonEff (r : Bool) (src : Aid) (msg : Msg) : ∀ e ∈ poisonEff r src msg, mechEff e := by
  unfold poisonEff
  split
  · split <;> simp [mechEff]
  · simp

theorem mechEff_recvMech (cfg : Config) (st : MSt) (msg : Msg) (src : Aid) :
    ∀ e ∈ (recvMech cfg st msg src).effs, mechEff e := by
  cases msg <;> simp only [recvMech] <;> try (simp; done)
  · apply mechEff_guard; unfold mechStart; split
    · simp
    · split <;> simp [mechEff]
  · apply mechEff_guard; unfold mechStop; split
    · exact mechEff_onStopped st
    · intro e he; obtain ⟨a, _, rfl⟩ := List.mem_map.1 he; trivial
  · apply mechEff_guard; unfold mechNodesStarted; exact mechEff_transition _ _ _ _ (fun st' => mechEff_onStarted st')
  · apply mechEff_guard; unfold mechNodesStopped; exact mechEff_transition _ _ _ _ (fun st' => mechEff_onStopped st')
  · exact mechEff_tellRc _ _
  · split
    · simp
    · exact mechEff_tellRc _ _
  · exact mechEff_tellRc _ _

theorem exitReqs_nil_of_somes {l : List (Option Aid)} (h : somes l = []) : (exitReqs l).1 = [] := by
  induction l with
  | nil => rfl
  | cons c r ih =>
    cases c with
    | none => rfl
    | some a => simp [somes] at h

theorem handle_dispCreated {cfg : Config} {s0 s1 : State} {dst src : Aid} {msg : Msg} {effs : List Eff}
    (hh : handle cfg s0 dst src msg = some (s1, effs)) : s1.dispCreated = s0.dispCreated := by
  cases dst with
  | rc => rw [(handle_rc hh).2]
  | sys => rw [(handle_sys hh).2]
  | mech => rw [(handle_mech hh).2]
  | disp => rw [(handle_disp hh).2.2]
  | node h => rw [(handle_node hh).2.2]

theorem pre_dispCreated {s s0 : State} {dst src : Aid} {msg : Msg} (hp : Pre s s0 dst src msg) :
    s0.dispCreated = s.dispCreated := by cases hp <;> rfl

/-- the MechanicActor, without children, on race control's messages, when it does not create a Dispatcher -/
theorem idle_mech {cfg : Config} {st : MSt} {msg : Msg} (hm : msg = .startEngine ∨ msg = .stopEngine)
    (hrc : st.raceControl = none ∨ st.raceControl = some .rc) (h4 : somes st.children = [])
    (hc : Eff.createDisp ∉ (recvMech cfg st msg .rc).effs) :
    (∀ d m, Eff.tell d m ∈ (recvMech cfg st msg .rc).effs ++ poisonEff (recvMech cfg st msg .rc).raised .rc msg → d = .rc) ∧
      somes (recvMech cfg st msg .rc).st.children = [] := by
  rcases hm with rfl | rfl
  · simp only [recvMech, guard_effs_eq, guard_st, guard_raised, poisonEff] at hc ⊢
    simp only [mechStart] at hc ⊢
    split
    · simp [h4]
    · split
      · simp [h4]
      · exfalso; apply hc; rename_i h1 h2; simp [h1, h2]
  · simp only [recvMech, guard_effs_eq, guard_st, guard_raised, poisonEff]
    simp only [mechStop]
    split
    · simp only [onStopped]
      rcases hrc with hrc | hrc
      · simp [hrc, h4]
      · simp only [hrc, exitReqs_nil_of_somes h4]
        split
        · simp [h4]; intro d m hx; rcases hx with hx | hx <;> exact hx.1
        · simp [h4, somes]
    · simp [h4]

theorem idle_reach {cfg : Config} {s : State} {tr : List Out} (hr : Reach cfg s tr) :
    s.dispCreated = false → Idle s tr := by
  induction hr with
  | init =>
    intro _
    exact ⟨by simp [State.init], by simp [State.init, NSt.init], by simp [State.init, DSt.init],
      by simp [State.init, MSt.init, somes], by simp⟩
  | @step s s' tr outs e hr hs ih =>
    have hT := ty_reach hr
    refine step_elim (motive := fun s' outs => s'.dispCreated = false → Idle s' (tr ++ outs)) hs ?_ ?_ ?_ ?_ ?_
    · intro _ hd
      have I := ih hd
      refine ⟨?_, I.a2, I.a3, I.a4, ?_⟩
      · intro a b hne
        by_cases hab : a = .rc ∧ b = .mech
        · exact Or.inl hab
        · apply I.a1; simpa [push, hab] using hne
      · intro o ho; rcases List.mem_append.1 ho with ho | ho
        · exact I.a5 o ho
        · simp at ho; subst ho; trivial
    · intro _ _ hd
      have I := ih hd
      refine ⟨?_, I.a2, I.a3, I.a4, ?_⟩
      · intro a b hne
        by_cases hab : a = .rc ∧ b = .mech
        · exact Or.inl hab
        · apply I.a1; simpa [push, hab] using hne
      · intro o ho; rcases List.mem_append.1 ho with ho | ho
        · exact I.a5 o ho
        · simp at ho; subst ho; trivial
    · intro added ip hreg hd
      have I := ih hd
      rw [I.a3] at hreg; cases hreg
    · intro s0 dst src msg hp hh hd
      have I := ih (by rw [← pre_dispCreated hp]; exact hd)
      exfalso
      cases hp with
      | pop src dst msg rest hc =>
        rcases I.a1 src dst (by rw [hc]; simp) with ⟨rfl, rfl⟩ | ⟨rfl, rfl⟩ <;> simp [handle] at hh
      | timer h hal _ => rw [I.a2 h] at hal; cases hal
    · intro s0 dst src msg s1 effs hp hh hd
      rw [applyEffs_dispCreated, handle_dispCreated hh, pre_dispCreated hp] at hd
      simp only [Bool.or_eq_false_iff, decide_eq_false_iff_not] at hd
      have I := ih hd.1
      cases hp with
      | timer h hal _ => rw [I.a2 h] at hal; cases hal
      | pop src dst msg rest hc =>
        have hal := hT.chan src dst msg (by rw [hc]; exact List.mem_cons_self)
        rcases I.a1 src dst (by rw [hc]; simp) with ⟨rfl, rfl⟩ | ⟨rfl, rfl⟩
        · -- race control → MechanicActor
          obtain ⟨he, h1⟩ := handle_mech' hh
          have hmsg : msg = .startEngine ∨ msg = .stopEngine := by
            cases msg <;> simp [allowed] at hal ⊢
          have hcd : Eff.createDisp ∉ (recvMech cfg s.m msg Aid.rc).effs := by
            intro hx; apply hd.2; rw [he]; exact List.mem_append_left _ hx
          obtain ⟨k1, k2⟩ := idle_mech (cfg := cfg) hmsg hT.m.rc I.a4 hcd
          simp only [] at he
          have hme : ∀ e ∈ effs, mechEff e := by
            intro e hee; rw [he] at hee
            rcases List.mem_append.1 hee with hee | hee
            · exact mechEff_recvMech _ _ _ _ e hee
            · exact mechEff_poisonEff _ _ _ e hee
          refine ⟨?_, ?_, ?_, ?_, ?_⟩
          · intro a b hne
            rw [applyEffs_chan, h1] at hne
            simp only [setChan] at hne
            by_cases hab : a = Aid.mech
            · subst hab
              by_cases hb : b = .rc
              · exact Or.inr ⟨rfl, hb⟩
              · have h0 : s.chan Aid.mech b = [] := by
                  cases hx : s.chan Aid.mech b with
                  | nil => rfl
                  | cons _ _ =>
                    rcases I.a1 Aid.mech b (by rw [hx]; simp) with ⟨h, _⟩ | ⟨_, h⟩
                    · cases h
                    · exact absurd h hb
                have ht : told b effs = [] := by
                  cases hx : told b effs with
                  | nil => rfl
                  | cons m _ =>
                    have : m ∈ told b effs := by rw [hx]; exact List.mem_cons_self
                    have := k1 b m (by rw [← he]; exact mem_told.1 this)
                    exact absurd this hb
                simp [h0, ht] at hne
            · simp only [hab, if_false, List.append_nil] at hne
              by_cases hab2 : a = Aid.rc ∧ b = Aid.mech
              · exact Or.inl hab2
              · simp only [hab2, if_false] at hne; exact I.a1 a b hne
          · intro h; rw [applyEffs_n, h1]
            split
            · rename_i hx
              have := hme _ hx
              simp [mechEff] at this
            · exact I.a2 h
          · rw [applyEffs_d, h1]; exact I.a3
          · rw [applyEffs_m, h1]; exact k2
          · intro o ho; rcases List.mem_append.1 ho with ho | ho
            · exact I.a5 o ho
            · rcases List.mem_cons.1 ho with ho | ho
              · subst ho; trivial
              · obtain ⟨e, hee, rfl⟩ := List.mem_map.1 ho
                have hnc := hme e hee
                cases e <;> simp [mechEff] at hnc
                · have := k1 _ _ (by rw [← he]; exact hee); subst this; trivial
                · exact absurd hee hd.2
        · -- MechanicActor → race control
          obtain ⟨he, h1⟩ := handle_rc hh
          subst he h1
          refine ⟨?_, I.a2, I.a3, I.a4, ?_⟩
          · intro a b hne
            simp only [applyEffs, List.foldl_nil, setChan] at hne
            by_cases hab : a = Aid.mech ∧ b = Aid.rc
            · exact Or.inr hab
            · simp only [hab, if_false] at hne; exact I.a1 a b hne
          · intro o ho; rcases List.mem_append.1 ho with ho | ho
            · exact I.a5 o ho
            · simp at ho; subst ho; trivial

end Mechanic
