import RallyModel.Compare
import RallyProofs.Dbl
import Mathlib.Tactic.Linarith
import Mathlib.Tactic.Ring
import Mathlib.Tactic.Positivity
import Mathlib.Tactic.FieldSimp
/-!
# Lemmas for C20 (`RallyModel/Compare.lean`)

* thresholds: `thr_pos`, `thr_gt_half`, `thr_le_one`
* well-formedness (`Val.wf`: magnitudes are ≥ 0) is preserved by every operation of the model
* `OppV`: "the same number with the opposite sign" – `sub_oppV`, `apply_oppV`, `mkCell_swap`
* signs: `sub_rat_pos_iff`, `apply_rat_pos_iff` (the formatters and the float subtraction keep the sign)
* self comparison: `diffCell_self`, `pctCell_self`
* printing: `scaled_eq_zero_le`, `mkCell_zero_neutral`
* colour stripping: `stripAnsi_render`
-/
namespace Compare
open Dbl

/-! ### thresholds -/

theorem fl_pos {q : ℚ} (h : 0 < q) : 0 < fl q :=
  lt_of_lt_of_le (two_zpow_pos _) (fl_binade h).1

theorem fl_eq_zero_iff {q : ℚ} (h : 0 ≤ q) : fl q = 0 ↔ q = 0 := by
  constructor
  · intro hf
    rcases eq_or_lt_of_le h with h0 | hp
    · exact h0.symm
    · exact absurd hf (ne_of_gt (fl_pos hp))
  · rintro rfl; exact fl_zero

theorem thr_pos (p : ℕ) : 0 < thr p := by
  unfold thr
  apply fl_pos
  positivity

theorem thr_gt_half (p : ℕ) : 1 / (2 * ((10 ^ p : ℕ) : ℚ)) < thr p := by
  unfold thr
  set q : ℚ := 1 / ((10 ^ p : ℕ) : ℚ) with hq
  have hqpos : 0 < q := by positivity
  have h := fl_rel_err q
  rw [abs_of_pos hqpos, abs_le] at h
  have h1 : q - q / 2 ^ 53 ≤ fl q := by linarith [h.1]
  have h2 : q / 2 < q - q / 2 ^ 53 := by
    have : q / 2 ^ 53 < q / 2 := by
      apply div_lt_div_of_pos_left hqpos (by norm_num) (by norm_num)
    linarith
  have h3 : 1 / (2 * ((10 ^ p : ℕ) : ℚ)) = q / 2 := by
    rw [hq]; field_simp
  rw [h3]; linarith

theorem thr_le_one (p : ℕ) : thr p ≤ 1 := by
  unfold thr
  have h1 : (1 : ℚ) / ((10 ^ p : ℕ) : ℚ) ≤ ((1 : ℕ) : ℚ) := by
    rw [div_le_iff₀ (by positivity)]
    have : (1 : ℚ) ≤ ((10 ^ p : ℕ) : ℚ) := by exact_mod_cast Nat.one_le_pow _ _ (by norm_num)
    simpa using this
  have := fl_le_nat (n := 1) (by norm_num) (by positivity) h1
  simpa using this

/-! ### qabs, SM -/

theorem qabs_nonneg (q : ℚ) : 0 ≤ qabs q := by rw [qabs_eq_abs]; exact abs_nonneg q
theorem qabs_neg (q : ℚ) : qabs (-q) = qabs q := by rw [qabs_eq_abs, qabs_eq_abs, abs_neg]
theorem qabs_pos {q : ℚ} (h : q ≠ 0) : 0 < qabs q := by rw [qabs_eq_abs]; exact abs_pos.mpr h

/-- magnitudes are non-negative (what the driver accepts; preserved by every operation) -/
def Val.wf : Val → Prop
  | .int _ => True
  | .flt x => 0 ≤ x.mag

/-- `float(v)` loses nothing: always true for floats, for ints iff |i| is a double (e.g. |i| ≤ 2^53) -/
def Val.exact : Val → Prop
  | .int i => fl ((i.natAbs : ℕ) : ℚ) = ((i.natAbs : ℕ) : ℚ)
  | .flt x => 0 ≤ x.mag

theorem Val.exact.wf {v : Val} (h : v.exact) : v.wf := by
  cases v <;> simp_all [Val.exact, Val.wf]

theorem toSM_mag_nonneg {v : Val} (h : v.wf) : 0 ≤ v.toSM.mag := by
  cases v with
  | int i => exact fl_nonneg (by positivity)
  | flt x => exact h

theorem natAbs_cast (i : ℤ) : ((i.natAbs : ℕ) : ℚ) = |(i : ℚ)| := by
  rw [Nat.cast_natAbs]; exact Int.cast_abs

theorem SM.val_mk (n : Bool) (m : ℚ) : (SM.mk n m).val = if n then -m else m := rfl

theorem toSM_val_of_exact {v : Val} (h : v.exact) : v.toSM.val = v.rat := by
  cases v with
  | flt x => rfl
  | int i =>
    simp only [Val.toSM, Val.rat, SM.val_mk]
    rw [show fl ((i.natAbs : ℕ) : ℚ) = ((i.natAbs : ℕ) : ℚ) from h, natAbs_cast]
    by_cases hi : i < 0
    · have hq : (i : ℚ) < 0 := by exact_mod_cast hi
      rw [decide_eq_true hi, abs_of_neg hq]; simp
    · have hq : (0 : ℚ) ≤ (i : ℚ) := by exact_mod_cast (not_lt.mp hi)
      rw [decide_eq_false hi, abs_of_nonneg hq]; simp

theorem fsub_wf (x y : SM) : 0 ≤ (fsub x y).mag := by
  unfold fsub
  simp only []
  split_ifs
  · exact le_refl _
  · exact fl_nonneg (qabs_nonneg _)

theorem sub_wf (a b : Val) : (a.sub b).wf := by
  cases a <;> cases b <;> simp only [Val.sub, Val.wf] <;> first | trivial | exact fsub_wf _ _

theorem divK_wf {v : Val} (h : v.wf) {k : ℚ} (hk : 0 < k) : (v.divK k).wf := by
  simp only [Val.divK, Val.wf]
  exact fl_nonneg (div_nonneg (toSM_mag_nonneg h) (le_of_lt hk))

theorem mulK_wf {v : Val} (h : v.wf) {k : ℚ} (hk : 0 < k) : (v.mulK k).wf := by
  simp only [Val.mulK, Val.wf]
  exact fl_nonneg (mul_nonneg (toSM_mag_nonneg h) (le_of_lt hk))

theorem apply_wf (f : Fmt) {v : Val} (h : v.wf) : (f.apply v).wf := by
  have k1 : (0 : ℚ) < 1000 := by norm_num
  have k2 : (0 : ℚ) < 60 := by norm_num
  have k3 : (0 : ℚ) < 1024 := by norm_num
  have k4 : (0 : ℚ) < 100 := by norm_num
  cases f <;> simp only [Fmt.apply]
  case ident => exact h
  case times100 => exact mulK_wf h k4
  case msToMin => split_ifs; exacts [divK_wf (divK_wf h k1) k2, h]
  case msToSec => split_ifs; exacts [divK_wf h k1, h]
  case bytesToGb => split_ifs; exacts [divK_wf (divK_wf (divK_wf h k3) k3) k3, h]
  case bytesToMb => split_ifs; exacts [divK_wf (divK_wf h k3) k3, h]
  case bytesToKb => split_ifs; exacts [divK_wf h k3, h]

theorem diffVal_wf (f : Fmt) (b c : Val) : (diffVal f b c).wf := apply_wf f (sub_wf c b)

theorem div_mag_nonneg {n d : Val} (hn : n.wf) (hd : d.wf) : 0 ≤ (n.div d).mag := by
  cases n <;> cases d <;> simp only [Val.div] <;>
    exact fl_nonneg (div_nonneg (by first | positivity | exact toSM_mag_nonneg hn) (by first | positivity | exact toSM_mag_nonneg hd))

theorem abs_wf {b : Val} (hb : b.wf) : b.abs.wf := by
  cases b with
  | int i => trivial
  | flt x => exact hb

theorem abs_truthy (b : Val) : b.abs.truthy = b.truthy := by
  cases b with
  | flt x => rfl
  | int i =>
    simp only [Val.abs, Val.truthy]
    by_cases hi : i = 0
    · subst hi; rfl
    · have h2 : ((i.natAbs : ℕ) : ℤ) ≠ 0 := by omega
      rw [(bne_iff_ne).mpr hi, (bne_iff_ne).mpr h2]

theorem abs_toSM (b : Val) : b.abs.toSM = ⟨false, b.toSM.mag⟩ := by
  cases b with
  | flt x => rfl
  | int i =>
    simp only [Val.abs, Val.toSM, Int.natAbs_natCast]
    have : ¬ (((i.natAbs : ℕ) : ℤ) < 0) := by omega
    rw [decide_eq_false this]

theorem pctVal_eq (absB : Bool) (b c : Val) :
    pctVal absB b c =
      Val.mulK (if (if absB then b.abs else b).truthy then .flt ((c.sub b).div (if absB then b.abs else b)) else .int 0) 100 := rfl

theorem pctVal_wf {b : Val} (hb : b.wf) (absB : Bool) (c : Val) : (pctVal absB b c).wf := by
  have key : ∀ d : Val, d.wf → (Val.mulK (if d.truthy then .flt ((c.sub b).div d) else .int 0) 100).wf := by
    intro d hd
    apply mulK_wf _ (by norm_num)
    split_ifs
    · exact div_mag_nonneg (sub_wf c b) hd
    · trivial
  rw [pctVal_eq]
  cases absB
  · exact key b hb
  · exact key b.abs (abs_wf hb)

/-! ### the same number with the opposite sign -/

def SM.Opp (x y : SM) : Prop :=
  x.mag = y.mag ∧ (x.neg = !y.neg ∨ (x.mag = 0 ∧ x.neg = false ∧ y.neg = false))

inductive OppV : Val → Val → Prop
  | int (k : ℤ) : OppV (.int k) (.int (-k))
  | flt (x y : SM) : x.Opp y → OppV (.flt x) (.flt y)

theorem SM.Opp.val {x y : SM} (h : x.Opp y) : y.val = -x.val := by
  obtain ⟨hm, hs | ⟨h0, h1, h2⟩⟩ := h
  · unfold SM.val
    cases hy : y.neg <;> simp [hs, hy, hm]
  · unfold SM.val
    rw [← hm, h0, h1, h2]; simp

theorem OppV.rat {v w : Val} (h : OppV v w) : w.rat = -v.rat := by
  cases h with
  | int k => simp [Val.rat]
  | flt x y h => exact h.val

theorem fsub_opp (x y : SM) : (fsub x y).Opp (fsub y x) := by
  unfold fsub
  simp only []
  by_cases hr : x.val - y.val = 0
  · have hr' : y.val - x.val = 0 := by linarith
    simp only [hr, hr', if_true]
    refine ⟨rfl, ?_⟩
    cases x.neg <;> cases y.neg <;> simp
  · have hr' : ¬ (y.val - x.val = 0) := fun h => hr (by linarith)
    simp only [hr, hr', if_false]
    refine ⟨?_, Or.inl ?_⟩
    · rw [show y.val - x.val = -(x.val - y.val) by ring, qabs_neg]
    · rcases lt_or_gt_of_ne hr with h | h
      · have : ¬ (y.val - x.val < 0) := by linarith
        rw [decide_eq_true h, decide_eq_false this]; rfl
      · have h1 : ¬ (x.val - y.val < 0) := by linarith
        have h2 : y.val - x.val < 0 := by linarith
        rw [decide_eq_false h1, decide_eq_true h2]; rfl

theorem sub_oppV (b c : Val) : OppV (c.sub b) (b.sub c) := by
  cases b with
  | int i =>
    cases c with
    | int j =>
      simp only [Val.sub]
      have := OppV.int (j - i)
      rwa [neg_sub] at this
    | flt y => exact OppV.flt _ _ (fsub_opp _ _)
  | flt x =>
    cases c with
    | int j => exact OppV.flt _ _ (fsub_opp _ _)
    | flt y => exact OppV.flt _ _ (fsub_opp _ _)

theorem OppV.toSM {v w : Val} (h : OppV v w) : v.toSM.Opp w.toSM := by
  cases h with
  | flt x y h => exact h
  | int k =>
    simp only [Val.toSM, Int.natAbs_neg]
    refine ⟨rfl, ?_⟩
    by_cases hk : k = 0
    · subst hk; right; simp [fl_zero]
    · left
      rcases lt_or_gt_of_ne hk with h | h
      · have : ¬ (-k < 0) := by omega
        rw [decide_eq_true h, decide_eq_false this]; rfl
      · have h1 : ¬ (k < 0) := by omega
        have h2 : -k < 0 := by omega
        rw [decide_eq_false h1, decide_eq_true h2]; rfl

theorem OppV.truthy {v w : Val} (h : OppV v w) : v.truthy = w.truthy := by
  cases h with
  | int k =>
    simp only [Val.truthy]
    by_cases hk : k = 0
    · subst hk; rfl
    · have h2 : -k ≠ 0 := by omega
      rw [(bne_iff_ne).mpr hk, (bne_iff_ne).mpr h2]
  | flt x y h => simp only [Val.truthy, h.1]

theorem divK_oppV {v w : Val} (h : OppV v w) (k : ℚ) : OppV (v.divK k) (w.divK k) := by
  obtain ⟨hm, hs⟩ := h.toSM
  refine OppV.flt _ _ ⟨by simp only [hm], ?_⟩
  rcases hs with hs | ⟨h0, h1, h2⟩
  · exact Or.inl hs
  · right; refine ⟨?_, h1, h2⟩
    simp only [h0, zero_div, fl_zero]

theorem mulK_oppV {v w : Val} (h : OppV v w) (k : ℚ) : OppV (v.mulK k) (w.mulK k) := by
  obtain ⟨hm, hs⟩ := h.toSM
  refine OppV.flt _ _ ⟨by simp only [hm], ?_⟩
  rcases hs with hs | ⟨h0, h1, h2⟩
  · exact Or.inl hs
  · right; refine ⟨?_, h1, h2⟩
    simp only [h0, zero_mul, fl_zero]

theorem apply_oppV (f : Fmt) {v w : Val} (h : OppV v w) : OppV (f.apply v) (f.apply w) := by
  have ht := h.truthy
  cases f <;> simp only [Fmt.apply, ← ht] <;> (try split_ifs) <;>
    first
    | exact h
    | exact divK_oppV (divK_oppV (divK_oppV h _) _) _
    | exact divK_oppV (divK_oppV h _) _
    | exact divK_oppV h _
    | exact mulK_oppV h _

theorem diffVal_oppV (f : Fmt) (b c : Val) : OppV (diffVal f b c) (diffVal f c b) :=
  apply_oppV f (sub_oppV b c)

/-! ### cells -/

def Colour.flip : Colour → Colour
  | .none => .none
  | .green => .red
  | .red => .green
  | .neutral => .neutral

theorem scaled_zero (p : ℕ) : scaled p 0 = 0 := by
  unfold scaled
  rw [zero_mul, show (0 : ℚ) = ((0 : ℤ) : ℚ) by norm_num, rhe_intCast]
  rfl

theorem scaled_eq_zero_le {p : ℕ} {m : ℚ} (h : scaled p m = 0) : m ≤ 1 / (2 * ((10 ^ p : ℕ) : ℚ)) := by
  unfold scaled at h
  have hr : rhe (m * ((10 ^ p : ℕ) : ℚ)) ≤ 0 := by
    by_contra hc
    have : 0 < rhe (m * ((10 ^ p : ℕ) : ℚ)) := by omega
    have h2 : (rhe (m * ((10 ^ p : ℕ) : ℚ))).toNat ≠ 0 := by omega
    exact h2 h
  have hle : m * ((10 ^ p : ℕ) : ℚ) ≤ 1 / 2 := by
    by_contra hc
    rw [not_le] at hc
    have hh : ((1 : ℤ) : ℚ) - 1 / 2 < m * ((10 ^ p : ℕ) : ℚ) := by rw [Int.cast_one]; linarith
    have := le_rhe_of_sub_half_lt 1 (m * ((10 ^ p : ℕ) : ℚ)) hh
    omega
  have hpos : (0 : ℚ) < ((10 ^ p : ℕ) : ℚ) := by positivity
  rw [le_div_iff₀ (by positivity)]
  nlinarith

/-- the number the threshold test looks at and the number that is printed agree in absolute value,
    up to the int → float conversion which cannot turn a non-zero int into something below 1 -/
theorem rat_small_of_mag_small {v : Val} (hv : v.wf) {t : ℚ} (ht : t ≤ 1) (h : v.toSM.mag < t) :
    -t < v.rat ∧ v.rat < t := by
  cases v with
  | flt x =>
    simp only [Val.toSM] at h
    simp only [Val.rat, SM.val]
    have hx : 0 ≤ x.mag := hv
    split_ifs <;> constructor <;> linarith
  | int i =>
    simp only [Val.toSM] at h
    have hi : i = 0 := by
      by_contra hne
      have h1 : ((1 : ℕ) : ℚ) ≤ ((i.natAbs : ℕ) : ℚ) := by
        have : 1 ≤ i.natAbs := by omega
        exact_mod_cast this
      have := nat_le_fl (n := 1) (by norm_num) h1
      push_cast at this
      linarith
    subst hi
    have : 0 < t := by
      have : fl ((((0 : ℤ).natAbs : ℕ)) : ℚ) = 0 := by simp [fl_zero]
      rw [this] at h; exact h
    simp only [Val.rat]
    constructor <;> push_cast <;> linarith

def neutr (plain : Bool) : Colour := if plain then .none else .neutral
def greaterCol (plain incGood : Bool) : Colour := if plain then .none else if incGood then .green else .red
def smallerCol (plain incGood : Bool) : Colour := if plain then .none else if incGood then .red else .green

theorem mkCell_cases (plain incGood : Bool) (prec : ℕ) (pct : Bool) (v : Val) :
    (thr prec ≤ v.rat ∧ mkCell plain incGood prec pct v =
        ⟨greaterCol plain incGood, true, v.toSM.neg, scaled prec v.toSM.mag, prec, pct⟩) ∨
    (v.rat ≤ -(thr prec) ∧ mkCell plain incGood prec pct v =
        ⟨smallerCol plain incGood, false, v.toSM.neg, scaled prec v.toSM.mag, prec, pct⟩) ∨
    (-(thr prec) < v.rat ∧ v.rat < thr prec ∧ mkCell plain incGood prec pct v =
        ⟨neutr plain, false, v.toSM.neg, scaled prec v.toSM.mag, prec, pct⟩) := by
  have hp := thr_pos prec
  unfold mkCell greaterCol smallerCol neutr
  simp only [ge_iff_le]
  by_cases h1 : thr prec ≤ v.rat
  · left; exact ⟨h1, by simp [h1]⟩
  · by_cases h2 : v.rat ≤ -(thr prec)
    · right; left; exact ⟨h2, by simp [h1, h2]⟩
    · right; right
      exact ⟨by linarith [not_le.mp h2], by linarith [not_le.mp h1], by simp [h1, h2]⟩

/-- a cell that prints as zero is neutral (and carries no `+`) -/
theorem mkCell_zero_neutral (plain incGood : Bool) (prec : ℕ) (pct : Bool) {v : Val} (hv : v.wf)
    (h : (mkCell plain incGood prec pct v).n = 0) :
    (mkCell plain incGood prec pct v).colour = neutr plain ∧ (mkCell plain incGood prec pct v).plus = false := by
  have hn : scaled prec v.toSM.mag = 0 := by
    rcases mkCell_cases plain incGood prec pct v with ⟨_, e⟩ | ⟨_, e⟩ | ⟨_, _, e⟩ <;> rw [e] at h <;> exact h
  have hsmall := rat_small_of_mag_small hv (thr_le_one prec)
    (lt_of_le_of_lt (scaled_eq_zero_le hn) (thr_gt_half prec))
  rcases mkCell_cases plain incGood prec pct v with ⟨h1, _⟩ | ⟨h2, _⟩ | ⟨_, _, e⟩
  · exact absurd h1 (not_le.mpr hsmall.2)
  · exact absurd h2 (not_le.mpr hsmall.1)
  · rw [e]; exact ⟨rfl, rfl⟩

theorem sm_pos_of_val_pos {x : SM} (hx : 0 ≤ x.mag) (h : 0 < x.val) : x.neg = false ∧ 0 < x.mag := by
  unfold SM.val at h
  cases hn : x.neg
  · simp [hn] at h; exact ⟨rfl, h⟩
  · simp [hn] at h; linarith

theorem sm_neg_of_val_neg {x : SM} (hx : 0 ≤ x.mag) (h : x.val < 0) : x.neg = true ∧ 0 < x.mag := by
  unfold SM.val at h
  cases hn : x.neg
  · simp [hn] at h; linarith
  · simp [hn] at h; exact ⟨rfl, h⟩

theorem toSM_neg_of_rat_pos {v : Val} (hv : v.wf) (h : 0 < v.rat) : v.toSM.neg = false ∧ v.toSM.mag ≠ 0 := by
  cases v with
  | flt x =>
    have := sm_pos_of_val_pos hv h
    exact ⟨this.1, ne_of_gt this.2⟩
  | int i =>
    simp only [Val.rat] at h
    have hi : 0 < i := by exact_mod_cast h
    simp only [Val.toSM]
    refine ⟨by simp; omega, ?_⟩
    have : (0 : ℚ) < ((i.natAbs : ℕ) : ℚ) := by
      have : 0 < i.natAbs := by omega
      exact_mod_cast this
    exact ne_of_gt (fl_pos this)

theorem toSM_neg_of_rat_neg {v : Val} (hv : v.wf) (h : v.rat < 0) : v.toSM.neg = true ∧ v.toSM.mag ≠ 0 := by
  cases v with
  | flt x =>
    have := sm_neg_of_val_neg hv h
    exact ⟨this.1, ne_of_gt this.2⟩
  | int i =>
    simp only [Val.rat] at h
    have hi : i < 0 := by exact_mod_cast h
    simp only [Val.toSM]
    refine ⟨by simp; omega, ?_⟩
    have : (0 : ℚ) < ((i.natAbs : ℕ) : ℚ) := by
      have : 0 < i.natAbs := by omega
      exact_mod_cast this
    exact ne_of_gt (fl_pos this)

theorem flip_greater (plain incGood : Bool) : (greaterCol plain incGood).flip = smallerCol plain incGood := by
  cases plain <;> cases incGood <;> rfl
theorem flip_smaller (plain incGood : Bool) : (smallerCol plain incGood).flip = greaterCol plain incGood := by
  cases plain <;> cases incGood <;> rfl
theorem flip_neutr (plain : Bool) : (neutr plain).flip = neutr plain := by
  cases plain <;> rfl

/-- what swapping does to one cell -/
structure CellOpp (d e : DCell) : Prop where
  n_eq : e.n = d.n
  colour : e.colour = d.colour.flip
  plus_minus : d.plus = true → e.plus = false ∧ e.neg = true ∧ d.neg = false
  minus_plus : e.plus = true → d.plus = false ∧ d.neg = true ∧ e.neg = false
  not_both_minus : ¬ (d.neg = true ∧ e.neg = true)
  nonzero_flips : d.n ≠ 0 → d.neg ≠ e.neg
  same_shape : e.prec = d.prec ∧ e.pct = d.pct

theorem mkCell_swap (plain incGood : Bool) (prec : ℕ) (pct : Bool) {v w : Val} (h : OppV v w)
    (hv : v.wf) (hw : w.wf) :
    CellOpp (mkCell plain incGood prec pct v) (mkCell plain incGood prec pct w) := by
  have hr := h.rat
  have hp := thr_pos prec
  obtain ⟨hm, hs⟩ := h.toSM
  have hnb : ¬ (v.toSM.neg = true ∧ w.toSM.neg = true) := by
    rcases hs with hs | ⟨_, h1, _⟩
    · rw [hs]; cases w.toSM.neg <;> simp
    · rw [h1]; simp
  have hnz : scaled prec v.toSM.mag ≠ 0 → v.toSM.neg ≠ w.toSM.neg := by
    intro hne
    rcases hs with hs | ⟨h0, _, _⟩
    · rw [hs]; cases w.toSM.neg <;> simp
    · rw [h0, scaled_zero] at hne; exact absurd rfl hne
  rcases mkCell_cases plain incGood prec pct v with ⟨h1, e1⟩ | ⟨h1, e1⟩ | ⟨h1, h1', e1⟩ <;>
    rcases mkCell_cases plain incGood prec pct w with ⟨h2, e2⟩ | ⟨h2, e2⟩ | ⟨h2, h2', e2⟩ <;>
    rw [hr] at h2 <;> (try rw [hr] at h2') <;> (try (exfalso; linarith)) <;> rw [e1, e2]
  · -- v greater, w smaller
    have a := toSM_neg_of_rat_pos hv (lt_of_lt_of_le hp h1)
    have b := toSM_neg_of_rat_neg hw (by rw [hr]; linarith)
    exact ⟨by simp [hm], (flip_greater _ _).symm, fun _ => ⟨rfl, b.1, a.1⟩, fun hc => by simp at hc,
      hnb, hnz, ⟨rfl, rfl⟩⟩
  · -- v smaller, w greater
    have a := toSM_neg_of_rat_neg hv (by linarith)
    have b := toSM_neg_of_rat_pos hw (by rw [hr]; linarith)
    exact ⟨by simp [hm], (flip_smaller _ _).symm, fun hc => by simp at hc, fun _ => ⟨rfl, a.1, b.1⟩,
      hnb, hnz, ⟨rfl, rfl⟩⟩
  · exact ⟨by simp [hm], (flip_neutr _).symm, fun hc => by simp at hc, fun hc => by simp at hc,
      hnb, hnz, ⟨rfl, rfl⟩⟩

/-! ### signs are kept by the subtraction and by the formatters -/

theorem fsub_val_pos_iff (x y : SM) : 0 < (fsub x y).val ↔ y.val < x.val := by
  have hxy : y.val < x.val ↔ 0 < x.val - y.val := by constructor <;> intro h <;> linarith
  rw [hxy]
  unfold fsub
  simp only []
  generalize x.val - y.val = r
  by_cases hr : r = 0
  · simp only [hr, if_true, SM.val_mk]
    constructor
    · intro h; split_ifs at h <;> simp at h
    · intro h; exact absurd h (lt_irrefl _)
  · simp only [hr, if_false, SM.val_mk]
    have hq := fl_pos (qabs_pos hr)
    rcases lt_or_gt_of_ne hr with h | h
    · rw [decide_eq_true h]
      simp only [if_true]
      constructor <;> intro h' <;> linarith
    · have : ¬ (r < 0) := by linarith
      rw [decide_eq_false this]
      simp only [Bool.false_eq_true, if_false]
      constructor
      · intro _; exact h
      · intro _; exact hq

theorem fsub_val_neg_iff (x y : SM) : (fsub x y).val < 0 ↔ x.val < y.val := by
  have h1 := fsub_val_pos_iff y x
  have h2 := (fsub_opp x y).val
  rw [h2] at h1
  constructor
  · intro h; exact h1.mp (by linarith)
  · intro h; have := h1.mpr h; linarith

theorem sub_rat_pos_iff {b c : Val} (hb : b.exact) (hc : c.exact) : 0 < (c.sub b).rat ↔ b.rat < c.rat := by
  cases b with
  | int i =>
    cases c with
    | int j =>
      simp only [Val.sub, Val.rat]
      constructor
      · intro h; have : (0 : ℤ) < j - i := by exact_mod_cast h
        have : i < j := by omega
        exact_mod_cast this
      · intro h; have : i < j := by exact_mod_cast h
        have : (0 : ℤ) < j - i := by omega
        exact_mod_cast this
    | flt y =>
      simp only [Val.sub, Val.rat]
      rw [fsub_val_pos_iff, toSM_val_of_exact hb, toSM_val_of_exact hc]; rfl
  | flt x =>
    cases c with
    | int j =>
      simp only [Val.sub, Val.rat]
      rw [fsub_val_pos_iff, toSM_val_of_exact hb, toSM_val_of_exact hc]; rfl
    | flt y =>
      simp only [Val.sub, Val.rat]
      rw [fsub_val_pos_iff]; rfl

theorem sub_rat_neg_iff {b c : Val} (hb : b.exact) (hc : c.exact) : (c.sub b).rat < 0 ↔ c.rat < b.rat := by
  have h1 := sub_rat_pos_iff hc hb
  have h2 := (sub_oppV b c).rat
  rw [h2] at h1
  constructor
  · intro h; exact h1.mp (by linarith)
  · intro h; have := h1.mpr h; linarith

theorem divK_rat_pos_iff {v : Val} (hv : v.wf) {k : ℚ} (hk : 0 < k) : 0 < (v.divK k).rat ↔ 0 < v.rat := by
  constructor
  · intro h
    have hw := divK_wf hv hk
    obtain ⟨h1, h2⟩ := sm_pos_of_val_pos hw h
    have hm : v.toSM.mag ≠ 0 := by
      intro h0; rw [h0, zero_div, fl_zero] at h2; exact lt_irrefl _ h2
    by_contra hc
    rw [not_lt] at hc
    rcases eq_or_lt_of_le hc with h0 | hneg
    · cases v with
      | int i =>
        simp only [Val.rat] at h0
        have : i = 0 := by exact_mod_cast h0
        subst this
        simp [Val.toSM, fl_zero] at hm
      | flt x =>
        simp only [Val.rat, SM.val] at h0
        simp only [Val.toSM] at hm
        split_ifs at h0
        · exact hm (by linarith)
        · exact hm h0
    · have := (toSM_neg_of_rat_neg hv hneg).1
      rw [this] at h1; cases h1
  · intro h
    obtain ⟨h1, h2⟩ := toSM_neg_of_rat_pos hv h
    simp only [Val.divK, Val.rat, SM.val, h1]
    have : 0 < v.toSM.mag := lt_of_le_of_ne (toSM_mag_nonneg hv) (Ne.symm h2)
    simpa using fl_pos (div_pos this hk)

theorem mulK_rat_pos_iff {v : Val} (hv : v.wf) {k : ℚ} (hk : 0 < k) : 0 < (v.mulK k).rat ↔ 0 < v.rat := by
  constructor
  · intro h
    have hw := mulK_wf hv hk
    obtain ⟨h1, h2⟩ := sm_pos_of_val_pos hw h
    have hm : v.toSM.mag ≠ 0 := by
      intro h0; rw [h0, zero_mul, fl_zero] at h2; exact lt_irrefl _ h2
    by_contra hc
    rw [not_lt] at hc
    rcases eq_or_lt_of_le hc with h0 | hneg
    · cases v with
      | int i =>
        simp only [Val.rat] at h0
        have : i = 0 := by exact_mod_cast h0
        subst this
        simp [Val.toSM, fl_zero] at hm
      | flt x =>
        simp only [Val.rat, SM.val] at h0
        simp only [Val.toSM] at hm
        split_ifs at h0
        · exact hm (by linarith)
        · exact hm h0
    · have := (toSM_neg_of_rat_neg hv hneg).1
      rw [this] at h1; cases h1
  · intro h
    obtain ⟨h1, h2⟩ := toSM_neg_of_rat_pos hv h
    simp only [Val.mulK, Val.rat, SM.val, h1]
    have : 0 < v.toSM.mag := lt_of_le_of_ne (toSM_mag_nonneg hv) (Ne.symm h2)
    simpa using fl_pos (mul_pos this hk)

theorem truthy_of_rat_pos {v : Val} (h : 0 < v.rat) : v.truthy = true := by
  cases v with
  | int i =>
    simp only [Val.rat] at h
    have : 0 < i := by exact_mod_cast h
    simp [Val.truthy]; omega
  | flt x =>
    simp only [Val.rat, SM.val] at h
    simp only [Val.truthy, bne_iff_ne, ne_eq]
    intro h0; rw [h0] at h; simp at h

theorem rat_zero_of_not_truthy {v : Val} (h : v.truthy = false) : v.rat = 0 := by
  cases v with
  | int i =>
    simp [Val.truthy] at h; subst h; simp [Val.rat]
  | flt x =>
    simp [Val.truthy] at h; simp [Val.rat, SM.val, h]

theorem apply_rat_pos_iff (f : Fmt) {v : Val} (hv : v.wf) : 0 < (f.apply v).rat ↔ 0 < v.rat := by
  have k1 : (0 : ℚ) < 1000 := by norm_num
  have k2 : (0 : ℚ) < 60 := by norm_num
  have k3 : (0 : ℚ) < 1024 := by norm_num
  have k4 : (0 : ℚ) < 100 := by norm_num
  cases f <;> simp only [Fmt.apply]
  case times100 => exact mulK_rat_pos_iff hv k4
  all_goals
    split_ifs with ht
    · first
      | exact (divK_rat_pos_iff (divK_wf (divK_wf hv k3) k3) k3).trans
          ((divK_rat_pos_iff (divK_wf hv k3) k3).trans (divK_rat_pos_iff hv k3))
      | exact (divK_rat_pos_iff (divK_wf hv k1) k2).trans (divK_rat_pos_iff hv k1)
      | exact (divK_rat_pos_iff (divK_wf hv k3) k3).trans (divK_rat_pos_iff hv k3)
      | exact divK_rat_pos_iff hv k1
    · exact Iff.rfl

theorem apply_rat_neg_iff (f : Fmt) {v : Val} (hv : v.wf) : (f.apply v).rat < 0 ↔ v.rat < 0 := by
  -- via the opposite number
  have key : ∀ w : Val, OppV v w → w.wf → ((f.apply v).rat < 0 ↔ v.rat < 0) := by
    intro w h hw
    have h1 := apply_rat_pos_iff f hw
    rw [(apply_oppV f h).rat, h.rat] at h1
    constructor
    · intro h'; have := h1.mp (by linarith); linarith
    · intro h'; have := h1.mpr (by linarith); linarith
  cases v with
  | int k => exact key (.int (-k)) (OppV.int k) trivial
  | flt x =>
    refine key (.flt ⟨!x.neg, x.mag⟩) (OppV.flt _ _ ⟨rfl, Or.inl ?_⟩) hv
    simp

theorem diffVal_pos_iff (f : Fmt) {b c : Val} (hb : b.exact) (hc : c.exact) :
    0 < (diffVal f b c).rat ↔ b.rat < c.rat :=
  (apply_rat_pos_iff f (sub_wf c b)).trans (sub_rat_pos_iff hb hc)

theorem diffVal_neg_iff (f : Fmt) {b c : Val} (hb : b.exact) (hc : c.exact) :
    (diffVal f b c).rat < 0 ↔ c.rat < b.rat :=
  (apply_rat_neg_iff f (sub_wf c b)).trans (sub_rat_neg_iff hb hc)

/-! ### comparing a value with itself -/

def Val.posZero (v : Val) : Prop := v = .int 0 ∨ v = .flt ⟨false, 0⟩

theorem sub_self_posZero (v : Val) : (v.sub v).posZero := by
  cases v with
  | int i => left; simp [Val.sub]
  | flt x => right; simp [Val.sub, fsub, Val.toSM]

theorem apply_posZero (f : Fmt) {v : Val} (h : v.posZero) : (f.apply v).posZero := by
  rcases h with rfl | rfl <;> cases f <;>
    simp [Fmt.apply, Val.truthy, Val.posZero, Val.mulK, Val.toSM, fl_zero]

theorem mkCell_posZero (plain incGood : Bool) (prec : ℕ) (pct : Bool) {v : Val} (h : v.posZero) :
    mkCell plain incGood prec pct v = ⟨neutr plain, false, false, 0, prec, pct⟩ := by
  have hp := thr_pos prec
  rcases h with rfl | rfl
  · rcases mkCell_cases plain incGood prec pct (.int 0) with ⟨h1, _⟩ | ⟨h1, _⟩ | ⟨_, _, e⟩
    · simp [Val.rat] at h1; linarith
    · simp [Val.rat] at h1; linarith
    · rw [e]; simp [Val.toSM, fl_zero, scaled_zero]
  · rcases mkCell_cases plain incGood prec pct (.flt ⟨false, 0⟩) with ⟨h1, _⟩ | ⟨h1, _⟩ | ⟨_, _, e⟩
    · simp [Val.rat, SM.val] at h1; linarith
    · simp [Val.rat, SM.val] at h1; linarith
    · rw [e]; simp [Val.toSM, scaled_zero]

theorem diffCell_self (plain incGood : Bool) (f : Fmt) (v : Val) :
    diffCell plain incGood f v v = ⟨neutr plain, false, false, 0, 5, false⟩ :=
  mkCell_posZero plain incGood 5 false (apply_posZero f (sub_self_posZero v))

/-- a float zero of either sign -/
theorem mkCell_zero_mag (plain incGood : Bool) (prec : ℕ) (pct : Bool) (s : Bool) :
    mkCell plain incGood prec pct (.flt ⟨s, 0⟩) = ⟨neutr plain, false, s, 0, prec, pct⟩ := by
  have hp := thr_pos prec
  rcases mkCell_cases plain incGood prec pct (.flt ⟨s, 0⟩) with ⟨h1, _⟩ | ⟨h1, _⟩ | ⟨_, _, e⟩
  · simp [Val.rat, SM.val] at h1; linarith
  · simp [Val.rat, SM.val] at h1; linarith
  · rw [e]; simp [Val.toSM, scaled_zero]

theorem pct_of_posZero {n : Val} (h : n.posZero) (d : Val) :
    ∃ s : Bool, Val.mulK (if d.truthy then .flt (n.div d) else .int 0) 100 = .flt ⟨s, 0⟩ := by
  rcases h with rfl | rfl <;> cases d with
  | int j =>
    by_cases ht : (Val.int j).truthy = true
    · exact ⟨_, by simp [ht, Val.div, Val.mulK, Val.toSM, fl_zero]; rfl⟩
    · exact ⟨false, by simp [ht, Val.mulK, Val.toSM, fl_zero]⟩
  | flt x =>
    by_cases ht : (Val.flt x).truthy = true
    · exact ⟨_, by simp [ht, Val.div, Val.mulK, Val.toSM, fl_zero]; rfl⟩
    · exact ⟨false, by simp [ht, Val.mulK, Val.toSM, fl_zero]⟩

theorem pctVal_self (absB : Bool) (v : Val) : ∃ s : Bool, pctVal absB v v = .flt ⟨s, 0⟩ := by
  rw [pctVal_eq]
  exact pct_of_posZero (sub_self_posZero v) _

theorem pctCell_self (plain incGood absB : Bool) (v : Val) :
    ∃ s : Bool, pctCell plain incGood absB v v = ⟨neutr plain, false, s, 0, 2, true⟩ := by
  obtain ⟨s, hs⟩ := pctVal_self absB v
  exact ⟨s, by unfold pctCell; rw [hs]; exact mkCell_zero_mag plain incGood 2 true s⟩

/-! ### plain = rich without colour -/

theorem mkCell_plain (incGood : Bool) (prec : ℕ) (pct : Bool) (v : Val) :
    mkCell true incGood prec pct v = (mkCell false incGood prec pct v).uncolour := by
  rcases mkCell_cases true incGood prec pct v with ⟨h1, e1⟩ | ⟨h1, e1⟩ | ⟨h1, h1', e1⟩ <;>
    rcases mkCell_cases false incGood prec pct v with ⟨h2, e2⟩ | ⟨h2, e2⟩ | ⟨h2, h2', e2⟩ <;>
    (try (exfalso; have := thr_pos prec; linarith)) <;> rw [e1, e2] <;> rfl

theorem digitChar_ne_esc (d : ℕ) : digitChar d ≠ esc := by
  unfold digitChar
  split <;> decide

theorem digitsW_no_esc (w n : ℕ) : ∀ c ∈ digitsW w n, c ≠ esc := by
  induction w generalizing n with
  | zero => simp [digitsW]
  | succ w ih =>
    intro c hc
    simp only [digitsW, List.mem_append, List.mem_singleton] at hc
    rcases hc with hc | rfl
    · exact ih _ c hc
    · exact digitChar_ne_esc _

theorem natDigitsF_no_esc (f n : ℕ) : ∀ c ∈ natDigitsF f n, c ≠ esc := by
  induction f generalizing n with
  | zero => intro c hc; simp only [natDigitsF, List.mem_singleton] at hc; subst hc; exact digitChar_ne_esc _
  | succ f ih =>
    intro c hc
    simp only [natDigitsF] at hc
    split_ifs at hc with h
    · simp only [List.mem_singleton] at hc; subst hc; exact digitChar_ne_esc _
    · simp only [List.mem_append, List.mem_singleton] at hc
      rcases hc with hc | rfl
      · exact ih _ c hc
      · exact digitChar_ne_esc _

theorem natDigits_no_esc (n : ℕ) : ∀ c ∈ natDigits n, c ≠ esc := natDigitsF_no_esc n n

theorem text_no_esc (d : DCell) : ∀ c ∈ d.text, c ≠ esc := by
  intro c hc
  simp only [DCell.text, fixedStr, List.mem_append] at hc
  rcases hc with ((hc | hc) | ((hc | hc) | hc)) | hc
  · split_ifs at hc <;> simp at hc; subst hc; decide
  · split_ifs at hc <;> simp at hc; subst hc; decide
  · exact natDigits_no_esc _ c hc
  · simp at hc; subst hc; decide
  · exact digitsW_no_esc _ _ c hc
  · split_ifs at hc <;> simp at hc; subst hc; decide

theorem stripAux_append_of_no_esc (s t : Str) (h : ∀ c ∈ s, c ≠ esc) :
    stripAux false (s ++ t) = s ++ stripAux false t := by
  induction s with
  | nil => rfl
  | cons c s ih =>
    have hc : c ≠ esc := h c (by simp)
    simp only [List.cons_append, stripAux, hc, if_false]
    rw [ih (fun x hx => h x (by simp [hx]))]

theorem stripAnsi_wrap (col : Colour) (s : Str) (h : ∀ c ∈ s, c ≠ esc) : stripAnsi (wrap col s) = s := by
  have tail : stripAux false (s ++ [esc, '[', '0', 'm']) = s := by
    rw [stripAux_append_of_no_esc s _ h]
    have : stripAux false [esc, '[', '0', 'm'] = [] := by decide
    rw [this, List.append_nil]
  have plainCase : stripAux false s = s := by
    have := stripAux_append_of_no_esc s [] h
    simpa [stripAux] using this
  cases col <;> simp only [wrap, stripAnsi]
  · exact plainCase
  all_goals
    simp only [List.cons_append, List.nil_append, stripAux, if_true]
    have e1 : ('[' = 'm') = False := by decide
    have e2 : ('3' = 'm') = False := by decide
    have e3 : ('2' = 'm') = False := by decide
    have e4 : (';' = 'm') = False := by decide
    have e5 : ('1' = 'm') = False := by decide
    have e6 : ('9' = 'm') = False := by decide
    simp only [e1, e2, e3, e4, e5, e6, if_false]
    exact tail

/-- stripping the colour codes of a rendered cell gives the rendering of the uncoloured cell -/
theorem stripAnsi_render (d : DCell) : stripAnsi d.render = d.uncolour.render := by
  unfold DCell.render
  rw [stripAnsi_wrap _ _ (text_no_esc d)]
  rfl

/-! ### powers of two are exact -/

theorem ilog2_mul_zpow {q : ℚ} (h : q ≠ 0) (k : ℤ) : ilog2 (q * (2:ℚ)^k) = ilog2 q + k := by
  obtain ⟨s1, s2⟩ := ilog2_spec h
  have hp := two_zpow_pos k
  apply ilog2_unique
  · rw [abs_mul, abs_of_pos hp, zpow_add₀ (by norm_num : (2:ℚ) ≠ 0)]
    exact mul_le_mul_of_nonneg_right s1 (le_of_lt hp)
  · rw [abs_mul, abs_of_pos hp, show ilog2 q + k + 1 = (ilog2 q + 1) + k by ring, zpow_add₀ (by norm_num : (2:ℚ) ≠ 0)]
    exact mul_lt_mul_of_pos_right s2 hp

/-- scaling by a power of two commutes with rounding (no underflow / overflow in the model) -/
theorem fl_mul_zpow (q : ℚ) (k : ℤ) : fl (q * (2:ℚ)^k) = fl q * (2:ℚ)^k := by
  by_cases h : q = 0
  · subst h; simp [fl_zero]
  · have hp := two_zpow_pos k
    have h' : q * (2:ℚ)^k ≠ 0 := mul_ne_zero h (ne_of_gt hp)
    rw [fl_eq h', fl_eq h, ilog2_mul_zpow h k]
    have e : ilog2 q + k - 52 = (ilog2 q - 52) + k := by ring
    rw [e, zpow_add₀ (by norm_num : (2:ℚ) ≠ 0)]
    have : q * (2:ℚ)^k / ((2:ℚ)^(ilog2 q - 52) * (2:ℚ)^k) = q / (2:ℚ)^(ilog2 q - 52) := by
      field_simp
    rw [this]; ring

theorem fl_div_1024 (q : ℚ) : fl (q / 1024) = fl q / 1024 := by
  have : (1024 : ℚ) = (2:ℚ)^(10:ℤ) := by norm_num
  rw [this, div_eq_mul_inv, ← zpow_neg, fl_mul_zpow, zpow_neg, ← div_eq_mul_inv]

/-- a value that is a double (true of every Python float; of an int iff it converts to float exactly) -/
def Val.dbl (v : Val) : Prop := fl v.toSM.mag = v.toSM.mag

theorem divK_1024_rat {v : Val} (hd : v.dbl) : (v.divK 1024).dbl ∧ (v.divK 1024).toSM.val = v.toSM.val / 1024 := by
  have hs : (v.divK 1024).toSM = ⟨v.toSM.neg, fl (v.toSM.mag / 1024)⟩ := rfl
  unfold Val.dbl at hd ⊢
  rw [hs]
  generalize v.toSM = x at hd
  have e : fl (x.mag / 1024) = x.mag / 1024 := by rw [fl_div_1024, hd]
  constructor
  · show fl (fl (x.mag / 1024)) = fl (x.mag / 1024)
    rw [e, e]
  · rw [SM.val_mk, e]
    unfold SM.val
    split_ifs <;> ring

theorem Fmt_bytes_exact_aux {v : Val} (hd : v.dbl) :
    (Fmt.bytesToGb.apply v).toSM.val * 1073741824 = v.toSM.val ∧
    (Fmt.bytesToMb.apply v).toSM.val * 1048576 = v.toSM.val ∧
    (Fmt.bytesToKb.apply v).toSM.val * 1024 = v.toSM.val := by
  have h1 := divK_1024_rat hd
  have h2 := divK_1024_rat h1.1
  have h3 := divK_1024_rat h2.1
  have hz : v.truthy = false → v.toSM.val = 0 := by
    intro hf
    cases v with
    | int i => simp [Val.truthy] at hf; subst hf; simp [Val.toSM, SM.val, fl_zero]
    | flt x => simp [Val.truthy] at hf; simp [Val.toSM, SM.val, hf]
  refine ⟨?_, ?_, ?_⟩ <;> simp only [Fmt.apply] <;> split_ifs with ht
  · rw [h3.2, h2.2, h1.2]; ring
  · rw [hz (by simpa using ht)]; ring
  · rw [h2.2, h1.2]; ring
  · rw [hz (by simpa using ht)]; ring
  · rw [h1.2]; ring
  · rw [hz (by simpa using ht)]; ring

theorem rat_of_flt_apply (f : Fmt) (hf : f ≠ .ident) (v : Val) (ht : v.truthy = true) :
    (f.apply v).rat = (f.apply v).toSM.val := by
  cases f <;> simp_all [Fmt.apply, Val.divK, Val.mulK, Val.rat, Val.toSM]

/-! ### helper lemmas for `RallyProps/C20.lean` (rows, digits, percentage shape, plain vs rich) -/

theorem line_eq_some_iff (plain : Bool) (s : RowSpec) (task : Str) (b c : Scope) (r : Row) :
    line plain s task b c = some r ↔
      ∃ bv cv, lookup s.key b.vals = some bv ∧ lookup s.key c.vals = some cv ∧
        r = mkRow plain s task (unitOf s.unit b) bv cv := by
  unfold line
  cases hb : lookup s.key b.vals <;> cases hc : lookup s.key c.vals <;> simp [eq_comm]

theorem findTask_some {n : Str} {l : List TaskM} {t : TaskM} (h : findTask n l = some t) : t ∈ l ∧ t.name = n := by
  induction l with
  | nil => simp [findTask] at h
  | cons a l ih =>
    simp only [findTask] at h
    split_ifs at h with ha
    · cases h; exact ⟨by simp, ha⟩
    · exact ⟨List.mem_cons_of_mem _ (ih h).1, (ih h).2⟩

/-- with pairwise distinct names every record is found under its own name – never another record that merely
    shares the operation or whose operation is called like the task -/
theorem findTask_of_nodup {l : List TaskM} (hnd : (l.map TaskM.name).Nodup) {t : TaskM} (ht : t ∈ l) :
    findTask t.name l = some t := by
  induction l with
  | nil => cases ht
  | cons a l ih =>
    simp only [List.map_cons, List.nodup_cons] at hnd
    simp only [findTask]
    rcases List.mem_cons.mp ht with rfl | hin
    · simp
    · have hne : a.name ≠ t.name := by
        intro he
        exact hnd.1 (by rw [he]; exact List.mem_map_of_mem hin)
      simp only [hne, if_false]
      exact ih hnd.2 hin

theorem findTask_isSome_iff (n : Str) (l : List TaskM) : (findTask n l).isSome ↔ ∃ t ∈ l, t.name = n := by
  induction l with
  | nil => simp [findTask]
  | cons a l ih =>
    simp only [findTask]
    split_ifs with ha
    · simp [ha]
    · rw [ih]; simp [ha]

theorem guardSkips_false {guard : Option Str} {b : Stats}
    (hg : ∀ g, guard = some g → (getList g b).isSome = true) : guardSkips guard b = false := by
  cases guard with
  | none => rfl
  | some g =>
    have := hg g rfl
    simp only [guardSkips]
    cases h : getList g b <;> simp_all

theorem digitChar_zero_iff {d : ℕ} (hd : d < 10) : digitChar d = '0' ↔ d = 0 := by
  have : d = 0 ∨ d = 1 ∨ d = 2 ∨ d = 3 ∨ d = 4 ∨ d = 5 ∨ d = 6 ∨ d = 7 ∨ d = 8 ∨ d = 9 := by omega
  rcases this with rfl | rfl | rfl | rfl | rfl | rfl | rfl | rfl | rfl | rfl <;> decide

theorem natDigitsF_zero {f n : ℕ} (hf : n ≤ f) (h : ∀ c ∈ natDigitsF f n, c = '0') : n = 0 := by
  induction f generalizing n with
  | zero => omega
  | succ f ih =>
    simp only [natDigitsF] at h
    split_ifs at h with hn
    · exact (digitChar_zero_iff hn).mp (h _ (by simp))
    · have : n / 10 = 0 := ih (by omega) (fun c hc => h c (by simp [hc]))
      omega

theorem natDigits_zero {n : ℕ} (h : ∀ c ∈ natDigits n, c = '0') : n = 0 := natDigitsF_zero (le_refl n) h

theorem digitsW_zero {w n : ℕ} (hn : n < 10 ^ w) (h : ∀ c ∈ digitsW w n, c = '0') : n = 0 := by
  induction w generalizing n with
  | zero => simp at hn; exact hn
  | succ w ih =>
    simp only [digitsW] at h
    have h1 : n / 10 = 0 := ih (by rw [Nat.pow_succ] at hn; omega) (fun c hc => h c (by simp [hc]))
    have h2 : n % 10 = 0 := (digitChar_zero_iff (Nat.mod_lt _ (by norm_num))).mp (h _ (by simp))
    omega

/-- a decimal string consisting of zeros only denotes the scaled integer 0 -/
theorem fixedStr_zero {prec n : ℕ} (h : ∀ c ∈ fixedStr prec n, c = '0' ∨ c = '.') : n = 0 := by
  have hp : 0 < 10 ^ prec := Nat.pos_of_ne_zero (by positivity)
  have no_dot_digit : ∀ d, digitChar d ≠ '.' := by intro d; unfold digitChar; split <;> decide
  have nd_no_dot : ∀ m, ∀ c ∈ natDigits m, c ≠ '.' := by
    intro m
    suffices hf : ∀ f k, ∀ c ∈ natDigitsF f k, c ≠ '.' from hf m m
    intro f
    induction f with
    | zero => intro k c hc; simp only [natDigitsF, List.mem_singleton] at hc; subst hc; exact no_dot_digit _
    | succ f ih =>
      intro k c hc
      simp only [natDigitsF] at hc
      split_ifs at hc with hm
      · simp only [List.mem_singleton] at hc; subst hc; exact no_dot_digit _
      · simp only [List.mem_append, List.mem_singleton] at hc
        rcases hc with hc | rfl
        · exact ih _ c hc
        · exact no_dot_digit _
  have dw_no_dot : ∀ w m, ∀ c ∈ digitsW w m, c ≠ '.' := by
    intro w
    induction w with
    | zero => intro m c hc; simp [digitsW] at hc
    | succ w ih =>
      intro m c hc
      simp only [digitsW, List.mem_append, List.mem_singleton] at hc
      rcases hc with hc | rfl
      · exact ih _ c hc
      · exact no_dot_digit _
  have h1 : n / 10 ^ prec = 0 := natDigits_zero (fun c hc => by
    rcases h c (by simp [fixedStr, hc]) with h0 | h0
    · exact h0
    · exact absurd h0 (nd_no_dot _ c hc))
  have h2 : n % 10 ^ prec = 0 := digitsW_zero (Nat.mod_lt _ hp) (fun c hc => by
    rcases h c (by simp [fixedStr, hc]) with h0 | h0
    · exact h0
    · exact absurd h0 (dw_no_dot _ _ c hc))
  have := Nat.div_add_mod n (10 ^ prec)
  rw [h1, h2] at this; omega

theorem findTask_name {n : Str} {l : List TaskM} {t : TaskM} (h : findTask n l = some t) :
    findTask t.name l = some t := by
  rw [(findTask_some h).2]; exact h

theorem fl_one : Dbl.fl 1 = 1 := by
  have := Dbl.fl_natCast (n := 1) (by norm_num); simpa using this
theorem fl_hundred : Dbl.fl 100 = 100 := by
  have := Dbl.fl_natCast (n := 100) (by norm_num); simpa using this

theorem pctVal_m1_m2 : pctVal false (.int (-1)) (.int (-2)) = .flt ⟨false, 100⟩ := by
  simp [pctVal, Val.sub, Val.truthy, Val.div, Val.mulK, Val.toSM, fl_one, fl_hundred]

theorem pctVal_0_5 (absB : Bool) : pctVal absB (.int 0) (.int 5) = .flt ⟨false, 0⟩ := by
  cases absB <;> simp [pctVal, Val.abs, Val.truthy, Val.mulK, Val.toSM, Dbl.fl_zero]

theorem pctVal_5_0 (absB : Bool) : pctVal absB (.int 5) (.int 0) = .flt ⟨true, 100⟩ := by
  cases absB <;> simp [pctVal, Val.abs, Val.sub, Val.truthy, Val.div, Val.mulK, Val.toSM, fl_one, fl_hundred]

/-- `n / d` has the xor of the sign bits and a magnitude that is zero iff `n` is -/
theorem div_shape (n d : Val) (hn : n.wf) (hd : 0 < d.toSM.mag) :
    ∃ q : ℚ, 0 ≤ q ∧ (q = 0 ↔ n.toSM.mag = 0) ∧ n.div d = ⟨n.toSM.neg != d.toSM.neg, q⟩ := by
  have hnm := toSM_mag_nonneg hn
  have generic : ∃ q : ℚ, 0 ≤ q ∧ (q = 0 ↔ n.toSM.mag = 0) ∧
      (⟨n.toSM.neg != d.toSM.neg, Dbl.fl (n.toSM.mag / d.toSM.mag)⟩ : SM) = ⟨n.toSM.neg != d.toSM.neg, q⟩ := by
    refine ⟨_, Dbl.fl_nonneg (div_nonneg hnm (le_of_lt hd)), ?_, rfl⟩
    rw [fl_eq_zero_iff (div_nonneg hnm (le_of_lt hd)), div_eq_zero_iff]
    constructor
    · rintro (h | h)
      · exact h
      · exact absurd h (ne_of_gt hd)
    · intro h; exact Or.inl h
  cases n with
  | flt y => cases d <;> exact generic
  | int i =>
    cases d with
    | flt x => exact generic
    | int j =>
      have hj : (0 : ℚ) < ((j.natAbs : ℕ) : ℚ) := by
        by_contra hc
        have h0 : ((j.natAbs : ℕ) : ℚ) = 0 := le_antisymm (not_lt.mp hc) (by positivity)
        simp only [Val.toSM] at hd
        rw [h0, Dbl.fl_zero] at hd
        exact lt_irrefl _ hd
      have hi : (0 : ℚ) ≤ ((i.natAbs : ℕ) : ℚ) := by positivity
      refine ⟨Dbl.fl (((i.natAbs : ℕ) : ℚ) / ((j.natAbs : ℕ) : ℚ)), Dbl.fl_nonneg (div_nonneg hi (le_of_lt hj)), ?_, rfl⟩
      rw [fl_eq_zero_iff (div_nonneg hi (le_of_lt hj)), div_eq_zero_iff]
      simp only [Val.toSM]
      rw [fl_eq_zero_iff hi]
      constructor
      · rintro (h | h)
        · exact h
        · exact absurd h (ne_of_gt hj)
      · intro h; exact Or.inl h

theorem toSM_mag_pos_of_truthy {b : Val} (hb : b.wf) (ht : b.truthy = true) : 0 < b.toSM.mag := by
  have h0 := toSM_mag_nonneg hb
  cases b with
  | int i =>
    simp only [Val.truthy, bne_iff_ne, ne_eq] at ht
    have : (0 : ℚ) < ((i.natAbs : ℕ) : ℚ) := by
      have : 0 < i.natAbs := by omega
      exact_mod_cast this
    exact fl_pos this
  | flt x =>
    simp only [Val.truthy, bne_iff_ne, ne_eq] at ht
    exact lt_of_le_of_ne h0 (Ne.symm ht)

/-- zero baseline: `_safe_divide` answers 0, the cell is `0.00%` -/
theorem pctVal_of_falsy (absB : Bool) {b : Val} (h : b.truthy = false) (c : Val) : pctVal absB b c = .flt ⟨false, 0⟩ := by
  have hd : (if absB then b.abs else b).truthy = false := by
    cases absB
    · simpa using h
    · simpa [abs_truthy] using h
  rw [pctVal_eq, hd]
  simp [Val.mulK, Val.toSM, fl_zero]

/-- sign of the percentage value for a non-zero baseline: sign(contender − baseline) · sign(baseline), or just
    sign(contender − baseline) when the call site divides by `abs(baseline)` -/
theorem pctVal_shape {b : Val} (absB : Bool) (c : Val) (hb : b.wf) (ht : b.truthy = true) :
    ∃ m : ℚ, 0 ≤ m ∧ (m = 0 ↔ (c.sub b).toSM.mag = 0) ∧
      pctVal absB b c = .flt ⟨(c.sub b).toSM.neg != (!absB && b.toSM.neg), m⟩ := by
  have key : ∀ d : Val, d.wf → d.truthy = true → ∃ m : ℚ, 0 ≤ m ∧ (m = 0 ↔ (c.sub b).toSM.mag = 0) ∧
      Val.mulK (if d.truthy then .flt ((c.sub b).div d) else .int 0) 100 = .flt ⟨(c.sub b).toSM.neg != d.toSM.neg, m⟩ := by
    intro d hd hdt
    obtain ⟨q, hq0, hqz, hq⟩ := div_shape (c.sub b) d (sub_wf c b) (toSM_mag_pos_of_truthy hd hdt)
    refine ⟨Dbl.fl (q * 100), Dbl.fl_nonneg (by positivity), ?_, ?_⟩
    · rw [fl_eq_zero_iff (by positivity), ← hqz]
      constructor
      · intro h; nlinarith
      · intro h; rw [h]; ring
    · simp only [hdt, if_true, hq, Val.mulK, Val.toSM]
  rw [pctVal_eq]
  cases absB
  · simpa using key b hb ht
  · have := key b.abs (abs_wf hb) (by rw [abs_truthy]; exact ht)
    rw [abs_toSM] at this
    simpa using this

theorem mkRow_plain (s : RowSpec) (task : Str) (unit : Option Str) (bv cv : Val) :
    mkRow true s task unit bv cv = (mkRow false s task unit bv cv).uncolour := by
  simp only [mkRow, Row.uncolour, diffCell, pctCell, mkCell_plain]

theorem scope_plain (showProc : Bool) (specs : List RowSpec) (task : Str) (b c : Scope) :
    scopeRows true showProc specs task b c = (scopeRows false showProc specs task b c).map Row.uncolour := by
  unfold scopeRows
  rw [List.map_filterMap]
  congr 1
  funext s
  unfold line
  cases lookup s.key b.vals <;> cases lookup s.key c.vals <;> simp [mkRow_plain]

theorem block_plain (showProc : Bool) (b c : Stats) (blk : Block) :
    blockRows true showProc b c blk = (blockRows false showProc b c blk).map (List.map Row.uncolour) := by
  cases blk with
  | scalars specs => simp [blockRows, scope_plain, Except.map]
  | tasks specs =>
    simp only [blockRows, Except.map, taskRows, List.map_flatMap]
    congr 1
    apply List.flatMap_congr
    intro t _
    cases findTask t.name c.tasks <;> cases findTask t.name b.tasks <;> simp [scope_plain]
  | joined k gb gc specs =>
    simp only [blockRows, joinRows]
    split_ifs
    · rfl
    · cases getList k b with
      | none => rfl
      | some bl =>
        cases bl with
        | nil => rfl
        | cons e bl =>
          cases getList k c with
          | none => rfl
          | some cl =>
            simp only [Except.map, List.map_flatMap, scope_plain]

theorem lookup_mem {α : Type} {k : Str} {l : List (Str × α)} {v : α} (h : lookup k l = some v) : (k, v) ∈ l := by
  induction l with
  | nil => simp [lookup] at h
  | cons a l ih =>
    obtain ⟨k', v'⟩ := a
    simp only [lookup] at h
    split_ifs at h with hk
    · cases h; subst hk; simp
    · exact List.mem_cons_of_mem _ (ih h)

theorem lookup_none {α : Type} {k : Str} {l : List (Str × α)} (h : ∀ p ∈ l, p.1 ≠ k) : lookup k l = none := by
  induction l with
  | nil => rfl
  | cons a l ih =>
    obtain ⟨k', v'⟩ := a
    simp only [lookup]
    have : ¬ k = k' := fun e => h (k', v') (by simp) e.symm
    simp only [this, if_false]
    exact ih (fun p hp => h p (List.mem_cons_of_mem _ hp))

theorem lookup_of_nodup {α : Type} {l : List (Str × α)} (hnd : (l.map Prod.fst).Nodup) {k : Str} {v : α}
    (h : (k, v) ∈ l) : lookup k l = some v := by
  induction l with
  | nil => cases h
  | cons a l ih =>
    obtain ⟨k', v'⟩ := a
    simp only [List.map_cons, List.nodup_cons] at hnd
    simp only [lookup]
    rcases List.mem_cons.mp h with e | hin
    · cases e; simp
    · have : ¬ k = k' := by
        intro e; subst e
        exact hnd.1 (List.mem_map_of_mem (f := Prod.fst) hin)
      simp only [this, if_false]
      exact ih hnd.2 hin

end Compare
