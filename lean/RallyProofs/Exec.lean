import RallyModel.Exec
import Mathlib.Tactic.Linarith
import Mathlib.Algebra.Order.Field.Basic
/-! Helper lemmas for C04 / C05 about `RallyModel/Exec.lean`. -/
namespace Exec

/-- `R` holds between every two neighbours of the list -/
def Adj {α : Type} (R : α → α → Prop) : List α → Prop
  | a :: b :: l => R a b ∧ Adj R (b :: l)
  | _ => True

@[simp] theorem adj_nil {α : Type} (R : α → α → Prop) : Adj R [] := trivial
@[simp] theorem adj_single {α : Type} (R : α → α → Prop) (a : α) : Adj R [a] := trivial
@[simp] theorem adj_cons_cons {α : Type} (R : α → α → Prop) (a b : α) (l : List α) :
    Adj R (a :: b :: l) ↔ R a b ∧ Adj R (b :: l) := Iff.rfl

theorem Adj.imp {α : Type} {R S : α → α → Prop} (h : ∀ a b, R a b → S a b) :
    ∀ {l : List α}, Adj R l → Adj S l
  | [], _ => trivial
  | [_], _ => trivial
  | _ :: _ :: _, ⟨h1, h2⟩ => ⟨h _ _ h1, Adj.imp h h2⟩

/-- neighbours related by a transitive relation ⇒ every earlier element is related to every later one -/
theorem Adj.pairwise {α : Type} {R : α → α → Prop} (htr : ∀ a b c, R a b → R b c → R a c) :
    ∀ {l : List α}, Adj R l → List.Pairwise R l
  | [], _ => List.Pairwise.nil
  | [a], _ => by simp
  | a :: b :: l, ⟨h1, h2⟩ => by
    have ih : List.Pairwise R (b :: l) := Adj.pairwise htr h2
    rw [List.pairwise_cons] at ih ⊢
    refine ⟨?_, List.pairwise_cons.mpr ih⟩
    intro x hx
    rcases List.mem_cons.mp hx with rfl | hx
    · exact h1
    · exact htr _ _ _ h1 (ih.1 x hx)

theorem Adj.map {α β : Type} {R : β → β → Prop} (f : α → β) :
    ∀ {l : List α}, Adj (fun a b => R (f a) (f b)) l → Adj R (l.map f)
  | [], _ => trivial
  | [_], _ => trivial
  | _ :: _ :: _, ⟨h1, h2⟩ => ⟨h1, Adj.map f h2⟩

/-! ## request programs and request contexts -/

theorem updStart_assoc (a b : Option Rat) (t : Rat) :
    updStart a (updStart b (some t)) = updStart (updStart a b) (some t) := by
  cases a with
  | none => cases b <;> simp only [updStart] <;> split_ifs <;> rfl
  | some x =>
    cases b with
    | none => simp [updStart]
    | some y =>
      simp only [updStart]
      by_cases h1 : t < y <;> by_cases h2 : y < x <;> simp only [h1, h2, if_true, if_false] <;> split_ifs <;>
        first | rfl | (congr 1; linarith)

theorem updEnd_assoc (a b : Option Rat) (t : Rat) :
    updEnd a (updEnd b (some t)) = updEnd (updEnd a b) (some t) := by
  cases a with
  | none => cases b <;> simp only [updEnd] <;> split_ifs <;> rfl
  | some x =>
    cases b with
    | none => simp [updEnd]
    | some y =>
      simp only [updEnd]
      by_cases h1 : t > y <;> by_cases h2 : y > x <;> simp only [h1, h2, if_true, if_false] <;> split_ifs <;>
        first | rfl | (congr 1; linarith)

theorem exitInto_onStart (c p : RCtx) (t : Rat) : (c.onStart t).exitInto p = (c.exitInto p).onStart t := by
  simp only [RCtx.exitInto, RCtx.onStart, updStart_assoc]

theorem exitInto_onEnd (c p : RCtx) (t : Rat) : (c.onEnd t).exitInto p = (c.exitInto p).onEnd t := by
  simp only [RCtx.exitInto, RCtx.onEnd, updEnd_assoc]

theorem unwindInto_onStart (t : Rat) : ∀ (rest : List RCtx) (c : RCtx),
    unwindInto (c.onStart t) rest = (unwindInto c rest).onStart t
  | [], _ => rfl
  | p :: rest, c => by simp only [unwindInto, exitInto_onStart]; exact unwindInto_onStart t rest _

theorem unwindInto_onEnd (t : Rat) : ∀ (rest : List RCtx) (c : RCtx),
    unwindInto (c.onEnd t) rest = (unwindInto c rest).onEnd t
  | [], _ => rfl
  | p :: rest, c => by simp only [unwindInto, exitInto_onEnd]; exact unwindInto_onEnd t rest _

theorem empty_exitInto (c : RCtx) : RCtx.empty.exitInto c = c := by
  cases c; simp [RCtx.exitInto, RCtx.empty, updStart, updEnd]

/-- stamping a context with every request of an endpoint log, in log order -/
def stampAll (c : RCtx) (log : List (Rat × Rat)) : RCtx := log.foldl (fun c x => (c.onStart x.1).onEnd x.2) c

/-- earliest request sent … latest response received over an endpoint log -/
def spanOf (log : List (Rat × Rat)) : RCtx := stampAll RCtx.empty log

theorem stampAll_append (c : RCtx) (l1 l2 : List (Rat × Rat)) : stampAll c (l1 ++ l2) = stampAll (stampAll c l1) l2 := by
  simp [stampAll, List.foldl_append]

theorem unwindInto_stampAll : ∀ (log : List (Rat × Rat)) (rest : List RCtx) (c : RCtx),
    unwindInto (stampAll c log) rest = stampAll (unwindInto c rest) log
  | [], _, _ => rfl
  | x :: log, rest, c => by
    simp only [stampAll, List.foldl_cons]
    have := unwindInto_stampAll log rest ((c.onStart x.1).onEnd x.2)
    simp only [stampAll] at this
    rw [this, unwindInto_onEnd, unwindInto_onStart]

theorem fresh_exitInto (c : RCtx) (a b : Rat) : ((RCtx.empty.onStart a).onEnd b).exitInto c = (c.onStart a).onEnd b := by
  simp [RCtx.exitInto, RCtx.onStart, RCtx.onEnd, RCtx.empty, updStart, updEnd]

/-- the updates a child task makes through the inherited reference are the updates of the parent's dict -/
theorem exitAllInto_eq (top : RCtx) (log : List (Rat × Rat)) : exitAllInto top log = stampAll top log := by
  unfold exitAllInto stampAll
  congr 1

/-- `c` is the span of the log `l`: nothing, or (earliest sent, latest received) -/
def Spans (c : RCtx) (l : List (Rat × Rat)) : Prop :=
  (l = [] ∧ c = RCtx.empty) ∨
  ∃ a ∈ l, ∃ b ∈ l, c.start = some a.1 ∧ c.stop = some b.2 ∧ ∀ x ∈ l, a.1 ≤ x.1 ∧ x.2 ≤ b.2

theorem Spans.snoc {c : RCtx} {l : List (Rat × Rat)} (h : Spans c l) (x : Rat × Rat) :
    Spans ((c.onStart x.1).onEnd x.2) (l ++ [x]) := by
  right
  rcases h with ⟨hl, hc⟩ | ⟨a, ha, b, hb, hs, he, hall⟩
  · subst hl hc
    exact ⟨x, by simp, x, by simp, by simp [RCtx.onStart, RCtx.onEnd, RCtx.empty, updStart],
      by simp [RCtx.onStart, RCtx.onEnd, RCtx.empty, updEnd], by simp⟩
  · have hmem : ∀ y, y ∈ l ++ [x] ↔ y ∈ l ∨ y = x := by intro y; simp
    by_cases h1 : x.1 < a.1
    · by_cases h2 : x.2 > b.2
      · refine ⟨x, by simp, x, by simp, by simp [RCtx.onStart, RCtx.onEnd, updStart, hs, h1], by simp [RCtx.onStart, RCtx.onEnd, updEnd, he, h2], ?_⟩
        intro y hy
        rcases (hmem y).mp hy with hy | rfl
        · have := hall y hy; constructor <;> linarith
        · exact ⟨le_refl _, le_refl _⟩
      · refine ⟨x, by simp, b, by simp [hb], by simp [RCtx.onStart, RCtx.onEnd, updStart, hs, h1], by simp [RCtx.onStart, RCtx.onEnd, updEnd, he, h2], ?_⟩
        intro y hy
        rcases (hmem y).mp hy with hy | rfl
        · have := hall y hy; constructor <;> linarith
        · exact ⟨le_refl _, not_lt.mp h2⟩
    · by_cases h2 : x.2 > b.2
      · refine ⟨a, by simp [ha], x, by simp, by simp [RCtx.onStart, RCtx.onEnd, updStart, hs, h1], by simp [RCtx.onStart, RCtx.onEnd, updEnd, he, h2], ?_⟩
        intro y hy
        rcases (hmem y).mp hy with hy | rfl
        · have := hall y hy; constructor <;> linarith
        · exact ⟨not_lt.mp h1, le_refl _⟩
      · refine ⟨a, by simp [ha], b, by simp [hb], by simp [RCtx.onStart, RCtx.onEnd, updStart, hs, h1], by simp [RCtx.onStart, RCtx.onEnd, updEnd, he, h2], ?_⟩
        intro y hy
        rcases (hmem y).mp hy with hy | rfl
        · exact hall y hy
        · exact ⟨not_lt.mp h1, not_lt.mp h2⟩

theorem spans_stampAll : ∀ (l' : List (Rat × Rat)) (c : RCtx) (l : List (Rat × Rat)), Spans c l → Spans (stampAll c l') (l ++ l')
  | [], c, l, h => by simpa [stampAll] using h
  | x :: l', c, l, h => by
    have := spans_stampAll l' _ _ (h.snoc x)
    simpa [stampAll, List.append_assoc] using this

theorem spanOf_spans (log : List (Rat × Rat)) : Spans (spanOf log) log := by
  have := spans_stampAll log RCtx.empty [] (Or.inl ⟨rfl, rfl⟩)
  simpa [spanOf] using this

structure PInv (t0 : Rat) (s : PState) : Prop where
  t0_le : t0 ≤ s.now
  ne : s.stack ≠ []
  bounds : ∀ x ∈ s.log, t0 ≤ x.1 ∧ x.1 ≤ x.2 ∧ x.2 ≤ s.now
  span : unwind s.stack = spanOf s.log

section prog
variable {r : Rat → Rat} (hr : ∀ x, r x = x)
include hr

theorem le_sleep' (now d : Rat) : now ≤ sleep r now d := by
  simp only [sleep, hr]; split <;> linarith

/-- a stream: the clock only moves forward; every request it sends lies between its start and its end -/
theorem runStream_spec : ∀ (ws : List (Rat × Bool)) (t : Rat) (log : List (Rat × Rat)),
    t ≤ (runStream r ws t log).1 ∧
    ∃ l, (runStream r ws t log).2.1 = log ++ l ∧ ∀ x ∈ l, t ≤ x.1 ∧ x.1 ≤ x.2 ∧ x.2 ≤ (runStream r ws t log).1
  | [], t, log => ⟨le_refl _, [], by simp [runStream], by simp⟩
  | (sv, f) :: ws, t, log => by
    have h2 := le_sleep' hr t sv
    simp only [runStream]
    split
    · exact ⟨h2, [(t, sleep r t sv)], rfl, by simp; exact h2⟩
    · obtain ⟨h3, l, hl, hall⟩ := runStream_spec ws (sleep r t sv) (log ++ [(t, sleep r t sv)])
      refine ⟨le_trans h2 h3, (t, sleep r t sv) :: l, by rw [hl]; simp, ?_⟩
      intro x hx
      rcases List.mem_cons.mp hx with rfl | hx
      · exact ⟨le_refl _, h2, h3⟩
      · have := hall x hx
        exact ⟨le_trans h2 this.1, this.2.1, this.2.2⟩

omit hr in
theorem le_foldl_ratMax {α : Type} (f : α → Rat) : ∀ (xs : List α) (init : Rat),
    init ≤ xs.foldl (fun m x => ratMax m (f x)) init ∧ ∀ x ∈ xs, f x ≤ xs.foldl (fun m x => ratMax m (f x)) init
  | [], init => ⟨le_refl _, by simp⟩
  | y :: xs, init => by
    have ⟨h1, h2⟩ := le_foldl_ratMax f xs (ratMax init (f y))
    have hm : init ≤ ratMax init (f y) ∧ f y ≤ ratMax init (f y) := by
      unfold ratMax; split <;> constructor <;> linarith
    simp only [List.foldl_cons]
    refine ⟨le_trans hm.1 h1, ?_⟩
    intro x hx
    rcases List.mem_cons.mp hx with rfl | hx
    · exact le_trans hm.2 h1
    · exact h2 x hx

theorem runProg_inv (t0 : Rat) : ∀ (ts : List Tok) (s : PState), PInv t0 s → PInv t0 (runProg r ts s)
  | [], s, h => h
  | .enter :: ts, s, h => by
    simp only [runProg]
    apply runProg_inv t0 ts
    refine ⟨h.t0_le, by simp, h.bounds, ?_⟩
    have hne := h.ne
    cases hs : s.stack with
    | nil => exact absurd hs hne
    | cons c rest =>
      have := h.span
      rw [hs] at this
      simp only [unwind, unwindInto, empty_exitInto]
      exact this
  | .exit :: ts, s, h => by
    simp only [runProg]
    split
    · rename_i c p rest hs
      apply runProg_inv t0 ts
      refine ⟨h.t0_le, by simp, h.bounds, ?_⟩
      have := h.span
      rw [hs] at this
      exact this
    · exact runProg_inv t0 ts s h
  | .wire gap service fails :: ts, s, h => by
    have h1 := le_sleep' hr s.now gap
    have h2 := le_sleep' hr (sleep r s.now gap) service
    set t1 := sleep r s.now gap with ht1
    set t2 := sleep r t1 service with ht2
    have hnew : PInv t0 { now := t2, stack := onTop (fun c => (c.onStart t1).onEnd t2) s.stack, log := s.log ++ [(t1, t2)], failed := fails } := by
      refine ⟨by have := h.t0_le; simp only; linarith, ?_, ?_, ?_⟩
      · have hne := h.ne
        cases hs : s.stack with
        | nil => exact absurd hs hne
        | cons c rest => simp [onTop]
      · intro x hx
        simp only [List.mem_append, List.mem_singleton] at hx
        rcases hx with hx | rfl
        · have := h.bounds x hx
          exact ⟨this.1, this.2.1, by simp only; linarith [this.2.2]⟩
        · exact ⟨by have := h.t0_le; simp only; linarith, h2, le_refl _⟩
      · have hne := h.ne
        cases hs : s.stack with
        | nil => exact absurd hs hne
        | cons c rest =>
          have hsp := h.span
          rw [hs] at hsp
          simp only [unwind] at hsp
          simp only [onTop, unwind, unwindInto_onEnd, unwindInto_onStart, hsp, spanOf, stampAll_append]
          rfl
    simp only [runProg]
    split
    · exact hnew
    · exact runProg_inv t0 ts _ hnew
  | .par streams :: ts, s, h => by
    set rs := streams.map (fun ws => runStream r ws s.now []) with hrs
    set tEnd := rs.foldl (fun m x => ratMax m x.1) s.now with htEnd
    set newLog := rs.flatMap (fun x => x.2.1) with hnl
    have hmax := le_foldl_ratMax (fun x : Rat × List (Rat × Rat) × Bool => x.1) rs s.now
    have hnewb : ∀ x ∈ newLog, s.now ≤ x.1 ∧ x.1 ≤ x.2 ∧ x.2 ≤ tEnd := by
      intro x hx
      simp only [hnl, List.mem_flatMap] at hx
      obtain ⟨rk, hrk, hx⟩ := hx
      have hrk' := hrk
      simp only [hrs, List.mem_map] at hrk'
      obtain ⟨ws, _, rfl⟩ := hrk'
      obtain ⟨_, l, hl, hall⟩ := runStream_spec hr ws s.now []
      rw [hl] at hx
      have := hall x (by simpa using hx)
      exact ⟨this.1, this.2.1, le_trans this.2.2 (hmax.2 _ hrk)⟩
    have hnew : PInv t0 ⟨tEnd, onTop (fun c => exitAllInto c newLog) s.stack, s.log ++ newLog, rs.any (fun x => x.2.2)⟩ := by
      refine ⟨le_trans h.t0_le hmax.1, ?_, ?_, ?_⟩
      · have hne := h.ne
        cases hs : s.stack with
        | nil => exact absurd hs hne
        | cons c rest => simp [onTop]
      · intro x hx
        simp only [List.mem_append] at hx
        rcases hx with hx | hx
        · have := h.bounds x hx
          exact ⟨this.1, this.2.1, le_trans this.2.2 hmax.1⟩
        · have := hnewb x hx
          exact ⟨le_trans h.t0_le this.1, this.2.1, this.2.2⟩
      · have hne := h.ne
        cases hs : s.stack with
        | nil => exact absurd hs hne
        | cons c rest =>
          have hsp := h.span
          rw [hs] at hsp
          simp only [unwind] at hsp
          simp only [onTop, unwind, exitAllInto_eq, unwindInto_stampAll, hsp, spanOf, stampAll_append]
    simp only [runProg]
    split
    · exact hnew
    · exact runProg_inv t0 ts _ hnew

end prog

/-! ## the clock -/

section clock
variable {c : Cfg} (hr : ∀ x, c.r x = x)
include hr

theorem sleep_eq (now d : Rat) : sleep c.r now d = if d > 0 then now + d else now := by
  simp [sleep, hr]

theorem le_sleep (now d : Rat) : now ≤ sleep c.r now d := by
  rw [sleep_eq hr]; split <;> linarith

theorem sleep_of_nonneg {d : Rat} (hd : 0 ≤ d) (now : Rat) : sleep c.r now d = now + d := by
  rw [sleep_eq hr]; split
  · rfl
  · have : d = 0 := le_antisymm (not_lt.mp ‹_›) hd
    simp [this]

theorem now_le_genDone (st : St) (q : Req) : st.now ≤ genDone c st q := le_sleep hr _ _

theorem genDone_le_procStart (st : St) (q : Req) : genDone c st q ≤ procStartOf c st q := by
  unfold procStartOf
  simp only [hr]
  split
  · split
    · have : 0 < absSchedOf c st q - genDone c st q := ‹_›
      linarith
    · exact le_refl _
  · exact le_refl _

theorem progOf_inv (st : St) (q : Req) : PInv (procStartOf c st q) (progOf c st q) :=
  runProg_inv hr _ _ _ ⟨le_refl _, by simp, by simp, rfl⟩

/-- the executor's request context spans exactly first request sent … last response received -/
theorem reqCtx_eq_span (st : St) (q : Req) : reqCtxOf c st q = spanOf (progOf c st q).log := (progOf_inv hr st q).span

theorem reqCtx_spans (st : St) (q : Req) : Spans (reqCtxOf c st q) (progOf c st q).log := by
  rw [reqCtx_eq_span hr]; exact spanOf_spans _

theorem procStart_le_reqStart (st : St) (q : Req) : procStartOf c st q ≤ reqStartOf c st q := by
  have h := progOf_inv hr st q
  unfold reqStartOf
  rcases reqCtx_spans hr st q with ⟨_, hc⟩ | ⟨a, ha, _, _, hs, _, _⟩
  · simp [hc, RCtx.empty]
  · simp [hs]; exact (h.bounds a ha).1

theorem reqEnd_le_progNow (st : St) (q : Req) : reqEndOf c st q ≤ (progOf c st q).now := by
  have h := progOf_inv hr st q
  unfold reqEndOf
  rcases reqCtx_spans hr st q with ⟨_, hc⟩ | ⟨_, _, b, hb, _, he, _⟩
  · simp [hc, RCtx.empty]
  · simp [he]; exact (h.bounds b hb).2.2

theorem reqStart_le_reqEnd (st : St) (q : Req) : reqStartOf c st q ≤ reqEndOf c st q := by
  have h := progOf_inv hr st q
  unfold reqStartOf reqEndOf
  rcases reqCtx_spans hr st q with ⟨_, hc⟩ | ⟨a, _, b, hb, hs, he, hall⟩
  · simp [hc, RCtx.empty]; exact h.t0_le
  · simp only [hs, he, Option.getD_some]
    have := (hall b hb).1
    linarith [(h.bounds b hb).2.1]

theorem progNow_le_procEnd (st : St) (q : Req) : (progOf c st q).now ≤ procEndOf c st q := by
  unfold procEndOf
  split
  · exact le_refl _
  · exact le_sleep hr _ _

theorem reqEnd_le_procEnd (st : St) (q : Req) : reqEndOf c st q ≤ procEndOf c st q :=
  le_trans (reqEnd_le_progNow hr st q) (progNow_le_procEnd hr st q)

theorem now_le_procEnd (st : St) (q : Req) : st.now ≤ procEndOf c st q :=
  le_trans (now_le_genDone hr st q) <| le_trans (genDone_le_procStart hr st q) <|
    le_trans (procStart_le_reqStart hr st q) <| le_trans (reqStart_le_reqEnd hr st q) (reqEnd_le_procEnd hr st q)

/-- a throttled request is never started before its scheduled time -/
theorem absSched_le_procStart (st : St) (q : Req) (ht : throttledOf c st q = true) :
    c.t0 + schedOf c st q ≤ procStartOf c st q := by
  unfold procStartOf
  simp only [ht, hr, if_true]
  have habs : absSchedOf c st q = c.t0 + schedOf c st q := by simp [absSchedOf, hr]
  split
  · rw [habs]; linarith
  · rw [habs] at *
    have : ¬ (0 < c.t0 + schedOf c st q - genDone c st q) := ‹_›
    linarith [not_lt.mp this]

end clock

/-! ## what reaches the endpoint does not depend on the nesting of request contexts -/

theorem runProg_log_prefix {r : Rat → Rat} (hr : ∀ x, r x = x) : ∀ (ts : List Tok) (s : PState),
    ∃ l, (runProg r ts s).log = s.log ++ l ∧ ∀ x ∈ l, s.now ≤ x.1
  | [], s => ⟨[], by simp [runProg], by simp⟩
  | .enter :: ts, s => by simp only [runProg]; exact runProg_log_prefix hr ts _
  | .exit :: ts, s => by
    simp only [runProg]
    split
    · exact runProg_log_prefix hr ts _
    · exact runProg_log_prefix hr ts _
  | .wire g sv f :: ts, s => by
    have h1 := le_sleep' hr s.now g
    have h2 := le_sleep' hr (sleep r s.now g) sv
    simp only [runProg]
    split
    · exact ⟨[(sleep r s.now g, sleep r (sleep r s.now g) sv)], rfl, by simp; exact h1⟩
    · obtain ⟨l, hl, hall⟩ := runProg_log_prefix hr ts
        ⟨sleep r (sleep r s.now g) sv, onTop (fun c => (c.onStart (sleep r s.now g)).onEnd (sleep r (sleep r s.now g) sv)) s.stack,
          s.log ++ [(sleep r s.now g, sleep r (sleep r s.now g) sv)], f⟩
      refine ⟨(sleep r s.now g, sleep r (sleep r s.now g) sv) :: l, by rw [hl]; simp, ?_⟩
      intro x hx
      rcases List.mem_cons.mp hx with rfl | hx
      · exact h1
      · exact le_trans (le_trans h1 h2) (hall x hx)
  | .par streams :: ts, s => by
    have hmax := le_foldl_ratMax (fun x : Rat × List (Rat × Rat) × Bool => x.1) (streams.map (fun ws => runStream r ws s.now [])) s.now
    have hnewb : ∀ x ∈ (streams.map (fun ws => runStream r ws s.now [])).flatMap (fun x => x.2.1), s.now ≤ x.1 := by
      intro x hx
      simp only [List.mem_flatMap, List.mem_map] at hx
      obtain ⟨rk, ⟨ws, _, rfl⟩, hx⟩ := hx
      obtain ⟨_, l, hl, hall⟩ := runStream_spec hr ws s.now []
      rw [hl] at hx
      exact (hall x (by simpa using hx)).1
    simp only [runProg]
    split
    · exact ⟨_, rfl, hnewb⟩
    · obtain ⟨l, hl, hall⟩ := runProg_log_prefix hr ts
        ⟨(streams.map (fun ws => runStream r ws s.now [])).foldl (fun m x => ratMax m x.1) s.now,
          onTop (fun c => exitAllInto c ((streams.map (fun ws => runStream r ws s.now [])).flatMap (fun x => x.2.1))) s.stack,
          s.log ++ (streams.map (fun ws => runStream r ws s.now [])).flatMap (fun x => x.2.1),
          (streams.map (fun ws => runStream r ws s.now [])).any (fun x => x.2.2)⟩
      refine ⟨(streams.map (fun ws => runStream r ws s.now [])).flatMap (fun x => x.2.1) ++ l, by rw [hl]; simp, ?_⟩
      intro x hx
      rcases List.mem_append.mp hx with hx | hx
      · exact hnewb x hx
      · exact le_trans hmax.1 (hall x hx)

/-- the wire requests of a program, context management removed -/
def flat : List Tok → List Tok
  | [] => []
  | .wire g sv f :: ts => .wire g sv f :: flat ts
  | .par ss :: ts => .par ss :: flat ts
  | _ :: ts => flat ts

/-- clock, endpoint log and failure flag are those of the flattened program, whatever the stack of contexts -/
theorem runProg_flat (r : Rat → Rat) : ∀ (ts : List Tok) (s s' : PState), s.now = s'.now → s.log = s'.log → s.failed = s'.failed →
    (runProg r ts s).now = (runProg r (flat ts) s').now ∧ (runProg r ts s).log = (runProg r (flat ts) s').log ∧
    (runProg r ts s).failed = (runProg r (flat ts) s').failed
  | [], s, s', h1, h2, h3 => ⟨h1, h2, h3⟩
  | .enter :: ts, s, s', h1, h2, h3 => by simp only [runProg, flat]; exact runProg_flat r ts _ s' h1 h2 h3
  | .exit :: ts, s, s', h1, h2, h3 => by
    simp only [runProg, flat]
    split
    · exact runProg_flat r ts _ s' h1 h2 h3
    · exact runProg_flat r ts _ s' h1 h2 h3
  | .wire g sv f :: ts, s, s', h1, h2, h3 => by
    simp only [runProg, flat, h1, h2]
    split
    · exact ⟨rfl, rfl, rfl⟩
    · exact runProg_flat r ts _ _ rfl rfl rfl
  | .par ss :: ts, s, s', h1, h2, h3 => by
    simp only [runProg, flat, h1, h2]
    split
    · exact ⟨rfl, rfl, rfl⟩
    · exact runProg_flat r ts _ _ rfl rfl rfl

section span
variable {c : Cfg} (hr : ∀ x, c.r x = x)
include hr

/-- **nesting is transparent**: the executor's request context after running a program is the one it would have if every
    wire request had been issued directly in it -/
theorem reqCtx_flat (st : St) (q : Req) :
    reqCtxOf c st q = reqCtxOf c st { q with prog := flat q.prog } ∧
    (progOf c st q).log = (progOf c st { q with prog := flat q.prog }).log ∧
    (progOf c st q).now = (progOf c st { q with prog := flat q.prog }).now := by
  have hps : procStartOf c st { q with prog := flat q.prog } = procStartOf c st q := rfl
  have h := runProg_flat c.r q.prog
    { now := procStartOf c st q, stack := [RCtx.empty], log := [], failed := false }
    { now := procStartOf c st q, stack := [RCtx.empty], log := [], failed := false } rfl rfl rfl
  refine ⟨?_, h.2.1, h.1⟩
  rw [reqCtx_eq_span hr, reqCtx_eq_span hr]
  unfold progOf
  rw [hps]
  exact congrArg spanOf h.2.1

/-- a sampled request: at least one wire request reached the endpoint; `request_start` is the instant the earliest of them was
    sent, `request_end` the instant the latest response was received -/
theorem stamps_span (st : St) (q : Req) (h : hasStamps c st q = true) :
    ∃ first ∈ (progOf c st q).log, ∃ last ∈ (progOf c st q).log,
      reqStartOf c st q = first.1 ∧ reqEndOf c st q = last.2 ∧ ∀ x ∈ (progOf c st q).log, first.1 ≤ x.1 ∧ x.2 ≤ last.2 := by
  unfold hasStamps at h
  unfold reqStartOf reqEndOf
  rcases reqCtx_spans hr st q with ⟨_, hc⟩ | ⟨a, ha, b, hb, hs, he, hall⟩
  · simp [hc, RCtx.empty] at h
  · exact ⟨a, ha, b, hb, by simp [hs], by simp [he], hall⟩

theorem reqStart_of_first_wire (st : St) (q : Req) {g sv : Rat} {f : Bool} {rest : List Tok}
    (hq : q.prog = .wire g sv f :: rest) : reqStartOf c st q = sleep c.r (procStartOf c st q) g := by
  have hsp := reqCtx_spans hr st q
  have h1 := le_sleep hr (procStartOf c st q) g
  have h2 := le_sleep hr (sleep c.r (procStartOf c st q) g) sv
  have hlog : ∃ l, (progOf c st q).log = (sleep c.r (procStartOf c st q) g, sleep c.r (sleep c.r (procStartOf c st q) g) sv) :: l ∧
      ∀ x ∈ l, sleep c.r (procStartOf c st q) g ≤ x.1 := by
    unfold progOf
    rw [hq]
    simp only [runProg]
    split
    · exact ⟨[], by simp, by simp⟩
    · obtain ⟨l, hl, hall⟩ := runProg_log_prefix hr rest
        ⟨sleep c.r (sleep c.r (procStartOf c st q) g) sv,
          onTop (fun x => (x.onStart (sleep c.r (procStartOf c st q) g)).onEnd (sleep c.r (sleep c.r (procStartOf c st q) g) sv)) [RCtx.empty],
          [] ++ [(sleep c.r (procStartOf c st q) g, sleep c.r (sleep c.r (procStartOf c st q) g) sv)], f⟩
      exact ⟨l, by rw [hl]; simp, fun x hx => le_trans h2 (hall x hx)⟩
  obtain ⟨l, hl, hall⟩ := hlog
  unfold reqStartOf
  rcases hsp with ⟨he, _⟩ | ⟨a, ha, _, _, hs, _, hmin⟩
  · rw [hl] at he; cases he
  · simp only [hs, Option.getD_some]
    rw [hl] at ha hmin
    have hfirst := (hmin _ List.mem_cons_self).1
    rcases List.mem_cons.mp ha with rfl | ha
    · rfl
    · exact le_antisymm hfirst (hall a ha)

end span

/-! ## inversion of `step` -/

theorem step_sampled_inv {c : Cfg} {st : St} {q : Req} {rec : Rec} {st' : St}
    (h : step c st q = .sampled rec st') :
    ∃ ops unit m sched',
      isSet c.cancelAt st.idx = false ∧
      executeSingle c.abort q.out = .ret ops unit m ∧
      st.sched.afterRequest c.r c.clients ops unit = .ok sched' ∧
      rec = recOf c st q ops unit m sched' ∧ st' = nextSt c st q sched' := by
  unfold step at h
  split at h
  · cases h
  · rename_i hc
    split at h
    · cases h
    · rename_i ops unit m he
      split at h
      · cases h
      · split at h
        · cases h
        · rename_i sched' ha
          injection h with h1 h2
          exact ⟨ops, unit, m, sched', by simpa using hc, he, ha, h1.symm, h2.symm⟩

/-- a request that produced a sample had both timestamps set by at least one wire request -/
theorem step_sampled_stamps {c : Cfg} {st : St} {q : Req} {rec : Rec} {st' : St}
    (h : step c st q = .sampled rec st') : hasStamps c st q = true := by
  unfold step at h
  split at h
  · cases h
  · split at h
    · cases h
    · split at h
      · cases h
      · rename_i hs; simpa using hs

/-! ## generic induction principles over `go` -/

/-- Every record of a run is produced by a `step` from a state satisfying the invariant `I`
    in which the loop control was not finished, on a request of the plan. -/
theorem go_recs_forall {c : Cfg} (I : St → Prop) (Q : Req → Prop) (P : Rec → Prop)
    (hstep : ∀ st q rec st', I st → Q q → st.loop.finished c.r = false → step c st q = .sampled rec st' → P rec ∧ I st') :
    ∀ (reqs : List Req) (st : St), I st → (∀ q ∈ reqs, Q q) → ∀ rec ∈ (go c reqs st).recs, P rec := by
  intro reqs
  induction reqs with
  | nil =>
    intro st _ _ rec hrec
    unfold go at hrec
    split at hrec <;> simp [Out.done] at hrec
  | cons q qs ih =>
    intro st hI hQ rec hrec
    unfold go at hrec
    split at hrec
    · simp [Out.done] at hrec
    · rename_i hfin
      split at hrec
      · simp at hrec
      · simp at hrec
      · rename_i rec0 st' hs
        have ⟨hP, hI'⟩ := hstep st q rec0 st' hI (hQ q List.mem_cons_self) (by simpa using hfin) hs
        split at hrec
        · simp at hrec; subst hrec; exact hP
        · simp only [List.mem_cons] at hrec
          rcases hrec with rfl | hrec
          · exact hP
          · exact ih st' hI' (fun q' hq' => hQ q' (List.mem_cons_of_mem _ hq')) rec hrec

/-- the first record of a run, if any, is produced by the first request from the start state -/
theorem go_head {c : Cfg} {q : Req} {qs : List Req} {st : St} {rec : Rec}
    (h : (go c (q :: qs) st).recs.head? = some rec) : ∃ st', step c st q = .sampled rec st' := by
  unfold go at h
  split at h
  · simp [Out.done] at h
  · split at h
    · simp at h
    · simp at h
    · rename_i rec0 st' hs
      split at h <;> simp at h <;> subst h <;> exact ⟨st', hs⟩

theorem go_nil_recs {c : Cfg} {st : St} : (go c [] st).recs = [] := by
  unfold go; split <;> rfl

/-- Neighbouring records come from two consecutive `step`s. -/
theorem go_recs_adj {c : Cfg} (I : St → Prop) (Q : Req → Prop) (R : Rec → Rec → Prop)
    (hI : ∀ st q rec st', I st → Q q → step c st q = .sampled rec st' → I st')
    (hR : ∀ st q rec st' q' rec' st'', I st → Q q → Q q' → st.loop.finished c.r = false →
      step c st q = .sampled rec st' → rec.completed = false → (st'.loop.finished c.r) = false →
      step c st' q' = .sampled rec' st'' → R rec rec') :
    ∀ (reqs : List Req) (st : St), I st → (∀ q ∈ reqs, Q q) → Adj R (go c reqs st).recs := by
  intro reqs
  induction reqs with
  | nil => intro st _ _; rw [go_nil_recs]; trivial
  | cons q qs ih =>
    intro st hIst hQ
    unfold go
    split
    · simp [Out.done]
    · rename_i hfin0
      split
      · simp
      · simp
      · rename_i rec0 st' hs
        have hI' := hI st q rec0 st' hIst (hQ q List.mem_cons_self) hs
        have hQ' : ∀ q' ∈ qs, Q q' := fun q' hq' => hQ q' (List.mem_cons_of_mem _ hq')
        split
        · simp
        · rename_i hcomp
          have ihh := ih st' hI' hQ'
          simp only
          cases hrs : (go c qs st').recs with
          | nil => simp
          | cons r1 rest =>
            rw [hrs] at ihh
            refine ⟨?_, ihh⟩
            cases qs with
            | nil => rw [go_nil_recs] at hrs; cases hrs
            | cons q' qs' =>
              have hfin : (st'.loop.finished c.r) = false := by
                by_contra hf
                have hf' : st'.loop.finished c.r = true := by simpa using hf
                unfold go at hrs
                simp [hf', Out.done] at hrs
              have hh : (go c (q' :: qs') st').recs.head? = some r1 := by rw [hrs]; rfl
              obtain ⟨st'', hs'⟩ := go_head hh
              exact hR st q rec0 st' q' r1 st'' hIst (hQ q List.mem_cons_self) (hQ' q' List.mem_cons_self)
                (by simpa using hfin0) hs (by simpa using hcomp) hfin hs'

/-! ## scheduler feedback -/

theorem mkInner_error {r : Rat → Rat} {kind : SchedKind} {tt : Rat} {cause : Cause}
    (h : mkInner r kind tt = .error cause) : cause = .zeroDivision := by
  unfold mkInner at h
  split at h
  · split at h
    · injection h with h; exact h.symm
    · cases h
  · cases h

theorem effectiveWeight_error {tp : Throughput} {w : Nat} {u : Str} {cause : Cause}
    (h : effectiveWeight tp w u = .error cause) : cause = .unitMismatch := by
  unfold effectiveWeight at h
  split at h
  · split at h
    · cases h
    · injection h with h; exact h.symm
  · cases h

theorem retarget_error {r : Rat → Rat} {clients : Nat} {kind : SchedKind} {tp : Throughput} {w : Nat} {cause : Cause}
    (h : retarget r clients kind tp w = .error cause) : cause = .zeroDivision := by
  unfold retarget at h
  split at h
  · injection h with h; exact h.symm
  · split at h
    · rename_i e hm
      injection h with h
      subst h
      exact mkInner_error hm
    · cases h

theorem afterRequest_error {r : Rat → Rat} {clients : Nat} {s : Sched} {w : Nat} {u : Str} {cause : Cause}
    (h : s.afterRequest r clients w u = .error cause) : cause = .unitMismatch ∨ cause = .zeroDivision := by
  unfold Sched.afterRequest at h
  split at h
  · cases h
  · split at h
    · split at h
      · rename_i e he
        injection h with h
        subst h
        exact Or.inl (effectiveWeight_error he)
      · exact Or.inr (retarget_error h)
    · cases h

/-! ## shape of a run: records, tuples, wire log -/

def raisedCount : Stop → Nat
  | .raised _ => 1
  | _ => 0

def unsampledTuples : Stop → Nat
  | .raised _ => 1
  | .cancelled => 1
  | _ => 0

theorem go_shape (c : Cfg) : ∀ (reqs : List Req) (st : St),
    (go c reqs st).recs.map (·.wires) = (go c reqs st).wire.take (go c reqs st).recs.length ∧
    (go c reqs st).recs.map (·.tup) = (go c reqs st).tuples.take (go c reqs st).recs.length ∧
    (go c reqs st).wire.length = (go c reqs st).recs.length + raisedCount (go c reqs st).stop ∧
    (go c reqs st).tuples.length = (go c reqs st).recs.length + unsampledTuples (go c reqs st).stop := by
  intro reqs
  induction reqs with
  | nil => intro st; unfold go; split <;> simp [Out.done, raisedCount, unsampledTuples]
  | cons q qs ih =>
    intro st
    unfold go
    split
    · simp [Out.done, raisedCount, unsampledTuples]
    · split
      · simp [raisedCount, unsampledTuples]
      · simp [raisedCount, unsampledTuples]
      · rename_i rec0 st' hs
        split
        · simp [raisedCount, unsampledTuples]
        · have ⟨h1, h2, h3, h4⟩ := ih st'
          simp only [List.map_cons, List.length_cons, List.take_succ_cons]
          refine ⟨by rw [h1], by rw [h2], by omega, by omega⟩

/-- the records of a run pair up, in order, with a prefix of the plan; `rest` is what is left -/
inductive Consumed (P : Req → Rec → Prop) : List Req → List Rec → List Req → Prop
  | nil (rest : List Req) : Consumed P rest [] rest
  | cons {q : Req} {reqs : List Req} {rec : Rec} {recs : List Rec} {rest : List Req} :
      P q rec → Consumed P reqs recs rest → Consumed P (q :: reqs) (rec :: recs) rest

theorem Consumed.length_le {P : Req → Rec → Prop} {reqs : List Req} {recs : List Rec} {rest : List Req}
    (h : Consumed P reqs recs rest) : reqs.length = recs.length + rest.length := by
  induction h with
  | nil rest => simp
  | cons _ _ ih => simp [ih]; omega

theorem Consumed.append {P : Req → Rec → Prop} {reqs : List Req} {recs : List Rec} {rest : List Req}
    (h : Consumed P reqs recs rest) : ∃ pre, reqs = pre ++ rest ∧ pre.length = recs.length := by
  induction h with
  | nil rest => exact ⟨[], rfl, rfl⟩
  | @cons q _ _ _ _ _ _ ih =>
    obtain ⟨pre, h1, h2⟩ := ih
    exact ⟨q :: pre, by simp [h1], by simp [h2]⟩

theorem Consumed.forall_rec {P : Req → Rec → Prop} {reqs : List Req} {recs : List Rec} {rest : List Req}
    (h : Consumed P reqs recs rest) : ∀ rec ∈ recs, ∃ q ∈ reqs, P q rec := by
  induction h with
  | nil rest => intro rec hrec; cases hrec
  | @cons q _ rec0 _ _ hp _ ih =>
    intro rec hrec
    rcases List.mem_cons.mp hrec with rfl | hrec
    · exact ⟨q, List.mem_cons_self, hp⟩
    · obtain ⟨q', hq', hp'⟩ := ih rec hrec
      exact ⟨q', List.mem_cons_of_mem _ hq', hp'⟩

/-- what `execute_single` + `Sampler.add` make of a plan entry -/
def Produces (c : Cfg) (q : Req) (rec : Rec) : Prop :=
  ∃ ops unit m, executeSingle c.abort q.out = .ret ops unit m ∧
    rec.sample.ops = ops ∧ rec.sample.unit = unit ∧ rec.sample.success = m.success ∧
    rec.sample.throughput = m.throughput ∧ rec.sample.errorType = m.errorType ∧ rec.sample.httpStatus = m.httpStatus

/-- Why a run ended, in terms of the plan: every record comes from the plan entry at its position;
    a run that raised did so on the first entry without a record; an exhausted source means that
    every entry has a record. -/
theorem go_consumed (c : Cfg) : ∀ (reqs : List Req) (st : St),
    ∃ rest, Consumed (Produces c) reqs (go c reqs st).recs rest ∧
      ((go c reqs st).stop = .sourceExhausted → rest = []) ∧
      (∀ cause, (go c reqs st).stop = .raised cause → ∃ q rest', rest = q :: rest' ∧
        (executeSingle c.abort q.out = .raise cause ∨ cause = .unitMismatch ∨ cause = .zeroDivision ∨ cause = .noTimestamps)) := by
  intro reqs
  induction reqs with
  | nil =>
    intro st
    refine ⟨[], ?_, fun _ => rfl, ?_⟩
    · rw [go_nil_recs]; exact Consumed.nil _
    · intro cause h; unfold go at h; split at h <;> simp [Out.done] at h
  | cons q qs ih =>
    intro st
    unfold go
    split
    · exact ⟨q :: qs, Consumed.nil _, by simp [Out.done], by simp [Out.done]⟩
    · split
      · exact ⟨q :: qs, Consumed.nil _, by simp, by simp⟩
      · rename_i cause tup w now hs
        refine ⟨q :: qs, Consumed.nil _, by simp, ?_⟩
        intro cause' hc
        simp at hc
        subst hc
        refine ⟨q, qs, rfl, ?_⟩
        unfold step at hs
        split at hs
        · cases hs
        · split at hs
          · injection hs with h1; left; rw [← h1]; assumption
          · split at hs
            · injection hs with h1; right; right; right; exact h1.symm
            · split at hs
              · rename_i cause2 hcause2
                injection hs with h1
                subst h1
                right
                rcases afterRequest_error hcause2 with h | h
                · exact Or.inl h
                · exact Or.inr (Or.inl h)
              · cases hs
      · rename_i rec0 st' hs
        obtain ⟨ops, unit, m, sched', _, he, _, hrec, _⟩ := step_sampled_inv hs
        have hprod : Produces c q rec0 := ⟨ops, unit, m, he, by simp [hrec, recOf, sampleOf]⟩
        split
        · exact ⟨qs, Consumed.cons hprod (Consumed.nil _), by simp, by simp⟩
        · obtain ⟨rest, h1, h2, h3⟩ := ih st'
          exact ⟨rest, Consumed.cons hprod h1, h2, h3⟩

/-! ## the sampler queue -/

theorem foldl_samplerAdd (cap : Nat) : ∀ (l acc : List Sample), acc.length ≤ cap →
    l.foldl (samplerAdd cap) acc = acc ++ l.take (cap - acc.length) := by
  intro l
  induction l with
  | nil => intro acc _; simp
  | cons s l ih =>
    intro acc hacc
    simp only [List.foldl_cons]
    have hs : samplerAdd cap acc s = if acc.length < cap then acc ++ [s] else acc := rfl
    rw [hs]
    split
    · rename_i hlt
      rw [ih _ (by simp; omega)]
      have : cap - acc.length = (cap - (acc ++ [s]).length) + 1 := by simp; omega
      rw [this, List.take_succ_cons]
      simp
    · rename_i hge
      rw [ih _ hacc]
      have : cap - acc.length = 0 := by omega
      simp [this]

/-- without a concurrent reader the bounded queue keeps exactly the first `cap` samples -/
theorem drain_eq_take (cap : Nat) (l : List Sample) : drain cap l = l.take cap := by
  unfold drain
  rw [foldl_samplerAdd cap l [] (Nat.zero_le _)]
  simp

/-! ## the sampler queue with a concurrent reader -/

/-- the sampler owns exactly one queue object: `self.q` is bound once -/
def SOne {α : Type} (st : SState α) : Prop := st.cur = 0 ∧ st.ref = 0 ∧ ∃ q, st.queues = [q]

/-- everything the sampler has been given and not lost: drained batches, the queue, reported drops -/
def SState.content {α : Type} (st : SState α) : List α := st.batches.flatten ++ st.queues.getD st.cur [] ++ st.dropped

theorem sstep_one {α : Type} (cap : Nat) (st : SState α) (e : SEv α) (h : SOne st) : SOne (sstep cap st e) := by
  obtain ⟨h1, h2, q, h3⟩ := h
  cases e with
  | evalPut => exact ⟨h1, h1, q, h3⟩
  | build => exact ⟨h1, h2, q, h3⟩
  | call s =>
    simp only [sstep]
    split
    · exact ⟨h1, h2, q ++ [s], by simp [h2, h3]⟩
    · exact ⟨h1, h2, q, h3⟩
  | drain => exact ⟨h1, h2, [], by simp [sstep, h1, h3]⟩

theorem sstep_content {α : Type} (cap : Nat) (st : SState α) (e : SEv α) (h : SOne st) :
    List.Perm (sstep cap st e).content (st.content ++ calls [e]) := by
  obtain ⟨h1, h2, q, h3⟩ := h
  cases e with
  | evalPut => simp [sstep, calls, SState.content]
  | build => simp [sstep, calls, SState.content]
  | call s =>
    simp only [sstep]
    split
    · simp only [SState.content, calls, h1, h2, h3, List.getD_cons_zero, List.set_cons_zero, List.append_assoc]
      apply List.Perm.append_left
      apply List.Perm.append_left
      exact List.perm_append_comm
    · simp [SState.content, calls]
  | drain =>
    simp [sstep, calls, SState.content, h1, h3]

/-- **conservation under every interleaving**: whatever sequence of micro-steps of `add` and drains of the other thread,
    every sample handed to `put_nowait` is — exactly once — in a drained batch, still queued, or a reported drop -/
theorem srun_content {α : Type} (cap : Nat) : ∀ (es : List (SEv α)) (st : SState α), SOne st →
    List.Perm (srun cap es st).content (st.content ++ calls es)
  | [], st, _ => by simp [srun, calls]
  | e :: es, st, h => by
    have h1 := srun_content cap es (sstep cap st e) (sstep_one cap st e h)
    have h2 := sstep_content cap st e h
    simp only [srun]
    refine h1.trans ?_
    have h3 : calls (e :: es) = calls [e] ++ calls es := by cases e <;> simp [calls]
    rw [h3, ← List.append_assoc]
    exact List.Perm.append_right _ h2

/-! ## the sampler by numbers -/

/-- `n` complete `Sampler.add` calls / one drain, as micro-step events -/
def expandBulk : List SBulk → List (SEv Unit)
  | [] => []
  | .adds n :: es => (List.replicate n [SEv.evalPut, SEv.build, SEv.call ()]).flatten ++ expandBulk es
  | .drain :: es => SEv.drain :: expandBulk es

/-- the numbers of a sampler state -/
def SState.counts {α : Type} (st : SState α) : SCount :=
  ⟨(st.queues.getD st.cur []).length, st.batches.map List.length, st.dropped.length⟩

theorem addsCount_succ (cap : Nat) (st : SCount) (n : Nat) :
    addsCount cap (addsCount cap st 1) n = addsCount cap st (n + 1) := by
  unfold addsCount
  simp only
  split <;> split <;> split <;> simp_all <;> omega

theorem addsCount_zero (cap : Nat) (st : SCount) (h : st.queue ≤ cap) : addsCount cap st 0 = st := by
  unfold addsCount; simp

theorem addsCount_queue_le (cap : Nat) (st : SCount) (n : Nat) (h : st.queue ≤ cap) : (addsCount cap st n).queue ≤ cap := by
  unfold addsCount
  dsimp only
  split
  · simp only; omega
  · simp

theorem add_counts {α : Type} (cap : Nat) (st : SState α) (x : α) (h : SOne st) (hle : (st.queues.getD st.cur []).length ≤ cap) :
    (srun cap [SEv.evalPut, SEv.build, SEv.call x] st).counts = addsCount cap st.counts 1 ∧ SOne (srun cap [SEv.evalPut, SEv.build, SEv.call x] st) := by
  obtain ⟨h1, h2, q, h3⟩ := h
  refine ⟨?_, sstep_one cap _ _ (sstep_one cap _ _ (sstep_one cap _ _ ⟨h1, h2, q, h3⟩))⟩
  simp only [h1, h3, List.getD_cons_zero] at hle
  simp only [srun, sstep, SState.counts, addsCount, h1, h3, List.getD_cons_zero]
  by_cases hq : q.length < cap
  · have : 1 ≤ cap - q.length := by omega
    simp [hq, this, h1]
  · have : ¬ 1 ≤ cap - q.length := by omega
    simp [hq, this, h1]
    omega

theorem adds_counts {α : Type} (cap : Nat) (x : α) : ∀ (n : Nat) (st : SState α), SOne st → (st.queues.getD st.cur []).length ≤ cap →
    (srun cap (List.replicate n [SEv.evalPut, SEv.build, SEv.call x]).flatten st).counts = addsCount cap st.counts n ∧
    SOne (srun cap (List.replicate n [SEv.evalPut, SEv.build, SEv.call x]).flatten st)
  | 0, st, h, hle => by simp [srun, addsCount_zero cap st.counts (by simpa [SState.counts] using hle), h]
  | n + 1, st, h, hle => by
    have ⟨h1, h2⟩ := add_counts cap st x h hle
    have hle' : ((srun cap [SEv.evalPut, SEv.build, SEv.call x] st).queues.getD (srun cap [SEv.evalPut, SEv.build, SEv.call x] st).cur []).length ≤ cap := by
      have := congrArg SCount.queue h1
      have h5 := addsCount_queue_le cap st.counts 1 (by simpa [SState.counts] using hle)
      rw [← this] at h5
      simpa [SState.counts] using h5
    have ⟨h3, h4⟩ := adds_counts cap x n _ h2 hle'
    have hrun : srun cap (List.replicate (n + 1) [SEv.evalPut, SEv.build, SEv.call x]).flatten st =
        srun cap (List.replicate n [SEv.evalPut, SEv.build, SEv.call x]).flatten (srun cap [SEv.evalPut, SEv.build, SEv.call x] st) := by
      simp [List.replicate_succ, srun]
    rw [hrun]
    exact ⟨by rw [h3, h1, addsCount_succ], h4⟩

theorem srun_append {α : Type} (cap : Nat) : ∀ (a b : List (SEv α)) (st : SState α), srun cap (a ++ b) st = srun cap b (srun cap a st)
  | [], _, _ => rfl
  | e :: a, b, st => by simp only [List.cons_append, srun]; exact srun_append cap a b _

/-- the count model is the micro-step model seen through `counts` -/
theorem sbulk_counts (cap : Nat) : ∀ (es : List SBulk) (st : SState Unit), SOne st → (st.queues.getD st.cur []).length ≤ cap →
    (srun cap (expandBulk es) st).counts = es.foldl (sbulkStep cap) st.counts
  | [], st, _, _ => rfl
  | .adds n :: es, st, h, hle => by
    have ⟨h1, h2⟩ := adds_counts cap () n st h hle
    simp only [expandBulk, srun_append, List.foldl_cons, sbulkStep]
    have hle' : ((srun cap (List.replicate n [SEv.evalPut, SEv.build, SEv.call ()]).flatten st).queues.getD
        (srun cap (List.replicate n [SEv.evalPut, SEv.build, SEv.call ()]).flatten st).cur []).length ≤ cap := by
      have := congrArg SCount.queue h1
      have h5 := addsCount_queue_le cap st.counts n (by simpa [SState.counts] using hle)
      rw [← this] at h5
      simpa [SState.counts] using h5
    rw [sbulk_counts cap es _ h2 hle', h1]
  | .drain :: es, st, h, hle => by
    obtain ⟨h1, h2, q, h3⟩ := h
    simp only [expandBulk, srun, List.foldl_cons, sbulkStep]
    have hone : SOne (sstep cap st SEv.drain) := sstep_one cap st _ ⟨h1, h2, q, h3⟩
    rw [sbulk_counts cap es _ hone (by simp [sstep, h1, h3])]
    congr 1
    simp [sstep, SState.counts, h1, h3]

/-! ## reading loop-control keys -/

theorem mapM_option_zip {α β : Type} (f : α → Option β) : ∀ (ts : List α) (vs : List β), ts.mapM f = some vs →
    vs.length = ts.length ∧ ∀ p ∈ ts.zip vs, f p.1 = some p.2
  | [], vs, h => by
    simp at h; subst h; simp
  | t :: ts, vs, h => by
    rw [List.mapM_cons] at h
    cases hf : f t with
    | none => simp [hf] at h
    | some v =>
      cases hr : ts.mapM f with
      | none => simp [hf, hr] at h
      | some vs' =>
        simp [hf, hr] at h
        subst h
        have ⟨h1, h2⟩ := mapM_option_zip f ts vs' hr
        refine ⟨by simp [h1], ?_⟩
        intro p hp
        simp only [List.zip_cons_cons, List.mem_cons] at hp
        rcases hp with rfl | hp
        · exact hf
        · exact h2 p hp

/-- an accepted task has, for every key, its own spelling if there is one and the element's value otherwise -/
theorem parseTaskLoop_vals {par task : LoopSpec} {v : LoopVals} (h : parseTaskLoop par task = some v) :
    v = { warmupIt := readKey task.warmupIt (parallelDefault par.warmupIt), iters := readKey task.iters (parallelDefault par.iters),
          warmupT := readKey task.warmupT (parallelDefault par.warmupT), period := readKey task.period (parallelDefault par.period),
          rampUp := readKey task.rampUp (parallelDefault par.rampUp) } := by
  unfold parseTaskLoop at h
  dsimp only at h
  split at h
  · cases h
  · split at h
    · cases h
    · split at h
      · cases h
      · split at h
        · injection h with h; exact h.symm
        · split at h
          · cases h
          · split at h
            · cases h
            · injection h with h; exact h.symm

/-! ## one client's run, all inputs bundled -/

/-- A successful set-up of one client's run: every field is an arbitrary input, `exact` says the
    arithmetic is exact (`r = id`), `ok` ties `f` to the model's output. -/
structure Run where
  c : Cfg
  t : TaskP
  tt : PVal
  ti : PVal
  gidx : Nat
  total : Nat
  srcInfinite : Bool
  cap : Nat
  reqs : List Req
  f : Final
  exact : ∀ x, c.r x = x
  ok : runClient c t tt ti gidx total srcInfinite cap reqs = .ok f

/-- state in which the main loop is entered -/
def Run.st0 (R : Run) (sched : Sched) : St :=
  { now := sleep R.c.r R.c.t0 R.f.rampWait, sched := sched, loop := R.f.loop0, nextSched := 0, idx := 0 }

theorem Run.inv (R : Run) :
    ∃ tp sched, targetThroughput R.c.r R.tt R.ti = .ok tp ∧ schedulerFor tp R.t.sched = .ok sched ∧
      rampUpWait R.c.r R.t.rampUp R.gidx R.total = .ok R.f.rampWait ∧
      R.f.loop0 = scheduleLoop R.c.r R.t R.c.hasCompletion R.srcInfinite R.c.t0 ∧
      R.f.out = go R.c R.reqs (R.st0 sched) ∧
      R.f.samples = (R.f.out.recs.map (·.sample)).take R.cap := by
  have h := R.ok
  unfold runClient at h
  split at h
  · cases h
  · rename_i tp htp
    split at h
    · cases h
    · rename_i sched hs
      split at h
      · cases h
      · rename_i wait hw
        injection h with h
        refine ⟨tp, sched, htp, hs, ?_, ?_, ?_, ?_⟩
        · rw [← h]; exact hw
        · rw [← h]
        · simp only [Run.st0, ← h]
        · rw [← h]; simp [drain_eq_take]

/-! ## request indices -/

theorem go_recs_idx (c : Cfg) : ∀ (reqs : List Req) (st : St),
    (go c reqs st).recs.map (·.idx) = List.range' st.idx (go c reqs st).recs.length := by
  intro reqs
  induction reqs with
  | nil => intro st; rw [go_nil_recs]; rfl
  | cons q qs ih =>
    intro st
    unfold go
    split
    · simp [Out.done]
    · split
      · simp
      · simp
      · rename_i rec0 st' hs
        obtain ⟨ops, unit, m, sched', _, _, _, hrec, hst'⟩ := step_sampled_inv hs
        have h0 : rec0.idx = st.idx := by rw [hrec]; rfl
        have h1 : st'.idx = st.idx + 1 := by rw [hst']; rfl
        split
        · simp [h0]
        · simp only [List.map_cons, List.length_cons, List.range'_succ, ih st', h0, h1]

/-! ## iteration-based loop control -/

/-- the loop control is `IterationBased(w, total - w)` and has counted exactly the requests made so far -/
def IterInv (w total : Nat) (st : St) : Prop := st.loop = .iter w (some total) st.idx

theorem IterInv.next {w total : Nat} {c : Cfg} {st : St} {q : Req} {sched' : Sched} (h : IterInv w total st) :
    IterInv w total (nextSt c st q sched') := by
  unfold IterInv at *
  simp [nextSt, h, Loop.next]

theorem IterInv.finished {w total : Nat} {st : St} (r : Rat → Rat) (h : IterInv w total st) :
    st.loop.finished r = decide (total ≤ st.idx) := by
  unfold IterInv at h
  simp [Loop.finished, Loop.infinite, Loop.completed, h]

theorem go_iter_count {c : Cfg} {w total : Nat} : ∀ (reqs : List Req) (st : St), IterInv w total st → st.idx ≤ total →
    st.idx + (go c reqs st).recs.length ≤ total ∧
    ((go c reqs st).stop = .loopDone → st.idx + (go c reqs st).recs.length = total) ∧
    ((go c reqs st).stop = .sourceExhausted → st.idx + reqs.length < total) := by
  intro reqs
  induction reqs with
  | nil =>
    intro st hI hle
    have hf := hI.finished c.r
    unfold go
    split
    · rename_i h; rw [hf] at h; simp [Out.done] at *; omega
    · rename_i h; rw [hf] at h; simp [Out.done] at *; omega
  | cons q qs ih =>
    intro st hI hle
    have hf := hI.finished c.r
    unfold go
    split
    · rename_i h; rw [hf] at h; simp [Out.done] at *; omega
    · rename_i h
      rw [hf] at h
      have hlt : st.idx < total := by simpa using h
      split
      · simp; omega
      · simp; omega
      · rename_i rec0 st' hs
        obtain ⟨ops, unit, m, sched', _, _, _, _, hst'⟩ := step_sampled_inv hs
        have hI' : IterInv w total st' := hst' ▸ hI.next
        have h1 : st'.idx = st.idx + 1 := by rw [hst']; rfl
        split
        · simp; omega
        · have ⟨a, b, d⟩ := ih st' hI' (by omega)
          simp only [List.length_cons]
          refine ⟨by omega, fun hh => ?_, fun hh => ?_⟩
          · have := b hh; omega
          · have := d hh; omega

/-! ## time-based loop control -/

/-- the loop control is `TimePeriodBased(w, dur - w)` started at `t0`; its clock `x` was read no later than now -/
def TimeInv (c : Cfg) (w dur : Rat) (st : St) : Prop := ∃ x, st.loop = .time w (some dur) c.t0 x ∧ x ≤ st.now

theorem TimeInv.next {c : Cfg} (_hr : ∀ x, c.r x = x) {w dur : Rat} {st : St} {q : Req} {sched' : Sched}
    (h : TimeInv c w dur st) : TimeInv c w dur (nextSt c st q sched') := by
  obtain ⟨x, hx, _⟩ := h
  exact ⟨procEndOf c st q, by simp [nextSt, hx, Loop.next], le_refl _⟩

theorem time_finished {c : Cfg} (hr : ∀ x, c.r x = x) {w dur s x : Rat} {l : Loop} (h : l = .time w (some dur) s x) :
    l.finished c.r = decide (s + dur ≤ x) := by
  simp [Loop.finished, Loop.infinite, Loop.completed, h, hr]

/-- a time-based run that ends because of its loop control ends at or after the deadline -/
theorem go_time_end {c : Cfg} (hr : ∀ x, c.r x = x) {w dur : Rat} : ∀ (reqs : List Req) (st : St), TimeInv c w dur st →
    (go c reqs st).stop = .loopDone → c.t0 + dur ≤ (go c reqs st).endClock := by
  intro reqs
  induction reqs with
  | nil =>
    intro st ⟨x, hx, hle⟩
    have hf := time_finished hr hx
    unfold go
    split
    · rename_i h; rw [hf] at h; intro _; simp [Out.done]; have : c.t0 + dur ≤ x := by simpa using h
      linarith
    · intro h; simp [Out.done] at h
  | cons q qs ih =>
    intro st hI
    obtain ⟨x, hx, hle⟩ := hI
    have hf := time_finished hr hx
    unfold go
    split
    · rename_i h; rw [hf] at h; intro _; simp [Out.done]; have : c.t0 + dur ≤ x := by simpa using h
      linarith
    · split
      · intro h; simp at h
      · intro h; simp at h
      · rename_i rec0 st' hs
        obtain ⟨ops, unit, m, sched', _, _, _, _, hst'⟩ := step_sampled_inv hs
        have hI' : TimeInv c w dur st' := hst' ▸ TimeInv.next hr ⟨x, hx, hle⟩
        split
        · intro h; simp at h
        · exact ih st' hI'

/-- if no neighbour-with-a-successor satisfies `p`, at most the last element does -/
theorem adj_filter_le_one {α : Type} (p : α → Bool) : ∀ (l : List α), Adj (fun a _ => p a = false) l → (l.filter p).length ≤ 1
  | [], _ => by simp
  | [a], _ => by simp [List.filter]; split <;> simp
  | a :: b :: l, ⟨h1, h2⟩ => by
    have := adj_filter_le_one p (b :: l) h2
    rw [List.filter_cons_of_neg (by simp [h1])]
    exact this

/-! ## progress -/

theorem progressOf_noRunner {c : Cfg} {st : St} {q : Req} (h : c.hasCompletion = false ∨ q.rp = none) :
    progressOf c st q = if completedOf c st q then some 1 else pcOf c st q := by
  unfold progressOf
  rcases h with h | h <;> simp [h]

theorem progressOf_completed {c : Cfg} {st : St} {q : Req} (h : completedOf c st q = true) :
    progressOf c st q = some 1 := by
  unfold progressOf; simp [h]

/-- a run that ends with `completed` ends with a record whose `completed` flag is set -/
theorem go_completed_last {c : Cfg} (P : Rec → Prop)
    (hstep : ∀ st q rec st', step c st q = .sampled rec st' → rec.completed = true → P rec) :
    ∀ (reqs : List Req) (st : St), (go c reqs st).stop = .completed →
      ∃ rec, (go c reqs st).recs.getLast? = some rec ∧ P rec := by
  intro reqs
  induction reqs with
  | nil => intro st h; unfold go at h; split at h <;> simp [Out.done] at h
  | cons q qs ih =>
    intro st h
    unfold go at h ⊢
    split
    · rename_i hf; simp [hf, Out.done] at h
    · rename_i hf
      simp only [hf] at h
      split
      · rename_i hs; simp [hs] at h
      · rename_i hs; simp [hs] at h
      · rename_i rec0 st' hs
        simp only [hs] at h
        split
        · rename_i hc
          exact ⟨rec0, by simp, hstep st q rec0 st' hs hc⟩
        · rename_i hc
          simp only [hc] at h
          obtain ⟨rec, h1, h2⟩ := ih st' (by simpa using h)
          refine ⟨rec, ?_, h2⟩
          simp only
          rw [List.getLast?_cons]
          simp [h1]

/-! ## pacing -/

theorem mkInner_ok {r : Rat → Rat} {kind : SchedKind} {tt : Rat} {i : Inner} (h : mkInner r kind tt = .ok i) :
    (kind = .deterministic ∧ i = .det (r (1 / tt))) ∨ (kind = .poisson ∧ i = .poi tt) := by
  unfold mkInner at h
  split at h
  · split at h
    · cases h
    · injection h with h; exact Or.inl ⟨rfl, h.symm⟩
  · injection h with h; exact Or.inr ⟨rfl, h.symm⟩

/-- what a successful `after_request` does: nothing, or a re-targeting with the effective weight -/
theorem afterRequest_ok {r : Rat → Rat} {clients : Nat} {s s' : Sched} {weight : Nat} {unit : Str}
    (h : s.afterRequest r clients weight unit = .ok s') :
    (s' = s ∧ (s = .plain ∨ ∃ kind tp first cw inner, s = .unitAware kind tp first cw inner ∧
        ¬ (0 < weight ∧ (first = true ∨ cw ≠ some weight)))) ∨
    ∃ kind tp first cw inner w' i, s = .unitAware kind tp first cw inner ∧ 0 < weight ∧ (first = true ∨ cw ≠ some weight) ∧
      effectiveWeight tp weight unit = .ok w' ∧ clients ≠ 0 ∧
      mkInner r kind (r (r (tp.value / (clients : Rat)) / (w' : Rat))) = .ok i ∧
      s' = .unitAware kind tp false (some w') i := by
  unfold Sched.afterRequest at h
  split at h
  · injection h with h; exact Or.inl ⟨h.symm, Or.inl rfl⟩
  · rename_i kind tp first cw inner
    split at h
    · rename_i hc
      right
      split at h
      · cases h
      · rename_i w' hw
        unfold retarget at h
        split at h
        · cases h
        · rename_i hcl
          split at h
          · cases h
          · rename_i i hi
            injection h with h
            refine ⟨kind, tp, first, cw, inner, w', i, rfl, ?_, ?_, hw, hcl, hi, h.symm⟩
            · simp at hc; exact hc.1
            · simp at hc; rcases hc.2 with h1 | h1
              · exact Or.inl h1
              · exact Or.inr h1
    · rename_i hc
      injection h with h
      refine Or.inl ⟨h.symm, Or.inr ⟨kind, tp, first, cw, inner, rfl, ?_⟩⟩
      intro ⟨h1, h2⟩
      apply hc
      simp [h1]
      rcases h2 with h2 | h2
      · exact Or.inl h2
      · exact Or.inr h2

theorem schedulerFor_ok {tp : Option Throughput} {name : Option Str} {s : Sched} (h : schedulerFor tp name = .ok s) :
    s = .plain ∨ ∃ kind t, tp = some t ∧ s = .unitAware kind t true none .unthrottled ∧
      (kind = .deterministic ↔ name.getD detName = detName) := by
  unfold schedulerFor at h
  split at h
  · injection h with h; exact Or.inl h.symm
  · dsimp only at h
    cases tp with
    | none => cases h
    | some t =>
      dsimp only at h
      by_cases hn : (name.getD detName == detName) = true
      · rw [if_pos hn] at h
        injection h with h
        exact Or.inr ⟨.deterministic, t, rfl, h.symm, by simpa using hn⟩
      · rw [if_neg hn] at h
        by_cases hp : (name.getD detName == poiName) = true
        · rw [if_pos hp] at h
          injection h with h
          exact Or.inr ⟨.poisson, t, rfl, h.symm, by simpa using hn⟩
        · rw [if_neg hp] at h
          cases h

theorem schedulerFor_inner {tp : Option Throughput} {name : Option Str} {s : Sched} (h : schedulerFor tp name = .ok s) :
    s.inner = .unthrottled := by
  rcases schedulerFor_ok h with rfl | ⟨_, _, _, rfl, _⟩ <;> rfl

/-- scheduled times are non-negative, stay 0 while unthrottled, waits are non-negative -/
def SchedInv (st : St) : Prop :=
  0 ≤ st.nextSched ∧ (st.sched.inner = .unthrottled → st.nextSched = 0) ∧
  (∀ w, st.sched.inner = .det w → 0 ≤ w) ∧
  (∀ kind tp first cw inner, st.sched = .unitAware kind tp first cw inner → 0 ≤ tp.value)

theorem schedOf_ge {c : Cfg} (hr : ∀ x, c.r x = x) {st : St} {q : Req} (h : SchedInv st) (hd : 0 ≤ q.draw) :
    st.nextSched ≤ schedOf c st q ∧ 0 ≤ schedOf c st q ∧ (st.sched.inner = .unthrottled → schedOf c st q = 0) := by
  obtain ⟨h1, h2, h3, _⟩ := h
  unfold schedOf Sched.next
  cases hi : st.sched.inner with
  | unthrottled => simp [Inner.next, h2 hi]
  | det w => have := h3 w hi; simp [Inner.next, hr]; constructor <;> linarith
  | poi rate => simp [Inner.next, hr]; constructor <;> linarith

theorem schedInv_step {c : Cfg} (hr : ∀ x, c.r x = x) {st st' : St} {q : Req} {rec : Rec} (h : SchedInv st) (hd : 0 ≤ q.draw)
    (hs : step c st q = .sampled rec st') : SchedInv st' := by
  obtain ⟨ops, unit, m, sched', _, _, ha, _, hst'⟩ := step_sampled_inv hs
  have ⟨hge, hnn, hun⟩ := schedOf_ge hr h hd
  obtain ⟨h1, h2, h3, h4⟩ := h
  subst hst'
  rcases afterRequest_ok ha with ⟨heq, _⟩ | ⟨kind, tp, first, cw, inner, w', i, hsch, _, _, _, _, hi, hs'⟩
  · subst heq
    exact ⟨hnn, hun, h3, h4⟩
  · have htp := h4 _ _ _ _ _ hsch
    refine ⟨hnn, ?_, ?_, ?_⟩
    · intro hin
      simp only [nextSt, hs', Sched.inner] at hin
      rcases mkInner_ok hi with ⟨_, rfl⟩ | ⟨_, rfl⟩ <;> cases hin
    · intro w hw
      simp only [nextSt, hs', Sched.inner] at hw
      rcases mkInner_ok hi with ⟨_, rfl⟩ | ⟨_, rfl⟩
      · injection hw with hw
        rw [← hw]
        simp only [hr]
        apply div_nonneg (by norm_num)
        exact div_nonneg (div_nonneg htp (Nat.cast_nonneg _)) (Nat.cast_nonneg _)
      · cases hw
    · intro kind' tp' first' cw' inner' heq
      simp only [nextSt, hs'] at heq
      injection heq with _ htp' _ _ _
      rw [← htp']; exact htp

/-! ## `Task.target_throughput`: the regular expression -/

theorem takeWhile_append_stop {p : Char → Bool} : ∀ (l : Str) (a : Char) (t : Str), (∀ x ∈ l, p x = true) → p a = false →
    (l ++ a :: t).takeWhile p = l ∧ (l ++ a :: t).dropWhile p = a :: t := by
  intro l
  induction l with
  | nil => intro a t _ ha; simp [ha]
  | cons x xs ih =>
    intro a t hl ha
    have hx : p x = true := hl x List.mem_cons_self
    have := ih a t (fun y hy => hl y (List.mem_cons_of_mem _ hy)) ha
    simp [hx, this.1, this.2]

theorem takeWhile_all {p : Char → Bool} : ∀ (l : Str), ∀ x ∈ l.takeWhile p, p x = true := by
  intro l
  induction l with
  | nil => intro x hx; simp at hx
  | cons a as ih =>
    intro x hx
    simp only [List.takeWhile] at hx
    split at hx
    · rename_i ha
      rcases List.mem_cons.mp hx with rfl | hx
      · exact ha
      · exact ih x hx
    · cases hx

theorem dropWhile_head {p : Char → Bool} : ∀ (l : Str) (a : Char) (t : Str), l.dropWhile p = a :: t → p a = false := by
  intro l
  induction l with
  | nil => intro a t h; simp at h
  | cons x xs ih =>
    intro a t h
    simp only [List.dropWhile] at h
    split at h
    · exact ih a t h
    · rename_i hx
      injection h with h1 _
      rw [← h1]; simpa using hx

def Digits (ds : Str) : Prop := ∀ ch ∈ ds, isDigit ch = true
def Word (w : Str) : Prop := ∀ ch ∈ w, isWord ch = true

/-- decimal numerals `d+` and `d*.d+` with their exact value -/
inductive IsNumber : Str → Rat → Prop
  | int (d : Str) : d ≠ [] → Digits d → IsNumber d (digitsVal d : Rat)
  | frac (d1 d2 : Str) : d2 ≠ [] → Digits d1 → Digits d2 →
      IsNumber (d1 ++ '.' :: d2) ((digitsVal d1 : Rat) + (digitsVal d2 : Rat) / ((10 ^ d2.length : Nat) : Rat))

theorem isDigit_dot : isDigit '.' = false := by decide
theorem isWord_slash : isWord '/' = false := by decide

theorem isSpace_not_digit {c : Char} (h : isSpace c = true) : isDigit c = false ∧ c ≠ '.' := by
  constructor
  · simp only [isSpace, isDigit, Bool.or_eq_true, Bool.and_eq_true, decide_eq_true_eq, beq_iff_eq] at h ⊢
    simp only [Bool.and_eq_false_iff, decide_eq_false_iff_not]
    omega
  · intro hc; subst hc; revert h; decide

theorem matchNumber_sound {s : Str} {v : Rat} {a : Char} {t : Str} (h : matchNumber s = some (v, a :: t)) :
    ∃ num, s = num ++ a :: t ∧ IsNumber num v := by
  unfold matchNumber at h
  have hs := (List.takeWhile_append_dropWhile (p := isDigit) (l := s)).symm
  split at h
  · rename_i rest2 hd
    dsimp only at h
    split at h
    · cases h
    · rename_i hne
      injection h with h
      injection h with hv hr
      have hs2 := (List.takeWhile_append_dropWhile (p := isDigit) (l := rest2)).symm
      refine ⟨s.takeWhile isDigit ++ '.' :: rest2.takeWhile isDigit, ?_, ?_⟩
      · rw [List.append_assoc, List.cons_append, ← hr, ← hs2, ← hd]; exact hs
      · rw [← hv]
        exact IsNumber.frac _ _ (by simpa using hne) (takeWhile_all _) (takeWhile_all _)
  · rename_i rest hnd
    dsimp only at h
    split at h
    · cases h
    · rename_i hne
      injection h with h
      injection h with hv hr
      refine ⟨s.takeWhile isDigit, ?_, ?_⟩
      · rw [← hr]; exact hs
      · rw [← hv]; exact IsNumber.int _ (by simpa using hne) (takeWhile_all _)

theorem matchNumber_complete {num : Str} {v : Rat} (hn : IsNumber num v) (a : Char) (t : Str)
    (ha : isDigit a = false) (hdot : a ≠ '.') : matchNumber (num ++ a :: t) = some (v, a :: t) := by
  cases hn with
  | int _ hne hd =>
    have ⟨h1, h2⟩ := takeWhile_append_stop (p := isDigit) num a t hd ha
    unfold matchNumber
    rw [h1, h2]
    split
    · rename_i rest2 heq
      injection heq with heq _
      exact absurd heq hdot
    · simp [hne]
  | frac d1 d2 hne hd1 hd2 =>
    have ⟨h1, h2⟩ := takeWhile_append_stop (p := isDigit) d1 '.' (d2 ++ a :: t) hd1 isDigit_dot
    have ⟨h3, h4⟩ := takeWhile_append_stop (p := isDigit) d2 a t hd2 ha
    unfold matchNumber
    rw [List.append_assoc, List.cons_append, h1, h2]
    simp only [h3, h4]
    simp [hne]

theorem matchUnit_sound {s u : Str} (h : matchUnit s = some u) :
    ∃ w rest, s = w ++ '/' :: 's' :: rest ∧ w ≠ [] ∧ Word w ∧ u = w ++ ['/', 's'] := by
  unfold matchUnit at h
  have hs := (List.takeWhile_append_dropWhile (p := isWord) (l := s)).symm
  split at h
  · rename_i rest hd
    dsimp only at h
    split at h
    · cases h
    · rename_i hne
      injection h with h
      exact ⟨s.takeWhile isWord, rest, by rw [← hd]; exact hs, by simpa using hne, takeWhile_all _, h.symm⟩
  · cases h

theorem matchUnit_complete {w : Str} (hne : w ≠ []) (hw : Word w) (rest : Str) :
    matchUnit (w ++ '/' :: 's' :: rest) = some (w ++ ['/', 's']) := by
  have ⟨h1, h2⟩ := takeWhile_append_stop (p := isWord) w '/' ('s' :: rest) hw isWord_slash
  unfold matchUnit
  rw [h1, h2]
  simp [hne]

/-- the documented syntax: `<number><one white-space character><word>/s<anything>` denotes value `v`, unit `<word>/s` -/
def Accepts (s : Str) (v : Rat) (u : Str) : Prop :=
  ∃ num sp w rest, s = num ++ sp :: (w ++ '/' :: 's' :: rest) ∧ IsNumber num v ∧ isSpace sp = true ∧
    w ≠ [] ∧ Word w ∧ u = w ++ ['/', 's']

/-- The regular expression accepts exactly the documented syntax and extracts the exact decimal value and the unit. -/
theorem matchThroughput_spec (s : Str) (v : Rat) (u : Str) :
    matchThroughput s = some (v, u) ↔ Accepts s v u := by
  unfold Accepts
  constructor
  · intro h
    unfold matchThroughput at h
    split at h
    · cases h
    · cases h
    · rename_i v' sp rest hn
      split at h
      · rename_i hsp
        split at h
        · rename_i u' hu
          injection h with h
          injection h with hv hu'
          obtain ⟨num, hs, hnum⟩ := matchNumber_sound hn
          obtain ⟨w, rest', hr, hne, hw, huu⟩ := matchUnit_sound hu
          exact ⟨num, sp, w, rest', by rw [hs, hr], hv ▸ hnum, hsp, hne, hw, hu' ▸ huu⟩
        · cases h
      · cases h
  · intro ⟨num, sp, w, rest, hs, hnum, hsp, hne, hw, hu⟩
    have ⟨hd, hdot⟩ := isSpace_not_digit hsp
    unfold matchThroughput
    rw [hs, matchNumber_complete hnum sp _ hd hdot]
    simp only [hsp, if_true]
    rw [matchUnit_complete hne hw rest, hu]


/-! ## invariants used by the C04 / C05 property theorems -/

/-- a property of `recOf` for arbitrary arguments holds for every record of a run -/
theorem Run.recs_forall (R : Run) (P : Rec → Prop)
    (h : ∀ st q ops unit m sched', P (recOf R.c st q ops unit m sched')) :
    ∀ rec ∈ R.f.out.recs, P rec := by
  obtain ⟨tp, sched, _, _, _, _, hout, _⟩ := R.inv
  rw [hout]
  refine go_recs_forall (c := R.c) (fun _ => True) (fun _ => True) P ?_ R.reqs _ trivial (fun _ _ => trivial)
  intro st q rec st' _ _ _ hs
  obtain ⟨ops, unit, m, sched', _, _, _, hrec, _⟩ := step_sampled_inv hs
  exact ⟨hrec ▸ h st q ops unit m sched', trivial⟩


/-- the loop control's clock was started at `s` and is never ahead of the client's clock -/
def ClockInv (st : St) : Prop :=
  match st.loop with
  | .time _ _ s x => s ≤ x ∧ x ≤ st.now
  | .iter _ _ _ => True

theorem clockInv_st0 (R : Run) (sched : Sched)
    (hloop : R.f.loop0 = scheduleLoop R.c.r R.t R.c.hasCompletion R.srcInfinite R.c.t0) : ClockInv (R.st0 sched) := by
  unfold ClockInv
  have h0 : (R.st0 sched).loop = R.f.loop0 := rfl
  rw [h0, hloop]
  by_cases h : requiresTimePeriod R.t R.c.hasCompletion R.srcInfinite = true
  · simp only [scheduleLoop, h, if_true, Run.st0]; exact ⟨le_refl _, le_sleep R.exact _ _⟩
  · simp [scheduleLoop, h]

theorem clockInv_next {c : Cfg} (hr : ∀ x, c.r x = x) {st : St} {q : Req} {sched' : Sched} (h : ClockInv st) :
    ClockInv (nextSt c st q sched') := by
  have hnow := now_le_procEnd hr st q
  unfold ClockInv at *
  cases hl : st.loop with
  | iter w t it => simp [nextSt, hl, Loop.next]
  | time w d s x =>
    rw [hl] at h
    simp only [nextSt, hl, Loop.next]
    exact ⟨by linarith [h.1, h.2], le_refl _⟩

/-- finite loop control with a sane clock -/
def FinInv (st : St) : Prop := st.loop.infinite = false ∧ ClockInv st

theorem finInv_next {c : Cfg} (hr : ∀ x, c.r x = x) {st : St} {q : Req} {sched' : Sched} (h : FinInv st) :
    FinInv (nextSt c st q sched') := by
  refine ⟨?_, clockInv_next hr h.2⟩
  have := h.1
  cases hl : st.loop <;> simp_all [nextSt, Loop.next, Loop.infinite]

/-- the tuple's progress of a finite loop control lies in [0,1] -/
theorem pc_unit {c : Cfg} (hr : ∀ x, c.r x = x) {st : St} (q : Req) (hI : FinInv st)
    (hfin : st.loop.finished c.r = false) : ∃ p, pcOf c st q = some p ∧ 0 ≤ p ∧ p ≤ 1 := by
  obtain ⟨hinf, hI⟩ := hI
  unfold ClockInv at hI
  cases hl : st.loop with
  | iter w t it =>
    cases t with
    | none => simp [hl, Loop.infinite] at hinf
    | some total =>
      simp only [hl, Loop.finished, Loop.infinite, Loop.completed] at hfin
      have hlt : it < total := by simpa using hfin
      refine ⟨((it + 1 : Nat) : Rat) / (total : Rat), by simp [pcOf, hl, Loop.infinite, Loop.percent, hr], div_nonneg (Nat.cast_nonneg _) (Nat.cast_nonneg _), ?_⟩
      have h0 : (0 : Rat) < (total : Rat) := by exact_mod_cast (by omega : 0 < total)
      rw [div_le_one h0]
      exact_mod_cast hlt
  | time w d s x =>
    cases d with
    | none => simp [hl, Loop.infinite] at hinf
    | some dur =>
      rw [hl] at hI
      simp only [hl, Loop.finished, Loop.infinite, Loop.completed, hr] at hfin
      have hlt : x < s + dur := by simpa using hfin
      have hd : 0 < dur := by linarith [hI.1]
      refine ⟨(x - s) / dur, by simp [pcOf, hl, Loop.infinite, Loop.percent, hr], ?_, ?_⟩
      · exact div_nonneg (by linarith [hI.1]) (le_of_lt hd)
      · rw [div_le_one hd]; linarith

/-- … and does not decrease from one request to the next -/
theorem pc_mono {c : Cfg} (hr : ∀ x, c.r x = x) {st : St} (q q' : Req) (sched' : Sched) (hI : FinInv st)
    (hfin' : (nextSt c st q sched').loop.finished c.r = false) :
    ∀ pa pb, pcOf c st q = some pa → pcOf c (nextSt c st q sched') q' = some pb → pa ≤ pb := by
  have hnow := now_le_procEnd hr st q
  obtain ⟨hinf, hI⟩ := hI
  unfold ClockInv at hI
  cases hl : st.loop with
  | iter w t it =>
    cases t with
    | none => simp [hl, Loop.infinite] at hinf
    | some total =>
      intro pa pb ha hb
      simp [pcOf, nextSt, hl, Loop.next, Loop.infinite, Loop.percent, hr] at ha hb
      rw [← ha, ← hb]
      apply div_le_div_of_nonneg_right _ (Nat.cast_nonneg _)
      linarith
  | time w d s x =>
    cases d with
    | none => simp [hl, Loop.infinite] at hinf
    | some dur =>
      rw [hl] at hI
      intro pa pb ha hb
      simp only [nextSt, hl, Loop.next, Loop.finished, Loop.infinite, Loop.completed, hr] at hfin'
      have hlt : procEndOf c st q < s + dur := by simpa using hfin'
      have hd : 0 < dur := by linarith [hI.1, hI.2]
      simp [pcOf, nextSt, hl, Loop.next, Loop.infinite, Loop.percent, hr] at ha hb
      rw [← ha, ← hb]
      apply div_le_div_of_nonneg_right _ (le_of_lt hd)
      linarith [hI.2]

theorem schedInv_st0 (R : Run) {tp : Option Throughput} {sched : Sched}
    (hs : schedulerFor tp R.t.sched = .ok sched) (hT : ∀ t, tp = some t → 0 ≤ t.value) : SchedInv (R.st0 sched) := by
  refine ⟨le_refl _, fun _ => rfl, ?_, ?_⟩
  · intro w hw
    have := schedulerFor_inner hs
    simp only [Run.st0] at hw
    rw [this] at hw; cases hw
  · intro kind t first cw inner heq
    simp only [Run.st0] at heq
    rcases schedulerFor_ok hs with h | ⟨kind', t', htp, h, _⟩
    · rw [h] at heq; cases heq
    · rw [h] at heq
      injection heq with _ ht _ _ _
      rw [← ht]; exact hT t' htp

/-- state of a deterministic `UnitAwareScheduler`: not yet fed (unthrottled), or waiting
    `current_weight · clients / target` between requests -/
def DetInv (tp : Throughput) (clients : Nat) (st : St) : Prop :=
  ∃ first cw inner, st.sched = .unitAware .deterministic tp first cw inner ∧
    ((first = true ∧ cw = none ∧ inner = .unthrottled) ∨
     (first = false ∧ ∃ w : Nat, cw = some w ∧ inner = .det ((w : Rat) * (clients : Rat) / tp.value)))

theorem wait_eq (T C w : Rat) : 1 / (T / C / w) = w * C / T := by
  rw [div_div, one_div_div, mul_comm]

theorem detInv_step {c : Cfg} (hr : ∀ x, c.r x = x) {tp : Throughput} {st st' : St} {q : Req} {rec : Rec}
    (h : DetInv tp c.clients st) (hs : step c st q = .sampled rec st') :
    DetInv tp c.clients st' ∧ rec.innerAfter = st'.sched.inner ∧
    (0 < rec.sample.ops → rec.sample.unit ++ ['/', 's'] = tp.unit →
      rec.innerAfter = .det ((rec.sample.ops : Rat) * (c.clients : Rat) / tp.value)) := by
  obtain ⟨ops, unit, m, sched', _, _, ha, hrec, hst'⟩ := step_sampled_inv hs
  obtain ⟨first, cw, inner, hsch, hcase⟩ := h
  subst hrec hst'
  simp only [recOf, sampleOf, nextSt]
  rcases afterRequest_ok ha with ⟨heq, hno⟩ | ⟨kind, tp', first', cw', inner', w', i, hsch', hpos, hcond, hw, hcl, hi, hs'⟩
  · subst heq
    refine ⟨⟨first, cw, inner, hsch, hcase⟩, trivial, ?_⟩
    intro hops _
    rcases hno with hpl | ⟨kind, tp', first', cw', inner', hsch', hneg⟩
    · rw [hpl] at hsch; cases hsch
    · rw [hsch] at hsch'
      injection hsch' with _ _ hf hc _
      subst hf hc
      have hcw : first = false ∧ cw = some ops := by
        by_contra hcon
        apply hneg
        refine ⟨hops, ?_⟩
        cases first with
        | true => exact Or.inl rfl
        | false =>
          right; intro hcw; exact hcon ⟨rfl, hcw⟩
      rcases hcase with ⟨hf, _, _⟩ | ⟨_, w, hcw', hin⟩
      · rw [hcw.1] at hf; cases hf
      · rw [hcw.2] at hcw'
        injection hcw' with hcw'
        simp only [hsch, Sched.inner, hin, hcw']
  · rw [hsch] at hsch'
    injection hsch' with hk ht _ _ _
    subst hk ht
    rcases mkInner_ok hi with ⟨_, hi'⟩ | ⟨hk, _⟩
    · have hi'' : i = .det ((w' : Rat) * (c.clients : Rat) / tp.value) := by
        rw [hi']; simp only [hr]; rw [wait_eq]
      subst hs'
      refine ⟨⟨false, some w', i, rfl, Or.inr ⟨rfl, w', rfl, hi''⟩⟩, trivial, ?_⟩
      intro _ hunit
      have : w' = ops := by
        unfold effectiveWeight at hw
        simp [hunit] at hw
        exact hw.symm
      simp only [Sched.inner, hi'', this]
    · cases hk


/-- target in ops/s, runner reports another unit: not yet fed, or one request every `clients / target` seconds -/
def FbInv (tp : Throughput) (clients : Nat) (st : St) : Prop :=
  ∃ first cw inner, st.sched = .unitAware .deterministic tp first cw inner ∧
    ((first = true ∧ cw = none ∧ inner = .unthrottled) ∨
     (first = false ∧ cw = some 1 ∧ inner = .det ((clients : Rat) / tp.value)))

/-- the runner never reports in the unit of the target throughput -/
def OtherUnit (c : Cfg) (tp : Throughput) (q : Req) : Prop :=
  ∀ ops unit m, executeSingle c.abort q.out = .ret ops unit m → unit ++ ['/', 's'] ≠ tp.unit

theorem fbInv_step {c : Cfg} (hr : ∀ x, c.r x = x) {tp : Throughput} (hu : tp.unit = opsPerS) {st st' : St} {q : Req} {rec : Rec}
    (h : FbInv tp c.clients st) (hq : OtherUnit c tp q) (hs : step c st q = .sampled rec st') :
    FbInv tp c.clients st' ∧ rec.innerAfter = st'.sched.inner ∧
    (0 < rec.sample.ops → rec.innerAfter = .det ((c.clients : Rat) / tp.value)) := by
  obtain ⟨ops, unit, m, sched', _, he, ha, hrec, hst'⟩ := step_sampled_inv hs
  have hunit := hq ops unit m he
  obtain ⟨first, cw, inner, hsch, hcase⟩ := h
  subst hrec hst'
  simp only [recOf, sampleOf, nextSt]
  rcases afterRequest_ok ha with ⟨heq, hno⟩ | ⟨kind, tp', first', cw', inner', w', i, hsch', hpos, hcond, hw, hcl, hi, hs'⟩
  · subst heq
    refine ⟨⟨first, cw, inner, hsch, hcase⟩, trivial, ?_⟩
    intro hops
    rcases hno with hpl | ⟨kind, tp', first', cw', inner', hsch', hneg⟩
    · rw [hpl] at hsch; cases hsch
    · rw [hsch] at hsch'
      injection hsch' with _ _ hf hc _
      subst hf hc
      have hcw : first = false ∧ cw = some ops := by
        by_contra hcon
        apply hneg
        refine ⟨hops, ?_⟩
        cases first with
        | true => exact Or.inl rfl
        | false => right; intro hcw; exact hcon ⟨rfl, hcw⟩
      rcases hcase with ⟨hf, _, _⟩ | ⟨_, _, hin⟩
      · rw [hcw.1] at hf; cases hf
      · simp only [hsch, Sched.inner, hin]
  · rw [hsch] at hsch'
    injection hsch' with hk ht _ _ _
    subst hk ht
    have hw1 : w' = 1 := by
      unfold effectiveWeight at hw
      have hne : (unit ++ ['/', 's'] != tp.unit) = true := by simpa using hunit
      have hops : (tp.unit == opsPerS) = true := by simp [hu]
      simp only [hne, hops, if_true] at hw
      injection hw with hw; exact hw.symm
    subst hw1
    rcases mkInner_ok hi with ⟨_, hi'⟩ | ⟨hk, _⟩
    · have hi'' : i = .det ((c.clients : Rat) / tp.value) := by
        rw [hi']; simp only [hr]; rw [wait_eq]; simp
      subst hs'
      exact ⟨⟨false, some 1, i, rfl, Or.inr ⟨rfl, rfl, hi''⟩⟩, trivial, fun _ => by simp only [Sched.inner, hi'']⟩
    · cases hk

/-! ## the Task object between loading and scheduling -/

def isRead : TaskOp → Bool
  | .readThroughput => true
  | _ => false

/-- the operations that change the object -/
def dropReads (ops : List TaskOp) : List TaskOp := ops.filter (fun o => !isRead o)

theorem applyOps_dropReads (r : Rat → Rat) : ∀ (ops : List TaskOp) (o o' : TaskObj),
    applyOps r ops o = .ok o' → applyOps r (dropReads ops) o = .ok o' := by
  intro ops
  induction ops with
  | nil => intro o o' h; exact h
  | cons op ops ih =>
    intro o o' h
    simp only [applyOps] at h
    split at h
    · cases h
    · rename_i o1 h1
      cases op with
      | readThroughput =>
        simp only [applyOp] at h1
        split at h1
        · cases h1
        · injection h1 with h1
          subst h1
          simpa [dropReads, isRead] using ih o o' h
      | setThroughput v =>
        simp only [dropReads, isRead, List.filter_cons, Bool.not_false, if_true, applyOps, h1]
        exact ih o1 o' h
      | setInterval v =>
        simp only [dropReads, isRead, List.filter_cons, Bool.not_false, if_true, applyOps, h1]
        exact ih o1 o' h
      | testMode =>
        simp only [dropReads, isRead, List.filter_cons, Bool.not_false, if_true, applyOps, h1]
        exact ih o1 o' h

theorem finishThroughput_unit {v : Option Rat} {u : Str} {tp : Throughput} (h : finishThroughput v u = some tp) : tp.unit = u := by
  unfold finishThroughput at h
  split at h
  · split at h
    · injection h with h; rw [← h]
    · cases h
  · cases h

theorem word_ops : Word ['o', 'p', 's'] := by unfold Word; decide

/-- the unit of a parsed target throughput is always `<word>/s` -/
theorem targetThroughput_unit (r : Rat → Rat) (tt ti : PVal) (tp : Throughput) (h : targetThroughput r tt ti = .ok (some tp)) :
    ∃ w, w ≠ [] ∧ Word w ∧ tp.unit = w ++ ['/', 's'] := by
  have hops : ∃ w, w ≠ [] ∧ Word w ∧ opsPerS = w ++ ['/', 's'] := ⟨['o', 'p', 's'], by simp, word_ops, rfl⟩
  unfold targetThroughput at h
  split at h
  · cases h
  · split at h
    · split at h
      · cases h
      · injection h with h; rw [finishThroughput_unit h]; exact hops
    · split at h
      · cases tt with
        | str s =>
          simp only at h
          cases hm : matchThroughput s with
          | none => rw [hm] at h; cases h
          | some vu =>
            obtain ⟨v, u⟩ := vu
            rw [hm] at h
            injection h with h
            rw [finishThroughput_unit h]
            obtain ⟨num, sp, w, rest, _, _, _, hne, hw, hu⟩ := (matchThroughput_spec s v u).mp hm
            exact ⟨w, hne, hw, hu⟩
        | int i => simp only at h; injection h with h; rw [finishThroughput_unit h]; exact hops
        | float q => simp only at h; injection h with h; rw [finishThroughput_unit h]; exact hops
        | none => simp only at h; cases h
        | bool b => simp only at h; cases h
        | other t => simp only at h; cases h
      · cases h

theorem digits_maxsize : Digits maxsizeStr := by unfold Digits; decide
theorem digitsVal_maxsize : digitsVal maxsizeStr = 9223372036854775807 := by decide

/-- `f"{sys.maxsize} {unit}"` parses back to `sys.maxsize` in that unit -/
theorem maxsize_string_parses (w : Str) (hne : w ≠ []) (hw : Word w) :
    targetThroughput id (.str (maxsizeStr ++ [' '] ++ (w ++ ['/', 's']))) .none
      = .ok (some ⟨9223372036854775807, w ++ ['/', 's']⟩) := by
  have hs : maxsizeStr ++ [' '] ++ (w ++ ['/', 's']) = maxsizeStr ++ ' ' :: (w ++ '/' :: 's' :: []) := by simp
  rw [hs]
  have hacc : Accepts (maxsizeStr ++ ' ' :: (w ++ '/' :: 's' :: [])) ((digitsVal maxsizeStr : Nat) : Rat) (w ++ ['/', 's']) :=
    ⟨maxsizeStr, ' ', w, [], rfl, IsNumber.int maxsizeStr (by decide) digits_maxsize, by decide, hne, hw, rfl⟩
  have hm := (matchThroughput_spec _ _ _).mpr hacc
  have hne' : (maxsizeStr ++ ' ' :: (w ++ '/' :: 's' :: [])).isEmpty = false := by simp [maxsizeStr]
  have hv : ((digitsVal maxsizeStr : Nat) : Rat) = 9223372036854775807 := by rw [digitsVal_maxsize]; norm_num
  have hv0 : ((digitsVal maxsizeStr : Nat) : Rat) ≠ 0 := by rw [hv]; norm_num
  simp only [targetThroughput, PVal.truthy, hne', hm, finishThroughput]
  simp [hv]

/-! ## where a `TaskAllocation` comes from -/

theorem mem_rowFrom {m r : Nat} {x : Alloc.Entry} : ∀ (s : List Alloc.Element) (j : Nat), x ∈ Alloc.rowFrom m r s j →
    ∃ e ∈ s, ∃ j', x ∈ Alloc.elemRow m e j' r
  | [], _, h => by simp [Alloc.rowFrom] at h
  | e :: es, j, h => by
    simp only [Alloc.rowFrom, List.mem_append] at h
    rcases h with h | h
    · exact ⟨e, List.mem_cons_self, j, h⟩
    · obtain ⟨e', he', j', h'⟩ := mem_rowFrom es (j + 1) h
      exact ⟨e', List.mem_cons_of_mem _ he', j', h'⟩

/-- every `TaskAllocation` of the matrix belongs to one element of the schedule: it is that element's `g`-th logical client and
    its `total_clients` is that element's own client count — whatever the other elements of the schedule look like -/
theorem allocation_entry_spec (s : List Alloc.Element) (row : List Alloc.Entry) (hrow : row ∈ Alloc.allocations s)
    (sub : Alloc.Sub) (i g total : Nat) (h : Alloc.Entry.task sub i g total ∈ row) :
    ∃ e ∈ s, (Alloc.expand e)[g]? = some (sub, i) ∧ total = e.clients := by
  simp only [Alloc.allocations, List.mem_map, List.mem_range] at hrow
  obtain ⟨r, _, rfl⟩ := hrow
  simp only [Alloc.row, List.mem_cons] at h
  rcases h with h | h
  · cases h
  · obtain ⟨e, he, j, hx⟩ := mem_rowFrom s 1 h
    refine ⟨e, he, ?_⟩
    simp only [Alloc.elemRow, List.mem_append, List.mem_map, List.mem_singleton] at hx
    rcases hx with (⟨c, _, hc⟩ | hp) | hj
    · unfold Alloc.taskEntry at hc
      split at hc
      · rename_i s' i' hg
        injection hc with h1 h2 h3 h4
        subst h1 h2 h3 h4
        exact ⟨hg, rfl⟩
      · cases hc
    · split at hp
      · simp at hp
      · simp at hp
    · cases hj

/-! ## concrete runs for the non-vacuity examples -/

def isOk : Except Err Final → Bool
  | .ok _ => true
  | .error _ => false

def finalOf : (x : Except Err Final) → isOk x = true → Final
  | .ok f, _ => f

theorem finalOf_ok : ∀ (x : Except Err Final) (h : isOk x = true), x = .ok (finalOf x h)
  | .ok _, _ => rfl

/-- a `Run` from concrete inputs in exact arithmetic -/
def Run.ofInputs (c : Cfg) (hr : ∀ x, c.r x = x) (t : TaskP) (tt ti : PVal) (gidx total : Nat) (srcInfinite : Bool)
    (cap : Nat) (reqs : List Req) (h : isOk (runClient c t tt ti gidx total srcInfinite cap reqs) = true) : Run :=
  { c := c, t := t, tt := tt, ti := ti, gidx := gidx, total := total, srcInfinite := srcInfinite, cap := cap, reqs := reqs,
    f := finalOf _ h, exact := hr, ok := finalOf_ok _ h }

def demoCfg : Cfg :=
  { r := id, t0 := 100, epoch := 1600000000, client := 7, clients := 2, abort := false, completesParent := false,
    anyCompletesParent := false, hasCompletion := false, srcKnowsProgress := false, cancelAt := none, completeAt := none }

def demoTask : TaskP :=
  { warmupIt := some 1, iters := some 3, warmupT := none, period := none, rampUp := none, clients := 2, sched := none,
    completesParent := false, anyCompletesParent := false }

def okReq (service : Rat) : Req :=
  { gen := 0, prog := [.wire (1 / 1024) service false], post := 1 / 1024, draw := 0, out := .tuple 1 opsUnit,
    rc := none, rp := none, sp := none }

end Exec
