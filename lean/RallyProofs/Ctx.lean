import RallyModel.Ctx
/-! Helper lemmas for C18 (core tactics only).

Part 1: lists / min / max / `upd`.
Part 2: `Exact` — invariant behind `sub_request_exact` (any trace; `fx = true` current code, `fx = false` pre-fix code).
Part 3: `Iso` — simulation behind `client_isolation`.
Part 4: `Seq` — invariant behind the historical `outer_span_partial_pinned` (pre-fix code, no task creation inside a request).
Part 6: `collectGo_eq` — the list built by `Composite.run_stream`.
Part 5: `PInv` — invariant behind `outer_span` (current code = `fx = true`, any structured concurrency).
-/
namespace Ctx

/-! ## Part 1 -/

@[simp] theorem upd_same {α : Type} (f : Nat → Option α) (i : Nat) (v : α) : upd f i v i = some v := by
  simp [upd]

theorem upd_other {α : Type} (f : Nat → Option α) (i j : Nat) (v : α) (h : j ≠ i) : upd f i v j = f j := by
  simp [upd, h]

theorem minOpt_eq_none {l : List Rat} : minOpt l = none ↔ l = [] := by
  cases l with
  | nil => simp [minOpt]
  | cons a l => simp only [minOpt]; cases minOpt l <;> simp

theorem maxOpt_eq_none {l : List Rat} : maxOpt l = none ↔ l = [] := by
  cases l with
  | nil => simp [maxOpt]
  | cons a l => simp only [maxOpt]; cases maxOpt l <;> simp

/-- `minOpt` is the minimum: a member that is below every member -/
theorem minOpt_spec {l : List Rat} {m : Rat} (h : minOpt l = some m) : m ∈ l ∧ ∀ x ∈ l, m ≤ x := by
  induction l generalizing m with
  | nil => simp [minOpt] at h
  | cons a l ih =>
    simp only [minOpt] at h
    cases hm : minOpt l with
    | none =>
      rw [hm] at h
      have : l = [] := minOpt_eq_none.mp hm
      subst this
      simp at h; subst h; simp
    | some k =>
      rw [hm] at h
      have ⟨hk, hall⟩ := ih hm
      simp only [Option.some.injEq] at h
      by_cases hak : a ≤ k
      · rw [if_pos hak] at h; subst h
        refine ⟨by simp, ?_⟩
        intro x hx
        rcases List.mem_cons.mp hx with rfl | hx
        · exact Rat.le_refl
        · exact Rat.le_trans hak (hall x hx)
      · rw [if_neg hak] at h; subst h
        refine ⟨by simp [hk], ?_⟩
        intro x hx
        rcases List.mem_cons.mp hx with rfl | hx
        · rcases @Rat.le_total x k with h1 | h1
          · exact absurd h1 hak
          · exact h1
        · exact hall x hx

/-- `maxOpt` is the maximum -/
theorem maxOpt_spec {l : List Rat} {m : Rat} (h : maxOpt l = some m) : m ∈ l ∧ ∀ x ∈ l, x ≤ m := by
  induction l generalizing m with
  | nil => simp [maxOpt] at h
  | cons a l ih =>
    simp only [maxOpt] at h
    cases hm : maxOpt l with
    | none =>
      rw [hm] at h
      have : l = [] := maxOpt_eq_none.mp hm
      subst this
      simp at h; subst h; simp
    | some k =>
      rw [hm] at h
      have ⟨hk, hall⟩ := ih hm
      simp only [Option.some.injEq] at h
      by_cases hak : k ≤ a
      · rw [if_pos hak] at h; subst h
        refine ⟨by simp, ?_⟩
        intro x hx
        rcases List.mem_cons.mp hx with rfl | hx
        · exact Rat.le_refl
        · exact Rat.le_trans (hall x hx) hak
      · rw [if_neg hak] at h; subst h
        refine ⟨by simp [hk], ?_⟩
        intro x hx
        rcases List.mem_cons.mp hx with rfl | hx
        · rcases @Rat.le_total x k with h1 | h1
          · exact h1
          · exact absurd h1 hak
        · exact hall x hx

theorem minOpt_snoc_ge (l : List Rat) (t : Rat) (h : ∀ x ∈ l, x ≤ t) :
    minOpt (l ++ [t]) = (match minOpt l with | none => some t | some m => some m) := by
  induction l with
  | nil => simp [minOpt]
  | cons a l ih =>
    have ha : a ≤ t := h a (by simp)
    have ih' := ih (fun x hx => h x (by simp [hx]))
    simp only [List.cons_append, minOpt, ih']
    cases hm : minOpt l with
    | none => simp [ha]
    | some m => simp

theorem maxOpt_snoc_ge (l : List Rat) (t : Rat) (h : ∀ x ∈ l, x ≤ t) : maxOpt (l ++ [t]) = some t := by
  induction l with
  | nil => simp [maxOpt]
  | cons a l ih =>
    have ha : a ≤ t := h a (by simp)
    have ih' := ih (fun x hx => h x (by simp [hx]))
    simp only [List.cons_append, maxOpt, ih']
    by_cases hta : t ≤ a
    · rw [if_pos hta, Rat.le_antisymm ha hta]
    · rw [if_neg hta]

theorem filter_single {α : Type} (p : α → Bool) (e : α) :
    List.filter p [e] = if p e = true then [e] else [] := by
  by_cases h : p e = true
  · rw [if_pos h, List.filter_cons_of_pos h]; rfl
  · rw [if_neg h, List.filter_cons_of_neg h]; rfl

theorem timesFor_append (log : List LogE) (e : LogE) (b : Bool) (c : Nat) :
    timesFor (log ++ [e]) b c =
      timesFor log b c ++ (if (e.isStart == b && e.chain.contains c) = true then [e.t] else []) := by
  unfold timesFor
  rw [List.filter_append, List.map_append, filter_single]
  congr 1
  by_cases h : (e.isStart == b && e.chain.contains c) = true
  · rw [if_pos h, if_pos h]; rfl
  · rw [if_neg h, if_neg h]; rfl

theorem directTimes_append (log : List LogE) (e : LogE) (b : Bool) (c : Nat) :
    directTimes (log ++ [e]) b c =
      directTimes log b c ++ (if (e.isStart == b && e.chain.head? == some c) = true then [e.t] else []) := by
  unfold directTimes
  rw [List.filter_append, List.map_append, filter_single]
  congr 1
  by_cases h : (e.isStart == b && e.chain.head? == some c) = true
  · rw [if_pos h, if_pos h]; rfl
  · rw [if_neg h, if_neg h]; rfl

theorem timesFor_le {log : List LogE} {t : Rat} (h : ∀ e ∈ log, e.t ≤ t) (b : Bool) (c : Nat) :
    ∀ x ∈ timesFor log b c, x ≤ t := by
  intro x hx
  simp only [timesFor, List.mem_map, List.mem_filter] at hx
  obtain ⟨e, ⟨he, _⟩, rfl⟩ := hx
  exact h e he

theorem directTimes_le {log : List LogE} {t : Rat} (h : ∀ e ∈ log, e.t ≤ t) (b : Bool) (c : Nat) :
    ∀ x ∈ directTimes log b c, x ≤ t := by
  intro x hx
  simp only [directTimes, List.mem_map, List.mem_filter] at hx
  obtain ⟨e, ⟨he, _⟩, rfl⟩ := hx
  exact h e he

theorem clockOk_iff {s : St} {t : Rat} : clockOk s t = true ↔ ∀ e ∈ s.log, e.t ≤ t := by
  simp [clockOk, List.all_eq_true]

/-- no entry of the log mentions `c` -/
theorem timesFor_nil_of_not_mem {log : List LogE} {c : Nat} (h : ∀ e ∈ log, c ∉ e.chain) (b : Bool) :
    timesFor log b c = [] := by
  simp only [timesFor, List.map_eq_nil_iff, List.filter_eq_nil_iff]
  intro e he
  simp [h e he]

theorem directTimes_nil_of_not_mem {log : List LogE} {c : Nat} (h : ∀ e ∈ log, c ∉ e.chain) (b : Bool) :
    directTimes log b c = [] := by
  simp only [directTimes, List.map_eq_nil_iff, List.filter_eq_nil_iff]
  intro e he
  have := h e he
  cases hc : e.chain with
  | nil => simp
  | cons x xs =>
    rw [hc] at this
    simp at this
    simp [Ne.symm this.1]

@[simp] theorem setStart_parent (fx : Bool) (r : Rec) (v : PyVal) : (setStart fx r v).parent = r.parent := by
  unfold setStart; split <;> (try split) <;> (try split) <;> (try split) <;> rfl
@[simp] theorem setStart_anc (fx : Bool) (r : Rec) (v : PyVal) : (setStart fx r v).anc = r.anc := by
  unfold setStart; split <;> (try split) <;> (try split) <;> (try split) <;> rfl
@[simp] theorem setStart_opener (fx : Bool) (r : Rec) (v : PyVal) : (setStart fx r v).opener = r.opener := by
  unfold setStart; split <;> (try split) <;> (try split) <;> (try split) <;> rfl
@[simp] theorem setStart_closed (fx : Bool) (r : Rec) (v : PyVal) : (setStart fx r v).closed = r.closed := by
  unfold setStart; split <;> (try split) <;> (try split) <;> (try split) <;> rfl
@[simp] theorem setStart_stop (fx : Bool) (r : Rec) (v : PyVal) : (setStart fx r v).stop = r.stop := by
  unfold setStart; split <;> (try split) <;> (try split) <;> (try split) <;> rfl
@[simp] theorem setStop_parent (fx : Bool) (r : Rec) (v : PyVal) : (setStop fx r v).parent = r.parent := by
  unfold setStop; split <;> (try split) <;> (try split) <;> (try split) <;> rfl
@[simp] theorem setStop_anc (fx : Bool) (r : Rec) (v : PyVal) : (setStop fx r v).anc = r.anc := by
  unfold setStop; split <;> (try split) <;> (try split) <;> (try split) <;> rfl
@[simp] theorem setStop_opener (fx : Bool) (r : Rec) (v : PyVal) : (setStop fx r v).opener = r.opener := by
  unfold setStop; split <;> (try split) <;> (try split) <;> (try split) <;> rfl
@[simp] theorem setStop_closed (fx : Bool) (r : Rec) (v : PyVal) : (setStop fx r v).closed = r.closed := by
  unfold setStop; split <;> (try split) <;> (try split) <;> (try split) <;> rfl
@[simp] theorem setStop_start (fx : Bool) (r : Rec) (v : PyVal) : (setStop fx r v).start = r.start := by
  unfold setStop; split <;> (try split) <;> (try split) <;> (try split) <;> rfl

/-! ### inversion of successful steps -/

theorem step_client_ok {fx : Bool} {s s' : St} {c : Nat} (h : step fx s (.client c) = .ok s') :
    s.tasks c = none ∧ s' = { s with tasks := upd s.tasks c ⟨[], 0⟩, tnames := c :: s.tnames } := by
  simp only [step] at h
  split at h
  · cases h
  · rename_i hc
    injection h with h
    refine ⟨?_, h.symm⟩
    cases ht : s.tasks c with
    | none => rfl
    | some v => simp [ht] at hc

theorem step_spawn_ok {fx : Bool} {s s' : St} {p c : Nat} (h : step fx s (.spawn p c) = .ok s') :
    ∃ tp, s.tasks p = some tp ∧ s.tasks c = none ∧
      s' = { s with tasks := upd s.tasks c ⟨tp.chain, 0⟩, tnames := c :: s.tnames } := by
  simp only [step] at h
  split at h
  · cases h
  · rename_i tp htp
    split at h
    · cases h
    · rename_i hc
      injection h with h
      refine ⟨tp, htp, ?_, h.symm⟩
      cases ht : s.tasks c with
      | none => rfl
      | some v => simp [ht] at hc

theorem step_open_ok {fx : Bool} {s s' : St} {τ c : Nat} (h : step fx s (.open_ τ c) = .ok s') :
    ∃ tk, s.tasks τ = some tk ∧ s.ctxs c = none ∧
      s' = { s with
             ctxs := upd s.ctxs c ⟨tk.chain.head?, c :: tk.chain, τ, none, none, false⟩,
             tasks := upd s.tasks τ ⟨c :: tk.chain, tk.depth + 1⟩,
             names := c :: s.names } := by
  simp only [step] at h
  split at h
  · cases h
  · rename_i tk htk
    split at h
    · cases h
    · rename_i hc
      injection h with h
      refine ⟨tk, htk, ?_, h.symm⟩
      cases ht : s.ctxs c with
      | none => rfl
      | some v => simp [ht] at hc

theorem wire_ok {fx : Bool} {s s' : St} {τ : Nat} {b : Bool} {t : Rat} (h : wire fx s τ b t = .ok s') :
    ∃ tk x rest r, s.tasks τ = some tk ∧ tk.chain = x :: rest ∧ s.ctxs x = some r ∧ clockOk s t = true ∧
      s' = { s with
             ctxs := upd s.ctxs x (if b then setStart fx r (some t) else setStop fx r (some t)),
             log := s.log ++ [⟨τ, tk.chain, b, t⟩],
             late := s.late || anyClosed s tk.chain } := by
  simp only [wire] at h
  split at h
  · cases h
  · rename_i tk htk
    split at h
    · cases h
    · rename_i x rest hch
      split at h
      · cases h
      · rename_i r hr
        split at h
        · rename_i hck
          injection h with h
          exact ⟨tk, x, rest, r, htk, hch, hr, hck, h.symm⟩
        · cases h

theorem step_close_ok {fx : Bool} {s s' : St} {τ : Nat} {exc : Bool} (h : step fx s (.close τ exc) = .ok s') :
    ∃ tk c rest rc, s.tasks τ = some tk ∧ tk.depth ≠ 0 ∧ tk.chain = c :: rest ∧ s.ctxs c = some rc ∧
      ((rest = [] ∧ s' = { s with ctxs := upd s.ctxs c { rc with closed := true },
                                  tasks := upd s.tasks τ ⟨rest, tk.depth - 1⟩ }) ∨
       (∃ p rest' rp, rest = p :: rest' ∧ s.ctxs p = some rp ∧
          s' = { s with
                 ctxs := upd (upd s.ctxs c { rc with closed := true }) p
                           (setStop fx (setStart fx rp rc.getStart) rc.getStop),
                 tasks := upd s.tasks τ ⟨rest, tk.depth - 1⟩,
                 late := s.late || anyClosed s rest,
                 emptyClose := s.emptyClose || rc.getStart.isNone || rc.getStop.isNone })) := by
  simp only [step] at h
  split at h
  · cases h
  · rename_i tk htk
    split at h
    · cases h
    · rename_i hd
      split at h
      · cases h
      · rename_i c rest hch
        split at h
        · cases h
        · rename_i rc hrc
          refine ⟨tk, c, rest, rc, htk, hd, hch, hrc, ?_⟩
          split at h
          · injection h with h
            exact Or.inl ⟨rfl, h.symm⟩
          · rename_i p rest'
            split at h
            · cases h
            · rename_i rp hrp
              injection h with h
              exact Or.inr ⟨p, rest', rp, rfl, hrp, h.symm⟩

/-! ### records are only ever extended -/

/-- dict records are never removed and their static (ghost) fields never change -/
def Ext (s s' : St) : Prop :=
  ∀ x r, s.ctxs x = some r →
    ∃ r', s'.ctxs x = some r' ∧ r'.anc = r.anc ∧ r'.parent = r.parent ∧ r'.opener = r.opener

theorem step_ext {fx : Bool} {s s' : St} {e : CEv} (h : step fx s e = .ok s') : Ext s s' := by
  intro x r hx
  cases e with
  | client c => obtain ⟨_, rfl⟩ := step_client_ok h; exact ⟨r, hx, rfl, rfl, rfl⟩
  | spawn p c => obtain ⟨_, _, _, rfl⟩ := step_spawn_ok h; exact ⟨r, hx, rfl, rfl, rfl⟩
  | open_ τ c =>
    obtain ⟨tk, _, hc, rfl⟩ := step_open_ok h
    have : x ≠ c := by intro e; rw [e, hc] at hx; cases hx
    exact ⟨r, by simp [upd_other _ _ _ _ this, hx], rfl, rfl, rfl⟩
  | wireStart τ t =>
    obtain ⟨tk, y, rest, ry, _, _, hy, _, rfl⟩ := wire_ok (b := true) h
    by_cases hxy : x = y
    · subst hxy; rw [hx] at hy; cases hy
      exact ⟨_, upd_same _ _ _, by simp, by simp, by simp⟩
    · exact ⟨r, by simp [upd_other _ _ _ _ hxy, hx], rfl, rfl, rfl⟩
  | wireEnd τ t =>
    obtain ⟨tk, y, rest, ry, _, _, hy, _, rfl⟩ := wire_ok (b := false) h
    by_cases hxy : x = y
    · subst hxy; rw [hx] at hy; cases hy
      exact ⟨_, upd_same _ _ _, by simp, by simp, by simp⟩
    · exact ⟨r, by simp [upd_other _ _ _ _ hxy, hx], rfl, rfl, rfl⟩
  | close τ exc =>
    obtain ⟨tk, c, rest, rc, _, _, _, hc, hcase⟩ := step_close_ok h
    rcases hcase with ⟨_, rfl⟩ | ⟨p, rest', rp, _, hp, rfl⟩
    · by_cases hxc : x = c
      · subst hxc; rw [hx] at hc; cases hc
        exact ⟨_, upd_same _ _ _, rfl, rfl, rfl⟩
      · exact ⟨r, by simp [upd_other _ _ _ _ hxc, hx], rfl, rfl, rfl⟩
    · by_cases hxp : x = p
      · subst hxp; rw [hx] at hp; cases hp
        exact ⟨_, upd_same _ _ _, by simp, by simp, by simp⟩
      · by_cases hxc : x = c
        · subst hxc; rw [hx] at hc; cases hc
          exact ⟨{ r with closed := true }, by simp [upd_other _ _ _ _ hxp], rfl, rfl, rfl⟩
        · exact ⟨r, by simp [upd_other _ _ _ _ hxp, upd_other _ _ _ _ hxc, hx], rfl, rfl, rfl⟩

/-- every record of the new state is an old one (same static fields) or the dict just created by `open_` -/
theorem step_ctxs_inv {fx : Bool} {s s' : St} {e : CEv} (h : step fx s e = .ok s') :
    ∀ x r', s'.ctxs x = some r' →
      (∃ r, s.ctxs x = some r ∧ r'.anc = r.anc ∧ r'.parent = r.parent ∧ r'.opener = r.opener ∧
          (r.closed = true → r'.closed = true)) ∨
      (s.ctxs x = none ∧ ∃ τ tk, e = .open_ τ x ∧ s.tasks τ = some tk ∧
          r' = ⟨tk.chain.head?, x :: tk.chain, τ, none, none, false⟩) := by
  intro x r' hx
  cases e with
  | client c => obtain ⟨_, rfl⟩ := step_client_ok h; exact Or.inl ⟨r', hx, rfl, rfl, rfl, id⟩
  | spawn p c => obtain ⟨_, _, _, rfl⟩ := step_spawn_ok h; exact Or.inl ⟨r', hx, rfl, rfl, rfl, id⟩
  | open_ τ c =>
    obtain ⟨tk, htk, hc, rfl⟩ := step_open_ok h
    by_cases hxc : x = c
    · subst hxc
      simp only [upd_same, Option.some.injEq] at hx
      exact Or.inr ⟨hc, τ, tk, rfl, htk, hx.symm⟩
    · simp only [upd_other _ _ _ _ hxc] at hx
      exact Or.inl ⟨r', hx, rfl, rfl, rfl, id⟩
  | wireStart τ t =>
    obtain ⟨tk, y, rest, ry, _, _, hy, _, rfl⟩ := wire_ok (b := true) h
    by_cases hxy : x = y
    · subst hxy
      simp only [upd_same, Option.some.injEq] at hx
      subst hx
      exact Or.inl ⟨ry, hy, by simp, by simp, by simp, by simp⟩
    · simp only [upd_other _ _ _ _ hxy] at hx
      exact Or.inl ⟨r', hx, rfl, rfl, rfl, id⟩
  | wireEnd τ t =>
    obtain ⟨tk, y, rest, ry, _, _, hy, _, rfl⟩ := wire_ok (b := false) h
    by_cases hxy : x = y
    · subst hxy
      simp only [upd_same, Option.some.injEq] at hx
      subst hx
      exact Or.inl ⟨ry, hy, by simp, by simp, by simp, by simp⟩
    · simp only [upd_other _ _ _ _ hxy] at hx
      exact Or.inl ⟨r', hx, rfl, rfl, rfl, id⟩
  | close τ exc =>
    obtain ⟨tk, c, rest, rc, _, _, _, hc, hcase⟩ := step_close_ok h
    rcases hcase with ⟨_, rfl⟩ | ⟨p, rest', rp, _, hp, rfl⟩
    · by_cases hxc : x = c
      · subst hxc
        simp only [upd_same, Option.some.injEq] at hx
        subst hx
        exact Or.inl ⟨rc, hc, rfl, rfl, rfl, fun _ => rfl⟩
      · simp only [upd_other _ _ _ _ hxc] at hx
        exact Or.inl ⟨r', hx, rfl, rfl, rfl, id⟩
    · by_cases hxp : x = p
      · subst hxp
        simp only [upd_same, Option.some.injEq] at hx
        subst hx
        exact Or.inl ⟨rp, hp, by simp, by simp, by simp, by simp⟩
      · simp only [upd_other _ _ _ _ hxp] at hx
        by_cases hxc : x = c
        · subst hxc
          simp only [upd_same, Option.some.injEq] at hx
          subst hx
          exact Or.inl ⟨rc, hc, rfl, rfl, rfl, fun _ => rfl⟩
        · simp only [upd_other _ _ _ _ hxc] at hx
          exact Or.inl ⟨r', hx, rfl, rfl, rfl, id⟩

/-! ### well-formedness of chains -/

/-- structural facts about chains, valid in every reachable state -/
structure WF (s : St) : Prop where
  taskHead : ∀ τ tk x rest, s.tasks τ = some tk → tk.chain = x :: rest →
    ∃ r, s.ctxs x = some r ∧ r.anc = x :: rest
  ancOk : ∀ x r, s.ctxs x = some r → ∃ rest, r.anc = x :: rest ∧ r.parent = rest.head? ∧
    ∀ p rest', rest = p :: rest' → ∃ rp, s.ctxs p = some rp ∧ rp.anc = p :: rest'
  taskAlloc : ∀ τ tk, s.tasks τ = some tk → ∀ x ∈ tk.chain, ∃ r, s.ctxs x = some r
  logAlloc : ∀ e ∈ s.log, ∀ x ∈ e.chain, ∃ r, s.ctxs x = some r
  names : ∀ x r, s.ctxs x = some r → x ∈ s.names

theorem wf_init : WF init := by
  refine ⟨?_, ?_, ?_, ?_, ?_⟩ <;> intros <;> simp_all [init]

theorem Ext.alloc {s s' : St} (h : Ext s s') {x : Nat} (hx : ∃ r, s.ctxs x = some r) : ∃ r, s'.ctxs x = some r := by
  obtain ⟨r, hr⟩ := hx
  obtain ⟨r', hr', _⟩ := h x r hr
  exact ⟨r', hr'⟩

theorem Ext.anc {s s' : St} (h : Ext s s') {x : Nat} {l : List Nat} (hx : ∃ r, s.ctxs x = some r ∧ r.anc = l) :
    ∃ r, s'.ctxs x = some r ∧ r.anc = l := by
  obtain ⟨r, hr, ha⟩ := hx
  obtain ⟨r', hr', ha', _⟩ := h x r hr
  exact ⟨r', hr', ha'.trans ha⟩

/-- the part of `WF` that only depends on `ctxs` being extended conservatively -/
theorem wf_ancOk_step {fx : Bool} {s s' : St} {e : CEv} (hw : WF s) (h : step fx s e = .ok s') :
    ∀ x r, s'.ctxs x = some r → ∃ rest, r.anc = x :: rest ∧ r.parent = rest.head? ∧
      ∀ p rest', rest = p :: rest' → ∃ rp, s'.ctxs p = some rp ∧ rp.anc = p :: rest' := by
  have hext := step_ext h
  intro x r' hx
  rcases step_ctxs_inv h x r' hx with ⟨r, hr, ha, hp, _, _⟩ | ⟨_, τ, tk, _, htk, rfl⟩
  · obtain ⟨rest, h1, h2, h3⟩ := hw.ancOk x r hr
    refine ⟨rest, ha.trans h1, hp.trans h2, ?_⟩
    intro p rest' hrest
    exact hext.anc (h3 p rest' hrest)
  · refine ⟨tk.chain, rfl, rfl, ?_⟩
    intro p rest' hrest
    exact hext.anc (hw.taskHead τ tk p rest' htk hrest)

theorem wf_step {fx : Bool} {s s' : St} {e : CEv} (hw : WF s) (h : step fx s e = .ok s') : WF s' := by
  have hext := step_ext h
  have hanc := wf_ancOk_step hw h
  have hinv := step_ctxs_inv h
  cases e with
  | client c =>
    obtain ⟨hc, rfl⟩ := step_client_ok h
    refine ⟨?_, hanc, ?_, hw.logAlloc, hw.names⟩
    · intro τ tk x rest ht hch
      by_cases hτ : τ = c
      · subst hτ; simp at ht; subst ht; cases hch
      · simp only [upd_other _ _ _ _ hτ] at ht; exact hw.taskHead τ tk x rest ht hch
    · intro τ tk ht x hx
      by_cases hτ : τ = c
      · subst hτ; simp at ht; subst ht; cases hx
      · simp only [upd_other _ _ _ _ hτ] at ht; exact hw.taskAlloc τ tk ht x hx
  | spawn p c =>
    obtain ⟨tp, htp, hc, rfl⟩ := step_spawn_ok h
    refine ⟨?_, hanc, ?_, hw.logAlloc, hw.names⟩
    · intro τ tk x rest ht hch
      by_cases hτ : τ = c
      · subst hτ; simp at ht; subst ht; exact hw.taskHead p tp x rest htp hch
      · simp only [upd_other _ _ _ _ hτ] at ht; exact hw.taskHead τ tk x rest ht hch
    · intro τ tk ht x hx
      by_cases hτ : τ = c
      · subst hτ; simp at ht; subst ht; exact hw.taskAlloc p tp htp x hx
      · simp only [upd_other _ _ _ _ hτ] at ht; exact hw.taskAlloc τ tk ht x hx
  | open_ τ c =>
    obtain ⟨tk, htk, hc, rfl⟩ := step_open_ok h
    refine ⟨?_, hanc, ?_, ?_, ?_⟩
    · intro τ' tk' x rest ht hch
      by_cases hτ : τ' = τ
      · subst hτ; simp at ht; subst ht
        simp only [List.cons.injEq] at hch
        obtain ⟨rfl, rfl⟩ := hch
        exact ⟨_, upd_same _ _ _, rfl⟩
      · simp only [upd_other _ _ _ _ hτ] at ht
        exact hext.anc (hw.taskHead τ' tk' x rest ht hch)
    · intro τ' tk' ht x hx
      by_cases hτ : τ' = τ
      · subst hτ; simp at ht; subst ht
        rcases List.mem_cons.mp hx with rfl | hx
        · exact ⟨_, upd_same _ _ _⟩
        · exact hext.alloc (hw.taskAlloc τ' tk htk x hx)
      · simp only [upd_other _ _ _ _ hτ] at ht
        exact hext.alloc (hw.taskAlloc τ' tk' ht x hx)
    · intro e he x hx
      exact hext.alloc (hw.logAlloc e he x hx)
    · intro x r hx
      rcases hinv x r hx with ⟨r0, hr0, _⟩ | ⟨_, τ', tk', he, _, _⟩
      · exact List.mem_cons_of_mem _ (hw.names x r0 hr0)
      · cases he; exact List.mem_cons_self
  | wireStart τ t =>
    obtain ⟨tk, y, rest, ry, htk, hch, hy, _, rfl⟩ := wire_ok (b := true) h
    refine ⟨?_, hanc, ?_, ?_, ?_⟩
    · intro τ' tk' x rest ht hch
      exact hext.anc (hw.taskHead τ' tk' x rest ht hch)
    · intro τ' tk' ht x hx
      exact hext.alloc (hw.taskAlloc τ' tk' ht x hx)
    · intro e he x hx
      rcases List.mem_append.mp he with he | he
      · exact hext.alloc (hw.logAlloc e he x hx)
      · simp only [List.mem_singleton] at he; subst he
        exact hext.alloc (hw.taskAlloc τ tk htk x hx)
    · intro x r hx
      rcases hinv x r hx with ⟨r0, hr0, _⟩ | ⟨_, τ', tk', he, _, _⟩
      · exact hw.names x r0 hr0
      · cases he
  | wireEnd τ t =>
    obtain ⟨tk, y, rest, ry, htk, hch, hy, _, rfl⟩ := wire_ok (b := false) h
    refine ⟨?_, hanc, ?_, ?_, ?_⟩
    · intro τ' tk' x rest ht hch
      exact hext.anc (hw.taskHead τ' tk' x rest ht hch)
    · intro τ' tk' ht x hx
      exact hext.alloc (hw.taskAlloc τ' tk' ht x hx)
    · intro e he x hx
      rcases List.mem_append.mp he with he | he
      · exact hext.alloc (hw.logAlloc e he x hx)
      · simp only [List.mem_singleton] at he; subst he
        exact hext.alloc (hw.taskAlloc τ tk htk x hx)
    · intro x r hx
      rcases hinv x r hx with ⟨r0, hr0, _⟩ | ⟨_, τ', tk', he, _, _⟩
      · exact hw.names x r0 hr0
      · cases he
  | close τ exc =>
    obtain ⟨tk, c, rest, rc, htk, _, hch, hc, hcase⟩ := step_close_ok h
    have hnames : s'.names = s.names := by
      rcases hcase with ⟨_, rfl⟩ | ⟨p, rest', rp, _, hp, rfl⟩ <;> rfl
    have hlog : s'.log = s.log := by
      rcases hcase with ⟨_, rfl⟩ | ⟨p, rest', rp, _, hp, rfl⟩ <;> rfl
    have htasks : s'.tasks = upd s.tasks τ ⟨rest, tk.depth - 1⟩ := by
      rcases hcase with ⟨_, rfl⟩ | ⟨p, rest', rp, _, hp, rfl⟩ <;> rfl
    refine ⟨?_, hanc, ?_, ?_, ?_⟩
    · intro τ' tk' x rest1 ht hch1
      rw [htasks] at ht
      by_cases hτ : τ' = τ
      · subst hτ; simp at ht; subst ht
        simp only at hch1
        obtain ⟨r0, hr0, ha0⟩ := hw.taskHead τ' tk c rest htk hch
        obtain ⟨rest0, h1, _, h3⟩ := hw.ancOk c r0 hr0
        rw [ha0] at h1
        simp only [List.cons.injEq, true_and] at h1
        subst h1
        exact hext.anc (h3 x rest1 hch1)
      · simp only [upd_other _ _ _ _ hτ] at ht
        exact hext.anc (hw.taskHead τ' tk' x rest1 ht hch1)
    · intro τ' tk' ht x hx
      rw [htasks] at ht
      by_cases hτ : τ' = τ
      · subst hτ; simp at ht; subst ht
        exact hext.alloc (hw.taskAlloc τ' tk htk x (by rw [hch]; exact List.mem_cons_of_mem _ hx))
      · simp only [upd_other _ _ _ _ hτ] at ht
        exact hext.alloc (hw.taskAlloc τ' tk' ht x hx)
    · intro e he x hx
      rw [hlog] at he
      exact hext.alloc (hw.logAlloc e he x hx)
    · intro x r hx
      rw [hnames]
      rcases hinv x r hx with ⟨r0, hr0, _⟩ | ⟨_, τ', tk', he, _, _⟩
      · exact hw.names x r0 hr0
      · cases he

theorem wf_runFrom {fx : Bool} {evs : List CEv} {s s' : St} (hw : WF s) (h : runFrom fx s evs = .ok s') : WF s' := by
  induction evs generalizing s with
  | nil => simp [runFrom] at h; subst h; exact hw
  | cons e es ih =>
    simp only [runFrom] at h
    split at h
    · rename_i s1 hs1; exact ih (wf_step hw hs1) h
    · cases h


/-! ## Part 2: a context without child contexts carries exactly its own wire requests -/

def NoChild (s : St) (x : Nat) : Prop := ∀ y ry, s.ctxs y = some ry → ry.parent ≠ some x

def LeafOk (s : St) (x : Nat) (r : Rec) : Prop :=
  r.start = (minOpt (directTimes s.log true x)).map some ∧
  r.stop = (maxOpt (directTimes s.log false x)).map some

structure ExactInv (s : St) : Prop where
  wf : WF s
  leaf : ∀ x r, s.ctxs x = some r → NoChild s x → LeafOk s x r

theorem noChild_mono {s s' : St} (hext : Ext s s') {x : Nat} (h : NoChild s' x) : NoChild s x := by
  intro y ry hy hp
  obtain ⟨ry', hy', _, hpar, _⟩ := hext y ry hy
  exact h y ry' hy' (hpar.trans hp)

theorem setStart_direct {fx : Bool} {r : Rec} {D : List Rat} {t : Rat} (hD : ∀ x ∈ D, x ≤ t)
    (h : r.start = (minOpt D).map some) :
    (setStart fx r (some t)).start = (minOpt (D ++ [t])).map some := by
  rw [minOpt_snoc_ge D t hD]
  cases hm : minOpt D with
  | none =>
    rw [hm] at h
    simp only [Option.map_none] at h
    cases fx <;> simp [setStart, h]
  | some m =>
    rw [hm] at h
    simp only [Option.map_some] at h
    have hmt : m ≤ t := hD m (minOpt_spec hm).1
    have : ¬ t < m := Rat.not_lt.mpr hmt
    cases fx <;> simp [setStart, h, this]

theorem setStop_direct {fx : Bool} {r : Rec} {D : List Rat} {t : Rat} (hD : ∀ x ∈ D, x ≤ t)
    (h : r.stop = (maxOpt D).map some) :
    (setStop fx r (some t)).stop = (maxOpt (D ++ [t])).map some := by
  rw [maxOpt_snoc_ge D t hD]
  cases hm : maxOpt D with
  | none =>
    rw [hm] at h
    simp only [Option.map_none] at h
    cases fx <;> simp [setStop, h]
  | some m =>
    rw [hm] at h
    simp only [Option.map_some] at h
    have hmt : m ≤ t := hD m (maxOpt_spec hm).1
    cases fx
    · simp [setStop]
    · by_cases hlt : m < t
      · simp [setStop, h, hlt]
      · have : m = t := Rat.le_antisymm hmt (Rat.not_lt.mp hlt)
        simp [setStop, h, this]

theorem exact_step {fx : Bool} {s s' : St} {e : CEv} (hi : ExactInv s) (h : step fx s e = .ok s') :
    ExactInv s' := by
  have hext := step_ext h
  refine ⟨wf_step hi.wf h, ?_⟩
  intro x r' hx hleaf
  have hleaf0 := noChild_mono hext hleaf
  cases e with
  | client c =>
    obtain ⟨_, rfl⟩ := step_client_ok h
    exact hi.leaf x r' hx hleaf0
  | spawn p c =>
    obtain ⟨_, _, _, rfl⟩ := step_spawn_ok h
    exact hi.leaf x r' hx hleaf0
  | open_ τ c =>
    obtain ⟨tk, htk, hc, rfl⟩ := step_open_ok h
    by_cases hxc : x = c
    · subst hxc
      simp only [upd_same, Option.some.injEq] at hx
      subst hx
      have hnot : ∀ e ∈ s.log, x ∉ e.chain := by
        intro e he hm
        obtain ⟨r, hr⟩ := hi.wf.logAlloc e he x hm
        rw [hc] at hr; cases hr
      simp [LeafOk, directTimes_nil_of_not_mem hnot, minOpt, maxOpt]
    · simp only [upd_other _ _ _ _ hxc] at hx
      exact hi.leaf x r' hx hleaf0
  | wireStart τ t =>
    obtain ⟨tk, y, rest, ry, htk, hch, hy, hck, rfl⟩ := wire_ok (b := true) h
    have hle := clockOk_iff.mp hck
    by_cases hxy : x = y
    · subst hxy
      simp only [upd_same, Option.some.injEq] at hx
      subst hx
      obtain ⟨h1, h2⟩ := hi.leaf x ry hy hleaf0
      constructor
      · simp only [directTimes_append, hch, List.head?_cons, beq_self_eq_true, Bool.and_self, if_true]
        exact setStart_direct (directTimes_le hle true x) h1
      · simp only [directTimes_append, if_true, setStart_stop]
        simpa using h2
    · simp only [upd_other _ _ _ _ hxy] at hx
      obtain ⟨h1, h2⟩ := hi.leaf x r' hx hleaf0
      have hne : (some y == some x) = false := by simp [Ne.symm hxy]
      constructor
      · simp only [directTimes_append, hch, List.head?_cons, hne, Bool.and_false]
        simpa using h1
      · simp only [directTimes_append, hch, List.head?_cons, hne, Bool.and_false]
        simpa using h2
  | wireEnd τ t =>
    obtain ⟨tk, y, rest, ry, htk, hch, hy, hck, rfl⟩ := wire_ok (b := false) h
    have hle := clockOk_iff.mp hck
    by_cases hxy : x = y
    · subst hxy
      simp only [upd_same, Option.some.injEq] at hx
      subst hx
      obtain ⟨h1, h2⟩ := hi.leaf x ry hy hleaf0
      constructor
      · simp only [directTimes_append]
        simpa using h1
      · simp only [directTimes_append, hch, List.head?_cons, beq_self_eq_true, Bool.and_self, if_true]
        exact setStop_direct (directTimes_le hle false x) h2
    · simp only [upd_other _ _ _ _ hxy] at hx
      obtain ⟨h1, h2⟩ := hi.leaf x r' hx hleaf0
      have hne : (some y == some x) = false := by simp [Ne.symm hxy]
      constructor
      · simp only [directTimes_append, hch, List.head?_cons, hne, Bool.and_false]
        simpa using h1
      · simp only [directTimes_append, hch, List.head?_cons, hne, Bool.and_false]
        simpa using h2
  | close τ exc =>
    obtain ⟨tk, c, rest, rc, htk, _, hch, hc, hcase⟩ := step_close_ok h
    rcases hcase with ⟨_, rfl⟩ | ⟨p, rest', rp, hrest, hp, rfl⟩
    · by_cases hxc : x = c
      · subst hxc
        simp only [upd_same, Option.some.injEq] at hx
        subst hx
        exact hi.leaf x rc hc hleaf0
      · simp only [upd_other _ _ _ _ hxc] at hx
        exact hi.leaf x r' hx hleaf0
    · -- `c` is a child of `p`
      obtain ⟨r0, hr0, ha0⟩ := hi.wf.taskHead τ tk c rest htk hch
      rw [hc] at hr0; cases hr0
      obtain ⟨rest0, h1, h2, _⟩ := hi.wf.ancOk c rc hc
      rw [ha0] at h1
      simp only [List.cons.injEq, true_and] at h1
      subst h1
      have hpar : rc.parent = some p := by rw [h2, hrest]; rfl
      have hcp : c ≠ p := by
        intro e; subst e
        rw [hc] at hp; cases hp
        obtain ⟨rest1, h3, _, h4⟩ := hi.wf.ancOk c rc hc
        obtain ⟨rp, hrp, hap⟩ := h4 c rest' (by
          rw [ha0] at h3; simp only [List.cons.injEq, true_and] at h3; rw [← h3, hrest])
        rw [hc] at hrp; cases hrp
        rw [ha0, hrest] at hap
        have := congrArg List.length hap
        simp at this
      by_cases hxp : x = p
      · subst hxp
        exfalso
        exact hleaf c { rc with closed := true } (by simp [upd_other _ _ _ _ hcp]) hpar
      · simp only [upd_other _ _ _ _ hxp] at hx
        by_cases hxc : x = c
        · subst hxc
          simp only [upd_same, Option.some.injEq] at hx
          subst hx
          exact hi.leaf x rc hc hleaf0
        · simp only [upd_other _ _ _ _ hxc] at hx
          exact hi.leaf x r' hx hleaf0

theorem exact_init : ExactInv init := ⟨wf_init, by intro x r hx; simp [init] at hx⟩

theorem exact_runFrom {fx : Bool} {evs : List CEv} {s s' : St} (hi : ExactInv s)
    (h : runFrom fx s evs = .ok s') : ExactInv s' := by
  induction evs generalizing s with
  | nil => simp [runFrom] at h; subst h; exact hi
  | cons e es ih =>
    simp only [runFrom] at h
    split at h
    · rename_i s1 hs1; exact ih (exact_step hi hs1) h
    · cases h

theorem isLeaf_noChild {s : St} (hw : WF s) {c : Nat} (h : isLeaf s c = true) : NoChild s c := by
  intro y ry hy hp
  have hmem := hw.names y ry hy
  simp only [isLeaf, List.all_eq_true] at h
  have := h y hmem
  simp [hy, hp] at this


/-! ## Part 3: non-interference (simulation between a run and the run of a projection) -/

/-- `s'` is what remains of `s` when only the tasks in `P` (and the dicts they opened) are kept -/
structure Sim (P : Nat → Bool) (s s' : St) : Prop where
  tasks : ∀ τ, s'.tasks τ = if P τ = true then s.tasks τ else none
  ctxs : ∀ x, s'.ctxs x = (s.ctxs x).filter (fun r => P r.opener)
  log : s'.log = s.log.filter (fun e => P e.task)
  sep : ∀ τ tk, s.tasks τ = some tk → ∀ x ∈ tk.chain, ∃ r, s.ctxs x = some r ∧ P r.opener = P τ

theorem sim_init (P : Nat → Bool) : Sim P init init := by
  refine ⟨?_, ?_, ?_, ?_⟩ <;> intros <;> simp_all [init]

theorem Sim.ctx_in {P : Nat → Bool} {s s' : St} (hs : Sim P s s') {x : Nat} {r : Rec}
    (hx : s.ctxs x = some r) (hp : P r.opener = true) : s'.ctxs x = some r := by
  rw [hs.ctxs, hx]; simp [Option.filter, hp]

theorem Sim.ctx_out {P : Nat → Bool} {s s' : St} (hs : Sim P s s') {x : Nat} {r : Rec}
    (hx : s.ctxs x = some r) (hp : P r.opener = false) : s'.ctxs x = none := by
  rw [hs.ctxs, hx]; simp [Option.filter, hp]

theorem Sim.task_in {P : Nat → Bool} {s s' : St} (hs : Sim P s s') {τ : Nat} (hp : P τ = true) :
    s'.tasks τ = s.tasks τ := by
  rw [hs.tasks, if_pos hp]

theorem Sim.task_out {P : Nat → Bool} {s s' : St} (hs : Sim P s s') {τ : Nat} (hp : P τ = false) :
    s'.tasks τ = none := by
  rw [hs.tasks, if_neg (by simp [hp])]

theorem sep_step {fx : Bool} {P : Nat → Bool} {s s1 : St} {e : CEv}
    (hsep : ∀ τ tk, s.tasks τ = some tk → ∀ x ∈ tk.chain, ∃ r, s.ctxs x = some r ∧ P r.opener = P τ)
    (h : step fx s e = .ok s1) (hsp : ∀ p c, e = .spawn p c → P c = P p) :
    ∀ τ tk, s1.tasks τ = some tk → ∀ x ∈ tk.chain, ∃ r, s1.ctxs x = some r ∧ P r.opener = P τ := by
  have hext := step_ext h
  have keep : ∀ τ tk, s.tasks τ = some tk → ∀ x ∈ tk.chain, ∃ r, s1.ctxs x = some r ∧ P r.opener = P τ := by
    intro τ tk ht x hx
    obtain ⟨r, hr, hp⟩ := hsep τ tk ht x hx
    obtain ⟨r', hr', _, _, ho⟩ := hext x r hr
    exact ⟨r', hr', by rw [ho]; exact hp⟩
  intro τ' tk' ht x hx
  cases e with
  | client c =>
    obtain ⟨_, rfl⟩ := step_client_ok h
    by_cases hτ : τ' = c
    · subst hτ; simp at ht; subst ht; cases hx
    · simp only [upd_other _ _ _ _ hτ] at ht; exact keep τ' tk' ht x hx
  | spawn p c =>
    obtain ⟨tp, htp, _, rfl⟩ := step_spawn_ok h
    by_cases hτ : τ' = c
    · subst hτ; simp at ht; subst ht
      obtain ⟨r, hr, hp⟩ := keep p tp htp x hx
      exact ⟨r, hr, by rw [hp, hsp p τ' rfl]⟩
    · simp only [upd_other _ _ _ _ hτ] at ht; exact keep τ' tk' ht x hx
  | open_ τ c =>
    obtain ⟨tk, htk, hc, rfl⟩ := step_open_ok h
    by_cases hτ : τ' = τ
    · subst hτ; simp at ht; subst ht
      rcases List.mem_cons.mp hx with rfl | hx
      · exact ⟨_, upd_same _ _ _, rfl⟩
      · exact keep τ' tk htk x hx
    · simp only [upd_other _ _ _ _ hτ] at ht; exact keep τ' tk' ht x hx
  | wireStart τ t =>
    obtain ⟨tk, y, rest, ry, htk, hch, hy, _, rfl⟩ := wire_ok (b := true) h
    exact keep τ' tk' ht x hx
  | wireEnd τ t =>
    obtain ⟨tk, y, rest, ry, htk, hch, hy, _, rfl⟩ := wire_ok (b := false) h
    exact keep τ' tk' ht x hx
  | close τ exc =>
    obtain ⟨tk, c, rest, rc, htk, _, hch, hc, hcase⟩ := step_close_ok h
    have htasks : s1.tasks = upd s.tasks τ ⟨rest, tk.depth - 1⟩ := by
      rcases hcase with ⟨_, rfl⟩ | ⟨p, rest', rp, _, hp, rfl⟩ <;> rfl
    rw [htasks] at ht
    by_cases hτ : τ' = τ
    · subst hτ; simp at ht; subst ht
      exact keep τ' tk htk x (by rw [hch]; exact List.mem_cons_of_mem _ hx)
    · simp only [upd_other _ _ _ _ hτ] at ht; exact keep τ' tk' ht x hx

/-- an event of a task outside `P` is invisible in the projection -/
theorem sim_step_out {fx : Bool} {P : Nat → Bool} {s s' s1 : St} {e : CEv} (hs : Sim P s s')
    (h : step fx s e = .ok s1) (hsp : ∀ p c, e = .spawn p c → P c = P p) (hP : P e.task = false) :
    Sim P s1 s' := by
  have hsep := sep_step hs.sep h hsp
  cases e with
  | client c =>
    obtain ⟨_, rfl⟩ := step_client_ok h
    refine ⟨?_, hs.ctxs, hs.log, hsep⟩
    intro τ
    by_cases hτ : τ = c
    · subst hτ; simp only [CEv.task] at hP; simp [hs.task_out hP, hP]
    · simp only [upd_other _ _ _ _ hτ]; exact hs.tasks τ
  | spawn p c =>
    obtain ⟨tp, htp, _, rfl⟩ := step_spawn_ok h
    refine ⟨?_, hs.ctxs, hs.log, hsep⟩
    intro τ
    by_cases hτ : τ = c
    · subst hτ
      simp only [CEv.task] at hP
      have : P τ = false := by rw [hsp p τ rfl]; exact hP
      simp [hs.task_out this, this]
    · simp only [upd_other _ _ _ _ hτ]; exact hs.tasks τ
  | open_ τ c =>
    obtain ⟨tk, htk, hc, rfl⟩ := step_open_ok h
    simp only [CEv.task] at hP
    refine ⟨?_, ?_, hs.log, hsep⟩
    · intro τ'
      by_cases hτ : τ' = τ
      · subst hτ; simp [hs.task_out hP, hP]
      · simp only [upd_other _ _ _ _ hτ]; exact hs.tasks τ'
    · intro x
      by_cases hx : x = c
      · subst hx; simp [hs.ctxs x, hc, Option.filter, hP]
      · simp only [upd_other _ _ _ _ hx]; exact hs.ctxs x
  | wireStart τ t =>
    obtain ⟨tk, y, rest, ry, htk, hch, hy, _, rfl⟩ := wire_ok (b := true) h
    simp only [CEv.task] at hP
    obtain ⟨r0, hr0, hp0⟩ := hs.sep τ tk htk y (by rw [hch]; exact List.mem_cons_self)
    rw [hy] at hr0; cases hr0
    rw [hP] at hp0
    refine ⟨hs.tasks, ?_, ?_, hsep⟩
    · intro x
      by_cases hx : x = y
      · subst hx; simp [hs.ctx_out hy hp0, Option.filter, hp0]
      · simp only [upd_other _ _ _ _ hx]; exact hs.ctxs x
    · simp [List.filter_append, hs.log, hP]
  | wireEnd τ t =>
    obtain ⟨tk, y, rest, ry, htk, hch, hy, _, rfl⟩ := wire_ok (b := false) h
    simp only [CEv.task] at hP
    obtain ⟨r0, hr0, hp0⟩ := hs.sep τ tk htk y (by rw [hch]; exact List.mem_cons_self)
    rw [hy] at hr0; cases hr0
    rw [hP] at hp0
    refine ⟨hs.tasks, ?_, ?_, hsep⟩
    · intro x
      by_cases hx : x = y
      · subst hx; simp [hs.ctx_out hy hp0, Option.filter, hp0]
      · simp only [upd_other _ _ _ _ hx]; exact hs.ctxs x
    · simp [List.filter_append, hs.log, hP]
  | close τ exc =>
    obtain ⟨tk, c, rest, rc, htk, _, hch, hc, hcase⟩ := step_close_ok h
    simp only [CEv.task] at hP
    obtain ⟨r0, hr0, hp0⟩ := hs.sep τ tk htk c (by rw [hch]; exact List.mem_cons_self)
    rw [hc] at hr0; cases hr0
    rw [hP] at hp0
    rcases hcase with ⟨_, rfl⟩ | ⟨p, rest', rp, hrest, hp, rfl⟩
    · refine ⟨?_, ?_, hs.log, hsep⟩
      · intro τ'
        by_cases hτ : τ' = τ
        · subst hτ; simp [hs.task_out hP, hP]
        · simp only [upd_other _ _ _ _ hτ]; exact hs.tasks τ'
      · intro x
        by_cases hx : x = c
        · subst hx; simp [hs.ctx_out hc hp0, Option.filter, hp0]
        · simp only [upd_other _ _ _ _ hx]; exact hs.ctxs x
    · obtain ⟨r1, hr1, hp1⟩ := hs.sep τ tk htk p (by rw [hch, hrest]; simp)
      rw [hp] at hr1; cases hr1
      rw [hP] at hp1
      refine ⟨?_, ?_, hs.log, hsep⟩
      · intro τ'
        by_cases hτ : τ' = τ
        · subst hτ; simp [hs.task_out hP, hP]
        · simp only [upd_other _ _ _ _ hτ]; exact hs.tasks τ'
      · intro x
        by_cases hxp : x = p
        · subst hxp; simp [hs.ctx_out hp hp1, Option.filter, hp1]
        · simp only [upd_other _ _ _ _ hxp]
          by_cases hx : x = c
          · subst hx; simp [hs.ctx_out hc hp0, Option.filter, hp0]
          · simp only [upd_other _ _ _ _ hx]; exact hs.ctxs x

theorem clockOk_filter {P : Nat → Bool} {s s' : St} (hl : s'.log = s.log.filter (fun e => P e.task)) {t : Rat}
    (h : clockOk s t = true) : clockOk s' t = true := by
  rw [clockOk_iff] at *
  intro e he
  rw [hl] at he
  exact h e (List.mem_filter.mp he).1

/-- an event of a task in `P` happens identically in the projection -/
theorem sim_step_in {fx : Bool} {P : Nat → Bool} {s s' s1 : St} {e : CEv} (hs : Sim P s s')
    (h : step fx s e = .ok s1) (hsp : ∀ p c, e = .spawn p c → P c = P p) (hP : P e.task = true) :
    ∃ s1', step fx s' e = .ok s1' ∧ Sim P s1 s1' := by
  have hsep := sep_step hs.sep h hsp
  cases e with
  | client c =>
    obtain ⟨hc, rfl⟩ := step_client_ok h
    simp only [CEv.task] at hP
    have hc' : s'.tasks c = none := by rw [hs.task_in hP]; exact hc
    have hstep : step fx s' (.client c) =
        .ok { s' with tasks := upd s'.tasks c ⟨[], 0⟩, tnames := c :: s'.tnames } := by simp [step, hc']
    refine ⟨_, hstep, ?_, hs.ctxs, hs.log, hsep⟩
    intro τ
    by_cases hτ : τ = c
    · subst hτ; simp [hP]
    · simp only [upd_other _ _ _ _ hτ]; exact hs.tasks τ
  | spawn p c =>
    obtain ⟨tp, htp, hc, rfl⟩ := step_spawn_ok h
    simp only [CEv.task] at hP
    have hPc : P c = true := by rw [hsp p c rfl]; exact hP
    have hc' : s'.tasks c = none := by rw [hs.task_in hPc]; exact hc
    have hp' : s'.tasks p = some tp := by rw [hs.task_in hP]; exact htp
    have hstep : step fx s' (.spawn p c) =
        .ok { s' with tasks := upd s'.tasks c ⟨tp.chain, 0⟩, tnames := c :: s'.tnames } := by
      simp [step, hc', hp']
    refine ⟨_, hstep, ?_, hs.ctxs, hs.log, hsep⟩
    intro τ
    by_cases hτ : τ = c
    · subst hτ; simp [hPc]
    · simp only [upd_other _ _ _ _ hτ]; exact hs.tasks τ
  | open_ τ c =>
    obtain ⟨tk, htk, hc, rfl⟩ := step_open_ok h
    simp only [CEv.task] at hP
    have hτ' : s'.tasks τ = some tk := by rw [hs.task_in hP]; exact htk
    have hc' : s'.ctxs c = none := by rw [hs.ctxs, hc]; rfl
    have hstep : step fx s' (.open_ τ c) =
        .ok { s' with
              ctxs := upd s'.ctxs c ⟨tk.chain.head?, c :: tk.chain, τ, none, none, false⟩,
              tasks := upd s'.tasks τ ⟨c :: tk.chain, tk.depth + 1⟩,
              names := c :: s'.names } := by simp [step, hc', hτ']
    refine ⟨_, hstep, ?_, ?_, hs.log, hsep⟩
    · intro τ'
      by_cases hτ : τ' = τ
      · subst hτ; simp [hP]
      · simp only [upd_other _ _ _ _ hτ]; exact hs.tasks τ'
    · intro x
      by_cases hx : x = c
      · subst hx; simp [Option.filter, hP]
      · simp only [upd_other _ _ _ _ hx]; exact hs.ctxs x
  | wireStart τ t =>
    obtain ⟨tk, y, rest, ry, htk, hch, hy, hck, rfl⟩ := wire_ok (b := true) h
    simp only [CEv.task] at hP
    obtain ⟨r0, hr0, hp0⟩ := hs.sep τ tk htk y (by rw [hch]; exact List.mem_cons_self)
    rw [hy] at hr0; cases hr0
    rw [hP] at hp0
    have hτ' : s'.tasks τ = some tk := by rw [hs.task_in hP]; exact htk
    have hy' := hs.ctx_in hy hp0
    have hck' := clockOk_filter hs.log hck
    have hstep : step fx s' (.wireStart τ t) =
        .ok { s' with
              ctxs := upd s'.ctxs y (setStart fx ry (some t)),
              log := s'.log ++ [⟨τ, tk.chain, true, t⟩],
              late := s'.late || anyClosed s' tk.chain } := by
      simp [step, wire, hτ', hch, hy', hck']
    refine ⟨_, hstep, hs.tasks, ?_, ?_, hsep⟩
    · intro x
      by_cases hx : x = y
      · subst hx; simp [Option.filter, hp0]
      · simp only [upd_other _ _ _ _ hx]; exact hs.ctxs x
    · simp [List.filter_append, hs.log, hP]
  | wireEnd τ t =>
    obtain ⟨tk, y, rest, ry, htk, hch, hy, hck, rfl⟩ := wire_ok (b := false) h
    simp only [CEv.task] at hP
    obtain ⟨r0, hr0, hp0⟩ := hs.sep τ tk htk y (by rw [hch]; exact List.mem_cons_self)
    rw [hy] at hr0; cases hr0
    rw [hP] at hp0
    have hτ' : s'.tasks τ = some tk := by rw [hs.task_in hP]; exact htk
    have hy' := hs.ctx_in hy hp0
    have hck' := clockOk_filter hs.log hck
    have hstep : step fx s' (.wireEnd τ t) =
        .ok { s' with
              ctxs := upd s'.ctxs y (setStop fx ry (some t)),
              log := s'.log ++ [⟨τ, tk.chain, false, t⟩],
              late := s'.late || anyClosed s' tk.chain } := by
      simp [step, wire, hτ', hch, hy', hck']
    refine ⟨_, hstep, hs.tasks, ?_, ?_, hsep⟩
    · intro x
      by_cases hx : x = y
      · subst hx; simp [Option.filter, hp0]
      · simp only [upd_other _ _ _ _ hx]; exact hs.ctxs x
    · simp [List.filter_append, hs.log, hP]
  | close τ exc =>
    obtain ⟨tk, c, rest, rc, htk, hd, hch, hc, hcase⟩ := step_close_ok h
    simp only [CEv.task] at hP
    obtain ⟨r0, hr0, hp0⟩ := hs.sep τ tk htk c (by rw [hch]; exact List.mem_cons_self)
    rw [hc] at hr0; cases hr0
    rw [hP] at hp0
    have hτ' : s'.tasks τ = some tk := by rw [hs.task_in hP]; exact htk
    have hc' := hs.ctx_in hc hp0
    rcases hcase with ⟨hrest, rfl⟩ | ⟨p, rest', rp, hrest, hp, rfl⟩
    · subst hrest
      have hstep : step fx s' (.close τ exc) =
          .ok { s' with ctxs := upd s'.ctxs c { rc with closed := true },
                        tasks := upd s'.tasks τ ⟨[], tk.depth - 1⟩ } := by
        simp [step, hτ', hch, hc', hd]
      refine ⟨_, hstep, ?_, ?_, hs.log, hsep⟩
      · intro τ'
        by_cases hτ : τ' = τ
        · subst hτ; simp [hP]
        · simp only [upd_other _ _ _ _ hτ]; exact hs.tasks τ'
      · intro x
        by_cases hx : x = c
        · subst hx; simp [Option.filter, hp0]
        · simp only [upd_other _ _ _ _ hx]; exact hs.ctxs x
    · subst hrest
      obtain ⟨r1, hr1, hp1⟩ := hs.sep τ tk htk p (by rw [hch]; simp)
      rw [hp] at hr1; cases hr1
      rw [hP] at hp1
      have hp' := hs.ctx_in hp hp1
      have hstep : step fx s' (.close τ exc) =
          .ok { s' with
                ctxs := upd (upd s'.ctxs c { rc with closed := true }) p
                          (setStop fx (setStart fx rp rc.getStart) rc.getStop),
                tasks := upd s'.tasks τ ⟨p :: rest', tk.depth - 1⟩,
                late := s'.late || anyClosed s' (p :: rest'),
                emptyClose := s'.emptyClose || rc.getStart.isNone || rc.getStop.isNone } := by
        simp [step, hτ', hch, hc', hd, hp']
      refine ⟨_, hstep, ?_, ?_, hs.log, hsep⟩
      · intro τ'
        by_cases hτ : τ' = τ
        · subst hτ; simp [hP]
        · simp only [upd_other _ _ _ _ hτ]; exact hs.tasks τ'
      · intro x
        by_cases hxp : x = p
        · subst hxp; simp [Option.filter, hp1]
        · simp only [upd_other _ _ _ _ hxp]
          by_cases hx : x = c
          · subst hx; simp [Option.filter, hp0]
          · simp only [upd_other _ _ _ _ hx]; exact hs.ctxs x

/-- the projection of a successful run runs successfully and is the projection of its result -/
theorem sim_runFrom {fx : Bool} {P : Nat → Bool} {evs : List CEv} {s s' s1 : St} (hs : Sim P s s')
    (h : runFrom fx s evs = .ok s1) (hsp : ∀ p c, CEv.spawn p c ∈ evs → P c = P p) :
    ∃ s1', runFrom fx s' (evs.filter (fun e => P e.task)) = .ok s1' ∧ Sim P s1 s1' := by
  induction evs generalizing s s' with
  | nil => simp only [runFrom, Except.ok.injEq] at h; subst h; exact ⟨s', rfl, hs⟩
  | cons e es ih =>
    simp only [runFrom] at h
    split at h
    · rename_i s2 hs2
      have hsp1 : ∀ p c, e = .spawn p c → P c = P p := fun p c he => hsp p c (by rw [he]; exact List.mem_cons_self)
      have hsp2 : ∀ p c, CEv.spawn p c ∈ es → P c = P p := fun p c he => hsp p c (List.mem_cons_of_mem _ he)
      by_cases hP : P e.task = true
      · obtain ⟨s2', hstep, hs2'⟩ := sim_step_in hs hs2 hsp1 hP
        obtain ⟨s1', hrun, hfin⟩ := ih hs2' h hsp2
        refine ⟨s1', ?_, hfin⟩
        simp only [List.filter_cons, hP, ↓reduceIte, runFrom, hstep]
        exact hrun
      · have hP' : P e.task = false := by simpa using hP
        have hs2' := sim_step_out hs hs2 hsp1 hP'
        obtain ⟨s1', hrun, hfin⟩ := ih hs2' h hsp2
        refine ⟨s1', ?_, hfin⟩
        simp only [List.filter_cons, hP', Bool.false_eq_true, ↓reduceIte]
        exact hrun
    · cases h


/-! ## Part 4: sequential nesting (no task creation inside a request) — historical, pre-fix code `fx = false` -/

/-- effect of one more wire event on the specification values -/
def bumpStart (t : Rat) : PyVal → PyVal
  | none => some t
  | some m => some m

theorem specStart_wire_in {s : St} {τ : Nat} {chain : List Nat} {t : Rat} {x : Nat}
    (hle : ∀ e ∈ s.log, e.t ≤ t) (hx : x ∈ chain) :
    minOpt (timesFor (s.log ++ [⟨τ, chain, true, t⟩]) true x) = bumpStart t (specStart s x) := by
  rw [timesFor_append]
  simp only [beq_self_eq_true, Bool.true_and, List.contains_eq_mem, hx, decide_true, if_true]
  rw [minOpt_snoc_ge _ _ (timesFor_le hle true x)]
  unfold specStart bumpStart
  cases minOpt (timesFor s.log true x) <;> rfl

theorem specStop_wire_in {s : St} {τ : Nat} {chain : List Nat} {t : Rat} {x : Nat}
    (hle : ∀ e ∈ s.log, e.t ≤ t) (hx : x ∈ chain) :
    maxOpt (timesFor (s.log ++ [⟨τ, chain, false, t⟩]) false x) = some t := by
  rw [timesFor_append]
  simp only [beq_self_eq_true, Bool.true_and, List.contains_eq_mem, hx, decide_true, if_true]
  exact maxOpt_snoc_ge _ _ (timesFor_le hle false x)

theorem timesFor_wire_out {log : List LogE} {τ : Nat} {chain : List Nat} {b b' : Bool} {t : Rat} {x : Nat}
    (hx : x ∉ chain) : timesFor (log ++ [⟨τ, chain, b, t⟩]) b' x = timesFor log b' x := by
  rw [timesFor_append]
  simp [hx]

theorem timesFor_wire_other {log : List LogE} {τ : Nat} {chain : List Nat} {b b' : Bool} {t : Rat} {x : Nat}
    (hb : b ≠ b') : timesFor (log ++ [⟨τ, chain, b, t⟩]) b' x = timesFor log b' x := by
  rw [timesFor_append]
  simp [hb]

theorem spec_le {s : St} {t : Rat} (hle : ∀ e ∈ s.log, e.t ≤ t) {x : Nat} {m : Rat} :
    (specStart s x = some m → m ≤ t) ∧ (specStop s x = some m → m ≤ t) := by
  constructor
  · intro h; exact timesFor_le hle true x m (minOpt_spec h).1
  · intro h; exact timesFor_le hle false x m (maxOpt_spec h).1

def TopOk (s : St) (x : Nat) : Prop :=
  ∀ r, s.ctxs x = some r → r.getStart = specStart s x ∧ r.getStop = specStop s x

/-- `y` is the innermost open child of `x`: what `x` holds + what `y` will hand over = the specification -/
def LinkOk (s : St) (y x : Nat) : Prop :=
  ∀ r, s.ctxs x = some r →
    (r.getStart ≠ none → r.getStart = specStart s x) ∧
    (r.getStart = none → specStart s x = specStart s y) ∧
    (specStop s y ≠ none → specStop s x = specStop s y) ∧
    (specStop s y = none → r.getStop = specStop s x)

def Links (s : St) : Nat → List Nat → Prop
  | _, [] => True
  | y, x :: rest => LinkOk s y x ∧ Links s x rest

def ChainRel (s : St) : List Nat → Prop
  | [] => True
  | x :: rest => TopOk s x ∧ Links s x rest

theorem links_frame {s s' : St} {y : Nat} {l : List Nat}
    (hc : ∀ x ∈ l, s'.ctxs x = s.ctxs x)
    (hs : ∀ x ∈ y :: l, specStart s' x = specStart s x ∧ specStop s' x = specStop s x)
    (h : Links s y l) : Links s' y l := by
  induction l generalizing y with
  | nil => trivial
  | cons x rest ih =>
    obtain ⟨h1, h2⟩ := h
    refine ⟨?_, ih (fun z hz => hc z (List.mem_cons_of_mem _ hz))
      (fun z hz => hs z (List.mem_cons_of_mem _ hz)) h2⟩
    intro r hr
    rw [hc x List.mem_cons_self] at hr
    have hy := hs y List.mem_cons_self
    have hx := hs x (List.mem_cons_of_mem _ List.mem_cons_self)
    rw [hy.1, hy.2, hx.1, hx.2]
    exact h1 r hr

theorem chainRel_frame {s s' : St} {l : List Nat}
    (hc : ∀ x ∈ l, s'.ctxs x = s.ctxs x)
    (hs : ∀ x ∈ l, specStart s' x = specStart s x ∧ specStop s' x = specStop s x)
    (h : ChainRel s l) : ChainRel s' l := by
  cases l with
  | nil => trivial
  | cons x rest =>
    obtain ⟨h1, h2⟩ := h
    refine ⟨?_, links_frame (fun z hz => hc z (List.mem_cons_of_mem _ hz)) hs h2⟩
    intro r hr
    rw [hc x List.mem_cons_self] at hr
    have hx := hs x List.mem_cons_self
    rw [hx.1, hx.2]
    exact h1 r hr

theorem links_wireStart {s s' : St} {t : Rat} {y : Nat} {l : List Nat}
    (hc : ∀ x ∈ l, s'.ctxs x = s.ctxs x)
    (hs : ∀ x ∈ y :: l, specStart s' x = bumpStart t (specStart s x) ∧ specStop s' x = specStop s x)
    (h : Links s y l) : Links s' y l := by
  induction l generalizing y with
  | nil => trivial
  | cons x rest ih =>
    obtain ⟨h1, h2⟩ := h
    refine ⟨?_, ih (fun z hz => hc z (List.mem_cons_of_mem _ hz))
      (fun z hz => hs z (List.mem_cons_of_mem _ hz)) h2⟩
    intro r hr
    rw [hc x List.mem_cons_self] at hr
    have hy := hs y List.mem_cons_self
    have hx := hs x (List.mem_cons_of_mem _ List.mem_cons_self)
    obtain ⟨a1, a2, a3, a4⟩ := h1 r hr
    rw [hy.1, hy.2, hx.1, hx.2]
    refine ⟨?_, ?_, a3, a4⟩
    · intro hne
      have := a1 hne
      rw [← this]
      cases hg : r.getStart with
      | none => exact absurd hg hne
      | some m => rfl
    · intro hn
      rw [a2 hn]

theorem links_wireEnd {s s' : St} {t : Rat} {y : Nat} {l : List Nat}
    (hc : ∀ x ∈ l, s'.ctxs x = s.ctxs x)
    (hs : ∀ x ∈ y :: l, specStart s' x = specStart s x ∧ specStop s' x = some t)
    (h : Links s y l) : Links s' y l := by
  induction l generalizing y with
  | nil => trivial
  | cons x rest ih =>
    obtain ⟨h1, h2⟩ := h
    refine ⟨?_, ih (fun z hz => hc z (List.mem_cons_of_mem _ hz))
      (fun z hz => hs z (List.mem_cons_of_mem _ hz)) h2⟩
    intro r hr
    rw [hc x List.mem_cons_self] at hr
    have hy := hs y List.mem_cons_self
    have hx := hs x (List.mem_cons_of_mem _ List.mem_cons_self)
    obtain ⟨a1, a2, a3, a4⟩ := h1 r hr
    rw [hy.1, hy.2, hx.1, hx.2]
    exact ⟨a1, a2, fun _ => rfl, fun h => by cases h⟩


structure SeqInv (s : St) : Prop where
  wf : WF s
  nodup : ∀ τ tk, s.tasks τ = some tk → tk.chain.Nodup
  own : ∀ τ tk, s.tasks τ = some tk → ∀ x ∈ tk.chain,
    ∃ r, s.ctxs x = some r ∧ r.opener = τ ∧ r.closed = false
  rel : ∀ τ tk, s.tasks τ = some tk → ChainRel s tk.chain
  closedOk : ∀ x r, s.ctxs x = some r → r.closed = true →
    r.getStart = specStart s x ∧ r.getStop = specStop s x
  openIn : ∀ x r, s.ctxs x = some r → r.closed = false → ∃ tk, s.tasks r.opener = some tk ∧ x ∈ tk.chain
  noNone : ∀ x r, s.ctxs x = some r → r.start ≠ some none ∧ r.stop ≠ some none

theorem seq_init : SeqInv init := by
  refine ⟨wf_init, ?_, ?_, ?_, ?_, ?_, ?_⟩ <;> intros <;> simp_all [init]

/-- two tasks never share an open dict when no task is created inside a request -/
theorem SeqInv.disjoint {s : St} (hi : SeqInv s) {τ τ' : Nat} {tk tk' : Task}
    (h : s.tasks τ = some tk) (h' : s.tasks τ' = some tk') {x : Nat} (hx : x ∈ tk.chain) (hx' : x ∈ tk'.chain) :
    τ' = τ := by
  obtain ⟨r, hr, ho, _⟩ := hi.own τ tk h x hx
  obtain ⟨r', hr', ho', _⟩ := hi.own τ' tk' h' x hx'
  rw [hr] at hr'; cases hr'
  rw [← ho, ← ho']

theorem getStart_none_iff {r : Rec} (h : r.start ≠ some none) : r.getStart = none ↔ r.start = none := by
  unfold Rec.getStart
  cases hs : r.start with
  | none => simp
  | some v =>
    cases v with
    | none => exact absurd hs h
    | some m => simp

theorem seq_step_client {s s' : St} {c : Nat} (hi : SeqInv s) (h : step false s (.client c) = .ok s') :
    SeqInv s' := by
  have hwf := wf_step hi.wf h
  obtain ⟨hc, rfl⟩ := step_client_ok h
  refine ⟨hwf, ?_, ?_, ?_, hi.closedOk, ?_, hi.noNone⟩
  · intro τ tk ht
    by_cases hτ : τ = c
    · subst hτ; simp at ht; subst ht; exact List.nodup_nil
    · simp only [upd_other _ _ _ _ hτ] at ht; exact hi.nodup τ tk ht
  · intro τ tk ht x hx
    by_cases hτ : τ = c
    · subst hτ; simp at ht; subst ht; cases hx
    · simp only [upd_other _ _ _ _ hτ] at ht; exact hi.own τ tk ht x hx
  · intro τ tk ht
    by_cases hτ : τ = c
    · subst hτ; simp at ht; subst ht; trivial
    · simp only [upd_other _ _ _ _ hτ] at ht
      exact chainRel_frame (s := s) (fun _ _ => rfl) (fun _ _ => ⟨rfl, rfl⟩) (hi.rel τ tk ht)
  · intro x r hx hcl
    obtain ⟨tk, ht, hm⟩ := hi.openIn x r hx hcl
    have : r.opener ≠ c := by intro e; rw [e, hc] at ht; cases ht
    exact ⟨tk, by simp [upd_other _ _ _ _ this, ht], hm⟩

theorem seq_step_open {s s' : St} {τ c : Nat} (hi : SeqInv s) (h : step false s (.open_ τ c) = .ok s') :
    SeqInv s' := by
  have hwf := wf_step hi.wf h
  obtain ⟨tk, htk, hc, rfl⟩ := step_open_ok h
  have hfresh : ∀ x, (∃ r, s.ctxs x = some r) → x ≠ c := by
    intro x ⟨r, hr⟩ e; rw [e, hc] at hr; cases hr
  have hnotlog : ∀ e ∈ s.log, c ∉ e.chain := fun e he hm => hfresh c (hi.wf.logAlloc e he c hm) rfl
  have hspecS : specStart s c = none := by
    unfold specStart; rw [timesFor_nil_of_not_mem hnotlog]; rfl
  have hspecE : specStop s c = none := by
    unfold specStop; rw [timesFor_nil_of_not_mem hnotlog]; rfl
  have hchain : ∀ τ' tk', s.tasks τ' = some tk' → ∀ x ∈ tk'.chain, x ≠ c :=
    fun τ' tk' ht x hx => hfresh x (hi.wf.taskAlloc τ' tk' ht x hx)
  refine ⟨hwf, ?_, ?_, ?_, ?_, ?_, ?_⟩
  · intro τ' tk' ht
    by_cases hτ : τ' = τ
    · subst hτ; simp at ht; subst ht
      exact List.nodup_cons.mpr ⟨fun hm => hchain τ' tk htk c hm rfl, hi.nodup τ' tk htk⟩
    · simp only [upd_other _ _ _ _ hτ] at ht; exact hi.nodup τ' tk' ht
  · intro τ' tk' ht x hx
    by_cases hτ : τ' = τ
    · subst hτ; simp at ht; subst ht
      rcases List.mem_cons.mp hx with rfl | hx
      · exact ⟨_, upd_same _ _ _, rfl, rfl⟩
      · obtain ⟨r, hr, h1, h2⟩ := hi.own τ' tk htk x hx
        exact ⟨r, by simp [upd_other _ _ _ _ (hchain τ' tk htk x hx), hr], h1, h2⟩
    · simp only [upd_other _ _ _ _ hτ] at ht
      obtain ⟨r, hr, h1, h2⟩ := hi.own τ' tk' ht x hx
      exact ⟨r, by simp [upd_other _ _ _ _ (hchain τ' tk' ht x hx), hr], h1, h2⟩
  · intro τ' tk' ht
    by_cases hτ : τ' = τ
    · subst hτ; simp at ht; subst ht
      have hold := hi.rel τ' tk htk
      have hne := hchain τ' tk htk
      refine ⟨?_, ?_⟩
      · intro r hr
        simp only [upd_same, Option.some.injEq] at hr
        subst hr
        exact ⟨hspecS.symm, hspecE.symm⟩
      · cases hch : tk.chain with
        | nil => trivial
        | cons x rest =>
          rw [hch] at hold hne
          obtain ⟨htop, hlinks⟩ := hold
          refine ⟨?_, links_frame (s := s) (fun z hz => upd_other _ _ _ _ (hne z (List.mem_cons_of_mem _ hz)))
            (fun _ _ => ⟨rfl, rfl⟩) hlinks⟩
          intro r hr
          simp only [upd_other _ _ _ _ (hne x List.mem_cons_self)] at hr
          obtain ⟨t1, t2⟩ := htop r hr
          refine ⟨fun _ => t1, ?_, ?_, fun _ => t2⟩
          · intro hn
            show specStart s x = specStart s c
            rw [hspecS, ← t1, hn]
          · intro hne'
            exact absurd hspecE hne'
    · simp only [upd_other _ _ _ _ hτ] at ht
      exact chainRel_frame (s := s) (fun z hz => upd_other _ _ _ _ (hchain τ' tk' ht z hz))
        (fun _ _ => ⟨rfl, rfl⟩) (hi.rel τ' tk' ht)
  · intro x r hx hcl
    by_cases hxc : x = c
    · subst hxc; simp only [upd_same, Option.some.injEq] at hx; subst hx; cases hcl
    · simp only [upd_other _ _ _ _ hxc] at hx
      exact hi.closedOk x r hx hcl
  · intro x r hx hcl
    by_cases hxc : x = c
    · subst hxc; simp only [upd_same, Option.some.injEq] at hx; subst hx
      exact ⟨_, upd_same _ _ _, List.mem_cons_self⟩
    · simp only [upd_other _ _ _ _ hxc] at hx
      obtain ⟨tk', ht', hm⟩ := hi.openIn x r hx hcl
      by_cases ho : r.opener = τ
      · rw [ho] at ht' ⊢
        rw [htk] at ht'; cases ht'
        exact ⟨_, upd_same _ _ _, List.mem_cons_of_mem _ hm⟩
      · exact ⟨tk', by simp [upd_other _ _ _ _ ho, ht'], hm⟩
  · intro x r hx
    by_cases hxc : x = c
    · subst hxc; simp only [upd_same, Option.some.injEq] at hx; subst hx; simp
    · simp only [upd_other _ _ _ _ hxc] at hx
      exact hi.noNone x r hx

theorem seq_step_wire {s s' : St} {τ : Nat} {b : Bool} {t : Rat} (hi : SeqInv s)
    (hwf : WF s') (h : wire false s τ b t = .ok s') : SeqInv s' := by
  obtain ⟨tk, y, rest, ry, htk, hch, hy, hck, rfl⟩ := wire_ok h
  have hle := clockOk_iff.mp hck
  have hnd := hi.nodup τ tk htk
  rw [hch] at hnd
  have hyrest : ∀ z ∈ rest, z ≠ y := fun z hz e => (List.nodup_cons.mp hnd).1 (e ▸ hz)
  have hyown := hi.own τ tk htk y (by rw [hch]; exact List.mem_cons_self)
  obtain ⟨ry0, hry0, hyo, hycl⟩ := hyown
  rw [hy] at hry0; cases hry0
  -- specification values after the event
  have hspec_out : ∀ z, z ∉ tk.chain → ∀ b', timesFor (s.log ++ [⟨τ, tk.chain, b, t⟩]) b' z = timesFor s.log b' z :=
    fun z hz b' => timesFor_wire_out hz
  have hother : ∀ τ' tk', s.tasks τ' = some tk' → τ' ≠ τ → ∀ z ∈ tk'.chain, z ∉ tk.chain :=
    fun τ' tk' ht hne z hz hz' => hne (hi.disjoint htk ht hz' hz)
  have hnoNone := hi.noNone y ry hy
  refine ⟨hwf, hi.nodup, ?_, ?_, ?_, ?_, ?_⟩
  · intro τ' tk' ht x hx
    obtain ⟨r, hr, h1, h2⟩ := hi.own τ' tk' ht x hx
    by_cases hxy : x = y
    · subst hxy; rw [hy] at hr; cases hr
      refine ⟨_, upd_same _ _ _, ?_, ?_⟩ <;> cases b <;> simp [h1, h2]
    · exact ⟨r, by simp [upd_other _ _ _ _ hxy, hr], h1, h2⟩
  · intro τ' tk' ht
    by_cases hτ : τ' = τ
    · subst hτ; rw [htk] at ht; cases ht
      have hold := hi.rel τ' tk htk
      rw [hch] at hold ⊢
      obtain ⟨htop, hlinks⟩ := hold
      obtain ⟨t1, t2⟩ := htop ry hy
      cases b with
      | true =>
        have hsp : ∀ z ∈ y :: rest, specStart
            { s with ctxs := upd s.ctxs y (if true = true then setStart false ry (some t) else setStop false ry (some t)),
                     log := s.log ++ [⟨τ', y :: rest, true, t⟩],
                     late := s.late || anyClosed s (y :: rest) } z = bumpStart t (specStart s z) ∧
            specStop
            { s with ctxs := upd s.ctxs y (if true = true then setStart false ry (some t) else setStop false ry (some t)),
                     log := s.log ++ [⟨τ', y :: rest, true, t⟩],
                     late := s.late || anyClosed s (y :: rest) } z = specStop s z := by
          intro z hz
          constructor
          · exact specStart_wire_in hle hz
          · show maxOpt (timesFor (s.log ++ [⟨τ', y :: rest, true, t⟩]) false z) = _
            rw [timesFor_wire_other (by simp)]; rfl
        refine ⟨?_, links_wireStart (s := s) (fun z hz => upd_other _ _ _ _ (hyrest z hz)) hsp hlinks⟩
        intro r hr
        simp only [upd_same, Option.some.injEq, if_true] at hr
        subst hr
        obtain ⟨e1, e2⟩ := hsp y List.mem_cons_self
        rw [e1, e2]
        refine ⟨?_, by simpa [Rec.getStop] using t2⟩
        rw [← t1]
        cases hst : ry.start with
        | none => simp [setStart, hst, Rec.getStart, bumpStart]
        | some v =>
          cases v with
          | none => exact absurd hst hnoNone.1
          | some m => simp [setStart, hst, Rec.getStart, bumpStart]
      | false =>
        have hsp : ∀ z ∈ y :: rest, specStart
            { s with ctxs := upd s.ctxs y (if false = true then setStart false ry (some t) else setStop false ry (some t)),
                     log := s.log ++ [⟨τ', y :: rest, false, t⟩],
                     late := s.late || anyClosed s (y :: rest) } z = specStart s z ∧
            specStop
            { s with ctxs := upd s.ctxs y (if false = true then setStart false ry (some t) else setStop false ry (some t)),
                     log := s.log ++ [⟨τ', y :: rest, false, t⟩],
                     late := s.late || anyClosed s (y :: rest) } z = some t := by
          intro z hz
          constructor
          · show minOpt (timesFor (s.log ++ [⟨τ', y :: rest, false, t⟩]) true z) = _
            rw [timesFor_wire_other (by simp)]; rfl
          · exact specStop_wire_in hle hz
        refine ⟨?_, links_wireEnd (s := s) (fun z hz => upd_other _ _ _ _ (hyrest z hz)) hsp hlinks⟩
        intro r hr
        simp only [upd_same, Option.some.injEq, Bool.false_eq_true, if_false] at hr
        subst hr
        obtain ⟨e1, e2⟩ := hsp y List.mem_cons_self
        rw [e1, e2]
        exact ⟨by simpa [Rec.getStart, setStop] using t1, by simp [setStop, Rec.getStop]⟩
    · have hdis := hother τ' tk' ht hτ
      refine chainRel_frame (s := s) (fun z hz => upd_other _ _ _ _ ?_) (fun z hz => ⟨?_, ?_⟩) (hi.rel τ' tk' ht)
      · intro e; subst e; exact hdis z hz (by rw [hch]; exact List.mem_cons_self)
      · show minOpt (timesFor (s.log ++ [⟨τ, tk.chain, b, t⟩]) true z) = _
        rw [hspec_out z (hdis z hz)]; rfl
      · show maxOpt (timesFor (s.log ++ [⟨τ, tk.chain, b, t⟩]) false z) = _
        rw [hspec_out z (hdis z hz)]; rfl
  · intro x r hx hcl
    by_cases hxy : x = y
    · subst hxy
      simp only [upd_same, Option.some.injEq] at hx
      subst hx
      exfalso
      cases b <;> simp [hycl] at hcl
    · simp only [upd_other _ _ _ _ hxy] at hx
      have hnot : x ∉ tk.chain := by
        intro hm
        obtain ⟨r0, hr0, _, hc0⟩ := hi.own τ tk htk x hm
        rw [hx] at hr0; cases hr0
        rw [hcl] at hc0; cases hc0
      obtain ⟨c1, c2⟩ := hi.closedOk x r hx hcl
      constructor
      · show _ = minOpt (timesFor (s.log ++ [⟨τ, tk.chain, b, t⟩]) true x)
        rw [hspec_out x hnot]; exact c1
      · show _ = maxOpt (timesFor (s.log ++ [⟨τ, tk.chain, b, t⟩]) false x)
        rw [hspec_out x hnot]; exact c2
  · intro x r hx hcl
    by_cases hxy : x = y
    · subst hxy
      simp only [upd_same, Option.some.injEq] at hx
      subst hx
      have : (if b = true then setStart false ry (some t) else setStop false ry (some t)).opener = τ := by
        cases b <;> simp [hyo]
      rw [this]
      exact ⟨tk, htk, by rw [hch]; exact List.mem_cons_self⟩
    · simp only [upd_other _ _ _ _ hxy] at hx
      exact hi.openIn x r hx hcl
  · intro x r hx
    by_cases hxy : x = y
    · subst hxy
      simp only [upd_same, Option.some.injEq] at hx
      subst hx
      cases b
      · simp only [Bool.false_eq_true, if_false, setStop_start]
        exact ⟨hnoNone.1, by simp [setStop]⟩
      · simp only [if_true, setStart_stop]
        refine ⟨?_, hnoNone.2⟩
        cases hst : ry.start with
        | none => simp [setStart, hst]
        | some v =>
          simp [setStart, hst]
          intro hv; subst hv; exact hnoNone.1 hst
    · simp only [upd_other _ _ _ _ hxy] at hx
      exact hi.noNone x r hx

theorem getStart_setStop (r : Rec) (v : PyVal) : (setStop false r v).getStart = r.getStart := by
  simp [Rec.getStart]

theorem getStop_setStop (r : Rec) (v : PyVal) : (setStop false r v).getStop = v := by
  simp [setStop, Rec.getStop]

theorem getStart_setStart_none {r : Rec} (v : PyVal) (h : r.start = none) :
    (setStart false r v).getStart = v := by
  simp [setStart, h, Rec.getStart]

theorem getStart_setStart_some {r : Rec} (v : PyVal) {w : PyVal} (h : r.start = some w) :
    (setStart false r v).getStart = r.getStart := by
  simp [setStart, h, Rec.getStart]

theorem seq_step_close {s s' : St} {τ : Nat} {exc : Bool} (hi : SeqInv s) (h : step false s (.close τ exc) = .ok s')
    (hec : s'.emptyClose = false) : SeqInv s' := by
  have hwf := wf_step hi.wf h
  obtain ⟨tk, c, rest, rc, htk, _, hch, hc, hcase⟩ := step_close_ok h
  have hnd := hi.nodup τ tk htk
  rw [hch] at hnd
  have hcrest : ∀ z ∈ rest, z ≠ c := fun z hz e => (List.nodup_cons.mp hnd).1 (e ▸ hz)
  obtain ⟨rc0, hrc0, hco, hccl⟩ := hi.own τ tk htk c (by rw [hch]; exact List.mem_cons_self)
  rw [hc] at hrc0; cases hrc0
  have hrel := hi.rel τ tk htk
  rw [hch] at hrel
  obtain ⟨htop, hlinks⟩ := hrel
  obtain ⟨t1, t2⟩ := htop rc hc
  have hother : ∀ τ' tk', s.tasks τ' = some tk' → τ' ≠ τ → ∀ z ∈ tk'.chain, z ∉ tk.chain :=
    fun τ' tk' ht hne z hz hz' => hne (hi.disjoint htk ht hz' hz)
  rcases hcase with ⟨hrest, rfl⟩ | ⟨p, rest', rp, hrest, hp, rfl⟩
  · subst hrest
    refine ⟨hwf, ?_, ?_, ?_, ?_, ?_, ?_⟩
    · intro τ' tk' ht
      by_cases hτ : τ' = τ
      · subst hτ; simp at ht; subst ht; exact List.nodup_nil
      · simp only [upd_other _ _ _ _ hτ] at ht; exact hi.nodup τ' tk' ht
    · intro τ' tk' ht x hx
      by_cases hτ : τ' = τ
      · subst hτ; simp at ht; subst ht; cases hx
      · simp only [upd_other _ _ _ _ hτ] at ht
        obtain ⟨r, hr, h1, h2⟩ := hi.own τ' tk' ht x hx
        have : x ≠ c := by
          intro e; subst e; exact hother τ' tk' ht hτ x hx (by rw [hch]; exact List.mem_cons_self)
        exact ⟨r, by simp [upd_other _ _ _ _ this, hr], h1, h2⟩
    · intro τ' tk' ht
      by_cases hτ : τ' = τ
      · subst hτ; simp at ht; subst ht; trivial
      · simp only [upd_other _ _ _ _ hτ] at ht
        refine chainRel_frame (s := s) (fun z hz => upd_other _ _ _ _ ?_) (fun _ _ => ⟨rfl, rfl⟩) (hi.rel τ' tk' ht)
        intro e; subst e; exact hother τ' tk' ht hτ z hz (by rw [hch]; exact List.mem_cons_self)
    · intro x r hx hcl
      by_cases hxc : x = c
      · subst hxc; simp only [upd_same, Option.some.injEq] at hx; subst hx
        exact ⟨t1, t2⟩
      · simp only [upd_other _ _ _ _ hxc] at hx; exact hi.closedOk x r hx hcl
    · intro x r hx hcl
      by_cases hxc : x = c
      · subst hxc; simp only [upd_same, Option.some.injEq] at hx; subst hx; cases hcl
      · simp only [upd_other _ _ _ _ hxc] at hx
        obtain ⟨tk', ht', hm⟩ := hi.openIn x r hx hcl
        by_cases ho : r.opener = τ
        · rw [ho, htk] at ht'; cases ht'
          rw [hch] at hm; simp at hm; exact absurd hm hxc
        · exact ⟨tk', by simp [upd_other _ _ _ _ ho, ht'], hm⟩
    · intro x r hx
      by_cases hxc : x = c
      · subst hxc; simp only [upd_same, Option.some.injEq] at hx; subst hx
        exact hi.noNone x rc hc
      · simp only [upd_other _ _ _ _ hxc] at hx; exact hi.noNone x r hx
  · subst hrest
    have hpc : p ≠ c := hcrest p List.mem_cons_self
    have hcp : c ≠ p := Ne.symm hpc
    have hnd2 := (List.nodup_cons.mp hnd).2
    have hprest : ∀ z ∈ rest', z ≠ p := fun z hz e => (List.nodup_cons.mp hnd2).1 (e ▸ hz)
    obtain ⟨rp0, hrp0, hpo, hpcl⟩ := hi.own τ tk htk p (by rw [hch]; simp)
    rw [hp] at hrp0; cases hrp0
    -- the flag stayed false: the child hands over a start and an end
    simp only [Bool.or_eq_false_iff] at hec
    obtain ⟨⟨_, hs1⟩, hs2⟩ := hec
    obtain ⟨a, ha⟩ : ∃ a, rc.getStart = some a := by
      cases hg : rc.getStart with
      | none => simp [hg] at hs1
      | some a => exact ⟨a, rfl⟩
    obtain ⟨b, hb⟩ : ∃ b, rc.getStop = some b := by
      cases hg : rc.getStop with
      | none => simp [hg] at hs2
      | some b => exact ⟨b, rfl⟩
    obtain ⟨hlink, hlinks'⟩ := hlinks
    obtain ⟨l1, l2, l3, _⟩ := hlink rp hp
    have hnn := hi.noNone p rp hp
    refine ⟨hwf, ?_, ?_, ?_, ?_, ?_, ?_⟩
    · intro τ' tk' ht
      by_cases hτ : τ' = τ
      · subst hτ; simp at ht; subst ht; exact hnd2
      · simp only [upd_other _ _ _ _ hτ] at ht; exact hi.nodup τ' tk' ht
    · intro τ' tk' ht x hx
      by_cases hτ : τ' = τ
      · subst hτ; simp at ht; subst ht
        simp only at hx
        obtain ⟨r, hr, h1, h2⟩ := hi.own τ' tk htk x (by rw [hch]; exact List.mem_cons_of_mem _ hx)
        by_cases hxp : x = p
        · subst hxp; rw [hp] at hr; cases hr
          exact ⟨_, upd_same _ _ _, by simp [h1], by simp [h2]⟩
        · have hxc : x ≠ c := hcrest x hx
          exact ⟨r, by simp [upd_other _ _ _ _ hxp, upd_other _ _ _ _ hxc, hr], h1, h2⟩
      · simp only [upd_other _ _ _ _ hτ] at ht
        obtain ⟨r, hr, h1, h2⟩ := hi.own τ' tk' ht x hx
        have hn := hother τ' tk' ht hτ x hx
        have hxc : x ≠ c := by intro e; subst e; exact hn (by rw [hch]; exact List.mem_cons_self)
        have hxp : x ≠ p := by intro e; subst e; exact hn (by rw [hch]; simp)
        exact ⟨r, by simp [upd_other _ _ _ _ hxp, upd_other _ _ _ _ hxc, hr], h1, h2⟩
    · intro τ' tk' ht
      by_cases hτ : τ' = τ
      · subst hτ; simp at ht; subst ht
        refine ⟨?_, links_frame (s := s) (fun z hz => ?_) (fun _ _ => ⟨rfl, rfl⟩) hlinks'⟩
        · intro r hr
          simp only [upd_same, Option.some.injEq] at hr
          subst hr
          constructor
          · show (setStop false (setStart false rp rc.getStart) rc.getStop).getStart = specStart s p
            rw [getStart_setStop]
            cases hst : rp.start with
            | none =>
              have hg : rp.getStart = none := by simp [Rec.getStart, hst]
              rw [getStart_setStart_none _ hst, l2 hg, t1]
            | some v =>
              cases v with
              | none => exact absurd hst hnn.1
              | some m =>
                have hg : rp.getStart = some m := by simp [Rec.getStart, hst]
                rw [getStart_setStart_some _ hst]
                exact l1 (by rw [hg]; simp)
          · show (setStop false (setStart false rp rc.getStart) rc.getStop).getStop = specStop s p
            have : specStop s p = specStop s c := l3 (by rw [← t2, hb]; simp)
            rw [getStop_setStop, this, t2]
        · simp only [upd_other _ _ _ _ (hprest z hz),
            upd_other _ _ _ _ (hcrest z (List.mem_cons_of_mem _ hz))]
      · simp only [upd_other _ _ _ _ hτ] at ht
        refine chainRel_frame (s := s) (fun z hz => ?_) (fun _ _ => ⟨rfl, rfl⟩) (hi.rel τ' tk' ht)
        have hn := hother τ' tk' ht hτ z hz
        have hzc : z ≠ c := by intro e; subst e; exact hn (by rw [hch]; exact List.mem_cons_self)
        have hzp : z ≠ p := by intro e; subst e; exact hn (by rw [hch]; simp)
        simp only [upd_other _ _ _ _ hzp, upd_other _ _ _ _ hzc]
    · intro x r hx hcl
      by_cases hxp : x = p
      · subst hxp; simp only [upd_same, Option.some.injEq] at hx; subst hx
        simp [hpcl] at hcl
      · simp only [upd_other _ _ _ _ hxp] at hx
        by_cases hxc : x = c
        · subst hxc; simp only [upd_same, Option.some.injEq] at hx; subst hx
          exact ⟨t1, t2⟩
        · simp only [upd_other _ _ _ _ hxc] at hx; exact hi.closedOk x r hx hcl
    · intro x r hx hcl
      by_cases hxp : x = p
      · subst hxp; simp only [upd_same, Option.some.injEq] at hx; subst hx
        simp only [setStop_opener, setStart_opener, hpo]
        exact ⟨_, upd_same _ _ _, List.mem_cons_self⟩
      · simp only [upd_other _ _ _ _ hxp] at hx
        by_cases hxc : x = c
        · subst hxc; simp only [upd_same, Option.some.injEq] at hx; subst hx; cases hcl
        · simp only [upd_other _ _ _ _ hxc] at hx
          obtain ⟨tk', ht', hm⟩ := hi.openIn x r hx hcl
          by_cases ho : r.opener = τ
          · rw [ho, htk] at ht'; cases ht'
            rw [hch] at hm
            rw [ho]
            refine ⟨_, upd_same _ _ _, ?_⟩
            rcases List.mem_cons.mp hm with e | hm
            · exact absurd e hxc
            · exact hm
          · exact ⟨tk', by simp [upd_other _ _ _ _ ho, ht'], hm⟩
    · intro x r hx
      by_cases hxp : x = p
      · subst hxp; simp only [upd_same, Option.some.injEq] at hx; subst hx
        constructor
        · simp only [setStop_start]
          cases hst : rp.start with
          | none => simp [setStart, hst, ha]
          | some v => simp [setStart, hst]; intro hv; subst hv; exact hnn.1 hst
        · simp [setStop, hb]
      · simp only [upd_other _ _ _ _ hxp] at hx
        by_cases hxc : x = c
        · subst hxc; simp only [upd_same, Option.some.injEq] at hx; subst hx
          exact hi.noNone x rc hc
        · simp only [upd_other _ _ _ _ hxc] at hx; exact hi.noNone x r hx

theorem emptyClose_mono_step {fx : Bool} {s s' : St} {e : CEv} (h : step fx s e = .ok s')
    (hf : s'.emptyClose = false) : s.emptyClose = false := by
  cases e with
  | client c => obtain ⟨_, rfl⟩ := step_client_ok h; exact hf
  | spawn p c => obtain ⟨_, _, _, rfl⟩ := step_spawn_ok h; exact hf
  | open_ τ c => obtain ⟨_, _, _, rfl⟩ := step_open_ok h; exact hf
  | wireStart τ t => obtain ⟨_, _, _, _, _, _, _, _, rfl⟩ := wire_ok (b := true) h; exact hf
  | wireEnd τ t => obtain ⟨_, _, _, _, _, _, _, _, rfl⟩ := wire_ok (b := false) h; exact hf
  | close τ exc =>
    obtain ⟨tk, c, rest, rc, _, _, _, _, hcase⟩ := step_close_ok h
    rcases hcase with ⟨_, rfl⟩ | ⟨p, rest', rp, _, _, rfl⟩
    · exact hf
    · simp only [Bool.or_eq_false_iff] at hf; exact hf.1.1

theorem emptyClose_mono_run {fx : Bool} {evs : List CEv} {s s' : St} (h : runFrom fx s evs = .ok s')
    (hf : s'.emptyClose = false) : s.emptyClose = false := by
  induction evs generalizing s with
  | nil => simp only [runFrom, Except.ok.injEq] at h; subst h; exact hf
  | cons e es ih =>
    simp only [runFrom] at h
    split at h
    · rename_i s1 hs1; exact emptyClose_mono_step hs1 (ih h)
    · cases h

theorem seq_step {s s' : St} {e : CEv} (hi : SeqInv s) (h : step false s e = .ok s')
    (hns : e.isSpawn = false) (hec : s'.emptyClose = false) : SeqInv s' := by
  cases e with
  | client c => exact seq_step_client hi h
  | spawn p c => cases hns
  | open_ τ c => exact seq_step_open hi h
  | wireStart τ t => exact seq_step_wire hi (wf_step hi.wf h) (b := true) h
  | wireEnd τ t => exact seq_step_wire hi (wf_step hi.wf h) (b := false) h
  | close τ exc => exact seq_step_close hi h hec

theorem seq_runFrom {evs : List CEv} {s s' : St} (hi : SeqInv s) (h : runFrom false s evs = .ok s')
    (hns : ∀ e ∈ evs, e.isSpawn = false) (hec : s'.emptyClose = false) : SeqInv s' := by
  induction evs generalizing s with
  | nil => simp only [runFrom, Except.ok.injEq] at h; subst h; exact hi
  | cons e es ih =>
    simp only [runFrom] at h
    split at h
    · rename_i s1 hs1
      have h1 : s1.emptyClose = false := emptyClose_mono_run h hec
      exact ih (seq_step hi hs1 (hns e List.mem_cons_self) h1) h
        (fun e' he' => hns e' (List.mem_cons_of_mem _ he'))
    · cases h

/-- in a sequential state, a context whose strict descendants have all exited carries the specification -/
theorem seq_settled {s : St} (hi : SeqInv s) {c : Nat} {r : Rec} (hc : s.ctxs c = some r)
    (hset : settled s c = true) : r.getStart = specStart s c ∧ r.getStop = specStop s c := by
  cases hcl : r.closed with
  | true => exact hi.closedOk c r hc hcl
  | false =>
    obtain ⟨tk, htk, hm⟩ := hi.openIn c r hc hcl
    have hrel := hi.rel _ tk htk
    cases hch : tk.chain with
    | nil => rw [hch] at hm; cases hm
    | cons y rest =>
      rw [hch] at hm hrel
      by_cases hyc : y = c
      · subst hyc; exact hrel.1 r hc
      · exfalso
        have hcrest : c ∈ rest := by
          rcases List.mem_cons.mp hm with e | hm
          · exact absurd e.symm hyc
          · exact hm
        obtain ⟨ry, hry, hanc⟩ := hi.wf.taskHead _ tk y rest htk hch
        obtain ⟨ry', hry', _, hycl⟩ := hi.own _ tk htk y (by rw [hch]; exact List.mem_cons_self)
        rw [hry] at hry'; cases hry'
        have hyn := hi.wf.names y ry hry
        simp only [settled, List.all_eq_true] at hset
        have := hset y hyn
        simp [hry, hyc, hanc, hcrest, hycl] at this


/-! ## Part 5: the current code (`fx = true`, fix 65587fe: keep min / max, ignore `None`) — any structured concurrency -/

def getVal (b : Bool) (r : Rec) : PyVal := if b then r.getStart else r.getStop
/-- `m` is at least as good as `t`: earlier for starts, later for ends -/
def better (b : Bool) (m t : Rat) : Prop := if b then m ≤ t else t ≤ m
def setVal (fx b : Bool) (r : Rec) (v : PyVal) : Rec := if b then setStart fx r v else setStop fx r v

theorem better_refl (b : Bool) (m : Rat) : better b m m := by
  cases b <;> exact Rat.le_refl

theorem better_trans {b : Bool} {a m t : Rat} (h1 : better b a m) (h2 : better b m t) : better b a t := by
  cases b
  · exact Rat.le_trans h2 h1
  · exact Rat.le_trans h1 h2

theorem setVal_none (b : Bool) (r : Rec) : setVal true b r none = r := by
  cases b <;> simp [setVal, setStart, setStop]

theorem getVal_setVal_cross (b : Bool) (r : Rec) (v : PyVal) : getVal b (setVal true (!b) r v) = getVal b r := by
  cases b <;> simp [getVal, setVal, Rec.getStart, Rec.getStop]

/-- writing `t` with the current update functions: the result is the better of the old value and `t` -/
theorem getVal_setVal_same (b : Bool) (r : Rec) (t : Rat) :
    ∃ m', getVal b (setVal true b r (some t)) = some m' ∧ better b m' t ∧
      (m' = t ∨ getVal b r = some m') ∧ (∀ m, getVal b r = some m → better b m' m) := by
  cases b
  · -- end
    simp only [getVal, setVal, Bool.false_eq_true, if_false, setStop, if_true, Rec.getStop, better]
    cases hs : r.stop with
    | none => exact ⟨t, by simp, Rat.le_refl, Or.inl rfl, by simp⟩
    | some v =>
      cases v with
      | none => exact ⟨t, by simp, Rat.le_refl, Or.inl rfl, by simp⟩
      | some m =>
        by_cases hlt : m < t
        · refine ⟨t, by simp [hlt], Rat.le_refl, Or.inl rfl, ?_⟩
          intro m0 hm0
          simp at hm0; subst hm0
          exact Rat.le_of_lt hlt
        · refine ⟨m, by simp [hlt, hs], Rat.not_lt.mp hlt, Or.inr (by simp), ?_⟩
          intro m0 hm0
          simp at hm0; subst hm0
          exact Rat.le_refl
  · -- start
    simp only [getVal, setVal, if_true, setStart, Rec.getStart, better]
    cases hs : r.start with
    | none => exact ⟨t, by simp, Rat.le_refl, Or.inl rfl, by simp⟩
    | some v =>
      cases v with
      | none => exact ⟨t, by simp, Rat.le_refl, Or.inl rfl, by simp⟩
      | some m =>
        by_cases hlt : t < m
        · refine ⟨t, by simp [hlt], Rat.le_refl, Or.inl rfl, ?_⟩
          intro m0 hm0
          simp at hm0; subst hm0
          exact Rat.le_of_lt hlt
        · refine ⟨m, by simp [hlt, hs], Rat.not_lt.mp hlt, Or.inr (by simp), ?_⟩
          intro m0 hm0
          simp at hm0; subst hm0
          exact Rat.le_refl

@[simp] theorem setVal_parent (fx b : Bool) (r : Rec) (v : PyVal) : (setVal fx b r v).parent = r.parent := by
  cases b <;> simp [setVal]
@[simp] theorem setVal_anc (fx b : Bool) (r : Rec) (v : PyVal) : (setVal fx b r v).anc = r.anc := by
  cases b <;> simp [setVal]
@[simp] theorem setVal_closed (fx b : Bool) (r : Rec) (v : PyVal) : (setVal fx b r v).closed = r.closed := by
  cases b <;> simp [setVal]
@[simp] theorem setVal_opener (fx b : Bool) (r : Rec) (v : PyVal) : (setVal fx b r v).opener = r.opener := by
  cases b <;> simp [setVal]

/-- one optional value written with the current update function: every old value is matched or improved, and the
    new value is the old one or the written one -/
theorem setVal_opt (b b' : Bool) (r : Rec) (v : PyVal) :
    (∀ m, getVal b' r = some m → ∃ m', getVal b' (setVal true b r v) = some m' ∧ better b' m' m) ∧
    (∀ m', getVal b' (setVal true b r v) = some m' → getVal b' r = some m' ∨ (b' = b ∧ v = some m')) ∧
    (b' = b → ∀ t, v = some t → ∃ m', getVal b' (setVal true b r v) = some m' ∧ better b' m' t) := by
  cases v with
  | none =>
    rw [setVal_none]
    exact ⟨fun m h => ⟨m, h, better_refl _ _⟩, fun m' h => Or.inl h, fun _ t h => by cases h⟩
  | some t =>
    by_cases hb : b' = b
    · subst hb
      obtain ⟨m', h1, h2, h3, h4⟩ := getVal_setVal_same b' r t
      refine ⟨fun m h => ⟨m', h1, h4 m h⟩, ?_, ?_⟩
      · intro m0 h0
        rw [h1] at h0; cases h0
        rcases h3 with h3 | h3
        · exact Or.inr ⟨rfl, by rw [h3]⟩
        · exact Or.inl h3
      · intro _ t0 ht0
        cases ht0
        exact ⟨m', h1, h2⟩
    · have hb' : b = !b' := by cases b <;> cases b' <;> simp_all
      subst hb'
      rw [getVal_setVal_cross]
      exact ⟨fun m h => ⟨m, h, better_refl _ _⟩, fun m' h => Or.inl h, fun h => absurd h hb⟩

/-- a list of dicts in which every suffix is the ancestor chain of its head -/
def ChainOK (s : St) : List Nat → Prop
  | [] => True
  | y :: post => (∃ r, s.ctxs y = some r ∧ r.anc = y :: post) ∧ ChainOK s post

theorem chainOK_of_anc {s : St} (hw : WF s) :
    ∀ (l : List Nat) (y : Nat) (r : Rec), s.ctxs y = some r → r.anc = l → ChainOK s l := by
  intro l
  induction l with
  | nil =>
    intro y r hy ha
    obtain ⟨rest, h1, _⟩ := hw.ancOk y r hy
    rw [ha] at h1; cases h1
  | cons a rest ih =>
    intro y r hy ha
    obtain ⟨rest0, h1, _, h3⟩ := hw.ancOk y r hy
    rw [ha] at h1
    simp only [List.cons.injEq] at h1
    obtain ⟨rfl, rfl⟩ := h1
    refine ⟨⟨r, hy, ha⟩, ?_⟩
    cases hrest : rest with
    | nil => trivial
    | cons p rest' =>
      obtain ⟨rp, hrp, hap⟩ := h3 p rest' hrest
      rw [← hrest] at hap
      rw [← hrest]
      exact ih p rp hrp hap

theorem chainOK_task {s : St} (hw : WF s) {τ : Nat} {tk : Task} (htk : s.tasks τ = some tk) :
    ChainOK s tk.chain := by
  cases hch : tk.chain with
  | nil => trivial
  | cons x rest =>
    obtain ⟨r, hr, ha⟩ := hw.taskHead τ tk x rest htk hch
    exact chainOK_of_anc hw _ x r hr ha

theorem chainOK_ext {s s' : St} (hext : Ext s s') {l : List Nat} (h : ChainOK s l) : ChainOK s' l := by
  induction l with
  | nil => trivial
  | cons y post ih => exact ⟨hext.anc h.1, ih h.2⟩

theorem chainOK_parent_mem {s : St} (hw : WF s) {l : List Nat} (h : ChainOK s l) {y p : Nat} {ry : Rec}
    (hy : y ∈ l) (hry : s.ctxs y = some ry) (hp : ry.parent = some p) : p ∈ l := by
  induction l with
  | nil => cases hy
  | cons z post ih =>
    rcases List.mem_cons.mp hy with rfl | hy
    · obtain ⟨rz, hrz, haz⟩ := h.1
      rw [hry] at hrz; cases hrz
      obtain ⟨rest0, h1, h2, _⟩ := hw.ancOk y ry hry
      rw [haz] at h1
      simp only [List.cons.injEq, true_and] at h1
      subst h1
      rw [h2] at hp
      cases post with
      | nil => cases hp
      | cons q post' => simp at hp; subst hp; simp
    · exact List.mem_cons_of_mem _ (ih h.2 hy)

/-- the head of a chain is not its own parent -/
theorem WF.head_ne_next {s : St} (hw : WF s) {c p : Nat} {rest' : List Nat} {rc : Rec}
    (hc : s.ctxs c = some rc) (ha : rc.anc = c :: p :: rest') : c ≠ p := by
  intro e; subst e
  obtain ⟨rest0, h1, _, h3⟩ := hw.ancOk c rc hc
  rw [ha] at h1
  simp only [List.cons.injEq, true_and] at h1
  obtain ⟨rp, hrp, hap⟩ := h3 c rest' h1.symm
  rw [hc] at hrp; cases hrp
  rw [ha] at hap
  have := congrArg List.length hap
  simp at this

/-- the value a dict holds already covers the wire event at time `t` -/
def Acc (b : Bool) (s : St) (x : Nat) (t : Rat) : Prop :=
  ∃ r m, s.ctxs x = some r ∧ getVal b r = some m ∧ better b m t

/-- dicts only ever improve under the current code -/
def Improves (s s' : St) : Prop :=
  ∀ x r, s.ctxs x = some r → ∃ r', s'.ctxs x = some r' ∧
    ∀ b m, getVal b r = some m → ∃ m', getVal b r' = some m' ∧ better b m' m

theorem Improves.acc {s s' : St} (h : Improves s s') {b : Bool} {x : Nat} {t : Rat} (ha : Acc b s x t) :
    Acc b s' x t := by
  obtain ⟨r, m, hr, hm, hb⟩ := ha
  obtain ⟨r', hr', himp⟩ := h x r hr
  obtain ⟨m', hm', hb'⟩ := himp b m hm
  exact ⟨r', m', hr', hm', better_trans hb' hb⟩

theorem improves_same_rec {r : Rec} : ∀ b m, getVal b r = some m → ∃ m', getVal b r = some m' ∧ better b m' m :=
  fun b m h => ⟨m, h, better_refl b m⟩

theorem getVal_closed (b : Bool) (r : Rec) : getVal b { r with closed := true } = getVal b r := by
  cases b <;> rfl

theorem step_improves {s s' : St} {e : CEv} (h : step true s e = .ok s') : Improves s s' := by
  intro x r hx
  cases e with
  | client c => obtain ⟨_, rfl⟩ := step_client_ok h; exact ⟨r, hx, improves_same_rec⟩
  | spawn p c => obtain ⟨_, _, _, rfl⟩ := step_spawn_ok h; exact ⟨r, hx, improves_same_rec⟩
  | open_ τ c =>
    obtain ⟨tk, _, hc, rfl⟩ := step_open_ok h
    have : x ≠ c := by intro e; rw [e, hc] at hx; cases hx
    exact ⟨r, by simp [upd_other _ _ _ _ this, hx], improves_same_rec⟩
  | wireStart τ t =>
    obtain ⟨tk, y, rest, ry, _, _, hy, _, rfl⟩ := wire_ok (b := true) h
    by_cases hxy : x = y
    · subst hxy; rw [hx] at hy; cases hy
      refine ⟨_, upd_same _ _ _, ?_⟩
      intro b m hm
      exact (setVal_opt true b r (some t)).1 m hm
    · exact ⟨r, by simp [upd_other _ _ _ _ hxy, hx], improves_same_rec⟩
  | wireEnd τ t =>
    obtain ⟨tk, y, rest, ry, _, _, hy, _, rfl⟩ := wire_ok (b := false) h
    by_cases hxy : x = y
    · subst hxy; rw [hx] at hy; cases hy
      refine ⟨_, upd_same _ _ _, ?_⟩
      intro b m hm
      exact (setVal_opt false b r (some t)).1 m hm
    · exact ⟨r, by simp [upd_other _ _ _ _ hxy, hx], improves_same_rec⟩
  | close τ exc =>
    obtain ⟨tk, c, rest, rc, _, _, _, hc, hcase⟩ := step_close_ok h
    rcases hcase with ⟨_, rfl⟩ | ⟨p, rest', rp, _, hp, rfl⟩
    · by_cases hxc : x = c
      · subst hxc; rw [hx] at hc; cases hc
        refine ⟨_, upd_same _ _ _, ?_⟩
        intro b m hm
        exact ⟨m, by rw [getVal_closed]; exact hm, better_refl b m⟩
      · exact ⟨r, by simp [upd_other _ _ _ _ hxc, hx], improves_same_rec⟩
    · by_cases hxp : x = p
      · subst hxp; rw [hx] at hp; cases hp
        refine ⟨_, upd_same _ _ _, ?_⟩
        intro b m hm
        obtain ⟨m1, h1, b1⟩ := (setVal_opt true b r rc.getStart).1 m hm
        obtain ⟨m2, h2, b2⟩ := (setVal_opt false b (setVal true true r rc.getStart) rc.getStop).1 m1 h1
        exact ⟨m2, h2, better_trans b2 b1⟩
      · by_cases hxc : x = c
        · subst hxc; rw [hx] at hc; cases hc
          refine ⟨{ r with closed := true }, by simp [upd_other _ _ _ _ hxp], ?_⟩
          intro b m hm
          exact ⟨m, by rw [getVal_closed]; exact hm, better_refl b m⟩
        · exact ⟨r, by simp [upd_other _ _ _ _ hxp, upd_other _ _ _ _ hxc, hx], improves_same_rec⟩

structure PInv (s : St) : Prop where
  wf : WF s
  logChain : ∀ e ∈ s.log, ChainOK s e.chain
  sound : ∀ b x r m, s.ctxs x = some r → getVal b r = some m → m ∈ timesFor s.log b x
  head : ∀ e ∈ s.log, ∀ x rest, e.chain = x :: rest → Acc e.isStart s x e.t
  prop : ∀ e ∈ s.log, ∀ y ∈ e.chain, ∀ ry p, s.ctxs y = some ry → ry.closed = true → ry.parent = some p →
    Acc e.isStart s y e.t → Acc e.isStart s p e.t

theorem pinv_init : PInv init := by
  refine ⟨wf_init, ?_, ?_, ?_, ?_⟩ <;> intros <;> simp_all [init]

theorem timesFor_mono {log : List LogE} {e : LogE} {b : Bool} {x : Nat} {m : Rat}
    (h : m ∈ timesFor log b x) : m ∈ timesFor (log ++ [e]) b x := by
  rw [timesFor_append]; exact List.mem_append_left _ h

theorem timesFor_new {log : List LogE} {τ : Nat} {chain : List Nat} {b : Bool} {t : Rat} {x : Nat}
    (hx : x ∈ chain) : t ∈ timesFor (log ++ [⟨τ, chain, b, t⟩]) b x := by
  rw [timesFor_append]
  simp [hx]

theorem timesFor_parent {s : St} (hw : WF s) (hlc : ∀ e ∈ s.log, ChainOK s e.chain) {c p : Nat} {rc : Rec}
    (hc : s.ctxs c = some rc) (hp : rc.parent = some p) {b : Bool} {m : Rat}
    (h : m ∈ timesFor s.log b c) : m ∈ timesFor s.log b p := by
  simp only [timesFor, List.mem_map, List.mem_filter, Bool.and_eq_true, List.contains_eq_mem,
    decide_eq_true_eq] at h ⊢
  obtain ⟨e, ⟨he, hb, hm⟩, ht⟩ := h
  exact ⟨e, ⟨he, hb, chainOK_parent_mem hw (hlc e he) hm hc hp⟩, ht⟩

theorem anyClosed_false {s : St} {l : List Nat} (h : anyClosed s l = false) {y : Nat} (hy : y ∈ l) {r : Rec}
    (hr : s.ctxs y = some r) : r.closed = false := by
  simp only [anyClosed, List.any_eq_false] at h
  have := h y hy
  simpa [isClosed, hr] using this

theorem getVal_new (b : Bool) (p : Option Nat) (a : List Nat) (o : Nat) :
    getVal b ⟨p, a, o, none, none, false⟩ = none := by
  cases b <;> rfl

theorem acc_of_eq {b : Bool} {s s' : St} {x : Nat} {t : Rat} (h : s'.ctxs x = s.ctxs x) (ha : Acc b s' x t) :
    Acc b s x t := by
  obtain ⟨r, m, hr, hm, hb⟩ := ha
  exact ⟨r, m, by rw [← h]; exact hr, hm, hb⟩

theorem late_mono_step {fx : Bool} {s s' : St} {e : CEv} (h : step fx s e = .ok s')
    (hf : s'.late = false) : s.late = false := by
  cases e with
  | client c => obtain ⟨_, rfl⟩ := step_client_ok h; exact hf
  | spawn p c => obtain ⟨_, _, _, rfl⟩ := step_spawn_ok h; exact hf
  | open_ τ c => obtain ⟨_, _, _, rfl⟩ := step_open_ok h; exact hf
  | wireStart τ t =>
    obtain ⟨_, _, _, _, _, _, _, _, rfl⟩ := wire_ok (b := true) h
    simp only [Bool.or_eq_false_iff] at hf; exact hf.1
  | wireEnd τ t =>
    obtain ⟨_, _, _, _, _, _, _, _, rfl⟩ := wire_ok (b := false) h
    simp only [Bool.or_eq_false_iff] at hf; exact hf.1
  | close τ exc =>
    obtain ⟨tk, c, rest, rc, _, _, _, _, hcase⟩ := step_close_ok h
    rcases hcase with ⟨_, rfl⟩ | ⟨p, rest', rp, _, _, rfl⟩
    · exact hf
    · simp only [Bool.or_eq_false_iff] at hf; exact hf.1

theorem late_mono_run {fx : Bool} {evs : List CEv} {s s' : St} (h : runFrom fx s evs = .ok s')
    (hf : s'.late = false) : s.late = false := by
  induction evs generalizing s with
  | nil => simp only [runFrom, Except.ok.injEq] at h; subst h; exact hf
  | cons e es ih =>
    simp only [runFrom] at h
    split at h
    · rename_i s1 hs1; exact late_mono_step hs1 (ih h)
    · cases h

theorem pinv_step_wire {s s' : St} {τ : Nat} {b : Bool} {t : Rat} (hi : PInv s) (hwf : WF s')
    (hext : Ext s s') (himp : Improves s s') (h : wire true s τ b t = .ok s') (hl : s'.late = false) :
    PInv s' := by
  obtain ⟨tk, y0, rest, ry, htk, hch, hy, hck, rfl⟩ := wire_ok h
  simp only [Bool.or_eq_false_iff] at hl
  have hopen := hl.2
  have hrec : (if b = true then setStart true ry (some t) else setStop true ry (some t)) = setVal true b ry (some t) := rfl
  refine ⟨hwf, ?_, ?_, ?_, ?_⟩
  · intro e he
    rcases List.mem_append.mp he with he | he
    · exact chainOK_ext hext (hi.logChain e he)
    · simp only [List.mem_singleton] at he; subst he
      exact chainOK_ext hext (chainOK_task hi.wf htk)
  · intro b' x r' m' hx hm
    by_cases hxy : x = y0
    · subst hxy
      simp only [upd_same, Option.some.injEq] at hx
      subst hx
      rw [hrec] at hm
      rcases (setVal_opt b b' ry (some t)).2.1 m' hm with h1 | ⟨h1, h2⟩
      · exact timesFor_mono (hi.sound b' x ry m' hy h1)
      · subst h1; cases h2
        exact timesFor_new (by rw [hch]; exact List.mem_cons_self)
    · simp only [upd_other _ _ _ _ hxy] at hx
      exact timesFor_mono (hi.sound b' x r' m' hx hm)
  · intro e he x rest' hch'
    rcases List.mem_append.mp he with he | he
    · exact himp.acc (hi.head e he x rest' hch')
    · simp only [List.mem_singleton] at he; subst he
      simp only [hch, List.cons.injEq] at hch'
      obtain ⟨rfl, _⟩ := hch'
      obtain ⟨m', h1, h2⟩ := (setVal_opt b b ry (some t)).2.2 rfl t rfl
      exact ⟨_, m', upd_same _ _ _, by rw [hrec]; exact h1, h2⟩
  · intro e he y hyc ry' p hry' hcl hpar hacc
    have hy_ne : y ≠ y0 := by
      intro e0; subst e0
      simp only [upd_same, Option.some.injEq] at hry'
      subst hry'
      rw [hrec] at hcl
      simp only [setVal_closed] at hcl
      have := anyClosed_false hopen (by rw [hch]; exact List.mem_cons_self) hy
      rw [this] at hcl; cases hcl
    simp only [upd_other _ _ _ _ hy_ne] at hry'
    rcases List.mem_append.mp he with he | he
    · exact himp.acc (hi.prop e he y hyc ry' p hry' hcl hpar
        (acc_of_eq (s := s) (upd_other _ _ _ _ hy_ne) hacc))
    · simp only [List.mem_singleton] at he; subst he
      have := anyClosed_false hopen hyc hry'
      rw [this] at hcl; cases hcl

theorem pinv_step_open {s s' : St} {τ c : Nat} (hi : PInv s) (hwf : WF s') (hext : Ext s s')
    (himp : Improves s s') (h : step true s (.open_ τ c) = .ok s') : PInv s' := by
  obtain ⟨tk, htk, hc, rfl⟩ := step_open_ok h
  have hfresh : ∀ x, (∃ r, s.ctxs x = some r) → x ≠ c := by
    intro x ⟨r, hr⟩ e; rw [e, hc] at hr; cases hr
  refine ⟨hwf, fun e he => chainOK_ext hext (hi.logChain e he), ?_, fun e he x rest' hch' =>
    himp.acc (hi.head e he x rest' hch'), ?_⟩
  · intro b x r m hx hm
    by_cases hxc : x = c
    · subst hxc
      simp only [upd_same, Option.some.injEq] at hx
      subst hx
      rw [getVal_new] at hm; cases hm
    · simp only [upd_other _ _ _ _ hxc] at hx
      exact hi.sound b x r m hx hm
  · intro e he y hyc ry p hry hcl hpar hacc
    have hy_ne : y ≠ c := hfresh y (hi.wf.logAlloc e he y hyc)
    simp only [upd_other _ _ _ _ hy_ne] at hry
    exact himp.acc (hi.prop e he y hyc ry p hry hcl hpar (acc_of_eq (s := s) (upd_other _ _ _ _ hy_ne) hacc))

theorem pinv_step_close {s s' : St} {τ : Nat} {exc : Bool} (hi : PInv s) (hwf : WF s') (hext : Ext s s')
    (himp : Improves s s') (h : step true s (.close τ exc) = .ok s') (hl : s'.late = false) : PInv s' := by
  obtain ⟨tk, c, rest, rc, htk, _, hch, hc, hcase⟩ := step_close_ok h
  obtain ⟨rc0, hrc0, hanc⟩ := hi.wf.taskHead τ tk c rest htk hch
  rw [hc] at hrc0; cases hrc0
  obtain ⟨rest0, ha1, hpar0, _⟩ := hi.wf.ancOk c rc hc
  rw [hanc] at ha1
  simp only [List.cons.injEq, true_and] at ha1
  subst ha1
  rcases hcase with ⟨hrest, rfl⟩ | ⟨p0, rest', rp, hrest, hp, rfl⟩
  · subst hrest
    refine ⟨hwf, fun e he => chainOK_ext hext (hi.logChain e he), ?_, fun e he x rest' hch' =>
      himp.acc (hi.head e he x rest' hch'), ?_⟩
    · intro b x r m hx hm
      by_cases hxc : x = c
      · subst hxc
        simp only [upd_same, Option.some.injEq] at hx
        subst hx
        rw [getVal_closed] at hm
        exact hi.sound b x rc m hc hm
      · simp only [upd_other _ _ _ _ hxc] at hx
        exact hi.sound b x r m hx hm
    · intro e he y hyc ry p hry hcl hpar hacc
      by_cases hyc' : y = c
      · subst hyc'
        simp only [upd_same, Option.some.injEq] at hry
        subst hry
        simp only [hpar0] at hpar
        cases hpar
      · simp only [upd_other _ _ _ _ hyc'] at hry
        exact himp.acc (hi.prop e he y hyc ry p hry hcl hpar
          (acc_of_eq (s := s) (upd_other _ _ _ _ hyc') hacc))
  · subst hrest
    simp only [Bool.or_eq_false_iff] at hl
    have hopen := hl.2
    have hcp : c ≠ p0 := hi.wf.head_ne_next hc hanc
    have hpar : rc.parent = some p0 := by rw [hpar0]; rfl
    have hpcl : rp.closed = false := anyClosed_false hopen List.mem_cons_self hp
    have hrec : setStop true (setStart true rp rc.getStart) rc.getStop =
        setVal true false (setVal true true rp (getVal true rc)) (getVal false rc) := rfl
    refine ⟨hwf, fun e he => chainOK_ext hext (hi.logChain e he), ?_, fun e he x rest'' hch' =>
      himp.acc (hi.head e he x rest'' hch'), ?_⟩
    · intro b x r m hx hm
      by_cases hxp : x = p0
      · subst hxp
        simp only [upd_same, Option.some.injEq] at hx
        subst hx
        rw [hrec] at hm
        rcases (setVal_opt false b _ _).2.1 m hm with h1 | ⟨h1, h2⟩
        · rcases (setVal_opt true b _ _).2.1 m h1 with h3 | ⟨h3, h4⟩
          · exact hi.sound b x rp m hp h3
          · subst h3
            exact timesFor_parent hi.wf hi.logChain hc hpar (hi.sound true c rc m hc h4)
        · subst h1
          exact timesFor_parent hi.wf hi.logChain hc hpar (hi.sound false c rc m hc h2)
      · simp only [upd_other _ _ _ _ hxp] at hx
        by_cases hxc : x = c
        · subst hxc
          simp only [upd_same, Option.some.injEq] at hx
          subst hx
          rw [getVal_closed] at hm
          exact hi.sound b x rc m hc hm
        · simp only [upd_other _ _ _ _ hxc] at hx
          exact hi.sound b x r m hx hm
    · intro e he y hyc ry p hry hcl hpar' hacc
      by_cases hyp : y = p0
      · subst hyp
        simp only [upd_same, Option.some.injEq] at hry
        subst hry
        simp only [setStop_closed, setStart_closed] at hcl
        rw [hpcl] at hcl; cases hcl
      · simp only [upd_other _ _ _ _ hyp] at hry
        by_cases hyc' : y = c
        · subst hyc'
          simp only [upd_same, Option.some.injEq] at hry
          subst hry
          simp only [hpar, Option.some.injEq] at hpar'
          subst hpar'
          -- what the child holds is written into the parent
          obtain ⟨r1, m, hr1, hm, hb⟩ := hacc
          simp only [upd_other _ _ _ _ hcp, upd_same, Option.some.injEq] at hr1
          subst hr1
          rw [getVal_closed] at hm
          cases hbs : e.isStart with
          | true =>
            rw [hbs] at hm hb
            obtain ⟨m1, h1, b1⟩ := (setVal_opt true true rp (getVal true rc)).2.2 rfl m hm
            obtain ⟨m2, h2, b2⟩ := (setVal_opt false true _ (getVal false rc)).1 m1 h1
            exact ⟨_, m2, upd_same _ _ _, by rw [hrec]; exact h2, better_trans b2 (better_trans b1 hb)⟩
          | false =>
            rw [hbs] at hm hb
            obtain ⟨m2, h2, b2⟩ :=
              (setVal_opt false false (setVal true true rp (getVal true rc)) (getVal false rc)).2.2 rfl m hm
            exact ⟨_, m2, upd_same _ _ _, by rw [hrec]; exact h2, better_trans b2 hb⟩
        · simp only [upd_other _ _ _ _ hyc'] at hry
          refine himp.acc (hi.prop e he y hyc ry p hry hcl hpar' (acc_of_eq (s := s) ?_ hacc))
          simp only [upd_other _ _ _ _ hyp, upd_other _ _ _ _ hyc']

theorem pinv_step {s s' : St} {e : CEv} (hi : PInv s) (h : step true s e = .ok s') (hl : s'.late = false) :
    PInv s' := by
  have hwf := wf_step hi.wf h
  have hext := step_ext h
  have himp := step_improves h
  cases e with
  | client c =>
    obtain ⟨_, rfl⟩ := step_client_ok h
    exact ⟨hwf, fun e he => chainOK_ext hext (hi.logChain e he), hi.sound, hi.head, hi.prop⟩
  | spawn p c =>
    obtain ⟨_, _, _, rfl⟩ := step_spawn_ok h
    exact ⟨hwf, fun e he => chainOK_ext hext (hi.logChain e he), hi.sound, hi.head, hi.prop⟩
  | open_ τ c => exact pinv_step_open hi hwf hext himp h
  | wireStart τ t => exact pinv_step_wire hi hwf hext himp (b := true) h hl
  | wireEnd τ t => exact pinv_step_wire hi hwf hext himp (b := false) h hl
  | close τ exc => exact pinv_step_close hi hwf hext himp h hl

theorem pinv_runFrom {evs : List CEv} {s s' : St} (hi : PInv s) (h : runFrom true s evs = .ok s')
    (hl : s'.late = false) : PInv s' := by
  induction evs generalizing s with
  | nil => simp only [runFrom, Except.ok.injEq] at h; subst h; exact hi
  | cons e es ih =>
    simp only [runFrom] at h
    split at h
    · rename_i s1 hs1
      exact ih (pinv_step hi hs1 (late_mono_run h hl)) h
    · cases h

theorem minOpt_eq_of_min {l : List Rat} {m : Rat} (hm : m ∈ l) (hle : ∀ x ∈ l, m ≤ x) : minOpt l = some m := by
  cases hk : minOpt l with
  | none => rw [minOpt_eq_none.mp hk] at hm; cases hm
  | some k =>
    obtain ⟨h1, h2⟩ := minOpt_spec hk
    rw [Rat.le_antisymm (h2 m hm) (hle k h1)]

theorem maxOpt_eq_of_max {l : List Rat} {m : Rat} (hm : m ∈ l) (hle : ∀ x ∈ l, x ≤ m) : maxOpt l = some m := by
  cases hk : maxOpt l with
  | none => rw [maxOpt_eq_none.mp hk] at hm; cases hm
  | some k =>
    obtain ⟨h1, h2⟩ := maxOpt_spec hk
    rw [Rat.le_antisymm (hle k h1) (h2 m hm)]

/-- walking up a logged chain: once every strict descendant of `c` has exited, what the head of the chain
    recorded has been handed over, dict by dict, up to `c` -/
theorem pinv_walk {s : St} (hi : PInv s) {c : Nat} (hset : settled s c = true) {e : LogE} (he : e ∈ s.log) :
    ∀ l, ChainOK s l → (∀ z ∈ l, z ∈ e.chain) → c ∈ l →
      (∀ y rest, l = y :: rest → Acc e.isStart s y e.t) → Acc e.isStart s c e.t := by
  intro l
  induction l with
  | nil => intro _ _ hc; cases hc
  | cons y rest ih =>
    intro hok hsub hc hacc
    by_cases hyc : y = c
    · subst hyc; exact hacc y rest rfl
    · have hcrest : c ∈ rest := by
        rcases List.mem_cons.mp hc with e0 | h0
        · exact absurd e0.symm hyc
        · exact h0
      obtain ⟨⟨ry, hry, hanc⟩, hok'⟩ := hok
      have hclosed : ry.closed = true := by
        have hyn := hi.wf.names y ry hry
        simp only [settled, List.all_eq_true] at hset
        have := hset y hyn
        simpa [hry, hyc, hanc, hcrest] using this
      obtain ⟨rest0, h1, h2, _⟩ := hi.wf.ancOk y ry hry
      rw [hanc] at h1
      simp only [List.cons.injEq, true_and] at h1
      subst h1
      cases hrest : rest with
      | nil => rw [hrest] at hcrest; cases hcrest
      | cons p rest' =>
        have hpar : ry.parent = some p := by rw [h2, hrest]; rfl
        have hp := hi.prop e he y (hsub y List.mem_cons_self) ry p hry hclosed hpar (hacc y rest rfl)
        rw [hrest] at ih hok' hsub hcrest
        exact ih hok' (fun z hz => hsub z (List.mem_cons_of_mem _ hz)) hcrest
          (fun y' rest'' hl => by cases hl; exact hp)

theorem pinv_covered {s : St} (hi : PInv s) {c : Nat} {r : Rec} (hc : s.ctxs c = some r)
    (hset : settled s c = true) (b : Bool) :
    ∀ t ∈ timesFor s.log b c, ∃ m, getVal b r = some m ∧ better b m t := by
  intro t ht
  simp only [timesFor, List.mem_map, List.mem_filter, Bool.and_eq_true, List.contains_eq_mem,
    decide_eq_true_eq, beq_iff_eq] at ht
  obtain ⟨e, ⟨he, hb, hm⟩, rfl⟩ := ht
  subst hb
  have := pinv_walk hi hset he e.chain (hi.logChain e he) (fun z hz => hz) hm
    (fun y rest hl => hi.head e he y rest hl)
  obtain ⟨r', m, hr', hm', hb'⟩ := this
  rw [hc] at hr'; cases hr'
  exact ⟨m, hm', hb'⟩

/-- under the current code a settled context carries the specification, whatever the concurrency -/
theorem pinv_settled {s : St} (hi : PInv s) {c : Nat} {r : Rec} (hc : s.ctxs c = some r)
    (hset : settled s c = true) : r.getStart = specStart s c ∧ r.getStop = specStop s c := by
  constructor
  · have hcov := pinv_covered hi hc hset true
    have hsound := hi.sound true c r
    simp only [getVal, if_true] at hcov hsound
    unfold specStart
    cases hg : r.getStart with
    | none =>
      cases hl : timesFor s.log true c with
      | nil => rfl
      | cons t l =>
        obtain ⟨m, hm, _⟩ := hcov t (by rw [hl]; exact List.mem_cons_self)
        rw [hg] at hm; cases hm
    | some m =>
      have hmem := hsound m hc hg
      symm
      apply minOpt_eq_of_min hmem
      intro x hx
      obtain ⟨m', hm', hb⟩ := hcov x hx
      rw [hg] at hm'; cases hm'
      exact hb
  · have hcov := pinv_covered hi hc hset false
    have hsound := hi.sound false c r
    simp only [getVal, Bool.false_eq_true, if_false] at hcov hsound
    unfold specStop
    cases hg : r.getStop with
    | none =>
      cases hl : timesFor s.log false c with
      | nil => rfl
      | cons t l =>
        obtain ⟨m, hm, _⟩ := hcov t (by rw [hl]; exact List.mem_cons_self)
        rw [hg] at hm; cases hm
    | some m =>
      have hmem := hsound m hc hg
      symm
      apply maxOpt_eq_of_max hmem
      intro x hx
      obtain ⟨m', hm', hb⟩ := hcov x hx
      rw [hg] at hm'; cases hm'
      exact hb

/-! ## Part 6: the timing records collected by `Composite.run_stream` -/

theorem collectGo_eq (items : Items) : ∀ pending, collectGo items pending = pending.flatten ++ allOps items := by
  induction items with
  | nil => intro pending; simp [collectGo, allOps]
  | op id rest ih => intro pending; simp [collectGo, allOps, ih]
  | stream sub rest ihs ihr =>
    intro pending
    simp [collectGo, allOps, ihs, ihr, List.flatten_append]

/-! ## Part 7: every logged wire event belongs to exactly one top-level context; wire events after an exit are `late` -/

structure LC (s : St) : Prop where
  wf : WF s
  logChain : ∀ e ∈ s.log, ChainOK s e.chain

theorem lc_init : LC init := ⟨wf_init, by intro e he; simp [init] at he⟩

theorem lc_step {fx : Bool} {s s' : St} {e : CEv} (hi : LC s) (h : step fx s e = .ok s') : LC s' := by
  have hext := step_ext h
  refine ⟨wf_step hi.wf h, ?_⟩
  have keep : ∀ e0 ∈ s.log, ChainOK s' e0.chain := fun e0 he0 => chainOK_ext hext (hi.logChain e0 he0)
  cases e with
  | client c => obtain ⟨_, rfl⟩ := step_client_ok h; exact keep
  | spawn p c => obtain ⟨_, _, _, rfl⟩ := step_spawn_ok h; exact keep
  | open_ τ c => obtain ⟨_, _, _, rfl⟩ := step_open_ok h; exact keep
  | wireStart τ t =>
    obtain ⟨tk, y, rest, ry, htk, _, _, _, rfl⟩ := wire_ok (b := true) h
    intro e0 he0
    rcases List.mem_append.mp he0 with he0 | he0
    · exact keep e0 he0
    · simp only [List.mem_singleton] at he0; subst he0
      exact chainOK_ext hext (chainOK_task hi.wf htk)
  | wireEnd τ t =>
    obtain ⟨tk, y, rest, ry, htk, _, _, _, rfl⟩ := wire_ok (b := false) h
    intro e0 he0
    rcases List.mem_append.mp he0 with he0 | he0
    · exact keep e0 he0
    · simp only [List.mem_singleton] at he0; subst he0
      exact chainOK_ext hext (chainOK_task hi.wf htk)
  | close τ exc =>
    obtain ⟨tk, c, rest, rc, _, _, _, _, hcase⟩ := step_close_ok h
    rcases hcase with ⟨_, rfl⟩ | ⟨p, rest', rp, _, _, rfl⟩ <;> exact keep

theorem lc_runFrom {fx : Bool} {evs : List CEv} {s s' : St} (hi : LC s) (h : runFrom fx s evs = .ok s') : LC s' := by
  induction evs generalizing s with
  | nil => simp only [runFrom, Except.ok.injEq] at h; subst h; exact hi
  | cons e es ih =>
    simp only [runFrom] at h
    split at h
    · rename_i s1 hs1; exact ih (lc_step hi hs1) h
    · cases h

/-- in a chain, a context without parent can only be the last element -/
theorem chainOK_root_is_last {s : St} (hw : WF s) {l : List Nat} (h : ChainOK s l) {x : Nat} {rx : Rec}
    (hx : x ∈ l) (hrx : s.ctxs x = some rx) (hp : rx.parent = none) : l.getLast? = some x := by
  induction l with
  | nil => cases hx
  | cons y post ih =>
    rcases List.mem_cons.mp hx with rfl | hx
    · obtain ⟨ry, hry, hay⟩ := h.1
      rw [hrx] at hry; cases hry
      obtain ⟨rest0, h1, h2, _⟩ := hw.ancOk x rx hrx
      rw [hay] at h1
      simp only [List.cons.injEq, true_and] at h1
      subst h1
      rw [hp] at h2
      cases post with
      | nil => rfl
      | cons q post' => simp at h2
    · have := ih h.2 hx
      cases post with
      | nil => cases hx
      | cons q post' => simpa [List.getLast?_cons_cons] using this

theorem wire_after_exit_is_late_aux {fx : Bool} {s s' : St} {τ : Nat} {b : Bool} {t : Rat}
    (h : wire fx s τ b t = .ok s') {tk : Task} (htk : s.tasks τ = some tk) {c : Nat} (hc : c ∈ tk.chain)
    (hcl : isClosed s c = true) : s'.late = true := by
  obtain ⟨tk', y, rest, ry, htk', _, _, _, rfl⟩ := wire_ok h
  rw [htk] at htk'; cases htk'
  have : anyClosed s tk.chain = true := by
    simp only [anyClosed, List.any_eq_true]
    exact ⟨c, hc, hcl⟩
  simp [this]

/-! ## evaluating observations on concrete runs (used by the witnesses in RallyProps/C18.lean) -/

/-- evaluate a Boolean observation on the final state of a run -/
def chk (fx : Bool) (evs : List CEv) (f : St → Bool) : Bool :=
  match runCtx fx evs with
  | .ok s => f s
  | .error _ => false

theorem chk_ok {fx : Bool} {evs : List CEv} {f : St → Bool} (h : chk fx evs f = true) :
    ∃ s, runCtx fx evs = .ok s ∧ f s = true := by
  unfold chk at h
  split at h
  · rename_i s hs; exact ⟨s, hs, h⟩
  · cases h

/-- what a context holds / should hold, as one comparable value -/
def view (s : St) (c : Nat) : Option (PyVal × PyVal × PyVal × PyVal) :=
  (s.ctxs c).map (fun r => (r.getStart, r.getStop, specStart s c, specStop s c))

end Ctx
