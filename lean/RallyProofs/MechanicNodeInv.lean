import RallyProofs.MechanicNode

set_option linter.unusedSimpArgs false
set_option linter.unusedVariables false

namespace Mechanic

local notation "RS(" h ")" => Out.recv (Aid.node h) Aid.disp (Msg.startNodes h Aid.mech)
local notation "NSs(" h ")" => Out.send (Aid.node h) Aid.mech Msg.nodesStarted
local notation "NPs(" h ")" => Out.send (Aid.node h) Aid.mech Msg.nodesStopped
local notation "FSs(" h ")" => Out.send (Aid.node h) Aid.mech (Msg.failure (FKind.start h))

structure NIh (cfg : Config) (s : State) (tr : List Out) (h : Nat) : Prop where
  n0 : RS(h) ∈ tr → h < nHosts cfg
  n2 : tr.count NSs(h) ≤ tr.count RS(h)
  n3 : NSs(h) ∈ tr → startOk cfg h ∧ Out.call h (.launch (idsOf cfg h) true) ∈ tr
  n4 : RS(h) ∈ tr → ¬ startOk cfg h → FSs(h) ∈ tr
  n5 : ∀ m, (s.n h).mech = some m → RS(h) ∈ tr ∧ m.host = h ∧
        (startOk cfg h → m = ⟨h, idsOf cfg h, idsOf cfg h⟩) ∧ tr.filter (isStop h) = [] ∧ NPs(h) ∉ tr
  n6 : (s.n h).mech = none → (tr.filter (isStop h) = [] ∧ NPs(h) ∉ tr) ∨
        (RS(h) ∈ tr ∧ tr.count NPs(h) ≤ 1 ∧ ∃ m : Mech, m.host = h ∧ (startOk cfg h → m = ⟨h, idsOf cfg h, idsOf cfg h⟩) ∧
          tr.filter (isStop h) = (stopEffs cfg m).map (toOut (.node h)))
  n7 : NPs(h) ∈ tr → Out.recv (.node h) .mech .stopNodes ∈ tr

def NI (cfg : Config) (s : State) (tr : List Out) : Prop := ∀ h, NIh cfg s tr h

/-- a step that does not concern node actor `h` -/
theorem NIh_other {cfg : Config} {s s' : State} {tr o : List Out} {h : Nat} (ih : NIh cfg s tr h)
    (hn : (s'.n h).mech = (s.n h).mech ∨ (s'.n h).mech = none)
    (h1 : RS(h) ∉ o) (h2a : NSs(h) ∉ o) (h2b : NPs(h) ∉ o)
    (h3 : o.filter (isStop h) = []) : NIh cfg s' (tr ++ o) h := by
  have c1 : o.count RS(h) = 0 := List.count_eq_zero_of_not_mem h1
  have c2a : o.count NSs(h) = 0 := List.count_eq_zero_of_not_mem h2a
  have c2 : o.count NPs(h) = 0 := List.count_eq_zero_of_not_mem h2b
  have m1 : RS(h) ∈ tr ++ o → RS(h) ∈ tr := by
    intro hm; rcases List.mem_append.1 hm with hm | hm
    · exact hm
    · exact absurd hm h1
  have m2a : NSs(h) ∈ tr ++ o → NSs(h) ∈ tr := by
    intro hm; rcases List.mem_append.1 hm with hm | hm
    · exact hm
    · exact absurd hm h2a
  have m2 : NPs(h) ∈ tr ++ o → NPs(h) ∈ tr := by
    intro hm; rcases List.mem_append.1 hm with hm | hm
    · exact hm
    · exact absurd hm h2b
  have keep5 : ∀ m, (s.n h).mech = some m → RS(h) ∈ tr ++ o ∧ m.host = h ∧
      (startOk cfg h → m = ⟨h, idsOf cfg h, idsOf cfg h⟩) ∧ (tr ++ o).filter (isStop h) = [] ∧ NPs(h) ∉ tr ++ o := by
    intro m hm
    obtain ⟨a, b, c, d, e⟩ := ih.n5 m hm
    exact ⟨List.mem_append_left _ a, b, c, by rw [List.filter_append, d, h3]; rfl, fun hx => e (m2 hx)⟩
  have keep6 : (s.n h).mech = none → ((tr ++ o).filter (isStop h) = [] ∧ NPs(h) ∉ tr ++ o) ∨
      (RS(h) ∈ tr ++ o ∧ (tr ++ o).count NPs(h) ≤ 1 ∧ ∃ m : Mech, m.host = h ∧
        (startOk cfg h → m = ⟨h, idsOf cfg h, idsOf cfg h⟩) ∧
        (tr ++ o).filter (isStop h) = (stopEffs cfg m).map (toOut (.node h))) := by
    intro hm
    rcases ih.n6 hm with ⟨a, b⟩ | ⟨a, b, m, c, d, e⟩
    · exact Or.inl ⟨by rw [List.filter_append, a, h3]; rfl, fun hx => b (m2 hx)⟩
    · exact Or.inr ⟨List.mem_append_left _ a, by rw [List.count_append, c2]; exact b, m, c, d,
        by rw [List.filter_append, e, h3, List.append_nil]⟩
  refine ⟨fun hx => ih.n0 (m1 hx), ?_, ?_, ?_, ?_, ?_, fun hx => List.mem_append_left _ (ih.n7 (m2 hx))⟩
  · rw [List.count_append, List.count_append, c1, c2a]; exact ih.n2
  · intro hx; obtain ⟨a, b⟩ := ih.n3 (m2a hx); exact ⟨a, List.mem_append_left _ b⟩
  · intro hx hno; exact List.mem_append_left _ (ih.n4 (m1 hx) hno)
  · intro m hm
    rcases hn with hn | hn
    · rw [hn] at hm; exact keep5 m hm
    · rw [hn] at hm; cases hm
  · intro hm
    rcases hn with hn | hn
    · rw [hn] at hm; exact keep6 hm
    · -- the actor was re-created: whatever it was before, nothing new happened
      cases hmm : (s.n h).mech with
      | none => exact keep6 hmm
      | some m => obtain ⟨_, _, _, d, e⟩ := keep5 m hmm; exact Or.inl ⟨d, e⟩


theorem filter_isStop_map_of_label {k h : Nat} (hk : h ≠ k) (effs : List Eff)
    (hl : ∀ h' c, Eff.call h' c ∈ effs → h' = k) (a : Aid) : (effs.map (toOut a)).filter (isStop h) = [] := by
  apply List.filter_eq_nil_iff.2
  intro o ho
  obtain ⟨e, he, rfl⟩ := List.mem_map.1 ho
  cases e <;> simp [toOut, isStop]
  rename_i h' c
  have := hl h' c he
  subst this
  cases c with
  | flush b => cases b <;> simp [isStop] <;> exact fun hx => hk hx.symm
  | _ => simp [isStop] <;> exact fun hx => hk hx.symm

theorem filter_isStop_noCall (effs : List Eff) (hl : ∀ h' c, Eff.call h' c ∉ effs) (a : Aid) (h : Nat) :
    (effs.map (toOut a)).filter (isStop h) = [] := by
  apply List.filter_eq_nil_iff.2
  intro o ho
  obtain ⟨e, he, rfl⟩ := List.mem_map.1 ho
  cases e <;> simp [toOut, isStop]
  rename_i h' c
  exact absurd he (hl h' c)

theorem filter_isStop_cons_recv (a b : Aid) (m : Msg) (l : List Out) (h : Nat) :
    (Out.recv a b m :: l).filter (isStop h) = l.filter (isStop h) := by
  simp [List.filter_cons, isStop]


theorem isStopEff_label {h0 h' : Nat} {c : Call} (h : isStopEff h0 (Eff.call h' c)) : h' = h0 := by
  cases c with
  | flush b => cases b <;> simp [isStopEff] at h; exact h
  | _ => simp [isStopEff] at h <;> exact h

theorem isStartEff_label {h0 h' : Nat} {r : Aid} {c : Call} (h : isStartEff h0 r (Eff.call h' c)) : h' = h0 := by
  cases c <;> simp [isStartEff] at h <;> exact h

theorem nodeEff_noCreate (cfg : Config) (k : Nat) (st : NSt) (msg : Msg) (src : Aid) :
    ∀ h, Eff.createNode h ∉ (recvNode cfg k st msg src).2 := by
  intro h hm
  cases msg <;> simp only [recvNode] at hm
  case startNodes h' r => have := startNodes_kind cfg st h' r _ hm; simp [isStartEff] at this
  case stopNodes =>
    split at hm
    · rcases List.mem_append.1 hm with hm | hm
      · have := stopEffs_kind cfg _ _ hm; simp [isStopEff] at this
      · simp at hm
    · simp at hm
  case exitReq =>
    split at hm
    · rcases List.mem_append.1 hm with hm | hm
      · have := stopEffs_kind cfg _ _ hm; simp [isStopEff] at this
      · simp [exitEffs] at hm
    · simp [exitEffs] at hm
  case wakeup => split at hm <;> simp at hm
  case poison => split at hm <;> simp at hm
  all_goals simp at hm

theorem count_SN_le {cfg : Config} {s : State} {tr : List Out} (hr : Reach cfg s tr) {h : Nat} (hh : h < nHosts cfg) :
    tr.count (Out.send .disp (.node h) (.startNodes h .mech)) ≤ 1 := by
  have := (di_reach hr).d2 h hh
  split at this <;> omega

theorem ni_reach {cfg : Config} {s : State} {tr : List Out} (hr : Reach cfg s tr) : NI cfg s tr := by
  induction hr with
  | init =>
    intro h
    exact ⟨by simp, by simp, by simp, by simp, by simp [State.init, NSt.init], by simp, by simp⟩
  | @step s s' tr outs e hr hs ih =>
    have hT := ty_reach hr
    refine step_elim (motive := fun s' outs => NI cfg s' (tr ++ outs)) hs ?_ ?_ ?_ ?_ ?_
    · intro _ h; exact NIh_other (ih h) (Or.inl rfl) (by simp) (by simp) (by simp) (by simp [isStop])
    · intro _ _ h; exact NIh_other (ih h) (Or.inl rfl) (by simp) (by simp) (by simp) (by simp [isStop])
    · intro added ip _ h; exact NIh_other (ih h) (Or.inl rfl) (by simp) (by simp) (by simp) (by simp [isStop])
    · intro s0 dst src msg hp _ h
      exact NIh_other (ih h) (Or.inl (pre_n hp h)) (by simp) (by simp) (by simp) (by simp [isStop])
    · intro s0 dst src msg s1 effs hp hh h
      obtain ⟨ha, _, _, _⟩ := pre_allowed hT hp
      by_cases hd : ∀ k, dst ≠ .node k
      · -- not a node actor: no calls, no node sends; a node actor may be (re-)created
        have hn1 := handle_n_other hd hh
        have hnc := noCall_other hd hh
        refine NIh_other (ih h) ?_ ?_ ?_ ?_ ?_
        · rw [applyEffs_n, hn1]
          split
          · right; rfl
          · left; exact pre_n hp h
        · intro hm; exact hd h (mem_outs_recv.1 hm).1.symm
        · intro hm; exact hd h (mem_outs_send.1 hm).1.symm
        · intro hm; exact hd h (mem_outs_send.1 hm).1.symm
        · rw [filter_isStop_cons_recv]
          apply filter_isStop_noCall
          intro h' c hm; exact hnc _ hm
      · -- a node actor k handles a message
        have hk : ∃ k, dst = .node k := by
          cases dst with
          | node k => exact ⟨k, rfl⟩
          | rc => exact absurd (fun k hk => by cases hk) hd
          | sys => exact absurd (fun k hk => by cases hk) hd
          | mech => exact absurd (fun k hk => by cases hk) hd
          | disp => exact absurd (fun k hk => by cases hk) hd
        obtain ⟨k, rfl⟩ := hk
        obtain ⟨hal, he, h1⟩ := handle_node hh
        have hmk : (s0.n k).mech = (s.n k).mech := pre_n hp k
        have ha' : allowed (nHosts cfg) src (.node k) msg ∨ (msg = .wakeup ∧ src = .node k) := by
          rcases ha with ha | ⟨h5, k', hk', h6⟩
          · exact Or.inl ha
          · injection hk' with hk'; subst hk'; exact Or.inr ⟨h5, h6⟩
        have hnoc := nodeEff_noCreate cfg k (s0.n k) msg src
        have hsn : ∀ h', (applyEffs (Aid.node k) s1 effs).n h' = updN s0.n k (recvNode cfg k (s0.n k) msg src).1 h' := by
          intro h'; rw [applyEffs_n, he, if_neg (hnoc h'), h1]
        -- all calls of this step are labelled k
        have hlabel : ∀ h' c, Eff.call h' c ∈ effs → h' = k := by
          intro h' c hm
          rw [he] at hm
          rcases recvNode_cases ha' with ⟨rfl, _, _⟩ | ⟨rfl, _⟩ | ⟨rfl, _⟩ | ⟨f, rfl, _⟩ | ⟨p, rfl, _⟩ | ⟨rfl, _⟩ <;>
            simp only [recvNode] at hm
          · exact isStartEff_label (startNodes_kind cfg _ _ _ _ hm)
          · split at hm
            · rename_i m hm'
              rw [hmk] at hm'
              rcases List.mem_append.1 hm with hm | hm
              · rw [isStopEff_label (stopEffs_kind cfg _ _ hm)]; exact ((ih k).n5 m hm').2.1
              · simp at hm
            · simp at hm
          · split at hm
            · rename_i m hm'
              rw [hmk] at hm'
              rcases List.mem_append.1 hm with hm | hm
              · rw [isStopEff_label (stopEffs_kind cfg _ _ hm)]; exact ((ih k).n5 m hm').2.1
              · simp [exitEffs] at hm
            · simp [exitEffs] at hm
          · simp at hm
          · split at hm <;> simp at hm
          · split at hm
            · rename_i m hm'
              rw [hmk] at hm'
              simp at hm
              rw [← ((ih k).n5 m hm').2.1]; exact hm.1
            · simp at hm
        by_cases hhk : h = k
        · subst hhk
          have hst' : (applyEffs (Aid.node h) s1 effs).n h = (recvNode cfg h (s0.n h) msg src).1 := by
            rw [hsn, updN, if_pos rfl]
          rcases recvNode_cases ha' with ⟨rfl, rfl, hlt⟩ | ⟨rfl, rfl⟩ | ⟨rfl, rfl⟩ | ⟨f, rfl, rfl⟩ | ⟨p, rfl, rfl⟩ | ⟨rfl, rfl⟩
          · -- StartNodes: the first and only one for this host group
            have hRS0 : tr.count RS(h) = 0 := by
              cases hp with
              | pop _ _ _ rest hc =>
                have := head_count hr hc
                have := count_SN_le hr hlt
                omega
            have hRS : RS(h) ∉ tr := fun hx => by have := List.count_pos_iff.2 hx; omega
            have hmn : (s.n h).mech = none := by
              cases hm : (s.n h).mech with
              | none => rfl
              | some m => exact absurd ((ih h).n5 m hm).1 hRS
            obtain ⟨hf0, hnp0⟩ : tr.filter (isStop h) = [] ∧ NPs(h) ∉ tr := by
              rcases (ih h).n6 hmn with h6 | h6
              · exact h6
              · exact absurd h6.1 hRS
            have hNS0 : tr.count NSs(h) = 0 := by have := (ih h).n2; omega
            simp only [recvNode] at he hst'
            have hfo : (Out.recv (Aid.node h) Aid.disp (Msg.startNodes h Aid.mech) :: effs.map (toOut (Aid.node h))).filter
                (isStop h) = [] := by
              rw [filter_isStop_cons_recv, he]; exact startNodes_filter _ _ _ _ _ _
            have hnpo : NPs(h) ∉ Out.recv (Aid.node h) Aid.disp (Msg.startNodes h Aid.mech) :: effs.map (toOut (Aid.node h)) := by
              intro hx
              have := (mem_outs_send.1 hx).2
              rw [he] at this
              rcases (startNodes_tell this).2 with h5 | h5 <;> cases h5
            have hfil : (tr ++ Out.recv (Aid.node h) Aid.disp (Msg.startNodes h Aid.mech) :: effs.map (toOut (Aid.node h))).filter
                (isStop h) = [] := by rw [List.filter_append, hf0, hfo]; rfl
            have hnp : NPs(h) ∉ tr ++ Out.recv (Aid.node h) Aid.disp (Msg.startNodes h Aid.mech) :: effs.map (toOut (Aid.node h)) := by
              intro hx; rcases List.mem_append.1 hx with hx | hx
              · exact hnp0 hx
              · exact hnpo hx
            have hrs : RS(h) ∈ tr ++ Out.recv (Aid.node h) Aid.disp (Msg.startNodes h Aid.mech) :: effs.map (toOut (Aid.node h)) :=
              List.mem_append_right _ List.mem_cons_self
            refine ⟨fun _ => hlt, ?_, ?_, ?_, ?_, ?_, fun hx => absurd hx hnp⟩
            · rw [List.count_append, List.count_append, hNS0, hRS0, count_outs_send, count_outs_recv, he]
              by_cases hok : startOk cfg h
              · rw [(startNodes_ok _ _ hok).2.2]; simp
              · rw [(startNodes_fail _ _ hok).2]; simp
            · intro hx
              have hx' : NSs(h) ∈ Out.recv (Aid.node h) Aid.disp (Msg.startNodes h Aid.mech) :: effs.map (toOut (Aid.node h)) := by
                rcases List.mem_append.1 hx with hx | hx
                · have := List.count_pos_iff.2 hx; omega
                · exact hx
              have := (mem_outs_send.1 hx').2
              rw [he] at this
              by_cases hok : startOk cfg h
              · refine ⟨hok, List.mem_append_right _ (mem_outs_call.2 ?_)⟩
                rw [he]; exact (startNodes_ok _ _ hok).2.1
              · have h0 := (startNodes_fail (s0.n h) Aid.mech hok).2
                exact absurd (List.count_pos_iff.2 this) (by omega)
            · intro _ hno
              apply List.mem_append_right
              apply mem_outs_send.2
              rw [he]; exact ⟨rfl, (startNodes_fail _ _ hno).1⟩
            · intro m hm
              rw [hst'] at hm
              refine ⟨hrs, ?_, ?_, hfil, hnp⟩
              · rcases (startNodes_mech cfg (s0.n h) h Aid.mech).1 with h5 | ⟨m', h5, h6⟩
                · rw [h5, hmk, hmn] at hm; cases hm
                · rw [h5] at hm; injection hm with hm; subst hm; exact h6
              · intro hok
                rw [(startNodes_ok _ _ hok).1] at hm; injection hm with hm; exact hm.symm
            · intro _; exact Or.inl ⟨hfil, hnp⟩
          · -- StopNodes
            simp only [recvNode] at he hst'
            cases hm : (s0.n h).mech with
            | none =>
              rw [hm] at he hst'; simp only [] at he hst'
              refine NIh_other (ih h) (Or.inl (by rw [hst']; exact hmk)) ?_ ?_ ?_ ?_
              · intro hx; have := (mem_outs_recv.1 hx).2.2; cases this
              · intro hx; have := (mem_outs_send.1 hx).2; rw [he] at this; simp at this
              · intro hx; have := (mem_outs_send.1 hx).2; rw [he] at this; simp at this
              · rw [filter_isStop_cons_recv, he]; simp [toOut, isStop]
            | some m =>
              rw [hm] at he hst'; simp only [] at he hst'
              have hm' : (s.n h).mech = some m := by rw [← hmk]; exact hm
              obtain ⟨a, b, c, d, e5⟩ := (ih h).n5 m hm'
              have hRSo : RS(h) ∉ Out.recv (Aid.node h) Aid.mech Msg.stopNodes :: effs.map (toOut (Aid.node h)) := by
                intro hx; have := (mem_outs_recv.1 hx).2.2; cases this
              have hNSo : NSs(h) ∉ Out.recv (Aid.node h) Aid.mech Msg.stopNodes :: effs.map (toOut (Aid.node h)) := by
                intro hx; have := (mem_outs_send.1 hx).2; rw [he] at this
                rcases List.mem_append.1 this with h5 | h5
                · exact stopEffs_no_tell _ _ _ _ h5
                · simp at h5
              refine ⟨fun hx => (ih h).n0 (by rcases List.mem_append.1 hx with hx | hx; exact hx; exact absurd hx hRSo), ?_, ?_, ?_, ?_, ?_, fun _ => List.mem_append_right _ List.mem_cons_self⟩
              · rw [List.count_append, List.count_append, List.count_eq_zero_of_not_mem hRSo,
                  List.count_eq_zero_of_not_mem hNSo]; exact (ih h).n2
              · intro hx
                have : NSs(h) ∈ tr := by rcases List.mem_append.1 hx with hx | hx; exact hx; exact absurd hx hNSo
                obtain ⟨x, y⟩ := (ih h).n3 this; exact ⟨x, List.mem_append_left _ y⟩
              · intro hx hno
                have : RS(h) ∈ tr := by rcases List.mem_append.1 hx with hx | hx; exact hx; exact absurd hx hRSo
                exact List.mem_append_left _ ((ih h).n4 this hno)
              · intro m2 hm2; rw [hst'] at hm2; cases hm2
              · intro _
                right
                refine ⟨List.mem_append_left _ a, ?_, m, b, c, ?_⟩
                · rw [List.count_append, List.count_eq_zero_of_not_mem e5, count_outs_send, he]
                  simp [List.count_append, List.count_eq_zero_of_not_mem (stopEffs_no_tell _ _ _ _)]
                · rw [List.filter_append, d, filter_isStop_cons_recv, he, List.map_append, List.filter_append, ← b,
                    filter_isStop_stopEffs]
                  simp [toOut, isStop]
          · -- ActorExitRequest
            simp only [recvNode] at he hst'
            cases hm : (s0.n h).mech with
            | none =>
              rw [hm] at he hst'; simp only [] at he hst'
              refine NIh_other (ih h) (Or.inl (by rw [hst']; show none = (s.n h).mech; rw [← hmk, hm])) ?_ ?_ ?_ ?_
              · intro hx; have := (mem_outs_recv.1 hx).2.2; cases this
              · intro hx; have := (mem_outs_send.1 hx).2; rw [he] at this; simp [exitEffs] at this
              · intro hx; have := (mem_outs_send.1 hx).2; rw [he] at this; simp [exitEffs] at this
              · rw [filter_isStop_cons_recv, he]; simp [toOut, isStop, exitEffs]
            | some m =>
              rw [hm] at he hst'; simp only [] at he hst'
              have hm' : (s.n h).mech = some m := by rw [← hmk]; exact hm
              obtain ⟨a, b, c, d, e5⟩ := (ih h).n5 m hm'
              have hRSo : RS(h) ∉ Out.recv (Aid.node h) Aid.mech Msg.exitReq :: effs.map (toOut (Aid.node h)) := by
                intro hx; have := (mem_outs_recv.1 hx).2.2; cases this
              have hsend : ∀ mm, mm ≠ Msg.childExited h → Out.send (Aid.node h) Aid.mech mm ∉
                  Out.recv (Aid.node h) Aid.mech Msg.exitReq :: effs.map (toOut (Aid.node h)) := by
                intro mm _ hx; have := (mem_outs_send.1 hx).2; rw [he] at this
                rcases List.mem_append.1 this with h5 | h5
                · exact stopEffs_no_tell _ _ _ _ h5
                · simp [exitEffs] at h5
              have hNSo := hsend Msg.nodesStarted (by intro hx; cases hx)
              have hNPo := hsend Msg.nodesStopped (by intro hx; cases hx)
              refine ⟨fun hx => (ih h).n0 (by rcases List.mem_append.1 hx with hx | hx; exact hx; exact absurd hx hRSo), ?_, ?_, ?_, ?_, ?_, fun hx => List.mem_append_left _ ((ih h).n7 (by rcases List.mem_append.1 hx with hx | hx; exact hx; exact absurd hx hNPo))⟩
              · rw [List.count_append, List.count_append, List.count_eq_zero_of_not_mem hRSo,
                  List.count_eq_zero_of_not_mem hNSo]; exact (ih h).n2
              · intro hx
                have : NSs(h) ∈ tr := by rcases List.mem_append.1 hx with hx | hx; exact hx; exact absurd hx hNSo
                obtain ⟨x, y⟩ := (ih h).n3 this; exact ⟨x, List.mem_append_left _ y⟩
              · intro hx hno
                have : RS(h) ∈ tr := by rcases List.mem_append.1 hx with hx | hx; exact hx; exact absurd hx hRSo
                exact List.mem_append_left _ ((ih h).n4 this hno)
              · intro m2 hm2; rw [hst'] at hm2; cases hm2
              · intro _
                right
                refine ⟨List.mem_append_left _ a, ?_, m, b, c, ?_⟩
                · rw [List.count_append, List.count_eq_zero_of_not_mem e5, List.count_eq_zero_of_not_mem hNPo]; simp
                · rw [List.filter_append, d, filter_isStop_cons_recv, he, List.map_append, List.filter_append, ← b,
                    filter_isStop_stopEffs]
                  simp [toOut, isStop, exitEffs]
          · -- BenchmarkFailure bounced
            simp only [recvNode] at he hst'
            refine NIh_other (ih h) (Or.inl (by rw [hst']; exact hmk)) ?_ ?_ ?_ ?_
            · intro hx; have := (mem_outs_recv.1 hx).2.2; cases this
            · intro hx; have := (mem_outs_send.1 hx).2; rw [he] at this; simp at this
            · intro hx; have := (mem_outs_send.1 hx).2; rw [he] at this; simp at this
            · rw [filter_isStop_cons_recv, he]; simp [toOut, isStop]
          · -- PoisonMessage
            simp only [recvNode] at he hst'
            refine NIh_other (ih h) (Or.inl (by rw [hst']; split <;> exact hmk)) ?_ ?_ ?_ ?_
            · intro hx; have := (mem_outs_recv.1 hx).2.2; cases this
            · intro hx; have := (mem_outs_send.1 hx).2; rw [he] at this; split at this <;> simp at this
            · intro hx; have := (mem_outs_send.1 hx).2; rw [he] at this; split at this <;> simp at this
            · rw [filter_isStop_cons_recv, he]; split <;> simp [toOut, isStop]
          · -- wake-up: periodic metrics flush
            simp only [recvNode] at he hst'
            refine NIh_other (ih h) (Or.inl (by rw [hst']; split <;> simp [hmk])) ?_ ?_ ?_ ?_
            · intro hx; have := (mem_outs_recv.1 hx).2.2; cases this
            · intro hx; have := (mem_outs_send.1 hx).2; rw [he] at this; split at this <;> simp at this
            · intro hx; have := (mem_outs_send.1 hx).2; rw [he] at this; split at this <;> simp at this
            · rw [filter_isStop_cons_recv, he]; split <;> simp [toOut, isStop]
        · -- another host group
          refine NIh_other (ih h) ?_ ?_ ?_ ?_ ?_
          · left; rw [hsn, updN, if_neg hhk]; exact pre_n hp h
          · intro hm; have := (mem_outs_recv.1 hm).1; injection this with this; exact hhk this
          · intro hm; have := (mem_outs_send.1 hm).1; injection this with this; exact hhk this
          · intro hm; have := (mem_outs_send.1 hm).1; injection this with this; exact hhk this
          · rw [filter_isStop_cons_recv]
            exact filter_isStop_map_of_label hhk effs hlabel _

end Mechanic
