import RallyModel.Stats
import RallyProofs.StatsDbl
import Mathlib.Tactic.Linarith
import Mathlib.Tactic.Ring
import Mathlib.Tactic.Positivity
import Mathlib.Tactic.NormNum
import Mathlib.Data.List.Induction
import Mathlib.Tactic.FieldSimp
/-! Helper lemmas for C08: sorting, the interpolation function, ideal percentiles (part 1);
    `Dbl` rounding facts (part 2); record filtering / calculator structure (part 3). -/

namespace Stats

/-- sortedness as used in all theorems -/
abbrev Sorted (s : List Rat) : Prop := s.Pairwise (· ≤ ·)

theorem sortR_sorted (vs : List Rat) : Sorted (sortR vs) := by
  unfold sortR Sorted
  have h := List.pairwise_mergeSort (le := fun a b : Rat => decide (a ≤ b))
    (by intro a b c hab hbc; simp only [decide_eq_true_eq] at *; exact le_trans hab hbc)
    (by intro a b; simp only [Bool.or_eq_true, decide_eq_true_eq]; exact le_total a b) vs
  exact h.imp (by intro a b hab; simpa using hab)

theorem sortR_perm (vs : List Rat) : (sortR vs).Perm vs := List.mergeSort_perm _ _

theorem sortR_length (vs : List Rat) : (sortR vs).length = vs.length := (sortR_perm vs).length_eq

theorem sortR_eq_of_perm {vs ws : List Rat} (h : vs.Perm ws) : sortR vs = sortR ws := by
  apply List.Perm.eq_of_pairwise (le := (· ≤ ·)) _ (sortR_sorted vs) (sortR_sorted ws)
  · exact (sortR_perm vs).trans (h.trans (sortR_perm ws).symm)
  · intro a b _ _ hab hba; exact le_antisymm hab hba

theorem sortR_of_sorted {s : List Rat} (h : Sorted s) : sortR s = s := by
  unfold sortR
  apply List.mergeSort_of_pairwise
  exact h.imp (by intro a b hab; simpa using hab)

theorem getD_of_lt {s : List Rat} {i : Nat} (h : i < s.length) (d : Rat) : s.getD i d = s[i] := by
  simp [List.getD_eq_getElem?_getD, List.getElem?_eq_getElem h]

theorem sorted_getD_le {s : List Rat} (h : Sorted s) {i j : Nat} (hij : i ≤ j) (hj : j < s.length) :
    s.getD i 0 ≤ s.getD j 0 := by
  have hi : i < s.length := lt_of_le_of_lt hij hj
  rw [getD_of_lt hi, getD_of_lt hj]
  rcases Nat.eq_or_lt_of_le hij with rfl | hlt
  · exact le_refl _
  · exact (List.pairwise_iff_getElem.mp h) i j hi hj hlt

theorem floor_eq_of {x : Rat} {z : Int} (h1 : (z : Rat) ≤ x) (h2 : x < (z : Rat) + 1) : x.floor = z := by
  apply le_antisymm
  · have : x.floor < z + 1 := by
      rw [Rat.floor_lt_iff]; push_cast; exact h2
    omega
  · exact Rat.le_floor_iff.mpr h1

theorem ceil_eq_of {x : Rat} {z : Int} (h1 : (z : Rat) - 1 < x) (h2 : x ≤ (z : Rat)) : x.ceil = z := by
  apply le_antisymm
  · exact Rat.ceil_le_iff.mpr h2
  · have : z - 1 < x.ceil := by
      rw [Rat.lt_ceil_iff]; push_cast; exact h1
    omega

/-! ### the interpolation function on a sorted list -/

/-- facts about a rank `0 ≤ r ≤ n-1`: its floor and ceiling are valid indices -/
theorem rank_idx {n : Nat} {r : Rat} (h0 : 0 ≤ r) (h1 : r ≤ (n : Rat) - 1) :
    (r.floor.toNat : Int) = r.floor ∧ (r.ceil.toNat : Int) = r.ceil ∧ r.floor ≤ r.ceil ∧
    r.ceil ≤ r.floor + 1 ∧ r.ceil.toNat < n ∧ r.floor.toNat ≤ r.ceil.toNat := by
  have hf0 : 0 ≤ r.floor := Rat.le_floor_iff.mpr (by simpa using h0)
  have hfc : r.floor ≤ r.ceil := by
    have h1 : (r.floor : Rat) ≤ r := Rat.floor_le r
    have h2 : r ≤ (r.ceil : Rat) := Rat.le_ceil
    exact_mod_cast le_trans h1 h2
  have hc1 : r.ceil ≤ r.floor + 1 := by
    apply Rat.ceil_le_iff.mpr
    have := Rat.lt_floor_add_one r
    push_cast at this ⊢
    exact le_of_lt this
  have hcn : r.ceil ≤ (n : Int) - 1 := by
    apply Rat.ceil_le_iff.mpr
    push_cast; exact h1
  refine ⟨Int.toNat_of_nonneg hf0, Int.toNat_of_nonneg (le_trans hf0 hfc), hfc, hc1, ?_, ?_⟩
  · omega
  · omega

theorem interp_bounds {s : List Rat} (hs : Sorted s) {r : Rat} (h0 : 0 ≤ r) (h1 : r ≤ (s.length : Rat) - 1) :
    s.getD r.floor.toNat 0 ≤ interp s r ∧ interp s r ≤ s.getD r.ceil.toNat 0 := by
  obtain ⟨_, _, _, _, hcn, hfc⟩ := rank_idx h0 h1
  have hlh := sorted_getD_le hs hfc hcn
  have hf0 : 0 ≤ r - (r.floor : Rat) := sub_nonneg.mpr (Rat.floor_le r)
  have hf1 : r - (r.floor : Rat) < 1 := by
    have := Rat.lt_floor_add_one r
    push_cast at this
    linarith
  unfold interp
  simp only
  constructor
  · nlinarith
  · nlinarith

theorem interp_mono {s : List Rat} (hs : Sorted s) {r r' : Rat} (h0 : 0 ≤ r) (hrr : r ≤ r')
    (h1 : r' ≤ (s.length : Rat) - 1) : interp s r ≤ interp s r' := by
  have h0' : 0 ≤ r' := le_trans h0 hrr
  have h1' : r ≤ (s.length : Rat) - 1 := le_trans hrr h1
  obtain ⟨ef, ec, hfc, hc1, hcn, _⟩ := rank_idx h0 h1'
  obtain ⟨ef', ec', hfc', hc1', hcn', hfc2'⟩ := rank_idx h0' h1
  have hff : r.floor ≤ r'.floor := Rat.floor_monotone hrr
  by_cases hcase : r.ceil ≤ r'.floor
  · -- a grid point lies between the two ranks
    have b1 := (interp_bounds hs h0 h1').2
    have b2 := (interp_bounds hs h0' h1).1
    have hmid : s.getD r.ceil.toNat 0 ≤ s.getD r'.floor.toNat 0 := by
      apply sorted_getD_le hs
      · omega
      · omega
    linarith
  · -- same segment
    have e1 : r'.floor = r.floor := by omega
    have e2 : r.ceil = r.floor + 1 := by omega
    have hcc : r.ceil ≤ r'.ceil := by
      apply Rat.ceil_le_iff.mpr
      exact le_trans hrr Rat.le_ceil
    have e3 : r'.ceil = r.ceil := by omega
    have hlh : s.getD r.floor.toNat 0 ≤ s.getD r.ceil.toNat 0 := by
      apply sorted_getD_le hs
      · omega
      · exact hcn
    unfold interp
    simp only [e1, e3]
    nlinarith

/-! ### ideal percentiles -/

theorem rankI_range {n : Nat} (hn : 0 < n) {p : Rat} (h0 : 0 ≤ p) (h1 : p ≤ 100) :
    0 ≤ rankI n p ∧ rankI n p ≤ (n : Rat) - 1 := by
  have hn' : (0 : Rat) ≤ (n : Rat) - 1 := by
    have : (1 : Rat) ≤ (n : Rat) := by exact_mod_cast hn
    linarith
  unfold rankI
  constructor
  · positivity
  · have : p / 100 ≤ 1 := by linarith
    nlinarith

theorem rankI_mono {n : Nat} (hn : 0 < n) {p q : Rat} (h : p ≤ q) : rankI n p ≤ rankI n q := by
  have hn' : (0 : Rat) ≤ (n : Rat) - 1 := by
    have : (1 : Rat) ≤ (n : Rat) := by exact_mod_cast hn
    linarith
  unfold rankI
  have : p / 100 ≤ q / 100 := by linarith
  nlinarith

theorem percentileI_mono {s : List Rat} (hs : Sorted s) (hne : s ≠ []) {p q : Rat}
    (h0 : 0 ≤ p) (hpq : p ≤ q) (h1 : q ≤ 100) : percentileI s p ≤ percentileI s q := by
  have hn : 0 < s.length := List.length_pos_iff.mpr hne
  unfold percentileI
  exact interp_mono hs (rankI_range hn h0 (le_trans hpq h1)).1 (rankI_mono hn hpq) (rankI_range hn (le_trans h0 hpq) h1).2

theorem percentileI_bounds {s : List Rat} (hs : Sorted s) (hne : s ≠ []) {p : Rat} (h0 : 0 ≤ p) (h1 : p ≤ 100) :
    s.getD 0 0 ≤ percentileI s p ∧ percentileI s p ≤ s.getD (s.length - 1) 0 := by
  have hn : 0 < s.length := List.length_pos_iff.mpr hne
  obtain ⟨r0, r1⟩ := rankI_range hn h0 h1
  obtain ⟨b1, b2⟩ := interp_bounds hs r0 r1
  obtain ⟨_, _, _, _, hcn, hfc⟩ := rank_idx r0 r1
  unfold percentileI
  constructor
  · exact le_trans (sorted_getD_le hs (Nat.zero_le _) (by omega)) b1
  · exact le_trans b2 (sorted_getD_le hs (by omega) (by omega))

theorem interp_int {s : List Rat} (k : Nat) : interp s (k : Rat) = s.getD k 0 := by
  unfold interp
  have h1 : ((k : Rat)).floor = (k : Int) := by
    have : ((k : Int) : Rat) = (k : Rat) := by push_cast; rfl
    rw [← this, Rat.floor_intCast]
  have h2 : ((k : Rat)).ceil = (k : Int) := by
    have : ((k : Int) : Rat) = (k : Rat) := by push_cast; rfl
    rw [← this, Rat.ceil_intCast]
  simp only [h1, h2, Int.toNat_natCast]
  push_cast
  ring

theorem percentileI_100 {s : List Rat} (hne : s ≠ []) : percentileI s 100 = s.getLast hne := by
  have hn : 0 < s.length := List.length_pos_iff.mpr hne
  unfold percentileI
  have : rankI s.length 100 = ((s.length - 1 : Nat) : Rat) := by
    unfold rankI
    rw [Nat.cast_sub hn]
    norm_num
  rw [this, interp_int, getD_of_lt (by omega), List.getLast_eq_getElem]

theorem percentileI_0 {s : List Rat} (hne : s ≠ []) : percentileI s 0 = s.head hne := by
  have hn : 0 < s.length := List.length_pos_iff.mpr hne
  unfold percentileI
  have : rankI s.length 0 = ((0 : Nat) : Rat) := by unfold rankI; norm_num
  rw [this, interp_int, getD_of_lt hn]
  cases s with
  | nil => exact absurd rfl hne
  | cons a t => rfl

theorem percentileI_50 {s : List Rat} (hne : s ≠ []) : percentileI s 50 = medianS s := by
  have hn : 0 < s.length := List.length_pos_iff.mpr hne
  unfold percentileI medianS
  by_cases hodd : s.length % 2 = 1
  · rw [if_pos hodd]
    have : rankI s.length 50 = ((s.length / 2 : Nat) : Rat) := by
      unfold rankI
      have h2 : s.length = 2 * (s.length / 2) + 1 := by omega
      have : (s.length : Rat) = 2 * ((s.length / 2 : Nat) : Rat) + 1 := by exact_mod_cast h2
      rw [this]; ring
    rw [this, interp_int]
  · rw [if_neg hodd]
    have h2 : s.length = 2 * (s.length / 2) := by omega
    have hm : 1 ≤ s.length / 2 := by omega
    generalize s.length / 2 = m at h2 hm ⊢
    obtain ⟨k, rfl⟩ : ∃ k, m = k + 1 := ⟨m - 1, by omega⟩
    have hr : rankI s.length 50 = (k : Rat) + 1 / 2 := by
      unfold rankI
      have : (s.length : Rat) = 2 * ((k : Rat) + 1) := by exact_mod_cast h2
      rw [this]; ring
    have hfl : (rankI s.length 50).floor = (k : Int) := by
      apply floor_eq_of
      · rw [hr]; push_cast; linarith
      · rw [hr]; push_cast; linarith
    have hce : (rankI s.length 50).ceil = ((k + 1 : Nat) : Int) := by
      apply ceil_eq_of
      · rw [hr]; push_cast; linarith
      · rw [hr]; push_cast; linarith
    unfold interp
    simp only [hfl, hce, Int.toNat_natCast, Nat.add_sub_cancel]
    rw [hr]
    push_cast
    ring

end Stats

/-! ## part 2 — the float (`Dbl`) percentile -/
namespace Stats
open Dbl StatsDbl

theorem pow2_zero : pow2 0 = 1 := by rw [pow2_eq_zpow]; norm_num

theorem fl_int (z : Int) (h : |z| < 2 ^ 53) : fl (z : Rat) = z := by
  have := fl_exact z 0 h
  rwa [pow2_zero, mul_one] at this

theorem fl_half_int (z : Int) (h : |z| < 2 ^ 53) : fl ((z : Rat) / 2) = (z : Rat) / 2 := by
  have := fl_exact z (-1) h
  rwa [pow2_neg_one, ← div_eq_mul_one_div] at this

theorem fl_one : fl 1 = 1 := by
  have := fl_int 1 (by norm_num)
  simpa using this

theorem fl_half : fl (1 / 2) = 1 / 2 := by
  have := fl_half_int 1 (by norm_num)
  simpa using this

/-- the sample size fits a double exactly -/
def SizeOk (n : Nat) : Prop := n ≤ 2 ^ 53

theorem ofInt_pred {n : Nat} (hn : 0 < n) (hs : SizeOk n) : ofInt ((n : Int) - 1) = (n : Rat) - 1 := by
  unfold ofInt
  rw [fl_int]
  · push_cast; ring
  · unfold SizeOk at hs
    rw [abs_of_nonneg (by omega)]
    have : (n : Int) ≤ 2 ^ 53 := by exact_mod_cast hs
    omega

theorem rankD_eq {n : Nat} (hn : 0 < n) (hs : SizeOk n) (p : Rat) :
    rankD n p = fl (fl (p / 100) * ((n : Rat) - 1)) := by
  unfold rankD fmul fdiv
  rw [ofInt_pred hn hs]

theorem rankD_range {n : Nat} (hn : 0 < n) (hs : SizeOk n) {p : Rat} (h0 : 0 ≤ p) (h1 : p ≤ 100) :
    0 ≤ rankD n p ∧ rankD n p ≤ (n : Rat) - 1 := by
  rw [rankD_eq hn hs]
  have hn' : (0 : Rat) ≤ (n : Rat) - 1 := by
    have : (1 : Rat) ≤ (n : Rat) := by exact_mod_cast hn
    linarith
  have x0 : 0 ≤ fl (p / 100) := fl_nonneg (by positivity)
  have x1 : fl (p / 100) ≤ 1 := by
    have := fl_mono (show p / 100 ≤ 1 by linarith)
    rwa [fl_one] at this
  constructor
  · exact fl_nonneg (mul_nonneg x0 hn')
  · have hy : fl ((n : Rat) - 1) = (n : Rat) - 1 := by
      have := ofInt_pred hn hs
      unfold ofInt at this
      rw [← this]
      congr 1
      rw [this]; push_cast; ring
    have := fl_mono (show fl (p / 100) * ((n : Rat) - 1) ≤ (n : Rat) - 1 by nlinarith)
    rwa [hy] at this

theorem rankD_100 {n : Nat} (hn : 0 < n) (hs : SizeOk n) : rankD n 100 = (n : Rat) - 1 := by
  have hy : fl ((n : Rat) - 1) = (n : Rat) - 1 := by
    have := ofInt_pred hn hs
    unfold ofInt at this
    rw [← this]; congr 1; rw [this]; push_cast; ring
  rw [rankD_eq hn hs, show (100 : Rat) / 100 = 1 by norm_num, fl_one, one_mul, hy]

theorem rankD_0 {n : Nat} (hn : 0 < n) (hs : SizeOk n) : rankD n 0 = 0 := by
  rw [rankD_eq hn hs]; simp [fl_zero]

theorem rankD_50 {n : Nat} (hn : 0 < n) (hs : SizeOk n) : rankD n 50 = ((n : Rat) - 1) / 2 := by
  rw [rankD_eq hn hs, show (50 : Rat) / 100 = 1 / 2 by norm_num, fl_half]
  have : (1 : Rat) / 2 * ((n : Rat) - 1) = (((n : Int) - 1 : Int) : Rat) / 2 := by push_cast; ring
  rw [this, fl_half_int]
  · push_cast; ring
  · unfold SizeOk at hs
    rw [abs_of_nonneg (by omega)]
    have : (n : Int) ≤ 2 ^ 53 := by exact_mod_cast hs
    omega

/-! ### `percentileD` in closed form -/

theorem pyIndex_ok {s : List Rat} {i : Int} (h0 : 0 ≤ i) (h1 : i < s.length) :
    pyIndex s i = .ok (s.getD i.toNat 0) := by
  unfold pyIndex
  have hlt : i.toNat < s.length := by omega
  simp only [show ¬ i < 0 by omega, if_false, List.getElem?_eq_getElem hlt, getD_of_lt hlt]

/-- what `percentile_value` returns for a rank inside the list (`valueD` is total) -/
def valueD (s : List Rat) (p : Rat) : Rat :=
  let r := rankD s.length p
  if r = (r.floor : Rat) then s.getD r.floor.toNat 0
  else fadd (s.getD r.floor.toNat 0)
    (fmul (fsub (s.getD r.ceil.toNat 0) (s.getD r.floor.toNat 0)) (fsub r (r.floor : Rat)))

/-- **no IndexError inside [0,100]** and the closed form of the result (Dbl) -/
theorem percentileD_ok {s : List Rat} (hne : s ≠ []) (hs : SizeOk s.length) {p : Rat} (h0 : 0 ≤ p) (h1 : p ≤ 100) :
    percentileD s p = .ok (valueD s p) := by
  have hn : 0 < s.length := List.length_pos_iff.mpr hne
  obtain ⟨r0, r1⟩ := rankD_range hn hs h0 h1
  obtain ⟨ef, ec, hfc, hc1, hcn, hfc2⟩ := rank_idx r0 r1
  have hf0 : 0 ≤ (rankD s.length p).floor := by omega
  have htr : ftrunc (rankD s.length p) = (rankD s.length p).floor := by
    unfold ftrunc; rw [if_neg (not_lt.mpr r0)]
  unfold percentileD valueD
  simp only [htr, ffloor, fceil]
  split_ifs with hint
  · exact pyIndex_ok hf0 (by omega)
  · rw [pyIndex_ok hf0 (by omega), pyIndex_ok (by omega) (by omega)]

theorem valueD_100 {s : List Rat} (hne : s ≠ []) (hs : SizeOk s.length) : valueD s 100 = s.getLast hne := by
  have hn : 0 < s.length := List.length_pos_iff.mpr hne
  unfold valueD
  simp only [rankD_100 hn hs]
  have e : (s.length : Rat) - 1 = (((s.length - 1 : Nat) : Int) : Rat) := by
    push_cast [Nat.cast_sub hn]; ring
  rw [e, Rat.floor_intCast, if_pos rfl, Int.toNat_natCast, getD_of_lt (by omega), List.getLast_eq_getElem]

theorem valueD_0 {s : List Rat} (hne : s ≠ []) (hs : SizeOk s.length) : valueD s 0 = s.head hne := by
  have hn : 0 < s.length := List.length_pos_iff.mpr hne
  unfold valueD
  simp only [rankD_0 hn hs]
  rw [show (0 : Rat) = ((0 : Int) : Rat) by norm_num, Rat.floor_intCast, if_pos rfl]
  cases s with
  | nil => exact absurd rfl hne
  | cons a t => rfl

/-- odd sample size: the float p50 is exactly the middle element -/
theorem valueD_50_odd {s : List Rat} (hs : SizeOk s.length) (hodd : s.length % 2 = 1) :
    valueD s 50 = s.getD (s.length / 2) 0 := by
  have hn : 0 < s.length := by omega
  unfold valueD
  simp only [rankD_50 hn hs]
  have h2 : s.length = 2 * (s.length / 2) + 1 := by omega
  generalize s.length / 2 = m at h2 ⊢
  have e : ((s.length : Rat) - 1) / 2 = (((m : Nat) : Int) : Rat) := by
    have : (s.length : Rat) = 2 * (m : Rat) + 1 := by exact_mod_cast h2
    rw [this]; push_cast; ring
  rw [e, Rat.floor_intCast, if_pos rfl, Int.toNat_natCast]

/-- even sample size: the float p50 is the float evaluation of `lo + (hi - lo) * 0.5` on the two middle elements -/
theorem valueD_50_even {s : List Rat} (hne : s ≠ []) (hs : SizeOk s.length) (heven : s.length % 2 = 0) :
    valueD s 50 = fadd (s.getD (s.length / 2 - 1) 0)
      (fmul (fsub (s.getD (s.length / 2) 0) (s.getD (s.length / 2 - 1) 0)) (1 / 2)) := by
  have hn : 0 < s.length := List.length_pos_iff.mpr hne
  unfold valueD
  simp only [rankD_50 hn hs]
  have h2 : s.length = 2 * (s.length / 2) := by omega
  have hm : 1 ≤ s.length / 2 := by omega
  generalize s.length / 2 = m at h2 hm ⊢
  obtain ⟨k, rfl⟩ : ∃ k, m = k + 1 := ⟨m - 1, by omega⟩
  have hr : ((s.length : Rat) - 1) / 2 = (k : Rat) + 1 / 2 := by
    have : (s.length : Rat) = 2 * ((k : Rat) + 1) := by exact_mod_cast h2
    rw [this]; ring
  rw [hr]
  have hfl : ((k : Rat) + 1 / 2).floor = (k : Int) := by
    apply floor_eq_of <;> push_cast <;> linarith
  have hce : ((k : Rat) + 1 / 2).ceil = ((k + 1 : Nat) : Int) := by
    apply ceil_eq_of <;> push_cast <;> linarith
  have hni : ¬ ((k : Rat) + 1 / 2 = (((k : Int)) : Rat)) := by push_cast; intro h; linarith
  simp only [hfl, hce, Int.toNat_natCast, Nat.add_sub_cancel, if_neg hni]
  have : fsub ((k : Rat) + 1 / 2) ((k : Int) : Rat) = 1 / 2 := by
    unfold fsub; push_cast
    rw [show (k : Rat) + 1 / 2 - (k : Rat) = 1 / 2 by ring, fl_half]
  rw [this]

/-- the float percentile never drops below the minimum (values are doubles, list sorted) -/
theorem valueD_ge_min {s : List Rat} (hsorted : Sorted s) (hne : s ≠ []) (hs : SizeOk s.length)
    (hdbl : ∀ v ∈ s, fl v = v) {p : Rat} (h0 : 0 ≤ p) (h1 : p ≤ 100) : s.head hne ≤ valueD s p := by
  have hn : 0 < s.length := List.length_pos_iff.mpr hne
  obtain ⟨r0, r1⟩ := rankD_range hn hs h0 h1
  obtain ⟨ef, ec, hfc, hc1, hcn, hfc2⟩ := rank_idx r0 r1
  have hhead : s.head hne = s.getD 0 0 := by
    cases s with
    | nil => exact absurd rfl hne
    | cons a t => rfl
  have hlo : s.getD 0 0 ≤ s.getD (rankD s.length p).floor.toNat 0 := sorted_getD_le hsorted (Nat.zero_le _) (by omega)
  rw [hhead]
  unfold valueD
  simp only
  split_ifs with hint
  · exact hlo
  · set lo := s.getD (rankD s.length p).floor.toNat 0 with hlo_def
    set hi := s.getD (rankD s.length p).ceil.toNat 0 with hhi_def
    have hlh : lo ≤ hi := sorted_getD_le hsorted hfc2 hcn
    have hlod : fl lo = lo := by
      apply hdbl
      rw [hlo_def, getD_of_lt (by omega)]
      exact List.getElem_mem _
    have d0 : 0 ≤ fsub hi lo := fl_nonneg (by linarith)
    have f0 : 0 ≤ fsub (rankD s.length p) ((rankD s.length p).floor : Rat) :=
      fl_nonneg (sub_nonneg.mpr (Rat.floor_le _))
    have t0 : 0 ≤ fmul (fsub hi lo) (fsub (rankD s.length p) ((rankD s.length p).floor : Rat)) :=
      fl_nonneg (mul_nonneg d0 f0)
    have : fl lo ≤ fadd lo (fmul (fsub hi lo) (fsub (rankD s.length p) ((rankD s.length p).floor : Rat))) := by
      unfold fadd
      exact fl_mono (by linarith)
    rw [hlod] at this
    exact le_trans hlo this

end Stats

namespace Stats
open Dbl StatsDbl

/-! ## part 3 — record filtering, statistics, calculator structure -/

theorem keyEq_ok {q d : Option Str} {b : Bool} (h : keyEq q d = .ok b) : b = optEq q d := by
  unfold keyEq at h
  unfold optEq
  split at h
  · cases h; rfl
  · cases h
  · next t x => cases h; simp

theorem matchE_ok {q : Query} {d : Rec} {b : Bool} (h : matchE q d = .ok b) : b = matchP q d := by
  unfold matchE at h
  unfold matchP
  split at h
  · next hn =>
    cases h
    have : (d.name == q.name) = false := by simpa using hn
    simp [this]
  · next hn =>
    have hname : (d.name == q.name) = true := by simpa using hn
    split at h
    · cases h
    · next h1 => cases h; simp [← keyEq_ok h1]
    · next h1 =>
      split at h
      · cases h
      · next h2 => cases h; simp [← keyEq_ok h2]
      · next h2 => cases h; simp [hname, ← keyEq_ok h1, ← keyEq_ok h2]

/-- when no key is missing, `_get` is the declarative filter -/
theorem getE_ok {recs : List Rec} {q : Query} {r : List Rec} (h : getE recs q = .ok r) :
    r = recs.filter (matchP q) := by
  induction recs generalizing r with
  | nil => unfold getE at h; cases h; rfl
  | cons d ds ih =>
    unfold getE at h
    split at h
    · cases h
    · next b hb =>
      split at h
      · cases h
      · next r' hr' =>
        cases h
        rw [List.filter_cons, ← matchE_ok hb, ← ih hr']

theorem valuesE_ok {recs : List Rec} {q : Query} {vs : List Rat} (h : valuesE recs q = .ok vs) :
    vs = (recs.filter (matchP q)).map Rec.value := by
  unfold valuesE at h
  cases hg : getE recs q with
  | error e => rw [hg] at h; cases h
  | ok r => rw [hg] at h; cases h; rw [getE_ok hg]

def isNormal (d : Rec) : Bool := d.stype == .normal

theorem matchP_normal {q : Query} (hq : q.stype = some .normal) (d : Rec) : matchP q d = (isNormal d && matchP q d) := by
  unfold matchP isNormal stypeOk
  rw [hq]
  cases h : (d.stype == SType.normal) <;> simp [h]

/-- a sample-type-normal query only sees the normal records -/
theorem filter_normal {q : Query} (hq : q.stype = some .normal) (recs : List Rec) :
    recs.filter (matchP q) = (recs.filter isNormal).filter (matchP q) := by
  rw [List.filter_filter]
  congr 1
  funext d
  rw [Bool.and_comm]
  exact matchP_normal hq d

theorem values_normal_perm {q : Query} (hq : q.stype = some .normal) {recs recs' : List Rec} {vs vs' : List Rat}
    (h : valuesE recs q = .ok vs) (h' : valuesE recs' q = .ok vs')
    (hp : (recs.filter isNormal).Perm (recs'.filter isNormal)) : vs.Perm vs' := by
  rw [valuesE_ok h, valuesE_ok h', filter_normal hq recs, filter_normal hq recs']
  exact (hp.filter _).map _

/-! ### statistics of a value list -/

theorem sortR_ne_nil {vs : List Rat} (h : vs ≠ []) : sortR vs ≠ [] := by
  intro hs
  have := sortR_length vs
  rw [hs] at this
  exact h (List.length_eq_zero_iff.mp this.symm)

theorem statsOf_nil : statsOf [] = none := by
  unfold statsOf sortR; simp

theorem statsOf_eq_none_iff {vs : List Rat} : statsOf vs = none ↔ vs = [] := by
  constructor
  · intro h
    by_contra hne
    have := sortR_ne_nil hne
    unfold statsOf at h
    cases hs : sortR vs with
    | nil => exact this hs
    | cons x t => simp [hs] at h
  · rintro rfl; exact statsOf_nil

theorem sum_sortR (vs : List Rat) : (sortR vs).sum = vs.sum := (sortR_perm vs).sum_eq

theorem meanD_sortR (vs : List Rat) : meanD (sortR vs) = fl (vs.sum / (vs.length : Rat)) := by
  unfold meanD; rw [sum_sortR, sortR_length]

theorem statsOf_of_sort {vs : List Rat} {x : Rat} {t : List Rat} (hs : sortR vs = x :: t) :
    statsOf vs = some ⟨(x :: t).length, x, (x :: t).getLastD x, meanD (x :: t)⟩ := by
  unfold statsOf
  rw [hs]

theorem getLastD_mem (x : Rat) (t : List Rat) : (x :: t).getLastD x ∈ x :: t := by
  cases t with
  | nil => simp
  | cons y u =>
    have : (x :: y :: u).getLastD x = (x :: y :: u).getLast (by simp) := by
      simp [List.getLastD_eq_getLast?, List.getLast?_eq_some_getLast]
    rw [this]
    exact List.getLast_mem _

theorem sorted_le_getLastD {x : Rat} {t : List Rat} (h : Sorted (x :: t)) : ∀ v ∈ x :: t, v ≤ (x :: t).getLastD x := by
  intro v hv
  have hne : x :: t ≠ [] := by simp
  have e : (x :: t).getLastD x = (x :: t).getLast hne := by
    simp [List.getLastD_eq_getLast?, List.getLast?_eq_some_getLast]
  rw [e, List.getLast_eq_getElem]
  obtain ⟨i, hi, rfl⟩ := List.getElem_of_mem hv
  have := sorted_getD_le h (show i ≤ (x :: t).length - 1 by omega) (by simp)
  rwa [getD_of_lt hi, getD_of_lt (by simp)] at this

/-- `get_stats` on a non-empty value list: count, min, max, mean all agree with the raw values -/
theorem statsOf_spec {vs : List Rat} (hne : vs ≠ []) :
    ∃ st, statsOf vs = some st ∧ st.count = vs.length ∧
      (st.min ∈ vs ∧ ∀ v ∈ vs, st.min ≤ v) ∧ (st.max ∈ vs ∧ ∀ v ∈ vs, v ≤ st.max) ∧
      st.avg = fl (vs.sum / (vs.length : Rat)) ∧
      (sortR vs).head? = some st.min ∧ (sortR vs).getLast? = some st.max := by
  have hsne := sortR_ne_nil hne
  have hsorted := sortR_sorted vs
  have hperm := sortR_perm vs
  cases hs : sortR vs with
  | nil => exact absurd hs hsne
  | cons x t =>
    rw [hs] at hsorted hperm
    refine ⟨_, statsOf_of_sort hs, ?_, ⟨?_, ?_⟩, ⟨?_, ?_⟩, ?_, ?_, ?_⟩
    · simp only; rw [← hs, sortR_length]
    · exact hperm.mem_iff.mp List.mem_cons_self
    · intro v hv
      have hv' : v ∈ x :: t := hperm.mem_iff.mpr hv
      rcases List.mem_cons.mp hv' with rfl | hvt
      · exact le_refl _
      · exact (List.pairwise_cons.mp hsorted).1 v hvt
    · exact hperm.mem_iff.mp (getLastD_mem x t)
    · intro v hv
      exact sorted_le_getLastD hsorted v (hperm.mem_iff.mpr hv)
    · simp only; rw [← hs, meanD_sortR]
    · simp
    · simp [List.getLastD_eq_getLast?, List.getLast?_eq_some_getLast (l := x :: t) (by simp)]

/-! ### order of the values is irrelevant (multiset semantics), units do not influence the numbers -/

theorem statsOf_perm {vs vs' : List Rat} (h : vs.Perm vs') : statsOf vs = statsOf vs' := by
  unfold statsOf; rw [sortR_eq_of_perm h]

theorem meanOf_perm {vs vs' : List Rat} (h : vs.Perm vs') : meanOf vs = meanOf vs' := by
  unfold meanOf; rw [statsOf_perm h]

theorem percentilesOf_perm {vs vs' : List Rat} (h : vs.Perm vs') (ps : List Rat) :
    percentilesOf vs ps = percentilesOf vs' ps := by
  unfold percentilesOf; rw [h.length_eq, sortR_eq_of_perm h]

theorem medianOf_perm {vs vs' : List Rat} (h : vs.Perm vs') : medianOf vs = medianOf vs' := by
  unfold medianOf; rw [percentilesOf_perm h]

theorem summaryOf_perm {vs vs' : List Rat} (h : vs.Perm vs') (u : Option Str) : summaryOf vs u = summaryOf vs' u := by
  unfold summaryOf; rw [medianOf_perm h, meanOf_perm h, statsOf_perm h]

theorem latencyOf_perm (tbl : PTable) {vs vs' : List Rat} (h : vs.Perm vs') (u : Option Str) :
    latencyOf tbl vs u = latencyOf tbl vs' u := by
  unfold latencyOf countOf
  rw [statsOf_perm h, meanOf_perm h]
  simp only [percentilesOf_perm h]

/-- the numbers of a throughput summary (everything but the unit) -/
def Summary.core (s : Summary) : Option Rat × Option Rat × Option Rat × Option Rat := (s.min, s.mean, s.median, s.max)
/-- the numbers of a latency block (everything but the unit) -/
def Latency.core (l : Latency) : List (Str × Rat) × Option Rat := (l.pcts, l.mean)

theorem summaryOf_core {vs : List Rat} {u u' : Option Str} {sm sm' : Summary}
    (h : summaryOf vs u = .ok sm) (h' : summaryOf vs u' = .ok sm') : sm.core = sm'.core := by
  unfold summaryOf at h h'
  cases hm : medianOf vs with
  | error e => rw [hm] at h; cases h
  | ok md =>
    rw [hm] at h h'
    simp only at h h'
    cases hst : statsOf vs with
    | none => rw [hst] at h h'; cases h; cases h'; rfl
    | some st =>
      rw [hst] at h h'
      simp only at h h'
      split at h <;> split at h' <;> cases h <;> cases h' <;> first | rfl | simp_all

theorem latencyOf_core {tbl : PTable} {vs : List Rat} {u u' : Option Str} {l l' : Option Latency}
    (h : latencyOf tbl vs u = .ok l) (h' : latencyOf tbl vs u' = .ok l') : l.map Latency.core = l'.map Latency.core := by
  unfold latencyOf at h h'
  generalize countOf vs = n at h h'
  by_cases hn : n > 0
  · rw [if_pos hn] at h h'
    cases hpk : pctsFor tbl n with
    | error e => rw [hpk] at h; cases h
    | ok pk =>
      rw [hpk] at h h'
      simp only at h h'
      cases hpv : percentilesOf vs (pk.map Prod.fst) with
      | error e => rw [hpv] at h; cases h
      | ok pv =>
        rw [hpv] at h h'
        cases h; cases h'; rfl
  · rw [if_neg hn] at h h'
    cases h; cases h'; rfl

/-! ### error rate -/

/-- the records `get_error_rate` counts: service_time records of the task (and operation type / sample type) -/
def errSel (task : Str) (opType : Option Str) (st : Option SType) (d : Rec) : Bool :=
  d.name == nServiceTime && optEq (some task) d.task && optEq opType d.opType && stypeOk st d.stype

/-- … and among them the failed ones (`meta.success is False`) -/
def errFail (task : Str) (opType : Option Str) (st : Option SType) (d : Rec) : Bool :=
  errSel task opType st d && d.success == some false

theorem errStepE_ok {task : Str} {op : Option Str} {st : Option SType} {d : Rec} {c : Option Bool}
    (h : errStepE task op st d = .ok c) :
    c = if errSel task op st d then some (d.success == some false) else none := by
  unfold errStepE at h
  unfold errSel
  split at h
  · next hn =>
    cases h
    have : (d.name == nServiceTime) = false := by simpa using hn
    simp [this]
  · next hn =>
    have hname : (d.name == nServiceTime) = true := by simpa using hn
    split at h
    · cases h
    · next h1 => cases h; simp [← keyEq_ok h1]
    · next h1 =>
      split at h
      · cases h
      · next h2 => cases h; simp [← keyEq_ok h2]
      · next h2 =>
        split at h
        · next hst =>
          split at h
          · cases h
          · next b hb => cases h; simp [hname, ← keyEq_ok h1, ← keyEq_ok h2, hst, hb]
        · next hst => cases h; simp [hst]

theorem errCountE_ok {task : Str} {op : Option Str} {st : Option SType} {recs : List Rec} {c : Nat × Nat}
    (h : errCountE task op st recs = .ok c) :
    c = ((recs.filter (errFail task op st)).length, (recs.filter (errSel task op st)).length) := by
  induction recs generalizing c with
  | nil => unfold errCountE at h; cases h; rfl
  | cons d ds ih =>
    unfold errCountE at h
    split at h
    · cases h
    · next o ho =>
      split at h
      · cases h
      · next e t hr =>
        have := ih hr
        simp only [Prod.mk.injEq] at this
        obtain ⟨rfl, rfl⟩ := this
        have hc := errStepE_ok ho
        simp only [List.filter_cons, errFail]
        by_cases hsel : errSel task op st d = true
        · rw [if_pos hsel] at hc
          subst hc
          by_cases hf : (d.success == some false) = true
          · simp only [hf] at h; cases h; simp [hsel, hf]
          · have hf' : (d.success == some false) = false := by simpa using hf
            simp only [hf'] at h; cases h; simp [hsel, hf']
        · have hsel' : errSel task op st d = false := by simpa using hsel
          rw [if_neg hsel] at hc
          subst hc
          simp only at h; cases h; simp [hsel']

theorem errFail_le {task : Str} {op : Option Str} {st : Option SType} (recs : List Rec) :
    (recs.filter (errFail task op st)).length ≤ (recs.filter (errSel task op st)).length := by
  have : recs.filter (errFail task op st) = (recs.filter (errSel task op st)).filter (fun d => d.success == some false) := by
    rw [List.filter_filter]; congr 1; funext d; unfold errFail; rw [Bool.and_comm]
  rw [this]; exact List.length_filter_le _ _

theorem errSel_normal {task : Str} {op : Option Str} (d : Rec) :
    errSel task op (some .normal) d = (isNormal d && errSel task op (some .normal) d) := by
  unfold errSel isNormal stypeOk
  cases h : (d.stype == SType.normal) <;> simp [h]

theorem errCount_normal_perm {task : Str} {op : Option Str} {recs recs' : List Rec} {c c' : Nat × Nat}
    (h : errCountE task op (some .normal) recs = .ok c) (h' : errCountE task op (some .normal) recs' = .ok c')
    (hp : (recs.filter isNormal).Perm (recs'.filter isNormal)) : c = c' := by
  rw [errCountE_ok h, errCountE_ok h']
  have e1 : ∀ l : List Rec, l.filter (errSel task op (some .normal)) = (l.filter isNormal).filter (errSel task op (some .normal)) := by
    intro l; rw [List.filter_filter]; congr 1; funext d; rw [Bool.and_comm]; exact errSel_normal d
  have e2 : ∀ l : List Rec, l.filter (errFail task op (some .normal)) = (l.filter isNormal).filter (errFail task op (some .normal)) := by
    intro l; rw [List.filter_filter]; congr 1; funext d; unfold errFail
    have := errSel_normal (task := task) (op := op) d
    cases hn : isNormal d <;> cases hs : errSel task op (some .normal) d <;> simp_all
  rw [e1 recs, e1 recs', e2 recs, e2 recs']
  rw [(hp.filter _).length_eq, (hp.filter _).length_eq]

/-! ### the reported percentile set -/

theorem countOf_eq (vs : List Rat) : countOf vs = vs.length := by
  unfold countOf
  by_cases h : vs = []
  · subst h; rw [statsOf_nil]; rfl
  · obtain ⟨st, hst, hc, _⟩ := statsOf_spec h
    rw [hst]; exact hc

theorem pctList_fst {s : List Rat} {ps : List Rat} {pv : List (Rat × Rat)} (h : pctList s ps = .ok pv) :
    pv.map Prod.fst = ps := by
  induction ps generalizing pv with
  | nil => unfold pctList at h; cases h; rfl
  | cons p ps ih =>
    unfold pctList at h
    split at h
    · cases h
    · next v hv =>
      split at h
      · cases h
      · next r hr => cases h; simp [ih hr]

theorem pctList_ok {s : List Rat} (hne : s ≠ []) (hs : SizeOk s.length) {ps : List Rat}
    (hr : ∀ p ∈ ps, 0 ≤ p ∧ p ≤ 100) : pctList s ps = .ok (ps.map (fun p => (p, valueD s p))) := by
  induction ps with
  | nil => rfl
  | cons p ps ih =>
    unfold pctList
    rw [percentileD_ok hne hs (hr p List.mem_cons_self).1 (hr p List.mem_cons_self).2]
    simp only
    rw [ih (fun q hq => hr q (List.mem_cons_of_mem _ hq))]
    rfl

theorem zip_map_snd {α β γ : Type} (l : List (α × β)) (f : α → γ) :
    (l.zip (l.map (fun x => (x.1, f x.1)))).map (fun x => (x.1.2, x.2.2)) = l.map (fun x => (x.2, f x.1)) := by
  induction l with
  | nil => rfl
  | cons a t ih => simp [ih]

/-- `single_latency` in closed form: one `valueD` per table percentile, in table order, under the table's keys -/
theorem latencyOf_closed {tbl : PTable} {vs : List Rat} (hne : vs ≠ []) (hs : SizeOk vs.length) (u : Option Str)
    {pk : List (Rat × Str)} (hpk : pctsFor tbl vs.length = .ok pk) (hr : ∀ x ∈ pk, 0 ≤ x.1 ∧ x.1 ≤ 100) :
    latencyOf tbl vs u = .ok (some ⟨pk.map (fun x => (x.2, valueD (sortR vs) x.1)), meanOf vs, u⟩) := by
  have hlen : 0 < vs.length := List.length_pos_iff.mpr hne
  unfold latencyOf
  rw [countOf_eq, if_pos hlen, hpk]
  simp only
  unfold percentilesOf
  rw [if_pos hlen, pctList_ok (sortR_ne_nil hne) (by rw [sortR_length]; exact hs)]
  · simp only
    have := zip_map_snd pk (fun p => valueD (sortR vs) p)
    simp only [List.map_map] at this ⊢
    congr 3
  · intro p hp
    obtain ⟨x, hx, rfl⟩ := List.mem_map.mp hp
    exact hr x hx

/-- the keys reported by `single_latency` are the table row of the sample count — nothing else enters -/
theorem latencyOf_keys {tbl : PTable} {vs : List Rat} {u : Option Str} {l : Latency}
    (h : latencyOf tbl vs u = .ok (some l)) :
    ∃ pk, pctsFor tbl vs.length = .ok pk ∧ l.pcts.map Prod.fst = pk.map Prod.snd := by
  unfold latencyOf at h
  rw [countOf_eq] at h
  split at h
  · split at h
    · cases h
    · next pk hpk =>
      split at h
      · cases h
      · next pv hpv =>
        cases h
        refine ⟨pk, hpk, ?_⟩
        simp only
        have hfst : pv.map Prod.fst = pk.map Prod.fst := by
          unfold percentilesOf at hpv
          split at hpv
          · exact pctList_fst hpv
          · next hn => omega
        have hlen : pv.length = pk.length := by
          have := congrArg List.length hfst
          simpa using this
        rw [List.map_map]
        apply List.ext_getElem
        · simp [hlen]
        · intro i h1 h2
          simp
  · cases h

/-! ### calculator: what depends on the normal samples only -/

/-- everything in a task's result except `duration` and the units -/
def OpMetrics.core (m : OpMetrics) :=
  (m.task, m.operation, m.throughput.core, m.latency.map Latency.core, m.serviceTime.map Latency.core,
    m.processingTime.map Latency.core, m.errorRate)

/-- two record lists with the same multiset of normal-type records -/
def SameNormal (recs recs' : List Rec) : Prop := (recs.filter isNormal).Perm (recs'.filter isNormal)

theorem summaryE_inv {recs : List Rec} {t : Task} {name : Str} {sm : Summary} (h : summaryE recs t name = .ok sm) :
    ∃ vs u, valuesE recs (taskQ name t (some .normal)) = .ok vs ∧ summaryOf vs u = .ok sm := by
  unfold summaryE at h
  split at h
  · cases h
  · next vs hvs =>
    split at h
    · cases h
    · next u hu => exact ⟨vs, u, hvs, h⟩

theorem latencyE_inv {tbl : PTable} {recs : List Rec} {t : Task} {name : Str} {l : Option Latency}
    (h : latencyE tbl recs t name = .ok l) :
    ∃ vs u, valuesE recs (taskQ name t (some .normal)) = .ok vs ∧ latencyOf tbl vs u = .ok l := by
  unfold latencyE at h
  split at h
  · cases h
  · next vs hvs =>
    split at h
    · split at h
      · cases h
      · next u hu => exact ⟨vs, u, hvs, h⟩
    · next hn =>
      cases h
      refine ⟨vs, none, hvs, ?_⟩
      unfold latencyOf
      rw [countOf_eq, if_neg hn]

theorem summaryE_normal_only {recs recs' : List Rec} {t : Task} {name : Str} {sm sm' : Summary}
    (h : summaryE recs t name = .ok sm) (h' : summaryE recs' t name = .ok sm') (hp : SameNormal recs recs') :
    sm.core = sm'.core := by
  obtain ⟨vs, u, hvs, hsm⟩ := summaryE_inv h
  obtain ⟨vs', u', hvs', hsm'⟩ := summaryE_inv h'
  have hperm := values_normal_perm (q := taskQ name t (some .normal)) rfl hvs hvs' hp
  rw [← summaryOf_perm hperm] at hsm'
  exact summaryOf_core hsm hsm'

theorem latencyE_normal_only {tbl : PTable} {recs recs' : List Rec} {t : Task} {name : Str} {l l' : Option Latency}
    (h : latencyE tbl recs t name = .ok l) (h' : latencyE tbl recs' t name = .ok l') (hp : SameNormal recs recs') :
    l.map Latency.core = l'.map Latency.core := by
  obtain ⟨vs, u, hvs, hl⟩ := latencyE_inv h
  obtain ⟨vs', u', hvs', hl'⟩ := latencyE_inv h'
  have hperm := values_normal_perm (q := taskQ name t (some .normal)) rfl hvs hvs' hp
  rw [← latencyOf_perm tbl hperm] at hl'
  exact latencyOf_core hl hl'

theorem errorRateE_normal_only {recs recs' : List Rec} {task : Str} {op : Option Str} {e e' : Rat}
    (h : errorRateE recs task op (some .normal) = .ok e) (h' : errorRateE recs' task op (some .normal) = .ok e')
    (hp : SameNormal recs recs') : e = e' := by
  unfold errorRateE at h h'
  cases hc : errCountE task op (some .normal) recs with
  | error x => rw [hc] at h; cases h
  | ok c =>
    cases hc' : errCountE task op (some .normal) recs' with
    | error x => rw [hc'] at h'; cases h'
    | ok c' =>
      rw [hc] at h; rw [hc'] at h'
      cases h; cases h'
      rw [errCount_normal_perm hc hc' hp]

/-- inversion of one loop iteration of `GlobalStatsCalculator.__call__` -/
theorem taskE_inv {tbl : PTable} {recs : List Rec} {t : Task} {o : Option OpMetrics} (h : taskE tbl recs t = .ok o) :
    ∃ er du, errorRateE recs t.name (some t.opType) (some .normal) = .ok er ∧ durationE recs t.name = .ok du ∧
      (((t.inReport || decide (er > 0)) = false ∧ o = none) ∨
       ((t.inReport || decide (er > 0)) = true ∧ ∃ th la se pr,
          summaryE recs t nThroughput = .ok th ∧ latencyE tbl recs t nLatency = .ok la ∧
          latencyE tbl recs t nServiceTime = .ok se ∧ latencyE tbl recs t nProcessingTime = .ok pr ∧
          o = some ⟨t.name, t.opName, th, la, se, pr, er, du⟩)) := by
  unfold taskE at h
  split at h
  · cases h
  · next er her =>
    split at h
    · cases h
    · next du hdu =>
      refine ⟨er, du, her, hdu, ?_⟩
      split at h
      · next hc =>
        right
        refine ⟨hc, ?_⟩
        split at h
        · cases h
        · next th hth =>
          split at h
          · cases h
          · next la hla =>
            split at h
            · cases h
            · next se hse =>
              split at h
              · cases h
              · next pr hpr =>
                cases h
                exact ⟨th, la, se, pr, hth, hla, hse, hpr, rfl⟩
      · next hc =>
        left
        cases h
        exact ⟨by simpa using hc, rfl⟩

theorem taskE_normal_only {tbl : PTable} {recs recs' : List Rec} {t : Task} {o o' : Option OpMetrics}
    (h : taskE tbl recs t = .ok o) (h' : taskE tbl recs' t = .ok o') (hp : SameNormal recs recs') :
    o.map OpMetrics.core = o'.map OpMetrics.core := by
  obtain ⟨er, du, her, _, hcase⟩ := taskE_inv h
  obtain ⟨er', du', her', _, hcase'⟩ := taskE_inv h'
  have heq : er = er' := errorRateE_normal_only her her' hp
  subst heq
  rcases hcase with ⟨hc, rfl⟩ | ⟨hc, th, la, se, pr, hth, hla, hse, hpr, rfl⟩
  · rcases hcase' with ⟨_, rfl⟩ | ⟨hc', _⟩
    · rfl
    · rw [hc] at hc'; cases hc'
  · rcases hcase' with ⟨hc', _⟩ | ⟨_, th', la', se', pr', hth', hla', hse', hpr', rfl⟩
    · rw [hc] at hc'; cases hc'
    · simp only [Option.map_some, OpMetrics.core]
      rw [summaryE_normal_only hth hth' hp, latencyE_normal_only hla hla' hp, latencyE_normal_only hse hse' hp,
        latencyE_normal_only hpr hpr' hp]

theorem calcE_normal_only {tbl : PTable} {recs recs' : List Rec} (sched : List Task) {r r' : List OpMetrics}
    (h : calcE tbl recs sched = .ok r) (h' : calcE tbl recs' sched = .ok r') (hp : SameNormal recs recs') :
    r.map OpMetrics.core = r'.map OpMetrics.core := by
  induction sched generalizing r r' with
  | nil => unfold calcE at h h'; cases h; cases h'; rfl
  | cons t ts ih =>
    unfold calcE at h h'
    split at h
    · cases h
    · next o ho =>
      split at h
      · cases h
      · next rr hrr =>
        split at h'
        · cases h'
        · next o' ho' =>
          split at h'
          · cases h'
          · next rr' hrr' =>
            cases h; cases h'
            have h1 := taskE_normal_only ho ho' hp
            have h2 := ih hrr hrr'
            cases o <;> cases o' <;> simp_all

/-! ### well-formed stores: no exception, the calculator is total -/

/-- every record carries the keys the request-metric queries read (what the load driver always writes) -/
def WF (recs : List Rec) : Prop :=
  ∀ d ∈ recs, d.task.isSome ∧ d.opType.isSome ∧ (d.name = nServiceTime → d.success.isSome)

theorem keyEq_some (q : Option Str) (x : Str) : keyEq q (some x) = .ok (optEq q (some x)) := by
  unfold keyEq optEq
  cases q <;> simp

theorem matchE_total {q : Query} {d : Rec} (h1 : d.task.isSome) (h2 : d.opType.isSome) :
    matchE q d = .ok (matchP q d) := by
  obtain ⟨x, hx⟩ := Option.isSome_iff_exists.mp h1
  obtain ⟨y, hy⟩ := Option.isSome_iff_exists.mp h2
  unfold matchE matchP
  rw [hx, hy, keyEq_some, keyEq_some]
  by_cases hn : (d.name == q.name) = true
  · simp only [hn, Bool.true_and]
    have : ¬ ((d.name != q.name) = true) := by simp [bne, hn]
    rw [if_neg this]
    cases optEq q.task (some x) <;> cases optEq q.opType (some y) <;> simp
  · have hn' : (d.name == q.name) = false := by simpa using hn
    have : (d.name != q.name) = true := by simp [bne, hn']
    rw [if_pos this]; simp [hn']

theorem getE_total {recs : List Rec} (h : WF recs) (q : Query) : getE recs q = .ok (recs.filter (matchP q)) := by
  induction recs with
  | nil => rfl
  | cons d ds ih =>
    have hd := h d List.mem_cons_self
    unfold getE
    rw [matchE_total hd.1 hd.2.1, ih (fun x hx => h x (List.mem_cons_of_mem _ hx))]
    simp only [List.filter_cons]

theorem valuesE_total {recs : List Rec} (h : WF recs) (q : Query) :
    valuesE recs q = .ok ((recs.filter (matchP q)).map Rec.value) := by
  unfold valuesE; rw [getE_total h]; rfl

theorem unitE_total {recs : List Rec} (h : WF recs) (name : Str) (t o : Option Str) :
    ∃ u, unitE recs name t o = .ok u := by
  unfold unitE; rw [getE_total h]; exact ⟨_, rfl⟩

theorem errStepE_total {task : Str} {op : Option Str} {st : Option SType} {d : Rec}
    (h1 : d.task.isSome) (h2 : d.opType.isSome) (h3 : d.name = nServiceTime → d.success.isSome) :
    ∃ c, errStepE task op st d = .ok c := by
  obtain ⟨x, hx⟩ := Option.isSome_iff_exists.mp h1
  obtain ⟨y, hy⟩ := Option.isSome_iff_exists.mp h2
  unfold errStepE
  rw [hx, hy, keyEq_some, keyEq_some]
  split
  · exact ⟨_, rfl⟩
  · next hn =>
    have hname : d.name = nServiceTime := by simpa using hn
    obtain ⟨b, hb⟩ := Option.isSome_iff_exists.mp (h3 hname)
    rw [hb]
    cases optEq (some task) (some x) <;> cases optEq op (some y) <;> simp only <;>
      first | exact ⟨_, rfl⟩ | (split <;> exact ⟨_, rfl⟩)

theorem errCountE_total {task : Str} {op : Option Str} {st : Option SType} {recs : List Rec} (h : WF recs) :
    ∃ c, errCountE task op st recs = .ok c := by
  induction recs with
  | nil => exact ⟨_, rfl⟩
  | cons d ds ih =>
    have hd := h d List.mem_cons_self
    obtain ⟨c, hc⟩ := errStepE_total (task := task) (op := op) (st := st) hd.1 hd.2.1 hd.2.2
    obtain ⟨⟨e, t⟩, hr⟩ := ih (fun x hx => h x (List.mem_cons_of_mem _ hx))
    unfold errCountE
    rw [hc, hr]
    simp only
    rcases c with _ | _ | _ <;> exact ⟨_, rfl⟩

theorem firstMatchE_total {task : Str} {l : List Rec} (h : ∀ d ∈ l, d.task.isSome) : ∃ r, firstMatchE task l = .ok r := by
  induction l with
  | nil => exact ⟨_, rfl⟩
  | cons d ds ih =>
    obtain ⟨x, hx⟩ := Option.isSome_iff_exists.mp (h d List.mem_cons_self)
    have ih' := ih (fun y hy => h y (List.mem_cons_of_mem _ hy))
    unfold firstMatchE
    rw [hx]
    split
    · exact ih'
    · simp only
      split
      · exact ⟨_, rfl⟩
      · exact ih'

theorem durationE_total {recs : List Rec} (h : WF recs) (task : Str) : ∃ r, durationE recs task = .ok r := by
  unfold durationE
  apply firstMatchE_total
  intro d hd
  have : d ∈ recs := by
    unfold sortByRelTimeDesc at hd
    exact List.mem_mergeSort.mp hd
  exact (h d this).1

theorem medianOf_total {vs : List Rat} (hs : SizeOk vs.length) : ∃ m, medianOf vs = .ok m := by
  unfold medianOf percentilesOf
  split
  · next hpos =>
    have hne : vs ≠ [] := List.length_pos_iff.mp hpos
    rw [pctList_ok (sortR_ne_nil hne) (by rw [sortR_length]; exact hs)]
    · exact ⟨_, rfl⟩
    · intro p hp
      simp only [List.mem_singleton] at hp
      subst hp; constructor <;> norm_num
  · exact ⟨_, rfl⟩

theorem summaryOf_total {vs : List Rat} (hs : SizeOk vs.length) (u : Option Str) : ∃ sm, summaryOf vs u = .ok sm := by
  obtain ⟨m, hm⟩ := medianOf_total hs
  unfold summaryOf
  rw [hm]
  simp only
  split
  · split <;> exact ⟨_, rfl⟩
  · exact ⟨_, rfl⟩

/-- the generated percentile table answers every sample size ≥ 1 with percentiles inside [0,100] -/
def TableOk (tbl : PTable) : Prop :=
  (∃ r ∈ tbl, r.lo ≤ 1) ∧ ∀ r ∈ tbl, ∀ x ∈ r.pcts, 0 ≤ x.1 ∧ x.1 ≤ 100

theorem pctsFor_total {tbl : PTable} (ht : TableOk tbl) {n : Nat} (hn : 0 < n) :
    ∃ pk, pctsFor tbl n = .ok pk ∧ ∀ x ∈ pk, 0 ≤ x.1 ∧ x.1 ≤ 100 := by
  obtain ⟨⟨r0, hr0, hlo⟩, hall⟩ := ht
  unfold pctsFor
  rw [if_neg (by omega)]
  have hmem : r0 ∈ tbl.filter (fun r => decide (r.lo ≤ n)) := by
    rw [List.mem_filter]; exact ⟨hr0, by simp; omega⟩
  cases hl : (tbl.filter (fun r => decide (r.lo ≤ n))).getLast? with
  | none =>
    rw [List.getLast?_eq_none_iff] at hl
    rw [hl] at hmem; cases hmem
  | some r =>
    have hr : r ∈ tbl.filter (fun r => decide (r.lo ≤ n)) := List.mem_of_getLast? hl
    exact ⟨r.pcts, rfl, hall r (List.mem_filter.mp hr).1⟩

theorem latencyOf_total {tbl : PTable} (ht : TableOk tbl) {vs : List Rat} (hs : SizeOk vs.length) (u : Option Str) :
    ∃ l, latencyOf tbl vs u = .ok l := by
  by_cases hne : vs = []
  · subst hne
    unfold latencyOf
    rw [countOf_eq]; exact ⟨_, rfl⟩
  · obtain ⟨pk, hpk, hr⟩ := pctsFor_total ht (List.length_pos_iff.mpr hne)
    exact ⟨_, latencyOf_closed hne hs u hpk hr⟩

theorem filter_map_length_le (recs : List Rec) (q : Query) : ((recs.filter (matchP q)).map Rec.value).length ≤ recs.length := by
  rw [List.length_map]; exact List.length_filter_le _ _

theorem taskE_total {tbl : PTable} (ht : TableOk tbl) {recs : List Rec} (h : WF recs) (hs : SizeOk recs.length) (t : Task) :
    ∃ o, taskE tbl recs t = .ok o := by
  have hsz : ∀ q, SizeOk ((recs.filter (matchP q)).map Rec.value).length :=
    fun q => le_trans (filter_map_length_le recs q) hs
  obtain ⟨c, hc⟩ := errCountE_total (task := t.name) (op := some t.opType) (st := some .normal) h
  obtain ⟨du, hdu⟩ := durationE_total h t.name
  have hsum : ∀ name, ∃ sm, summaryE recs t name = .ok sm := by
    intro name
    obtain ⟨u, hu⟩ := unitE_total h name (some t.name) (some t.opType)
    obtain ⟨sm, hsm⟩ := summaryOf_total (hsz (taskQ name t (some .normal))) u
    unfold summaryE
    rw [valuesE_total h, hu]
    exact ⟨sm, hsm⟩
  have hlat : ∀ name, ∃ l, latencyE tbl recs t name = .ok l := by
    intro name
    obtain ⟨u, hu⟩ := unitE_total h name (some t.name) (some t.opType)
    obtain ⟨l, hl⟩ := latencyOf_total ht (hsz (taskQ name t (some .normal))) u
    unfold latencyE
    rw [valuesE_total h]
    simp only
    split
    · rw [hu]; exact ⟨l, hl⟩
    · exact ⟨_, rfl⟩
  obtain ⟨th, hth⟩ := hsum nThroughput
  obtain ⟨la, hla⟩ := hlat nLatency
  obtain ⟨se, hse⟩ := hlat nServiceTime
  obtain ⟨pr, hpr⟩ := hlat nProcessingTime
  unfold taskE errorRateE
  rw [hc]
  simp only [Except.map]
  rw [hdu]
  simp only
  split
  · rw [hth, hla, hse, hpr]; exact ⟨_, rfl⟩
  · exact ⟨_, rfl⟩

theorem calcE_total {tbl : PTable} (ht : TableOk tbl) {recs : List Rec} (h : WF recs) (hs : SizeOk recs.length)
    (sched : List Task) : ∃ r, calcE tbl recs sched = .ok r := by
  induction sched with
  | nil => exact ⟨_, rfl⟩
  | cons t ts ih =>
    obtain ⟨o, ho⟩ := taskE_total ht h hs t
    obtain ⟨r, hr⟩ := ih
    unfold calcE
    rw [ho, hr]
    exact ⟨_, rfl⟩

/-! ### `GlobalStats` ↔ dict -/

/-- what the generated `(attribute, key, default)` table must satisfy for the read-back to be the identity -/
def TableGood (tbl : List KeySpec) : Prop :=
  tbl ≠ [] ∧ (tbl.map KeySpec.attr).Nodup ∧ ∀ s ∈ tbl, s.attr = s.key

theorem dictGet_of_nodup {o : Dict} (hn : (o.map Prod.fst).Nodup) {k : Str} {v : JVal} (h : (k, v) ∈ o) :
    dictGet o k = some v := by
  induction o with
  | nil => cases h
  | cons a t ih =>
    simp only [List.map_cons, List.nodup_cons] at hn
    unfold dictGet
    rw [List.find?_cons]
    rcases List.mem_cons.mp h with rfl | ht
    · simp
    · have hne : (a.1 == k) = false := by
        apply beq_false_of_ne
        intro heq
        apply hn.1
        rw [heq]
        exact List.mem_map.mpr ⟨(k, v), ht, rfl⟩
      rw [hne]
      exact ih hn.2 ht

theorem gsV_nonempty {o : Dict} (h : o ≠ []) (k : Str) (d : JVal) : gsV (some o) k d = (dictGet o k).getD d := by
  unfold gsV
  cases o with
  | nil => exact absurd rfl h
  | cons a t => rfl

theorem gsInit_roundtrip {tbl : List KeySpec} (hg : TableGood tbl) {o : Dict}
    (hshape : o.map Prod.fst = tbl.map KeySpec.attr) : gsInit tbl (some (gsAsDict o)) = o := by
  obtain ⟨hne, hnd, hkey⟩ := hg
  have hlen : o.length = tbl.length := by simpa using congrArg List.length hshape
  have hone : o ≠ [] := by
    intro h; rw [h] at hlen; exact hne (List.length_eq_zero_iff.mp hlen.symm)
  unfold gsInit gsAsDict
  apply List.ext_getElem
  · simp [hlen]
  · intro i h1 h2
    simp only [List.getElem_map]
    have hi : i < tbl.length := by simpa using h1
    have hk : (o[i]).1 = (tbl[i]).attr := by
      have := congrArg (fun l => l[i]?) hshape
      simp only [List.getElem?_map, List.getElem?_eq_getElem h2, List.getElem?_eq_getElem hi, Option.map_some,
        Option.some.injEq] at this
      exact this
    have hkk : (tbl[i]).key = (o[i]).1 := by rw [hk]; exact (hkey _ (List.getElem_mem hi)).symm
    have hnd' : (o.map Prod.fst).Nodup := by rw [hshape]; exact hnd
    have hget : dictGet o (tbl[i]).key = some (o[i]).2 := by
      rw [hkk]; exact dictGet_of_nodup hnd' (List.getElem_mem h2)
    have hv : gsV (some o) (tbl[i]).key (tbl[i]).dflt.val = (o[i]).2 := by
      rw [gsV_nonempty hone, hget]; rfl
    rw [hv, ← hk]

/-- reading `GlobalStats` from nothing (`None` / `{}`) gives every attribute its default -/
theorem gsInit_default (tbl : List KeySpec) : gsInit tbl none = tbl.map (fun s => (s.attr, s.dflt.val)) ∧
    gsInit tbl (some []) = tbl.map (fun s => (s.attr, s.dflt.val)) := by
  constructor <;> rfl

end Stats

namespace Stats
open Dbl StatsDbl

/-! ## part 4 — the float percentile is close to the ideal one -/

/-- spread of a sorted list -/
def spread (s : List Rat) : Rat := s.getD (s.length - 1) 0 - s.getD 0 0

theorem sorted_diff_le_spread {s : List Rat} (hs : Sorted s) {i j : Nat} (hij : i ≤ j) (hj : j < s.length) :
    s.getD j 0 - s.getD i 0 ≤ spread s := by
  unfold spread
  have h1 := sorted_getD_le hs (Nat.zero_le i) (lt_of_le_of_lt hij hj)
  have h2 := sorted_getD_le hs (show j ≤ s.length - 1 by omega) (by omega)
  linarith

theorem spread_nonneg {s : List Rat} (hs : Sorted s) (hne : s ≠ []) : 0 ≤ spread s := by
  have hn : 0 < s.length := List.length_pos_iff.mpr hne
  have := sorted_diff_le_spread hs (le_refl 0) hn
  linarith

theorem interp_floor_ceil {s : List Rat} {r : Rat} (h0 : 0 ≤ r) (h1 : r ≤ (s.length : Rat) - 1) :
    interp s (r.ceil : Rat) = s.getD r.ceil.toNat 0 ∧ interp s (r.floor : Rat) = s.getD r.floor.toNat 0 := by
  obtain ⟨ef, ec, _, _, _, _⟩ := rank_idx h0 h1
  constructor
  · rw [← ec]; exact interp_int _
  · rw [← ef]; exact interp_int _

/-- the interpolation function is Lipschitz in the rank with constant `spread s` -/
theorem interp_lipschitz {s : List Rat} (hs : Sorted s) {r r' : Rat} (h0 : 0 ≤ r) (hrr : r ≤ r')
    (h1 : r' ≤ (s.length : Rat) - 1) : interp s r' - interp s r ≤ spread s * (r' - r) := by
  have hne : s ≠ [] := by
    intro h; subst h; simp at h1; linarith
  have hG := spread_nonneg hs hne
  have h0' : 0 ≤ r' := le_trans h0 hrr
  have h1' : r ≤ (s.length : Rat) - 1 := le_trans hrr h1
  obtain ⟨ef, ec, hfc, hc1, hcn, hfcn⟩ := rank_idx h0 h1'
  obtain ⟨ef', ec', hfc', hc1', hcn', hfcn'⟩ := rank_idx h0' h1
  have hff : r.floor ≤ r'.floor := Rat.floor_monotone hrr
  have hfl := Rat.floor_le r
  have hfl' := Rat.floor_le r'
  have hce : r ≤ (r.ceil : Rat) := Rat.le_ceil
  have hlt := Rat.lt_floor_add_one r
  have hlt' := Rat.lt_floor_add_one r'
  push_cast at hlt hlt'
  -- slopes
  have slope : s.getD r.ceil.toNat 0 - s.getD r.floor.toNat 0 ≤ spread s := sorted_diff_le_spread hs hfcn hcn
  have slope' : s.getD r'.ceil.toNat 0 - s.getD r'.floor.toNat 0 ≤ spread s := sorted_diff_le_spread hs hfcn' hcn'
  have mono : 0 ≤ s.getD r.ceil.toNat 0 - s.getD r.floor.toNat 0 := by
    have := sorted_getD_le hs hfcn hcn; linarith
  have mono' : 0 ≤ s.getD r'.ceil.toNat 0 - s.getD r'.floor.toNat 0 := by
    have := sorted_getD_le hs hfcn' hcn'; linarith
  by_cases hcase : r.ceil ≤ r'.floor
  · -- r ≤ ⌈r⌉ ≤ ⌊r'⌋ ≤ r'
    have hcr : (r.ceil : Rat) ≤ (r'.floor : Rat) := by exact_mod_cast hcase
    -- step 1: interp ⌈r⌉ - interp r ≤ G (⌈r⌉ - r)
    have s1 : s.getD r.ceil.toNat 0 - interp s r ≤ spread s * ((r.ceil : Rat) - r) := by
      unfold interp; simp only
      rcases eq_or_lt_of_le hfc with heq | hlt2
      · -- integer rank
        have : (r.ceil : Rat) = (r.floor : Rat) := by rw [heq]
        have hr : r = (r.floor : Rat) := le_antisymm (by rw [← this]; exact hce) hfl
        rw [← heq]
        nlinarith
      · have hc : r.ceil = r.floor + 1 := by omega
        have : (r.ceil : Rat) = (r.floor : Rat) + 1 := by rw [hc]; push_cast; ring
        rw [this]
        nlinarith
    -- step 2: interp r' - interp ⌊r'⌋ ≤ G (r' - ⌊r'⌋)
    have s2 : interp s r' - s.getD r'.floor.toNat 0 ≤ spread s * (r' - (r'.floor : Rat)) := by
      unfold interp; simp only
      nlinarith
    -- step 3: grid points
    have s3 : s.getD r'.floor.toNat 0 - s.getD r.ceil.toNat 0 ≤ spread s * ((r'.floor : Rat) - (r.ceil : Rat)) := by
      rcases eq_or_lt_of_le hcase with heq | hlt2
      · rw [heq]; simp
      · have hd := sorted_diff_le_spread hs (show r.ceil.toNat ≤ r'.floor.toNat by omega) (show r'.floor.toNat < s.length by omega)
        have : (1 : Rat) ≤ (r'.floor : Rat) - (r.ceil : Rat) := by
          have : r.ceil + 1 ≤ r'.floor := by omega
          have : ((r.ceil + 1 : Int) : Rat) ≤ (r'.floor : Rat) := by exact_mod_cast this
          push_cast at this; linarith
        nlinarith
    nlinarith
  · -- same segment
    have e1 : r'.floor = r.floor := by omega
    have e2 : r.ceil = r.floor + 1 := by omega
    have hcc : r.ceil ≤ r'.ceil := by
      apply Rat.ceil_le_iff.mpr
      exact le_trans hrr Rat.le_ceil
    have e3 : r'.ceil = r.ceil := by omega
    unfold interp
    simp only [e1, e3]
    nlinarith

theorem interp_abs_lipschitz {s : List Rat} (hs : Sorted s) {r r' : Rat} (h0 : 0 ≤ r) (h0' : 0 ≤ r')
    (h1 : r ≤ (s.length : Rat) - 1) (h1' : r' ≤ (s.length : Rat) - 1) :
    |interp s r' - interp s r| ≤ spread s * |r' - r| := by
  rcases le_total r r' with h | h
  · have a := interp_lipschitz hs h0 h h1'
    have b := interp_mono hs h0 h h1'
    rw [abs_of_nonneg (by linarith), abs_of_nonneg (by linarith)]
    exact a
  · have a := interp_lipschitz hs h0' h h1
    have b := interp_mono hs h0' h h1
    rw [abs_of_nonpos (by linarith), abs_of_nonpos (by linarith)]
    linarith

/-- unit roundoff of binary64 -/
def uro : Rat := 1 / 2 ^ 53

theorem fl_abs_err (q : Rat) : |fl q - q| ≤ uro * |q| := by
  have := fl_rel_err q
  unfold uro
  rw [one_div, inv_mul_eq_div]
  exact this

theorem fl_nonneg_bounds {q : Rat} (h : 0 ≤ q) : q * (1 - uro) ≤ fl q ∧ fl q ≤ q * (1 + uro) := by
  have := fl_abs_err q
  rw [abs_of_nonneg h, abs_le] at this
  constructor <;> nlinarith [this.1, this.2]

/-- evaluating `lo + (hi - lo) * f` in doubles (with `f` itself rounded first) stays within `12·2⁻⁵³·M` -/
theorem interp_float_eval {lo hi f M : Rat} (hlh : lo ≤ hi) (hf0 : 0 ≤ f) (hf1 : f ≤ 1)
    (hlo : |lo| ≤ M) (hhi : |hi| ≤ M) :
    |fadd lo (fmul (fsub hi lo) (fl f)) - (lo + (hi - lo) * f)| ≤ 12 * M * uro := by
  have hM0 : 0 ≤ M := le_trans (abs_nonneg lo) hlo
  obtain ⟨lo1, lo2⟩ := abs_le.mp hlo
  obtain ⟨hi1, hi2⟩ := abs_le.mp hhi
  have hu0 : (0 : Rat) ≤ uro := by unfold uro; positivity
  have hu1 : uro ≤ 1 / 16 := by unfold uro; norm_num
  have c_hi : (1 + uro) ^ 3 ≤ 1 + 4 * uro := by unfold uro; norm_num
  have c_lo : 1 - 4 * uro ≤ (1 - uro) ^ 3 := by unfold uro; norm_num
  unfold fadd fmul fsub
  set d := hi - lo with hd
  have hd0 : 0 ≤ d := by linarith
  have hd2 : d ≤ 2 * M := by linarith
  obtain ⟨D1, D2⟩ := fl_nonneg_bounds hd0
  have hD0 : 0 ≤ fl d := fl_nonneg hd0
  obtain ⟨F1, F2⟩ := fl_nonneg_bounds hf0
  have hF0 : 0 ≤ fl f := fl_nonneg hf0
  have hDF0 : 0 ≤ fl d * fl f := mul_nonneg hD0 hF0
  obtain ⟨T1, T2⟩ := fl_nonneg_bounds hDF0
  have hdf0 : 0 ≤ d * f := mul_nonneg hd0 hf0
  have hdf1 : d * f ≤ d := by nlinarith
  have h1u : 0 ≤ 1 - uro := by linarith
  -- products
  have DF_hi : fl d * fl f ≤ d * f * (1 + uro) ^ 2 := by
    calc fl d * fl f ≤ (d * (1 + uro)) * (f * (1 + uro)) := mul_le_mul D2 F2 hF0 (by positivity)
      _ = d * f * (1 + uro) ^ 2 := by ring
  have DF_lo : d * f * (1 - uro) ^ 2 ≤ fl d * fl f := by
    calc d * f * (1 - uro) ^ 2 = (d * (1 - uro)) * (f * (1 - uro)) := by ring
      _ ≤ fl d * fl f := mul_le_mul D1 F1 (by positivity) hD0
  have T_hi : fl (fl d * fl f) ≤ d * f * (1 + 4 * uro) := by
    calc fl (fl d * fl f) ≤ fl d * fl f * (1 + uro) := T2
      _ ≤ d * f * (1 + uro) ^ 2 * (1 + uro) := mul_le_mul_of_nonneg_right DF_hi (by positivity)
      _ = d * f * (1 + uro) ^ 3 := by ring
      _ ≤ d * f * (1 + 4 * uro) := mul_le_mul_of_nonneg_left c_hi hdf0
  have T_lo : d * f * (1 - 4 * uro) ≤ fl (fl d * fl f) := by
    calc d * f * (1 - 4 * uro) ≤ d * f * (1 - uro) ^ 3 := mul_le_mul_of_nonneg_left c_lo hdf0
      _ = d * f * (1 - uro) ^ 2 * (1 - uro) := by ring
      _ ≤ fl d * fl f * (1 - uro) := mul_le_mul_of_nonneg_right DF_lo h1u
      _ ≤ fl (fl d * fl f) := T1
  set T := fl (fl d * fl f) with hT
  have hT0 : 0 ≤ T := fl_nonneg hDF0
  -- |T - d f| ≤ 4 u d ≤ 8 u M
  have Tdiff : |T - d * f| ≤ 8 * M * uro := by
    rw [abs_le]; constructor <;> nlinarith
  -- |lo + T| ≤ 3.5 M
  have hX : |lo + T| ≤ 7 / 2 * M := by
    rw [abs_le]; constructor <;> nlinarith
  have hV := fl_abs_err (lo + T)
  have hV' : |fl (lo + T) - (lo + T)| ≤ 7 / 2 * M * uro := by
    calc |fl (lo + T) - (lo + T)| ≤ uro * |lo + T| := hV
      _ ≤ uro * (7 / 2 * M) := mul_le_mul_of_nonneg_left hX hu0
      _ = 7 / 2 * M * uro := by ring
  have e : fl (lo + T) - (lo + d * f) = (fl (lo + T) - (lo + T)) + (T - d * f) := by ring
  rw [e]
  calc |(fl (lo + T) - (lo + T)) + (T - d * f)| ≤ |fl (lo + T) - (lo + T)| + |T - d * f| := abs_add_le _ _
    _ ≤ 7 / 2 * M * uro + 8 * M * uro := add_le_add hV' Tdiff
    _ ≤ 12 * M * uro := by nlinarith

theorem rankD_close {n : Nat} (hn : 0 < n) (hsz : SizeOk n) {p : Rat} (h0 : 0 ≤ p) :
    |rankD n p - rankI n p| ≤ (2 * uro + uro ^ 2) * rankI n p := by
  rw [rankD_eq hn hsz]
  unfold rankI
  have hy : (0 : Rat) ≤ (n : Rat) - 1 := by
    have : (1 : Rat) ≤ (n : Rat) := by exact_mod_cast hn
    linarith
  have ha : (0 : Rat) ≤ p / 100 := by positivity
  have hu0 : (0 : Rat) ≤ uro := by unfold uro; positivity
  obtain ⟨A1, A2⟩ := fl_nonneg_bounds ha
  have hA : 0 ≤ fl (p / 100) := fl_nonneg ha
  obtain ⟨R1, R2⟩ := fl_nonneg_bounds (mul_nonneg hA hy)
  have hay : 0 ≤ p / 100 * ((n : Rat) - 1) := mul_nonneg ha hy
  have Ay_hi : fl (p / 100) * ((n : Rat) - 1) ≤ p / 100 * ((n : Rat) - 1) * (1 + uro) := by
    calc fl (p / 100) * ((n : Rat) - 1) ≤ (p / 100 * (1 + uro)) * ((n : Rat) - 1) := mul_le_mul_of_nonneg_right A2 hy
      _ = p / 100 * ((n : Rat) - 1) * (1 + uro) := by ring
  have Ay_lo : p / 100 * ((n : Rat) - 1) * (1 - uro) ≤ fl (p / 100) * ((n : Rat) - 1) := by
    calc p / 100 * ((n : Rat) - 1) * (1 - uro) = (p / 100 * (1 - uro)) * ((n : Rat) - 1) := by ring
      _ ≤ fl (p / 100) * ((n : Rat) - 1) := mul_le_mul_of_nonneg_right A1 hy
  have h1u : 0 ≤ 1 - uro := by unfold uro; norm_num
  have R_hi : fl (fl (p / 100) * ((n : Rat) - 1)) ≤ p / 100 * ((n : Rat) - 1) * ((1 + uro) * (1 + uro)) := by
    calc fl (fl (p / 100) * ((n : Rat) - 1)) ≤ fl (p / 100) * ((n : Rat) - 1) * (1 + uro) := R2
      _ ≤ p / 100 * ((n : Rat) - 1) * (1 + uro) * (1 + uro) := mul_le_mul_of_nonneg_right Ay_hi (by positivity)
      _ = p / 100 * ((n : Rat) - 1) * ((1 + uro) * (1 + uro)) := by ring
  have R_lo : p / 100 * ((n : Rat) - 1) * ((1 - uro) * (1 - uro)) ≤ fl (fl (p / 100) * ((n : Rat) - 1)) := by
    calc p / 100 * ((n : Rat) - 1) * ((1 - uro) * (1 - uro)) = p / 100 * ((n : Rat) - 1) * (1 - uro) * (1 - uro) := by ring
      _ ≤ fl (p / 100) * ((n : Rat) - 1) * (1 - uro) := mul_le_mul_of_nonneg_right Ay_lo h1u
      _ ≤ fl (fl (p / 100) * ((n : Rat) - 1)) := R1
  generalize p / 100 * ((n : Rat) - 1) = z at hay R_hi R_lo ⊢
  generalize fl (fl (p / 100) * ((n : Rat) - 1)) = R at R_hi R_lo ⊢
  rw [abs_le]
  constructor <;> nlinarith [mul_nonneg hay hu0, mul_nonneg hay (mul_nonneg hu0 hu0)]

/-- **the float percentile is within an explicit error of the ideal percentile** -/
theorem valueD_close {s : List Rat} (hs : Sorted s) (hne : s ≠ []) (hsz : SizeOk s.length) {M : Rat}
    (hM : ∀ v ∈ s, |v| ≤ M) {p : Rat} (h0 : 0 ≤ p) (h1 : p ≤ 100) :
    |valueD s p - percentileI s p| ≤
      spread s * ((2 * uro + uro ^ 2) * ((s.length : Rat) - 1)) + 12 * M * uro := by
  have hn : 0 < s.length := List.length_pos_iff.mpr hne
  obtain ⟨d0, d1⟩ := rankD_range hn hsz h0 h1
  obtain ⟨i0, i1⟩ := rankI_range hn h0 h1
  obtain ⟨ef, ec, hfc, hc1, hcn, hfcn⟩ := rank_idx d0 d1
  have hG := spread_nonneg hs hne
  have hu0 : (0 : Rat) ≤ uro := by unfold uro; positivity
  have hM0 : 0 ≤ M := le_trans (abs_nonneg _) (hM _ (List.head_mem hne))
  -- A: float evaluation at the float rank
  have A : |valueD s p - interp s (rankD s.length p)| ≤ 12 * M * uro := by
    unfold valueD
    simp only
    split_ifs with hint
    · have : interp s (rankD s.length p) = s.getD (rankD s.length p).floor.toNat 0 := by
        unfold interp; simp only
        rw [← hint]; ring
      rw [this, sub_self, abs_zero]; positivity
    · have hi_eq : interp s (rankD s.length p) = s.getD (rankD s.length p).floor.toNat 0 +
          (s.getD (rankD s.length p).ceil.toNat 0 - s.getD (rankD s.length p).floor.toNat 0) *
            (rankD s.length p - ((rankD s.length p).floor : Rat)) := rfl
      rw [hi_eq]
      have hfs : fsub (rankD s.length p) ((rankD s.length p).floor : Rat) =
          fl (rankD s.length p - ((rankD s.length p).floor : Rat)) := rfl
      rw [hfs]
      apply interp_float_eval
      · exact sorted_getD_le hs hfcn hcn
      · exact sub_nonneg.mpr (Rat.floor_le _)
      · have := Rat.lt_floor_add_one (rankD s.length p)
        push_cast at this; linarith
      · rw [getD_of_lt (show (rankD s.length p).floor.toNat < s.length by omega)]
        exact hM _ (List.getElem_mem _)
      · rw [getD_of_lt hcn]
        exact hM _ (List.getElem_mem _)
  -- B: moving from the float rank to the ideal rank
  have B : |interp s (rankD s.length p) - interp s (rankI s.length p)| ≤
      spread s * ((2 * uro + uro ^ 2) * ((s.length : Rat) - 1)) := by
    have h := interp_abs_lipschitz hs i0 d0 i1 d1
    have hr := rankD_close hn hsz h0
    have hc : (0 : Rat) ≤ 2 * uro + uro ^ 2 := by positivity
    calc |interp s (rankD s.length p) - interp s (rankI s.length p)|
        ≤ spread s * |rankD s.length p - rankI s.length p| := h
      _ ≤ spread s * ((2 * uro + uro ^ 2) * rankI s.length p) := mul_le_mul_of_nonneg_left hr hG
      _ ≤ spread s * ((2 * uro + uro ^ 2) * ((s.length : Rat) - 1)) :=
          mul_le_mul_of_nonneg_left (mul_le_mul_of_nonneg_left i1 hc) hG
  unfold percentileI
  have e : valueD s p - interp s (rankI s.length p) =
      (valueD s p - interp s (rankD s.length p)) + (interp s (rankD s.length p) - interp s (rankI s.length p)) := by ring
  rw [e]
  calc _ ≤ |valueD s p - interp s (rankD s.length p)| + |interp s (rankD s.length p) - interp s (rankI s.length p)| := abs_add_le _ _
    _ ≤ 12 * M * uro + spread s * ((2 * uro + uro ^ 2) * ((s.length : Rat) - 1)) := add_le_add A B
    _ = _ := by ring

end Stats

namespace Stats

/-! ## part 5 — per-task lookup after the read-back -/

theorem recKeyE_opToDict (m : OpMetrics) : recKeyE (opToDict m) = .ok (.str m.task) := by
  unfold recKeyE opToDict dictGet
  have h1 : (sTask == sOperation) = false := by decide
  have h2 : (sOperation == sOperation) = true := by decide
  have h3 : (sTask == sTask) = true := by decide
  simp [h1]

theorem jIsStr_str (a b : Str) : jIsStr (.str a) b = (a == b) := rfl

theorem metricsE_cons_op (m : OpMetrics) (rs : List Dict) (x : Str) :
    metricsE (opToDict m :: rs) x = if (m.task == x) = true then .ok (some (opToDict m)) else metricsE rs x := by
  conv_lhs => unfold metricsE
  rw [recKeyE_opToDict]
  rfl

/-- `metrics(task)` only ever returns a record whose task (or, lacking one, operation) *is* the requested name -/
theorem metricsE_key {rs : List Dict} {t : Str} {r : Dict} (h : metricsE rs t = .ok (some r)) :
    r ∈ rs ∧ ∃ k, recKeyE r = .ok k ∧ jIsStr k t = true := by
  induction rs with
  | nil => unfold metricsE at h; cases h
  | cons a rs ih =>
    unfold metricsE at h
    split at h
    · cases h
    · next k hk =>
      split at h
      · next hm => cases h; exact ⟨List.mem_cons_self, k, hk, hm⟩
      · obtain ⟨h1, h2⟩ := ih h; exact ⟨List.mem_cons_of_mem _ h1, h2⟩

theorem metricsE_none_of_forall {ms : List OpMetrics} {x : Str} (h : ∀ m ∈ ms, m.task ≠ x) :
    metricsE (ms.map opToDict) x = .ok none := by
  induction ms with
  | nil => rfl
  | cons m ms ih =>
    simp only [List.map_cons]
    rw [metricsE_cons_op, if_neg (by simpa using h m List.mem_cons_self)]
    exact ih (fun m' hm' => h m' (List.mem_cons_of_mem _ hm'))

theorem taskE_task {tbl : PTable} {recs : List Rec} {t : Task} {m : OpMetrics} (h : taskE tbl recs t = .ok (some m)) :
    m.task = t.name ∧ m.operation = t.opName := by
  obtain ⟨er, du, _, _, hc⟩ := taskE_inv h
  rcases hc with ⟨_, h0⟩ | ⟨_, th, la, se, pr, _, _, _, _, h1⟩
  · cases h0
  · cases h1; exact ⟨rfl, rfl⟩

theorem calcE_tasks_subset {tbl : PTable} {recs : List Rec} {sched : List Task} {r : List OpMetrics}
    (h : calcE tbl recs sched = .ok r) : ∀ m ∈ r, ∃ t ∈ sched, m.task = t.name := by
  induction sched generalizing r with
  | nil => unfold calcE at h; cases h; intro m hm; cases hm
  | cons t ts ih =>
    unfold calcE at h
    split at h
    · cases h
    · next o ho =>
      split at h
      · cases h
      · next r' hr' =>
        cases h
        intro m hm
        cases o with
        | none =>
          obtain ⟨t', ht', e⟩ := ih hr' m hm
          exact ⟨t', List.mem_cons_of_mem _ ht', e⟩
        | some m0 =>
          rcases List.mem_cons.mp hm with rfl | hm'
          · exact ⟨t, List.mem_cons_self, (taskE_task ho).1⟩
          · obtain ⟨t', ht', e⟩ := ih hr' m hm'
            exact ⟨t', List.mem_cons_of_mem _ ht', e⟩

/-- with unique task names, looking a scheduled task up by name in the calculated record list returns exactly the
    record `taskE` computed for it (or nothing if the task is not reported) -/
theorem metricsE_calc {tbl : PTable} {recs : List Rec} {sched : List Task} {r : List OpMetrics}
    (hnd : (sched.map Task.name).Nodup) (h : calcE tbl recs sched = .ok r) {t : Task} (ht : t ∈ sched)
    {o : Option OpMetrics} (hto : taskE tbl recs t = .ok o) :
    metricsE (r.map opToDict) t.name = .ok (o.map opToDict) := by
  induction sched generalizing r with
  | nil => cases ht
  | cons t0 ts ih =>
    simp only [List.map_cons, List.nodup_cons] at hnd
    unfold calcE at h
    split at h
    · cases h
    · next o0 ho0 =>
      split at h
      · cases h
      · next r' hr' =>
        cases h
        have hsub := calcE_tasks_subset hr'
        rcases List.mem_cons.mp ht with rfl | hts
        · -- the head task
          have hoo : o = o0 := by rw [ho0] at hto; cases hto; rfl
          subst hoo
          cases o with
          | none =>
            simp only [Option.map_none]
            apply metricsE_none_of_forall
            intro m hm heq
            obtain ⟨t', ht', e⟩ := hsub m hm
            apply hnd.1
            rw [← heq, e]
            exact List.mem_map.mpr ⟨t', ht', rfl⟩
          | some m0 =>
            simp only [List.map_cons, Option.map_some]
            rw [metricsE_cons_op, if_pos (by simp [(taskE_task ho0).1])]
        · -- a later task: the head record (if any) has another name
          have hne : t0.name ≠ t.name := by
            intro heq
            apply hnd.1
            rw [heq]
            exact List.mem_map.mpr ⟨t, hts, rfl⟩
          cases o0 with
          | none => exact ih hnd.2 hr' hts
          | some m0 =>
            simp only [List.map_cons]
            rw [metricsE_cons_op, if_neg (by simp [(taskE_task ho0).1, hne])]
            exact ih hnd.2 hr' hts

theorem tasksE_calc (ms : List OpMetrics) : tasksE (ms.map opToDict) = .ok (ms.map (fun m => JVal.str m.task)) := by
  induction ms with
  | nil => rfl
  | cons m ms ih =>
    simp only [List.map_cons]
    unfold tasksE
    rw [recKeyE_opToDict, ih]

theorem recsOfJ_map (ds : List Dict) : recsOfJ (ds.map JVal.obj) = some ds := by
  induction ds with
  | nil => rfl
  | cons d ds ih => simp [recsOfJ, ih]

theorem metricsE_cons_of_key {r : Dict} {k : Str} (h : recKeyE r = .ok (.str k)) (rs : List Dict) (x : Str) :
    metricsE (r :: rs) x = if (k == x) = true then .ok (some r) else metricsE rs x := by
  conv_lhs => unfold metricsE
  rw [h]
  rfl

/-- general form: records whose keys (task, or operation for records without a task) are pairwise distinct are
    each found under their own key -/
theorem metricsE_unique {rs : List Dict} {ks : List Str}
    (hk : List.Forall₂ (fun r k => recKeyE r = .ok (.str k)) rs ks) (hnd : ks.Nodup) {r : Dict} {k : Str}
    (hmem : (r, k) ∈ rs.zip ks) : metricsE rs k = .ok (some r) := by
  induction hk with
  | nil => simp at hmem
  | @cons r0 k0 rs ks hrk _ ih =>
    simp only [List.nodup_cons] at hnd
    rw [metricsE_cons_of_key hrk]
    simp only [List.zip_cons_cons, List.mem_cons, Prod.mk.injEq] at hmem
    rcases hmem with ⟨rfl, rfl⟩ | hm
    · simp
    · have hk' : k ∈ ks := (List.of_mem_zip hm).2
      have hne : k0 ≠ k := fun h => hnd.1 (h ▸ hk')
      rw [if_neg (by simpa using hne)]
      exact ih hnd.2 hm

end Stats

namespace Stats

/-! ## part 6 — one store object over a history of deliveries and queries -/

theorem stateAfter_append (docs : List Rec) (h1 h2 : List SEv) :
    stateAfter docs (h1 ++ h2) = stateAfter (stateAfter docs h1) h2 := by
  unfold stateAfter; rw [List.foldl_append]

theorem stateAfter_cons (docs : List Rec) (e : SEv) (h : List SEv) :
    stateAfter docs (e :: h) = stateAfter (stepState docs e) h := rfl

theorem runHist_cons (tbl : PTable) (docs : List Rec) (e : SEv) (es : List SEv) :
    runHist tbl docs (e :: es) =
      (match stepAns tbl docs e with | some a => [a] | none => []) ++ runHist tbl (stepState docs e) es := by
  conv_lhs => unfold runHist
  cases stepAns tbl docs e <;> rfl

theorem runHist_append (tbl : PTable) (docs : List Rec) (h1 h2 : List SEv) :
    runHist tbl docs (h1 ++ h2) = runHist tbl docs h1 ++ runHist tbl (stateAfter docs h1) h2 := by
  induction h1 generalizing docs with
  | nil => rfl
  | cons e es ih =>
    rw [List.cons_append, runHist_cons, runHist_cons, stateAfter_cons, ih, List.append_assoc]

theorem delivered_snoc (l : List SEv) (a : SEv) :
    delivered (l ++ [a]) = if a.clears then [] else delivered l ++ a.docs := by
  unfold delivered
  rw [List.reverse_append, List.reverse_singleton, List.singleton_append, List.takeWhile_cons]
  cases h : a.clears
  · simp
  · simp

/-- **the store holds exactly what was delivered since the last clearing hand-over** — whatever was asked in between -/
theorem stateAfter_eq_delivered (h : List SEv) : stateAfter [] h = delivered h := by
  induction h using List.reverseRecOn with
  | nil => rfl
  | append_singleton l a ih =>
    rw [stateAfter_append, ih, delivered_snoc]
    cases a with
    | put d => simp [stateAfter, stepState, SEv.clears, SEv.docs]
    | bulk ds => simp [stateAfter, stepState, SEv.clears, SEv.docs]
    | handover c q => cases c <;> simp [stateAfter, stepState, SEv.clears, SEv.docs]
    | query q => simp [stateAfter, stepState, SEv.clears, SEv.docs]

/-- events that only read -/
def SEv.readOnly : SEv → Bool
  | .query _ => true
  | .handover false _ => true
  | _ => false

theorem stepState_readOnly {e : SEv} (h : e.readOnly = true) (docs : List Rec) : stepState docs e = docs := by
  cases e with
  | put d => cases h
  | bulk ds => cases h
  | handover c q => cases c <;> first | rfl | cases h
  | query q => rfl

theorem stateAfter_filter (docs : List Rec) (h : List SEv) :
    stateAfter docs h = stateAfter docs (h.filter (fun e => !e.readOnly)) := by
  induction h generalizing docs with
  | nil => rfl
  | cons e es ih =>
    rw [List.filter_cons]
    cases hr : e.readOnly
    · simp only [Bool.not_false, if_true, stateAfter_cons]; exact ih _
    · simp only [Bool.not_true, Bool.false_eq_true, if_false, stateAfter_cons, stepState_readOnly hr]; exact ih _

theorem delivered_filter (h : List SEv) : delivered h = delivered (h.filter (fun e => !e.readOnly)) := by
  rw [← stateAfter_eq_delivered, ← stateAfter_eq_delivered]; exact stateAfter_filter [] h

/-! ### answers depend on the multiset of documents only -/

theorem values_perm {q : Query} {recs recs' : List Rec} {vs vs' : List Rat}
    (h : valuesE recs q = .ok vs) (h' : valuesE recs' q = .ok vs') (hp : recs.Perm recs') : vs.Perm vs' := by
  rw [valuesE_ok h, valuesE_ok h']
  exact (hp.filter _).map _

def QKind.orderFree : QKind → Bool
  | .stats _ => true
  | .mean _ => true
  | .median _ => true
  | .pcts _ _ => true
  | .errRate _ _ _ => true
  | _ => false

theorem map_ok_inv {α β : Type} {f : α → β} {x : Except Err α} {b : β} (h : x.map f = .ok b) :
    ∃ a, x = .ok a ∧ f a = b := by
  cases x with
  | error e => cases h
  | ok a => exact ⟨a, rfl, by cases h; rfl⟩

theorem evalQ_perm {tbl : PTable} {docs docs' : List Rec} (hp : docs.Perm docs') {k : QKind} (hk : k.orderFree = true)
    {a a' : Ans} (h : evalQ tbl docs k = .ok a) (h' : evalQ tbl docs' k = .ok a') : a = a' := by
  cases k with
  | get q => cases hk
  | unit n t o => cases hk
  | duration t => cases hk
  | results s => cases hk
  | stats q =>
    obtain ⟨vs, hv, rfl⟩ := map_ok_inv h
    obtain ⟨vs', hv', rfl⟩ := map_ok_inv h'
    rw [statsOf_perm (values_perm hv hv' hp)]
  | mean q =>
    obtain ⟨vs, hv, rfl⟩ := map_ok_inv h
    obtain ⟨vs', hv', rfl⟩ := map_ok_inv h'
    rw [meanOf_perm (values_perm hv hv' hp)]
  | median q =>
    obtain ⟨m, hm, rfl⟩ := map_ok_inv h
    obtain ⟨m', hm', rfl⟩ := map_ok_inv h'
    cases hv : valuesE docs q with
    | error e => rw [hv] at hm; cases hm
    | ok vs =>
      cases hv' : valuesE docs' q with
      | error e => rw [hv'] at hm'; cases hm'
      | ok vs' =>
        rw [hv] at hm; rw [hv'] at hm'
        simp only [Except.bind] at hm hm'
        rw [medianOf_perm (values_perm hv hv' hp), hm'] at hm
        cases hm; rfl
  | pcts q ps =>
    obtain ⟨m, hm, rfl⟩ := map_ok_inv h
    obtain ⟨m', hm', rfl⟩ := map_ok_inv h'
    cases hv : valuesE docs q with
    | error e => rw [hv] at hm; cases hm
    | ok vs =>
      cases hv' : valuesE docs' q with
      | error e => rw [hv'] at hm'; cases hm'
      | ok vs' =>
        rw [hv] at hm; rw [hv'] at hm'
        simp only [Except.bind] at hm hm'
        rw [percentilesOf_perm (values_perm hv hv' hp), hm'] at hm
        cases hm; rfl
  | errRate t o st =>
    obtain ⟨e, he, rfl⟩ := map_ok_inv h
    obtain ⟨e', he', rfl⟩ := map_ok_inv h'
    unfold errorRateE at he he'
    obtain ⟨c, hc, rfl⟩ := map_ok_inv he
    obtain ⟨c', hc', rfl⟩ := map_ok_inv he'
    rw [errCountE_ok hc, errCountE_ok hc', (hp.filter _).length_eq, (hp.filter _).length_eq]

end Stats

namespace Stats

/-! ## part 7 — one race store directory over a history of store / find / list -/

theorem dirAfter_append (m : RaceDir) (h1 h2 : List REv) : dirAfter m (h1 ++ h2) = dirAfter (dirAfter m h1) h2 := by
  unfold dirAfter; rw [List.foldl_append]

theorem raceRun_cons (m : RaceDir) (e : REv) (es : List REv) :
    raceRun m (e :: es) = (match dirAns m e with | some a => [a] | none => []) ++ raceRun (dirStep m e) es := by
  conv_lhs => unfold raceRun
  cases dirAns m e <;> rfl

theorem raceRun_append (m : RaceDir) (h1 h2 : List REv) :
    raceRun m (h1 ++ h2) = raceRun m h1 ++ raceRun (dirAfter m h1) h2 := by
  induction h1 generalizing m with
  | nil => rfl
  | cons e es ih =>
    rw [List.cons_append, raceRun_cons, raceRun_cons, ih, List.append_assoc]
    rfl

theorem dirFind_store_same (m : RaceDir) (id : Str) (d : RaceDoc) : dirFind (dirStore m id d) id = some d := by
  unfold dirFind dirStore
  simp

theorem find?_filter_ne (m : RaceDir) (id id' : Str) (h : id' ≠ id) :
    (m.filter (fun e => e.1 != id)).find? (fun e => e.1 == id') = m.find? (fun e => e.1 == id') := by
  induction m with
  | nil => rfl
  | cons a t ih =>
    rw [List.filter_cons]
    by_cases ha : a.1 = id
    · have h1 : (a.1 != id) = false := by simp [ha]
      have h2 : (a.1 == id') = false := by
        apply beq_false_of_ne; rw [ha]; exact fun e => h e.symm
      rw [h1]; simp only [Bool.false_eq_true, if_false, List.find?_cons, h2]; exact ih
    · have h1 : (a.1 != id) = true := by simp [ha]
      rw [h1]; simp only [if_true, List.find?_cons]
      cases a.1 == id' <;> simp [ih]

theorem dirFind_store_other (m : RaceDir) (id id' : Str) (d : RaceDoc) (h : id' ≠ id) :
    dirFind (dirStore m id d) id' = dirFind m id' := by
  unfold dirFind dirStore
  have : (id == id') = false := beq_false_of_ne (fun e => h e.symm)
  rw [List.find?_cons]
  simp only [this, find?_filter_ne m id id' h]

theorem lastStored_snoc (l : List REv) (e : REv) (id : Str) :
    lastStored (l ++ [e]) id = match e with
      | .store i d => if i == id then some d else lastStored l id
      | _ => lastStored l id := by
  unfold lastStored
  rw [List.reverse_append, List.reverse_singleton, List.singleton_append, List.findSome?_cons]
  cases e with
  | store i d => cases h : (i == id) <;> simp [h]
  | find i => simp
  | list n => simp

/-- **reading a race id back yields the document stored last for it** — after any history on the directory -/
theorem dirFind_after (h : List REv) (id : Str) : dirFind (dirAfter [] h) id = lastStored h id := by
  induction h using List.reverseRecOn with
  | nil => rfl
  | append_singleton l e ih =>
    rw [dirAfter_append, lastStored_snoc]
    cases e with
    | store i d =>
      show dirFind (dirStore (dirAfter [] l) i d) id = _
      by_cases hi : id = i
      · subst hi; rw [dirFind_store_same]; simp
      · rw [dirFind_store_other _ _ _ _ hi, ih]
        have : (i == id) = false := beq_false_of_ne (fun e => hi e.symm)
        simp [this]
    | find i => exact ih
    | list n => exact ih

theorem dirStore_nodup {m : RaceDir} (hn : (m.map Prod.fst).Nodup) (id : Str) (d : RaceDoc) :
    ((dirStore m id d).map Prod.fst).Nodup := by
  unfold dirStore
  simp only [List.map_cons, List.nodup_cons]
  constructor
  · intro hmem
    obtain ⟨e, he, hid⟩ := List.mem_map.mp hmem
    have := (List.mem_filter.mp he).2
    simp [hid] at this
  · exact hn.sublist ((List.filter_sublist (l := m)).map Prod.fst)

theorem dirAfter_nodup (h : List REv) : ((dirAfter [] h).map Prod.fst).Nodup := by
  induction h using List.reverseRecOn with
  | nil => simp [dirAfter]
  | append_singleton l e ih =>
    rw [dirAfter_append]
    cases e with
    | store i d => exact dirStore_nodup ih i d
    | find i => exact ih
    | list n => exact ih

theorem dirFind_of_mem {m : RaceDir} (hn : (m.map Prod.fst).Nodup) {id : Str} {d : RaceDoc} (h : (id, d) ∈ m) :
    dirFind m id = some d := by
  induction m with
  | nil => cases h
  | cons a t ih =>
    simp only [List.map_cons, List.nodup_cons] at hn
    unfold dirFind
    rw [List.find?_cons]
    rcases List.mem_cons.mp h with rfl | ht
    · simp
    · have hne : (a.1 == id) = false := by
        apply beq_false_of_ne
        intro heq
        apply hn.1
        rw [heq]
        exact List.mem_map.mpr ⟨(id, d), ht, rfl⟩
      rw [hne]
      exact ih hn.2 ht

theorem mem_of_dirFind {m : RaceDir} {id : Str} {d : RaceDoc} (h : dirFind m id = some d) : (id, d) ∈ m := by
  unfold dirFind at h
  cases hf : m.find? (fun e => e.1 == id) with
  | none => rw [hf] at h; cases h
  | some e =>
    rw [hf] at h
    simp only [Option.map_some, Option.some.injEq] at h
    have hm := List.mem_of_find?_eq_some hf
    have hp := List.find?_some hf
    have : e = (id, d) := by
      cases e with
      | mk a b => simp at hp h; rw [hp, h]
    rw [← this]; exact hm

/-- `list()` shows, for every listed race id, the document stored last for it; with a large enough
    `max_results` every id that was ever stored is listed exactly once -/
theorem dirList_after (h : List REv) (max : Nat) :
    (∀ id d, (id, d) ∈ dirList (dirAfter [] h) max → lastStored h id = some d) ∧
    ((dirAfter [] h).length ≤ max → ∀ id d, lastStored h id = some d → (id, d) ∈ dirList (dirAfter [] h) max) ∧
    ((dirList (dirAfter [] h) max).map Prod.fst).Nodup := by
  have hn := dirAfter_nodup h
  have hperm : (List.mergeSort (dirAfter [] h) (fun a b => decide (b.2.ts ≤ a.2.ts))).Perm (dirAfter [] h) := List.mergeSort_perm _ _
  refine ⟨?_, ?_, ?_⟩
  · intro id d hmem
    have h1 : (id, d) ∈ dirAfter [] h := hperm.mem_iff.mp (List.mem_of_mem_take hmem)
    rw [← dirFind_after]; exact dirFind_of_mem hn h1
  · intro hlen id d hl
    rw [← dirFind_after] at hl
    have h1 := mem_of_dirFind hl
    unfold dirList
    rw [List.take_of_length_le (by rw [List.length_mergeSort]; exact hlen)]
    exact hperm.mem_iff.mpr h1
  · unfold dirList
    have h2 : ((List.mergeSort (dirAfter [] h) (fun a b => decide (b.2.ts ≤ a.2.ts))).map Prod.fst).Nodup :=
      (hperm.map Prod.fst).nodup_iff.mpr hn
    exact h2.sublist ((List.take_sublist _ _).map Prod.fst)

end Stats

namespace Stats

/-! ## part 8 — a lookup is by the exact race id: races stored under other ids never matter -/

/-- keeps the stores of exactly this id (and all reads) -/
def REv.concerns (id : Str) : REv → Bool
  | .store i _ => i == id
  | _ => true

theorem lastStored_nil (id : Str) : lastStored [] id = none := rfl

theorem lastStored_filter (h : List REv) (id : Str) :
    lastStored h id = lastStored (h.filter (REv.concerns id)) id := by
  induction h using List.reverseRecOn with
  | nil => rfl
  | append_singleton l e ih =>
    rw [List.filter_append, lastStored_snoc]
    cases e with
    | store i d =>
      cases hi : (i == id)
      · have : [REv.store i d].filter (REv.concerns id) = [] := by simp [REv.concerns, hi]
        rw [this, List.append_nil]
        simp only [hi, Bool.false_eq_true, if_false]; exact ih
      · have : [REv.store i d].filter (REv.concerns id) = [REv.store i d] := by simp [REv.concerns, hi]
        rw [this, lastStored_snoc]; simp [hi]
    | find i =>
      have : [REv.find i].filter (REv.concerns id) = [REv.find i] := by simp [REv.concerns]
      rw [this, lastStored_snoc]; exact ih
    | list n =>
      have : [REv.list n].filter (REv.concerns id) = [REv.list n] := by simp [REv.concerns]
      rw [this, lastStored_snoc]; exact ih

/-- if no store in the history carries exactly this id, nothing is found — whatever other ids look like -/
theorem lastStored_none_of_no_store (h : List REv) (id : Str)
    (hno : ∀ e ∈ h, ∀ i d, e = REv.store i d → i ≠ id) : lastStored h id = none := by
  induction h using List.reverseRecOn with
  | nil => rfl
  | append_singleton l e ih =>
    rw [lastStored_snoc]
    have ihl := ih (fun e' he' => hno e' (List.mem_append_left _ he'))
    cases e with
    | store i d =>
      have : (i == id) = false := beq_false_of_ne (hno _ (List.mem_append_right _ (List.mem_singleton.mpr rfl)) i d rfl)
      simp [this, ihl]
    | find i => exact ihl
    | list n => exact ihl

end Stats
