import RallyModel.Mechanic

/-! ProcessLauncher: every node is tracked by the pid of its own daemon; stop terminates every started
daemon exactly once -/

set_option linter.unusedSimpArgs false
set_option linter.unusedVariables false

namespace Mechanic.Launcher

/-- the process table is sane: live pids are distinct and below the next fresh pid -/
structure Sane (w : World) : Prop where
  nodup : w.running.Nodup
  below : ∀ p ∈ w.running, p < w.nextPid

theorem startNode_spec (w : World) (d : Nat) :
    (startNode w d).2 = (d, w.nextPid) ∧ (startNode w d).1.pidFile d = some w.nextPid ∧
      (∀ d', d' ≠ d → (startNode w d).1.pidFile d' = w.pidFile d') ∧
      (startNode w d).1.nextPid = w.nextPid + 1 ∧ (startNode w d).1.running = w.nextPid :: w.running ∧
      (startNode w d).1.terms = w.terms := by
  simp [startNode, spawn, chdir, readPid]
  intro d' hd; simp [hd]

theorem startNode_sane {w : World} (h : Sane w) (d : Nat) : Sane (startNode w d).1 := by
  obtain ⟨_, _, _, h4, h5, _⟩ := startNode_spec w d
  refine ⟨?_, ?_⟩
  · rw [h5]; exact List.nodup_cons.2 ⟨fun hx => Nat.lt_irrefl _ (h.below _ hx), h.nodup⟩
  · rw [h5, h4]; intro p hp
    rcases List.mem_cons.1 hp with hp | hp
    · omega
    · have := h.below p hp; omega

/-- everything `ProcessLauncher.start` establishes -/
theorem startAll_spec (dirs : List Nat) (w : World) (hs : Sane w) (hd : dirs.Nodup) :
    let r := startAll w dirs
    r.2.map (·.1) = dirs ∧ (∀ n ∈ r.2, r.1.pidFile n.1 = some n.2 ∧ w.nextPid ≤ n.2 ∧ n.2 < r.1.nextPid) ∧
      (r.2.map (·.2)).Nodup ∧ (∀ q, q ∈ r.1.running ↔ q ∈ w.running ∨ q ∈ r.2.map (·.2)) ∧
      Sane r.1 ∧ r.1.terms = w.terms ∧ w.nextPid ≤ r.1.nextPid ∧ (∀ d, d ∉ dirs → r.1.pidFile d = w.pidFile d) := by
  induction dirs generalizing w with
  | nil => simp [startAll, hs]
  | cons d ds ih =>
    obtain ⟨k1, k2, k3, k4, k5, k6⟩ := startNode_spec w d
    have hd' := List.nodup_cons.1 hd
    have ih' := ih (startNode w d).1 (startNode_sane hs d) hd'.2
    simp only [] at ih'
    obtain ⟨i1, i2, i3, i4, i5, i6, i7, i8⟩ := ih'
    simp only [startAll]
    refine ⟨?_, ?_, ?_, ?_, i5, by rw [i6, k6], by omega, ?_⟩
    · simp [i1, k1]
    · intro n hn
      rcases List.mem_cons.1 hn with hn | hn
      · subst hn
        rw [k1]
        exact ⟨by rw [i8 d hd'.1]; exact k2, Nat.le_refl _, by omega⟩
      · obtain ⟨a, b, c⟩ := i2 n hn
        exact ⟨a, by omega, c⟩
    · simp only [List.map_cons]
      refine List.nodup_cons.2 ⟨?_, i3⟩
      rw [k1]
      intro hx
      obtain ⟨n, hn, he⟩ := List.mem_map.1 hx
      have := (i2 n hn).2.1
      simp only [] at he
      omega
    · intro q
      rw [i4, k5]
      simp only [List.map_cons, List.mem_cons, k1]
      constructor
      · rintro ((h | h) | h)
        · exact Or.inr (Or.inl h)
        · exact Or.inl h
        · exact Or.inr (Or.inr h)
      · rintro (h | h | h)
        · exact Or.inl (Or.inr h)
        · exact Or.inl (Or.inl h)
        · exact Or.inr h
    · intro d' hd2
      have h1 : d' ≠ d := fun hx => hd2 (by rw [hx]; exact List.mem_cons_self)
      have h2 : d' ∉ ds := fun hx => hd2 (List.mem_cons_of_mem _ hx)
      rw [i8 d' h2, k3 d' h1]

theorem stopNode_spec {w : World} (hs : w.running.Nodup) {p : Nat} (hp : p ∈ w.running) :
    (∀ q, q ∈ (stopNode w p).running ↔ q ∈ w.running ∧ q ≠ p) ∧
      (∀ q, (stopNode w p).terms.count q = w.terms.count q + if q = p then 1 else 0) ∧
      (stopNode w p).running.Nodup := by
  simp only [stopNode, hp, if_true]
  refine ⟨?_, ?_, hs.erase p⟩
  · intro q; rw [hs.mem_erase_iff]; exact ⟨fun h => ⟨h.2, h.1⟩, fun h => ⟨h.2, h.1⟩⟩
  · intro q
    simp only [List.count_append, List.count_cons, List.count_nil]
    by_cases h : q = p
    · subst h; simp
    · have : ¬ (p == q) = true := by simp; exact fun hx => h hx.symm
      simp [h, this]

/-- everything `ProcessLauncher.stop` does to a set of distinct live pids -/
theorem stopAll_spec (nodes : List (Nat × Nat)) (w : World) (hs : w.running.Nodup)
    (hn : (nodes.map (·.2)).Nodup) (hr : ∀ p ∈ nodes.map (·.2), p ∈ w.running) :
    (∀ q, q ∈ (stopAll w nodes).running ↔ q ∈ w.running ∧ q ∉ nodes.map (·.2)) ∧
      (∀ q, (stopAll w nodes).terms.count q = w.terms.count q + if q ∈ nodes.map (·.2) then 1 else 0) := by
  induction nodes generalizing w with
  | nil => simp [stopAll]
  | cons n ns ih =>
    simp only [List.map_cons] at hn hr
    have hn' := List.nodup_cons.1 hn
    have hp : n.2 ∈ w.running := hr _ List.mem_cons_self
    obtain ⟨s1, s2, s3⟩ := stopNode_spec hs hp
    have hr' : ∀ p ∈ ns.map (·.2), p ∈ (stopNode w n.2).running := by
      intro p hp'
      rw [s1]
      exact ⟨hr p (List.mem_cons_of_mem _ hp'), fun hx => hn'.1 (hx ▸ hp')⟩
    obtain ⟨i1, i2⟩ := ih (stopNode w n.2) s3 hn'.2 hr'
    have hfold : stopAll w (n :: ns) = stopAll (stopNode w n.2) ns := by simp [stopAll]
    rw [hfold]
    refine ⟨?_, ?_⟩
    · intro q
      rw [i1, s1]
      simp only [List.map_cons, List.mem_cons, not_or]
      exact ⟨fun h => ⟨h.1.1, h.1.2, h.2⟩, fun h => ⟨⟨h.1, h.2.1⟩, h.2.2⟩⟩
    · intro q
      rw [i2, s2]
      simp only [List.map_cons, List.mem_cons]
      by_cases h1 : q = n.2
      · subst h1
        have h3 : ¬ (n.2 ∈ ns.map (·.2)) := hn'.1
        simp only [h3, if_false, true_or, if_true]
      · by_cases h2 : q ∈ ns.map (·.2) <;> simp [h1, h2]

/-- **start + stop**: from a sane process table, for distinct installation directories: every node is tracked
by the pid its own daemon wrote into its own installation, these pids are distinct live processes; after
`stop` none of them runs, each has received exactly one more SIGTERM, no other process was touched -/
theorem start_stop (dirs : List Nat) (w : World) (hs : Sane w) (hd : dirs.Nodup) :
    let r := startAll w dirs
    let w' := stopAll r.1 r.2
    r.2.map (·.1) = dirs ∧ (∀ n ∈ r.2, r.1.pidFile n.1 = some n.2 ∧ n.2 ∈ r.1.running) ∧ (r.2.map (·.2)).Nodup ∧
      (∀ n ∈ r.2, n.2 ∉ w'.running ∧ w'.terms.count n.2 = w.terms.count n.2 + 1) ∧
      (∀ q, q ∈ w.running → q ∈ w'.running ∧ w'.terms.count q = w.terms.count q) := by
  obtain ⟨a1, a2, a3, a4, a5, a6, a7, a8⟩ := startAll_spec dirs w hs hd
  have hr : ∀ p ∈ (startAll w dirs).2.map (·.2), p ∈ (startAll w dirs).1.running := fun p hp => (a4 p).2 (Or.inr hp)
  obtain ⟨b1, b2⟩ := stopAll_spec (startAll w dirs).2 (startAll w dirs).1 a5.nodup a3 hr
  refine ⟨a1, ?_, a3, ?_, ?_⟩
  · intro n hn; exact ⟨(a2 n hn).1, hr _ (List.mem_map.2 ⟨n, hn, rfl⟩)⟩
  · intro n hn
    have hm : n.2 ∈ (startAll w dirs).2.map (·.2) := List.mem_map.2 ⟨n, hn, rfl⟩
    refine ⟨fun hx => ((b1 _).1 hx).2 hm, ?_⟩
    rw [b2, a6]; simp [hm]
  · intro q hq
    have hnot : q ∉ (startAll w dirs).2.map (·.2) := by
      intro hx
      obtain ⟨n, hn, he⟩ := List.mem_map.1 hx
      have := (a2 n hn).2.1
      have := hs.below q hq
      omega
    exact ⟨(b1 q).2 ⟨(a4 q).2 (Or.inl hq), hnot⟩, by rw [b2, a6]; simp [hnot]⟩

end Mechanic.Launcher
