import RallyModel.Bulk
import RallyProofs.Dbl
import Mathlib.Tactic.Linarith
import Mathlib.Tactic.Ring
import Mathlib.Tactic.Positivity
import Mathlib.Tactic.FieldSimp
import Mathlib.Data.List.Perm.Basic
/-!
# Lemmas for C03 (bulk indexing): slice arithmetic, readers, ids, worker, offset table

Specification vocabulary used by `RallyProps/C03.lean` is defined here as well (`FlSpec`, `Cut`, `Tiles`,
`srcLines`, `Slice.window`, `chunks`, `IdTrace`, `OracleOK`, `BulkOK` …).
-/
namespace Bulk
open Dbl

/-! ## 1. `bounds` -/

/-- What the partition theorem needs from the rounding function. -/
structure FlSpec (fl : ℚ → ℚ) : Prop where
  zero : fl 0 = 0
  mono : ∀ {a b : ℚ}, 0 ≤ a → a ≤ b → fl a ≤ fl b
  rel : ∀ q : ℚ, |fl q - q| ≤ |q| / 2^53

theorem dbl_flSpec : FlSpec Dbl.fl := ⟨fl_zero, fun ha h => fl_mono_nonneg ha h, fl_rel_err⟩

namespace FlSpec
variable {fl : ℚ → ℚ} (S : FlSpec fl)
include S

theorem nonneg {a : ℚ} (h : 0 ≤ a) : 0 ≤ fl a := by
  have := S.mono (le_refl 0) h
  rwa [S.zero] at this

/-- for `a ≥ 0`: `a(1-u) ≤ fl a ≤ a(1+u)` with `u = 2⁻⁵³` -/
theorem bounds_of_nonneg {a : ℚ} (h : 0 ≤ a) : a * (1 - 1/2^53) ≤ fl a ∧ fl a ≤ a * (1 + 1/2^53) := by
  have := S.rel a
  rw [abs_of_nonneg h, abs_le] at this
  constructor <;> linarith [this.1, this.2]

theorem off_zero (T n : ℕ) : offDocsWith fl T n 0 = 0 := by
  unfold offDocsWith
  simp only [Nat.cast_zero, S.zero, mul_zero]
  exact rhe_intCast 0

theorem off_mono (T n : ℕ) {k k' : ℕ} (h : k ≤ k') : offDocsWith fl T n k ≤ offDocsWith fl T n k' := by
  unfold offDocsWith
  have hd : 0 ≤ fl ((T:ℚ) / (n:ℚ)) := S.nonneg (by positivity)
  have hk : 0 ≤ fl (k:ℚ) := S.nonneg (by positivity)
  have hkk : fl (k:ℚ) ≤ fl (k':ℚ) := S.mono (by positivity) (by exact_mod_cast h)
  exact rhe_mono (S.mono (mul_nonneg hd hk) (mul_le_mul_of_nonneg_left hkk hd))

theorem off_nonneg (T n k : ℕ) : 0 ≤ offDocsWith fl T n k := by
  have := S.off_mono T n (Nat.zero_le k)
  rwa [S.off_zero] at this

/-- the last client ends exactly at the last document: `round(fl(fl(T/n)·n)) = T` for `T ≤ 2^50` -/
theorem off_total {T n : ℕ} (hn : 1 ≤ n) (hT : T ≤ 2^50) : offDocsWith fl T n n = T := by
  unfold offDocsWith
  have hnq : (0:ℚ) < n := by exact_mod_cast hn
  have hTq : (T:ℚ) ≤ 2^50 := by exact_mod_cast hT
  have hT0 : (0:ℚ) ≤ T := by positivity
  set t : ℚ := (T:ℚ) / (n:ℚ) with ht
  have ht0 : 0 ≤ t := by positivity
  have htn : t * n = T := by rw [ht]; field_simp
  obtain ⟨x1, x2⟩ := S.bounds_of_nonneg ht0
  obtain ⟨m1, m2⟩ := S.bounds_of_nonneg (le_of_lt hnq)
  set x := fl t
  set m := fl (n:ℚ)
  have hx0 : 0 ≤ x := S.nonneg ht0
  have hm0 : 0 ≤ m := S.nonneg (le_of_lt hnq)
  have hu1 : (0:ℚ) ≤ 1 - 1/2^53 := by norm_num
  have up : x * m ≤ T * ((1 + 1/2^53) * (1 + 1/2^53)) := by
    calc x * m ≤ (t * (1 + 1/2^53)) * (n * (1 + 1/2^53)) :=
          mul_le_mul x2 m2 hm0 (by positivity)
      _ = (t * n) * ((1 + 1/2^53) * (1 + 1/2^53)) := by ring
      _ = _ := by rw [htn]
  have lo : T * ((1 - 1/2^53) * (1 - 1/2^53)) ≤ x * m := by
    calc (T:ℚ) * ((1 - 1/2^53) * (1 - 1/2^53)) = (t * n) * ((1 - 1/2^53) * (1 - 1/2^53)) := by rw [htn]
      _ = (t * (1 - 1/2^53)) * (n * (1 - 1/2^53)) := by ring
      _ ≤ x * m := mul_le_mul x1 m1 (mul_nonneg (le_of_lt hnq) hu1) hx0
  have hxm0 : 0 ≤ x * m := mul_nonneg hx0 hm0
  obtain ⟨y1, y2⟩ := S.bounds_of_nonneg hxm0
  apply rhe_of_near_int
  rw [Int.cast_natCast, abs_lt]
  constructor
  · -- T - 1/2 < y
    have : (T:ℚ) * ((1 - 1/2^53) * (1 - 1/2^53)) * (1 - 1/2^53) ≤ fl (x * m) :=
      le_trans (mul_le_mul_of_nonneg_right lo hu1) y1
    nlinarith [this, hTq, hT0]
  · have : fl (x * m) ≤ (T:ℚ) * ((1 + 1/2^53) * (1 + 1/2^53)) * (1 + 1/2^53) :=
      le_trans y2 (mul_le_mul_of_nonneg_right up (by norm_num))
    nlinarith [this, hTq, hT0]

end FlSpec

/-! ## 2. Slice and the readers -/

variable {α : Type}

/-- the file line an item of a bulk body carries (none for generated action lines) -/
def Item.line : Item α → Option α
  | .src a => some a
  | .am _ _ => none
  | .upd a => some a

/-- the file lines of a bulk body, in order -/
def srcLines (body : List (Item α)) : List α := body.filterMap Item.line

/-- the lines a slice still has to deliver -/
def Slice.window (s : Slice α) : List α := s.rest.take (s.numberOfLines - s.currentLine)

theorem slice_next_none {s : Slice α} (hB : 0 < s.bulkSize) : s.next = none ↔ s.window = [] := by
  unfold Slice.next Slice.window
  simp only []
  constructor
  · intro h
    split_ifs at h with h1 h2
    · have : s.numberOfLines - s.currentLine = 0 := by omega
      rw [this]; rfl
    · rw [List.length_eq_zero_iff] at h2
      rw [List.take_eq_nil_iff] at h2 ⊢
      rcases h2 with h2 | h2
      · left; omega
      · right; exact h2
  · intro h
    split_ifs with h1 h2
    · rfl
    · rfl
    · exfalso
      apply h2
      rw [List.take_eq_nil_iff] at h
      rw [List.length_eq_zero_iff, List.take_eq_nil_iff]
      rcases h with h | h
      · omega
      · right; exact h

theorem slice_next_some {s s' : Slice α} {ls : List α} (h : s.next = some (ls, s')) :
    ls = s.window.take s.bulkSize ∧ s'.window = s.window.drop s.bulkSize ∧ ls ≠ [] ∧ s'.bulkSize = s.bulkSize := by
  unfold Slice.next at h
  simp only [] at h
  split_ifs at h with h1 h2
  simp only [Option.some.injEq, Prod.mk.injEq] at h
  obtain ⟨hls, hs'⟩ := h
  have hne : ls ≠ [] := by
    intro h0; apply h2; rw [hls, h0]; rfl
  refine ⟨?_, ?_, hne, ?_⟩
  · rw [← hls]; unfold Slice.window; rw [List.take_take]
  · subst hs'
    unfold Slice.window
    simp only
    rw [hls, List.drop_take]
    have hlen : ls.length = min (min s.bulkSize (s.numberOfLines - s.currentLine)) s.rest.length := by
      rw [← hls, List.length_take]
    set rem := s.numberOfLines - s.currentLine with hrem
    have e1 : s.numberOfLines - (s.currentLine + ls.length) = rem - ls.length := by omega
    rw [e1]
    by_cases c1 : s.bulkSize ≤ rem ∧ s.bulkSize ≤ s.rest.length
    · have : ls.length = s.bulkSize := by omega
      rw [this]
    · by_cases c2 : rem ≤ s.rest.length ∧ rem < s.bulkSize
      · have : ls.length = rem := by omega
        rw [this]
        have z1 : rem - rem = 0 := by omega
        have z2 : rem - s.bulkSize = 0 := by omega
        rw [z1, z2]; simp
      · have : ls.length = s.rest.length := by omega
        rw [this]
        have : s.rest.length ≤ s.bulkSize := by omega
        rw [List.drop_of_length_le (le_refl _), List.drop_of_length_le this]
        simp
  · subst hs'; rfl


/-- `w` cut into consecutive pieces of `B` elements (the last one may be shorter) -/
def chunks (B : Nat) (w : List α) : List (List α) :=
  if h : w = [] ∨ B = 0 then [] else w.take B :: chunks B (w.drop B)
termination_by w.length
decreasing_by
  simp only [List.length_drop]
  have h1 : w.length ≠ 0 := fun h0 => h (Or.inl (List.length_eq_zero_iff.mp h0))
  have h2 : B ≠ 0 := fun h0 => h (Or.inr h0)
  omega

theorem chunks_nil (B : Nat) : chunks B ([] : List α) = [] := by
  rw [chunks]; simp

theorem chunks_cons {B : Nat} {w : List α} (hw : w ≠ []) (hB : 0 < B) :
    chunks B w = w.take B :: chunks B (w.drop B) := by
  rw [chunks]
  have : ¬ (w = [] ∨ B = 0) := by
    intro h; rcases h with h | h
    · exact hw h
    · omega
  simp [this]

/-- one-step behaviour of `readBulk` under an invariant `G` (indexed by a ghost value `g : γ` that is
    updated with every bulk); `Q` is what every bulk satisfies -/
structure StepSpec (o : Oracle) (k : Kind) (B : Nat) {γ : Type} (upd : γ → Bulk α → γ)
    (G : γ → RState α → Prop) (Q : Bulk α → Prop) : Prop where
  stop : ∀ g st, G g st → st.slice.window = [] → readBulk o k st = .stop st
  step : ∀ g st, G g st → st.slice.window ≠ [] → ∃ n body st', readBulk o k st = .bulk n body st' ∧ 0 < n ∧
            srcLines body = st.slice.window.take B ∧ st'.slice.window = st.slice.window.drop B ∧
            G (upd g ⟨n, body⟩) st' ∧ Q ⟨n, body⟩

theorem readBatch_spec {o : Oracle} {k : Kind} {B : Nat} {γ : Type} {upd : γ → Bulk α → γ}
    {G : γ → RState α → Prop} {Q : Bulk α → Prop}
    (H : StepSpec o k B upd G Q) (hB : 0 < B) (batchSize : Nat) :
    ∀ (fuel : Nat) (st : RState α) (d : Nat) (g : γ), G g st →
      chunks B st.slice.window =
          (readBatch o k batchSize fuel st d).1.map (fun b => srcLines b.body) ++
            chunks B (readBatch o k batchSize fuel st d).2.slice.window ∧
        G ((readBatch o k batchSize fuel st d).1.foldl upd g) (readBatch o k batchSize fuel st d).2 ∧
        (∀ b ∈ (readBatch o k batchSize fuel st d).1, Q b) ∧
        (readBatch o k batchSize fuel st d).2.slice.window.length + (readBatch o k batchSize fuel st d).1.length
          ≤ st.slice.window.length ∧
        ((readBatch o k batchSize fuel st d).1 = [] → 0 < fuel → d < batchSize →
          (readBatch o k batchSize fuel st d).2.slice.window = []) := by
  intro fuel
  induction fuel with
  | zero =>
    intro st d g hG
    simp only [readBatch, List.map_nil, List.nil_append, List.length_nil, Nat.add_zero, le_refl, true_and, List.foldl_nil]
    exact ⟨hG, by simp, fun _ h => absurd h (by omega)⟩
  | succ fuel ih =>
    intro st d g hG
    by_cases hd : d < batchSize
    · by_cases hw : st.slice.window = []
      · have hs := H.stop g st hG hw
        simp only [readBatch, hd, if_true, hs, List.map_nil, List.nil_append, List.length_nil, Nat.add_zero, le_refl, true_and, List.foldl_nil]
        exact ⟨hG, by simp, fun _ _ _ => hw⟩
      · obtain ⟨n, body, st', hr, hn, hsrc, hwin, hG', hQ⟩ := H.step g st hG hw
        obtain ⟨i1, i2, i3, i4, _⟩ := ih st' (d + n) _ hG'
        have hn0 : n ≠ 0 := by omega
        simp only [readBatch, hd, if_true, hr, hn0, if_false]
        refine ⟨?_, ?_, ?_, ?_, ?_⟩
        · rw [chunks_cons hw hB, List.map_cons, List.cons_append, ← hsrc, ← hwin, i1]
        · simpa only [List.foldl_cons] using i2
        · intro b hb
          rcases List.mem_cons.mp hb with rfl | hb
          · exact hQ
          · exact i3 b hb
        · have : st'.slice.window.length < st.slice.window.length := by
            rw [hwin, List.length_drop]
            have : st.slice.window.length ≠ 0 := fun h0 => hw (List.length_eq_zero_iff.mp h0)
            omega
          simp only [List.length_cons]
          omega
        · intro h; exact absurd h (by simp)
    · simp only [readBatch, hd, if_false, List.map_nil, List.nil_append, List.length_nil, Nat.add_zero, le_refl, true_and, List.foldl_nil]
      exact ⟨hG, by simp, by intro _ _ h; first | exact absurd h hd | exact h.elim⟩

theorem readerBulks_spec {o : Oracle} {k : Kind} {B : Nat} {γ : Type} {upd : γ → Bulk α → γ}
    {G : γ → RState α → Prop} {Q : Bulk α → Prop}
    (H : StepSpec o k B upd G Q) (hB : 0 < B) {batchSize : Nat} (hbatch : 0 < batchSize) :
    ∀ (fuel : Nat) (st : RState α) (g : γ), G g st → st.slice.window.length < fuel →
      (readerBulks o k batchSize fuel st).1.map (fun b => srcLines b.body) = chunks B st.slice.window ∧
        (∀ b ∈ (readerBulks o k batchSize fuel st).1, Q b) ∧
        G ((readerBulks o k batchSize fuel st).1.foldl upd g) (readerBulks o k batchSize fuel st).2 ∧
        (readerBulks o k batchSize fuel st).2.slice.window = [] := by
  intro fuel
  induction fuel with
  | zero => intro st _ _ h; omega
  | succ fuel ih =>
    intro st g hG hlen
    obtain ⟨b1, b2, b3, b4, b5⟩ := readBatch_spec H hB batchSize batchSize st 0 g hG
    cases hrb : readBatch o k batchSize batchSize st 0 with
    | mk l st1 =>
      rw [hrb] at b1 b2 b3 b4 b5
      simp only at b1 b2 b3 b4 b5
      cases l with
      | nil =>
        have hw1 := b5 rfl hbatch hbatch
        simp only [readerBulks, hrb]
        refine ⟨?_, by simp, b2, hw1⟩
        rw [b1, hw1, chunks_nil]; simp
      | cons b bs =>
        simp only [readerBulks, hrb]
        have hl : st1.slice.window.length < fuel := by
          simp only [List.length_cons] at b4; omega
        obtain ⟨j1, j2, j3, j4⟩ := ih st1 _ b2 hl
        refine ⟨?_, ?_, ?_, j4⟩
        · rw [b1, ← j1]; simp
        · intro x hx
          rcases List.mem_append.mp hx with hx | hx
          · exact b3 x hx
          · exact j2 x hx
        · rw [List.foldl_append]; exact j3


/-! ### the three readers, one bulk at a time -/

theorem srcLines_map_src (ls : List α) : srcLines (ls.map Item.src) = ls := by
  induction ls with
  | nil => rfl
  | cons a t ih => simp [srcLines, Item.line] at ih ⊢; exact ih

theorem srcLines_fast (act : Action) (ls : List α) :
    srcLines (ls.flatMap fun d => [Item.am act Option.none, Item.src d]) = ls := by
  induction ls with
  | nil => rfl
  | cons a t ih =>
    simp only [srcLines, List.flatMap_cons, List.filterMap_append] at ih ⊢
    rw [ih]; simp [List.filterMap, Item.line]

theorem slice_next_of_window {s : Slice α} (hB : 0 < s.bulkSize) (hw : s.window ≠ []) :
    ∃ ls s', s.next = some (ls, s') := by
  cases h : s.next with
  | none => exact absurd ((slice_next_none hB).mp h) hw
  | some p => exact ⟨p.1, p.2, rfl⟩

/-- bulks of `_read_bulk_fast`: `docs` (action, document) pairs, at most `B` -/
def FastBulk (act : Action) (B : Nat) (b : Bulk α) : Prop :=
  b.docs = (srcLines b.body).length ∧ b.docs ≤ B ∧
    b.body = (srcLines b.body).flatMap (fun d => [Item.am act Option.none, Item.src d])

theorem fast_stepSpec (o : Oracle) (act : Action) {B : Nat} (hB : 0 < B) :
    StepSpec (α := α) o (.fast act) B (fun (_ : Unit) _ => ())
      (fun _ st => st.crashed = false ∧ st.slice.bulkSize = B) (FastBulk act B) where
  stop := by
    intro _ st ⟨hc, hb⟩ hw
    have := (slice_next_none (by omega : 0 < st.slice.bulkSize)).mpr hw
    simp [readBulk, hc, this]
  step := by
    intro _ st ⟨hc, hb⟩ hw
    obtain ⟨ls, s', hn⟩ := slice_next_of_window (by omega : 0 < st.slice.bulkSize) hw
    obtain ⟨h1, h2, h3, h4⟩ := slice_next_some hn
    refine ⟨ls.length, ls.flatMap (fun d => [Item.am act Option.none, Item.src d]), { st with slice := s' }, by simp [readBulk, hc, hn], ?_, ?_, ?_, ⟨hc, by simpa [hb] using h4⟩, ?_⟩
    · exact List.length_pos_iff.mpr h3
    · rw [srcLines_fast, h1, hb]
    · simpa [hb] using h2
    · refine ⟨by simp [srcLines_fast], ?_, by simp [srcLines_fast]⟩
      simp only [h1, List.length_take, hb]; omega

/-- bulks of the source-only reader: `2·docs` consecutive file lines, at most `bulk` documents -/
def SourceOnlyBulk (bulk : Nat) (b : Bulk α) : Prop :=
  2 * b.docs = (srcLines b.body).length ∧ b.docs ≤ bulk ∧ b.body = (srcLines b.body).map Item.src

theorem sourceOnly_stepSpec (o : Oracle) {bulk : Nat} (hB : 0 < bulk) :
    StepSpec (α := α) o .sourceOnly (bulk * 2) (fun (_ : Unit) _ => ())
      (fun _ st => st.crashed = false ∧ st.slice.bulkSize = bulk * 2 ∧ st.slice.window.length % 2 = 0)
      (SourceOnlyBulk bulk) where
  stop := by
    intro _ st ⟨hc, hb, _⟩ hw
    have := (slice_next_none (by omega : 0 < st.slice.bulkSize)).mpr hw
    simp [readBulk, hc, this]
  step := by
    intro _ st ⟨hc, hb, hev⟩ hw
    obtain ⟨ls, s', hn⟩ := slice_next_of_window (by omega : 0 < st.slice.bulkSize) hw
    obtain ⟨h1, h2, h3, h4⟩ := slice_next_some hn
    have hlen : ls.length = min (bulk * 2) st.slice.window.length := by
      rw [h1, List.length_take, hb]
    have hpos : 0 < st.slice.window.length := List.length_pos_iff.mpr hw
    refine ⟨ls.length / 2, ls.map Item.src, { st with slice := s' }, by simp [readBulk, hc, hn], ?_, ?_, ?_, ⟨hc, by simpa [hb] using h4, ?_⟩, ?_⟩
    · omega
    · rw [srcLines_map_src, h1, hb]
    · simpa [hb] using h2
    · show s'.window.length % 2 = 0
      rw [h2, List.length_drop, hb]; omega
    · refine ⟨?_, ?_, by simp [srcLines_map_src]⟩
      · show 2 * (ls.length / 2) = (srcLines (ls.map Item.src)).length
        rw [srcLines_map_src]; omega
      · show ls.length / 2 ≤ bulk
        omega


/-! ### ids and conflicts -/

/-- the contracts of the `random` module -/
structure OracleOK (o : Oracle) : Prop where
  randint : ∀ k hi, o.randint k hi ≤ hi
  randexp : ∀ k, 0 ≤ o.randexp k
  shuffle : ∀ k l, (o.shuffle k l).Perm l

/-- the `_id` an item of a bulk body carries -/
def Item.emittedId : Item α → Option Int
  | .am _ (some id) => some id
  | _ => none

def idsOf (body : List (Item α)) : List Int := body.filterMap Item.emittedId

/-- `IdTrace ids k E`: `E` is a sequence of emitted ids in which the fresh ids are `ids[0], …, ids[k-1]`,
    each once and in this order, and every other id repeats one of the fresh ids emitted before it -/
inductive IdTrace (ids : List Int) : Nat → List Int → Prop
  | nil : IdTrace ids 0 []
  | fresh {k : Nat} {E : List Int} {id : Int} : IdTrace ids k E → ids[k]? = some id → IdTrace ids (k + 1) (E ++ [id])
  | conflict {k : Nat} {E : List Int} {id : Int} : IdTrace ids k E → id ∈ ids.take k → IdTrace ids k (E ++ [id])

open Dbl in
theorem conflictIdx_range {o : Oracle} (hok : OracleOK o) {g : Gen} (h0 : 0 < g.idUpTo) (h53 : g.idUpTo < 2^53) (c : Cnt) :
    0 ≤ (conflictIdx o g c).1 ∧ (conflictIdx o g c).1 < g.idUpTo := by
  unfold conflictIdx
  split_ifs with hr
  · have := hok.randint c.i (g.idUpTo - 1)
    simp only
    omega
  · simp only []
    set x := o.randexp c.e with hx
    have hx0 : 0 ≤ x := hok.randexp c.e
    set r : ℚ := if 1 < x then 1 else x with hrdef
    have hr0 : 0 ≤ r := by rw [hrdef]; split_ifs <;> linarith
    have hr1 : r ≤ 1 := by rw [hrdef]; split_ifs <;> linarith
    have hy0 : 0 ≤ fsub 1 r := fl_nonneg (by linarith)
    have hy1 : fsub 1 r ≤ 1 := by
      have := fl_le_nat (n := 1) (by norm_num) (by linarith : (0:ℚ) ≤ 1 - r) (by push_cast; linarith)
      simpa [fsub] using this
    have hK : ((g.idUpTo : ℤ) - 1 : ℤ) = ((g.idUpTo - 1 : ℕ) : ℤ) := by omega
    have hKlt : g.idUpTo - 1 < 2^53 := by omega
    have hof : ofInt ((g.idUpTo : ℤ) - 1) = ((g.idUpTo - 1 : ℕ) : ℚ) := by
      unfold ofInt; rw [hK]; exact fl_intCast_nat hKlt
    rw [hof]
    have hK0 : (0:ℚ) ≤ ((g.idUpTo - 1 : ℕ) : ℚ) := by positivity
    have hp0 : 0 ≤ ((g.idUpTo - 1 : ℕ) : ℚ) * fsub 1 r := mul_nonneg hK0 hy0
    have hp1 : ((g.idUpTo - 1 : ℕ) : ℚ) * fsub 1 r ≤ ((g.idUpTo - 1 : ℕ) : ℚ) := by nlinarith
    have hf0 : 0 ≤ fmul ((g.idUpTo - 1 : ℕ) : ℚ) (fsub 1 r) := fl_nonneg hp0
    have hf1 : fmul ((g.idUpTo - 1 : ℕ) : ℚ) (fsub 1 r) ≤ ((g.idUpTo - 1 : ℕ) : ℚ) := fl_le_nat hKlt hp0 hp1
    have r0 := rhe_nonneg hf0
    have r1 := rhe_mono hf1
    rw [show (((g.idUpTo - 1 : ℕ) : ℚ)) = (((g.idUpTo - 1 : ℕ) : ℤ) : ℚ) by push_cast; rfl, rhe_intCast] at r1
    constructor
    · exact r0
    · have : rhe (fmul (((g.idUpTo - 1 : ℕ) : ℤ) : ℚ) (fsub 1 r)) ≤ ((g.idUpTo - 1 : ℕ) : ℤ) := r1
      have e : (((g.idUpTo - 1 : ℕ) : ℤ) : ℚ) = ((g.idUpTo - 1 : ℕ) : ℚ) := by push_cast; rfl
      rw [e] at this
      omega


theorem pyGet_of_lt {l : List Int} {i : Int} {k : Nat} (h0 : 0 ≤ i) (h1 : i < k) (hk : k ≤ l.length) :
    ∃ id, pyGet l i = some id ∧ id ∈ l.take k := by
  have hlt : i.toNat < l.length := by omega
  refine ⟨l[i.toNat], ?_, ?_⟩
  · unfold pyGet; rw [if_pos h0]; exact List.getElem?_eq_getElem hlt
  · have h2 : i.toNat < (l.take k).length := by rw [List.length_take]; omega
    have : (l.take k)[i.toNat] = l[i.toNat] := List.getElem_take
    rw [← this]; exact List.getElem_mem h2

/-- one call of `next()` on a generator that still has a fresh id left -/
theorem gen_next_spec {o : Oracle} (hok : OracleOK o) {g : Gen} {ids : List Int} (hids : g.ids = some ids)
    (hroom : g.idUpTo < ids.length) (h53 : ids.length < 2^53) (c : Cnt) :
    ∃ act id conf k' c', g.next o c = .item act (some id) conf { g with idUpTo := k' } c' ∧
      ((k' = g.idUpTo ∧ id ∈ ids.take g.idUpTo) ∨ (k' = g.idUpTo + 1 ∧ ids[g.idUpTo]? = some id ∧ act = .index)) := by
  obtain ⟨gids, prob, onUpdate, recency, useCreate, idUpTo⟩ := g
  simp only at hids hroom ⊢
  subst hids
  unfold Gen.next
  simp only []
  by_cases hconf : (decide (prob ≠ 0) && decide (0 < idUpTo) && decide (o.rand c.r ≤ prob)) = true
  · rw [if_pos hconf]
    have h0 : 0 < idUpTo := by
      simp only [Bool.and_eq_true, decide_eq_true_eq] at hconf; exact hconf.1.2
    have hr := fun c' => conflictIdx_range hok (g := ⟨some ids, prob, onUpdate, recency, useCreate, idUpTo⟩) h0
      (by simp only; omega) c'
    generalize hX : conflictIdx o _ _ = ic
    have hic : 0 ≤ ic.1 ∧ ic.1 < idUpTo := by rw [← hX]; exact hr _
    obtain ⟨id, hget, hmem⟩ := pyGet_of_lt hic.1 hic.2 (le_of_lt hroom)
    rw [hget]
    exact ⟨_, id, true, idUpTo, _, rfl, Or.inl ⟨rfl, hmem⟩⟩
  · have hn : ¬ ids.length ≤ idUpTo := by omega
    have hget := List.getElem?_eq_getElem hroom
    rw [if_neg hconf, if_neg hn, hget]
    exact ⟨_, ids[idUpTo], false, idUpTo + 1, _, rfl, Or.inr ⟨rfl, rfl, rfl⟩⟩

/-- generated action lines alternate with document lines -/
def Paired : List (Item α) → Prop
  | [] => True
  | Item.am _ _ :: x :: rest => x.line.isSome = true ∧ Paired rest
  | _ => False

/-- the `for doc in docs` loop: never stops, never crashes; every document keeps its place after a
    generated action line; the id trace is extended -/
theorem regularItems_spec {o : Oracle} (hok : OracleOK o) {ids : List Int} (h53 : ids.length < 2^53) :
    ∀ (ls : List α) (g : Gen) (c : Cnt) (E : List Int), g.ids = some ids → g.idUpTo + ls.length ≤ ids.length →
      IdTrace ids g.idUpTo E →
      ∃ items k' c', regularItems o ls g c = .done items { g with idUpTo := k' } c' ∧ srcLines items = ls ∧
        g.idUpTo ≤ k' ∧ k' ≤ g.idUpTo + ls.length ∧ IdTrace ids k' (E ++ idsOf items) ∧ Paired items ∧
        items.length = 2 * ls.length := by
  intro ls
  induction ls with
  | nil =>
    intro g c E _ _ hT
    exact ⟨[], g.idUpTo, c, rfl, rfl, le_refl _, by simp, by simpa [idsOf] using hT, trivial, rfl⟩
  | cons d ds ih =>
    intro g c E hids hroom hT
    simp only [List.length_cons] at hroom
    obtain ⟨act, id, conf, k1, c1, hnext, hcase⟩ := gen_next_spec hok hids (by omega) h53 c
    have hk1 : g.idUpTo ≤ k1 ∧ k1 ≤ g.idUpTo + 1 := by rcases hcase with ⟨h, _⟩ | ⟨h, _⟩ <;> omega
    have hT1 : IdTrace ids k1 (E ++ [id]) := by
      rcases hcase with ⟨h, hm⟩ | ⟨h, hg, _⟩
      · rw [h]; exact IdTrace.conflict hT hm
      · rw [h]; exact IdTrace.fresh hT hg
    obtain ⟨items, k2, c2, hrec, hsrc, hle1, hle2, hT2, hP, hlen⟩ :=
      ih { g with idUpTo := k1 } c1 (E ++ [id]) hids (by simp only; omega) hT1
    refine ⟨Item.am act (some id) :: (if act = .update then Item.upd d else Item.src d) :: items, k2, c2, ?_, ?_, ?_, ?_, ?_, ?_, ?_⟩
    · simp only [regularItems, hnext, hrec]
    · simp only [srcLines, List.filterMap_cons, Item.line] at hsrc ⊢
      split_ifs <;> simp [Item.line, hsrc]
    · simp only at hle1; omega
    · simp only at hle2; simp only [List.length_cons]; omega
    · have : idsOf (Item.am act (some id) :: (if act = .update then Item.upd d else Item.src d) :: items) = id :: idsOf items := by
        simp only [idsOf, List.filterMap_cons, Item.emittedId]
        split_ifs <;> simp [Item.emittedId]
      rw [this]
      simpa using hT2
    · refine ⟨?_, hP⟩
      split_ifs <;> simp [Item.line]
    · simp only [List.length_cons, hlen]; omega

/-- bulks of `_read_bulk_regular` -/
def RegularBulk (B : Nat) (b : Bulk α) : Prop :=
  b.docs = (srcLines b.body).length ∧ b.docs ≤ B ∧ Paired b.body ∧ b.body.length = 2 * b.docs

theorem regular_stepSpec {o : Oracle} (hok : OracleOK o) {ids : List Int} (h53 : ids.length < 2^53) {B : Nat} (hB : 0 < B) :
    StepSpec (α := α) o .regular B (fun (E : List Int) b => E ++ idsOf b.body)
      (fun E st => st.crashed = false ∧ st.slice.bulkSize = B ∧ st.gen.ids = some ids ∧
        st.gen.idUpTo + st.slice.window.length ≤ ids.length ∧ IdTrace ids st.gen.idUpTo E) (RegularBulk B) where
  stop := by
    intro _ st ⟨hc, hb, _⟩ hw
    have := (slice_next_none (by omega : 0 < st.slice.bulkSize)).mpr hw
    simp [readBulk, hc, this]
  step := by
    intro E st ⟨hc, hb, hids, hroom, hT⟩ hw
    obtain ⟨ls, s', hn⟩ := slice_next_of_window (by omega : 0 < st.slice.bulkSize) hw
    obtain ⟨h1, h2, h3, h4⟩ := slice_next_some hn
    have hlen : ls.length = min B st.slice.window.length := by rw [h1, List.length_take, hb]
    obtain ⟨items, k', c', hri, hsrc, hk1, hk2, hT', hP, hil⟩ :=
      regularItems_spec hok h53 ls st.gen st.cnt E hids (by omega) hT
    refine ⟨ls.length, items, { st with slice := s', gen := { st.gen with idUpTo := k' }, cnt := c' }, ?_, ?_, ?_, ?_, ?_, ?_⟩
    · simp [readBulk, hc, hn, hri]
    · exact List.length_pos_iff.mpr h3
    · rw [hsrc, h1, hb]
    · simpa [hb] using h2
    · refine ⟨hc, by simpa [hb] using h4, hids, ?_, hT'⟩
      show k' + s'.window.length ≤ ids.length
      rw [h2, List.length_drop, hb]; omega
    · exact ⟨by simp [hsrc], by show ls.length ≤ B; omega, hP, hil⟩


/-! ### properties of `chunks` -/

theorem chunks_induct {B : Nat} (hB : 0 < B) {P : List α → Prop} (h0 : P [])
    (hs : ∀ w, w ≠ [] → P (w.drop B) → P w) : ∀ w, P w := by
  intro w
  induction hn : w.length using Nat.strong_induction_on generalizing w with
  | _ n ih =>
    by_cases hw : w = []
    · rw [hw]; exact h0
    · apply hs w hw
      apply ih (w.drop B).length _ _ rfl
      rw [List.length_drop, ← hn]
      have : w.length ≠ 0 := fun h => hw (List.length_eq_zero_iff.mp h)
      omega

theorem chunks_flatten {B : Nat} (hB : 0 < B) (w : List α) : (chunks B w).flatten = w := by
  induction w using chunks_induct hB with
  | h0 => rw [chunks_nil]; rfl
  | hs w hw ih => rw [chunks_cons hw hB, List.flatten_cons, ih, List.take_append_drop]

theorem chunks_mem {B : Nat} (hB : 0 < B) (w : List α) : ∀ c ∈ chunks B w, c ≠ [] ∧ c.length ≤ B := by
  induction w using chunks_induct hB with
  | h0 => rw [chunks_nil]; simp
  | hs w hw ih =>
    rw [chunks_cons hw hB]
    intro c hc
    rcases List.mem_cons.mp hc with rfl | hc
    · constructor
      · intro h; rw [List.take_eq_nil_iff] at h; rcases h with h | h
        · omega
        · exact hw h
      · rw [List.length_take]; omega
    · exact ih c hc

theorem chunks_length {B : Nat} (hB : 0 < B) (w : List α) : (chunks B w).length = (w.length + B - 1) / B := by
  induction w using chunks_induct hB with
  | h0 =>
    rw [chunks_nil]; simp only [List.length_nil, Nat.zero_add]
    exact (Nat.div_eq_of_lt (by omega)).symm
  | hs w hw ih =>
    rw [chunks_cons hw hB, List.length_cons, ih, List.length_drop]
    have hpos : 0 < w.length := List.length_pos_iff.mpr hw
    by_cases h : B ≤ w.length
    · have : w.length + B - 1 = (w.length - B + B - 1) + B := by omega
      rw [this, Nat.add_div_right _ hB]
    · have h1 : w.length - B = 0 := by omega
      rw [h1]
      have : (0 + B - 1) / B = 0 := Nat.div_eq_of_lt (by omega)
      rw [this]
      have : (w.length + B - 1) / B = 1 := by
        apply Nat.div_eq_of_lt_le <;> omega
      rw [this]

theorem chunks_mem_drop_take {B : Nat} (hB : 0 < B) (w : List α) :
    ∀ c ∈ chunks B w, ∃ i, c = (w.drop (i * B)).take B := by
  induction w using chunks_induct hB with
  | h0 => rw [chunks_nil]; simp
  | hs w hw ih =>
    rw [chunks_cons hw hB]
    intro c hc
    rcases List.mem_cons.mp hc with rfl | hc
    · exact ⟨0, by simp⟩
    · obtain ⟨i, hi⟩ := ih c hc
      refine ⟨i + 1, ?_⟩
      rw [hi, List.drop_drop]
      congr 2
      ring

/-! ### one reader, completely -/

def BulkOK (k : Kind) (bulk : Nat) (b : Bulk α) : Prop :=
  match k with
  | .sourceOnly => SourceOnlyBulk bulk b
  | .fast act => FastBulk act bulk b
  | .regular => RegularBulk bulk b

/-- what `create_default_reader` guarantees about the reader it builds -/
def Reader.OK (bulk : Nat) (r : Reader α) : Prop :=
  match r.kind with
  | .sourceOnly => r.slice.bulkSize = bulk * 2 ∧ r.slice.window.length % 2 = 0
  | .fast _ => r.slice.bulkSize = bulk
  | .regular => r.slice.bulkSize = bulk ∧ ∃ ids, r.gen.ids = some ids ∧ r.gen.idUpTo = 0 ∧
      r.slice.window.length ≤ ids.length ∧ ids.length < 2^53

theorem window_length_le (s : Slice α) : s.window.length ≤ s.numberOfLines := by
  unfold Slice.window; rw [List.length_take]; omega

theorem foldl_idsOf (bs : List (Bulk α)) (E : List Int) :
    bs.foldl (fun E b => E ++ idsOf b.body) E = E ++ idsOf (bs.flatMap (·.body)) := by
  induction bs generalizing E with
  | nil => simp [idsOf]
  | cons b t ih =>
    rw [List.foldl_cons, ih]
    simp [idsOf, List.flatMap_cons, List.filterMap_append]

theorem reader_spec {o : Oracle} (hok : OracleOK o) {bulk batch : Nat} (hbulk : 0 < bulk) (hbatch : 0 < batch)
    {r : Reader α} (hr : r.OK bulk) (c : Cnt) :
    (readerBulks o r.kind batch (r.slice.numberOfLines + 1) ⟨r.slice, r.gen, c, false⟩).1.map (fun b => srcLines b.body)
        = chunks r.slice.bulkSize r.slice.window ∧
      (∀ b ∈ (readerBulks o r.kind batch (r.slice.numberOfLines + 1) ⟨r.slice, r.gen, c, false⟩).1, BulkOK r.kind bulk b) ∧
      (readerBulks o r.kind batch (r.slice.numberOfLines + 1) ⟨r.slice, r.gen, c, false⟩).2.crashed = false ∧
      (∀ ids, r.gen.ids = some ids → r.kind = .regular →
        ∃ k, IdTrace ids k (idsOf ((readerBulks o r.kind batch (r.slice.numberOfLines + 1) ⟨r.slice, r.gen, c, false⟩).1.flatMap (·.body)))) := by
  have hfuel : (⟨r.slice, r.gen, c, false⟩ : RState α).slice.window.length < r.slice.numberOfLines + 1 := by
    have := window_length_le r.slice
    simp only; omega
  unfold Reader.OK at hr
  cases hk : r.kind with
  | sourceOnly =>
    rw [hk] at hr
    obtain ⟨hb, hev⟩ := hr
    obtain ⟨h1, h2, h3, _⟩ := readerBulks_spec (sourceOnly_stepSpec (α := α) o hbulk) (by omega) hbatch
      (r.slice.numberOfLines + 1) ⟨r.slice, r.gen, c, false⟩ () ⟨rfl, hb, hev⟩ hfuel
    rw [hb]
    exact ⟨h1, h2, h3.1, fun _ _ h => by cases h⟩
  | fast act =>
    rw [hk] at hr
    obtain ⟨h1, h2, h3, _⟩ := readerBulks_spec (fast_stepSpec (α := α) o act hbulk) hbulk hbatch
      (r.slice.numberOfLines + 1) ⟨r.slice, r.gen, c, false⟩ () ⟨rfl, hr⟩ hfuel
    rw [hr]
    exact ⟨h1, h2, h3.1, fun _ _ h => by cases h⟩
  | regular =>
    rw [hk] at hr
    obtain ⟨hb, ids, hids, h0, hlen, h53⟩ := hr
    obtain ⟨h1, h2, h3, _⟩ := readerBulks_spec (regular_stepSpec (α := α) hok h53 hbulk) hbulk hbatch
      (r.slice.numberOfLines + 1) ⟨r.slice, r.gen, c, false⟩ [] ⟨rfl, hb, hids, by simp only; omega, by simp only; rw [h0]; exact IdTrace.nil⟩ hfuel
    rw [hb]
    refine ⟨h1, h2, h3.1, ?_⟩
    intro ids' hids' _
    rw [hids] at hids'
    cases hids'
    obtain ⟨_, _, _, _, hT⟩ := h3
    rw [foldl_idsOf, List.nil_append] at hT
    exact ⟨_, hT⟩


/-! ## 3. cuttings of the clients and tilings of a file -/

/-- `Cut a n rs`: `rs` are consecutive client ranges `(start, end)` that cut `a, a+1, …, n-1` -/
inductive Cut : Nat → Nat → List (Nat × Nat) → Prop
  | nil (n : Nat) : Cut n n []
  | cons {a e n : Nat} {rest : List (Nat × Nat)} : a ≤ e → e < n → Cut (e + 1) n rest → Cut a n ((a, e) :: rest)

/-- `Tiles a b l`: the `(offset, length)` pairs `l` are consecutive, non-negative and cover `[a, b)` exactly -/
inductive Tiles : Int → Int → List (Int × Int) → Prop
  | nil (a : Int) : Tiles a a []
  | cons {a b len : Int} {rest : List (Int × Int)} : 0 ≤ len → Tiles (a + len) b rest → Tiles a b ((a, len) :: rest)

theorem Cut.le {a n : Nat} {rs : List (Nat × Nat)} (h : Cut a n rs) : a ≤ n := by
  induction h with
  | nil => exact le_refl _
  | cons h1 h2 _ ih => omega

theorem Tiles.le {a b : Int} {l : List (Int × Int)} (h : Tiles a b l) : a ≤ b := by
  induction h with
  | nil => exact le_refl _
  | cons h1 _ ih => omega

theorem Tiles.sum {a b : Int} {l : List (Int × Int)} (h : Tiles a b l) : a + (l.map (·.2)).sum = b := by
  induction h with
  | nil => simp
  | cons h1 _ ih => simp only [List.map_cons, List.sum_cons]; omega

/-- disjoint and covering: every position of `[a, b)` lies in exactly one tile, every other position in none -/
theorem Tiles.countP {a b : Int} {l : List (Int × Int)} (h : Tiles a b l) (x : Int) :
    l.countP (fun t => decide (t.1 ≤ x ∧ x < t.1 + t.2)) = if a ≤ x ∧ x < b then 1 else 0 := by
  induction h with
  | nil a => simp only [List.countP_nil]; split_ifs with h <;> omega
  | @cons a b len rest h1 hr ih =>
    have := hr.le
    rw [List.countP_cons, ih]
    simp only [decide_eq_true_eq]
    split_ifs <;> omega

/-- reading the tiles of a file one after the other reads the file range `[a, b)` once, in order -/
theorem Tiles.flatMap_drop_take {a b : Int} {l : List (Int × Int)} (h : Tiles a b l) (ha : 0 ≤ a) (file : List α) :
    l.flatMap (fun t => (file.drop t.1.toNat).take t.2.toNat) = (file.drop a.toNat).take (b - a).toNat := by
  induction h with
  | nil a => simp
  | @cons a b len rest h1 hr ih =>
    have hle := hr.le
    rw [List.flatMap_cons, ih (by omega)]
    have e1 : (b - a).toNat = len.toNat + (b - (a + len)).toNat := by omega
    have e2 : (a + len).toNat = a.toNat + len.toNat := by omega
    rw [e1, List.take_add, e2, ← List.drop_drop]

def lpd (withMeta : Bool) : Int := if withMeta then 2 else 1

theorem tiles_of_cut {fl : ℚ → ℚ} (S : FlSpec fl) (T n : Nat) (m : Bool) {a : Nat} {rs : List (Nat × Nat)} (h : Cut a n rs) :
    Tiles (offDocsWith fl T n a * lpd m) (offDocsWith fl T n n * lpd m)
      (rs.map fun r => ((boundsWith fl T r.1 r.2 n m).1, (boundsWith fl T r.1 r.2 n m).2.2)) := by
  induction h with
  | nil n => exact Tiles.nil _
  | @cons a e n rest h1 h2 hc ih =>
    simp only [List.map_cons]
    have hm := S.off_mono T n (show a ≤ e + 1 by omega)
    have hl : (0 : Int) ≤ lpd m := by unfold lpd; split_ifs <;> omega
    have e0 : (boundsWith fl T a e n m).1 = offDocsWith fl T n a * lpd m := rfl
    have e1 : (boundsWith fl T a e n m).2.2 = (offDocsWith fl T n (e + 1) - offDocsWith fl T n a) * lpd m := rfl
    rw [e0, e1]
    refine Tiles.cons (mul_nonneg (by omega) hl) ?_
    have : offDocsWith fl T n a * lpd m + (offDocsWith fl T n (e + 1) - offDocsWith fl T n a) * lpd m
        = offDocsWith fl T n (e + 1) * lpd m := by ring
    rw [this]; exact ih


/-! ## 4. staggering, reader construction, the bulks of one worker -/

theorem heads_tails_perm {ρ : Type} (qs : List (List ρ)) : (heads qs ++ (tails qs).flatten).Perm qs.flatten := by
  induction qs with
  | nil => simp [heads, tails]
  | cons q qs ih =>
    cases q with
    | nil => simpa [heads, tails] using ih
    | cons r q =>
      simp only [heads, tails, List.flatten_cons, List.cons_append]
      refine List.Perm.cons r ?_
      calc (heads qs ++ (q ++ (tails qs).flatten)).Perm (q ++ (heads qs ++ (tails qs).flatten)) := by
            rw [← List.append_assoc, ← List.append_assoc]
            exact List.Perm.append_right _ List.perm_append_comm
        _ |>.Perm (q ++ qs.flatten) := List.Perm.append_left q ih

theorem total_heads_tails {ρ : Type} (qs : List (List ρ)) : total (tails qs) + (heads qs).length = total qs := by
  induction qs with
  | nil => simp [heads, tails, total]
  | cons q qs ih =>
    cases q with
    | nil => simpa [heads, tails, total] using ih
    | cons r q => simp only [heads, tails, total, List.map_cons, List.sum_cons, List.length_cons] at ih ⊢; omega

theorem heads_ne_nil {ρ : Type} (qs : List (List ρ)) (h : total qs ≠ 0) : heads qs ≠ [] := by
  induction qs with
  | nil => simp [total] at h
  | cons q qs ih =>
    cases q with
    | nil => simp only [heads]; apply ih; simpa [total] using h
    | cons r q => simp [heads]

theorem flatten_of_total_zero {ρ : Type} (qs : List (List ρ)) (h : total qs = 0) : qs.flatten = [] := by
  induction qs with
  | nil => rfl
  | cons q qs ih =>
    simp only [total, List.map_cons, List.sum_cons] at h
    have hq : q = [] := List.length_eq_zero_iff.mp (by omega)
    rw [List.flatten_cons, hq, ih (by simp only [total]; omega)]; rfl

/-- the round-robin order is a permutation of all readers -/
theorem stagger_perm {ρ : Type} : ∀ (fuel : Nat) (qs : List (List ρ)), total qs ≤ fuel → (stagger fuel qs).Perm qs.flatten := by
  intro fuel
  induction fuel with
  | zero =>
    intro qs h
    rw [flatten_of_total_zero qs (by omega)]; simp [stagger]
  | succ fuel ih =>
    intro qs h
    simp only [stagger]
    split_ifs with h0
    · rw [flatten_of_total_zero qs h0]
    · have h1 := total_heads_tails qs
      have h2 : (heads qs).length ≠ 0 := fun hh => heads_ne_nil qs h0 (List.length_eq_zero_iff.mp hh)
      exact (List.Perm.append_left _ (ih (tails qs) (by omega))).trans (heads_tails_perm qs)

theorem rotate_perm {β : Type} (l : List β) (k : Nat) : (rotate l k).Perm l := by
  unfold rotate
  exact List.perm_append_comm.trans (by rw [List.take_append_drop])

/-- the share of the clients `s..e` (of `n`) of a document set: a contiguous range of its file -/
def sliceOf (n s e : Nat) (d : DocSet α) : List α :=
  (d.lines.drop (bounds d.numDocs s e n d.withMeta).1.toNat).take (bounds d.numDocs s e n d.withMeta).2.2.toNat

/-- the document set gets a reader (`if num_docs > 0`) -/
def hasShare (n s e : Nat) (d : DocSet α) : Bool := decide (0 < (bounds d.numDocs s e n d.withMeta).2.1)

/-- files are as declared: at most 2^50 documents, one line (two with action lines) per document -/
def DocSet.WF (d : DocSet α) : Prop :=
  d.numDocs ≤ 2^50 ∧ d.lines.length = d.numDocs * (if d.withMeta = true then 2 else 1)

/-- number of `__next__`-bulks a reader produces: ⌈window / bulk size⌉ -/
def readerCount (r : Reader α) : Nat := (r.slice.window.length + r.slice.bulkSize - 1) / r.slice.bulkSize

/-- `number_of_bulks`' term for one document set -/
def shareBulks (n s e bulk : Nat) (d : DocSet α) : Nat := (bulksOf (bounds d.numDocs s e n d.withMeta).2.1 bulk).toNat

theorem ceil_div_scale (L b D : Nat) (hL : 0 < L) (hb : 0 < b) :
    (L * D + L * b - 1) / (L * b) = D / b + (if D % b > 0 then 1 else 0) := by
  have hD := Nat.div_add_mod D b
  set q := D / b with hq
  set r := D % b with hr
  have hrb : r < b := Nat.mod_lt D hb
  have hLb : 0 < L * b := Nat.mul_pos hL hb
  have e1 : L * D = L * b * q + L * r := by rw [← hD]; ring
  have hLr : L * r < L * b := Nat.mul_lt_mul_of_pos_left hrb hL
  split_ifs with h
  · apply Nat.div_eq_of_lt_le
    · have : (q + 1) * (L * b) = L * b * q + L * b := by ring
      have h1 : L * 1 ≤ L * r := Nat.mul_le_mul_left L h
      omega
    · have : (q + 1 + 1) * (L * b) = L * b * q + L * b + L * b := by ring
      omega
  · have hr0 : r = 0 := by omega
    apply Nat.div_eq_of_lt_le
    · have : (q + 0) * (L * b) = L * b * q := by ring
      rw [hr0] at e1
      omega
    · have : (q + 0 + 1) * (L * b) = L * b * q + L * b := by ring
      rw [hr0] at e1
      omega

theorem bulksOf_natCast (D b : Nat) : bulksOf (D : Int) b = ((D / b + (if D % b > 0 then 1 else 0) : Nat) : Int) := by
  unfold bulksOf
  push_cast
  congr 1
  have : ((D : Int) % (b : Int) > 0) ↔ (D % b > 0) := by
    rw [← Int.natCast_mod]; exact_mod_cast Iff.rfl
  split_ifs with h1 h2 h2
  · rfl
  · exact absurd (this.mp h1) h2
  · exact absurd (this.mpr h2) h1
  · rfl


theorem count_of_window {L bulk : Nat} (hL : 0 < L) (hb : 0 < bulk) {docs : Int} (hd : 0 ≤ docs) :
    ((docs * (L : Int)).toNat + bulk * L - 1) / (bulk * L) = (bulksOf docs bulk).toNat := by
  obtain ⟨D, rfl⟩ := Int.eq_ofNat_of_zero_le hd
  rw [bulksOf_natCast, Int.toNat_natCast]
  have : ((D : Int) * (L : Int)).toNat = L * D := by
    rw [← Int.natCast_mul, Int.toNat_natCast, Nat.mul_comm]
  rw [this, Nat.mul_comm bulk L]
  exact ceil_div_scale L bulk D hL hb

theorem off_facts {T n s e : Nat} (hn : 1 ≤ n) (hs : s ≤ e) (he : e < n) (hT : T ≤ 2^50) :
    0 ≤ offDocsWith Dbl.fl T n s ∧ offDocsWith Dbl.fl T n s ≤ offDocsWith Dbl.fl T n (e + 1) ∧
      offDocsWith Dbl.fl T n (e + 1) ≤ T := by
  have S := dbl_flSpec
  have h1 := S.off_mono T n (show e + 1 ≤ n by omega)
  rw [S.off_total hn hT] at h1
  exact ⟨S.off_nonneg T n s, S.off_mono T n (by omega), h1⟩

theorem docs_le_total {T n s e : Nat} (hn : 1 ≤ n) (he : e < n) (hT : T ≤ 2^50) (m : Bool) :
    (bounds T s e n m).2.1 ≤ T := by
  have S := dbl_flSpec
  have h1 := S.off_mono T n (show e + 1 ≤ n by omega)
  have h2 := S.off_nonneg T n s
  have h3 := S.off_total hn hT
  show offDocsWith Dbl.fl T n (e + 1) - offDocsWith Dbl.fl T n s ≤ T
  omega

theorem createDefaultReader_spec {o : Oracle} (hok : OracleOK o) (cfg : Cfg) (hbulk : 0 < cfg.bulkSize) {n s e : Nat}
    (hn : 1 ≤ n) (hs : s ≤ e) (he : e < n)
    {d : DocSet α} (hd : d.WF) (hshare : 0 < (bounds d.numDocs s e n d.withMeta).2.1) {sc sc' : Nat} {r : Reader α}
    (h : createDefaultReader o cfg d (bounds d.numDocs s e n d.withMeta).1 (bounds d.numDocs s e n d.withMeta).2.2
      (bounds d.numDocs s e n d.withMeta).2.1 sc = .ok (r, sc')) :
    r.slice.window = sliceOf n s e d ∧ r.OK cfg.bulkSize ∧ readerCount r = shareBulks n s e cfg.bulkSize d := by
  obtain ⟨f0, f1, f2⟩ := off_facts hn hs he hd.1
  have h50 : ((d.numDocs : Nat) : Int) ≤ 2^50 := by exact_mod_cast hd.1
  have hb21 : (bounds d.numDocs s e n d.withMeta).2.1
      = offDocsWith Dbl.fl d.numDocs n (e + 1) - offDocsWith Dbl.fl d.numDocs n s := rfl
  have hb22 : (bounds d.numDocs s e n d.withMeta).2.2
      = (bounds d.numDocs s e n d.withMeta).2.1 * (if d.withMeta = true then (2:Int) else 1) := rfl
  have hb1 : (bounds d.numDocs s e n d.withMeta).1
      = offDocsWith Dbl.fl d.numDocs n s * (if d.withMeta = true then (2:Int) else 1) := rfl
  have hlen := hd.2
  unfold createDefaultReader at h
  simp only [] at h
  by_cases h1 : (d.dataStream && decide (cfg.conflicts ≠ Conflicts.none)) = true
  · rw [if_pos h1] at h; cases h
  rw [if_neg h1] at h
  by_cases h2 : d.withMeta = true
  · -- action lines in the file
    rw [if_pos h2] at h
    simp only [Except.ok.injEq, Prod.mk.injEq] at h
    obtain ⟨rfl, _⟩ := h
    rw [if_pos h2] at hb22 hb1 hlen
    have hwl : (List.take ((bounds d.numDocs s e n d.withMeta).2.2.toNat - 0)
        (List.drop (bounds d.numDocs s e n d.withMeta).1.toNat d.lines)).length
          = ((bounds d.numDocs s e n d.withMeta).2.1 * ((2:Nat):Int)).toNat := by
      rw [List.length_take, List.length_drop, hb22, hb1, hlen]; push_cast; omega
    refine ⟨by simp [Slice.window, sliceOf], ?_, ?_⟩
    · simp only [Reader.OK, Slice.window, true_and]
      rw [hwl]; push_cast; omega
    · simp only [readerCount, Slice.window, shareBulks]
      rw [hwl]
      exact count_of_window (by norm_num) hbulk (le_of_lt hshare)
  · rw [if_neg h2] at h hb22 hb1 hlen
    simp only [Except.ok.injEq, Prod.mk.injEq] at h
    obtain ⟨rfl, _⟩ := h
    have e2 : (bounds d.numDocs s e n d.withMeta).2.2 = (bounds d.numDocs s e n d.withMeta).2.1 := by omega
    have hlt : (bounds d.numDocs s e n d.withMeta).2.1.toNat < 2^53 := by
      have : (2:Int)^50 < 2^53 := by norm_num
      have : ((bounds d.numDocs s e n d.withMeta).2.1.toNat : Int) < 2^53 := by omega
      exact_mod_cast this
    have hwl : (List.take ((bounds d.numDocs s e n d.withMeta).2.2.toNat - 0)
        (List.drop (bounds d.numDocs s e n d.withMeta).1.toNat d.lines)).length
          = ((bounds d.numDocs s e n d.withMeta).2.1 * ((1:Nat):Int)).toNat := by
      rw [List.length_take, List.length_drop, hb22, hb1, hlen]; push_cast; omega
    refine ⟨by simp [Slice.window, sliceOf], ?_, ?_⟩
    · cases hc : cfg.conflicts with
      | none => simp [Reader.OK, buildConflictingIds]
      | sequential =>
        simp only [Reader.OK, buildConflictingIds, Option.isSome_some, if_true, mkGen, true_and]
        refine ⟨_, rfl, ?_, ?_⟩
        · simp only [Slice.window, List.length_take, List.length_map, List.length_range, Nat.sub_zero, e2]; omega
        · simpa only [List.length_map, List.length_range] using hlt
      | random =>
        simp only [Reader.OK, buildConflictingIds, Option.isSome_some, if_true, mkGen, true_and]
        refine ⟨_, rfl, ?_, ?_⟩
        · rw [(hok.shuffle _ _).length_eq]
          simp only [Slice.window, List.length_take, List.length_map, List.length_range, Nat.sub_zero, e2]; omega
        · rw [(hok.shuffle _ _).length_eq]
          simpa only [List.length_map, List.length_range] using hlt
    · simp only [readerCount, Slice.window, shareBulks]
      rw [hwl]
      have := count_of_window (L := 1) (by norm_num) hbulk (le_of_lt hshare)
      simpa using this

theorem corpusReaders_spec {o : Oracle} (hok : OracleOK o) (cfg : Cfg) (hbulk : 0 < cfg.bulkSize) {n s e : Nat}
    (hn : 1 ≤ n) (hs : s ≤ e) (he : e < n) :
    ∀ (corpus : Corpus α) (sc sc' : Nat) (rs : List (Reader α)), (∀ d ∈ corpus, d.WF) →
      corpusReaders o cfg n s e corpus sc = .ok (rs, sc') →
      rs.map (·.slice.window) = (corpus.filter (hasShare n s e)).map (sliceOf n s e) ∧
        rs.map readerCount = (corpus.filter (hasShare n s e)).map (shareBulks n s e cfg.bulkSize) ∧
        ∀ r ∈ rs, r.OK cfg.bulkSize := by
  intro corpus
  induction corpus with
  | nil =>
    intro sc sc' rs _ h
    simp only [corpusReaders, Except.ok.injEq, Prod.mk.injEq] at h
    obtain ⟨rfl, _⟩ := h
    simp
  | cons d ds ih =>
    intro sc sc' rs hwf h
    have hd := hwf d (List.mem_cons_self ..)
    have hds : ∀ x ∈ ds, x.WF := fun x hx => hwf x (List.mem_cons_of_mem _ hx)
    unfold corpusReaders at h
    simp only [] at h
    by_cases hp : 0 < (bounds d.numDocs s e n d.withMeta).2.1
    · rw [if_pos hp] at h
      cases hc : createDefaultReader o cfg d (bounds d.numDocs s e n d.withMeta).1 (bounds d.numDocs s e n d.withMeta).2.2
          (bounds d.numDocs s e n d.withMeta).2.1 sc with
      | error err => rw [hc] at h; cases h
      | ok p =>
        obtain ⟨r, sc1⟩ := p
        rw [hc] at h
        simp only at h
        cases hr : corpusReaders o cfg n s e ds sc1 with
        | error err => rw [hr] at h; cases h
        | ok q =>
          obtain ⟨rs', sc2⟩ := q
          rw [hr] at h
          simp only [Except.ok.injEq, Prod.mk.injEq] at h
          obtain ⟨rfl, _⟩ := h
          obtain ⟨i1, i2, i3⟩ := ih sc1 sc2 rs' hds hr
          obtain ⟨c1, c2, c3⟩ := createDefaultReader_spec hok cfg hbulk hn hs he hd hp hc
          have hsh : hasShare n s e d = true := by simp [hasShare, hp]
          refine ⟨?_, ?_, ?_⟩
          · rw [List.filter_cons_of_pos hsh]; simp only [List.map_cons, c1, i1]
          · rw [List.filter_cons_of_pos hsh]; simp only [List.map_cons, c3, i2]
          · intro x hx
            rcases List.mem_cons.mp hx with rfl | hx
            · exact c2
            · exact i3 x hx
    · rw [if_neg hp] at h
      have hsh : ¬ hasShare n s e d = true := by simp [hasShare, hp]
      rw [List.filter_cons_of_neg hsh]
      exact ih sc sc' rs hds h

theorem queuesOf_spec {o : Oracle} (hok : OracleOK o) (cfg : Cfg) (hbulk : 0 < cfg.bulkSize) {n s e : Nat}
    (hn : 1 ≤ n) (hs : s ≤ e) (he : e < n) :
    ∀ (cs : List (Corpus α)) (sc sc' : Nat) (qs : List (List (Reader α))), (∀ d ∈ cs.flatten, d.WF) →
      queuesOf o cfg n s e cs sc = .ok (qs, sc') →
      qs.flatten.map (·.slice.window) = (cs.flatten.filter (hasShare n s e)).map (sliceOf n s e) ∧
        qs.flatten.map readerCount = (cs.flatten.filter (hasShare n s e)).map (shareBulks n s e cfg.bulkSize) ∧
        ∀ r ∈ qs.flatten, r.OK cfg.bulkSize := by
  intro cs
  induction cs with
  | nil =>
    intro sc sc' qs _ h
    simp only [queuesOf, Except.ok.injEq, Prod.mk.injEq] at h
    obtain ⟨rfl, _⟩ := h
    simp
  | cons c cs ih =>
    intro sc sc' qs hwf h
    have hc : ∀ d ∈ c, d.WF := fun d hd => hwf d (by simp [hd])
    have hcs : ∀ d ∈ cs.flatten, d.WF := fun d hd => hwf d (by simp only [List.flatten_cons, List.mem_append]; exact Or.inr hd)
    unfold queuesOf at h
    cases h1 : corpusReaders o cfg n s e c sc with
    | error err => rw [h1] at h; cases h
    | ok p =>
      obtain ⟨q, sc1⟩ := p
      rw [h1] at h
      simp only at h
      cases h2 : queuesOf o cfg n s e cs sc1 with
      | error err => rw [h2] at h; cases h
      | ok p2 =>
        obtain ⟨qs', sc2⟩ := p2
        rw [h2] at h
        simp only [Except.ok.injEq, Prod.mk.injEq] at h
        obtain ⟨rfl, _⟩ := h
        obtain ⟨a1, a2, a3⟩ := corpusReaders_spec hok cfg hbulk hn hs he c sc sc1 q hc h1
        obtain ⟨b1, b2, b3⟩ := ih sc1 sc2 qs' hcs h2
        refine ⟨?_, ?_, ?_⟩
        · simp only [List.flatten_cons, List.map_append, List.filter_append, a1, b1]
        · simp only [List.flatten_cons, List.map_append, List.filter_append, a2, b2]
        · intro r hr
          simp only [List.flatten_cons, List.mem_append] at hr
          rcases hr with hr | hr
          · exact a3 r hr
          · exact b3 r hr

/-- `create_readers`: one reader per document set with a positive share, each positioned on that share;
    the order is some permutation (corpus rotation + round-robin staggering) -/
theorem createReaders_spec {o : Oracle} (hok : OracleOK o) (cfg : Cfg) (hbulk : 0 < cfg.bulkSize) {n s e : Nat}
    (hn : 1 ≤ n) (hs : s ≤ e) (he : e < n)
    {corpora : List (Corpus α)} (hwf : ∀ d ∈ corpora.flatten, d.WF) {sc sc' : Nat} {rs : List (Reader α)}
    (h : createReaders o cfg corpora n s e sc = .ok (rs, sc')) :
    (rs.map (·.slice.window)).Perm ((corpora.flatten.filter (hasShare n s e)).map (sliceOf n s e)) ∧
      (rs.map readerCount).Perm ((corpora.flatten.filter (hasShare n s e)).map (shareBulks n s e cfg.bulkSize)) ∧
      ∀ r ∈ rs, r.OK cfg.bulkSize := by
  unfold createReaders at h
  split_ifs at h with h0
  cases hq : queuesOf o cfg n s e (rotate corpora (s % corpora.length)) sc with
  | error err => rw [hq] at h; cases h
  | ok p =>
    obtain ⟨qs, sc1⟩ := p
    rw [hq] at h
    simp only [Except.ok.injEq, Prod.mk.injEq] at h
    obtain ⟨rfl, _⟩ := h
    have hrot : (rotate corpora (s % corpora.length)).flatten.Perm corpora.flatten :=
      List.Perm.flatten (rotate_perm _ _)
    have hwf' : ∀ d ∈ (rotate corpora (s % corpora.length)).flatten, d.WF := fun d hd => hwf d (hrot.mem_iff.mp hd)
    obtain ⟨q1, q2, q3⟩ := queuesOf_spec hok cfg hbulk hn hs he _ sc sc1 qs hwf' hq
    have hst := stagger_perm (total qs) qs (le_refl _)
    refine ⟨?_, ?_, fun r hr => q3 r (hst.mem_iff.mp hr)⟩
    · calc ((stagger (total qs) qs).map (·.slice.window)).Perm (qs.flatten.map (·.slice.window)) := hst.map _
        _ = _ := q1
        _ |>.Perm _ := (hrot.filter _).map _
    · calc ((stagger (total qs) qs).map readerCount).Perm (qs.flatten.map readerCount) := hst.map _
        _ = _ := q2
        _ |>.Perm _ := (hrot.filter _).map _

theorem chainBulks_spec {o : Oracle} (hok : OracleOK o) {bulk batch : Nat} (hbulk : 0 < bulk) (hbatch : 0 < batch) :
    ∀ (rs : List (Reader α)) (c : Cnt), (∀ r ∈ rs, r.OK bulk) →
      (chainBulks o batch rs c false).1.flatMap (fun b => srcLines b.body) = (rs.map (·.slice.window)).flatten ∧
        (chainBulks o batch rs c false).2.2 = false ∧
        (∀ b ∈ (chainBulks o batch rs c false).1, ∃ k, BulkOK k bulk b) ∧
        (chainBulks o batch rs c false).1.length = (rs.map readerCount).sum := by
  intro rs
  induction rs with
  | nil => intro c _; simp [chainBulks]
  | cons r rs ih =>
    intro c hr
    have hr0 := hr r (List.mem_cons_self ..)
    obtain ⟨s1, s2, s3, _⟩ := reader_spec hok hbulk hbatch hr0 c
    have hB : 0 < r.slice.bulkSize := by
      unfold Reader.OK at hr0
      cases hk : r.kind <;> rw [hk] at hr0 <;> simp only at hr0 <;> omega
    simp only [chainBulks]
    generalize hx : readerBulks o r.kind batch (r.slice.numberOfLines + 1) ⟨r.slice, r.gen, c, false⟩ = x at s1 s2 s3
    rw [s3]
    obtain ⟨i1, i2, i3, i4⟩ := ih x.2.cnt (fun r' h' => hr r' (List.mem_cons_of_mem _ h'))
    refine ⟨?_, i2, ?_, ?_⟩
    · rw [List.flatMap_append, i1, List.map_cons, List.flatten_cons]
      congr 1
      rw [List.flatMap_def, s1, chunks_flatten hB]
    · intro b hb
      rcases List.mem_append.mp hb with hb | hb
      · exact ⟨_, s2 b hb⟩
      · exact i3 b hb
    · rw [List.length_append, i4, List.map_cons, List.sum_cons]
      congr 1
      rw [readerCount, ← chunks_length hB, ← s1, List.length_map]


/-- the bulks of one worker: the shares of the document sets, each read contiguously and in file order,
    one share after the other in some order of the document sets; as many bulks as `number_of_bulks` says -/
theorem workerBulks_spec {o : Oracle} (hok : OracleOK o) (cfg : Cfg) (hbulk : 0 < cfg.bulkSize) (hbatch : 0 < cfg.batchSize)
    {n s e : Nat} (hn : 1 ≤ n) (hs : s ≤ e) (he : e < n) {corpora : List (Corpus α)} (hwf : ∀ d ∈ corpora.flatten, d.WF)
    {c c' : Cnt} {bs : List (Bulk α)} (h : workerBulks o cfg corpora n s e c = .ok (bs, c')) :
    (∃ ws : List (List α), ws.Perm ((corpora.flatten.filter (hasShare n s e)).map (sliceOf n s e)) ∧
      bs.flatMap (fun b => srcLines b.body) = ws.flatten) ∧ (∀ b ∈ bs, ∃ k, BulkOK k cfg.bulkSize b) ∧
      bs.length = ((corpora.flatten.filter (hasShare n s e)).map (shareBulks n s e cfg.bulkSize)).sum := by
  unfold workerBulks at h
  cases hc : createReaders o cfg corpora n s e c.s with
  | error err => rw [hc] at h; cases h
  | ok p =>
    obtain ⟨rs, sc⟩ := p
    rw [hc] at h
    simp only at h
    obtain ⟨r1, r2, r3⟩ := createReaders_spec hok cfg hbulk hn hs he hwf hc
    obtain ⟨c1, c2, c3, c4⟩ := chainBulks_spec hok hbulk hbatch rs { c with s := sc } r3
    rw [c2] at h
    simp only [Bool.false_eq_true, if_false, Except.ok.injEq, Prod.mk.injEq] at h
    obtain ⟨rfl, _⟩ := h
    exact ⟨⟨_, r1, c1⟩, c3, by rw [c4]; exact r2.sum_eq⟩

/-! ## 5. the per-worker parameter source under any order of `params()` calls -/

/-- invariant of `PartitionBulkIndexParamSource` in non-looped mode; `E` = bulks handed out so far -/
def PInv (n s e : Nat) (all : List (Bulk α)) (c0 : Cnt) (T : Int) (p : PState α) (E : List (Bulk α)) (stopped : List Nat) : Prop :=
  p.totalPartitions = some n ∧ listMin p.partitions = some s ∧ listMax p.partitions = some e ∧
    ((p.currentBulk = 0 ∧ E = [] ∧ (0 < T → p.cnt = c0 ∧ stopped = [] ∧ p.totalBulks ≠ 0)) ∨
     (0 < p.currentBulk ∧ p.totalBulks = T ∧ p.internal = all.drop p.currentBulk ∧ E = all.take p.currentBulk ∧
       (p.currentBulk : Int) ≤ T ∧ (stopped ≠ [] → all.length ≤ p.currentBulk ∨ (p.currentBulk : Int) = T)))

theorem emit_spec {n s e : Nat} {all : List (Bulk α)} {c0 : Cnt} {T : Int} {p : PState α} {E : List (Bulk α)}
    {stopped : List Nat}
    (h1 : p.totalPartitions = some n) (h2 : listMin p.partitions = some s) (h3 : listMax p.partitions = some e)
    (ht : p.totalBulks = T) (hi : p.internal = all.drop p.currentBulk) (hE : E = all.take p.currentBulk)
    (hlt : (p.currentBulk : Int) < T) (hs : stopped ≠ [] → all.length ≤ p.currentBulk) (X : Prop) :
    match p.emit with
    | (.error _, _) => X
    | (.stopIteration, p1) => ∀ c, PInv n s e all c0 T p1 E (c :: stopped)
    | (.bulk b, p1) => PInv n s e all c0 T p1 (E ++ [b]) stopped := by
  unfold PState.emit
  cases hint : p.internal with
  | nil =>
    simp only
    intro c
    have hlen : all.length ≤ p.currentBulk := by
      rw [hint] at hi
      exact List.drop_eq_nil_iff.mp hi.symm
    refine ⟨h1, h2, h3, Or.inr ⟨by simp, ht, ?_, ?_, by simp only; omega, fun _ => Or.inl (by simp only; omega)⟩⟩
    · simp only; rw [List.drop_of_length_le (by omega)]
    · simp only; rw [hE, List.take_of_length_le hlen, List.take_of_length_le (by omega)]
  | cons b rest =>
    simp only
    rw [hint] at hi
    have hlt' : p.currentBulk < all.length := by
      by_contra hh
      rw [List.drop_of_length_le (by omega)] at hi
      cases hi
    have hb : all[p.currentBulk] = b ∧ all.drop (p.currentBulk + 1) = rest := by
      rw [List.drop_eq_getElem_cons hlt'] at hi
      exact ⟨(List.cons.inj hi).1.symm, (List.cons.inj hi).2.symm⟩
    refine ⟨h1, h2, h3, Or.inr ⟨by simp, ht, ?_, ?_, by simp only; omega, fun hne => Or.inl ?_⟩⟩
    · simp only; exact hb.2.symm
    · simp only; rw [hE, List.take_add_one, List.getElem?_eq_getElem hlt', hb.1]; rfl
    · have := hs hne; omega

theorem params_spec {o : Oracle} {cfg : Cfg} {corpora : List (Corpus α)} (hl : cfg.looped = false) {n s e : Nat}
    {all : List (Bulk α)} {c0 c1 : Cnt} (hall : workerBulks o cfg corpora n s e c0 = .ok (all, c1))
    (hT : 0 ≤ totalBulksOf (numberOfBulks corpora s e n cfg.bulkSize) cfg.pct)
    {p : PState α} {E : List (Bulk α)} {stopped : List Nat}
    (hinv : PInv n s e all c0 (totalBulksOf (numberOfBulks corpora s e n cfg.bulkSize) cfg.pct) p E stopped) :
    match p.params o cfg corpora with
    | (.error _, _) => ¬ 0 < totalBulksOf (numberOfBulks corpora s e n cfg.bulkSize) cfg.pct
    | (.stopIteration, p1) => ∀ c, PInv n s e all c0 (totalBulksOf (numberOfBulks corpora s e n cfg.bulkSize) cfg.pct) p1 E (c :: stopped)
    | (.bulk b, p1) => PInv n s e all c0 (totalBulksOf (numberOfBulks corpora s e n cfg.bulkSize) cfg.pct) p1 (E ++ [b]) stopped := by
  set T := totalBulksOf (numberOfBulks corpora s e n cfg.bulkSize) cfg.pct with hTdef
  obtain ⟨h1, h2, h3, hcase⟩ := hinv
  unfold PState.params
  rcases hcase with ⟨hz, hE, hpos⟩ | ⟨hk, ht, hi, hE, hle, hs⟩
  · -- first call (or: nothing to do at all): initialise
    rw [if_pos hz]
    unfold PState.initInternal
    rw [h1, h2, h3]
    simp only
    cases hw : workerBulks o cfg corpora n s e p.cnt with
    | error err =>
      simp only
      intro hT0
      obtain ⟨hc0, _, _⟩ := hpos hT0
      rw [hc0, hall] at hw
      cases hw
    | ok q =>
      obtain ⟨bs, c'⟩ := q
      simp only [hz, Nat.cast_zero, hl, Bool.false_eq_true, if_false]
      by_cases hT0 : (0 : Int) = T
      · rw [if_pos hT0]
        intro c
        exact ⟨rfl, h2, h3, Or.inl ⟨rfl, hE, fun h => absurd h (by omega)⟩⟩
      · rw [if_neg hT0]
        have hTpos : 0 < T := by omega
        obtain ⟨hc0, hst, _⟩ := hpos hTpos
        rw [hc0, hall] at hw
        simp only [Except.ok.injEq, Prod.mk.injEq] at hw
        obtain ⟨rfl, rfl⟩ := hw
        refine emit_spec (p := ⟨p.partitions, some n, 0, T, all, c1⟩) ?_ h2 h3 ?_ ?_ ?_ ?_ ?_ _
        · rfl
        · rfl
        · rfl
        · rw [hE]; rfl
        · simpa using hTpos
        · exact fun hne => absurd hst hne
  · have hk0 : p.currentBulk ≠ 0 := by omega
    rw [if_neg hk0]
    simp only [ht, hl, Bool.false_eq_true, if_false]
    by_cases heq : (p.currentBulk : Int) = T
    · rw [if_pos heq]
      intro c
      exact ⟨h1, h2, h3, Or.inr ⟨hk, ht, hi, hE, hle, fun _ => Or.inr heq⟩⟩
    · rw [if_neg heq]
      refine emit_spec h1 h2 h3 ht hi hE (by omega) ?_ _
      intro hne
      rcases hs hne with h | h
      · exact h
      · exact absurd h heq


theorem bulksOf_nonneg {docs : Int} (h : 0 ≤ docs) (bulk : Nat) : 0 ≤ bulksOf docs bulk := by
  obtain ⟨D, rfl⟩ := Int.eq_ofNat_of_zero_le h
  rw [bulksOf_natCast]; exact Int.natCast_nonneg _

theorem docs_nonneg {T n s e : Nat} (hs : s ≤ e) (m : Bool) : 0 ≤ (bounds T s e n m).2.1 := by
  have := dbl_flSpec.off_mono T n (show s ≤ e + 1 by omega)
  show 0 ≤ offDocsWith Dbl.fl T n (e + 1) - offDocsWith Dbl.fl T n s
  omega

/-- `number_of_bulks` = the number of bulks the readers of the worker produce -/
theorem numberOfBulks_eq {n s e : Nat} (hs : s ≤ e) (bulk : Nat) (corpora : List (Corpus α)) :
    numberOfBulks corpora s e n bulk
      = (((corpora.flatten.filter (hasShare n s e)).map (shareBulks n s e bulk)).sum : Nat) := by
  unfold numberOfBulks
  generalize corpora.flatten = l
  induction l with
  | nil => simp
  | cons d ds ih =>
    rw [List.map_cons, List.sum_cons, ih]
    have h0 := docs_nonneg (T := d.numDocs) (n := n) hs d.withMeta
    by_cases hp : hasShare n s e d = true
    · rw [List.filter_cons_of_pos hp, List.map_cons, List.sum_cons]
      push_cast
      congr 1
      unfold shareBulks
      rw [Int.toNat_of_nonneg (bulksOf_nonneg h0 bulk)]
    · rw [List.filter_cons_of_neg hp]
      have : (bounds d.numDocs s e n d.withMeta).2.1 = 0 := by
        simp only [hasShare, decide_eq_true_eq] at hp; omega
      rw [this]
      simp [bulksOf]

theorem runCalls_spec {o : Oracle} {cfg : Cfg} {corpora : List (Corpus α)} (hl : cfg.looped = false) {n s e : Nat}
    {all : List (Bulk α)} {c0 c1 : Cnt} (hall : workerBulks o cfg corpora n s e c0 = .ok (all, c1))
    (hT : 0 ≤ totalBulksOf (numberOfBulks corpora s e n cfg.bulkSize) cfg.pct) :
    ∀ (calls : List Nat) (p : PState α) (E : List (Bulk α)) (stopped : List Nat) (out : List (Nat × Bulk α))
      (stopped' : List Nat) (p' : PState α),
      PInv n s e all c0 (totalBulksOf (numberOfBulks corpora s e n cfg.bulkSize) cfg.pct) p E stopped →
      runCalls o cfg corpora calls p stopped = .ok (out, stopped', p') →
      PInv n s e all c0 (totalBulksOf (numberOfBulks corpora s e n cfg.bulkSize) cfg.pct) p' (E ++ out.map (·.2)) stopped' ∧
        (∀ c ∈ out.map (·.1), c ∈ calls) := by
  intro calls
  induction calls with
  | nil =>
    intro p E stopped out stopped' p' hinv h
    simp only [runCalls, Except.ok.injEq, Prod.mk.injEq] at h
    obtain ⟨rfl, rfl, rfl⟩ := h
    simpa using hinv
  | cons c cs ih =>
    intro p E stopped out stopped' p' hinv h
    unfold runCalls at h
    by_cases hc : c ∈ stopped
    · rw [if_pos hc] at h
      obtain ⟨i1, i2⟩ := ih p E stopped out stopped' p' hinv h
      exact ⟨i1, fun x hx => List.mem_cons_of_mem _ (i2 x hx)⟩
    · rw [if_neg hc] at h
      have hp := params_spec hl hall hT hinv
      cases hpp : p.params o cfg corpora with
      | mk res p1 =>
        rw [hpp] at h hp
        cases res with
        | error err => simp only at h; cases h
        | stopIteration =>
          simp only at h hp
          obtain ⟨i1, i2⟩ := ih p1 E (c :: stopped) out stopped' p' (hp c) h
          exact ⟨i1, fun x hx => List.mem_cons_of_mem _ (i2 x hx)⟩
        | bulk b =>
          simp only at h hp
          cases hr : runCalls o cfg corpora cs p1 stopped with
          | error err => rw [hr] at h; cases h
          | ok q =>
            obtain ⟨out1, st1, p2⟩ := q
            rw [hr] at h
            simp only [Except.ok.injEq, Prod.mk.injEq] at h
            obtain ⟨rfl, rfl, rfl⟩ := h
            obtain ⟨i1, i2⟩ := ih p1 (E ++ [b]) stopped out1 _ _ hp hr
            refine ⟨by simpa using i1, ?_⟩
            intro x hx
            simp only [List.map_cons, List.mem_cons] at hx
            rcases hx with rfl | hx
            · exact List.mem_cons_self ..
            · exact List.mem_cons_of_mem _ (i2 x hx)

/-- a group that has at least one bulk to issue (`0 < total_bulks`) never fails, whatever the call order -/
theorem runCalls_ok {o : Oracle} {cfg : Cfg} {corpora : List (Corpus α)} (hl : cfg.looped = false) {n s e : Nat}
    {all : List (Bulk α)} {c0 c1 : Cnt} (hall : workerBulks o cfg corpora n s e c0 = .ok (all, c1))
    (hT : 0 < totalBulksOf (numberOfBulks corpora s e n cfg.bulkSize) cfg.pct) :
    ∀ (calls : List Nat) (p : PState α) (E : List (Bulk α)) (stopped : List Nat),
      PInv n s e all c0 (totalBulksOf (numberOfBulks corpora s e n cfg.bulkSize) cfg.pct) p E stopped →
      ∃ r, runCalls o cfg corpora calls p stopped = .ok r := by
  intro calls
  induction calls with
  | nil => intro p E stopped _; exact ⟨_, rfl⟩
  | cons c cs ih =>
    intro p E stopped hinv
    unfold runCalls
    by_cases hc : c ∈ stopped
    · rw [if_pos hc]; exact ih p E stopped hinv
    · rw [if_neg hc]
      have hp := params_spec hl hall (le_of_lt hT) hinv
      cases hpp : p.params o cfg corpora with
      | mk res p1 =>
        rw [hpp] at hp
        cases res with
        | error err => exact absurd hT hp
        | stopIteration => exact ih p1 E (c :: stopped) (hp c)
        | bulk b =>
          simp only at hp ⊢
          obtain ⟨r, hr⟩ := ih p1 (E ++ [b]) stopped hp
          rw [hr]
          exact ⟨_, rfl⟩

theorem partitionAll_spec (n : Nat) : ∀ (cs : List Nat) (p : PState α), (p.totalPartitions = none ∨ p.totalPartitions = some n) →
    ∃ p', partitionAll n cs p = .ok p' ∧ p'.partitions = p.partitions ++ cs ∧ p'.currentBulk = p.currentBulk ∧
      p'.cnt = p.cnt ∧ p'.totalBulks = p.totalBulks ∧ (cs ≠ [] → p'.totalPartitions = some n) := by
  intro cs
  induction cs with
  | nil => intro p _; exact ⟨p, rfl, by simp, rfl, rfl, rfl, fun h => absurd rfl h⟩
  | cons c cs ih =>
    intro p hp
    unfold partitionAll PState.partition
    rcases hp with hp | hp
    · rw [hp]
      simp only
      obtain ⟨p', h1, h2, h3, h4, h4', h5⟩ := ih { p with totalPartitions := some n, partitions := p.partitions ++ [c] } (Or.inr rfl)
      refine ⟨p', h1, by simpa using h2, h3, h4, h4', fun _ => ?_⟩
      by_cases hcs : cs = []
      · subst hcs; simp only [partitionAll, Except.ok.injEq] at h1; rw [← h1]
      · exact h5 hcs
    · rw [hp]
      simp only [ne_eq, not_true_eq_false, if_false]
      obtain ⟨p', h1, h2, h3, h4, h4', h5⟩ := ih { p with partitions := p.partitions ++ [c] } (Or.inr hp)
      simp only [hp] at h1
      refine ⟨p', h1, by simpa using h2, h3, h4, h4', fun _ => ?_⟩
      by_cases hcs : cs = []
      · subst hcs; simp only [partitionAll, Except.ok.injEq] at h1; rw [← h1]
      · exact h5 hcs

/-! ## 6. byte layer -/

theorem splitLines_eq_nil {bs : List Byte} : splitLines bs = [] ↔ bs = [] := by
  constructor
  · intro h
    cases bs with
    | nil => rfl
    | cons b t =>
      simp only [splitLines] at h
      split_ifs at h
      cases hs : splitLines t <;> rw [hs] at h <;> simp at h
  · intro h; rw [h]; rfl

theorem lineLen_pos {bs : List Byte} (h : bs ≠ []) : 0 < lineLen bs := by
  cases bs with
  | nil => exact absurd rfl h
  | cons b t => simp only [lineLen]; split_ifs <;> omega

/-- the text-mode line split and `mm.readline()` agree -/
theorem splitLines_cons : ∀ (bs : List Byte), bs ≠ [] →
    splitLines bs = bs.take (lineLen bs) :: splitLines (bs.drop (lineLen bs)) := by
  intro bs
  induction bs with
  | nil => intro h; exact absurd rfl h
  | cons b t ih =>
    intro _
    by_cases hb : b = 10
    · simp [splitLines, lineLen, hb]
    · by_cases ht : t = []
      · subst ht; simp [splitLines, lineLen, hb]
      · have := ih ht
        simp only [splitLines, lineLen, hb, if_false]
        rw [this]
        have e : 1 + lineLen t = lineLen t + 1 := by omega
        rw [e]
        simp

/-- byte offset of line `k` (the file length if there are fewer lines) -/
def lineOff (bs : List Byte) (k : Nat) : Nat := (((splitLines bs).take k).map List.length).sum

theorem lineOff_zero (bs : List Byte) : lineOff bs 0 = 0 := by simp [lineOff]

theorem lineOff_succ {bs : List Byte} (h : bs ≠ []) (k : Nat) :
    lineOff bs (k + 1) = lineLen bs + lineOff (bs.drop (lineLen bs)) k := by
  unfold lineOff
  rw [splitLines_cons bs h, List.take_succ_cons, List.map_cons, List.sum_cons, List.length_take]
  have : lineLen bs ≤ bs.length := by
    clear h
    induction bs with
    | nil => simp [lineLen]
    | cons b t ih => simp only [lineLen, List.length_cons]; split_ifs <;> omega
  omega

theorem lineOff_nil (k : Nat) : lineOff [] k = 0 := by simp [lineOff, splitLines]

/-- `k` readlines move the source to the start of line `k` (relative to where it was) -/
theorem skip_spec : ∀ (k : Nat) (s : Src),
    (s.skip k).pos = s.pos + lineOff s.rest k ∧ (s.skip k).rest = s.rest.drop (lineOff s.rest k) ∧
      splitLines (s.skip k).rest = (splitLines s.rest).drop k := by
  intro k
  induction k with
  | zero => intro s; simp [Src.skip, lineOff_zero]
  | succ k ih =>
    intro s
    simp only [Src.skip]
    by_cases h : s.rest = []
    · obtain ⟨i1, i2, i3⟩ := ih s.readline.2
      have hr : s.readline.2 = ⟨s.pos, []⟩ := by simp [Src.readline, h, lineLen]
      rw [hr] at i1 i2 i3
      simp only [lineOff_nil, List.drop_nil] at i1 i2 i3
      rw [hr, h, lineOff_nil]
      refine ⟨i1, by simpa using i2, ?_⟩
      rw [i3]; simp [splitLines]
    · obtain ⟨i1, i2, i3⟩ := ih s.readline.2
      have hp : s.readline.2.pos = s.pos + lineLen s.rest := rfl
      have hr : s.readline.2.rest = s.rest.drop (lineLen s.rest) := rfl
      rw [hp, hr] at i1
      rw [hr] at i2 i3
      rw [lineOff_succ h]
      refine ⟨by omega, ?_, ?_⟩
      · rw [i2, List.drop_drop]
      · rw [i3, splitLines_cons s.rest h, List.drop_succ_cons]

theorem skip_add (a b : Nat) : ∀ (s : Src), (s.skip a).skip b = s.skip (a + b) := by
  induction a with
  | zero => intro s; simp [Src.skip]
  | succ a ih =>
    intro s
    have : a + 1 + b = (a + b) + 1 := by omega
    rw [this]
    simp only [Src.skip]
    exact ih _

/-- every row of the table points to the start of its line -/
theorem tableLoop_spec (every : Nat) : ∀ (ls : List (List Byte)) (lineNo pos : Nat),
    ∀ row ∈ (tableLoop every ls lineNo pos).1, lineNo < row.1 ∧ row.1 ≤ lineNo + ls.length ∧
      row.2 = pos + ((ls.take (row.1 - lineNo)).map List.length).sum := by
  intro ls
  induction ls with
  | nil => intro lineNo pos row h; simp [tableLoop] at h
  | cons l ls ih =>
    intro lineNo pos row h
    simp only [tableLoop] at h
    have key : ∀ row ∈ (tableLoop every ls (lineNo + 1) (pos + l.length)).1,
        lineNo < row.1 ∧ row.1 ≤ lineNo + (l :: ls).length ∧
          row.2 = pos + (((l :: ls).take (row.1 - lineNo)).map List.length).sum := by
      intro row hr
      obtain ⟨a, b, c⟩ := ih (lineNo + 1) (pos + l.length) row hr
      refine ⟨by omega, by simp only [List.length_cons]; omega, ?_⟩
      have : row.1 - lineNo = (row.1 - (lineNo + 1)) + 1 := by omega
      rw [this, List.take_succ_cons, List.map_cons, List.sum_cons, c]; omega
    split_ifs at h with hm
    · rcases List.mem_cons.mp h with rfl | h
      · refine ⟨by simp, by simp, ?_⟩
        simp
      · exact key row h
    · exact key row h

theorem findClosest_spec (bs : List Byte) (target : Nat) : ∀ (tbl : List (Nat × Nat)) (acc : Nat × Nat),
    (∀ row ∈ tbl, row.2 = lineOff bs row.1) → (∃ L, L ≤ target ∧ acc = (lineOff bs L, target - L)) →
    ∃ L, L ≤ target ∧ findClosest target tbl acc = (lineOff bs L, target - L) := by
  intro tbl
  induction tbl with
  | nil => intro acc _ h; simpa [findClosest] using h
  | cons row rest ih =>
    intro acc htbl hacc
    obtain ⟨ln, off⟩ := row
    simp only [findClosest]
    split_ifs with h
    · apply ih
      · exact fun r hr => htbl r (List.mem_cons_of_mem _ hr)
      · have := htbl (ln, off) (List.mem_cons_self ..)
        simp only at this
        exact ⟨ln, h, by rw [this]⟩
    · exact hacc

/-- **skip_with_table_eq_linear** (lemma form): with the table of `prepare_file_offset_table` (any
    spacing) `skip_lines` leaves the source exactly where line-by-line skipping leaves it -/
theorem skipLines_table_eq (every : Nat) (bs : List Byte) (n : Nat) :
    skipLines (some (prepareOffsetTable every bs).1) bs n = skipLines none bs n := by
  unfold skipLines
  split_ifs with h0
  · rfl
  · simp only
    have htbl : ∀ row ∈ (prepareOffsetTable every bs).1, row.2 = lineOff bs row.1 := by
      intro row hr
      obtain ⟨_, _, c⟩ := tableLoop_spec every (splitLines bs) 0 0 row hr
      simpa [lineOff] using c
    obtain ⟨L, hL, hf⟩ := findClosest_spec bs n (prepareOffsetTable every bs).1 (0, n) htbl
      ⟨0, by omega, by simp [lineOff_zero]⟩
    rw [hf]
    simp only
    have hseek : Src.seek bs (lineOff bs L) = (Src.seek bs 0).skip L := by
      obtain ⟨a, b, _⟩ := skip_spec L (Src.seek bs 0)
      simp only [Src.seek, List.drop_zero, Nat.zero_add] at a b ⊢
      cases hs : Src.skip ⟨0, bs⟩ L with
      | mk p r => rw [hs] at a b; simp only at a b; rw [a, b]
    rw [hseek, skip_add]
    congr 1
    omega

/-- after `skip_lines(n)` the source stands at byte `lineOff n` and delivers the lines `n, n+1, …` -/
theorem skipLines_lands (bs : List Byte) (n : Nat) :
    (skipLines none bs n).pos = lineOff bs n ∧ (skipLines none bs n).rest = bs.drop (lineOff bs n) ∧
      splitLines (skipLines none bs n).rest = (splitLines bs).drop n := by
  unfold skipLines
  split_ifs with h0
  · subst h0; simp [lineOff_zero]
  · simp only
    obtain ⟨a, b, c⟩ := skip_spec n (Src.seek bs 0)
    simp only [Src.seek, List.drop_zero, Nat.zero_add] at a b c ⊢
    exact ⟨a, b, c⟩

/-- `MmapSource.readlines(k)` returns the next `k` lines of the text-mode split -/
theorem readlines_spec : ∀ (k : Nat) (s : Src), (s.readlines k).1 = (splitLines s.rest).take k := by
  intro k
  induction k with
  | zero => intro s; simp [Src.readlines]
  | succ k ih =>
    intro s
    simp only [Src.readlines]
    by_cases h : s.rest = []
    · simp [Src.readline, h, lineLen, splitLines]
    · have hpos := lineLen_pos h
      have hlen : (s.readline.1).length = lineLen s.rest := by
        simp only [Src.readline, List.length_take]
        have : lineLen s.rest ≤ s.rest.length := by
          generalize s.rest = l
          induction l with
          | nil => simp [lineLen]
          | cons b t ih => simp only [lineLen, List.length_cons]; split_ifs <;> omega
        omega
      rw [if_neg (by omega)]
      simp only
      rw [ih, splitLines_cons s.rest h, List.take_succ_cons]
      rfl

/-! ## 7. total_bulks, id traces, all workers together -/

theorem totalBulksOf_nonneg {all : Int} {pct : ℚ} (ha : 0 ≤ all) (hp : 0 ≤ pct) : 0 ≤ totalBulksOf all pct := by
  unfold totalBulksOf fceil fdiv fmul ofInt
  have h1 : (0:ℚ) ≤ fl (all : ℚ) := fl_nonneg (by exact_mod_cast ha)
  have h2 : (0:ℚ) ≤ fl (fl (all : ℚ) * pct) := fl_nonneg (mul_nonneg h1 hp)
  have h3 : (0:ℚ) ≤ fl (fl (fl (all : ℚ) * pct) / 100) := fl_nonneg (div_nonneg h2 (by norm_num))
  have := Rat.le_ceil (x := fl (fl (fl (all : ℚ) * pct) / 100))
  have h4 : (0:ℚ) ≤ ((fl (fl (fl (all : ℚ) * pct) / 100)).ceil : ℚ) := le_trans h3 this
  exact_mod_cast h4

/-- full ingestion: `ceil(all * 100.0 / 100) = all` (exactly, in doubles) -/
theorem totalBulksOf_full {all : Nat} (h : all * 100 < 2^53) : totalBulksOf (all : Int) 100 = all := by
  unfold totalBulksOf fceil fdiv fmul ofInt
  have h1 : fl (((all : Int) : ℚ)) = (all : ℚ) := by
    have := fl_natCast (n := all) (by omega); simpa using this
  rw [h1]
  have h2 : fl ((all : ℚ) * 100) = ((all * 100 : Nat) : ℚ) := by
    have := fl_natCast (n := all * 100) h
    rw [← this]; push_cast; rfl
  rw [h2]
  have h3 : (((all * 100 : Nat) : ℚ)) / 100 = (all : ℚ) := by push_cast; field_simp
  rw [h3]
  have h4 : fl (all : ℚ) = (all : ℚ) := fl_natCast (by omega)
  rw [h4]
  exact Rat.ceil_intCast (all : Int)

/-- every fresh id up to `k` has been emitted -/
theorem IdTrace.mem_take {ids : List Int} {k : Nat} {E : List Int} (h : IdTrace ids k E) : ∀ x ∈ ids.take k, x ∈ E := by
  induction h with
  | nil => simp
  | @fresh k E id _ hg ih =>
    intro x hx
    rw [List.take_add_one, hg] at hx
    simp only [Option.toList_some, List.mem_append, List.mem_singleton] at hx ⊢
    rcases hx with hx | hx
    · exact Or.inl (ih x hx)
    · exact Or.inr hx
  | conflict _ _ ih => intro x hx; exact List.mem_append_left _ (ih x hx)

/-- position by position: an emitted id either repeats an id emitted earlier, or it is the next
    fresh id of the list (all list ids before it have been emitted already) -/
theorem IdTrace.pointwise {ids : List Int} {k : Nat} {E : List Int} (h : IdTrace ids k E) :
    ∀ (p : Nat) (hp : p < E.length), E[p] ∈ E.take p ∨
      ∃ j, ids[j]? = some E[p] ∧ ∀ x ∈ ids.take j, x ∈ E.take p := by
  induction h with
  | nil => intro p hp; simp at hp
  | @fresh k E id hT hg ih =>
    intro p hp
    by_cases hlt : p < E.length
    · have e1 : (E ++ [id])[p] = E[p] := List.getElem_append_left hlt
      have e2 : (E ++ [id]).take p = E.take p := by rw [List.take_append_of_le_length (by omega)]
      rw [e1, e2]; exact ih p hlt
    · have hpe : p = E.length := by simp only [List.length_append, List.length_singleton] at hp; omega
      subst hpe
      right
      refine ⟨k, by simpa using hg, ?_⟩
      intro x hx
      simpa using hT.mem_take x hx
  | @conflict k E id hT hm ih =>
    intro p hp
    by_cases hlt : p < E.length
    · have e1 : (E ++ [id])[p] = E[p] := List.getElem_append_left hlt
      have e2 : (E ++ [id]).take p = E.take p := by rw [List.take_append_of_le_length (by omega)]
      rw [e1, e2]; exact ih p hlt
    · have hpe : p = E.length := by simp only [List.length_append, List.length_singleton] at hp; omega
      subst hpe
      left
      simpa using hT.mem_take id hm

theorem flatMap_swap_perm {β γ : Type} (ws : List β) (ds : List γ) (f : β → γ → List α) :
    (ws.flatMap fun w => ds.flatMap fun d => f w d).Perm (ds.flatMap fun d => ws.flatMap fun w => f w d) := by
  induction ws with
  | nil => simp
  | cons w ws ih =>
    simp only [List.flatMap_cons]
    exact (List.Perm.append_left _ ih).trans (List.flatMap_append_perm ds (f w) (fun d => ws.flatMap fun w => f w d))

theorem sliceOf_nil_of_no_share {n s e : Nat} (hs : s ≤ e) {d : DocSet α} (h : hasShare n s e d = false) :
    sliceOf n s e d = [] := by
  have h0 := docs_nonneg (T := d.numDocs) (n := n) hs d.withMeta
  have hz : (bounds d.numDocs s e n d.withMeta).2.1 = 0 := by
    simp only [hasShare, decide_eq_false_iff_not] at h; omega
  have : (bounds d.numDocs s e n d.withMeta).2.2 = 0 := by
    show (bounds d.numDocs s e n d.withMeta).2.1 * _ = 0
    rw [hz]; simp
  simp [sliceOf, this]

theorem flatten_shares {n s e : Nat} (hs : s ≤ e) (ds : List (DocSet α)) :
    ((ds.filter (hasShare n s e)).map (sliceOf n s e)).flatten = ds.flatMap (sliceOf n s e) := by
  induction ds with
  | nil => rfl
  | cons d ds ih =>
    by_cases h : hasShare n s e d = true
    · rw [List.filter_cons_of_pos h, List.map_cons, List.flatten_cons, ih, List.flatMap_cons]
    · rw [List.filter_cons_of_neg h, ih, List.flatMap_cons, sliceOf_nil_of_no_share hs (by simpa using h)]
      rfl

theorem Cut.ranges_ok {a n : Nat} {rs : List (Nat × Nat)} (h : Cut a n rs) : ∀ r ∈ rs, r.1 ≤ r.2 ∧ r.2 < n := by
  induction h with
  | nil => simp
  | cons h1 h2 _ ih =>
    intro r hr
    rcases List.mem_cons.mp hr with rfl | hr
    · exact ⟨h1, h2⟩
    · exact ih r hr

/-- the shares of all workers of a cutting, file by file, are the file -/
theorem shares_cover_file {n : Nat} (hn : 1 ≤ n) {rs : List (Nat × Nat)} (hcut : Cut 0 n rs) {d : DocSet α} (hd : d.WF) :
    rs.flatMap (fun r => sliceOf n r.1 r.2 d) = d.lines := by
  have S := dbl_flSpec
  have ht := tiles_of_cut S d.numDocs n d.withMeta hcut
  rw [S.off_zero, S.off_total hn hd.1] at ht
  have := Tiles.flatMap_drop_take ht (by simp) d.lines
  rw [List.flatMap_map] at this
  simp only [sliceOf, bounds]
  rw [this]
  simp only [zero_mul, Int.toNat_zero, List.drop_zero, sub_zero]
  apply List.take_of_length_le
  rw [hd.2]
  unfold lpd
  split_ifs <;> simp

/-- **race_cover** (lemma form): if every worker of a cutting delivers its shares, all workers together
    deliver every line of every file exactly once -/
theorem race_cover_of_workers {n : Nat} (hn : 1 ≤ n) {corpora : List (Corpus α)} (hwf : ∀ d ∈ corpora.flatten, d.WF)
    {rs : List (Nat × Nat)} (hcut : Cut 0 n rs) (L : Nat × Nat → List α)
    (hL : ∀ r ∈ rs, (L r).Perm ((corpora.flatten.filter (hasShare n r.1 r.2)).map (sliceOf n r.1 r.2)).flatten) :
    (rs.flatMap L).Perm (corpora.flatten.flatMap (·.lines)) := by
  have h1 : (rs.flatMap L).Perm (rs.flatMap fun r => corpora.flatten.flatMap (sliceOf n r.1 r.2)) := by
    apply List.Perm.flatMap_left
    intro r hr
    rw [← flatten_shares (hcut.ranges_ok r hr).1]
    exact hL r hr
  refine h1.trans ((flatMap_swap_perm rs corpora.flatten (fun r d => sliceOf n r.1 r.2 d)).trans ?_)
  apply List.Perm.of_eq
  apply List.flatMap_congr
  intro d hd
  exact shares_cover_file hn hcut (hwf d hd)

/-- `total_bulks` is within one of the exact ceiling `⌈all·p/100⌉` (p the double the user gave):
    the two float roundings can move the value across an integer, but never further. -/
theorem totalBulksOf_close {all : Nat} {pct : ℚ} (ha : all ≤ 2^50) (hp0 : 0 ≤ pct) (hp1 : pct ≤ 100) :
    |totalBulksOf (all : Int) pct - ((all : ℚ) * pct / 100).ceil| ≤ 1 := by
  unfold totalBulksOf fceil fdiv fmul ofInt
  have hfa : fl (((all : Int) : ℚ)) = (all : ℚ) := by
    have := fl_natCast (n := all) (by omega); simpa using this
  rw [hfa]
  have S := dbl_flSpec
  set a : ℚ := (all : ℚ) with hadef
  have ha0 : 0 ≤ a := by positivity
  have haq : a ≤ 2^50 := by rw [hadef]; exact_mod_cast ha
  obtain ⟨y1, y2⟩ := S.bounds_of_nonneg (mul_nonneg ha0 hp0)
  set y := fl (a * pct) with hy
  have hy0 : 0 ≤ y := S.nonneg (mul_nonneg ha0 hp0)
  obtain ⟨t1, t2⟩ := S.bounds_of_nonneg (div_nonneg hy0 (by norm_num : (0:ℚ) ≤ 100))
  set t := fl (y / 100) with ht
  set x : ℚ := a * pct / 100 with hx
  have hx0 : 0 ≤ x := by positivity
  have hxa : x ≤ 2^50 := by
    rw [hx]
    have : a * pct ≤ a * 100 := mul_le_mul_of_nonneg_left hp1 ha0
    linarith
  have hyx1 : x * (1 - 1/2^53) ≤ y / 100 := by rw [hx]; linarith
  have hyx2 : y / 100 ≤ x * (1 + 1/2^53) := by rw [hx]; linarith
  have lo : x - 1 < t := by nlinarith
  have hi : t < x + 1 := by nlinarith
  have c1 := Rat.le_ceil (x := x)
  have c2 := Rat.le_ceil (x := t)
  rw [abs_le]
  constructor
  · have : x.ceil ≤ t.ceil + 1 := by
      rw [Rat.ceil_le_iff]; push_cast; linarith
    omega
  · have : t.ceil ≤ x.ceil + 1 := by
      rw [Rat.ceil_le_iff]; push_cast; linarith
    omega


theorem Reader.OK.bulkSize_pos {α : Type} {bulk : Nat} (hbulk : 0 < bulk) {r : Reader α} (hr : r.OK bulk) : 0 < r.slice.bulkSize := by
  unfold Reader.OK at hr
  cases hk : r.kind <;> rw [hk] at hr <;> simp only at hr <;> omega

theorem paired_fast {α : Type} (act : Action) (ls : List α) :
    Paired (ls.flatMap fun d => [Item.am act Option.none, Item.src d]) := by
  induction ls with
  | nil => trivial
  | cons a t ih => simpa [Paired, Item.line] using ih

/-! ## 8. schedule_for, integral percentages -/

/-- `client_index_in_task` of a task allocation -/
def entryIdx : Alloc.Entry → Option Nat
  | .task _ i _ _ => some i
  | _ => Option.none

/-- a task allocation of a task with `c` clients — whatever the enclosing element's `total_clients` is -/
def IsAllocOf (c : Nat) (en : Alloc.Entry) : Prop := ∃ sub i g t, en = Alloc.Entry.task sub i g t ∧ sub.clients = c

/-- `schedule_for` partitions the shared source by (client index in task, clients of the task) -/
theorem partitionEntries_eq (c : Nat) : ∀ (es : List Alloc.Entry) (p : PState α), (∀ en ∈ es, IsAllocOf c en) →
    partitionEntries es p = partitionAll c (es.filterMap entryIdx) p := by
  intro es
  induction es with
  | nil => intro p _; rfl
  | cons en es ih =>
    intro p h
    obtain ⟨sub, i, g, t, rfl, hc⟩ := h en (List.mem_cons_self ..)
    simp only [partitionEntries, scheduleForPartition, List.filterMap_cons, entryIdx, partitionAll, hc]
    cases hp : p.partition i c with
    | error err => rfl
    | ok p1 => exact ih p1 (fun x hx => h x (List.mem_cons_of_mem _ hx))

theorem expand_length' (e : Alloc.Element) : (Alloc.expand e).length = e.total := by
  unfold Alloc.expand Alloc.Element.total Alloc.sumClients
  generalize e.tasks = ts
  induction ts with
  | nil => rfl
  | cons s ss ih => rw [List.flatMap_cons, List.length_append, ih]; simp

theorem mem_expand {e : Alloc.Element} {p : Alloc.Sub × Nat} (h : p ∈ Alloc.expand e) : p.1 ∈ e.tasks ∧ p.2 < p.1.clients := by
  unfold Alloc.expand at h
  obtain ⟨s, hs, hp⟩ := List.mem_flatMap.mp h
  obtain ⟨i, hi, rfl⟩ := List.mem_map.mp hp
  exact ⟨hs, List.mem_range.mp hi⟩

/-- what the allocator puts into a `TaskAllocation`: the task, an index below the task's client count,
    and as `total_clients` the client count of the enclosing element -/
theorem taskEntry_spec (e : Alloc.Element) (c : Nat) (hc : c < e.total) :
    ∃ s i, Alloc.taskEntry e c = Alloc.Entry.task s i c e.clients ∧ s ∈ e.tasks ∧ i < s.clients := by
  have hlen : c < (Alloc.expand e).length := by rw [expand_length']; exact hc
  have hget := List.getElem?_eq_getElem hlen
  have hm := mem_expand (List.getElem_mem hlen)
  refine ⟨(Alloc.expand e)[c].1, (Alloc.expand e)[c].2, ?_, hm.1, hm.2⟩
  unfold Alloc.taskEntry
  rw [hget]

/-- for an integral ingest percentage the float computation is the exact ceiling `⌈all·p/100⌉` -/
theorem totalBulksOf_integral {all p : Nat} (hp : 1 ≤ p) (h : all * p < 2^53) :
    totalBulksOf (all : Int) (p : ℚ) = (((all * p : Nat) : ℚ) / 100).ceil := by
  unfold totalBulksOf fceil fdiv fmul ofInt
  have hall : all < 2^53 := lt_of_le_of_lt (Nat.le_mul_of_pos_right all hp) h
  have h1 : fl (((all : Int) : ℚ)) = (all : ℚ) := by
    have := fl_natCast (n := all) hall; simpa using this
  rw [h1]
  have h2 : fl ((all : ℚ) * (p : ℚ)) = ((all * p : Nat) : ℚ) := by
    have := fl_natCast (n := all * p) h
    rw [← this]; push_cast; rfl
  rw [h2]
  set m : Nat := all * p with hm
  set x : ℚ := (m : ℚ) / 100 with hx
  have hx0 : 0 ≤ x := by positivity
  have hmq : (m : ℚ) < 2^53 := by exact_mod_cast h
  set k : Int := x.ceil with hk
  have hk0 : 0 ≤ k := by
    have := Rat.le_ceil (x := x)
    have : (0:ℚ) ≤ (k : ℚ) := le_trans hx0 this
    exact_mod_cast this
  have hxk : x ≤ (k : ℚ) := Rat.le_ceil
  have hkx : ((k - 1 : Int) : ℚ) < x := by
    have : k - 1 < x.ceil := by omega
    exact Rat.lt_ceil_iff.mp this
  -- k ≤ m (as k-1 < m/100 ≤ m)
  have hkm : k.toNat < 2^53 := by
    have : ((k - 1 : Int) : ℚ) < (m : ℚ) := by
      refine lt_of_lt_of_le hkx ?_
      rw [hx]; have : (0:ℚ) ≤ m := by positivity
      linarith
    have : k - 1 < (m : Int) := by exact_mod_cast this
    omega
  apply le_antisymm
  · -- fl x ≤ k
    rw [Rat.ceil_le_iff]
    have := fl_le_nat (n := k.toNat) hkm hx0 (by
      have : ((k.toNat : Nat) : ℚ) = (k : ℚ) := by
        have : ((k.toNat : Nat) : Int) = k := Int.toNat_of_nonneg hk0
        exact_mod_cast this
      rw [this]; exact hxk)
    have e : ((k.toNat : Nat) : ℚ) = (k : ℚ) := by
      have : ((k.toNat : Nat) : Int) = k := Int.toNat_of_nonneg hk0
      exact_mod_cast this
    rw [e] at this; exact this
  · -- k - 1 < fl x
    have hstep : ((k - 1 : Int) : ℚ) + 1/100 ≤ x := by
      have h100 : ((k - 1 : Int) : ℚ) * 100 < (m : ℚ) := by
        have := hkx; rw [hx] at this
        rw [lt_div_iff₀ (by norm_num : (0:ℚ) < 100)] at this; exact this
      have hz : (k - 1) * 100 < (m : Int) := by exact_mod_cast h100
      have hz' : (k - 1) * 100 + 1 ≤ (m : Int) := by omega
      have hq : ((k - 1 : Int) : ℚ) * 100 + 1 ≤ (m : ℚ) := by exact_mod_cast hz'
      rw [hx, le_div_iff₀ (by norm_num : (0:ℚ) < 100)]
      linarith
    have hrel := (dbl_flSpec.bounds_of_nonneg hx0).1
    have hxs : x < 2^53 / 100 := by rw [hx]; exact div_lt_div_of_pos_right hmq (by norm_num)
    have hlt : ((k - 1 : Int) : ℚ) < fl x := by nlinarith
    have : k - 1 < (fl x).ceil := Rat.lt_ceil_iff.mpr hlt
    omega

/-! ## 9. a group without any bulk runs to the end as well (code since b9aff71) -/

theorem fl_eq_zero {q : ℚ} (hq : 0 ≤ q) (h : fl q = 0) : q = 0 := by
  by_contra hne
  have hpos : 0 < q := lt_of_le_of_ne hq (Ne.symm hne)
  have := (fl_binade hpos).1
  rw [h] at this
  exact absurd this (not_le.mpr (two_zpow_pos _))

theorem totalBulksOf_eq_zero {nb : Nat} {pct : ℚ} (hp : 0 < pct) (h : totalBulksOf (nb : Int) pct = 0) : nb = 0 := by
  unfold totalBulksOf fceil fdiv fmul ofInt at h
  have h1 : (0:ℚ) ≤ fl (((nb : Int) : ℚ)) := fl_nonneg (by positivity)
  have h2 : (0:ℚ) ≤ fl (fl (((nb : Int) : ℚ)) * pct) := fl_nonneg (mul_nonneg h1 (le_of_lt hp))
  have h3 : (0:ℚ) ≤ fl (fl (((nb : Int) : ℚ)) * pct) / 100 := div_nonneg h2 (by norm_num)
  have h4 : (0:ℚ) ≤ fl (fl (fl (((nb : Int) : ℚ)) * pct) / 100) := fl_nonneg h3
  have hle := Rat.le_ceil (x := fl (fl (fl (((nb : Int) : ℚ)) * pct) / 100))
  rw [h] at hle
  have ht : fl (fl (fl (((nb : Int) : ℚ)) * pct) / 100) = 0 := le_antisymm (by simpa using hle) h4
  have hy : fl (fl (((nb : Int) : ℚ)) * pct) / 100 = 0 := fl_eq_zero h3 ht
  have hy' : fl (fl (((nb : Int) : ℚ)) * pct) = 0 := by
    have := div_eq_zero_iff.mp hy
    rcases this with h | h
    · exact h
    · norm_num at h
  have hz : fl (((nb : Int) : ℚ)) * pct = 0 := fl_eq_zero (mul_nonneg h1 (le_of_lt hp)) hy'
  have hf : fl (((nb : Int) : ℚ)) = 0 := by
    rcases mul_eq_zero.mp hz with h | h
    · exact h
    · exact absurd h (ne_of_gt hp)
  have : (((nb : Int) : ℚ)) = 0 := fl_eq_zero (by positivity) hf
  exact_mod_cast this

theorem shareBulks_pos {n s e bulk : Nat} (hb : 0 < bulk) {d : DocSet α} (h : hasShare n s e d = true) :
    1 ≤ shareBulks n s e bulk d := by
  unfold shareBulks
  simp only [hasShare, decide_eq_true_eq] at h
  obtain ⟨D, hD⟩ := Int.eq_ofNat_of_zero_le (le_of_lt h)
  rw [hD, bulksOf_natCast, Int.toNat_natCast]
  have hD1 : 1 ≤ D := by rw [hD] at h; exact_mod_cast h
  by_cases hlt : D < bulk
  · have : D % bulk = D := Nat.mod_eq_of_lt hlt
    rw [this]; simp only [show D > 0 from hD1, if_true]; exact Nat.le_add_left 1 _
  · have : 1 ≤ D / bulk := Nat.div_pos (by omega) hb
    omega

theorem no_share_of_numberOfBulks_zero {n s e bulk : Nat} (hs : s ≤ e) (hb : 0 < bulk) {corpora : List (Corpus α)}
    (h : numberOfBulks corpora s e n bulk = 0) : ∀ d ∈ corpora.flatten, hasShare n s e d = false := by
  rw [numberOfBulks_eq hs] at h
  have hsum : ((corpora.flatten.filter (hasShare n s e)).map (shareBulks n s e bulk)).sum = 0 := by exact_mod_cast h
  intro d hd
  by_contra hne
  have hsh : hasShare n s e d = true := by simpa using hne
  have hmem : d ∈ corpora.flatten.filter (hasShare n s e) := List.mem_filter.mpr ⟨hd, hsh⟩
  have h1 := shareBulks_pos (bulk := bulk) hb hsh
  have h2 : shareBulks n s e bulk d ≤ ((corpora.flatten.filter (hasShare n s e)).map (shareBulks n s e bulk)).sum :=
    List.single_le_sum (by intro x _; exact Nat.zero_le x) _ (List.mem_map_of_mem hmem)
  omega

theorem corpusReaders_no_share (o : Oracle) (cfg : Cfg) (n s e : Nat) :
    ∀ (corpus : Corpus α) (sc : Nat), (∀ d ∈ corpus, hasShare n s e d = false) →
      corpusReaders o cfg n s e corpus sc = .ok ([], sc) := by
  intro corpus
  induction corpus with
  | nil => intro sc _; rfl
  | cons d ds ih =>
    intro sc h
    have hd := h d (List.mem_cons_self ..)
    simp only [hasShare, decide_eq_false_iff_not] at hd
    unfold corpusReaders
    simp only []
    rw [if_neg hd]
    exact ih sc (fun x hx => h x (List.mem_cons_of_mem _ hx))

theorem queuesOf_no_share (o : Oracle) (cfg : Cfg) (n s e : Nat) :
    ∀ (cs : List (Corpus α)) (sc : Nat), (∀ d ∈ cs.flatten, hasShare n s e d = false) →
      ∃ qs, queuesOf o cfg n s e cs sc = .ok (qs, sc) ∧ total qs = 0 := by
  intro cs
  induction cs with
  | nil => intro sc _; exact ⟨[], rfl, rfl⟩
  | cons c cs ih =>
    intro sc h
    have hc := corpusReaders_no_share o cfg n s e c sc (fun d hd => h d (by simp [hd]))
    obtain ⟨qs, hq, ht⟩ := ih sc (fun d hd => h d (by simp only [List.flatten_cons, List.mem_append]; exact Or.inr hd))
    refine ⟨[] :: qs, ?_, ?_⟩
    · unfold queuesOf; rw [hc]; simp only; rw [hq]
    · simpa [total] using ht

/-- a group whose share of every document set is empty builds an empty generator, whatever the draw counters -/
theorem workerBulks_no_share (o : Oracle) (cfg : Cfg) (n s e : Nat) {corpora : List (Corpus α)} (hne : corpora.length ≠ 0)
    (h : ∀ d ∈ corpora.flatten, hasShare n s e d = false) (c : Cnt) :
    workerBulks o cfg corpora n s e c = .ok ([], c) := by
  have hrot : (rotate corpora (s % corpora.length)).flatten.Perm corpora.flatten := List.Perm.flatten (rotate_perm _ _)
  obtain ⟨qs, hq, ht⟩ := queuesOf_no_share o cfg n s e (rotate corpora (s % corpora.length)) c.s
    (fun d hd => h d (hrot.mem_iff.mp hd))
  unfold workerBulks createReaders
  rw [if_neg hne, hq]
  simp only [ht, stagger, chainBulks, Bool.false_eq_true, if_false]

/-- `createReaders` fails for an empty corpus list before anything else: a successful build has corpora -/
theorem corpora_ne_of_workerBulks_ok {o : Oracle} {cfg : Cfg} {corpora : List (Corpus α)} {n s e : Nat} {c c' : Cnt}
    {bs : List (Bulk α)} (h : workerBulks o cfg corpora n s e c = .ok (bs, c')) : corpora.length ≠ 0 := by
  intro h0
  unfold workerBulks createReaders at h
  rw [if_pos h0] at h
  cases h

/-- with `total_bulks = 0` every call re-initialises the (empty) group and ends the caller: no failure -/
theorem runCalls_ok_zero {o : Oracle} {cfg : Cfg} {corpora : List (Corpus α)} (hl : cfg.looped = false) {n s e : Nat}
    (hne : corpora.length ≠ 0) (hno : ∀ d ∈ corpora.flatten, hasShare n s e d = false)
    (hT : totalBulksOf (numberOfBulks corpora s e n cfg.bulkSize) cfg.pct = 0) :
    ∀ (calls : List Nat) (p : PState α) (stopped : List Nat),
      p.totalPartitions = some n → listMin p.partitions = some s → listMax p.partitions = some e → p.currentBulk = 0 →
      ∃ r, runCalls o cfg corpora calls p stopped = .ok r := by
  intro calls
  induction calls with
  | nil => intro p stopped _ _ _ _; exact ⟨_, rfl⟩
  | cons c cs ih =>
    intro p stopped h1 h2 h3 hz
    unfold runCalls
    by_cases hc : c ∈ stopped
    · rw [if_pos hc]; exact ih p stopped h1 h2 h3 hz
    · rw [if_neg hc]
      have hp : p.params o cfg corpora =
          (.stopIteration, { p with internal := [], cnt := p.cnt, totalBulks := 0 }) := by
        unfold PState.params
        rw [if_pos hz]
        unfold PState.initInternal
        rw [h1, h2, h3]
        simp only [workerBulks_no_share o cfg n s e hne hno p.cnt, hT, hz, Nat.cast_zero, if_true, hl, Bool.false_eq_true, if_false]
      rw [hp]
      exact ih _ (c :: stopped) h1 h2 h3 hz

/-! ## 10. the columns of a worker: a new parameter source per (worker, column, task) -/

/-- every column is run on its own, new parameter source -/
theorem runColumns_fresh {o : Oracle} {cfg : Cfg} {corpora : List (Corpus α)} :
    ∀ (cols : List (List Alloc.Entry × List Nat)) (outs : List (List (Nat × Bulk α) × List Nat)),
      runColumns o cfg corpora cols = .ok outs →
      List.Forall₂ (fun col res => ∃ p0 p', partitionEntries col.1 (PState.init : PState α) = .ok p0 ∧
        runCalls o cfg corpora col.2 p0 [] = .ok (res.1, res.2, p')) cols outs := by
  intro cols
  induction cols with
  | nil =>
    intro outs h
    simp only [runColumns, Except.ok.injEq] at h
    subst h; exact List.Forall₂.nil
  | cons col rest ih =>
    intro outs h
    obtain ⟨entries, calls⟩ := col
    unfold runColumns at h
    cases hp : partitionEntries entries (PState.init : PState α) with
    | error err => rw [hp] at h; cases h
    | ok p0 =>
      rw [hp] at h
      simp only at h
      cases hr : runCalls o cfg corpora calls p0 [] with
      | error err => rw [hr] at h; cases h
      | ok q =>
        obtain ⟨out, stopped, p'⟩ := q
        rw [hr] at h
        simp only at h
        cases hrest : runColumns o cfg corpora rest with
        | error err => rw [hrest] at h; cases h
        | ok outs' =>
          rw [hrest] at h
          simp only [Except.ok.injEq] at h
          subst h
          exact List.Forall₂.cons ⟨p0, p', hp, hr⟩ (ih outs' hrest)

/-- the file lines of the shares of the client range `r` (of a task with `c` clients) -/
def shareLines (c : Nat) (corpora : List (Corpus α)) (r : Nat × Nat) : List α :=
  ((corpora.flatten.filter (hasShare c r.1 r.2)).map (sliceOf c r.1 r.2)).flatten

/-- the file lines a column handed out -/
def linesOfRun (res : List (Nat × Bulk α) × List Nat) : List α := (res.1.map (·.2)).flatMap fun b => srcLines b.body

/-! ## from the track specification to the document sets (`_create_corpora`) -/

/-- the data file of a document set is as the MOST SPECIFIC declaration says: its own
    "includes-action-and-meta-data" if it has one, else the corpus', else without action lines -/
def DocSpec.WF (c : CorpusSpec α) (d : DocSpec α) : Prop :=
  d.numDocs ≤ 2^50 ∧ d.lines.length = d.numDocs * (if DocSpec.declared c d = true then 2 else 1)

theorem resolveDoc_spec {indices streams : List Nat} {c : CorpusSpec α} {d : DocSpec α} {x : DocSet α}
    (h : resolveDoc indices streams c d = some x) :
    x.lines = d.lines ∧ x.numDocs = d.numDocs ∧ x.withMeta = DocSpec.declared c d := by
  unfold resolveDoc at h
  by_cases hm : DocSpec.declared c d = true
  · rw [if_pos hm] at h
    cases h
    exact ⟨rfl, rfl, hm.symm⟩
  · rw [if_neg hm] at h
    cases ht : docTargets indices streams c d with
    | none => rw [ht] at h; cases h
    | some t =>
      rw [ht] at h
      cases h
      refine ⟨rfl, rfl, ?_⟩
      cases hd : DocSpec.declared c d with
      | true => exact absurd hd hm
      | false => rfl

theorem resolveDocs_spec {indices streams : List Nat} {c : CorpusSpec α} :
    ∀ {ds : List (DocSpec α)} {xs : Corpus α}, resolveDocs indices streams c ds = some xs →
      (∀ d ∈ ds, DocSpec.WF c d) → (∀ x ∈ xs, x.WF) ∧ xs.flatMap (·.lines) = ds.flatMap (·.lines)
  | [], xs, h, _ => by
    simp only [resolveDocs, Option.some.injEq] at h
    subst h
    exact ⟨fun x hx => (by cases hx), rfl⟩
  | d :: ds, xs, h, hwf => by
    unfold resolveDocs at h
    cases h1 : resolveDoc indices streams c d with
    | none => rw [h1] at h; cases h
    | some x =>
      rw [h1] at h
      cases h2 : resolveDocs indices streams c ds with
      | none => rw [h2] at h; cases h
      | some ys =>
        rw [h2] at h
        cases h
        obtain ⟨e1, e2, e3⟩ := resolveDoc_spec h1
        obtain ⟨ih1, ih2⟩ := resolveDocs_spec h2 (fun d' hd' => hwf d' (List.mem_cons_of_mem _ hd'))
        refine ⟨?_, ?_⟩
        · intro y hy
          rcases List.mem_cons.mp hy with rfl | hy
          · have := hwf d List.mem_cons_self
            unfold DocSpec.WF at this
            unfold DocSet.WF
            rw [e1, e2, e3]
            exact this
          · exact ih1 y hy
        · simp only [List.flatMap_cons, e1, ih2]

theorem resolveAll_spec {indices streams : List Nat} :
    ∀ {specs : List (CorpusSpec α)} {corpora : List (Corpus α)}, resolveAll indices streams specs = some corpora →
      (∀ c ∈ specs, ∀ d ∈ c.documents, DocSpec.WF c d) →
      (∀ x ∈ corpora.flatten, x.WF) ∧
        corpora.flatten.flatMap (·.lines) = specs.flatMap (fun c => c.documents.flatMap (·.lines))
  | [], corpora, h, _ => by
    simp only [resolveAll, Option.some.injEq] at h
    subst h
    exact ⟨fun x hx => (by simp at hx), rfl⟩
  | c :: cs, corpora, h, hwf => by
    unfold resolveAll at h
    cases h1 : resolveDocs indices streams c c.documents with
    | none => rw [h1] at h; cases h
    | some x =>
      rw [h1] at h
      cases h2 : resolveAll indices streams cs with
      | none => rw [h2] at h; cases h
      | some ys =>
        rw [h2] at h
        cases h
        obtain ⟨a1, a2⟩ := resolveDocs_spec h1 (hwf c List.mem_cons_self)
        obtain ⟨ih1, ih2⟩ := resolveAll_spec h2 (fun c' hc' => hwf c' (List.mem_cons_of_mem _ hc'))
        refine ⟨?_, ?_⟩
        · intro y hy
          rw [List.flatten_cons, List.mem_append] at hy
          rcases hy with hy | hy
          · exact a1 y hy
          · exact ih1 y hy
        · rw [List.flatten_cons, List.flatMap_append, List.flatMap_cons, a2, ih2]

theorem resolveCorpora_spec {indices streams : List Nat} {specs : List (CorpusSpec α)} {corpora : List (Corpus α)}
    (h : resolveCorpora indices streams specs = some corpora) (hwf : ∀ c ∈ specs, ∀ d ∈ c.documents, DocSpec.WF c d) :
    (∀ x ∈ corpora.flatten, x.WF) ∧
      corpora.flatten.flatMap (·.lines) = specs.flatMap (fun c => c.documents.flatMap (·.lines)) := by
  unfold resolveCorpora at h
  split at h
  · cases h
  · exact resolveAll_spec h hwf

end Bulk
