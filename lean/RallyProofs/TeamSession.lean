import RallyModel.TeamSession
/-! helper lemmas about sessions of loads (model: `RallyModel/TeamSession.lean`) -/
namespace Team

theorem assoc_writeTeam_same (d : Disk) (r : Str) (t : TeamDir) : assoc (writeTeam d r t) r = some t := by
  induction d with
  | nil => simp [writeTeam, assoc]
  | cons h rest ih =>
    obtain ⟨r', t'⟩ := h
    by_cases e : r' = r
    · simp [writeTeam, assoc, e]
    · simp [writeTeam, assoc, e, ih]

theorem assoc_writeTeam_other (d : Disk) (r r' : Str) (t : TeamDir) (h : r' ≠ r) :
    assoc (writeTeam d r t) r' = assoc d r' := by
  induction d with
  | nil =>
    have : ¬ r = r' := fun e => h e.symm
    simp [writeTeam, assoc, this]
  | cons hd rest ih =>
    obtain ⟨r'', t''⟩ := hd
    by_cases e : r'' = r
    · subst e
      have : ¬ r'' = r' := fun e => h e.symm
      simp [writeTeam, assoc, this]
    · by_cases e' : r'' = r'
      · subst e'
        simp [writeTeam, assoc, e]
      · simp [writeTeam, assoc, e, e', ih]

theorem run_append (d : Disk) (pre post : List Step) :
    run d (pre ++ post) = run d pre ++ run (diskAfter d pre) post := by
  induction pre generalizing d with
  | nil => simp [run, diskAfter]
  | cons s ss ih =>
    cases s with
    | write r t => simp [run, step, diskAfter, ih]
    | load r n p pr => simp [run, step, diskAfter, ih]

theorem diskAfter_append (d : Disk) (pre post : List Step) :
    diskAfter d (pre ++ post) = diskAfter (diskAfter d pre) post := by
  induction pre generalizing d with
  | nil => simp [diskAfter]
  | cons s ss ih => cases s <;> simp [diskAfter, ih]

theorem diskAfter_filter_writes (d : Disk) (l : List Step) :
    diskAfter d (l.filter Step.isWrite) = diskAfter d l := by
  induction l generalizing d with
  | nil => rfl
  | cons s ss ih => cases s <;> simp [List.filter, Step.isWrite, diskAfter, ih]

theorem run_filter_writes (d : Disk) (l : List Step) : run d (l.filter Step.isWrite) = [] := by
  induction l generalizing d with
  | nil => rfl
  | cons s ss ih => cases s <;> simp [List.filter, Step.isWrite, run, step, ih]

/-- steps that do not write to `root` leave the directory at `root` as it is -/
def Step.writesTo (root : Str) : Step → Bool
  | .write r _ => r == root
  | .load .. => false

theorem assoc_diskAfter_untouched (d : Disk) (l : List Step) (root : Str)
    (h : ∀ s ∈ l, Step.writesTo root s = false) : assoc (diskAfter d l) root = assoc d root := by
  induction l generalizing d with
  | nil => rfl
  | cons s ss ih =>
    have hs := h s (List.mem_cons_self ..)
    have hss : ∀ s ∈ ss, Step.writesTo root s = false := fun x hx => h x (List.mem_cons_of_mem _ hx)
    cases s with
    | write r t =>
      have hne : root ≠ r := by
        intro e; subst e; simp [Step.writesTo] at hs
      simp only [diskAfter]
      rw [ih _ hss, assoc_writeTeam_other _ _ _ _ hne]
    | load r n p pr => simpa [diskAfter] using ih d hss

theorem answer_congr (d d' : Disk) (root : Str) (names : List Str) (params : Vars) (prov : Option Prov)
    (h : assoc d root = assoc d' root) : answer d root names params prov = answer d' root names params prov := by
  unfold answer loadCarAt teamAt
  rw [h]

end Team
