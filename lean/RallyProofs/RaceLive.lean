import RallyProofs.RaceDeadlock
/-! Deadlock-freedom of the race protocol model for schedules whose elements end through completed-by (C01). -/
namespace Race

def completingType (t : TaskA) : Bool := t.cp || t.acp

/-- worker `u` can finish element `e` on its own: every task that does not end by itself sits in or after a column
    holding a finite task whose end sets the worker-local completion flag -/
def SelfEnding (cfg : Cfg) (u e : Nat) : Prop :=
  ∀ (c : Nat) (col : List TaskA) (t : TaskA), (cfg.elems u e)[c]? = some col → t ∈ col → t.finite = false →
    ∃ (c' : Nat) (col' : List TaskA) (t' : TaskA), c' ≤ c ∧ (cfg.elems u e)[c']? = some col' ∧ t' ∈ col' ∧ completingType t' = true ∧ t'.finite = true

/-- "every element can end" -/
structure Cfg.CanEnd (cfg : Cfg) : Prop where
  cp_finite : ∀ (w e : Nat) (col : List TaskA) (t : TaskA), col ∈ cfg.elems w e → t ∈ col → t.cp = true → t.finite = true
  ends : ∀ e, e < cfg.S →
    (∀ u, u < cfg.W → SelfEnding cfg u e) ∨
    ((cfg.joins (e + 1)).completing ≠ [] ∧
      ∀ c ∈ (cfg.joins (e + 1)).completing, cfg.workerOf c < cfg.W ∧ SelfEnding cfg (cfg.workerOf c) e) ∨
    (∃ u, u < cfg.W ∧ (∃ c ∈ (cfg.joins (e + 1)).anyC, c ∈ cfg.clientsOf u) ∧ SelfEnding cfg u e)

/-! ### worker-local invariant: the executor runs its column; no completing-type task has ended while the flag is unset -/

@[reducible] def KInv (cfg : Cfg) (s : State) : Prop :=
  ∀ w e c, (s.ws w).pos = .inCol e c →
    (∀ ts, (s.ws w).exec = .running ts → (cfg.elems w e)[c]? = some (ts.map (·.1))) ∧
    ((s.ws w).complete = false →
      (∀ (c' : Nat) (col : List TaskA) (t : TaskA), c' < c → (cfg.elems w e)[c']? = some col → t ∈ col → completingType t = false) ∧
      (∀ (ts : List (TaskA × Bool)) (i : Nat) (t : TaskA), (s.ws w).exec = .running ts → ts[i]? = some (t, true) → completingType t = false) ∧
      ((s.ws w).exec = .finished → ∀ (col : List TaskA) (t : TaskA), (cfg.elems w e)[c]? = some col → t ∈ col → completingType t = false))

theorem setDone_map_fst (ts : List (TaskA × Bool)) (i : Nat) : (setDone ts i).map (·.1) = ts.map (·.1) := by
  unfold setDone
  rw [List.map_map]
  have : ((fun p : TaskA × Bool => p.1) ∘ fun (x : (TaskA × Bool) × Nat) => if x.2 = i then (x.1.1, true) else x.1) =
      fun x => x.1.1 := by
    funext x
    simp only [Function.comp]
    split <;> rfl
  rw [this]
  have h2 : (ts.zipIdx.map fun x => x.1.1) = (ts.zipIdx.map (·.1)).map (·.1) := by rw [List.map_map]; rfl
  rw [h2]
  congr 1
  -- map fst of zipIdx
  have : ∀ (l : List (TaskA × Bool)) (k : Nat), (l.zipIdx k).map (·.1) = l := by
    intro l
    induction l with
    | nil => intro k; rfl
    | cons x xs ih => intro k; simp [List.zipIdx_cons, ih]
  exact this ts 0

theorem setDone_getElem (ts : List (TaskA × Bool)) (i j : Nat) (t : TaskA) (h : (setDone ts i)[j]? = some (t, true)) :
    ts[j]? = some (t, true) ∨ (j = i ∧ ∃ b, ts[j]? = some (t, b)) := by
  unfold setDone at h
  simp only [List.getElem?_map, List.getElem?_zipIdx, Nat.zero_add] at h
  cases hj : ts[j]? with
  | none => simp [hj] at h
  | some p =>
    simp only [hj, Option.map_some] at h
    by_cases hji : j = i
    · right
      simp only [hji, if_true, Option.some.injEq, Prod.mk.injEq] at h
      exact ⟨hji, p.2, by rw [← h.1]⟩
    · left
      simp only [hji, if_false, Option.some.injEq] at h
      rw [h]

theorem init_kinv (cfg : Cfg) : KInv cfg (init cfg) := by
  intro w e c hp; simp [init] at hp

theorem kinv_frame {cfg : Cfg} {s s' : State} (h : KInv cfg s) (hf : ∀ w, s'.ws w = s.ws w) : KInv cfg s' := by
  intro w e c hp
  rw [hf w] at hp ⊢
  exact h w e c hp

/-- KInv after an update of worker `w` alone -/
theorem kinv_upd {cfg : Cfg} {s : State} {w : Nat} (h : KInv cfg s) (ws' : WState)
    (hw : ∀ e c, ws'.pos = .inCol e c →
      (∀ ts, ws'.exec = .running ts → (cfg.elems w e)[c]? = some (ts.map (·.1))) ∧
      (ws'.complete = false →
        (∀ (c' : Nat) (col : List TaskA) (t : TaskA), c' < c → (cfg.elems w e)[c']? = some col → t ∈ col → completingType t = false) ∧
        (∀ (ts : List (TaskA × Bool)) (i : Nat) (t : TaskA), ws'.exec = .running ts → ts[i]? = some (t, true) → completingType t = false) ∧
        (ws'.exec = .finished → ∀ (col : List TaskA) (t : TaskA), (cfg.elems w e)[c]? = some col → t ∈ col → completingType t = false))) :
    KInv cfg { s with ws := upd s.ws w ws' } := by
  intro v e c hp
  by_cases hvw : v = w
  · subst hvw
    simp only [upd_same] at hp ⊢
    exact hw e c hp
  · simp only [upd_other _ _ _ _ hvw] at hp ⊢
    exact h v e c hp

theorem kinv_driveNext {cfg : Cfg} {w : Nat} {s0 s' : State} (h0 : KInv cfg s0)
    (hex : (s0.ws w).exec = .none ∧
      ∀ e c, (s0.ws w).pos = .inCol e c → (s0.ws w).complete = false →
        (∀ (c' : Nat) (col : List TaskA) (t : TaskA), c' < c → (cfg.elems w e)[c']? = some col → t ∈ col → completingType t = false) ∧
        (∀ (col : List TaskA) (t : TaskA), (cfg.elems w e)[c]? = some col → t ∈ col → completingType t = false))
    (hd : driveNext cfg w s0 = some s') : KInv cfg s' := by
  rcases driveNext_cases hd with ⟨j, rfl⟩ | ⟨e, c, col, hcol, rfl, hcf, hfrom⟩
  · intro v e c hp
    by_cases hvw : v = w
    · subst hvw; simp [toJoin] at hp
    · have hp0 : (s0.ws v).pos = .inCol e c := by simpa [toJoin, upd, hvw] using hp
      have := h0 v e c hp0
      simpa [toJoin, upd, hvw] using this
  · have := kinv_upd (w := w) h0 { s0.ws w with pos := .inCol e c, exec := .running (col.map fun t => (t, false)), wake := (s0.ws w).wake + 1 } ?_
    · intro v e' c' hp
      exact this v e' c' hp
    · intro e' c' hp'
      simp only [Pos.inCol.injEq] at hp'
      obtain ⟨rfl, rfl⟩ := hp'
      refine ⟨?_, ?_⟩
      · intro ts hts
        simp only [Exec.running.injEq] at hts
        subst hts
        simp [hcol, List.map_map, Function.comp_def]
      · intro _
        refine ⟨?_, ?_, by simp⟩
        · intro c' col' t hlt hc' ht
          rcases hfrom with ⟨_, rfl⟩ | ⟨c0, hp0, rfl⟩
          · omega
          · have := hex.2 e c0 hp0 hcf
            by_cases hc0 : c' < c0
            · exact this.1 c' col' t hc0 hc' ht
            · have : c' = c0 := by omega
              subst this
              exact (hex.2 e c' hp0 hcf).2 col' t hc' ht
        · intro ts i t hts hget
          simp only [Exec.running.injEq] at hts
          subst hts
          simp only [List.getElem?_map] at hget
          cases hci : col[i]? with
          | none => simp [hci] at hget
          | some x => simp [hci] at hget

theorem step_kinv {cfg : Cfg} {s s' : State} {e : Event} (hinv : Inv cfg s) (hk : KInv cfg s)
    (h : step cfg s e = some s') : KInv cfg s' := by
  cases e with
  | deliverDW w =>
    simp only [step] at h
    cases hq : s.d2w w with
    | nil => simp [hq] at h
    | cons m rest =>
      simp only [hq] at h
      cases m with
      | startWorker =>
        simp only at h
        cases hp : (s.ws w).pos with
        | unstarted =>
          simp only [hp] at h; injection h with h; subst h
          intro v e c hpv
          by_cases hvw : v = w
          · subst hvw; simp [toJoin] at hpv
          · have hp0 : (s.ws v).pos = .inCol e c := by simpa [toJoin, upd, hvw] using hpv
            simpa [toJoin, upd, hvw] using hk v e c hp0
        | atJoin j => simp [hp] at h
        | inCol e c => simp [hp] at h
      | drive =>
        simp only at h; injection h with h; subst h
        apply kinv_upd (s := { s with d2w := upd s.d2w w rest }) (by exact hk)
        intro e c hp
        exact hk w e c (by simpa using hp)
      | cct =>
        simp only at h
        split at h <;> (injection h with h; subst h)
        · exact hk
        · apply kinv_upd (s := { s with d2w := upd s.d2w w rest }) (by exact hk)
          intro e c hp
          have := hk w e c (by simpa using hp)
          exact ⟨this.1, by intro hc; simp at hc⟩
  | wakeW w =>
    simp only [step] at h
    by_cases hwk0 : (s.ws w).wake = 0
    · simp [hwk0] at h
    rw [if_neg hwk0] at h
    have hw : w < cfg.W := lt_W_of_wake hinv hwk0
    have hwi := hinv.winv w hw
    by_cases hsd : (s.ws w).startDriving = true
    · rw [if_pos hsd] at h
      -- armed: parked at a join point, no executor
      have hpos : ∃ j, (s.ws w).pos = .atJoin j ∧ (s.ws w).exec = .none := by
        unfold WInv at hwi
        cases hp : (s.ws w).pos with
        | unstarted => simp only [hp] at hwi; rw [hwi.2.2.2.2.2.1] at hsd; cases hsd
        | inCol e c => simp only [hp] at hwi; rw [hwi.2.2.2.2.2.2.1] at hsd; cases hsd
        | atJoin j => simp only [hp] at hwi; exact ⟨j, rfl, hwi.2.1⟩
      obtain ⟨j, hpj, hexn⟩ := hpos
      refine kinv_driveNext (s0 := { s with ws := upd s.ws w { (s.ws w) with wake := (s.ws w).wake - 1, startDriving := false } })
        (kinv_upd hk _ ?_) ⟨by simpa using hexn, ?_⟩ h
      · intro e c hp; simp [hpj] at hp
      · intro e c hp; simp [hpj] at hp
    · rw [if_neg hsd] at h
      cases hexec : (s.ws w).exec with
      | finished =>
        simp only [hexec] at h
        refine kinv_driveNext (s0 := { s with ws := upd s.ws w { (s.ws w) with wake := (s.ws w).wake - 1, exec := .none } })
          (kinv_upd hk _ ?_) ⟨by simp, ?_⟩ h
        · intro e c hp
          have := hk w e c (by simpa using hp)
          refine ⟨by intro ts hts; simp at hts, ?_⟩
          intro hc
          have h2 := this.2 (by simpa using hc)
          exact ⟨h2.1, by intro ts i t hts; simp at hts, by intro hf; simp at hf⟩
        · intro e c hp hc
          have := hk w e c (by simpa using hp)
          have h2 := this.2 (by simpa using hc)
          exact ⟨h2.1, h2.2.2 hexec⟩
      | none =>
        simp only [hexec] at h; injection h with h; subst h
        apply kinv_upd hk
        intro e c hp
        have := hk w e c (by simpa using hp)
        simpa [hexec] using this
      | running ts =>
        simp only [hexec] at h; injection h with h; subst h
        apply kinv_upd hk
        intro e c hp
        have := hk w e c (by simpa using hp)
        simpa [hexec] using this
  | taskDone w i =>
    simp only [step] at h
    cases hexec : (s.ws w).exec with
    | none => simp [hexec] at h
    | finished => simp [hexec] at h
    | running ts =>
      simp only [hexec] at h
      cases hget : ts[i]? with
      | none => simp [hget] at h
      | some p =>
        obtain ⟨t, b⟩ := p
        cases b with
        | true => simp [hget] at h
        | false =>
          simp only [hget] at h
          split at h
          · injection h with h; subst h
            apply kinv_upd hk
            intro e c hp
            have hk0 := hk w e c (by simpa using hp)
            refine ⟨?_, ?_⟩
            · intro ts' hts'
              simp only [Exec.running.injEq] at hts'
              subst hts'
              rw [setDone_map_fst]
              exact hk0.1 ts hexec
            · intro hc
              simp only [Bool.or_eq_false_iff] at hc
              have h2 := hk0.2 hc.1.1
              refine ⟨h2.1, ?_, by intro hf; simp at hf⟩
              intro ts' j t' hts' hgj
              simp only [Exec.running.injEq] at hts'
              subst hts'
              rcases setDone_getElem ts i j t' hgj with h3 | ⟨rfl, b, h3⟩
              · exact h2.2.1 ts j t' hexec h3
              · rw [hget] at h3
                simp only [Option.some.injEq, Prod.mk.injEq] at h3
                rw [← h3.1]
                simp [completingType, hc.1.2, hc.2]
          · exact absurd h (by simp)
  | execFinish w =>
    simp only [step] at h
    cases hexec : (s.ws w).exec with
    | none => simp [hexec] at h
    | finished => simp [hexec] at h
    | running ts =>
      simp only [hexec] at h
      split at h
      · rename_i had
        injection h with h; subst h
        apply kinv_upd hk
        intro e c hp
        have hk0 := hk w e c (by simpa using hp)
        refine ⟨by intro ts' hts'; simp at hts', ?_⟩
        intro hc
        have h2 := hk0.2 (by simpa using hc)
        refine ⟨h2.1, by intro ts' i t hts'; simp at hts', ?_⟩
        intro _ col t hcol ht
        -- every task of the column is in the running list and marked done
        have hmap := hk0.1 ts hexec
        rw [hcol] at hmap
        simp only [Option.some.injEq] at hmap
        rw [hmap] at ht
        simp only [List.mem_map] at ht
        obtain ⟨p, hp', rfl⟩ := ht
        obtain ⟨i, hi, hgi⟩ := List.getElem_of_mem hp'
        have hdone : p.2 = true := by
          unfold allDone at had
          exact List.all_eq_true.mp had p hp'
        have : ts[i]? = some (p.1, true) := by
          rw [List.getElem?_eq_getElem hi, hgi, ← hdone]
        exact h2.2.1 ts i p.1 hexec this
      · exact absurd h (by simp)
  | deliverWD w =>
    simp only [step] at h
    cases hq : s.w2d w with
    | nil => simp [hq] at h
    | cons m rest =>
      cases m with
      | jpr j =>
      simp only [hq] at h
      injection h with h
      have hframe : s'.ws = s.ws := by
        unfold joinpointReached at h
        simp only at h
        split at h
        · split at h <;> (subst h; rfl)
        · rcases mayComplete_shape cfg w (cfg.joins j)
            { s with w2d := upd s.w2d w rest, d := { s.d with completed := s.d.completed + 1, reported := w :: s.d.reported } }
            with hm | ⟨hm, _⟩ <;> (rw [hm] at h; subst h; rfl)
      exact kinv_frame hk (fun v => by rw [hframe])

theorem reach_kinv {cfg : Cfg} {s : State} (hwf : cfg.WF) (h : Reach cfg s) : KInv cfg s := by
  induction h with
  | init => exact init_kinv cfg
  | step s s' e hr hstep ih => exact step_kinv (reach_inv hwf hr) ih hstep

end Race

namespace Race

/-! ### driver-side invariant: while the completion has not been broadcast, the workers it waits for have not reported -/

@[reducible] def NInv (cfg : Cfg) (s : State) : Prop :=
  s.d.cctSent = false →
    ((cfg.joins s.d.stepP1).completing ≠ [] →
      ∃ c ∈ (cfg.joins s.d.stepP1).completing, cfg.workerOf c ∉ s.d.reported) ∧
    (∀ u ∈ s.d.reported, ¬ ∃ c ∈ (cfg.joins s.d.stepP1).anyC, c ∈ cfg.clientsOf u)

/-- a JoinPointReached in flight is for the current join point and comes from a worker not yet counted -/
theorem jpr_is_current {cfg : Cfg} {s : State} {w j : Nat} {rest : List MsgWD} (hinv : Inv cfg s)
    (hq : s.w2d w = .jpr j :: rest) : w < cfg.W ∧ j = s.d.stepP1 ∧ w ∉ s.d.reported ∧ rest = [] := by
  have hw : w < cfg.W := lt_W_of_w2d hinv (by simp [hq])
  have hwi := hinv.winv w hw
  unfold WInv at hwi
  cases hp : (s.ws w).pos with
  | unstarted => simp only [hp] at hwi; rw [hq] at hwi; simp at hwi
  | inCol e c => simp only [hp] at hwi; rw [hq] at hwi; simp at hwi
  | atJoin j' =>
    simp only [hp] at hwi
    rcases hwi.2.2.2 with ⟨hjD, _, _, _, _, halt⟩ | ⟨_, hwd, _⟩
    · rcases halt with ⟨hwd, hrep⟩ | ⟨hwd, _⟩
      · rw [hq] at hwd
        simp only [List.cons.injEq, MsgWD.jpr.injEq] at hwd
        obtain ⟨rfl, hrest⟩ := hwd
        exact ⟨hw, hjD, hrep, hrest⟩
      · rw [hq] at hwd; simp at hwd
    · rw [hq] at hwd; simp at hwd

theorem init_ninv (cfg : Cfg) (hwf : cfg.WF) : NInv cfg (init cfg) := by
  intro _
  simp [init, hwf.join0.1]

theorem step_ninv {cfg : Cfg} {s s' : State} {e : Event} (hinv : Inv cfg s) (hn : NInv cfg s)
    (h : step cfg s e = some s') : NInv cfg s' := by
  -- every event except the delivery of a JoinPointReached leaves the driver state alone
  have hd_same : s'.d = s.d → NInv cfg s' := by
    intro hd; unfold NInv; rw [hd]; exact hn
  cases e with
  | deliverDW w =>
    apply hd_same
    simp only [step] at h
    cases hq : s.d2w w with
    | nil => simp [hq] at h
    | cons m rest =>
      simp only [hq] at h
      cases m with
      | startWorker =>
        simp only at h
        cases hp : (s.ws w).pos with
        | unstarted => simp only [hp] at h; injection h with h; subst h; simp [toJoin]
        | atJoin j => simp [hp] at h
        | inCol e c => simp [hp] at h
      | drive => simp only at h; injection h with h; subst h; rfl
      | cct => simp only at h; split at h <;> (injection h with h; subst h; rfl)
  | wakeW w =>
    apply hd_same
    simp only [step] at h
    by_cases hwk0 : (s.ws w).wake = 0
    · simp [hwk0] at h
    rw [if_neg hwk0] at h
    have hdn : ∀ s0 : State, driveNext cfg w s0 = some s' → s0.d = s.d → s'.d = s.d := by
      intro s0 hd h0
      rcases driveNext_cases hd with ⟨j, rfl⟩ | ⟨e, c, col, _, rfl, _, _⟩
      · simpa [toJoin] using h0
      · exact h0
    by_cases hsd : (s.ws w).startDriving = true
    · rw [if_pos hsd] at h; exact hdn _ h rfl
    · rw [if_neg hsd] at h
      cases hexec : (s.ws w).exec with
      | finished => simp only [hexec] at h; exact hdn _ h rfl
      | none => simp only [hexec] at h; injection h with h; subst h; rfl
      | running ts => simp only [hexec] at h; injection h with h; subst h; rfl
  | taskDone w i =>
    apply hd_same
    simp only [step] at h
    cases hexec : (s.ws w).exec with
    | none => simp [hexec] at h
    | finished => simp [hexec] at h
    | running ts =>
      simp only [hexec] at h
      split at h
      · split at h
        · injection h with h; subst h; rfl
        · exact absurd h (by simp)
      · exact absurd h (by simp)
  | execFinish w =>
    apply hd_same
    simp only [step] at h
    cases hexec : (s.ws w).exec with
    | none => simp [hexec] at h
    | finished => simp [hexec] at h
    | running ts =>
      simp only [hexec] at h
      split at h
      · injection h with h; subst h; rfl
      · exact absurd h (by simp)
  | deliverWD w =>
    simp only [step] at h
    cases hq : s.w2d w with
    | nil => simp [hq] at h
    | cons m rest =>
      cases m with
      | jpr j =>
      obtain ⟨hw, hjD, hrepw, _⟩ := jpr_is_current hinv hq
      simp only [hq] at h
      injection h with h
      unfold joinpointReached at h
      simp only at h
      by_cases hall : s.d.completed + 1 = cfg.W
      · rw [if_pos hall] at h
        split at h
        · subst h
          intro _
          refine ⟨?_, by simp⟩
          intro hne
          cases hc : (cfg.joins (s.d.stepP1 + 1)).completing with
          | nil => exact absurd hc hne
          | cons x xs => exact ⟨x, by simp [hc], by simp⟩
        · subst h
          intro _
          refine ⟨?_, by simp⟩
          intro hne
          cases hc : (cfg.joins (s.d.stepP1 + 1)).completing with
          | nil => exact absurd hc hne
          | cons x xs => exact ⟨x, by simp [hc], by simp⟩
      · rw [if_neg hall] at h
        subst h
        subst hjD
        unfold mayComplete
        simp only
        by_cases hany : ((cfg.joins s.d.stepP1).anyC.any fun c => (cfg.clientsOf w).contains c) = true
        · by_cases hcs : s.d.cctSent = true
          · -- already sent: nothing to show
            simp only [hany, hcs, Bool.not_true, Bool.and_false, Bool.false_eq_true, if_false]
            intro hf
            simp only [hcs] at hf
            cases hf
          · have hcs' : s.d.cctSent = false := by simpa using hcs
            simp only [hany, hcs', Bool.not_false, Bool.and_self, if_true]
            intro hf; simp at hf
        · have hany' : ((cfg.joins s.d.stepP1).anyC.any fun c => (cfg.clientsOf w).contains c) = false := by simpa using hany
          have hnohit : ¬ ∃ c ∈ (cfg.joins s.d.stepP1).anyC, c ∈ cfg.clientsOf w := by
            rintro ⟨c, hc1, hc2⟩
            have := List.any_eq_false.mp hany' c hc1
            simp [hc2] at this
          by_cases hcs : s.d.cctSent = true
          · simp only [hany', Bool.false_and, Bool.false_eq_true, if_false, hcs, Bool.not_true, Bool.and_false]
            intro hf
            simp only [hcs] at hf
            cases hf
          · have hcs' : s.d.cctSent = false := by simpa using hcs
            have hn0 := hn hcs'
            have hsecond : ∀ u ∈ w :: s.d.reported, ¬ ∃ c ∈ (cfg.joins s.d.stepP1).anyC, c ∈ cfg.clientsOf u := by
              intro u hu
              rcases List.mem_cons.mp hu with rfl | hu
              · exact hnohit
              · exact hn0.2 u hu
            simp only [hany', Bool.false_and, Bool.false_eq_true, if_false, hcs', Bool.not_false, Bool.and_true]
            by_cases hemp : (cfg.joins s.d.stepP1).completing.isEmpty = true
            · simp only [hemp, Bool.not_true, Bool.false_eq_true, if_false]
              intro _
              refine ⟨?_, hsecond⟩
              intro hne
              exact absurd (List.isEmpty_iff.mp hemp) hne
            · have hemp' : (cfg.joins s.d.stepP1).completing.isEmpty = false := by simpa using hemp
              simp only [hemp', Bool.not_false, if_true]
              by_cases hallr : ((cfg.joins s.d.stepP1).completing.all fun c => (w :: s.d.reported).contains (cfg.workerOf c)) = true
              · simp only [hallr, if_true]
                intro hf; simp at hf
              · simp only [hallr, Bool.false_eq_true, if_false]
                intro _
                refine ⟨?_, hsecond⟩
                intro _
                simp only [List.all_eq_true, not_forall] at hallr
                obtain ⟨c, hc, hnc⟩ := hallr
                refine ⟨c, hc, ?_⟩
                simpa using hnc

theorem reach_ninv {cfg : Cfg} {s : State} (hwf : cfg.WF) (h : Reach cfg s) : NInv cfg s := by
  induction h with
  | init => exact init_ninv cfg hwf
  | step s s' e hr hstep ih => exact step_ninv (reach_inv hwf hr) ih hstep

end Race

namespace Race

/-- a worker that cannot move although it is not waiting at the barrier: it is inside the current element with a
    running executor whose unfinished tasks all wait for the completion flag, which is not set -/
structure Blocked (cfg : Cfg) (s : State) (v e : Nat) : Prop where
  ex : ∃ c ts, (s.ws v).pos = .inCol e c ∧ (s.ws v).exec = .running ts ∧
    (cfg.elems v e)[c]? = some (ts.map (·.1)) ∧
    (∀ (i : Nat) (t : TaskA), ts[i]? = some (t, false) → t.finite = false) ∧
    (∃ (i : Nat) (t : TaskA), ts[i]? = some (t, false)) ∧
    (∀ (c' : Nat) (col : List TaskA) (t : TaskA), c' < c → (cfg.elems v e)[c']? = some col → t ∈ col → completingType t = false) ∧
    (∀ (i : Nat) (t : TaskA), ts[i]? = some (t, true) → completingType t = false)
  flag : (s.ws v).complete = false

/-- a blocked worker cannot be self-ending -/
theorem blocked_not_selfEnding {cfg : Cfg} {s : State} {v e : Nat} (hb : Blocked cfg s v e) : ¬ SelfEnding cfg v e := by
  intro hse
  obtain ⟨c, ts, _, _, hcol, hnf, ⟨i, t, hget⟩, hearlier, hdone⟩ := hb.ex
  have htmem : t ∈ ts.map (·.1) := by
    have := List.mem_of_getElem? hget
    exact List.mem_map.mpr ⟨(t, false), this, rfl⟩
  obtain ⟨c', col', t', hle, hcol', ht', hct, hfin⟩ := hse c (ts.map (·.1)) t hcol htmem (hnf i t hget)
  by_cases hlt : c' < c
  · have := hearlier c' col' t' hlt hcol' ht'
    rw [this] at hct; cases hct
  · have hcc : c' = c := by omega
    subst hcc
    rw [hcol] at hcol'
    simp only [Option.some.injEq] at hcol'
    rw [← hcol'] at ht'
    simp only [List.mem_map] at ht'
    obtain ⟨p, hp, rfl⟩ := ht'
    obtain ⟨k, hk, hgk⟩ := List.getElem_of_mem hp
    have hpk : ts[k]? = some p := by rw [List.getElem?_eq_getElem hk, hgk]
    obtain ⟨pt, pb⟩ := p
    cases pb with
    | true =>
      have := hdone k pt hpk
      simp only at hct
      rw [this] at hct; cases hct
    | false =>
      have := hnf k pt hpk
      simp only at hfin
      rw [this] at hfin; cases hfin

/-- **no deadlock for schedules whose elements end through completed-by**: in every reachable state of a race that is
    not over some event is enabled that changes the state, provided every element can end (`Cfg.CanEnd`). -/
theorem no_deadlock_canEnd {cfg : Cfg} {s : State} (hwf : cfg.WF) (hce : cfg.CanEnd) (hr : Reach cfg s)
    (hunf : s.d.stepP1 ≤ cfg.S) :
    ∃ e s', step cfg s e = some s' ∧ Changed s s' := by
  have hinv := reach_inv hwf hr
  have hcinv := reach_cinv hwf hr
  have hkinv := reach_kinv hwf hr
  have hninv := reach_ninv hwf hr
  by_cases hch : ∃ w, w < cfg.W ∧ s.d2w w ≠ []
  · obtain ⟨w, hw, hne⟩ := hch
    obtain ⟨s', h1, h2⟩ := deliverDW_enabled hw hinv hne
    exact ⟨_, s', h1, h2⟩
  by_cases hch2 : ∃ w, w < cfg.W ∧ s.w2d w ≠ []
  · obtain ⟨w, _, hne⟩ := hch2
    obtain ⟨s', h1, h2⟩ := deliverWD_enabled (cfg := cfg) hne
    exact ⟨_, s', h1, h2⟩
  have hd2w : ∀ w, w < cfg.W → s.d2w w = [] := by
    intro w hw; by_contra hne; exact hch ⟨w, hw, hne⟩
  have hw2d : ∀ w, w < cfg.W → s.w2d w = [] := by
    intro w hw; by_contra hne; exact hch2 ⟨w, hw, hne⟩
  by_contra hstuck
  have hstuck' : ∀ e s', step cfg s e = some s' → ¬ Changed s s' := by
    intro e s' h1 h2; exact hstuck ⟨e, s', h1, h2⟩
  -- every worker that is not waiting at the barrier is blocked inside the current element
  have hblocked : ∀ v, v < cfg.W → v ∉ s.d.reported → ∃ e, e + 1 = s.d.stepP1 ∧ Blocked cfg s v e := by
    intro w hw hnr
    have hwi := hinv.winv w hw
    unfold WInv at hwi
    have hchange : ∀ (s' : State), (s'.ws w ≠ s.ws w) → Changed s s' := fun s' h => Or.inr (Or.inr ⟨w, h⟩)
    cases hp : (s.ws w).pos with
    | unstarted => simp only [hp] at hwi; rw [hd2w w hw] at hwi; simp at hwi
    | atJoin j =>
      exfalso
      simp only [hp] at hwi
      obtain ⟨_, hex, hjS, hcase⟩ := hwi
      rcases hcase with ⟨_, _, _, _, _, halt⟩ | ⟨hjD, _, _, h3⟩
      · rcases halt with ⟨hq, _⟩ | ⟨_, hmem⟩
        · rw [hw2d w hw] at hq; simp at hq
        · exact hnr hmem
      · rcases h3 with ⟨hD, _⟩ | ⟨_, hdc, _⟩ | ⟨hDS, _, hsd, hwk⟩
        · omega
        · rw [hd2w w hw] at hdc; simp [driveCount] at hdc
        · have hwk0 : ¬ (s.ws w).wake = 0 := by omega
          obtain ⟨s', hs', hne⟩ := driveNext_enabled (cfg := cfg) (w := w) (e := j) (c := 0)
            (s0 := { s with ws := upd s.ws w { (s.ws w) with wake := (s.ws w).wake - 1, startDriving := false } })
            (by omega) (Or.inl ⟨by simp [hp], rfl⟩)
          refine hstuck' (.wakeW w) s' (by simp only [step, if_neg hwk0, if_pos hsd]; exact hs') (hchange s' ?_)
          intro heq
          apply hne
          rw [heq]
          simp
    | inCol e c =>
      simp only [hp] at hwi
      obtain ⟨heD, hDS, _, _, _, _, hsd, hwk, hex⟩ := hwi
      have hwk0 : ¬ (s.ws w).wake = 0 := by omega
      have hnsd : ¬ (s.ws w).startDriving = true := by simp [hsd]
      have hk := hkinv w e c hp
      cases hexec : (s.ws w).exec with
      | none => exact absurd hexec hex
      | finished =>
        exfalso
        obtain ⟨s', hs', hne⟩ := driveNext_enabled (cfg := cfg) (w := w) (e := e) (c := c + 1)
          (s0 := { s with ws := upd s.ws w { (s.ws w) with wake := (s.ws w).wake - 1, exec := .none } })
          (by omega) (Or.inr ⟨c, by simp [hp], rfl⟩)
        refine hstuck' (.wakeW w) s' (by simp only [step, if_neg hwk0, if_neg hnsd, hexec]; exact hs') (hchange s' ?_)
        intro heq
        apply hne
        rw [heq]
        simp
      | running ts =>
        have hcolmap := hk.1 ts hexec
        by_cases had : allDone ts = true
        · exfalso
          refine hstuck' (.execFinish w) { s with ws := upd s.ws w { (s.ws w) with exec := .finished } }
            (by simp only [step, hexec, if_pos had]) (hchange _ ?_)
          intro heq
          have := congrArg WState.exec heq
          simp only [upd_same] at this
          rw [hexec] at this
          cases this
        · -- no unfinished task can return
          have hnone : ∀ (i : Nat) (t : TaskA), ts[i]? = some (t, false) →
              ¬ (t.finite || ((s.ws w).complete && !t.cp)) = true := by
            intro i t hget hcan
            refine hstuck' (.taskDone w i)
              { s with ws := upd s.ws w { (s.ws w) with exec := .running (setDone ts i), complete := (s.ws w).complete || t.cp || t.acp } }
              (by simp only [step, hexec, hget, hcan, if_true]) (hchange _ ?_)
            intro heq
            have hx := congrArg WState.exec heq
            simp only [upd_same] at hx
            rw [hexec] at hx
            injection hx with hx
            have h1 : (setDone ts i)[i]? = some (t, true) := by
              unfold setDone
              simp [List.getElem?_map, List.getElem?_zipIdx, hget]
            rw [hx, hget] at h1
            cases h1
          have hex2 : ∃ (i : Nat) (t : TaskA), ts[i]? = some (t, false) := by
            unfold allDone at had
            simp only [List.all_eq_true, not_forall] at had
            obtain ⟨p, hpm, hpf⟩ := had
            obtain ⟨i, hi, hget⟩ := List.getElem_of_mem hpm
            refine ⟨i, p.1, ?_⟩
            rw [List.getElem?_eq_getElem hi, hget]
            have : p.2 = false := by simpa using hpf
            rw [← this]
          -- the flag is not set: otherwise the (non-completing) unfinished task could return
          have hnf : ∀ (i : Nat) (t : TaskA), ts[i]? = some (t, false) → t.finite = false := by
            intro i t hget
            have := hnone i t hget
            simp only [Bool.or_eq_true, not_or] at this
            simpa using this.1
          have hflag : (s.ws w).complete = false := by
            obtain ⟨i, t, hget⟩ := hex2
            have h1 := hnone i t hget
            simp only [Bool.or_eq_true, Bool.and_eq_true, not_or, not_and] at h1
            by_contra hc
            have hc' : (s.ws w).complete = true := by simpa using hc
            have hcp : t.cp = true := by
              have := h1.2 hc'
              simpa using this
            -- a completing task is finite
            have hmem : t ∈ ts.map (·.1) := List.mem_map.mpr ⟨(t, false), List.mem_of_getElem? hget, rfl⟩
            have hcolmem : ts.map (·.1) ∈ cfg.elems w e := List.mem_of_getElem? hcolmap
            have := hce.cp_finite w e _ t hcolmem hmem hcp
            rw [hnf i t hget] at this
            cases this
          have hk2 := hk.2 hflag
          exact ⟨e, heD, ⟨⟨c, ts, hp, hexec, hcolmap, hnf, hex2, hk2.1, fun i t h => hk2.2.1 ts i t hexec h⟩, hflag⟩⟩
  -- somebody is not waiting
  have hmover : ∃ w, w < cfg.W ∧ w ∉ s.d.reported := by
    by_contra hall
    have hfull : ∀ x, x < cfg.W → x ∈ s.d.reported := by
      intro x hx; by_contra hx'; exact hall ⟨x, hx, hx'⟩
    have := length_ge_of_full hfull
    have h2 := hinv.completed_lt
    rw [hinv.completed_eq] at h2
    omega
  obtain ⟨w, hw, hnr⟩ := hmover
  obtain ⟨e, heD, hbw⟩ := hblocked w hw hnr
  have heS : e < cfg.S := by omega
  -- the completion has not been broadcast (it would have reached the blocked worker)
  have hcs : s.d.cctSent = false := by
    by_contra hc
    have hc' : s.d.cctSent = true := by simpa using hc
    obtain ⟨c, ts, hp, _⟩ := hbw.ex
    have := hcinv hc' w hw (by unfold inStep; rw [hp]; trivial)
    unfold completionPending at this
    rw [hd2w w hw, hbw.flag] at this
    simp [willComplete] at this
  have hn := hninv hcs
  rw [← heD] at hn
  rcases hce.ends e heS with hall | ⟨hne, hnamed⟩ | ⟨u, hu, hhost, hse⟩
  · exact blocked_not_selfEnding hbw (hall w hw)
  · obtain ⟨c, hc, hcr⟩ := hn.1 hne
    obtain ⟨huW, hse⟩ := hnamed c hc
    obtain ⟨e', heD', hbu⟩ := hblocked (cfg.workerOf c) huW hcr
    have : e' = e := by omega
    subst this
    exact blocked_not_selfEnding hbu hse
  · have hur : u ∉ s.d.reported := by
      intro hmem
      exact hn.2 u hmem hhost
    obtain ⟨e', heD', hbu⟩ := hblocked u hu hur
    have : e' = e := by omega
    subst this
    exact blocked_not_selfEnding hbu hse

end Race
