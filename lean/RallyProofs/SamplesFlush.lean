import RallyModel.Samples
import RallyProofs.Samples
/-
Flushing the sample pipeline (C07): from every state the flush of that state runs to the end and leaves nothing in
flight; the records behind a list of samples.
-/
namespace Samples

theorem run_append (cfg : Cfg) (s : State) (a b : List Event) :
    run cfg s (a ++ b) = (run cfg s a).bind fun s1 => run cfg s1 b := by
  induction a generalizing s with
  | nil => simp [run]
  | cons e es ih =>
    simp only [List.cons_append, run]
    cases step cfg s e with
    | none => simp
    | some s1 => simp [ih]

/-- what a stage of the flush leaves alone -/
structure Frame (s s' : State) : Prop where
  accepted : s'.accepted = s.accepted
  dropped : s'.dropped = s.dropped
  rstore_count : ∀ a, located a s' = located a s

theorem queueOf_head_ne_nil (s : State) (w : Nat) (a : Sid) (rest : List (Nat × Sid)) (h : s.samplers = (w, a) :: rest) :
    (queueOf s w).isEmpty = false := by
  simp [queueOf, h]

/-- stage 1: the ships -/
theorem ship_stage (cfg : Cfg) : ∀ (n : Nat) (s : State), s.samplers.length ≤ n →
    ∃ s1, run cfg s (shipAllF n s.samplers) = some s1 ∧ s1.samplers = [] ∧
      s1.w2d.map (·.1) = s.w2d.map (·.1) ++ shipped (shipAllF n s.samplers) ∧
      s1.raw = s.raw ∧ s1.dstore = s.dstore ∧ s1.d2r = s.d2r ∧ s1.rstore = s.rstore ∧
      s1.accepted = s.accepted ∧ s1.dropped = s.dropped ∧ s1.downsampled = s.downsampled ∧ s1.fed = s.fed := by
  intro n
  induction n with
  | zero =>
    intro s h
    have : s.samplers = [] := List.eq_nil_of_length_eq_zero (Nat.le_zero.mp h)
    exact ⟨s, by simp [shipAllF, run], this, by simp [shipAllF, shipped], rfl, rfl, rfl, rfl, rfl, rfl, rfl, rfl⟩
  | succ n ih =>
    intro s h
    cases hs : s.samplers with
    | nil => exact ⟨s, by simp [shipAllF, run], hs, by simp [shipAllF, shipped], rfl, rfl, rfl, rfl, rfl, rfl, rfl, rfl⟩
    | cons p rest =>
      obtain ⟨w, a⟩ := p
      have hne := queueOf_head_ne_nil s w a rest hs
      let s0 : State := { s with samplers := s.samplers.filter (fun p => !(p.1 == w)), w2d := s.w2d ++ [(w, queueOf s w)] }
      have hstep : step cfg s (.ship w) = some s0 := by simp [step, hne, s0]
      have hs0 : s0.samplers = rest.filter (fun p => !(p.1 == w)) := by simp [s0, hs]
      have hlen : s0.samplers.length ≤ n := by
        rw [hs0]
        have := List.length_filter_le (fun p : Nat × Sid => !(p.1 == w)) rest
        rw [hs] at h; simp only [List.length_cons] at h; omega
      obtain ⟨s1, hr, h1, h2, h3, h4, h5, h6, h7, h8, h9, h10⟩ := ih s0 hlen
      refine ⟨s1, ?_, h1, ?_, h3, h4, h5, h6, h7, h8, h9, h10⟩
      · simp only [shipAllF, run, hstep]; rw [← hs0]; exact hr
      · rw [h2, hs0]; simp [s0, shipAllF, shipped]

theorem extractFirst_head (w : Nat) (m : List Sid) (rest : List (Nat × List Sid)) :
    extractFirst w ((w, m) :: rest) = some (m, rest) := by simp [extractFirst]

/-- stage 2: the deliveries, in sending order -/
theorem deliver_stage (cfg : Cfg) : ∀ (l : List (Nat × List Sid)) (s : State), s.w2d = l →
    ∃ s2, run cfg s ((l.map (·.1)).map Event.deliverU) = some s2 ∧ s2.w2d = [] ∧ s2.samplers = s.samplers ∧
      s2.dstore = s.dstore ∧ s2.d2r = s.d2r ∧ s2.rstore = s.rstore ∧
      s2.accepted = s.accepted ∧ s2.dropped = s.dropped ∧ s2.downsampled = s.downsampled ∧ s2.fed = s.fed := by
  intro l
  induction l with
  | nil => intro s h; exact ⟨s, by simp [run], h, rfl, rfl, rfl, rfl, rfl, rfl, rfl, rfl⟩
  | cons p rest ih =>
    intro s h
    obtain ⟨w, m⟩ := p
    let s0 : State := { s with w2d := rest, raw := s.raw ++ m }
    have hstep : step cfg s (.deliverU w) = some s0 := by simp [step, h, extractFirst_head, s0]
    obtain ⟨s2, hr, h1, h2, h3, h4, h5, h6, h7, h8, h9⟩ := ih s0 rfl
    exact ⟨s2, by simp only [List.map_cons, run, hstep]; exact hr, h1, h2, h3, h4, h5, h6, h7, h8, h9⟩

/-- stage 4: race control receives every hand-over -/
theorem receive_stage (cfg : Cfg) : ∀ (l : List (List Sid)) (s : State), s.d2r = l →
    ∃ s4, run cfg s (List.replicate l.length .deliverR) = some s4 ∧ s4.d2r = [] ∧ s4.samplers = s.samplers ∧
      s4.w2d = s.w2d ∧ s4.raw = s.raw ∧ s4.dstore = s.dstore ∧ s4.rstore = s.rstore ++ l.flatten ∧
      s4.accepted = s.accepted ∧ s4.dropped = s.dropped ∧ s4.downsampled = s.downsampled ∧ s4.fed = s.fed := by
  intro l
  induction l with
  | nil => intro s h; exact ⟨s, by simp [run], h, rfl, rfl, rfl, rfl, by simp, rfl, rfl, rfl, rfl⟩
  | cons m rest ih =>
    intro s h
    let s0 : State := { s with d2r := rest, rstore := s.rstore ++ m }
    have hstep : step cfg s .deliverR = some s0 := by simp [step, h, s0]
    obtain ⟨s4, hr, h1, h2, h3, h4, h5, h6, h7, h8, h9, h10⟩ := ih s0 rfl
    refine ⟨s4, ?_, h1, h2, h3, h4, h5, ?_, h7, h8, h9, h10⟩
    · simp only [List.length_cons, List.replicate_succ, run, hstep]; exact hr
    · rw [h6]; simp [s0]

/-- **the flush of any state runs to the end and drains the pipeline**, with no new request -/
theorem flush_drains (cfg : Cfg) (s : State) :
    ∃ s', run cfg s (flush s) = some s' ∧ drained s' ∧ s'.accepted = s.accepted ∧ s'.dropped = s.dropped := by
  obtain ⟨s1, hr1, a1, a2, a3, a4, a5, a6, a7, a8, a9, a10⟩ := ship_stage cfg s.samplers.length s (Nat.le_refl _)
  obtain ⟨s2, hr2, b1, b2, b3, b4, b5, b6, b7, b8, b9⟩ := deliver_stage cfg s1.w2d s1 rfl
  let s3 : State := { s2 with raw := [], dstore := [], d2r := s2.d2r ++ [s2.dstore ++ keep cfg.factor s2.raw],
                              downsampled := s2.downsampled ++ lose cfg.factor s2.raw, fed := s2.fed ++ s2.raw }
  have hr3 : run cfg s2 [.postprocess, .handover] = some s3 := by simp [run, step, s3]
  obtain ⟨s4, hr4, c1, c2, c3, c4, c5, c6, c7, c8, c9, c10⟩ := receive_stage cfg s3.d2r s3 rfl
  have hlen : s3.d2r.length = s.d2r.length + 1 := by simp [s3, b4, a5]
  refine ⟨s4, ?_, ⟨?_, ?_, ?_, ?_, c1⟩, ?_, ?_⟩
  · unfold flush
    rw [run_append, run_append, run_append]
    have e1 : shipAll s.samplers = shipAllF s.samplers.length s.samplers := rfl
    rw [e1, hr1]
    simp only [Option.bind_some]
    rw [← a2, hr2]
    simp only [Option.bind_some]
    rw [hr3]
    simp only [Option.bind_some]
    rw [← hlen]; exact hr4
  · rw [c2]; simp [s3, b2, a1]
  · rw [c3]; simp [s3, b1]
  · rw [c4]
  · rw [c5]
  · rw [c7]; simp [s3, b6, a7]
  · rw [c8]; simp [s3, b7, a8]

theorem shipped_no_request : ∀ (n : Nat) (l : List (Nat × Sid)), ∀ e ∈ shipAllF n l, e.isRequest = false := by
  intro n
  induction n with
  | zero => intro l e h; simp [shipAllF] at h
  | succ n ih =>
    intro l e h
    cases l with
    | nil => simp [shipAllF] at h
    | cons p rest =>
      simp only [shipAllF, List.mem_cons] at h
      rcases h with h | h
      · subst h; rfl
      · exact ih _ e h

/-- the flush contains no request -/
theorem flush_no_request (s : State) : ∀ e ∈ flush s, e.isRequest = false := by
  intro e h
  simp only [flush, List.mem_append, List.mem_map, List.mem_cons, List.mem_replicate] at h
  rcases h with ((h | ⟨w, _, rfl⟩) | h) | h
  · exact shipped_no_request _ _ e h
  · rfl
  · rcases h with rfl | rfl | h
    · rfl
    · rfl
    · simp at h
  · rw [h.2]; rfl

/-! ### records -/

theorem records_perm (info : Sid → Info) {l l' : List Sid} (h : l.Perm l') : (records info l).Perm (records info l') :=
  List.Perm.flatMap_right _ h

theorem records_append (info : Sid → Info) (l l' : List Sid) : records info (l ++ l') = records info l ++ records info l' := by
  simp [records]

/-- the request records of one sample: exactly one latency, one processing_time, and `1 + #dependents` service_time
    records; every one carries the sample's client, task and sample type -/
theorem recordsOf_shape (i : Info) :
    ((recordsOf i).filter fun r => r.name == .latency) = [⟨.latency, i.client, i.task, i.op, i.opType, i.normal⟩] ∧
    ((recordsOf i).filter fun r => r.name == .processingTime) = [⟨.processingTime, i.client, i.task, i.op, i.opType, i.normal⟩] ∧
    ((recordsOf i).filter fun r => r.name == .serviceTime) =
      ⟨.serviceTime, i.client, i.task, i.op, i.opType, i.normal⟩ :: i.deps.map (fun d => ⟨.serviceTime, i.client, i.task, d.1, d.2, i.normal⟩) ∧
    (∀ r ∈ recordsOf i, r.client = i.client ∧ r.task = i.task ∧ r.normal = i.normal) := by
  refine ⟨?_, ?_, ?_, ?_⟩
  · simp [recordsOf, List.filter_map]
  · simp [recordsOf, List.filter_map]
  · have hf : ∀ l : List (String × String), l.filter (fun _ => true) = l := fun l => List.filter_eq_self.mpr (fun _ _ => rfl)
    simp [recordsOf, List.filter_map, Function.comp_def, hf]
  · intro r hr
    simp only [recordsOf, List.mem_append, List.mem_cons, List.mem_map, List.not_mem_nil, or_false] at hr
    rcases hr with (rfl | rfl | rfl) | ⟨d, _, rfl⟩ <;> simp

/-- number of records of metric `m` for client `c` and task `t` behind a list of samples -/
def recCount (info : Sid → Info) (m : Metric) (c : Nat) (t : String) (l : List Sid) : Nat :=
  ((records info l).filter fun r => r.name == m && r.client == c && r.task == t).length

theorem recCount_cons (info : Sid → Info) (m : Metric) (c : Nat) (t : String) (a : Sid) (l : List Sid) :
    recCount info m c t (a :: l) =
      ((recordsOf (info a)).filter fun r => r.name == m && r.client == c && r.task == t).length + recCount info m c t l := by
  simp [recCount, records]

theorem latency_of_one (i : Info) (c : Nat) (t : String) :
    ((recordsOf i).filter fun r => r.name == .latency && r.client == c && r.task == t).length =
      if i.client = c ∧ i.task = t then 1 else 0 := by
  simp only [recordsOf, List.filter_append, List.filter_cons, List.filter_nil, List.filter_map]
  by_cases hc : i.client = c <;> by_cases ht : i.task = t <;> simp [hc, ht, Function.comp_def]

/-- **one latency record per sample of that client and task** -/
theorem latency_count (info : Sid → Info) (c : Nat) (t : String) (l : List Sid) :
    recCount info .latency c t l = l.countP fun a => (info a).client == c && (info a).task == t := by
  induction l with
  | nil => simp [recCount, records]
  | cons a l ih =>
    rw [recCount_cons, ih, latency_of_one, List.countP_cons]
    by_cases hc : (info a).client = c <;> by_cases ht : (info a).task = t <;> simp [hc, ht] <;> omega

/-! ### periodic post-processing -/

theorem wakes_fire_within (w p : Nat) : ∀ (n t : Nat), t < p → p ≤ t + n * w → 1 ≤ (wakes w p n t).2 := by
  intro n
  induction n with
  | zero => intro t h1 h2; omega
  | succ n ih =>
    intro t h1 h2
    simp only [wakes, wake]
    by_cases h : t + w ≥ p
    · simp [h]
    · simp only [h, if_false]
      have h' : t + w < p := by omega
      have : p ≤ (t + w) + n * w := by
        have : (n + 1) * w = n * w + w := by rw [Nat.add_mul]; simp
        omega
      have := ih (t + w) h' this
      simpa using this

theorem wakes_not_before (w p : Nat) : ∀ (n t : Nat), t + n * w < p → (wakes w p n t).2 = 0 ∧ (wakes w p n t).1 = t + n * w := by
  intro n
  induction n with
  | zero => intro t _; simp [wakes]
  | succ n ih =>
    intro t h
    have hmul : (n + 1) * w = n * w + w := by rw [Nat.add_mul]; simp
    simp only [wakes, wake]
    have h1 : ¬ (t + w ≥ p) := by omega
    simp only [h1, if_false]
    have := ih (t + w) (by omega)
    constructor
    · simpa using this.1
    · rw [this.2]; omega

theorem wakes_timer_lt (w p : Nat) (hp : 0 < p) : ∀ (n t : Nat), t < p → (wakes w p n t).1 < p := by
  intro n
  induction n with
  | zero => intro t h; simpa [wakes] using h
  | succ n ih =>
    intro t h
    simp only [wakes, wake]
    by_cases h1 : t + w ≥ p
    · simp only [h1, if_true]; exact ih 0 hp
    · simp only [h1, if_false]; exact ih (t + w) (by omega)

end Samples
