import RallyModel.Worker
import RallyProofs.Exec

namespace Worker
open Exec

/-- what `execute_single` hands on is what the runner reported; without a report (raised error) it is weight 0 -/
theorem reported_ret {abort : Bool} {o : Outcome} {ops : Nat} {unit : Str} {m : Meta}
    (h : executeSingle abort o = .ret ops unit m) :
    (∀ w u, reported o = some (w, u) → ops = w ∧ unit = u) ∧ (reported o = none → ops = 0) := by
  cases o <;> simp only [executeSingle, uniform] at h <;> (try split at h) <;> cases h <;> simp [reported]

theorem Adj.imp_mem {α : Type} {R S : α → α → Prop} :
    ∀ {l : List α}, (∀ a b, a ∈ l → R a b → S a b) → Adj R l → Adj S l
  | [], _, _ => trivial
  | [_], _, _ => trivial
  | a :: b :: l, h, ⟨h1, h2⟩ =>
    ⟨h a b (by simp) h1, Adj.imp_mem (l := b :: l) (fun x y hx hr => h x y (List.mem_cons_of_mem _ hx) hr) h2⟩

/-- every record of a run belongs to the request with its index, and carries what `execute_single` made of that
    request's outcome -/
theorem go_recs_exec (c : Cfg) : ∀ (reqs : List Req) (st : St), ∀ rec ∈ (go c reqs st).recs,
    st.idx ≤ rec.idx ∧ ∃ q m, reqs[rec.idx - st.idx]? = some q ∧
      executeSingle c.abort q.out = .ret rec.sample.ops rec.sample.unit m := by
  intro reqs
  induction reqs with
  | nil => intro st rec hrec; rw [go_nil_recs] at hrec; cases hrec
  | cons q qs ih =>
    intro st rec hrec
    unfold go at hrec
    split at hrec
    · simp [Out.done] at hrec
    · split at hrec
      · simp at hrec
      · simp at hrec
      · rename_i rec0 st' hs
        obtain ⟨ops, unit, m, sched', _, hex, _, hrec0, hst'⟩ := step_sampled_inv hs
        have h0 : rec0.idx = st.idx := by rw [hrec0]; rfl
        have h1 : st'.idx = st.idx + 1 := by rw [hst']; rfl
        have hops : rec0.sample.ops = ops := by rw [hrec0]; rfl
        have hunit : rec0.sample.unit = unit := by rw [hrec0]; rfl
        have hhead : st.idx ≤ rec0.idx ∧ ∃ q' m', (q :: qs)[rec0.idx - st.idx]? = some q' ∧
            executeSingle c.abort q'.out = .ret rec0.sample.ops rec0.sample.unit m' := by
          refine ⟨by omega, q, m, ?_, ?_⟩
          · rw [h0]; simp
          · rw [hops, hunit]; exact hex
        split at hrec
        · simp at hrec
          subst hrec
          exact hhead
        · simp only [List.mem_cons] at hrec
          rcases hrec with rfl | hrec
          · exact hhead
          · obtain ⟨hge, q', m', hq', he'⟩ := ih st' rec hrec
            refine ⟨by omega, q', m', ?_, he'⟩
            have : rec.idx - st.idx = (rec.idx - st'.idx) + 1 := by omega
            rw [this, List.getElem?_cons_succ]
            exact hq'

theorem awaitables_eq_map (cap : Nat) (cs : List ClientSpec) :
    awaitables cap cs = cs.map (fun s => (s.c.client, s.run cap)) := by
  induction cs with
  | nil => rfl
  | cons s rest ih => simp [awaitables, ih]

end Worker
