import RallyModel.Versions
/-! Helper lemmas for C15 (no Mathlib needed). -/
namespace Versions

theorem maxList_eq_none {l : List Nat} : maxList l = none ↔ l = [] := by
  cases l with
  | nil => simp [maxList]
  | cons x xs =>
    simp only [maxList]
    cases maxList xs <;> simp

theorem maxList_some {l : List Nat} {m : Nat} (h : maxList l = some m) :
    m ∈ l ∧ ∀ k ∈ l, k ≤ m := by
  induction l generalizing m with
  | nil => simp [maxList] at h
  | cons x xs ih =>
    simp only [maxList] at h
    cases hxs : maxList xs with
    | none =>
      rw [hxs] at h
      have : xs = [] := maxList_eq_none.mp hxs
      subst this
      simp at h
      subst h
      simp
    | some y =>
      rw [hxs] at h
      simp at h
      have ⟨hy, hall⟩ := ih hxs
      subst h
      constructor
      · by_cases hxy : x ≤ y
        · rw [Nat.max_eq_right hxy]; exact List.mem_cons_of_mem _ hy
        · have : y ≤ x := Nat.le_of_lt (Nat.lt_of_not_le hxy)
          rw [Nat.max_eq_left this]; exact List.mem_cons_self
      · intro k hk
        rcases List.mem_cons.mp hk with rfl | hk
        · exact Nat.le_max_left _ _
        · exact Nat.le_trans (hall k hk) (Nat.le_max_right _ _)

theorem mem_eligibleMinors {cs : List Comp} {M m k : Nat} :
    k ∈ eligibleMinors cs M m ↔ (⟨M, some k, none, none⟩ : Comp) ∈ cs ∧ k ≤ m := by
  unfold eligibleMinors
  rw [List.mem_filterMap]
  constructor
  · rintro ⟨c, hc, hf⟩
    rcases c with ⟨maj, mi, pa, su⟩
    cases pa <;> cases su <;> simp [minorUsable] at hf
    by_cases hM : maj = M
    · subst hM
      cases mi with
      | none => simp at hf
      | some mm =>
        simp at hf
        obtain ⟨h1, h2⟩ := hf
        subst h2
        exact ⟨hc, h1⟩
    · simp [hM] at hf
  · rintro ⟨hc, hk⟩
    exact ⟨_, hc, by simp [minorUsable, hk]⟩

theorem foldl_max_ge (cs : List Comp) (a : Int) :
    a ≤ cs.foldl (fun m c => max m (c.major : Int)) a ∧
    ∀ c ∈ cs, (c.major : Int) ≤ cs.foldl (fun m c => max m (c.major : Int)) a := by
  induction cs generalizing a with
  | nil => simp
  | cons x xs ih =>
    simp only [List.foldl_cons]
    have ⟨h1, h2⟩ := ih (max a (x.major : Int))
    constructor
    · exact Int.le_trans (Int.le_max_left _ _) h1
    · intro c hc
      rcases List.mem_cons.mp hc with rfl | hc
      · exact Int.le_trans (Int.le_max_right _ _) h1
      · exact h2 c hc

theorem foldl_max_mem (cs : List Comp) (a : Int) :
    cs.foldl (fun m c => max m (c.major : Int)) a = a ∨
    ∃ c ∈ cs, cs.foldl (fun m c => max m (c.major : Int)) a = (c.major : Int) := by
  induction cs generalizing a with
  | nil => simp
  | cons x xs ih =>
    simp only [List.foldl_cons]
    rcases ih (max a (x.major : Int)) with h | ⟨c, hc, h⟩
    · rw [h]
      by_cases hax : a ≤ (x.major : Int)
      · right; exact ⟨x, List.mem_cons_self, by rw [Int.max_eq_right hax]⟩
      · left; exact Int.max_eq_left (Int.le_of_lt (Int.lt_of_not_ge hax))
    · right; exact ⟨c, List.mem_cons_of_mem _ hc, h⟩

end Versions
