import RallyModel.Samples
import RallyProofs.Samples
import RallyProofs.SamplesFlush
/-
The step boundary of the sample pipeline (C07): `Driver.joinpoint_reached` as a layer on top of the pipeline events.
Every run of the driver layer is a run of the pipeline (so conservation transfers), the hand-over of a step boundary
takes the whole store, and the store is empty when it is closed.
-/
namespace Samples

theorem boundary_eq (cfg : Cfg) (s : State) :
    boundary cfg s = some { s with raw := [], dstore := [], d2r := s.d2r ++ [s.dstore ++ keep cfg.factor s.raw],
                                   downsampled := s.downsampled ++ lose cfg.factor s.raw, fed := s.fed ++ s.raw } := by
  simp [boundary, step]

theorem boundary_run (cfg : Cfg) (s s2 : State) (h : boundary cfg s = some s2) :
    run cfg s [.postprocess, .handover] = some s2 := by
  rw [boundary_eq] at h
  injection h with h
  subst h
  simp [run, step]

/-- what the last worker's join point does -/
theorem dstep_joinpoint_last (c : DCfg) (d : DState) (hf : c.finished d = false) (hw : d.completed + 1 = c.workers) :
    dstep c d .joinpoint =
      some { s := { d.s with raw := [], dstore := [], d2r := d.s.d2r ++ [d.s.dstore ++ keep c.cfg.factor d.s.raw],
                             downsampled := d.s.downsampled ++ lose c.cfg.factor d.s.raw, fed := d.s.fed ++ d.s.raw },
             completed := 0, stepNo := d.stepNo + 1, lost := d.lost, closed := (d.stepNo + 1 == c.steps) || d.closed } := by
  simp only [dstep, hf, hw, boundary_eq]
  by_cases hl : d.stepNo + 1 = c.steps <;> simp [hl]

/-- every step of the driver layer is a (possibly empty) run of pipeline events, and adds nothing to `lost` -/
theorem dstep_run {c : DCfg} {d d' : DState} {e : DEvent} (h : dstep c d e = some d') :
    (∃ es, run c.cfg d.s es = some d'.s) ∧ d'.lost = d.lost := by
  cases e with
  | joinpoint =>
    by_cases hf : c.finished d = true
    · simp [dstep, hf] at h
    · have hf' : c.finished d = false := by simpa using hf
      by_cases hw : d.completed + 1 = c.workers
      · rw [dstep_joinpoint_last c d hf' hw] at h
        injection h with h
        subst h
        exact ⟨⟨[.postprocess, .handover], by simp [run, step]⟩, rfl⟩
      · simp only [dstep, hf'] at h
        have : (d.completed + 1 == c.workers) = false := by simpa using hw
        simp only [this] at h
        injection h with h
        subst h
        exact ⟨⟨[], rfl⟩, rfl⟩
  | pipe ev =>
    cases ev with
    | handover => simp [dstep] at h
    | postprocess =>
      simp only [dstep] at h
      split at h
      · injection h with h; subst h; exact ⟨⟨[], rfl⟩, rfl⟩
      · cases hs : step c.cfg d.s .postprocess with
        | none => simp [hs] at h
        | some s' =>
          simp only [hs, Option.map_some] at h
          injection h with h; subst h
          exact ⟨⟨[.postprocess], by simp [run, hs]⟩, rfl⟩
    | request w sid =>
      simp only [dstep] at h
      cases hs : step c.cfg d.s (.request w sid) with
      | none => simp [hs] at h
      | some s' =>
        simp only [hs, Option.map_some] at h
        injection h with h; subst h
        exact ⟨⟨[.request w sid], by simp [run, hs]⟩, rfl⟩
    | ship w =>
      simp only [dstep] at h
      cases hs : step c.cfg d.s (.ship w) with
      | none => simp [hs] at h
      | some s' =>
        simp only [hs, Option.map_some] at h
        injection h with h; subst h
        exact ⟨⟨[.ship w], by simp [run, hs]⟩, rfl⟩
    | deliverU w =>
      simp only [dstep] at h
      cases hs : step c.cfg d.s (.deliverU w) with
      | none => simp [hs] at h
      | some s' =>
        simp only [hs, Option.map_some] at h
        injection h with h; subst h
        exact ⟨⟨[.deliverU w], by simp [run, hs]⟩, rfl⟩
    | deliverR =>
      simp only [dstep] at h
      cases hs : step c.cfg d.s .deliverR with
      | none => simp [hs] at h
      | some s' =>
        simp only [hs, Option.map_some] at h
        injection h with h; subst h
        exact ⟨⟨[.deliverR], by simp [run, hs]⟩, rfl⟩

theorem drun_run {c : DCfg} : ∀ (evs : List DEvent) (d d' : DState), drun c d evs = some d' →
    (∃ es, run c.cfg d.s es = some d'.s) ∧ d'.lost = d.lost := by
  intro evs
  induction evs with
  | nil => intro d d' h; simp only [drun] at h; injection h with h; subst h; exact ⟨⟨[], rfl⟩, rfl⟩
  | cons e es ih =>
    intro d d' h
    simp only [drun] at h
    cases hs : dstep c d e with
    | none => simp [hs] at h
    | some d1 =>
      simp only [hs] at h
      obtain ⟨⟨es1, h1⟩, l1⟩ := dstep_run hs
      obtain ⟨⟨es2, h2⟩, l2⟩ := ih d1 d' h
      refine ⟨⟨es1 ++ es2, ?_⟩, by rw [l2, l1]⟩
      rw [run_append, h1]; exact h2

theorem drun_append (c : DCfg) (d : DState) (a b : List DEvent) :
    drun c d (a ++ b) = (drun c d a).bind fun d1 => drun c d1 b := by
  induction a generalizing d with
  | nil => simp [drun]
  | cons e es ih =>
    simp only [List.cons_append, drun]
    cases dstep c d e with
    | none => simp
    | some d1 => simp [ih]

/-- race control receives `k` hand-overs: the driver layer follows the pipeline -/
theorem drun_deliverR (c : DCfg) : ∀ (k : Nat) (d : DState) (s' : State),
    run c.cfg d.s (List.replicate k .deliverR) = some s' →
    drun c d (List.replicate k (.pipe .deliverR)) = some { d with s := s' } := by
  intro k
  induction k with
  | zero => intro d s' h; simp only [List.replicate_zero, run] at h; injection h with h; subst h; rfl
  | succ n ih =>
    intro d s' h
    simp only [List.replicate_succ, run] at h
    cases hs : step c.cfg d.s .deliverR with
    | none => simp [hs] at h
    | some s1 =>
      simp only [hs] at h
      simp only [List.replicate_succ, drun, dstep, hs, Option.map_some]
      exact ih { d with s := s1 } s' h

end Samples
