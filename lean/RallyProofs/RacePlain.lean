import RallyProofs.RaceLive
/-! Elements without completed-by run completely (C01): while such an element is being executed no completion is
    pending anywhere (`QInv`), hence a worker leaves it only after it has entered every one of its columns (`AInv`). -/
namespace Race

/-- element `e` has no completed-by: none of its tasks completes the parent and the join point that closes it names
    no completing client -/
def PlainElem (cfg : Cfg) (e : Nat) : Prop :=
  (cfg.joins (e + 1)).completing = [] ∧ (cfg.joins (e + 1)).anyC = [] ∧
  ∀ (w c : Nat) (col : List TaskA) (t : TaskA), (cfg.elems w e)[c]? = some col → t ∈ col → completingType t = false

theorem willComplete_false_weaken {l : List MsgDW} {h : Bool} (hh : willComplete l h = false) :
    willComplete l false = false := by
  cases hf : willComplete l false with
  | false => rfl
  | true =>
    have := willComplete_mono l false h (by simp) hf
    rw [hh] at this
    exact absurd this (by simp)

theorem willComplete_append_drive_false (l : List MsgDW) (hd : driveCount l = 0) (hs : MsgDW.startWorker ∉ l) :
    willComplete (l ++ [.drive]) false = false := by
  induction l with
  | nil => simp [willComplete]
  | cons m ms ih =>
    cases m with
    | drive => rw [driveCount_cons_drive] at hd; omega
    | startWorker => simp at hs
    | cct =>
      rw [driveCount_cons_cct] at hd
      have hs' : MsgDW.startWorker ∉ ms := fun hm => hs (List.mem_cons_of_mem _ hm)
      simp [willComplete, ih hd hs']

theorem honours_inCol (ws : WState) (e c : Nat) (h : ws.pos = .inCol e c) : honours ws = true := by
  simp [honours, parked, h]

theorem honours_atJoin (ws : WState) (j : Nat) (h : ws.pos = .atJoin j) (hs : ws.startDriving = false) :
    honours ws = false := by
  simp [honours, parked, h, hs]

/-- while a plain element is being executed the driver has not broadcast a completion, no worker's flag is set and
    no inbox holds a CompleteCurrentTask that would be honoured -/
@[reducible] def QInv (cfg : Cfg) (s : State) : Prop :=
  ∀ D, s.d.stepP1 = D + 1 → D < cfg.S → PlainElem cfg D →
    s.d.cctSent = false ∧
    ∀ w, w < cfg.W → (s.ws w).complete = false ∧ willComplete (s.d2w w) (honours (s.ws w)) = false

theorem init_qinv (cfg : Cfg) : QInv cfg (init cfg) := by
  intro D hD; simp [init] at hD

/-- an event that concerns worker `w` only -/
theorem qinv_of_local {cfg : Cfg} {s s' : State} {w : Nat} (hq : QInv cfg s) (hd : s'.d = s.d)
    (hoth : ∀ v, v ≠ w → s'.ws v = s.ws v ∧ s'.d2w v = s.d2w v)
    (hown : ∀ D, s.d.stepP1 = D + 1 → D < cfg.S → PlainElem cfg D → (s.ws w).complete = false →
      willComplete (s.d2w w) (honours (s.ws w)) = false →
      (s'.ws w).complete = false ∧ willComplete (s'.d2w w) (honours (s'.ws w)) = false) : QInv cfg s' := by
  intro D hD hDS hpl
  rw [hd] at hD ⊢
  obtain ⟨hc, hall⟩ := hq D hD hDS hpl
  refine ⟨hc, ?_⟩
  intro v hv
  by_cases hvw : v = w
  · subst hvw
    exact hown D hD hDS hpl (hall v hv).1 (hall v hv).2
  · rw [(hoth v hvw).1, (hoth v hvw).2]
    exact hall v hv

/-- the element a worker inside a column executes is the current one -/
theorem inCol_current {cfg : Cfg} {s : State} {w e c : Nat} (hinv : Inv cfg s) (hw : w < cfg.W)
    (hp : (s.ws w).pos = .inCol e c) : e + 1 = s.d.stepP1 ∧ s.d.stepP1 ≤ cfg.S := by
  have hwi := hinv.winv w hw
  unfold WInv at hwi
  simp only [hp] at hwi
  exact ⟨hwi.1, hwi.2.1⟩

theorem qinv_driveNext {cfg : Cfg} {w : Nat} {s s0 s' : State} (hq : QInv cfg s)
    (hd : driveNext cfg w s0 = some s') (hd0 : s0.d = s.d) (hq0 : s0.d2w = s.d2w)
    (hoth : ∀ v, v ≠ w → s0.ws v = s.ws v) (hcmp : (s0.ws w).complete = (s.ws w).complete)
    (hsd : (s0.ws w).startDriving = false) (hhon : honours (s.ws w) = true) : QInv cfg s' := by
  rcases driveNext_cases hd with ⟨j, rfl⟩ | ⟨e, c, col, _, rfl, _, _⟩
  · refine qinv_of_local (w := w) hq (by simp [toJoin, hd0]) ?_ ?_
    · intro v hv
      exact ⟨by simp [toJoin, upd, hv, hoth v hv], by simp [toJoin, hq0]⟩
    · intro D _ _ _ _ hwc
      refine ⟨by simp [toJoin], ?_⟩
      simp only [toJoin, upd_same, hq0]
      rw [honours_atJoin _ j rfl (by simpa using hsd)]
      exact willComplete_false_weaken hwc
  · refine qinv_of_local (w := w) hq (by simp [hd0]) ?_ ?_
    · intro v hv
      exact ⟨by simp [upd, hv, hoth v hv], by simp [hq0]⟩
    · intro D _ _ _ hc hwc
      refine ⟨by simpa [hcmp] using hc, ?_⟩
      simp only [upd_same, hq0]
      rw [honours_inCol _ e c rfl]
      rw [hhon] at hwc
      exact hwc

theorem step_qinv {cfg : Cfg} {s s' : State} {e : Event} (hwf : cfg.WF) (hinv : Inv cfg s) (hk : KInv cfg s)
    (hq : QInv cfg s) (h : step cfg s e = some s') : QInv cfg s' := by
  have hinv' : Inv cfg s' := step_inv hwf hinv h
  cases e with
  | deliverDW w =>
    simp only [step] at h
    cases hqw : s.d2w w with
    | nil => simp [hqw] at h
    | cons m rest =>
      have hw : w < cfg.W := lt_W_of_d2w hinv (by simp [hqw])
      simp only [hqw] at h
      cases m with
      | startWorker =>
        simp only at h
        cases hp : (s.ws w).pos with
        | unstarted =>
          simp only [hp] at h
          injection h with h; subst h
          have hwi := hinv.winv w hw
          unfold WInv at hwi
          simp only [hp] at hwi
          intro D hD
          simp only [toJoin] at hD
          omega
        | atJoin j => simp [hp] at h
        | inCol e c => simp [hp] at h
      | drive =>
        simp only at h; injection h with h; subst h
        refine qinv_of_local (w := w) hq rfl ?_ ?_
        · intro v hv; exact ⟨by simp [upd, hv], by simp [upd, hv]⟩
        · intro D _ _ _ hc hwc
          refine ⟨by simpa using hc, ?_⟩
          rw [hqw] at hwc
          simp only [willComplete] at hwc
          simpa [honours] using hwc
      | cct =>
        simp only at h
        split at h
        · rename_i hpk
          injection h with h; subst h
          refine qinv_of_local (w := w) hq rfl ?_ ?_
          · intro v hv; exact ⟨rfl, by simp [upd, hv]⟩
          · intro D _ _ _ hc hwc
            refine ⟨hc, ?_⟩
            rw [hqw] at hwc
            have hh : honours (s.ws w) = false := by
              simp only [Bool.and_eq_true, Bool.not_eq_eq_eq_not, Bool.not_true] at hpk
              simp [honours, hpk.1, hpk.2]
            rw [hh] at hwc ⊢
            simp only [willComplete, Bool.false_or] at hwc
            simpa using hwc
        · rename_i hpk
          injection h with h; subst h
          refine qinv_of_local (w := w) hq rfl ?_ ?_
          · intro v hv; exact ⟨by simp [upd, hv], by simp [upd, hv]⟩
          · intro D _ _ _ _ hwc
            exfalso
            rw [hqw] at hwc
            have hh : honours (s.ws w) = true := by
              simp only [Bool.and_eq_true, Bool.not_eq_eq_eq_not, Bool.not_true, not_and, Bool.not_eq_false] at hpk
              simp only [honours, Bool.or_eq_true, Bool.not_eq_eq_eq_not, Bool.not_true]
              by_cases hp : parked (s.ws w) = true
              · exact Or.inr (hpk hp)
              · exact Or.inl (by simpa using hp)
            rw [hh] at hwc
            simp [willComplete] at hwc
  | wakeW w =>
    simp only [step] at h
    by_cases hwk0 : (s.ws w).wake = 0
    · simp [hwk0] at h
    rw [if_neg hwk0] at h
    have hw : w < cfg.W := lt_W_of_wake hinv hwk0
    by_cases hsd : (s.ws w).startDriving = true
    · rw [if_pos hsd] at h
      exact qinv_driveNext hq h rfl rfl (fun v hv => by simp [upd, hv]) (by simp) (by simp)
        (by simp [honours, hsd])
    · rw [if_neg hsd] at h
      cases hexec : (s.ws w).exec with
      | finished =>
        simp only [hexec] at h
        obtain ⟨e0, c0, hp⟩ := inCol_of_exec (hinv.winv w hw) (by rw [hexec]; simp)
        exact qinv_driveNext hq h rfl rfl (fun v hv => by simp [upd, hv]) (by simp) (by simpa using hsd)
          (by simp [honours, parked, hp])
      | none =>
        simp only [hexec] at h; injection h with h; subst h
        refine qinv_of_local (w := w) hq rfl ?_ ?_
        · intro v hv; exact ⟨by simp [upd, hv], rfl⟩
        · intro D _ _ _ hc hwc
          exact ⟨by simpa using hc, by simpa [honours, parked] using hwc⟩
      | running ts =>
        simp only [hexec] at h; injection h with h; subst h
        refine qinv_of_local (w := w) hq rfl ?_ ?_
        · intro v hv; exact ⟨by simp [upd, hv], rfl⟩
        · intro D _ _ _ hc hwc
          exact ⟨by simpa using hc, by simpa [honours, parked] using hwc⟩
  | taskDone w i =>
    simp only [step] at h
    cases hexec : (s.ws w).exec with
    | none => simp [hexec] at h
    | finished => simp [hexec] at h
    | running ts =>
      simp only [hexec] at h
      have hw : w < cfg.W := lt_W_of_exec hinv (by rw [hexec]; simp)
      obtain ⟨e0, c0, hp⟩ := inCol_of_exec (hinv.winv w hw) (by rw [hexec]; simp)
      split at h
      · rename_i t hti
        split at h
        · injection h with h; subst h
          refine qinv_of_local (w := w) hq rfl ?_ ?_
          · intro v hv; exact ⟨by simp [upd, hv], rfl⟩
          · intro D hD _ hpl hc hwc
            have hcur := inCol_current hinv hw hp
            have heD : e0 = D := by omega
            subst heD
            have hcol := (hk w e0 c0 hp).1 ts hexec
            have hmem : t ∈ ts.map (·.1) := by
              have := List.mem_of_getElem? hti
              exact List.mem_map.mpr ⟨(t, false), this, rfl⟩
            have hct := hpl.2.2 w c0 _ t hcol hmem
            simp only [completingType, Bool.or_eq_false_iff] at hct
            refine ⟨by simp [hc, hct.1, hct.2], ?_⟩
            simpa [honours, parked] using hwc
        · exact absurd h (by simp)
      · exact absurd h (by simp)
  | execFinish w =>
    simp only [step] at h
    cases hexec : (s.ws w).exec with
    | none => simp [hexec] at h
    | finished => simp [hexec] at h
    | running ts =>
      simp only [hexec] at h
      split at h
      · injection h with h; subst h
        refine qinv_of_local (w := w) hq rfl ?_ ?_
        · intro v hv; exact ⟨by simp [upd, hv], rfl⟩
        · intro D _ _ _ hc hwc
          exact ⟨by simpa using hc, by simpa [honours, parked] using hwc⟩
      · exact absurd h (by simp)
  | deliverWD w =>
    simp only [step] at h
    cases hqw : s.w2d w with
    | nil => simp [hqw] at h
    | cons m rest =>
      cases m with
      | jpr j =>
      simp only [hqw] at h
      injection h with h
      obtain ⟨hw, hj, _, _⟩ := jpr_is_current hinv hqw
      unfold joinpointReached at h
      simp only at h
      split at h
      · -- the barrier opens
        split at h
        · -- last join point: the race is over, no element is being executed
          subst h
          intro D hD hDS
          simp only at hD
          omega
        · subst h
          intro D hD hDS hpl
          simp only at hD
          refine ⟨rfl, ?_⟩
          intro v hv
          have hwi := hinv'.winv v hv
          unfold WInv at hwi
          simp only [sendAll, if_pos hv] at hwi ⊢
          have hdc : driveCount (upd s.w2d w rest |> fun _ => s.d2w v ++ [MsgDW.drive]) = driveCount (s.d2w v) + 1 := by
            simp [driveCount_append]
          simp only at hdc
          cases hp : (s.ws v).pos with
          | unstarted =>
            simp only [hp] at hwi
            omega
          | inCol e c =>
            simp only [hp] at hwi
            rw [driveCount_append] at hwi
            simp at hwi
          | atJoin j' =>
            simp only [hp] at hwi
            obtain ⟨hns, _, _, halt⟩ := hwi
            rw [driveCount_append] at halt
            have hns' : MsgDW.startWorker ∉ s.d2w v := fun hm => hns (List.mem_append_left _ hm)
            rcases halt with ⟨_, hdc0, _⟩ | ⟨_, _, _, hx⟩
            · simp at hdc0
            · rcases hx with ⟨_, hdc0, _⟩ | ⟨_, hdc1, hsd, _, hcm⟩ | ⟨_, hdc0, _⟩
              · simp at hdc0
              · have hdz : driveCount (s.d2w v) = 0 := by simpa using hdc1
                refine ⟨hcm, ?_⟩
                have hh : honours (s.ws v) = false := by simp [honours, parked, hp, hsd]
                rw [hh]
                exact willComplete_append_drive_false _ hdz hns'
              · simp at hdc0
      · -- the barrier stays closed: may_complete_current_task for the current join point
        intro D hD hDS hpl
        have hstep : s.d.stepP1 = D + 1 := by
          rcases mayComplete_shape cfg w (cfg.joins j)
            { s with w2d := upd s.w2d w rest, d := { s.d with completed := s.d.completed + 1, reported := w :: s.d.reported } }
            with hm | ⟨hm, _⟩ <;> (rw [hm] at h; subst h; simpa using hD)
        have hjD : j = D + 1 := by omega
        have hnone : mayComplete cfg w (cfg.joins j)
            { s with w2d := upd s.w2d w rest, d := { s.d with completed := s.d.completed + 1, reported := w :: s.d.reported } } =
            { s with w2d := upd s.w2d w rest, d := { s.d with completed := s.d.completed + 1, reported := w :: s.d.reported } } := by
          rcases mayComplete_shape cfg w (cfg.joins j)
            { s with w2d := upd s.w2d w rest, d := { s.d with completed := s.d.completed + 1, reported := w :: s.d.reported } }
            with hm | ⟨_, hne⟩
          · exact hm
          · exfalso
            rw [hjD] at hne
            rcases hne with hne | hne
            · exact hne hpl.2.1
            · exact hne hpl.1
        rw [hnone] at h
        subst h
        obtain ⟨hc, hall⟩ := hq D hstep hDS hpl
        exact ⟨by simpa using hc, fun v hv => by simpa using hall v hv⟩

theorem reach_qinv {cfg : Cfg} {s : State} (hwf : cfg.WF) (h : Reach cfg s) : QInv cfg s := by
  induction h with
  | init => exact init_qinv cfg
  | step s s' e hr hstep ih => exact step_qinv hwf (reach_inv hwf hr) (reach_kinv hwf hr) ih hstep

/-! ### a worker leaves a plain element only after it has entered every one of its columns -/

/-- the columns of plain element `e` of worker `w` that lie at or before position `p` have been entered -/
def coveredUpTo (cfg : Cfg) (s : State) (w e : Nat) : Pos → Prop
  | .unstarted => True
  | .atJoin j => e < j → ∀ c, c < (cfg.elems w e).length → (w, e, c) ∈ s.entered
  | .inCol e' c' =>
    (e < e' → ∀ c, c < (cfg.elems w e).length → (w, e, c) ∈ s.entered) ∧ (e = e' → ∀ c, c ≤ c' → (w, e, c) ∈ s.entered)

@[reducible] def AInv (cfg : Cfg) (s : State) : Prop :=
  ∀ w e, w < cfg.W → PlainElem cfg e → coveredUpTo cfg s w e (s.ws w).pos

theorem init_ainv (cfg : Cfg) : AInv cfg (init cfg) := by
  intro w e _ _; simp [init, coveredUpTo]

theorem coveredUpTo_mono {cfg : Cfg} {s s' : State} {w e : Nat} {p : Pos} (h : coveredUpTo cfg s w e p)
    (hent : ∀ x, x ∈ s.entered → x ∈ s'.entered) : coveredUpTo cfg s' w e p := by
  cases p with
  | unstarted => trivial
  | atJoin j => exact fun hlt c hc => hent _ (h hlt c hc)
  | inCol e' c' => exact ⟨fun hlt c hc => hent _ (h.1 hlt c hc), fun heq c hc => hent _ (h.2 heq c hc)⟩

theorem ainv_frame {cfg : Cfg} {s s' : State} (h : AInv cfg s) (hp : ∀ w, (s'.ws w).pos = (s.ws w).pos)
    (hent : ∀ x, x ∈ s.entered → x ∈ s'.entered) : AInv cfg s' := by
  intro w e hw hpl
  rw [hp w]
  exact coveredUpTo_mono (h w e hw hpl) hent

/-- the two ways `driveNext` can end, with the reason for going to the join point -/
theorem driveNext_cases3 {cfg : Cfg} {w : Nat} {s0 s' : State} (h : driveNext cfg w s0 = some s') :
    (∃ e0 c', ((s0.ws w).pos = .atJoin e0 ∧ c' = 0 ∨ ∃ c0, (s0.ws w).pos = .inCol e0 c0 ∧ c' = c0 + 1) ∧
      s' = toJoin w (e0 + 1) s0 ∧ ((cfg.elems w e0)[c']? = none ∨ (s0.ws w).complete = true)) ∨
    (∃ e c col, (cfg.elems w e)[c]? = some col ∧ s' = { s0 with
        ws := upd s0.ws w { s0.ws w with pos := .inCol e c, exec := .running (col.map fun t => (t, false)), wake := (s0.ws w).wake + 1 },
        entered := s0.entered ++ [(w, e, c)] } ∧ (s0.ws w).complete = false ∧
      ((s0.ws w).pos = .atJoin e ∧ c = 0 ∨ ∃ c0, (s0.ws w).pos = .inCol e c0 ∧ c = c0 + 1)) := by
  unfold driveNext at h
  cases hp : (s0.ws w).pos with
  | unstarted => simp [hp] at h
  | atJoin j =>
    simp only [hp] at h
    split at h
    · exact absurd h (by simp)
    · split at h
      · rename_i col hcol
        split at h
        · rename_i hcmp
          injection h with h
          exact Or.inl ⟨j, 0, Or.inl ⟨rfl, rfl⟩, h.symm, Or.inr hcmp⟩
        · rename_i hcmp
          injection h with h
          exact Or.inr ⟨j, 0, col, hcol, h.symm, by simpa using hcmp, Or.inl ⟨rfl, rfl⟩⟩
      · rename_i hnone
        injection h with h
        exact Or.inl ⟨j, 0, Or.inl ⟨rfl, rfl⟩, h.symm, Or.inl hnone⟩
  | inCol e c =>
    simp only [hp] at h
    split at h
    · exact absurd h (by simp)
    · split at h
      · rename_i col hcol
        split at h
        · rename_i hcmp
          injection h with h
          exact Or.inl ⟨e, c + 1, Or.inr ⟨c, rfl, rfl⟩, h.symm, Or.inr hcmp⟩
        · rename_i hcmp
          injection h with h
          exact Or.inr ⟨e, c + 1, col, hcol, h.symm, by simpa using hcmp, Or.inr ⟨c, rfl, rfl⟩⟩
      · rename_i hnone
        injection h with h
        exact Or.inl ⟨e, c + 1, Or.inr ⟨c, rfl, rfl⟩, h.symm, Or.inl hnone⟩

/-- `driveNext` from a state `s0` that differs from `s` only in fields of worker `w` other than position and flag.
    `hcur`: the element the worker is about to continue is the current one. -/
theorem ainv_driveNext {cfg : Cfg} {w : Nat} {s s0 s' : State} (hw : w < cfg.W) (ha : AInv cfg s) (hq : QInv cfg s)
    (hd : driveNext cfg w s0 = some s') (hent : s0.entered = s.entered)
    (hpos : ∀ v, (s0.ws v).pos = (s.ws v).pos) (hcmp : (s0.ws w).complete = (s.ws w).complete)
    (hcur : ∀ e0, ((s.ws w).pos = .atJoin e0 ∨ ∃ c0, (s.ws w).pos = .inCol e0 c0) → s.d.stepP1 = e0 + 1 ∧ e0 < cfg.S) :
    AInv cfg s' := by
  rcases driveNext_cases3 hd with ⟨e0, c', hfrom, rfl, hwhy⟩ | ⟨e, c, col, _, rfl, _, hfrom⟩
  · -- to the join point that closes element e0
    intro v x hv hpl
    by_cases hvw : v = w
    · subst hvw
      simp only [toJoin, upd_same, coveredUpTo]
      intro hlt k hk
      have hcov := ha v x hv hpl
      rw [← hpos v] at hcov
      by_cases hx : x = e0
      · subst hx
        have hcur' := hcur x (by
          rcases hfrom with ⟨hp, _⟩ | ⟨c0, hp, _⟩
          · exact Or.inl (by rw [← hpos v]; exact hp)
          · exact Or.inr ⟨c0, by rw [← hpos v]; exact hp⟩)
        have hcf : (s.ws v).complete = false := ((hq x hcur'.1 hcur'.2 hpl).2 v hv).1
        have hnone : (cfg.elems v x)[c']? = none := by
          rcases hwhy with hn | hc
          · exact hn
          · rw [hcmp, hcf] at hc; exact absurd hc (by simp)
        have hlen : (cfg.elems v x).length ≤ c' := by
          simpa using hnone
        rcases hfrom with ⟨_, rfl⟩ | ⟨c0, hp, rfl⟩
        · omega
        · rw [hp] at hcov
          rw [hent]
          exact hcov.2 rfl k (by omega)
      · have hlt' : x < e0 := by omega
        rw [hent]
        rcases hfrom with ⟨hp, _⟩ | ⟨c0, hp, _⟩
        · rw [hp] at hcov; exact hcov hlt' k hk
        · rw [hp] at hcov; exact hcov.1 hlt' k hk
    · have hcov := ha v x hv hpl
      have : ((toJoin w (e0 + 1) s0).ws v).pos = (s.ws v).pos := by simp [toJoin, upd, hvw, hpos v]
      rw [this]
      exact coveredUpTo_mono hcov (fun y hy => by simpa [toJoin, hent] using hy)
  · -- into column c of element e
    intro v x hv hpl
    by_cases hvw : v = w
    · subst hvw
      simp only [upd_same, coveredUpTo]
      have hcov := ha v x hv hpl
      rw [← hpos v] at hcov
      refine ⟨?_, ?_⟩
      · intro hlt k hk
        simp only [List.mem_append, List.mem_singleton]
        left
        rw [hent]
        rcases hfrom with ⟨hp, _⟩ | ⟨c0, hp, _⟩
        · rw [hp] at hcov; exact hcov hlt k hk
        · rw [hp] at hcov; exact hcov.1 hlt k hk
      · intro hxe k hk
        subst hxe
        simp only [List.mem_append, List.mem_singleton, Prod.mk.injEq, true_and]
        by_cases hkc : k = c
        · right; exact hkc
        · left
          rw [hent]
          rcases hfrom with ⟨_, rfl⟩ | ⟨c0, hp, rfl⟩
          · omega
          · rw [hp] at hcov
            exact hcov.2 rfl k (by omega)
    · have hcov := ha v x hv hpl
      simp only [upd, hvw, if_false]
      rw [hpos v]
      exact coveredUpTo_mono hcov (fun y hy => by simp [hent, hy])

theorem step_ainv {cfg : Cfg} {s s' : State} {e : Event} (hinv : Inv cfg s) (hq : QInv cfg s) (ha : AInv cfg s)
    (h : step cfg s e = some s') : AInv cfg s' := by
  cases e with
  | deliverDW w =>
    simp only [step] at h
    cases hqw : s.d2w w with
    | nil => simp [hqw] at h
    | cons m rest =>
      simp only [hqw] at h
      cases m with
      | startWorker =>
        simp only at h
        cases hp : (s.ws w).pos with
        | unstarted =>
          simp only [hp] at h
          injection h with h; subst h
          intro v x hv hpl
          by_cases hvw : v = w
          · subst hvw; simp [toJoin, coveredUpTo]
          · have : ((toJoin w 0 { s with d2w := upd s.d2w w rest }).ws v).pos = (s.ws v).pos := by simp [toJoin, upd, hvw]
            rw [this]
            exact coveredUpTo_mono (ha v x hv hpl) (fun y hy => by simpa [toJoin] using hy)
        | atJoin j => simp [hp] at h
        | inCol e c => simp [hp] at h
      | drive =>
        simp only at h; injection h with h; subst h
        exact ainv_frame ha (fun v => by by_cases hv : v = w <;> simp [upd, hv]) (fun _ hy => hy)
      | cct =>
        simp only at h
        split at h <;> (injection h with h; subst h)
        · exact ainv_frame ha (fun v => rfl) (fun _ hy => hy)
        · exact ainv_frame ha (fun v => by by_cases hv : v = w <;> simp [upd, hv]) (fun _ hy => hy)
  | wakeW w =>
    simp only [step] at h
    by_cases hwk0 : (s.ws w).wake = 0
    · simp [hwk0] at h
    rw [if_neg hwk0] at h
    have hw : w < cfg.W := lt_W_of_wake hinv hwk0
    have hwi := hinv.winv w hw
    by_cases hsd : (s.ws w).startDriving = true
    · rw [if_pos hsd] at h
      refine ainv_driveNext hw ha hq h rfl (fun v => by by_cases hv : v = w <;> simp [upd, hv]) (by simp) ?_
      intro e0 hpos
      unfold WInv at hwi
      rcases hpos with hp | ⟨c0, hp⟩
      · simp only [hp] at hwi
        rcases hwi.2.2.2 with ⟨_, _, hsd', _⟩ | ⟨hjD, _, _, hx⟩
        · rw [hsd] at hsd'; exact absurd hsd' (by simp)
        · rcases hx with ⟨_, _, hsd', _⟩ | ⟨_, _, hsd', _⟩ | ⟨hDS, _, _, _⟩
          · rw [hsd] at hsd'; exact absurd hsd' (by simp)
          · rw [hsd] at hsd'; exact absurd hsd' (by simp)
          · exact ⟨by omega, by omega⟩
      · simp only [hp] at hwi
        have := hwi.2.2.2.2.2.2.1
        rw [hsd] at this; exact absurd this (by simp)
    · rw [if_neg hsd] at h
      cases hexec : (s.ws w).exec with
      | finished =>
        simp only [hexec] at h
        refine ainv_driveNext hw ha hq h rfl (fun v => by by_cases hv : v = w <;> simp [upd, hv]) (by simp) ?_
        intro e0 hpos
        obtain ⟨e1, c1, hp1⟩ := inCol_of_exec hwi (by rw [hexec]; simp)
        have hcur := inCol_current hinv hw hp1
        rcases hpos with hp | ⟨c0, hp⟩
        · rw [hp1] at hp; exact absurd hp (by simp)
        · rw [hp1] at hp
          simp only [Pos.inCol.injEq] at hp
          obtain ⟨rfl, _⟩ := hp
          exact ⟨by omega, by omega⟩
      | none =>
        simp only [hexec] at h; injection h with h; subst h
        exact ainv_frame ha (fun v => by by_cases hv : v = w <;> simp [upd, hv]) (fun _ hy => hy)
      | running ts =>
        simp only [hexec] at h; injection h with h; subst h
        exact ainv_frame ha (fun v => by by_cases hv : v = w <;> simp [upd, hv]) (fun _ hy => hy)
  | taskDone w i =>
    simp only [step] at h
    cases hexec : (s.ws w).exec with
    | none => simp [hexec] at h
    | finished => simp [hexec] at h
    | running ts =>
      simp only [hexec] at h
      split at h
      · split at h
        · injection h with h; subst h
          exact ainv_frame ha (fun v => by by_cases hv : v = w <;> simp [upd, hv]) (fun _ hy => hy)
        · exact absurd h (by simp)
      · exact absurd h (by simp)
  | execFinish w =>
    simp only [step] at h
    cases hexec : (s.ws w).exec with
    | none => simp [hexec] at h
    | finished => simp [hexec] at h
    | running ts =>
      simp only [hexec] at h
      split at h
      · injection h with h; subst h
        exact ainv_frame ha (fun v => by by_cases hv : v = w <;> simp [upd, hv]) (fun _ hy => hy)
      · exact absurd h (by simp)
  | deliverWD w =>
    simp only [step] at h
    cases hqw : s.w2d w with
    | nil => simp [hqw] at h
    | cons m rest =>
      cases m with
      | jpr j =>
      simp only [hqw] at h
      injection h with h
      have hframe : s'.entered = s.entered ∧ s'.ws = s.ws := by
        unfold joinpointReached at h
        simp only at h
        split at h
        · split at h <;> (subst h; exact ⟨rfl, rfl⟩)
        · rcases mayComplete_shape cfg w (cfg.joins j)
            { s with w2d := upd s.w2d w rest, d := { s.d with completed := s.d.completed + 1, reported := w :: s.d.reported } }
            with hm | ⟨hm, _⟩ <;> (rw [hm] at h; subst h; exact ⟨rfl, rfl⟩)
      exact ainv_frame ha (fun v => by rw [hframe.2]) (fun _ hy => by rw [hframe.1]; exact hy)

theorem reach_ainv {cfg : Cfg} {s : State} (hwf : cfg.WF) (h : Reach cfg s) : AInv cfg s := by
  induction h with
  | init => exact init_ainv cfg
  | step s s' e hr hstep ih => exact step_ainv (reach_inv hwf hr) (reach_qinv hwf hr) ih hstep

end Race
