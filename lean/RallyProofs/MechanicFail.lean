import RallyProofs.MechanicIdle


/-! failures travel to race control: BenchmarkFailure received by the MechanicActor is forwarded -/

set_option linter.unusedSimpArgs false
set_option linter.unusedVariables false

namespace Mechanic

/-- the Dispatcher only tells, creates node actors and (de)registers for convention updates -/
def dispEff : Eff → Prop
  | .tell _ _ => True
  | .createNode _ => True
  | .notify _ => True
  | _ => False

theorem dispEff_guard {σ : Type} (sender : Aid) (r : Res σ) (h : ∀ e ∈ r.effs, dispEff e) :
    ∀ e ∈ (guard sender r).effs, dispEff e := by
  intro e he
  rw [guard_effs_eq] at he
  rcases List.mem_append.1 he with he | he
  · exact h e he
  · split at he <;> simp at he; subst he; trivial

theorem dispEff_poisonEff (r : Bool) (src : Aid) (msg : Msg) : ∀ e ∈ poisonEff r src msg, dispEff e := by
  unfold poisonEff
  split
  · split <;> simp [dispEff]
  · simp

theorem dispEff_distribute (sender : Aid) (l : List ((Nat × Nat) × List Nat)) (i : Nat)
    (acc : List Eff × List (Nat × Aid) × List (Nat × List (Nat × Aid))) (h : ∀ e ∈ acc.1, dispEff e) :
    ∀ e ∈ (distribute sender l i acc).1, dispEff e := by
  induction l generalizing i acc with
  | nil => simpa [distribute] using h
  | cons g rest ih =>
    obtain ⟨⟨ip, port⟩, ids⟩ := g
    obtain ⟨effs, pending, remotes⟩ := acc
    simp only [distribute]
    split
    · apply ih
      intro e he
      rcases List.mem_append.1 he with he | he
      · exact h e he
      · simp at he; subst he; trivial
    · apply ih; exact h

theorem dispEff_sendAll (l : List (Nat × Aid)) : ∀ e ∈ sendAll l, dispEff e := by
  intro e he; obtain ⟨p, _, rfl⟩ := List.mem_map.1 he; trivial

theorem dispEff_recvDisp (cfg : Config) (st : DSt) (msg : Msg) (src : Aid) :
    ∀ e ∈ (recvDisp cfg st msg src).effs, dispEff e := by
  cases msg <;> simp only [recvDisp] <;> try (simp; done)
  · apply dispEff_guard
    have hd := dispEff_distribute src (groups cfg) 0 ([], [], []) (by simp)
    generalize distribute src (groups cfg) 0 ([], [], []) = dd at hd
    obtain ⟨effs, pending, remotes⟩ := dd
    simp only []
    split
    · intro e he
      rcases List.mem_append.1 he with he | he
      · exact hd e he
      · exact dispEff_sendAll _ e he
    · intro e he
      rcases List.mem_append.1 he with he | he
      · exact hd e he
      · simp at he; subst he; trivial
  · split <;> simp [dispEff]
  · rename_i added ip
    cases added
    · simp only []
      split
      · split <;> simp [dispEff]
      · simp
    · simp only []
      split
      · simp
      · split
        · intro e he
          simp only [List.mem_append, List.mem_map, List.mem_singleton] at he
          rcases he with (⟨p, _, rfl⟩ | he) | he
          · trivial
          · subst he; trivial
          · exact dispEff_sendAll _ e he
        · intro e he; obtain ⟨p, _, rfl⟩ := List.mem_map.1 he; trivial
  · split <;> simp [dispEff]


theorem nodeEff_noCreateDisp (cfg : Config) (k : Nat) (st : NSt) (msg : Msg) (src : Aid) :
    Eff.createDisp ∉ (recvNode cfg k st msg src).2 := by
  intro hm
  cases msg <;> simp only [recvNode] at hm
  case startNodes h' r => have := startNodes_kind cfg st h' r _ hm; simp [isStartEff] at this
  case stopNodes =>
    split at hm
    · rcases List.mem_append.1 hm with hm | hm
      · have := stopEffs_kind cfg _ _ hm; simp [isStopEff] at this
      · simp at hm
    · simp at hm
  case exitReq =>
    split at hm
    · rcases List.mem_append.1 hm with hm | hm
      · have := stopEffs_kind cfg _ _ hm; simp [isStopEff] at this
      · simp [exitEffs] at hm
    · simp [exitEffs] at hm
  case wakeup => split at hm <;> simp at hm
  case poison => split at hm <;> simp at hm
  all_goals simp at hm

def isTell : Eff → Prop
  | .tell _ _ => True
  | _ => False

theorem isTell_exitReqs (l : List (Option Aid)) : ∀ e ∈ (exitReqs l).1, isTell e := by
  induction l with
  | nil => simp [exitReqs]
  | cons c r ih =>
    cases c with
    | none => simp [exitReqs]
    | some a =>
      intro e he
      simp only [exitReqs, List.mem_cons] at he
      rcases he with he | he
      · subst he; trivial
      · exact ih e he

theorem isTell_onStarted (st : MSt) : ∀ e ∈ (onStarted st).effs, isTell e := by
  unfold onStarted; split <;> simp [isTell]

theorem isTell_onStopped (st : MSt) : ∀ e ∈ (onStopped st).effs, isTell e := by
  unfold onStopped
  split
  · simp
  · have := isTell_exitReqs st.children
    split <;> (intro e he; rcases List.mem_cons.1 he with he | he <;> first | (subst he; trivial) | exact this e he)

theorem isTell_transition (st : MSt) (e n : Status) (k : MSt → Res MSt) (hk : ∀ st', ∀ x ∈ (k st').effs, isTell x) :
    ∀ x ∈ (transition st e n k).effs, isTell x := by
  rcases transition_cases st e n k with ⟨_, _, h3⟩ | ⟨h3, _⟩
  · rw [h3]; exact hk _
  · rw [h3]; simp

theorem isTell_tellRc (st : MSt) (m : Msg) : ∀ e ∈ (tellRc st m).effs, isTell e := by
  unfold tellRc; split <;> simp [isTell]

theorem isTell_guard {σ : Type} (sender : Aid) (r : Res σ) (h : ∀ e ∈ r.effs, isTell e) :
    ∀ e ∈ (guard sender r).effs, isTell e := by
  intro e he
  rw [guard_effs_eq] at he
  rcases List.mem_append.1 he with he | he
  · exact h e he
  · split at he <;> simp at he; subst he; trivial

theorem isTell_poisonEff (r : Bool) (src : Aid) (msg : Msg) : ∀ e ∈ poisonEff r src msg, isTell e := by
  unfold poisonEff
  split
  · split <;> simp [isTell]
  · simp

theorem mech_createDisp {cfg : Config} {st : MSt} {msg : Msg} {src : Aid}
    (hc : Eff.createDisp ∈ (recvMech cfg st msg src).effs) :
    msg = .startEngine ∧ cfg.external = false ∧ (recvMech cfg st msg src).st.raceControl = some src := by
  have key : ∀ l : List Eff, (∀ e ∈ l, isTell e) → Eff.createDisp ∈ l → False := by
    intro l hl hx; have := hl _ hx; simp [isTell] at this
  cases msg <;> simp only [recvMech] at hc ⊢ <;> try (simp at hc; done)
  · -- startEngine
    rw [guard_effs_eq] at hc
    rw [guard_st]
    rcases List.mem_append.1 hc with hc | hc
    · simp only [mechStart] at hc ⊢
      split at hc
      · simp at hc
      · split at hc
        · simp at hc
        · rename_i h1 h2
          have hne : ¬ cfg.hosts.isEmpty = true := h1
          simp [h1, h2]
    · split at hc <;> simp at hc
  · exfalso; refine key _ (isTell_guard _ _ ?_) hc
    unfold mechStop; split
    · exact isTell_onStopped st
    · intro e he; obtain ⟨a, _, rfl⟩ := List.mem_map.1 he; trivial
  · exfalso; refine key _ (isTell_guard _ _ ?_) hc
    unfold mechNodesStarted; exact isTell_transition _ _ _ _ (fun st' => isTell_onStarted st')
  · exfalso; refine key _ (isTell_guard _ _ ?_) hc
    unfold mechNodesStopped; exact isTell_transition _ _ _ _ (fun st' => isTell_onStopped st')
  · exact absurd hc (fun hx => key _ (isTell_tellRc _ _) hx)
  · split at hc
    · simp at hc
    · exact absurd hc (fun hx => key _ (isTell_tellRc _ _) hx)
  · exact absurd hc (fun hx => key _ (isTell_tellRc _ _) hx)

/-- a Dispatcher is created only by the MechanicActor handling StartEngine of a cluster that Rally provisions -/
theorem createDisp_origin {cfg : Config} {s0 s1 : State} {dst src : Aid} {msg : Msg} {effs : List Eff}
    (hh : handle cfg s0 dst src msg = some (s1, effs)) (hc : Eff.createDisp ∈ effs) :
    dst = .mech ∧ msg = .startEngine ∧ cfg.external = false ∧ s1.m.raceControl = some src := by
  cases dst with
  | rc => rw [(handle_rc hh).1] at hc; cases hc
  | sys => rw [(handle_sys hh).1] at hc; cases hc
  | disp =>
    rw [(handle_disp' hh).1] at hc
    rcases List.mem_append.1 hc with hc | hc
    · have := dispEff_recvDisp _ _ _ _ _ hc; simp [dispEff] at this
    · have := dispEff_poisonEff _ _ _ _ hc; simp [dispEff] at this
  | node k => rw [(handle_node hh).2.1] at hc; exact absurd hc (nodeEff_noCreateDisp _ _ _ _ _)
  | mech =>
    obtain ⟨he, h1⟩ := handle_mech' hh
    rw [he] at hc
    rcases List.mem_append.1 hc with hc | hc
    · obtain ⟨k1, k2, k3⟩ := mech_createDisp hc
      exact ⟨rfl, k1, k2, by rw [h1]; exact k3⟩
    · have := isTell_poisonEff _ _ _ _ hc; simp [isTell] at this


theorem onStopped_rc (st : MSt) : (onStopped st).st.raceControl = st.raceControl := by
  unfold onStopped; split
  · rfl
  · split <;> rfl

theorem mech_rc_keep (cfg : Config) (st : MSt) (msg : Msg) (src : Aid) (hm : msg ≠ .startEngine) :
    (recvMech cfg st msg src).st.raceControl = st.raceControl := by
  cases msg <;> simp only [recvMech, guard_st, tellRc_st] <;> try rfl
  · exact absurd rfl hm
  · simp only [mechStop]; split
    · exact onStopped_rc st
    · rfl
  · simp only [mechNodesStarted]
    rcases transition_cases (if some src ∈ st.children then st else { st with children := (some src :: st.children).dropLast })
      .starting .clusterStarted onStarted with ⟨_, _, h3⟩ | ⟨_, _, _, h3, _⟩
    · rw [h3, onStarted_st]; split <;> rfl
    · rw [h3]; split <;> rfl
  · simp only [mechNodesStopped]
    rcases transition_cases st .clusterStopping .clusterStopped onStopped with ⟨_, _, h3⟩ | ⟨_, _, _, h3, _⟩
    · rw [h3, onStopped_rc]
    · rw [h3]
  · split
    · rfl
    · rw [tellRc_st]

theorem mechStart_rc (cfg : Config) (st : MSt) (src : Aid) :
    (recvMech cfg st .startEngine src).st.raceControl = some src := by
  simp only [recvMech, guard_st, mechStart]
  split
  · rfl
  · split <;> rfl

/-- once a Dispatcher exists the MechanicActor knows race control -/
theorem rc_known {cfg : Config} {s : State} {tr : List Out} (hr : Reach cfg s tr) :
    (s.dispCreated = true → cfg.external = false) ∧
      ((s.dispCreated = true ∨ Out.recv .mech .rc .startEngine ∈ tr) → s.m.raceControl = some .rc) := by
  induction hr with
  | init => simp [State.init]
  | @step s s' tr outs e hr hs ih =>
    have hT := ty_reach hr
    refine step_elim (motive := fun s' outs => (s'.dispCreated = true → cfg.external = false) ∧
      ((s'.dispCreated = true ∨ Out.recv .mech .rc .startEngine ∈ tr ++ outs) → s'.m.raceControl = some .rc)) hs ?_ ?_ ?_ ?_ ?_
    · intro _; refine ⟨ih.1, ?_⟩; intro h; apply ih.2; simpa using h
    · intro _ _; refine ⟨ih.1, ?_⟩; intro h; apply ih.2; simpa using h
    · intro _ _ _; refine ⟨ih.1, ?_⟩; intro h; apply ih.2; simpa using h
    · intro s0 dst src msg hp _
      obtain ⟨_, _, h3, _⟩ := pre_allowed hT hp
      rw [pre_dispCreated hp, h3]
      refine ⟨ih.1, ?_⟩; intro h; apply ih.2; simpa using h
    · intro s0 dst src msg s1 effs hp hh
      obtain ⟨ha, _, h3, _⟩ := pre_allowed hT hp
      rw [applyEffs_dispCreated, handle_dispCreated hh, pre_dispCreated hp, applyEffs_m]
      by_cases hc : Eff.createDisp ∈ effs
      · obtain ⟨k1, k2, k3, k4⟩ := createDisp_origin hh hc
        subst k1 k2
        have hsrc : src = .rc := by
          rcases ha with ha | ⟨h, _⟩
          · cases src <;> simp [allowed] at ha; rfl
          · cases h
        subst hsrc
        exact ⟨fun _ => k3, fun _ => k4⟩
      · simp only [hc, decide_false, Bool.or_false]
        refine ⟨ih.1, ?_⟩
        by_cases hd : dst = .mech
        · subst hd
          obtain ⟨he, h1⟩ := handle_mech' hh
          rw [h1, h3]
          by_cases hm : msg = .startEngine
          · subst hm
            have hsrc : src = .rc := by
              rcases ha with ha | ⟨h, _⟩
              · cases src <;> simp [allowed] at ha; rfl
              · cases h
            subst hsrc
            intro _; exact mechStart_rc cfg s.m .rc
          · intro h
            show (recvMech cfg s.m msg src).st.raceControl = _
            rw [mech_rc_keep cfg s.m msg src hm]
            apply ih.2
            rcases h with h | h
            · exact Or.inl h
            · right
              rcases List.mem_append.1 h with h | h
              · exact h
              · exact absurd (mem_outs_recv.1 h).2.2.symm hm
        · rw [handle_m_other hd hh, h3]
          intro h; apply ih.2
          rcases h with h | h
          · exact Or.inl h
          · right
            rcases List.mem_append.1 h with h | h
            · exact h
            · exact absurd (mem_outs_recv.1 h).1.symm hd


theorem mem_outs_dead {dst src : Aid} {msg : Msg} {effs : List Eff} {a b : Aid} {m : Msg} :
    Out.dead a b m ∉ (Out.recv dst src msg :: effs.map (toOut dst)) := by
  intro h
  rcases List.mem_cons.1 h with h | h
  · cases h
  · obtain ⟨e, _, he⟩ := List.mem_map.1 h
    cases e <;> simp [toOut] at he

/-- race control and the MechanicActor never die (in the model), so nothing sent to them is lost -/
theorem no_dead {cfg : Config} {s : State} {tr : List Out} (hr : Reach cfg s tr) :
    ∀ a m, Out.dead .mech a m ∉ tr ∧ Out.dead .rc a m ∉ tr := by
  induction hr with
  | init => simp
  | @step s s' tr outs e hr hs ih =>
    refine step_elim (motive := fun _ outs => ∀ a m, Out.dead .mech a m ∉ tr ++ outs ∧ Out.dead .rc a m ∉ tr ++ outs) hs ?_ ?_ ?_ ?_ ?_
    · intro _ a m; simpa using ih a m
    · intro _ _ a m; simpa using ih a m
    · intro _ _ _ a m; simpa using ih a m
    · intro s0 dst src msg hp hh a m
      have : dst ≠ .mech ∧ dst ≠ .rc := by
        constructor <;> (intro hd; subst hd; simp [handle] at hh)
      constructor
      · intro hx; rcases List.mem_append.1 hx with hx | hx
        · exact (ih a m).1 hx
        · simp at hx; exact this.1 hx.1.symm
      · intro hx; rcases List.mem_append.1 hx with hx | hx
        · exact (ih a m).2 hx
        · simp at hx; exact this.2 hx.1.symm
    · intro s0 dst src msg s1 effs hp hh a m
      constructor
      · intro hx; rcases List.mem_append.1 hx with hx | hx
        · exact (ih a m).1 hx
        · exact mem_outs_dead hx
      · intro hx; rcases List.mem_append.1 hx with hx | hx
        · exact (ih a m).2 hx
        · exact mem_outs_dead hx

/-- every BenchmarkFailure the MechanicActor receives is forwarded to race control -/
theorem failure_forwarded {cfg : Config} {s : State} {tr : List Out} (hr : Reach cfg s tr) :
    ∀ a k, Out.recv .mech a (.failure k) ∈ tr → Out.send .mech .rc (.failure k) ∈ tr := by
  induction hr with
  | init => simp
  | @step s s' tr outs e hr hs ih =>
    have hT := ty_reach hr
    refine step_elim (motive := fun _ outs => ∀ a k, Out.recv .mech a (.failure k) ∈ tr ++ outs →
      Out.send .mech .rc (.failure k) ∈ tr ++ outs) hs ?_ ?_ ?_ ?_ ?_
    · intro _ a k h; apply List.mem_append_left; apply ih a k; simpa using h
    · intro _ _ a k h; apply List.mem_append_left; apply ih a k; simpa using h
    · intro _ _ _ a k h; apply List.mem_append_left; apply ih a k; simpa using h
    · intro _ _ _ _ _ _ a k h; apply List.mem_append_left; apply ih a k; simpa using h
    · intro s0 dst src msg s1 effs hp hh a k h
      rcases List.mem_append.1 h with h | h
      · exact List.mem_append_left _ (ih a k h)
      · obtain ⟨k1, k2, k3⟩ := mem_outs_recv.1 h
        subst k1 k2 k3
        apply List.mem_append_right
        apply mem_outs_send.2
        refine ⟨rfl, ?_⟩
        obtain ⟨he, _⟩ := handle_mech' hh
        obtain ⟨ha, _, h3, _⟩ := pre_allowed hT hp
        rw [he, h3]
        apply List.mem_append_left
        -- the sender is not race control, hence a Dispatcher exists, hence race control is known
        have hrc : s.m.raceControl = some .rc := by
          apply (rc_known hr).2
          left
          cases hdc : s.dispCreated with
          | true => rfl
          | false =>
            exfalso
            have I := idle_reach hr hdc
            cases hp with
            | pop _ _ _ rest hc =>
              have hal := hT.chan a .mech (.failure k) (by rw [hc]; exact List.mem_cons_self)
              rcases I.a1 a .mech (by rw [hc]; simp) with ⟨rfl, _⟩ | ⟨_, h⟩
              · simp [allowed] at hal
              · cases h
        simp [recvMech, tellRc, hrc]

/-- a BenchmarkFailure sent to the MechanicActor is on its way to race control or has arrived -/
theorem failure_reaches_rc {cfg : Config} {s : State} {tr : List Out} (hr : Reach cfg s tr) {a : Aid} {k : FKind}
    (hs : Out.send a .mech (.failure k) ∈ tr) :
    .failure k ∈ s.chan a .mech ∨ .failure k ∈ s.chan .mech .rc ∨ Out.recv .rc .mech (.failure k) ∈ tr := by
  have c1 := conservation hr a .mech (.failure k) (by intro h; cases h)
  have hd := no_dead hr
  have h0 : 0 < tr.count (Out.send a .mech (.failure k)) := List.count_pos_iff.2 hs
  rw [List.count_eq_zero_of_not_mem (hd a _).1] at c1
  by_cases hch : .failure k ∈ s.chan a .mech
  · exact Or.inl hch
  · right
    rw [List.count_eq_zero_of_not_mem hch] at c1
    have hrecv : Out.recv .mech a (.failure k) ∈ tr := List.count_pos_iff.1 (by omega)
    have hfw := failure_forwarded hr a k hrecv
    have c2 := conservation hr .mech .rc (.failure k) (by intro h; cases h)
    have h1 : 0 < tr.count (Out.send .mech .rc (.failure k)) := List.count_pos_iff.2 hfw
    rw [List.count_eq_zero_of_not_mem (hd .mech _).2] at c2
    by_cases hch2 : .failure k ∈ s.chan .mech .rc
    · exact Or.inl hch2
    · right
      rw [List.count_eq_zero_of_not_mem hch2] at c2
      exact List.count_pos_iff.1 (by omega)


/-! ### a departing daemon (ActorSystemConventionUpdate with remoteAdded = false) -/

theorem disp_work_mono (cfg : Config) (st : DSt) (msg : Msg) (src : Aid) (h : st.work.isSome = true) :
    (recvDisp cfg st msg src).st.work.isSome = true := by
  by_cases hm : msg = .startEngine
  · subst hm
    simp only [recvDisp, guard_st]
    generalize distribute src (groups cfg) 0 ([], [], []) = dd
    obtain ⟨effs, pending, remotes⟩ := dd
    simp only []
    split <;> rfl
  · have := (disp_token_other (cfg := cfg) (st := st) (src := src) (h := 0) hm).2.1
    rw [this]; exact h

theorem disp_registered (cfg : Config) (st : DSt) (msg : Msg) (src : Aid) (h : st.registered = true → st.work.isSome = true) :
    (recvDisp cfg st msg src).st.registered = true → (recvDisp cfg st msg src).st.work.isSome = true := by
  cases msg <;> simp only [recvDisp, guard_st] <;> try exact h
  · generalize distribute src (groups cfg) 0 ([], [], []) = dd
    obtain ⟨effs, pending, remotes⟩ := dd
    simp only []
    split <;> (intro _; rfl)
  · split <;> exact h
  · rename_i added ip
    cases added
    · simp only []
      split
      · split <;> exact h
      · exact h
    · simp only []
      split
      · exact h
      · split <;> simp
  · split <;> exact h

structure DP (cfg : Config) (s : State) (tr : List Out) : Prop where
  dp1 : s.d.registered = true → s.d.work.isSome = true
  dp2 : ∀ m ∈ s.chan .sys .disp, s.d.work.isSome = true
  dp3 : cfg.patched = true → ∀ ip, Out.recv .disp .sys (.conv false ip) ∈ tr →
          Out.send .disp .mech (.failure (.daemonLeft ip)) ∈ tr

theorem dp_reach {cfg : Config} {s : State} {tr : List Out} (hr : Reach cfg s tr) : DP cfg s tr := by
  induction hr with
  | init => exact ⟨by simp [State.init, DSt.init], by simp [State.init], by simp⟩
  | @step s s' tr outs e hr hs ih =>
    have hT := ty_reach hr
    have hD := di_reach hr
    have mono : ∀ o, (cfg.patched = true → ∀ ip, Out.recv .disp .sys (.conv false ip) ∈ tr ++ o →
        Out.recv .disp .sys (.conv false ip) ∉ o → Out.send .disp .mech (.failure (.daemonLeft ip)) ∈ tr ++ o) := by
      intro o hp ip hx hno
      rcases List.mem_append.1 hx with hx | hx
      · exact List.mem_append_left _ (ih.dp3 hp ip hx)
      · exact absurd hx hno
    refine step_elim (motive := fun s' outs => DP cfg s' (tr ++ outs)) hs ?_ ?_ ?_ ?_ ?_
    · intro _
      refine ⟨ih.dp1, ?_, fun hp ip hx => mono _ hp ip hx (by simp)⟩
      intro m hm
      have hm' : m ∈ push s.chan .rc .mech .startEngine .sys .disp := hm
      rcases mem_push hm' with hm | ⟨h, _⟩
      · exact ih.dp2 m hm
      · cases h
    · intro _ _
      refine ⟨ih.dp1, ?_, fun hp ip hx => mono _ hp ip hx (by simp)⟩
      intro m hm
      have hm' : m ∈ push s.chan .rc .mech .stopEngine .sys .disp := hm
      rcases mem_push hm' with hm | ⟨h, _⟩
      · exact ih.dp2 m hm
      · cases h
    · intro added ip hreg
      refine ⟨ih.dp1, ?_, fun hp ip hx => mono _ hp ip hx (by simp)⟩
      intro m hm
      have hm' : m ∈ push s.chan .sys .disp (.conv added ip) .sys .disp := hm
      rcases mem_push hm' with hm | _
      · exact ih.dp2 m hm
      · exact ih.dp1 hreg
    · intro s0 dst src msg hp _
      obtain ⟨_, h2, _, h4⟩ := pre_allowed hT hp
      refine ⟨by rw [h4]; exact ih.dp1, ?_, fun hp ip hx => mono _ hp ip hx (by simp)⟩
      intro m hm; rw [h4]; exact ih.dp2 m (h2 _ _ _ hm)
    · intro s0 dst src msg s1 effs hp hh
      obtain ⟨ha, h2, _, h4⟩ := pre_allowed hT hp
      have hc := handle_chan hh
      by_cases hd : dst = .disp
      · subst hd
        obtain ⟨he, h1⟩ := handle_disp' hh
        rw [h4] at he h1
        have hst : (applyEffs Aid.disp s1 effs).d = (recvDisp cfg s.d msg src).st := by rw [applyEffs_d, h1]
        have hwork : s.d.work.isSome = true → (applyEffs Aid.disp s1 effs).d.work.isSome = true := by
          intro h; rw [hst]; exact disp_work_mono cfg s.d msg src h
        refine ⟨?_, ?_, ?_⟩
        · rw [hst]; exact disp_registered cfg s.d msg src ih.dp1
        · intro m hm
          rw [applyEffs_chan, hc] at hm
          have hne : ¬ (Aid.sys = Aid.disp) := by intro h; cases h
          simp only [hne, if_false, List.append_nil] at hm
          exact hwork (ih.dp2 m (h2 _ _ _ hm))
        · intro hpat ip hx
          rcases List.mem_append.1 hx with hx | hx
          · exact List.mem_append_left _ (ih.dp3 hpat ip hx)
          · obtain ⟨_, k2, k3⟩ := mem_outs_recv.1 hx
            subst k2 k3
            apply List.mem_append_right
            apply mem_outs_send.2
            refine ⟨rfl, ?_⟩
            have hw : s.d.work.isSome = true := by
              cases hp with
              | pop _ _ _ rest hc' => exact ih.dp2 _ (by rw [hc']; exact List.mem_cons_self)
            have hss := hD.d3 hw
            rw [he]; apply List.mem_append_left
            simp [recvDisp, hpat, hss]
      · have hd1 := handle_d_other hd hh
        refine ⟨by rw [applyEffs_d, hd1, h4]; exact ih.dp1, ?_, ?_⟩
        · intro m hm
          rw [applyEffs_d, hd1, h4]
          rw [applyEffs_chan, hc] at hm
          rcases List.mem_append.1 hm with hm1 | hm2
          · exact ih.dp2 m (h2 _ _ _ hm1)
          · by_cases hds : Aid.sys = dst
            · subst hds
              rw [(handle_sys hh).1] at hm2; simp [told] at hm2
            · simp [hds] at hm2
        · intro hpat ip hx
          apply mono _ hpat ip hx
          intro hx2; exact hd (mem_outs_recv.1 hx2).1.symm

/-- with the repaired Dispatcher, a departure it is told about is on its way to race control or has arrived -/
theorem departure_reaches_rc {cfg : Config} (hpat : cfg.patched = true) {s : State} {tr : List Out} (hr : Reach cfg s tr)
    {ip : Nat} (hx : Out.recv .disp .sys (.conv false ip) ∈ tr) :
    .failure (.daemonLeft ip) ∈ s.chan .disp .mech ∨ .failure (.daemonLeft ip) ∈ s.chan .mech .rc ∨
      Out.recv .rc .mech (.failure (.daemonLeft ip)) ∈ tr :=
  failure_reaches_rc hr ((dp_reach hr).dp3 hpat ip hx)

end Mechanic
