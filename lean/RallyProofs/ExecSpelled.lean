import RallyProofs.Exec

/-!
Helper lemmas for C04: the target throughput as the track *spells* it (`Task.target_throughput` /
`Task.THROUGHPUT_PATTERN`) and the due times of the deterministic schedule that follow from it.
-/

namespace Exec

/-- value of the decimal numeral `<ip>.<fp>`; `ip` may be empty (".5") -/
def decimal (ip fp : Str) : Rat := (digitsVal ip : Rat) + (digitsVal fp : Rat) / ((10 ^ fp.length : Nat) : Rat)

/-- the text `<num><sp><word>/s<rest>` -/
def spelled (num : Str) (sp : Char) (w rest : Str) : Str := num ++ sp :: (w ++ '/' :: 's' :: rest)

/-- a well-formed target string is read as the exact value of its numeral, in its unit -/
theorem targetThroughput_of_spelled (r : Rat → Rat) (hr : ∀ x, r x = x) {num : Str} {v : Rat} (hn : IsNumber num v) (hv : v ≠ 0)
    (sp : Char) (hsp : isSpace sp = true) (w : Str) (hne : w ≠ []) (hw : Word w) (rest : Str) :
    targetThroughput r (.str (spelled num sp w rest)) .none = .ok (some ⟨v, w ++ ['/', 's']⟩) := by
  have hacc : Accepts (spelled num sp w rest) v (w ++ ['/', 's']) := ⟨num, sp, w, rest, rfl, hn, hsp, hne, hw, rfl⟩
  have hm := (matchThroughput_spec _ _ _).mpr hacc
  have hne' : (spelled num sp w rest).isEmpty = false := by simp [spelled]
  simp only [targetThroughput, PVal.truthy, hne', hm, finishThroughput, hr]
  simp [hv]

/-- a numeral whose value is 0 ("0", ".0", "0.00") means: no target throughput -/
theorem targetThroughput_of_spelled_zero (r : Rat → Rat) (hr : ∀ x, r x = x) {num : Str} (hn : IsNumber num 0)
    (sp : Char) (hsp : isSpace sp = true) (w : Str) (hne : w ≠ []) (hw : Word w) (rest : Str) :
    targetThroughput r (.str (spelled num sp w rest)) .none = .ok none := by
  have hacc : Accepts (spelled num sp w rest) 0 (w ++ ['/', 's']) := ⟨num, sp, w, rest, rfl, hn, hsp, hne, hw, rfl⟩
  have hm := (matchThroughput_spec _ _ _).mpr hacc
  have hne' : (spelled num sp w rest).isEmpty = false := by simp [spelled]
  simp only [targetThroughput, PVal.truthy, hne', hm, finishThroughput, hr]
  simp

/-- deterministic schedule, target `tp`: everything is due at 0 until a response with positive weight in the target's unit
    has been seen, after such a response the next request is due `ops * clients / tp.value` later -/
theorem det_due_times_of_target (R : Run) (tp : Throughput)
    (htp : targetThroughput R.c.r R.tt R.ti = .ok (some tp))
    (hdet : R.t.sched = none ∨ R.t.sched = some detName) :
    (∀ rec, R.f.out.recs.head? = some rec → rec.tup.sched = 0) ∧
    Adj (fun a b =>
      (0 < a.sample.ops → a.sample.unit ++ ['/', 's'] = tp.unit →
        b.tup.sched = a.tup.sched + (a.sample.ops : Rat) * (R.c.clients : Rat) / tp.value) ∧
      (a.innerAfter = .unthrottled → b.tup.sched = 0)) R.f.out.recs := by
  have hr := R.exact
  obtain ⟨tp', sched, htp', hs, _, _, hout, _⟩ := R.inv
  rw [htp] at htp'
  injection htp' with htp'
  subst htp'
  have hsched : sched = .unitAware .deterministic tp true none .unthrottled := by
    rcases schedulerFor_ok hs with h | ⟨kind, t, ht, h, hk⟩
    · exfalso
      unfold schedulerFor at hs
      simp [runUnthrottled] at hs
      rcases hdet with hd | hd <;> simp [hd] at hs <;> rw [h] at hs <;> cases hs
    · injection ht with ht
      subst ht
      have : kind = .deterministic := hk.mpr (by rcases hdet with hd | hd <;> simp [hd])
      rw [h, this]
  have hI0 : DetInv tp R.c.clients (R.st0 sched) := ⟨true, none, .unthrottled, by simp [Run.st0, hsched], Or.inl ⟨rfl, rfl, rfl⟩⟩
  constructor
  · intro rec hrec
    rw [hout] at hrec
    cases hreqs : R.reqs with
    | nil => rw [hreqs, go_nil_recs] at hrec; cases hrec
    | cons q qs =>
      rw [hreqs] at hrec
      obtain ⟨st', hs⟩ := go_head hrec
      obtain ⟨ops, unit, m, sched', _, _, _, hrec', _⟩ := step_sampled_inv hs
      subst hrec'
      simp [recOf, tupleOf, schedOf, Sched.next, Run.st0, hsched, Sched.inner, Inner.next]
  · rw [hout]
    refine go_recs_adj (c := R.c) (DetInv tp R.c.clients) (fun _ => True) _ ?_ ?_ R.reqs _ hI0 (fun _ _ => trivial)
    · intro st q rec st' hI _ hs
      exact (detInv_step hr hI hs).1
    · intro st q rec st' q' rec' st'' hI _ _ _ hs _ _ hs'
      have ⟨_, hin, hval⟩ := detInv_step hr hI hs
      obtain ⟨ops', unit', m', sched'', _, _, _, hrec', _⟩ := step_sampled_inv hs'
      obtain ⟨ops, unit, m, sched', _, _, _, hrec, hst'⟩ := step_sampled_inv hs
      have hnext : st'.nextSched = rec.tup.sched := by rw [hst', hrec]; rfl
      have hb : rec'.tup.sched = st'.sched.inner.next R.c.r st'.nextSched q'.draw := by rw [hrec']; rfl
      refine ⟨?_, ?_⟩
      · intro hops hunit
        rw [hb, ← hin, hval hops hunit, hnext]
        simp [Inner.next, hr]
      · intro hun
        rw [hb, ← hin, hun]; rfl

end Exec
