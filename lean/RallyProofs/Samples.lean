import RallyModel.Samples
/-! Counting lemmas for the sample pipeline (C07). Core only. -/
namespace Samples

/-- how often sample `a` occurs anywhere in the pipeline (request records count once per sample) -/
def located (a : Sid) (s : State) : Nat :=
  (s.samplers.map (·.2)).count a + (s.w2d.flatMap (·.2)).count a + s.raw.count a + s.dstore.count a +
    s.d2r.flatten.count a + s.rstore.count a + s.downsampled.count a

/-- how often `a` has been post-processed and where its records are now -/
def processed (a : Sid) (s : State) : Nat :=
  s.dstore.count a + s.d2r.flatten.count a + s.rstore.count a + s.downsampled.count a

theorem count_filter_partition {α : Type} [DecidableEq α] (l : List α) (p : α → Bool) (a : α) :
    (l.filter p).count a + (l.filter fun x => !p x).count a = l.count a := by
  induction l with
  | nil => rfl
  | cons x xs ih =>
    simp only [List.filter_cons]
    cases hp : p x <;> simp [List.count_cons, ← ih] <;> omega

theorem count_map_filter_partition (l : List (Nat × Sid)) (p : Nat × Sid → Bool) (a : Sid) :
    ((l.filter p).map (·.2)).count a + ((l.filter fun x => !p x).map (·.2)).count a = (l.map (·.2)).count a := by
  induction l with
  | nil => rfl
  | cons x xs ih =>
    simp only [List.filter_cons, List.map_cons]
    cases hp : p x <;> simp [List.count_cons, ← ih] <;> omega

theorem map_fst_zipIdx (l : List Sid) (k : Nat) : (l.zipIdx k).map (·.1) = l := by
  induction l generalizing k with
  | nil => rfl
  | cons x xs ih => simp [List.zipIdx_cons, ih]

theorem keep_lose_count (f : Nat) (l : List Sid) (a : Sid) :
    (keep f l).count a + (lose f l).count a = l.count a := by
  unfold keep lose
  have h := count_filter_partition (l.zipIdx) (fun p => p.2 % f == 0)
  -- count over the mapped lists
  have hm : ∀ (q : Sid × Nat → Bool),
      ((l.zipIdx.filter q).map (·.1)).count a + ((l.zipIdx.filter fun x => !q x).map (·.1)).count a
        = (l.zipIdx.map (·.1)).count a := by
    intro q
    generalize l.zipIdx = z
    induction z with
    | nil => rfl
    | cons x xs ih =>
      simp only [List.filter_cons, List.map_cons]
      cases hq : q x <;> simp [List.count_cons, ← ih] <;> omega
  have := hm (fun p => p.2 % f == 0)
  rw [map_fst_zipIdx] at this
  exact this

theorem lose_one (l : List Sid) : lose 1 l = [] := by
  unfold lose
  simp [Nat.mod_one]

theorem keep_one (l : List Sid) : keep 1 l = l := by
  unfold keep
  have : (l.zipIdx.filter fun p => p.2 % 1 == 0) = l.zipIdx := by
    apply List.filter_eq_self.mpr
    intro x _; simp [Nat.mod_one]
  rw [this]
  exact map_fst_zipIdx l 0

theorem extractFirst_count {w : Nat} {l rest : List (Nat × List Sid)} {m : List Sid}
    (h : extractFirst w l = some (m, rest)) (a : Sid) :
    (l.flatMap (·.2)).count a = m.count a + (rest.flatMap (·.2)).count a := by
  induction l generalizing m rest with
  | nil => simp [extractFirst] at h
  | cons x xs ih =>
    obtain ⟨v, mv⟩ := x
    simp only [extractFirst] at h
    split at h
    · injection h with h
      injection h with h1 h2
      subst h1; subst h2
      simp [List.flatMap_cons, List.count_append]
    · cases hx : extractFirst w xs with
      | none => simp [hx] at h
      | some pr =>
        obtain ⟨m', rest'⟩ := pr
        simp only [hx] at h
        injection h with h
        injection h with h1 h2
        subst h1; subst h2
        have := ih hx
        simp only [List.flatMap_cons, List.count_append, this]
        omega

/-- every step preserves: (places where `a` is) = (times `a` was accepted) -/
theorem step_located {cfg : Cfg} {s s' : State} {e : Event} (h : step cfg s e = some s') (a : Sid)
    (hinv : located a s = s.accepted.count a) : located a s' = s'.accepted.count a := by
  cases e with
  | request w sid =>
    simp only [step] at h
    split at h
    · injection h with h; subst h
      simp only [located, List.map_append, List.count_append, List.map_cons, List.map_nil] at hinv ⊢
      omega
    · injection h with h; subst h
      exact hinv
  | ship w =>
    simp only [step] at h
    split at h
    · injection h with h; subst h; exact hinv
    · injection h with h; subst h
      have hp := count_map_filter_partition s.samplers (fun p => p.1 == w) a
      simp only [located, List.flatMap_append, List.count_append, List.flatMap_cons, List.flatMap_nil, List.append_nil, queueOf] at hinv ⊢
      omega
  | deliverU w =>
    simp only [step] at h
    cases hx : extractFirst w s.w2d with
    | none => simp [hx] at h
    | some pr =>
      obtain ⟨m, rest⟩ := pr
      simp only [hx] at h
      injection h with h; subst h
      have := extractFirst_count hx a
      simp only [located, List.count_append] at hinv ⊢
      omega
  | postprocess =>
    simp only [step] at h
    injection h with h; subst h
    have := keep_lose_count cfg.factor s.raw a
    simp only [located, List.count_append, List.count_nil] at hinv ⊢
    omega
  | handover =>
    simp only [step] at h
    injection h with h; subst h
    simp only [located, List.flatten_append, List.count_append, List.flatten_cons, List.flatten_nil, List.append_nil,
      List.count_nil] at hinv ⊢
    omega
  | deliverR =>
    simp only [step] at h
    cases hq : s.d2r with
    | nil => simp [hq] at h
    | cons m rest =>
      simp only [hq] at h
      injection h with h; subst h
      simp only [located, hq, List.flatten_cons, List.count_append] at hinv ⊢
      omega

/-- every step preserves: everything post-processed has been fed to the throughput calculator, exactly once -/
theorem step_fed {cfg : Cfg} {s s' : State} {e : Event} (h : step cfg s e = some s') (a : Sid)
    (hinv : s.fed.count a = processed a s) : s'.fed.count a = processed a s' := by
  cases e with
  | request w sid =>
    simp only [step] at h
    split at h <;> (injection h with h; subst h; exact hinv)
  | ship w =>
    simp only [step] at h
    split at h <;> (injection h with h; subst h; exact hinv)
  | deliverU w =>
    simp only [step] at h
    cases hx : extractFirst w s.w2d with
    | none => simp [hx] at h
    | some pr =>
      obtain ⟨m, rest⟩ := pr
      simp only [hx] at h
      injection h with h; subst h
      exact hinv
  | postprocess =>
    simp only [step] at h
    injection h with h; subst h
    have := keep_lose_count cfg.factor s.raw a
    simp only [processed, List.count_append] at hinv ⊢
    omega
  | handover =>
    simp only [step] at h
    injection h with h; subst h
    simp only [processed, List.flatten_append, List.count_append, List.flatten_cons, List.flatten_nil, List.append_nil,
      List.count_nil] at hinv ⊢
    omega
  | deliverR =>
    simp only [step] at h
    cases hq : s.d2r with
    | nil => simp [hq] at h
    | cons m rest =>
      simp only [hq] at h
      injection h with h; subst h
      simp only [processed, hq, List.flatten_cons, List.count_append] at hinv ⊢
      omega

/-- with factor 1 nothing is ever down-sampled -/
theorem step_downsampled {cfg : Cfg} {s s' : State} {e : Event} (hf : cfg.factor = 1) (h : step cfg s e = some s')
    (hinv : s.downsampled = []) : s'.downsampled = [] := by
  cases e with
  | request w sid =>
    simp only [step] at h
    split at h <;> (injection h with h; subst h; exact hinv)
  | ship w =>
    simp only [step] at h
    split at h <;> (injection h with h; subst h; exact hinv)
  | deliverU w =>
    simp only [step] at h
    cases hx : extractFirst w s.w2d with
    | none => simp [hx] at h
    | some pr =>
      obtain ⟨m, rest⟩ := pr
      simp only [hx] at h
      injection h with h; subst h
      exact hinv
  | postprocess =>
    simp only [step] at h
    injection h with h; subst h
    simp [hinv, hf, lose_one]
  | handover =>
    simp only [step] at h
    injection h with h; subst h; exact hinv
  | deliverR =>
    simp only [step] at h
    cases hq : s.d2r with
    | nil => simp [hq] at h
    | cons m rest =>
      simp only [hq] at h
      injection h with h; subst h; exact hinv

theorem run_induction {cfg : Cfg} (P : State → Prop)
    (hstep : ∀ s s' e, step cfg s e = some s' → P s → P s') :
    ∀ (evs : List Event) (s s' : State), run cfg s evs = some s' → P s → P s' := by
  intro evs
  induction evs with
  | nil => intro s s' h hp; simp only [run] at h; injection h with h; subst h; exact hp
  | cons e es ih =>
    intro s s' h hp
    simp only [run] at h
    cases hs : step cfg s e with
    | none => simp [hs] at h
    | some s1 =>
      simp only [hs] at h
      exact ih s1 s' h (hstep s s1 e hs hp)

end Samples
