import RallyModel.Race
import RallyProofs.Race
import RallyProofs.RaceMeasure
/-
A worker whose executor never finishes (C09: its future failed) stays where it is, whatever everybody else does.
-/
namespace Race

/-- the events only worker `w`'s own executor thread and wake-up timer produce -/
def Event.ownOf (w : Nat) : Event → Bool
  | .wakeW v => v == w
  | .taskDone v _ => v == w
  | .execFinish v => v == w
  | _ => false

def runEvs (cfg : Cfg) : State → List Event → Option State
  | s, [] => some s
  | s, e :: es => match step cfg s e with
    | some s' => runEvs cfg s' es
    | none => none

theorem reach_runEvs {cfg : Cfg} : ∀ (evs : List Event) (s s' : State), Reach cfg s → runEvs cfg s evs = some s' → Reach cfg s' := by
  intro evs
  induction evs with
  | nil => intro s s' hr h; simp only [runEvs] at h; injection h with h; subst h; exact hr
  | cons e es ih =>
    intro s s' hr h
    simp only [runEvs] at h
    cases hs : step cfg s e with
    | none => simp [hs] at h
    | some s1 => simp only [hs] at h; exact ih s1 s' (Reach.step s s1 e hr hs) h

theorem joinpointReached_ws (cfg : Cfg) (w : Nat) (ji : JoinInfo) (s : State) : (joinpointReached cfg w ji s).ws = s.ws := by
  unfold joinpointReached
  simp only
  split
  · split <;> rfl
  · rcases mayComplete_shape cfg w ji { s with d := { s.d with completed := s.d.completed + 1, reported := w :: s.d.reported } } with h | ⟨h, _⟩
    · rw [h]
    · rw [h]

/-- a step that is not one of `w`'s own executor / wake-up events leaves `w` where it is, if `w` is inside a column -/
theorem step_keeps_pos {cfg : Cfg} {s s' : State} {ev : Event} {w e c : Nat} (h : step cfg s ev = some s')
    (hown : ev.ownOf w = false) (hp : (s.ws w).pos = .inCol e c) : (s'.ws w).pos = .inCol e c := by
  cases ev with
  | deliverDW v =>
    simp only [step] at h
    cases hq : s.d2w v with
    | nil => simp [hq] at h
    | cons m rest =>
      simp only [hq] at h
      cases m with
      | startWorker =>
        simp only at h
        cases hpv : (s.ws v).pos with
        | unstarted =>
          simp only [hpv] at h
          injection h with h; subst h
          have hne : w ≠ v := by intro hwv; subst hwv; rw [hp] at hpv; cases hpv
          simp [toJoin, upd, hne, hp]
        | atJoin j => simp [hpv] at h
        | inCol e' c' => simp [hpv] at h
      | drive =>
        simp only at h
        injection h with h; subst h
        by_cases hwv : w = v
        · subst hwv; simp [upd, hp]
        · simp [upd, hwv, hp]
      | cct =>
        simp only at h
        split at h
        · injection h with h; subst h; exact hp
        · injection h with h; subst h
          by_cases hwv : w = v
          · subst hwv; simp [upd, hp]
          · simp [upd, hwv, hp]
  | wakeW v =>
    have hne : v ≠ w := by simpa [Event.ownOf] using hown
    simp only [step] at h
    split at h
    · simp at h
    · split at h
      · obtain ⟨_, _, hoth⟩ := driveNext_frame h
        rw [(hoth w (Ne.symm hne)).1]
        simp [upd, Ne.symm hne, hp]
      · split at h
        · obtain ⟨_, _, hoth⟩ := driveNext_frame h
          rw [(hoth w (Ne.symm hne)).1]
          simp [upd, Ne.symm hne, hp]
        · injection h with h; subst h
          simp [upd, Ne.symm hne, hp]
  | taskDone v i =>
    have hne : v ≠ w := by simpa [Event.ownOf] using hown
    simp only [step] at h
    split at h
    · split at h
      · split at h
        · injection h with h; subst h; simp [upd, Ne.symm hne, hp]
        · simp at h
      · simp at h
    · simp at h
  | execFinish v =>
    have hne : v ≠ w := by simpa [Event.ownOf] using hown
    simp only [step] at h
    split at h
    · split at h
      · injection h with h; subst h; simp [upd, Ne.symm hne, hp]
      · simp at h
    · simp at h
  | deliverWD v =>
    simp only [step] at h
    split at h
    · simp at h
    · injection h with h; subst h
      rw [joinpointReached_ws]
      exact hp

theorem runEvs_keeps_pos {cfg : Cfg} {w e c : Nat} : ∀ (evs : List Event) (s s' : State),
    runEvs cfg s evs = some s' → (∀ ev ∈ evs, ev.ownOf w = false) → (s.ws w).pos = .inCol e c → (s'.ws w).pos = .inCol e c := by
  intro evs
  induction evs with
  | nil => intro s s' h _ hp; simp only [runEvs] at h; injection h with h; subst h; exact hp
  | cons ev es ih =>
    intro s s' h hown hp
    simp only [runEvs] at h
    cases hs : step cfg s ev with
    | none => simp [hs] at h
    | some s1 =>
      simp only [hs] at h
      exact ih s1 s' h (fun x hx => hown x (List.mem_cons_of_mem _ hx)) (step_keeps_pos hs (hown ev List.mem_cons_self) hp)

end Race
