import RallyModel.Retry
/-!
Helper lemmas about `Retry.loop` (model of `runner.Retry.__call__`) for the C16 property theorems.
Core tactics only.  Everything is by induction on the script, generalising the iteration counter.
-/
namespace Retry

def Step.isRetry : Step → Bool
  | .retrySleep => true
  | _ => false

/-- the step taken for the outcome consumed at script position `i` when the loop started at iteration `a` -/
def stepAt (c : Cfg) (a i : Nat) (o : Outcome) : Step := classify c (a + i + 1 == c.maxAttempts) o.kind

theorem classify_retry_not_last (c : Cfg) (last : Bool) (k : Kind) (h : (classify c last k).isRetry = true) :
    last = false := by
  cases last with
  | false => rfl
  | true => cases k <;> simp [classify, Step.isRetry] at h

/-! one-step unfoldings of `loop` -/
theorem loop_ge (c : Cfg) (a : Nat) (outs : List Outcome) (ha : a ≥ c.maxAttempts) :
    loop c a outs = ⟨.fellThrough, []⟩ := by
  cases outs <;> simp [loop, ha]

theorem loop_nil (c : Cfg) (a : Nat) (ha : a < c.maxAttempts) : loop c a [] = ⟨.pending, []⟩ := by
  simp [loop]; omega

theorem loop_ret (c : Cfg) (a : Nat) (o : Outcome) (rest : List Outcome) (ha : a < c.maxAttempts)
    (h : classify c (a + 1 == c.maxAttempts) o.kind = .ret) : loop c a (o :: rest) = ⟨.returned o, [.call]⟩ := by
  simp only [loop]; rw [if_neg (by omega), h]

theorem loop_raise (c : Cfg) (a : Nat) (o : Outcome) (rest : List Outcome) (ha : a < c.maxAttempts)
    (h : classify c (a + 1 == c.maxAttempts) o.kind = .raise) : loop c a (o :: rest) = ⟨.raised o, [.call]⟩ := by
  simp only [loop]; rw [if_neg (by omega), h]

theorem loop_retrySleep (c : Cfg) (a : Nat) (o : Outcome) (rest : List Outcome) (ha : a < c.maxAttempts)
    (h : classify c (a + 1 == c.maxAttempts) o.kind = .retrySleep) :
    loop c a (o :: rest) = ⟨(loop c (a + 1) rest).res, .call :: .sleep c.sleepTime :: (loop c (a + 1) rest).trace⟩ := by
  simp only [loop]; rw [if_neg (by omega), h]

/-- after a retry step there is room for another iteration -/
theorem retry_room (c : Cfg) (a : Nat) (k : Kind) (ha : a < c.maxAttempts)
    (h : (classify c (a + 1 == c.maxAttempts) k).isRetry = true) : a + 1 < c.maxAttempts := by
  have := classify_retry_not_last c _ k h
  simp at this; omega

theorem loop_calls_le (c : Cfg) (a : Nat) (outs : List Outcome) :
    nCalls (loop c a outs).trace ≤ c.maxAttempts - a ∧ nCalls (loop c a outs).trace ≤ outs.length := by
  induction outs generalizing a with
  | nil => simp [loop]; split <;> simp [nCalls]
  | cons o rest ih =>
    by_cases ha : a < c.maxAttempts
    · have := ih (a + 1)
      cases hs : classify c (a + 1 == c.maxAttempts) o.kind
      · rw [loop_ret c a o rest ha hs]; simp [nCalls]; omega
      · rw [loop_raise c a o rest ha hs]; simp [nCalls]; omega
      · rw [loop_retrySleep c a o rest ha hs]; simp [nCalls]; omega
    · rw [loop_ge c a _ (by omega)]; simp [nCalls]

theorem loop_zero_calls (c : Cfg) (a : Nat) (outs : List Outcome) (ha : a < c.maxAttempts)
    (h : nCalls (loop c a outs).trace = 0) : (loop c a outs).res = .pending := by
  cases outs with
  | nil => rw [loop_nil c a ha]
  | cons o rest =>
    cases hs : classify c (a + 1 == c.maxAttempts) o.kind
    · rw [loop_ret c a o rest ha hs] at h; simp [nCalls] at h
    · rw [loop_raise c a o rest ha hs] at h; simp [nCalls] at h
    · rw [loop_retrySleep c a o rest ha hs] at h; simp [nCalls] at h

/-- what happens at every consumed script position -/
theorem loop_at (c : Cfg) (a : Nat) (outs : List Outcome) (i : Nat) (o : Outcome)
    (ho : outs[i]? = some o) (hi : i < nCalls (loop c a outs).trace) :
    (stepAt c a i o = .ret → nCalls (loop c a outs).trace = i + 1 ∧ (loop c a outs).res = .returned o) ∧
    (stepAt c a i o = .raise → nCalls (loop c a outs).trace = i + 1 ∧ (loop c a outs).res = .raised o) ∧
    ((stepAt c a i o).isRetry = true →
      i + 1 < nCalls (loop c a outs).trace ∨ (i + 1 = nCalls (loop c a outs).trace ∧ (loop c a outs).res = .pending)) := by
  induction outs generalizing a i with
  | nil => simp at ho
  | cons x rest ih =>
    by_cases ha : a < c.maxAttempts
    · cases i with
      | zero =>
        simp at ho; subst ho
        simp only [stepAt, Nat.add_zero]
        cases hs : classify c (a + 1 == c.maxAttempts) x.kind
        · rw [loop_ret c a x rest ha hs]; simp [nCalls, Step.isRetry]
        · rw [loop_raise c a x rest ha hs]; simp [nCalls, Step.isRetry]
        · rw [loop_retrySleep c a x rest ha hs]
          have h1 := retry_room c a x.kind ha (by rw [hs]; rfl)
          simp [nCalls, Step.isRetry]
          by_cases hz : nCalls (loop c (a + 1) rest).trace = 0
          · right; exact ⟨by omega, loop_zero_calls c (a+1) rest h1 hz⟩
          · left; omega
      | succ j =>
        simp at ho
        have hst : stepAt c a (j + 1) o = stepAt c (a + 1) j o := by
          simp only [stepAt]; congr 2; omega
        rw [hst]
        cases hs : classify c (a + 1 == c.maxAttempts) x.kind
        · rw [loop_ret c a x rest ha hs] at hi; simp [nCalls] at hi
        · rw [loop_raise c a x rest ha hs] at hi; simp [nCalls] at hi
        · rw [loop_retrySleep c a x rest ha hs] at hi ⊢
          simp only [nCalls] at hi ⊢
          have := ih (a + 1) j ho (by omega)
          simpa using this
    · rw [loop_ge c a _ (by omega)] at hi; simp [nCalls] at hi

theorem classify_ret_isValue (c : Cfg) (last : Bool) (k : Kind) (h : classify c last k = .ret) : k.isValue = true := by
  cases k <;> simp [classify, Kind.isValue] at h ⊢ <;> (split at h <;> simp at h)

theorem classify_raise_isValue (c : Cfg) (last : Bool) (k : Kind) (h : classify c last k = .raise) : k.isValue = false := by
  cases k <;> simp [classify, Kind.isValue] at h ⊢ <;> (split at h <;> simp at h)

/-- the four ways a run can end, with the script position that decided -/
theorem loop_res (c : Cfg) (a : Nat) (outs : List Outcome) :
    match (loop c a outs).res with
    | .returned o => ∃ i, nCalls (loop c a outs).trace = i + 1 ∧ outs[i]? = some o ∧ stepAt c a i o = .ret
    | .raised o => ∃ i, nCalls (loop c a outs).trace = i + 1 ∧ outs[i]? = some o ∧ stepAt c a i o = .raise
    | .fellThrough => a ≥ c.maxAttempts ∧ nCalls (loop c a outs).trace = 0
    | .pending => nCalls (loop c a outs).trace = outs.length ∧ a + outs.length < c.maxAttempts := by
  induction outs generalizing a with
  | nil =>
    by_cases ha : a < c.maxAttempts
    · rw [loop_nil c a ha]; simp [nCalls]; omega
    · rw [loop_ge c a _ (by omega)]; simp [nCalls]; omega
  | cons x rest ih =>
    by_cases ha : a < c.maxAttempts
    · cases hs : classify c (a + 1 == c.maxAttempts) x.kind
      · rw [loop_ret c a x rest ha hs]; exact ⟨0, by simp [nCalls, stepAt, hs]⟩
      · rw [loop_raise c a x rest ha hs]; exact ⟨0, by simp [nCalls, stepAt, hs]⟩
      · rw [loop_retrySleep c a x rest ha hs]
        have h1 := retry_room c a x.kind ha (by rw [hs]; rfl)
        have := ih (a + 1)
        simp only [nCalls]
        split <;> rename_i hr <;> simp only [hr] at this
        · obtain ⟨i, h1, h2, h3⟩ := this
          exact ⟨i + 1, by omega, by simpa using h2, by rw [← h3]; simp only [stepAt]; congr 2; omega⟩
        · obtain ⟨i, h1, h2, h3⟩ := this
          exact ⟨i + 1, by omega, by simpa using h2, by rw [← h3]; simp only [stepAt]; congr 2; omega⟩
        · omega
        · simp only [List.length_cons]; omega
    · rw [loop_ge c a _ (by omega)]; simp [nCalls]; omega

/-- a script of retryable outcomes that is shorter than the remaining budget is consumed entirely -/
theorem loop_keeps_retrying (c : Cfg) (a : Nat) (outs : List Outcome) (hlen : a + outs.length < c.maxAttempts)
    (h : ∀ o ∈ outs, (classify c false o.kind).isRetry = true) :
    (loop c a outs).res = .pending ∧ nCalls (loop c a outs).trace = outs.length := by
  induction outs generalizing a with
  | nil => rw [loop_nil c a (by simpa using hlen)]; simp [nCalls]
  | cons x rest ih =>
    simp only [List.length_cons] at hlen
    have ha : a < c.maxAttempts := by omega
    have hl : (a + 1 == c.maxAttempts) = false := by simp; omega
    have hx := h x (by simp)
    have := ih (a + 1) (by omega) (fun o ho => h o (by simp [ho]))
    cases hs : classify c (a + 1 == c.maxAttempts) x.kind <;> rw [hl] at hs <;> rw [hs] at hx <;> simp [Step.isRetry] at hx
    · rw [loop_retrySleep c a x rest ha (by rw [hl]; exact hs)]; simp [nCalls, this]

/-- `n` delegate calls separated by a pause `w`; with `pend` a pause also follows the last call
    (the run was about to call again): `spaced w false 3 = [call, sleep w, call, sleep w, call]`,
    `spaced w true 2 = [call, sleep w, call, sleep w]` -/
def spaced (w : Rat) (pend : Bool) : Nat → List Ev
  | 0 => []
  | n + 1 => if n = 0 && !pend then [.call] else .call :: .sleep w :: spaced w pend n

theorem loop_trace (c : Cfg) (a : Nat) (outs : List Outcome) :
    (loop c a outs).trace = spaced c.sleepTime ((loop c a outs).res == .pending) (nCalls (loop c a outs).trace) := by
  induction outs generalizing a with
  | nil =>
    by_cases ha : a < c.maxAttempts
    · rw [loop_nil c a ha]; simp [nCalls, spaced]
    · rw [loop_ge c a _ (by omega)]; simp [nCalls, spaced]
  | cons x rest ih =>
    by_cases ha : a < c.maxAttempts
    · cases hs : classify c (a + 1 == c.maxAttempts) x.kind
      · rw [loop_ret c a x rest ha hs]; simp [nCalls, spaced]
      · rw [loop_raise c a x rest ha hs]; simp [nCalls, spaced]
      · have h1 := retry_room c a x.kind ha (by rw [hs]; rfl)
        rw [loop_retrySleep c a x rest ha hs]
        simp only [nCalls]
        have := ih (a + 1)
        by_cases hz : nCalls (loop c (a + 1) rest).trace = 0
        · have hp := loop_zero_calls c (a + 1) rest h1 hz
          rw [hz] at this ⊢
          simp [spaced, hp, this]
        · simp only [spaced]
          rw [if_neg (by simp [hz])]
          rw [← this]
    · rw [loop_ge c a _ (by omega)]; simp [nCalls, spaced]

theorem loop_sleeps (c : Cfg) (a : Nat) (outs : List Outcome) :
    ∀ d ∈ sleepsOf (loop c a outs).trace, d = c.sleepTime := by
  induction outs generalizing a with
  | nil =>
    by_cases ha : a < c.maxAttempts
    · rw [loop_nil c a ha]; simp [sleepsOf]
    · rw [loop_ge c a _ (by omega)]; simp [sleepsOf]
  | cons x rest ih =>
    by_cases ha : a < c.maxAttempts
    · cases hs : classify c (a + 1 == c.maxAttempts) x.kind
      · rw [loop_ret c a x rest ha hs]; simp [sleepsOf]
      · rw [loop_raise c a x rest ha hs]; simp [sleepsOf]
      · rw [loop_retrySleep c a x rest ha hs]; simp only [sleepsOf]
        intro d hd
        rcases List.mem_cons.mp hd with h | h
        · exact h
        · exact ih (a + 1) d h
    · rw [loop_ge c a _ (by omega)]; simp [sleepsOf]

end Retry

namespace Retry

/-- the outcome classes that can take a retry step, with the switch that enables it -/
theorem classify_retry_kind (c : Cfg) (last : Bool) (k : Kind) (h : (classify c last k).isRetry = true) :
    (k = .dictFail ∧ c.retryOnError = true) ∨
    ((k = .sockTimeout ∨ k = .connError ∨ k = .connTimeout ∨ k = .api408) ∧ c.retryOnTimeout = true) := by
  cases k <;> cases last <;> cases hE : c.retryOnError <;> cases hT : c.retryOnTimeout <;>
    simp_all [classify, Step.isRetry]

end Retry

namespace Retry

/-- attempts that leave the retry-relevant keys alone leave the dict as it was -/
theorem foldl_effect_id (atts : List Attempt) (store : Params) (h : ∀ a ∈ atts, ∀ s, a.effect s = s) :
    atts.foldl (fun s a => a.effect s) store = store := by
  induction atts generalizing store with
  | nil => rfl
  | cons a rest ih =>
    simp only [List.foldl_cons]
    rw [h a (by simp) store]
    exact ih store (fun b hb => h b (by simp [hb]))

theorem invoke_store_id (wrapped us : Bool) (store : Params) (atts : List Attempt)
    (h : ∀ a ∈ atts, ∀ s, a.effect s = s) : (invoke wrapped us store atts).2 = store := by
  unfold invoke
  exact foldl_effect_id _ store (fun a ha => h a (List.mem_of_mem_take ha))

theorem runSeq_independent (wrapped us shared : Bool) (p0 : Params) (invs : List (List Attempt))
    (h : shared = false ∨ ∀ inv ∈ invs, ∀ a ∈ inv, ∀ s, a.effect s = s) :
    runSeq wrapped us shared p0 p0 invs = invs.map (fun inv => runRegistered wrapped us p0 (inv.map (·.out))) := by
  induction invs with
  | nil => rfl
  | cons inv rest ih =>
    simp only [runSeq, List.map_cons]
    have hnext : (if shared then (invoke wrapped us p0 inv).2 else p0) = p0 := by
      rcases h with h | h
      · simp [h]
      · rw [invoke_store_id wrapped us p0 inv (h inv (by simp))]; simp
    rw [hnext, ih (by
      rcases h with h | h
      · exact Or.inl h
      · exact Or.inr (fun i hi => h i (by simp [hi])))]
    rfl

theorem update_none_apply (p : Params) : (Update.mk none none none none none).apply p = p := by
  cases p; rfl

end Retry

namespace Retry

/-- a retryable outcome on an attempt that is not the last one takes the sleep-and-retry step -/
theorem classify_retry_of (c : Cfg) (k : Kind)
    (h : (k = .dictFail ∧ c.retryOnError = true) ∨
      ((k = .sockTimeout ∨ k = .connError ∨ k = .connTimeout ∨ k = .api408) ∧ c.retryOnTimeout = true)) :
    classify c false k = .retrySleep := by
  rcases h with ⟨hk, he⟩ | ⟨hk, ht⟩
  · simp [hk, classify, he]
  · rcases hk with hk | hk | hk | hk <;> simp [hk, classify, ht]

/-- on the last attempt nothing is retried -/
theorem classify_last_not_retry (c : Cfg) (k : Kind) : (classify c true k).isRetry = false := by
  cases k <;> simp [classify, Step.isRetry]

end Retry

namespace Retry

theorem stepInv_done (v : InFlight) (r : Res) (h : v.res = some r) : stepInv v = v := by
  unfold stepInv; rw [h]

theorem iterate_done (n : Nat) (v : InFlight) (r : Res) (h : v.res = some r) : runQuanta (n) v = v := by
  induction n with
  | zero => rfl
  | succ n ih => simp only [runQuanta]; rw [stepInv_done v r h, ih]

/-- enough quanta run an invocation to the end of its big-step run -/
theorem iterate_stepInv (c : Cfg) (a : Nat) (outs : List Outcome) (tr : List Ev) (n : Nat) (hn : outs.length + 1 ≤ n) :
    (runQuanta (n) ⟨c, a, outs, tr, none⟩).res = some (loop c a outs).res ∧
    (runQuanta (n) ⟨c, a, outs, tr, none⟩).trace = tr ++ (loop c a outs).trace := by
  induction outs generalizing a tr n with
  | nil =>
    obtain ⟨m, rfl⟩ : ∃ m, n = m + 1 := ⟨n - 1, by omega⟩
    simp only [runQuanta]
    by_cases ha : a < c.maxAttempts
    · have hs : stepInv ⟨c, a, [], tr, none⟩ = ⟨c, a, [], tr, some .pending⟩ := by
        simp [stepInv]; omega
      rw [hs, iterate_done m _ .pending rfl, loop_nil c a ha]; simp
    · have hs : stepInv ⟨c, a, [], tr, none⟩ = ⟨c, a, [], tr, some .fellThrough⟩ := by
        simp [stepInv]; omega
      rw [hs, iterate_done m _ .fellThrough rfl, loop_ge c a _ (by omega)]; simp
  | cons o rest ih =>
    obtain ⟨m, rfl⟩ : ∃ m, n = m + 1 := ⟨n - 1, by omega⟩
    simp only [runQuanta]
    by_cases ha : a < c.maxAttempts
    · cases hs : classify c (a + 1 == c.maxAttempts) o.kind
      · have : stepInv ⟨c, a, o :: rest, tr, none⟩ = ⟨c, a, rest, tr ++ [.call], some (.returned o)⟩ := by
          simp only [stepInv]; rw [if_neg (by omega)]; simp only [hs]
        rw [this, iterate_done m _ _ rfl, loop_ret c a o rest ha hs]; simp
      · have : stepInv ⟨c, a, o :: rest, tr, none⟩ = ⟨c, a, rest, tr ++ [.call], some (.raised o)⟩ := by
          simp only [stepInv]; rw [if_neg (by omega)]; simp only [hs]
        rw [this, iterate_done m _ _ rfl, loop_raise c a o rest ha hs]; simp
      · have : stepInv ⟨c, a, o :: rest, tr, none⟩ = ⟨c, a + 1, rest, tr ++ [.call, .sleep c.sleepTime], none⟩ := by
          simp only [stepInv]; rw [if_neg (by omega)]; simp only [hs]
        rw [this, loop_retrySleep c a o rest ha hs]
        have := ih (a + 1) (tr ++ [.call, .sleep c.sleepTime]) m (by simp at hn; omega)
        simp [this]
    · have hs : stepInv ⟨c, a, o :: rest, tr, none⟩ = ⟨c, a, o :: rest, tr, some .fellThrough⟩ := by
        simp only [stepInv]; rw [if_pos (by omega)]
      rw [hs, iterate_done m _ .fellThrough rfl, loop_ge c a _ (by omega)]; simp

/-- the schedule touches an invocation only in its own quanta -/
theorem runSchedule_get (sched : List Nat) (invs : List InFlight) (j : Nat) :
    (runSchedule sched invs)[j]? = (invs[j]?).map (runQuanta (sched.count j)) := by
  induction sched generalizing invs with
  | nil => cases h : invs[j]? <;> simp [runSchedule, runQuanta, h]
  | cons i rest ih =>
    simp only [runSchedule, List.foldl_cons] at ih ⊢
    rw [ih (invs.modify i stepInv)]
    by_cases hij : i = j
    · subst hij
      simp [List.getElem?_modify, List.count_cons]
      cases invs[i]? <;> simp [runQuanta]
    · simp [List.getElem?_modify, hij, List.count_cons]

end Retry
