import RallyModel.Guarded
import RallyProofs.DblBasic
/-!
Bounds on the float pause of `EsClient.guarded` (`2**k + random.random()`), from the IEEE-754
lemmas in `RallyProofs/DblBasic.lean` (`nat_le_fl`, `fl_le_nat`: rounding is monotone and exact on
integers below 2^53).
-/
namespace Guarded

/-- for a draw `r ∈ [0, 1)` the pause after attempt `k` lies in `[2^k, 2^k + 1]` (the upper end is
    reached only when the sum rounds up) -/
theorem pause_bounds (k : Nat) (r : Rat) (hk : k ≤ 51) (h0 : 0 ≤ r) (h1 : r < 1) :
    ((2 ^ k : Nat) : Rat) ≤ pause k r ∧ pause k r ≤ ((2 ^ k + 1 : Nat) : Rat) := by
  have hpow : 2 ^ k ≤ 2 ^ 51 := Nat.pow_le_pow_right (by omega) hk
  have hlt : 2 ^ k < 2 ^ 53 := by omega
  have hlt' : 2 ^ k + 1 < 2 ^ 53 := by omega
  unfold pause Dbl.fadd
  constructor
  · exact DblAux.nat_le_fl hlt (by linarith)
  · apply DblAux.fl_le_nat hlt'
    · have : (0 : Rat) ≤ ((2 ^ k : Nat) : Rat) := by positivity
      linarith
    · push_cast
      linarith

/-- consecutive pauses grow: the pause after attempt `k + 1` is longer than the one after attempt `k` -/
theorem pause_grows (k : Nat) (r r' : Rat) (hk : k + 1 ≤ 51) (h0 : 0 ≤ r) (h1 : r < 1) (h0' : 0 ≤ r') (h1' : r' < 1) :
    pause k r ≤ pause (k + 1) r' := by
  have a := (pause_bounds k r (by omega) h0 h1).2
  have b := (pause_bounds (k + 1) r' hk h0' h1').1
  have : ((2 ^ k + 1 : Nat) : Rat) ≤ ((2 ^ (k + 1) : Nat) : Rat) := by
    have : 2 ^ k + 1 ≤ 2 ^ (k + 1) := by
      have : 1 ≤ 2 ^ k := Nat.one_le_two_pow
      omega
    exact_mod_cast this
  linarith

end Guarded
