import RallyModel.TrackSpec
/-! Helper lemmas for C10: inversion of every loop of the reader (`… = .ok x → x = its declarative
meaning ∧ the rules hold`).  No Mathlib needed. -/
namespace TrackSpec

/-! ### well-formedness of what has been loaded (the documented rules, stated on the result) -/

/-- timing rules of one task -/
structure TaskOk (t : Task) : Prop where
  noWarmupIterWithTimePeriod : ¬ (t.warmupIterations.isSome ∧ t.timePeriod.isSome)
  noWarmupTimeWithIterations : ¬ (t.warmupTimePeriod.isSome ∧ t.iterations.isSome)
  noRampUpWithIterations : ¬ ((t.warmupIterations.isSome ∨ t.iterations.isSome) ∧ t.rampUpTimePeriod.isSome)
  rampUpCovered : ∀ ru, t.rampUpTimePeriod = some ru → ∃ wu, t.warmupTimePeriod = some wu ∧ ru ≤ wu

theorem errS_ne_ok {α : Type} {r : Rule} {a : α} : (errS r : Except Rule α) ≠ .ok a := by
  simp [errS]

theorem checkTask_ok {t t' : Task} (h : checkTask t = .ok t') : t' = t ∧ TaskOk t := by
  unfold checkTask at h
  split at h
  · exact absurd h errS_ne_ok
  · split at h
    · exact absurd h errS_ne_ok
    · split at h
      · exact absurd h errS_ne_ok
      · rename_i h1 h2 h3
        simp only [Bool.and_eq_true, Bool.or_eq_true, not_and, not_or] at h1 h2 h3
        split at h
        · rename_i hru
          injection h with h
          refine ⟨h.symm, ⟨?_, ?_, ?_, ?_⟩⟩
          · intro ⟨a, b⟩; exact absurd b (by simpa using h1 a)
          · intro ⟨a, b⟩; exact absurd b (by simpa using h2 a)
          · intro ⟨_, b⟩; rw [hru] at b; simp at b
          · intro ru hr; rw [hru] at hr; simp at hr
        · rename_i ru hru
          split at h
          · exact absurd h errS_ne_ok
          · rename_i wu hwu
            split at h
            · exact absurd h errS_ne_ok
            · rename_i hlt
              injection h with h
              refine ⟨h.symm, ⟨?_, ?_, ?_, ?_⟩⟩
              · intro ⟨a, b⟩; exact absurd b (by simpa using h1 a)
              · intro ⟨a, b⟩; exact absurd b (by simpa using h2 a)
              · intro ⟨a, b⟩
                have := h3
                rcases a with a | a
                · have := h3 (Or.inl a); rw [hru] at this; simp at this
                · have := h3 (Or.inr a); rw [hru] at this; simp at this
              · intro r hr
                rw [hru] at hr
                injection hr with hr
                subst hr
                exact ⟨wu, hwu, Nat.le_of_not_lt hlt⟩

/-! ### operations -/

theorem parseOperation_ok {tbl : OpTable} {o : OpSpec} {op : Operation}
    (h : parseOperation tbl o = .ok op) : o.opType.isSome ∧ op = denoteOp tbl o := by
  unfold parseOperation at h
  cases hty : o.opType with
  | none => rw [hty] at h; exact absurd h errS_ne_ok
  | some ty =>
    rw [hty] at h
    injection h with h
    refine ⟨rfl, ?_⟩
    subst h
    simp only [denoteOp, hty, Option.getD_some]
    cases o.includeInReporting <;> cases fromHyphenated tbl ty <;> first | rfl | simp

theorem parseOperationStr_eq (tbl : OpTable) (s : Str) :
    parseOperationStr tbl s =
      { name := s, type := s, metaData := [], paramSource := none,
        includeInReporting := (fromHyphenated tbl s).map (fun r => !r.admin), params := [] } := by
  unfold parseOperationStr
  cases fromHyphenated tbl s <;> rfl

theorem lookupOp_isSome_iff {ops : List Operation} {s : Str} :
    (lookupOp ops s).isSome ↔ s ∈ ops.map (·.name) := by
  unfold lookupOp
  rw [List.find?_isSome]
  simp only [decide_eq_true_eq, List.mem_map]

theorem parseOperations_ok {tbl : OpTable} :
    ∀ (specs : List OpSpec) (acc ops : List Operation), parseOperations tbl specs acc = .ok ops →
      ops = acc ++ specs.map (denoteOp tbl) ∧ (∀ o ∈ specs, o.opType.isSome) ∧
      ((acc.map (·.name)).Nodup → (ops.map (·.name)).Nodup)
  | [], acc, ops, h => by
    simp only [parseOperations] at h
    injection h with h
    subst h
    simp
  | o :: rest, acc, ops, h => by
    simp only [parseOperations] at h
    cases hop : parseOperation tbl o with
    | error e => rw [hop] at h; simp at h
    | ok op =>
      rw [hop] at h
      simp only at h
      obtain ⟨hty, hden⟩ := parseOperation_ok hop
      split at h
      · exact absurd h errS_ne_ok
      · rename_i hnot
        obtain ⟨h1, h2, h3⟩ := parseOperations_ok rest (acc ++ [op]) ops h
        refine ⟨?_, ?_, ?_⟩
        · rw [h1, hden]; simp
        · intro o' ho'
          rcases List.mem_cons.mp ho' with rfl | ho'
          · exact hty
          · exact h2 o' ho'
        · intro hnd
          apply h3
          rw [List.map_append, List.nodup_append]
          refine ⟨hnd, by simp, ?_⟩
          intro a ha b hb
          simp only [List.map_cons, List.map_nil, List.mem_singleton] at hb
          subst hb
          intro hab
          subst hab
          exact hnot (lookupOp_isSome_iff.mpr ha)

/-- lookup in the dict built by `parse_operations` = the first declared operation of that name -/
theorem lookupOp_map_denote (tbl : OpTable) (specs : List OpSpec) (s : Str) :
    lookupOp (specs.map (denoteOp tbl)) s =
      (specs.find? (fun o => decide ((denoteOp tbl o).name = s))).map (denoteOp tbl) := by
  unfold lookupOp
  rw [List.find?_map]
  rfl

/-! ### tasks -/

/-- the defaults a task inherits: those of its enclosing parallel element, if any -/
def defaultsOf : Option ParallelSpec → Defaults
  | none => noDefaults
  | some p => ⟨p.warmupIterations, p.iterations, p.warmupTimePeriod, p.timePeriod, p.rampUpTimePeriod, p.completedBy⟩

theorem orDefault_eq {α : Type} (v d : Option α) : orDefault v d = (v <|> d) := by
  cases v <;> rfl

theorem parseTask_ok {tbl : OpTable} {specs : List OpSpec} {par : Option ParallelSpec} {ts : TaskSpec} {t : Task}
    (h : parseTask tbl (specs.map (denoteOp tbl)) (defaultsOf par) ts = .ok t) :
    t = denoteTask tbl specs par ts ∧ TaskOk t ∧ ts.operation.isSome := by
  unfold parseTask at h
  cases hop : ts.operation with
  | none => rw [hop] at h; exact absurd h errS_ne_ok
  | some ref =>
    rw [hop] at h
    simp only at h
    -- the operation
    have hopE : ∀ op, (match ref with
        | .name s => (match lookupOp (specs.map (denoteOp tbl)) s with
                      | some op => (.ok op : Except Rule Operation)
                      | none => .ok (parseOperationStr tbl s))
        | .inline o => parseOperation tbl o) = .ok op → op = denoteRef tbl specs ref := by
      intro op hE
      cases ref with
      | name s =>
        simp only at hE
        rw [lookupOp_map_denote] at hE
        cases hf : specs.find? (fun o => decide ((denoteOp tbl o).name = s)) with
        | none =>
          rw [hf] at hE
          simp only [Option.map_none] at hE
          injection hE with hE
          simp only [denoteRef, hf]
          rw [← hE, parseOperationStr_eq]
        | some o =>
          rw [hf] at hE
          simp only [Option.map_some] at hE
          injection hE with hE
          simp only [denoteRef, hf]
          exact hE.symm
      | inline o =>
        simp only at hE
        exact (parseOperation_ok hE).2
    split at h
    · simp at h
    · rename_i op hE
      obtain ⟨h1, h2⟩ := checkTask_ok h
      have hop' := hopE op hE
      refine ⟨?_, h1 ▸ h2, rfl⟩
      rw [h1]
      unfold denoteTask
      rw [hop]
      simp only [Option.getD_some]
      subst hop'
      cases par with
      | none =>
        simp only [defaultsOf, noDefaults, orDefault_eq, Option.bind_none]
        cases ts.tags <;> simp [tagsOf, eq_comm]
      | some p =>
        simp only [defaultsOf, orDefault_eq, Option.bind_some]
        cases ts.tags <;> simp [tagsOf, eq_comm] <;> congr

theorem parseTasks_ok {tbl : OpTable} {specs : List OpSpec} {par : Option ParallelSpec} :
    ∀ (tss : List TaskSpec) (ts : List Task),
      parseTasks tbl (specs.map (denoteOp tbl)) (defaultsOf par) tss = .ok ts →
      ts = tss.map (denoteTask tbl specs par) ∧ (∀ t ∈ ts, TaskOk t) ∧ (∀ x ∈ tss, x.operation.isSome)
  | [], ts, h => by
    simp only [parseTasks] at h
    injection h with h
    subst h
    simp
  | x :: rest, ts, h => by
    simp only [parseTasks] at h
    cases hx : parseTask tbl (specs.map (denoteOp tbl)) (defaultsOf par) x with
    | error e => rw [hx] at h; simp at h
    | ok t =>
      rw [hx] at h
      simp only at h
      cases hr : parseTasks tbl (specs.map (denoteOp tbl)) (defaultsOf par) rest with
      | error e => rw [hr] at h; simp at h
      | ok r =>
        rw [hr] at h
        simp only at h
        injection h with h
        subst h
        obtain ⟨h1, h2, h3⟩ := parseTask_ok hx
        obtain ⟨g1, g2, g3⟩ := parseTasks_ok rest r hr
        refine ⟨by rw [h1, g1]; rfl, ?_, ?_⟩
        · intro t' ht'
          rcases List.mem_cons.mp ht' with rfl | ht'
          · exact h2
          · exact g2 t' ht'
        · intro y hy
          rcases List.mem_cons.mp hy with rfl | hy
          · exact h3
          · exact g3 y hy

theorem checkRampUp_ok {dflt : Option Nat} :
    ∀ (ts : List Task), checkRampUp dflt ts = .ok () → ∀ t ∈ ts, t.rampUpTimePeriod = dflt
  | [], _ => by simp
  | x :: rest, h => by
    simp only [checkRampUp] at h
    split at h
    · split at h <;> exact absurd h errS_ne_ok
    · rename_i hx
      intro t ht
      rcases List.mem_cons.mp ht with rfl | ht
      · exact Classical.not_not.mp hx
      · exact checkRampUp_ok rest h t ht

/-- what the `completed-by` loop accepts: at most one task carries the name, and some task completes the parallel -/
theorem checkCompletedBy_ok :
    ∀ (ts : List Task) (has : Bool), checkCompletedBy ts has = .ok () →
      (ts.filter (·.completesParent)).length ≤ (if has then 0 else 1) ∧
      (has = true ∨ ∃ t ∈ ts, t.completesParent = true ∨ t.anyCompletesParent = true)
  | [], has, h => by
    simp only [checkCompletedBy] at h
    split at h
    · rename_i hh; simp [hh]
    · exact absurd h errS_ne_ok
  | x :: rest, has, h => by
    simp only [checkCompletedBy] at h
    split at h
    · rename_i hc
      simp only [Bool.and_eq_true, Bool.not_eq_true'] at hc
      obtain ⟨g1, _⟩ := checkCompletedBy_ok rest true h
      simp only [if_true, Nat.le_zero] at g1
      refine ⟨?_, Or.inr ⟨x, List.mem_cons_self, Or.inl hc.1⟩⟩
      rw [List.filter_cons, hc.1, if_pos rfl, List.length_cons, g1, hc.2]
      simp
    · split at h
      · exact absurd h errS_ne_ok
      · rename_i hc1 hc2
        have hx : x.completesParent = false := by simpa using hc2
        split at h
        · rename_i ha
          obtain ⟨g1, _⟩ := checkCompletedBy_ok rest true h
          simp only [if_true, Nat.le_zero] at g1
          refine ⟨?_, Or.inr ⟨x, List.mem_cons_self, Or.inr ha⟩⟩
          rw [List.filter_cons, hx]
          simp [g1]
        · obtain ⟨g1, g2⟩ := checkCompletedBy_ok rest has h
          refine ⟨?_, ?_⟩
          · rw [List.filter_cons, hx]
            simpa using g1
          · rcases g2 with g2 | ⟨t, ht, g2⟩
            · exact Or.inl g2
            · exact Or.inr ⟨t, List.mem_cons_of_mem _ ht, g2⟩

/-- the rules of a `parallel` element, stated on its declarative meaning -/
structure ParallelOk (tbl : OpTable) (specs : List OpSpec) (p : ParallelSpec) : Prop where
  hasTasks : p.tasks.isSome
  operations : ∀ x ∈ p.tasks.getD [], x.operation.isSome
  tasksOk : ∀ t ∈ (p.tasks.getD []).map (denoteTask tbl specs (some p)), TaskOk t
  rampUp : ∀ t ∈ (p.tasks.getD []).map (denoteTask tbl specs (some p)), t.rampUpTimePeriod = p.rampUpTimePeriod
  completedByOnce : truthy p.completedBy = true →
    (((p.tasks.getD []).map (denoteTask tbl specs (some p))).filter (·.completesParent)).length ≤ 1
  completedBySome : truthy p.completedBy = true →
    ∃ t ∈ (p.tasks.getD []).map (denoteTask tbl specs (some p)), t.completesParent = true ∨ t.anyCompletesParent = true

theorem parseParallel_ok {tbl : OpTable} {specs : List OpSpec} {p : ParallelSpec} {e : Elem}
    (h : parseParallel tbl (specs.map (denoteOp tbl)) p = .ok e) :
    e = denoteElem tbl specs (.parallel p) ∧ ParallelOk tbl specs p := by
  unfold parseParallel at h
  cases htk : p.tasks with
  | none => rw [htk] at h; exact absurd h errS_ne_ok
  | some tss =>
    rw [htk] at h
    simp only at h
    have hd : (⟨p.warmupIterations, p.iterations, p.warmupTimePeriod, p.timePeriod, p.rampUpTimePeriod,
        p.completedBy⟩ : Defaults) = defaultsOf (some p) := rfl
    rw [hd] at h
    cases hts : parseTasks tbl (specs.map (denoteOp tbl)) (defaultsOf (some p)) tss with
    | error err => rw [hts] at h; simp at h
    | ok tasks =>
      rw [hts] at h
      simp only at h
      obtain ⟨g1, g2, g3⟩ := parseTasks_ok tss tasks hts
      cases hru : checkRampUp p.rampUpTimePeriod tasks with
      | error err => rw [hru] at h; simp at h
      | ok u =>
        rw [hru] at h
        simp only at h
        have gru := checkRampUp_ok tasks hru
        have hden : Elem.parallel tasks p.clients = denoteElem tbl specs (.parallel p) := by
          simp only [denoteElem, htk, Option.getD_some, g1]
        by_cases hcb : truthy p.completedBy = true
        · rw [if_pos hcb] at h
          cases hc : checkCompletedBy tasks false with
          | error err => rw [hc] at h; simp at h
          | ok u' =>
            rw [hc] at h
            simp only at h
            injection h with h
            obtain ⟨c1, c2⟩ := checkCompletedBy_ok tasks false hc
            refine ⟨by rw [← h, hden], ⟨by simp [htk], ?_, ?_, ?_, ?_, ?_⟩⟩
            · simpa [htk] using g3
            · simpa [htk, ← g1] using g2
            · simpa [htk, ← g1] using gru
            · intro _; simpa [htk, ← g1] using c1
            · intro _
              rcases c2 with c2 | c2
              · simp at c2
              · simpa [htk, ← g1] using c2
        · rw [if_neg hcb] at h
          injection h with h
          refine ⟨by rw [← h, hden], ⟨by simp [htk], ?_, ?_, ?_, ?_, ?_⟩⟩
          · simpa [htk] using g3
          · simpa [htk, ← g1] using g2
          · simpa [htk, ← g1] using gru
          · intro hc; exact absurd hc hcb
          · intro hc; exact absurd hc hcb

/-- the rules of one schedule item -/
def ElemSpecOk (tbl : OpTable) (specs : List OpSpec) : ElemSpec → Prop
  | .task ts => TaskOk (denoteTask tbl specs none ts) ∧ ts.operation.isSome
  | .parallel p => ParallelOk tbl specs p

theorem parseElem_ok {tbl : OpTable} {specs : List OpSpec} {es : ElemSpec} {e : Elem}
    (h : parseElem tbl (specs.map (denoteOp tbl)) es = .ok e) :
    e = denoteElem tbl specs es ∧ ElemSpecOk tbl specs es := by
  cases es with
  | parallel p =>
    simp only [parseElem] at h
    exact parseParallel_ok h
  | task ts =>
    simp only [parseElem] at h
    have hd : noDefaults = defaultsOf none := rfl
    rw [hd] at h
    cases ht : parseTask tbl (specs.map (denoteOp tbl)) (defaultsOf none) ts with
    | error err => rw [ht] at h; simp at h
    | ok t =>
      rw [ht] at h
      simp only at h
      injection h with h
      obtain ⟨h1, h2, h3⟩ := parseTask_ok ht
      exact ⟨by rw [← h, h1]; rfl, ⟨h1 ▸ h2, h3⟩⟩

theorem parseSchedule_ok {tbl : OpTable} {specs : List OpSpec} :
    ∀ (ess : List ElemSpec) (es : List Elem), parseSchedule tbl (specs.map (denoteOp tbl)) ess = .ok es →
      es = ess.map (denoteElem tbl specs) ∧ ∀ x ∈ ess, ElemSpecOk tbl specs x
  | [], es, h => by
    simp only [parseSchedule] at h
    injection h with h
    subst h
    simp
  | x :: rest, es, h => by
    simp only [parseSchedule] at h
    cases hx : parseElem tbl (specs.map (denoteOp tbl)) x with
    | error e => rw [hx] at h; simp at h
    | ok e =>
      rw [hx] at h
      simp only at h
      cases hr : parseSchedule tbl (specs.map (denoteOp tbl)) rest with
      | error e' => rw [hr] at h; simp at h
      | ok r =>
        rw [hr] at h
        simp only at h
        injection h with h
        subst h
        obtain ⟨h1, h2⟩ := parseElem_ok hx
        obtain ⟨g1, g2⟩ := parseSchedule_ok rest r hr
        refine ⟨by rw [h1, g1]; rfl, ?_⟩
        intro y hy
        rcases List.mem_cons.mp hy with rfl | hy
        · exact h2
        · exact g2 y hy

theorem checkDupNames_ok :
    ∀ (names known : List Str), checkDupNames names known = .ok () → names.Nodup ∧ ∀ n ∈ names, n ∉ known
  | [], _, _ => by simp
  | n :: rest, known, h => by
    simp only [checkDupNames] at h
    split at h
    · exact absurd h errS_ne_ok
    · rename_i hn
      obtain ⟨g1, g2⟩ := checkDupNames_ok rest (n :: known) h
      refine ⟨List.nodup_cons.mpr ⟨fun hmem => (g2 n hmem) List.mem_cons_self, g1⟩, ?_⟩
      intro m hm
      rcases List.mem_cons.mp hm with rfl | hm
      · exact hn
      · exact fun hk => g2 m hm (List.mem_cons_of_mem _ hk)

/-! ### challenges -/

theorem mergeObj_eq (d1 d2 : Obj) :
    mergeObj d1 d2 = d1.filter (fun kv => decide (kv.1 ∉ d2.map (·.1))) ++ d2 := by
  unfold mergeObj
  congr 1
  apply List.filter_congr
  intro kv _
  have key : (d2.any (fun kv2 => decide (kv2.1 = kv.1)) = true) ↔ kv.1 ∈ d2.map (·.1) := by
    simp only [List.any_eq_true, decide_eq_true_eq, List.mem_map]
  cases hany : d2.any (fun kv2 => decide (kv2.1 = kv.1)) with
  | true =>
    have := key.mp hany
    simp [this]
  | false =>
    have : kv.1 ∉ d2.map (·.1) := by
      intro hm
      rw [key.mpr hm] at hany
      exact absurd hany (by simp)
    simp [this]

/-- the rules of one challenge -/
structure ChallengeSpecOk (tbl : OpTable) (specs : List OpSpec) (c : ChallengeSpec) : Prop where
  hasName : c.name.isSome
  hasSchedule : c.schedule.isSome
  elems : ∀ e ∈ c.schedule.getD [], ElemSpecOk tbl specs e
  tasksNodup : ((((c.schedule.getD []).map (denoteElem tbl specs)).flatMap Elem.leaves).map (·.name)).Nodup

theorem createChallenge_ok {tbl : OpTable} {specs : List OpSpec} {tp : Obj} {sel : Option Str} {auto : Bool} {n : Nat}
    {seen : Bool} {known : List Str} {c : ChallengeSpec} {ch : Challenge}
    (h : createChallenge tbl (specs.map (denoteOp tbl)) tp sel auto n seen known c = .ok ch) :
    ch = denoteChallenge tbl sel specs tp auto n c ∧ ChallengeSpecOk tbl specs c ∧ ch.name ∉ known ∧
      ¬ (ch.default = true ∧ seen = true) := by
  unfold createChallenge at h
  cases hn : c.name with
  | none => rw [hn] at h; exact absurd h errS_ne_ok
  | some name =>
    rw [hn] at h
    simp only at h
    split at h
    · exact absurd h errS_ne_ok
    · rename_i hd
      split at h
      · exact absurd h errS_ne_ok
      · rename_i hk
        cases hs : c.schedule with
        | none => rw [hs] at h; exact absurd h errS_ne_ok
        | some sch =>
          rw [hs] at h
          simp only at h
          cases hp : parseSchedule tbl (specs.map (denoteOp tbl)) sch with
          | error e => rw [hp] at h; simp at h
          | ok schedule =>
            rw [hp] at h
            simp only at h
            obtain ⟨g1, g2⟩ := parseSchedule_ok sch schedule hp
            cases hdup : checkDupNames ((schedule.flatMap Elem.leaves).map (·.name)) [] with
            | error e => rw [hdup] at h; simp at h
            | ok u =>
              rw [hdup] at h
              simp only at h
              injection h with h
              obtain ⟨d1, _⟩ := checkDupNames_ok _ _ hdup
              subst h
              refine ⟨?_, ⟨by simp [hn], by simp [hs], by simpa [hs] using g2, by simpa [hs, ← g1] using d1⟩, hk, ?_⟩
              · simp only [denoteChallenge, hn, hs, Option.getD_some, mergeObj_eq, g1]
              · simpa using hd

theorem createChallengesLoop_ok {tbl : OpTable} {specs : List OpSpec} {tp : Obj} {sel : Option Str} {auto : Bool} {n : Nat} :
    ∀ (cs : List ChallengeSpec) (seen : Bool) (known : List Str) (chs : List Challenge) (seen' : Bool),
      createChallengesLoop tbl (specs.map (denoteOp tbl)) tp sel auto n cs seen known = .ok (chs, seen') →
      chs = cs.map (denoteChallenge tbl sel specs tp auto n) ∧ (∀ c ∈ cs, ChallengeSpecOk tbl specs c) ∧
      (chs.map (·.name)).Nodup ∧ (∀ c ∈ chs, c.name ∉ known) ∧
      (chs.filter (·.default)).length ≤ (if seen then 0 else 1) ∧
      (seen' = true → seen = true ∨ ∃ c ∈ chs, c.default = true)
  | [], seen, known, chs, seen', h => by
    simp only [createChallengesLoop] at h
    injection h with h
    injection h with h1 h2
    subst h1 h2
    simp
  | c :: rest, seen, known, chs, seen', h => by
    simp only [createChallengesLoop] at h
    cases hc : createChallenge tbl (specs.map (denoteOp tbl)) tp sel auto n seen known c with
    | error e => rw [hc] at h; simp at h
    | ok ch =>
      rw [hc] at h
      simp only at h
      cases hr : createChallengesLoop tbl (specs.map (denoteOp tbl)) tp sel auto n rest (seen || ch.default) (ch.name :: known) with
      | error e => rw [hr] at h; simp at h
      | ok pr =>
        obtain ⟨r, s'⟩ := pr
        rw [hr] at h
        simp only at h
        injection h with h
        injection h with h1 h2
        subst h1 h2
        obtain ⟨a1, a2, a3, a4⟩ := createChallenge_ok hc
        obtain ⟨b1, b2, b3, b4, b5, b6⟩ := createChallengesLoop_ok rest _ _ r s' hr
        refine ⟨by rw [a1, b1]; rfl, ?_, ?_, ?_, ?_, ?_⟩
        · intro y hy
          rcases List.mem_cons.mp hy with rfl | hy
          · exact a2
          · exact b2 y hy
        · rw [List.map_cons, List.nodup_cons]
          refine ⟨?_, b3⟩
          intro hmem
          obtain ⟨c', hc', hname⟩ := List.mem_map.mp hmem
          exact b4 c' hc' (hname ▸ List.mem_cons_self)
        · intro y hy
          rcases List.mem_cons.mp hy with rfl | hy
          · exact a3
          · exact fun hk => b4 y hy (List.mem_cons_of_mem _ hk)
        · rw [List.filter_cons]
          cases hdef : ch.default with
          | false =>
            simp only [hdef, Bool.or_false] at b5
            simpa using b5
          | true =>
            simp only [hdef, Bool.or_true, if_true, Nat.le_zero] at b5
            have hs : seen = false := by
              cases seen with
              | false => rfl
              | true => exact absurd ⟨hdef, rfl⟩ a4
            simp [b5, hs]
        · intro hs'
          rcases b6 hs' with b6 | ⟨c', hc', hd'⟩
          · rcases Bool.or_eq_true _ _ |>.mp b6 with b6 | b6
            · exact Or.inl b6
            · exact Or.inr ⟨ch, List.mem_cons_self, b6⟩
          · exact Or.inr ⟨c', List.mem_cons_of_mem _ hc', hd'⟩

theorem getChallengeSpecs_ok {s : Spec} {cs : List ChallengeSpec} {auto : Bool}
    (h : getChallengeSpecs s = .ok (cs, auto)) :
    cs = challengeSpecsOf s ∧ auto = s.schedule.isSome ∧
      ((if s.schedule.isSome then 1 else 0) + (if s.challenge.isSome then 1 else 0) +
        (if s.challenges.isSome then 1 else 0) = 1) := by
  unfold getChallengeSpecs at h
  unfold challengeSpecsOf
  cases h1 : s.schedule <;> cases h2 : s.challenge <;> cases h3 : s.challenges <;>
    simp only [h1, h2, h3] at h <;>
    first
      | exact absurd h errS_ne_ok
      | (injection h with h; injection h with ha hb; subst ha hb; simp)

/-- the rules about operations and challenges, stated on the specification -/
structure ChallengesOk (tbl : OpTable) (s : Spec) : Prop where
  opsNodup : (s.operations.map (fun o => (denoteOp tbl o).name)).Nodup
  opsTyped : ∀ o ∈ s.operations, o.opType.isSome
  exactlyOne : (if s.schedule.isSome then 1 else 0) + (if s.challenge.isSome then 1 else 0) +
      (if s.challenges.isSome then 1 else 0) = 1
  each : ∀ c ∈ challengeSpecsOf s, ChallengeSpecOk tbl s.operations c

theorem createChallenges_ok {tbl : OpTable} {sel : Option Str} {s : Spec} {chs : List Challenge}
    (h : createChallenges tbl sel s = .ok chs) :
    chs = (challengeSpecsOf s).map
        (denoteChallenge tbl sel s.operations s.parameters s.schedule.isSome (challengeSpecsOf s).length) ∧
      ChallengesOk tbl s ∧ (chs.map (·.name)).Nodup ∧ (chs ≠ [] → (chs.filter (·.default)).length = 1) := by
  unfold createChallenges at h
  cases hops : parseOperations tbl s.operations [] with
  | error e => rw [hops] at h; simp at h
  | ok ops =>
    rw [hops] at h
    simp only at h
    obtain ⟨o1, o2, o3⟩ := parseOperations_ok _ _ _ hops
    simp only [List.nil_append] at o1
    subst o1
    cases hg : getChallengeSpecs s with
    | error e => rw [hg] at h; simp at h
    | ok pr =>
      obtain ⟨specs, auto⟩ := pr
      rw [hg] at h
      simp only at h
      obtain ⟨g1, g2, g3⟩ := getChallengeSpecs_ok hg
      cases hl : createChallengesLoop tbl (s.operations.map (denoteOp tbl)) s.parameters sel auto specs.length specs false [] with
      | error e => rw [hl] at h; simp at h
      | ok pr2 =>
        obtain ⟨cs, seen⟩ := pr2
        rw [hl] at h
        simp only at h
        split at h
        · exact absurd h errS_ne_ok
        · rename_i hnd
          injection h with h
          subst h
          obtain ⟨l1, l2, l3, _, l5, l6⟩ := createChallengesLoop_ok _ _ _ _ _ hl
          subst g1 g2
          refine ⟨l1, ⟨?_, o2, g3, l2⟩, l3, ?_⟩
          · have := o3 (by simp)
            simpa [List.map_map, Function.comp_def] using this
          · intro hne
            have hseen : seen = true := by
              cases seen with
              | true => rfl
              | false =>
                exfalso
                apply hnd
                cases cs with
                | nil => exact absurd rfl hne
                | cons _ _ => simp
            rcases l6 hseen with l6 | ⟨c, hc, hd⟩
            · simp at l6
            · simp only [Bool.false_eq_true, if_false] at l5
              have hpos : 0 < (cs.filter (·.default)).length :=
                List.length_pos_of_mem (List.mem_filter.mpr ⟨hc, hd⟩)
              omega

/-! ### indices, data streams, corpora -/

def toIndex (i : IndexSpec) : Index := { name := i.name.getD [], types := i.types, body := i.body }

theorem createIndices_ok :
    ∀ (ixs : List IndexSpec) (r : List Index), createIndices ixs = .ok r →
      r = ixs.map toIndex ∧ ∀ i ∈ ixs, i.name.isSome
  | [], r, h => by
    simp only [createIndices] at h
    injection h with h
    subst h
    simp
  | i :: rest, r, h => by
    simp only [createIndices] at h
    cases hn : i.name with
    | none => rw [hn] at h; exact absurd h errS_ne_ok
    | some name =>
      rw [hn] at h
      simp only at h
      cases hr : createIndices rest with
      | error e => rw [hr] at h; simp at h
      | ok r' =>
        rw [hr] at h
        simp only at h
        injection h with h
        subst h
        obtain ⟨g1, g2⟩ := createIndices_ok rest r' hr
        refine ⟨by simp [toIndex, hn, g1], ?_⟩
        intro j hj
        rcases List.mem_cons.mp hj with rfl | hj
        · simp [hn]
        · exact g2 j hj

theorem createDataStreams_ok :
    ∀ (dss : List (Option Str)) (r : List Str), createDataStreams dss = .ok r →
      r = dss.map (·.getD []) ∧ ∀ d ∈ dss, d.isSome
  | [], r, h => by
    simp only [createDataStreams] at h
    injection h with h
    subst h
    simp
  | d :: rest, r, h => by
    simp only [createDataStreams] at h
    cases d with
    | none => exact absurd h errS_ne_ok
    | some name =>
      simp only at h
      cases hr : createDataStreams rest with
      | error e => rw [hr] at h; simp at h
      | ok r' =>
        rw [hr] at h
        simp only at h
        injection h with h
        subst h
        obtain ⟨g1, g2⟩ := createDataStreams_ok rest r' hr
        refine ⟨by simp [g1], ?_⟩
        intro j hj
        rcases List.mem_cons.mp hj with rfl | hj
        · simp
        · exact g2 j hj

/-- the rules of one document set, stated on the result (`nIdx`/`nDs` = number of declared indices / data streams) -/
structure DocOk (nIdx nDs : Nat) (x : Documents) : Prop where
  bulk : x.sourceFormat = bulk
  noDsWithIndices : ¬ (truthy x.targetDataStream = true ∧ 0 < nIdx)
  noTypeWithDs : ¬ (truthy x.targetDataStream = true ∧ truthy x.targetType = true)
  noIdxWithDs : ¬ (truthy x.targetIndex = true ∧ 0 < nDs)
  hasTarget : x.includesActionAndMetaData = false → ¬ (x.targetIndex = none ∧ x.targetDataStream = none)

theorem orElse_assoc' {α : Type} (a b c : Option α) : (a <|> (b <|> c)) = ((a <|> b) <|> c) := by
  cases a <;> cases b <;> rfl

theorem orElse_none' {α : Type} (a : Option α) : (a <|> none) = a := by cases a <;> rfl

theorem cd_targetIdx {ixs : List IndexSpec} (hix : ∀ i ∈ ixs, i.name.isSome) (dss : List Str) (c : CorpusSpec) :
    (corpusDefaults (ixs.map toIndex) dss c).targetIdx =
      if ixs.isEmpty then none else (c.targetIndex <|> (match ixs with | [i] => i.name | _ => none)) := by
  match ixs, hix with
  | [], _ => simp [corpusDefaults]
  | [i], hix =>
    have := hix i (by simp)
    cases hn : i.name with
    | none => rw [hn] at this; simp at this
    | some n => simp [corpusDefaults, toIndex, hn, orDefault_eq]
  | i :: j :: r, _ => simp [corpusDefaults, orElse_none']

theorem cd_targetDs (ixs : List Index) (dss : List (Option Str)) (hds : ∀ d ∈ dss, d.isSome) (c : CorpusSpec) :
    (corpusDefaults ixs (dss.map (·.getD [])) c).targetDs =
      if dss.isEmpty then none else (c.targetDataStream <|> (match dss with | [x] => x | _ => none)) := by
  match dss, hds with
  | [], _ => simp [corpusDefaults]
  | [x], hds =>
    have := hds x (by simp)
    cases x with
    | none => simp at this
    | some n => simp [corpusDefaults, orDefault_eq]
  | i :: j :: r, _ => simp [corpusDefaults, orElse_none']

theorem cd_targetType (ixs : List IndexSpec) (dss : List Str) (c : CorpusSpec) :
    (corpusDefaults (ixs.map toIndex) dss c).targetType =
      if ixs.isEmpty then none else (c.targetType <|> (match ixs with
        | [i] => (match i.types with | [t] => some t | _ => none)
        | _ => none)) := by
  match ixs with
  | [] => simp [corpusDefaults]
  | [i] =>
    simp only [corpusDefaults, List.map_cons, List.map_nil, toIndex, List.isEmpty_cons, Bool.false_eq_true, if_false]
    match i.types with
    | [] => simp [orElse_none']
    | [t] => simp [orDefault_eq]
    | _ :: _ :: _ => simp [orElse_none']
  | i :: j :: r => simp [corpusDefaults, orElse_none']

theorem cd_simple (ixs : List Index) (dss : List Str) (c : CorpusSpec) :
    (corpusDefaults ixs dss c).baseUrl = c.baseUrl ∧
    (corpusDefaults ixs dss c).sourceFormat = c.sourceFormat.getD bulk ∧
    (corpusDefaults ixs dss c).includesActionAndMetaData = c.includesActionAndMetaData.getD false := by
  simp [corpusDefaults]

theorem truthy_none : truthy none = false := rfl

theorem resolveTargets_ok {nIdx nDs : Nat} {cd : CorpusDefaults} {d : DocSpec} {r : Option Str × Option Str × Option Str}
    (h : resolveTargets nIdx nDs cd d = .ok r) :
    r = (d.targetIndex <|> cd.targetIdx, d.targetType <|> cd.targetType, d.targetDataStream <|> cd.targetDs) ∧
    ¬ (truthy r.2.2 = true ∧ 0 < nIdx) ∧ ¬ (truthy r.2.2 = true ∧ truthy r.2.1 = true) ∧
    ¬ (truthy r.1 = true ∧ 0 < nDs) ∧ ¬ (r.1 = none ∧ r.2.2 = none) := by
  unfold resolveTargets at h
  simp only [orDefault_eq] at h
  split at h
  · exact absurd h errS_ne_ok
  · split at h
    · exact absurd h errS_ne_ok
    · rename_i hr1
      split at h
      · exact absurd h errS_ne_ok
      · rename_i hr2
        split at h
        · exact absurd h errS_ne_ok
        · split at h
          · exact absurd h errS_ne_ok
          · rename_i hr3
            split at h
            · exact absurd h errS_ne_ok
            · rename_i hr4
              injection h with h
              subst h
              simp only [Bool.and_eq_true, decide_eq_true_eq, not_and, Option.isNone_iff_eq_none] at hr1 hr2 hr3 hr4
              refine ⟨rfl, ?_, ?_, ?_, ?_⟩
              · intro ⟨a, b⟩; exact hr1 a b
              · intro ⟨a, b⟩; exact absurd b (by simpa using hr2 a)
              · intro ⟨a, b⟩; exact hr3 a b
              · intro ⟨a, b⟩; exact hr4 a b

theorem createDocuments_ok {ixs : List IndexSpec} {dss : List (Option Str)}
    (hix : ∀ i ∈ ixs, i.name.isSome) (hds : ∀ d ∈ dss, d.isSome) {c : CorpusSpec} {d : DocSpec} {x : Documents}
    (h : createDocuments ixs.length dss.length (corpusDefaults (ixs.map toIndex) (dss.map (·.getD [])) c) d = .ok x) :
    x = denoteDocuments ixs dss c d ∧ DocOk ixs.length dss.length x ∧ d.sourceFile.isSome ∧ d.documentCount.isSome := by
  unfold createDocuments at h
  obtain ⟨cb, cf, ci⟩ := cd_simple (ixs.map toIndex) (dss.map (·.getD [])) c
  simp only [cb, cf, ci, orDefault_eq] at h
  split at h
  · exact absurd h errS_ne_ok
  · rename_i hfmt
    have hfmt' : d.sourceFormat.getD (c.sourceFormat.getD bulk) = bulk := Classical.not_not.mp hfmt
    cases hsf : d.sourceFile with
    | none => rw [hsf] at h; exact absurd h errS_ne_ok
    | some docs =>
      rw [hsf] at h
      simp only at h
      cases hdc : d.documentCount with
      | none => rw [hdc] at h; exact absurd h errS_ne_ok
      | some num =>
        rw [hdc] at h
        simp only at h
        have hfmtD : ((d.sourceFormat <|> c.sourceFormat).getD bulk) = d.sourceFormat.getD (c.sourceFormat.getD bulk) := by
          cases d.sourceFormat <;> cases c.sourceFormat <;> rfl
        have hiamdD : ((d.includesActionAndMetaData <|> c.includesActionAndMetaData).getD false) =
            d.includesActionAndMetaData.getD (c.includesActionAndMetaData.getD false) := by
          cases d.includesActionAndMetaData <;> cases c.includesActionAndMetaData <;> rfl
        by_cases hiamd : d.includesActionAndMetaData.getD (c.includesActionAndMetaData.getD false) = true
        · rw [if_pos hiamd] at h
          injection h with h
          subst h
          refine ⟨?_, ⟨hfmt', by simp [truthy_none], by simp [truthy_none], by simp [truthy_none], by simp⟩, rfl, rfl⟩
          simp only [denoteDocuments, hsf, hdc, hfmtD, hiamdD, hiamd, Option.getD_some, Bool.true_or, if_true]
        · rw [if_neg hiamd] at h
          have hiamd' : d.includesActionAndMetaData.getD (c.includesActionAndMetaData.getD false) = false := by
            simpa using hiamd
          cases hrt : resolveTargets ixs.length dss.length (corpusDefaults (ixs.map toIndex) (dss.map (·.getD [])) c) d with
          | error e => rw [hrt] at h; simp at h
          | ok r =>
            obtain ⟨ti, tt, tds⟩ := r
            rw [hrt] at h
            simp only at h
            injection h with h
            subst h
            obtain ⟨r0, r1, r2, r3, r4⟩ := resolveTargets_ok hrt
            simp only [cd_targetIdx hix, cd_targetDs _ _ hds, cd_targetType, Prod.mk.injEq] at r0
            obtain ⟨e1, e2, e3⟩ := r0
            refine ⟨?_, ⟨hfmt', r1, r2, r3, fun _ => r4⟩, rfl, rfl⟩
            simp only [denoteDocuments, hsf, hdc, hfmtD, hiamdD, hiamd', Option.getD_some, Bool.false_or,
              Bool.false_eq_true, if_false]
            subst e1 e2 e3
            congr 1
            · rcases ixs with _ | ⟨i, _ | ⟨j, r⟩⟩ <;> simp [orElse_assoc', orElse_none']
            · rcases ixs with _ | ⟨i, _ | ⟨j, r⟩⟩
              · simp [orElse_assoc', orElse_none']
              · rcases hty : i.types with _ | ⟨t, _ | ⟨t2, r2⟩⟩ <;> simp [hty, orElse_assoc', orElse_none']
              · simp [orElse_assoc', orElse_none']
            · rcases dss with _ | ⟨i, _ | ⟨j, r⟩⟩ <;> simp [orElse_assoc', orElse_none']

theorem createDocumentsList_ok {ixs : List IndexSpec} {dss : List (Option Str)}
    (hix : ∀ i ∈ ixs, i.name.isSome) (hds : ∀ d ∈ dss, d.isSome) {c : CorpusSpec} :
    ∀ (ds : List DocSpec) (xs : List Documents),
      createDocumentsList ixs.length dss.length (corpusDefaults (ixs.map toIndex) (dss.map (·.getD [])) c) ds = .ok xs →
      xs = ds.map (denoteDocuments ixs dss c) ∧ (∀ x ∈ xs, DocOk ixs.length dss.length x) ∧
      (∀ d ∈ ds, d.sourceFile.isSome ∧ d.documentCount.isSome)
  | [], xs, h => by
    simp only [createDocumentsList] at h
    injection h with h
    subst h
    simp
  | d :: rest, xs, h => by
    simp only [createDocumentsList] at h
    cases hd : createDocuments ixs.length dss.length (corpusDefaults (ixs.map toIndex) (dss.map (·.getD [])) c) d with
    | error e => rw [hd] at h; simp at h
    | ok x =>
      rw [hd] at h
      simp only at h
      cases hr : createDocumentsList ixs.length dss.length (corpusDefaults (ixs.map toIndex) (dss.map (·.getD [])) c) rest with
      | error e => rw [hr] at h; simp at h
      | ok r =>
        rw [hr] at h
        simp only at h
        injection h with h
        subst h
        obtain ⟨a1, a2, a3, a4⟩ := createDocuments_ok hix hds hd
        obtain ⟨b1, b2, b3⟩ := createDocumentsList_ok hix hds rest r hr
        refine ⟨by rw [a1, b1]; rfl, ?_, ?_⟩
        · intro y hy
          rcases List.mem_cons.mp hy with rfl | hy
          · exact a2
          · exact b2 y hy
        · intro y hy
          rcases List.mem_cons.mp hy with rfl | hy
          · exact ⟨a3, a4⟩
          · exact b3 y hy

theorem createCorporaLoop_ok {ixs : List IndexSpec} {dss : List (Option Str)}
    (hix : ∀ i ∈ ixs, i.name.isSome) (hds : ∀ d ∈ dss, d.isSome) :
    ∀ (cs : List CorpusSpec) (known : List Str) (r : List Corpus),
      createCorporaLoop (ixs.map toIndex) (dss.map (·.getD [])) cs known = .ok r →
      r = cs.map (denoteCorpus ixs dss) ∧ (r.map (·.name)).Nodup ∧ (∀ c ∈ r, c.name ∉ known) ∧
      (∀ c ∈ r, ∀ x ∈ c.documents, DocOk ixs.length dss.length x) ∧
      (∀ c ∈ cs, c.name.isSome ∧ c.documents.isSome ∧
        ∀ d ∈ c.documents.getD [], d.sourceFile.isSome ∧ d.documentCount.isSome)
  | [], known, r, h => by
    simp only [createCorporaLoop] at h
    injection h with h
    subst h
    simp
  | c :: rest, known, r, h => by
    simp only [createCorporaLoop] at h
    cases hn : c.name with
    | none => rw [hn] at h; exact absurd h errS_ne_ok
    | some name =>
      rw [hn] at h
      simp only at h
      split at h
      · exact absurd h errS_ne_ok
      · rename_i hk
        cases hdocs : c.documents with
        | none => rw [hdocs] at h; exact absurd h errS_ne_ok
        | some docs =>
          rw [hdocs] at h
          simp only [List.length_map] at h
          cases hl : createDocumentsList ixs.length dss.length (corpusDefaults (ixs.map toIndex) (dss.map (·.getD [])) c) docs with
          | error e => rw [hl] at h; simp at h
          | ok ds =>
            rw [hl] at h
            simp only at h
            cases hr : createCorporaLoop (ixs.map toIndex) (dss.map (·.getD [])) rest (name :: known) with
            | error e => rw [hr] at h; simp at h
            | ok r' =>
              rw [hr] at h
              simp only at h
              injection h with h
              subst h
              obtain ⟨a1, a2, a3⟩ := createDocumentsList_ok hix hds docs ds hl
              obtain ⟨b1, b2, b3, b4, b5⟩ := createCorporaLoop_ok hix hds rest (name :: known) r' hr
              refine ⟨?_, ?_, ?_, ?_, ?_⟩
              · simp only [List.map_cons, denoteCorpus, hn, hdocs, Option.getD_some, a1, b1]
              · rw [List.map_cons, List.nodup_cons]
                refine ⟨?_, b2⟩
                intro hmem
                obtain ⟨c', hc', hname⟩ := List.mem_map.mp hmem
                exact b3 c' hc' (hname ▸ List.mem_cons_self)
              · intro y hy
                rcases List.mem_cons.mp hy with rfl | hy
                · exact hk
                · exact fun hkn => b3 y hy (List.mem_cons_of_mem _ hkn)
              · intro y hy
                rcases List.mem_cons.mp hy with rfl | hy
                · exact a2
                · exact b4 y hy
              · intro y hy
                rcases List.mem_cons.mp hy with rfl | hy
                · exact ⟨by simp [hn], by simp [hdocs], by simpa [hdocs] using a3⟩
                · exact b5 y hy

/-- the rules about indices, data streams and corpora -/
structure DataOk (s : Spec) : Prop where
  indexNames : ∀ i ∈ s.indices, i.name.isSome
  dataStreamNames : ∀ d ∈ s.dataStreams, d.isSome
  notBoth : ¬ (s.indices ≠ [] ∧ s.dataStreams ≠ [])
  corporaNodup : ((s.corpora.map (denoteCorpus s.indices s.dataStreams)).map (·.name)).Nodup
  docs : ∀ c ∈ s.corpora.map (denoteCorpus s.indices s.dataStreams), ∀ x ∈ c.documents,
    DocOk s.indices.length s.dataStreams.length x
  mandatory : ∀ c ∈ s.corpora, c.name.isSome ∧ c.documents.isSome ∧
    ∀ d ∈ c.documents.getD [], d.sourceFile.isSome ∧ d.documentCount.isSome

/-- **soundness of the reader**: whatever `TrackSpecificationReader.__call__` returns is the declarative meaning of the
    specification, and the specification obeys every rule -/
theorem loadSpec_ok {tbl : OpTable} {sel : Option Str} {s : Spec} {t : Track}
    (h : loadSpec tbl sel s = .ok t) :
    t = denote tbl sel s ∧ DataOk s ∧ ChallengesOk tbl s ∧
      (t.challenges.map (·.name)).Nodup ∧ (t.challenges ≠ [] → (t.challenges.filter (·.default)).length = 1) := by
  unfold loadSpec at h
  cases hi : createIndices s.indices with
  | error e => rw [hi] at h; simp at h
  | ok indices =>
    rw [hi] at h
    simp only at h
    obtain ⟨i1, i2⟩ := createIndices_ok _ _ hi
    cases hd : createDataStreams s.dataStreams with
    | error e => rw [hd] at h; simp at h
    | ok dss =>
      rw [hd] at h
      simp only at h
      obtain ⟨d1, d2⟩ := createDataStreams_ok _ _ hd
      split at h
      · exact absurd h errS_ne_ok
      · rename_i hboth
        cases hc : createCorpora indices dss s.corpora with
        | error e => rw [hc] at h; simp at h
        | ok corpora =>
          rw [hc] at h
          simp only at h
          cases hch : createChallenges tbl sel s with
          | error e => rw [hch] at h; simp at h
          | ok challenges =>
            rw [hch] at h
            simp only at h
            injection h with h
            subst h
            unfold createCorpora at hc
            rw [if_neg hboth] at hc
            subst i1 d1
            obtain ⟨c1, c2, _, c4, c5⟩ := createCorporaLoop_ok i2 d2 _ _ _ hc
            obtain ⟨e1, e2, e3, e4⟩ := createChallenges_ok hch
            refine ⟨?_, ⟨i2, d2, ?_, ?_, ?_, c5⟩, e2, e3, e4⟩
            · simp only [denote, c1, e1]
              congr 1
            · intro ⟨a, b⟩
              apply hboth
              cases hA : s.indices with
              | nil => exact absurd hA a
              | cons _ _ =>
                cases hB : s.dataStreams with
                | nil => exact absurd hB b
                | cons _ _ => simp
            · rw [← c1]; exact c2
            · rw [← c1]; exact c4

/-! ### schema (structural part) -/

theorem firstSome_none {α : Type} {f : α → Option SchemaRule} :
    ∀ {l : List α}, firstSome f l = none ↔ ∀ a ∈ l, f a = none
  | [] => by simp [firstSome]
  | a :: rest => by
    simp only [firstSome]
    cases hfa : f a with
    | some r => simp [hfa]
    | none =>
      simp only [List.mem_cons, forall_eq_or_imp, hfa, true_and]
      exact firstSome_none

theorem firstViolation_none :
    ∀ {l : List (Bool × SchemaRule)}, firstViolation l = none ↔ ∀ p ∈ l, p.1 = false
  | [] => by simp [firstViolation]
  | (b, r) :: rest => by
    simp only [firstViolation]
    cases b with
    | true => simp
    | false =>
      simp only [Bool.false_eq_true, if_false, List.mem_cons, forall_eq_or_imp, true_and]
      exact firstViolation_none

/-- the three minima of the schema that are not 0 -/
theorem schemaNumbers_none {wi it ru wt tp cl : Option Nat} (h : schemaNumbers wi it ru wt tp cl = none) :
    (∀ n, cl = some n → 1 ≤ n) ∧ (∀ n, it = some n → 1 ≤ n) ∧ (∀ n, tp = some n → 1 ≤ n) := by
  unfold schemaNumbers at h
  have := firstViolation_none.mp h
  have h1 := this (!geMin cl minima.clients, .minimum) (by simp)
  have h2 := this (!geMin it minima.iterations, .minimum) (by simp)
  have h3 := this (!geMin tp minima.timePeriod, .minimum) (by simp)
  simp only [Bool.not_eq_eq_eq_not, Bool.not_false, minima] at h1 h2 h3
  refine ⟨?_, ?_, ?_⟩
  · intro n hn; subst hn; simpa [geMin] using h1
  · intro n hn; subst hn; simpa [geMin] using h2
  · intro n hn; subst hn; simpa [geMin] using h3

/-- what the structural schema check guarantees about one task object inside a parallel element -/
def TaskSchemaOk (t : TaskSpec) : Prop :=
  (∀ n, t.clients = some n → 1 ≤ n) ∧ (∀ n, t.iterations = some n → 1 ≤ n) ∧ (∀ n, t.timePeriod = some n → 1 ≤ n)

def ElemSchemaOk : ElemSpec → Prop
  | .task t => TaskSchemaOk t
  | .parallel p =>
    (∀ n, p.clients = some n → 1 ≤ n) ∧ (∀ n, p.iterations = some n → 1 ≤ n) ∧ (∀ n, p.timePeriod = some n → 1 ≤ n) ∧
    ∃ ts, p.tasks = some ts ∧ ts ≠ [] ∧ ∀ t ∈ ts, TaskSchemaOk t ∧ t.operation.isSome

theorem schemaTask_none {t : TaskSpec} (h : schemaTask t = none) : TaskSchemaOk t ∧ t.operation.isSome := by
  unfold schemaTask at h
  split at h
  · simp at h
  · rename_i hn
    split at h
    · simp at h
    · rename_i ho
      exact ⟨schemaNumbers_none hn, Option.isSome_iff_ne_none.mpr (by simpa using ho)⟩

theorem schemaElem_none {e : ElemSpec} (h : schemaElem e = none) : ElemSchemaOk e := by
  cases e with
  | task t => exact schemaNumbers_none (by simpa [schemaElem] using h)
  | parallel p =>
    simp only [schemaElem] at h
    split at h
    · simp at h
    · rename_i hn
      obtain ⟨n1, n2, n3⟩ := schemaNumbers_none hn
      split at h
      · simp at h
      · simp at h
      · rename_i ts hne hts
        refine ⟨n1, n2, n3, ts, hts, ?_, ?_⟩
        · intro h0; exact hne h0
        · intro t ht
          exact schemaTask_none (firstSome_none.mp h t ht)

theorem schemaSchedule_none {sch : List ElemSpec} (h : schemaSchedule sch = none) :
    sch ≠ [] ∧ ∀ e ∈ sch, ElemSchemaOk e := by
  unfold schemaSchedule at h
  split at h
  · simp at h
  · rename_i hne
    refine ⟨?_, fun e he => schemaElem_none (firstSome_none.mp h e he)⟩
    intro h0; subst h0; simp at hne

def ChallengeSchemaOk (c : ChallengeSpec) : Prop :=
  c.name.isSome ∧ ∃ sch, c.schedule = some sch ∧ sch ≠ [] ∧ ∀ e ∈ sch, ElemSchemaOk e

theorem schemaChallenge_none {c : ChallengeSpec} (h : schemaChallenge c = none) : ChallengeSchemaOk c := by
  unfold schemaChallenge at h
  split at h
  · simp at h
  · rename_i hn
    split at h
    · simp at h
    · rename_i sch hsch
      obtain ⟨a, b⟩ := schemaSchedule_none h
      exact ⟨Option.isSome_iff_ne_none.mpr (by simpa using hn), sch, hsch, a, b⟩

def DocSchemaOk (d : DocSpec) : Prop :=
  d.sourceFile.isSome ∧ (∀ n, d.documentCount = some n → 1 ≤ n) ∧ (∀ n, d.compressedBytes = some n → 1 ≤ n) ∧
    (∀ n, d.uncompressedBytes = some n → 1 ≤ n)

theorem schemaDoc_none {d : DocSpec} (h : schemaDoc d = none) : DocSchemaOk d := by
  unfold schemaDoc at h
  have := firstViolation_none.mp h
  have h0 := this (d.sourceFile.isNone, .required) (by simp)
  have h1 := this (!geMin d.documentCount minima.documentCount, .minimum) (by simp)
  have h2 := this (!geMin d.compressedBytes minima.compressedBytes, .minimum) (by simp)
  have h3 := this (!geMin d.uncompressedBytes minima.uncompressedBytes, .minimum) (by simp)
  simp only [Bool.not_eq_eq_eq_not, Bool.not_false, minima] at h0 h1 h2 h3
  refine ⟨?_, ?_, ?_, ?_⟩
  · cases hs : d.sourceFile <;> simp_all
  · intro n hn; rw [hn] at h1; simpa [geMin] using h1
  · intro n hn; rw [hn] at h2; simpa [geMin] using h2
  · intro n hn; rw [hn] at h3; simpa [geMin] using h3

def CorpusSchemaOk (c : CorpusSpec) : Prop :=
  c.name.isSome ∧ ∃ ds, c.documents = some ds ∧ ds ≠ [] ∧ ∀ d ∈ ds, DocSchemaOk d

theorem schemaCorpus_none {c : CorpusSpec} (h : schemaCorpus c = none) : CorpusSchemaOk c := by
  unfold schemaCorpus at h
  split at h
  · simp at h
  · rename_i hn
    split at h
    · simp at h
    · simp at h
    · rename_i ds hne hds
      refine ⟨Option.isSome_iff_ne_none.mpr (by simpa using hn), ds, hds, ?_,
        fun d hd => schemaDoc_none (firstSome_none.mp h d hd)⟩
      intro h0; exact hne h0

/-- the structural schema constraints, stated declaratively -/
structure SchemaOk (s : Spec) : Prop where
  challenges : ∀ c ∈ challengeSpecsOf s, ChallengeSchemaOk c
  challengesNonEmpty : s.challenges ≠ some []
  corpora : ∀ c ∈ s.corpora, CorpusSchemaOk c
  operations : ∀ o ∈ s.operations, o.name.isSome ∧ o.opType.isSome
  indices : ∀ i ∈ s.indices, i.name.isSome
  dataStreams : ∀ d ∈ s.dataStreams, d.isSome
  types : ∀ p ∈ s.typed, typeOk p.1 p.2 = true

theorem schemaCheck_none {s : Spec} (h : schemaCheck s = none) : SchemaOk s := by
  unfold schemaCheck at h
  split at h
  · simp at h
  rename_i htyped
  have htypes : ∀ p ∈ s.typed, typeOk p.1 p.2 = true := by
    intro p hp
    cases hk : typeOk p.1 p.2 with
    | true => rfl
    | false =>
      exfalso
      apply htyped
      exact List.any_eq_true.mpr ⟨p, hp, by simp [hk]⟩
  unfold schemaStructure at h
  split at h
  · simp at h
  · rename_i h1
    split at h
    · simp at h
    · rename_i h2
      split at h
      · simp at h
      · rename_i h3
        split at h
        · simp at h
        · rename_i h4
          split at h
          · simp at h
          · rename_i h5
            split at h
            · simp at h
            · rename_i h6
              have i1 := firstSome_none.mp h1
              have i2 := firstSome_none.mp h2
              have i3 := firstSome_none.mp h3
              have i4 := firstSome_none.mp h4
              refine ⟨?_, ?_, fun c hc => schemaCorpus_none (i3 c hc), ?_, ?_, ?_, htypes⟩
              · intro c hc
                simp only [challengeSpecsOf, List.mem_append, Option.mem_toList, Option.mem_def] at hc
                rcases hc with (hc | hc) | hc
                · rw [hc] at h6
                  exact schemaChallenge_none h6
                · cases hcs : s.challenges with
                  | none => rw [hcs] at hc; simp at hc
                  | some cs =>
                    rw [hcs] at hc h5
                    simp only [Option.getD_some] at hc
                    cases cs with
                    | nil => simp at hc
                    | cons c0 rest =>
                      simp only at h5
                      exact schemaChallenge_none (firstSome_none.mp h5 c hc)
                · cases hsch : s.schedule with
                  | none => rw [hsch] at hc; simp at hc
                  | some sch =>
                    rw [hsch] at hc h
                    simp only [Option.map_some, Option.some.injEq] at hc
                    subst hc
                    obtain ⟨a, b⟩ := schemaSchedule_none h
                    exact ⟨rfl, sch, rfl, a, b⟩
              · intro h0
                rw [h0] at h5
                simp at h5
              · intro o ho
                have := i4 o ho
                unfold schemaOp at this
                split at this
                · simp at this
                · rename_i hx
                  simp only [Bool.or_eq_true, Option.isNone_iff_eq_none, not_or] at hx
                  exact ⟨Option.isSome_iff_ne_none.mpr hx.1, Option.isSome_iff_ne_none.mpr hx.2⟩
              · intro i hi
                have := i1 i hi
                split at this
                · simp at this
                · rename_i hx; exact Option.isSome_iff_ne_none.mpr (by simpa using hx)
              · intro d hd
                have := i2 d hd
                split at this
                · simp at this
                · rename_i hx; exact Option.isSome_iff_ne_none.mpr (by simpa using hx)

end TrackSpec
