import RallyModel.TrackFilter
/-! Helper lemmas for C11 (core only). -/
namespace TrackFilter

theorem any_swap (fs : List Filter) (ts : List Task) :
    fs.any (fun f => ts.any f.matchesTask) = ts.any (fun t => fs.any (fun f => f.matchesTask t)) := by
  rw [Bool.eq_iff_iff]
  simp only [List.any_eq_true]
  constructor
  · rintro ⟨f, hf, t, ht, h⟩
    exact ⟨t, ht, f, hf, h⟩
  · rintro ⟨t, ht, f, hf, h⟩
    exact ⟨f, hf, t, ht, h⟩

theorem keep_iff (exclude : Bool) (fs : List Filter) (t : Task) :
    (!filterOutTask exclude fs t) = (matchesAny fs t != exclude) := by
  unfold filterOutTask
  cases matchesAny fs t <;> cases exclude <;> rfl

theorem splitColon_ne_nil (s : Str) : splitColon s ≠ [] := by
  cases s with
  | nil => simp [splitColon]
  | cons c cs =>
    simp only [splitColon]
    split
    · simp
    · split <;> simp

theorem splitColon_no_colon (s : Str) (h : ∀ c ∈ s, c ≠ ':') : splitColon s = [s] := by
  induction s with
  | nil => rfl
  | cons c cs ih =>
    have hc : c ≠ ':' := h c List.mem_cons_self
    have := ih (fun x hx => h x (List.mem_cons_of_mem _ hx))
    simp [splitColon, this, hc]

theorem splitColon_append (k v : Str) (h : ∀ c ∈ k, c ≠ ':') :
    splitColon (k ++ ':' :: v) = k :: splitColon v := by
  induction k with
  | nil =>
    simp only [List.nil_append, splitColon]
    cases hv : splitColon v with
    | nil => exact absurd hv (splitColon_ne_nil v)
    | cons p ps => simp
  | cons c cs ih =>
    have hc : c ≠ ':' := h c List.mem_cons_self
    have := ih (fun x hx => h x (List.mem_cons_of_mem _ hx))
    simp [splitColon, this, hc]

def elemLeaves : Elem → List Task
  | .leaf t => [t]
  | .par ts _ => ts

def optLeaves : Option Elem → List Task
  | none => []
  | some e => elemLeaves e

theorem leaves_cons (e : Elem) (es : List Elem) : leaves (e :: es) = elemLeaves e ++ leaves es := by
  cases e <;> simp [leaves, elemLeaves]

theorem leaves_filterMap (f : Elem → Option Elem) (l : List Elem) :
    leaves (l.filterMap f) = l.flatMap (fun e => optLeaves (f e)) := by
  induction l with
  | nil => rfl
  | cons e es ih =>
    simp only [List.filterMap_cons, List.flatMap_cons]
    cases hfe : f e with
    | none => simp [optLeaves, ih]
    | some e' => simp [optLeaves, leaves_cons, ih]

theorem leaves_eq_flatMap (l : List Elem) : leaves l = l.flatMap elemLeaves := by
  induction l with
  | nil => rfl
  | cons e es ih => simp [leaves_cons, ih]

/-- what one element keeps: exactly its tasks selected by the filter list -/
theorem filterElem_leaves (exclude : Bool) (fs : List Filter) (e : Elem) :
    optLeaves (filterElem exclude fs e) = (elemLeaves e).filter (fun t => matchesAny fs t != exclude) := by
  cases e with
  | leaf t =>
    have hk := keep_iff exclude fs t
    unfold filterElem filterOutElem
    cases hfo : filterOutTask exclude fs t
    · rw [hfo] at hk
      simp only [Bool.not_false] at hk
      simp [optLeaves, elemLeaves, ← hk, hfo]
    · rw [hfo] at hk
      simp only [Bool.not_true] at hk
      simp [optLeaves, elemLeaves, ← hk, hfo]
  | par ts p =>
    have hkeep : ts.filter (fun t => !filterOutTask exclude fs t) =
        ts.filter (fun t => matchesAny fs t != exclude) := by
      apply List.filter_congr
      intro t _
      exact keep_iff exclude fs t
    have hsw : (fs.any fun f => f.matchesElem (Elem.par ts p)) = ts.any (matchesAny fs) := by
      simp only [Filter.matchesElem]
      exact any_swap fs ts
    -- the result of the task-by-task branch
    have hsub : optLeaves (if ((ts.filter (fun t => !filterOutTask exclude fs t)).isEmpty && !ts.isEmpty) = true then none
        else some (Elem.par (ts.filter (fun t => !filterOutTask exclude fs t)) p)) =
        ts.filter (fun t => matchesAny fs t != exclude) := by
      rw [hkeep]
      by_cases hc : ((ts.filter (fun t => matchesAny fs t != exclude)).isEmpty && !ts.isEmpty) = true
      · rw [if_pos hc]
        simp only [Bool.and_eq_true, List.isEmpty_iff] at hc
        simp [optLeaves, hc.1]
      · rw [if_neg hc]
        simp [optLeaves, elemLeaves]
    unfold filterElem filterOutElem
    simp only [elemLeaves]
    rw [hsw]
    cases hany : ts.any (matchesAny fs)
    · have hnone : ∀ t ∈ ts, matchesAny fs t = false := by
        intro t ht
        simpa using List.any_eq_false.mp hany t ht
      cases exclude with
      | false =>
        have : ts.filter (fun t => matchesAny fs t != false) = [] := by
          apply List.filter_eq_nil_iff.mpr
          intro t ht; simp [hnone t ht]
        simp [optLeaves, this]
        exact hnone
      | true =>
        simp only [Bool.false_eq_true, if_false, Bool.not_true]
        exact hsub
    · simp only [if_true, Bool.false_eq_true, if_false]
      exact hsub

/-! ### algebraic laws: the order of the filters does not matter; filtering twice is filtering once -/

theorem matchesAny_perm {fs fs' : List Filter} (h : fs.Perm fs') (t : Task) : matchesAny fs t = matchesAny fs' t := by
  unfold matchesAny
  exact h.any_eq

theorem filterOutTask_perm {fs fs' : List Filter} (h : fs.Perm fs') (exclude : Bool) (t : Task) :
    filterOutTask exclude fs t = filterOutTask exclude fs' t := by
  unfold filterOutTask
  rw [matchesAny_perm h]

theorem filterOutElem_perm {fs fs' : List Filter} (h : fs.Perm fs') (exclude : Bool) (e : Elem) :
    filterOutElem exclude fs e = filterOutElem exclude fs' e := by
  cases e with
  | leaf t => exact filterOutTask_perm h exclude t
  | par ts p =>
    show (if fs.any (fun x => x.matchesElem (.par ts p)) = true then false else !exclude) =
      (if fs'.any (fun x => x.matchesElem (.par ts p)) = true then false else !exclude)
    rw [h.any_eq]

theorem filterElem_perm {fs fs' : List Filter} (h : fs.Perm fs') (exclude : Bool) (e : Elem) :
    filterElem exclude fs e = filterElem exclude fs' e := by
  unfold filterElem
  rw [filterOutElem_perm h]
  cases e with
  | leaf t => rfl
  | par ts p =>
    have : (fun t => !filterOutTask exclude fs t) = (fun t => !filterOutTask exclude fs' t) := by
      funext t; rw [filterOutTask_perm h]
    simp only [this]

/-- a task that was kept is kept again -/
theorem kept_task_is_kept (exclude : Bool) (fs : List Filter) (ts : List Task) :
    (ts.filter (fun t => !filterOutTask exclude fs t)).filter (fun t => !filterOutTask exclude fs t) =
      ts.filter (fun t => !filterOutTask exclude fs t) := by
  rw [List.filter_filter]
  apply List.filter_congr
  intro t _; simp

/-- a parallel element of kept tasks (not empty, or empty from the start in exclude mode) is not filtered out -/
theorem kept_par_not_out (exclude : Bool) (fs : List Filter) (ts : List Task) (p : Nat)
    (hout : filterOutElem exclude fs (.par ts p) = false) :
    let kept := ts.filter (fun t => !filterOutTask exclude fs t)
    (kept ≠ [] ∨ ts = []) → filterOutElem exclude fs (.par kept p) = false := by
  intro kept hk
  cases exclude with
  | true =>
    -- exclude: an element is never filtered out as a whole
    simp [filterOutElem]
  | false =>
    -- include: every kept task matches a filter, so a non-empty kept list matches
    rcases hk with hk | hk
    · obtain ⟨t, ht⟩ := List.exists_mem_of_ne_nil kept hk
      have htk := List.mem_filter.mp ht
      have hm : matchesAny fs t = true := by
        have := htk.2
        unfold filterOutTask at this
        cases hmt : matchesAny fs t with
        | true => rfl
        | false => simp [hmt] at this
      unfold matchesAny at hm
      obtain ⟨f, hf, hft⟩ := List.any_eq_true.mp hm
      have : fs.any (fun f => f.matchesElem (.par kept p)) = true := by
        apply List.any_eq_true.mpr
        exact ⟨f, hf, by simp only [Filter.matchesElem]; exact List.any_eq_true.mpr ⟨t, ht, hft⟩⟩
      simp [filterOutElem, this]
    · subst hk
      have : kept = [] := by simp [kept]
      rw [this]
      exact hout

theorem filterElem_idem (exclude : Bool) (fs : List Filter) (e e' : Elem) (h : filterElem exclude fs e = some e') :
    filterElem exclude fs e' = some e' := by
  unfold filterElem at h
  cases hout : filterOutElem exclude fs e with
  | true => simp [hout] at h
  | false =>
    simp only [hout, Bool.false_eq_true, if_false] at h
    cases e with
    | leaf t =>
      injection h with h; subst h
      simp [filterElem, hout]
    | par ts p =>
      simp only at h
      split at h
      · simp at h
      · rename_i hcond
        injection h with h; subst h
        have hk : ts.filter (fun t => !filterOutTask exclude fs t) ≠ [] ∨ ts = [] := by
          by_cases hts : ts = []
          · exact Or.inr hts
          · left
            intro hke
            apply hcond
            simp [hke, hts]
        have hout' := kept_par_not_out exclude fs ts p hout hk
        unfold filterElem
        simp only [hout', Bool.false_eq_true, if_false]
        rw [kept_task_is_kept]
        have : ¬ (((ts.filter (fun t => !filterOutTask exclude fs t)).isEmpty && !(ts.filter (fun t => !filterOutTask exclude fs t)).isEmpty) = true) := by
          cases (ts.filter (fun t => !filterOutTask exclude fs t)).isEmpty <;> simp
        simp [this]

theorem filterMap_idem {α : Type} (f : α → Option α) (hf : ∀ a b, f a = some b → f b = some b) (l : List α) :
    (l.filterMap f).filterMap f = l.filterMap f := by
  induction l with
  | nil => rfl
  | cons a l ih =>
    cases hfa : f a with
    | none => simp [List.filterMap_cons, hfa, ih]
    | some b => simp [List.filterMap_cons, hfa, hf a b hfa, ih]

end TrackFilter
