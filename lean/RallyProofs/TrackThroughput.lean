import RallyModel.TrackThroughput
/-! Helper lemmas for the throughput grammar of C10. -/
namespace TrackThroughput

theorem splitWhile_spec (p : Char → Bool) :
    ∀ (s : Str), s = (splitWhile p s).1 ++ (splitWhile p s).2 ∧ (∀ c ∈ (splitWhile p s).1, p c = true) ∧
      (∀ c r, (splitWhile p s).2 = c :: r → p c = false)
  | [] => by simp [splitWhile]
  | c :: rest => by
    obtain ⟨h1, h2, h3⟩ := splitWhile_spec p rest
    unfold splitWhile
    by_cases hc : p c = true
    · simp only [hc, if_true]
      refine ⟨?_, ?_, h3⟩
      · simp only [List.cons_append]
        rw [← h1]
      · intro d hd
        rcases List.mem_cons.mp hd with rfl | hd
        · exact hc
        · exact h2 d hd
    · simp only [hc]
      refine ⟨by simp, by simp, ?_⟩
      intro d r hdr
      simp only [Bool.false_eq_true, if_false, List.cons.injEq] at hdr
      rw [← hdr.1]
      simpa using hc

theorem splitWhile_append (p : Char → Bool) :
    ∀ (a rest : Str), (∀ c ∈ a, p c = true) → (∀ c r, rest = c :: r → p c = false) →
      splitWhile p (a ++ rest) = (a, rest)
  | [], rest, _, hr => by
    cases rest with
    | nil => rfl
    | cons c r =>
      have := hr c r rfl
      simp [splitWhile, this]
  | c :: a, rest, ha, hr => by
    have hc : p c = true := ha c List.mem_cons_self
    have ih := splitWhile_append p a rest (fun d hd => ha d (List.mem_cons_of_mem _ hd)) hr
    simp only [List.cons_append, splitWhile, hc, if_true, ih]

theorem isSpace_cases {c : Char} (h : isSpace c = true) : c ∈ spaces := by
  simpa [isSpace] using h

theorem isSpace_not_digit {c : Char} (h : isSpace c = true) : isDigit c = false := by
  have := isSpace_cases h
  simp only [spaces, List.mem_cons, List.not_mem_nil, or_false] at this
  rcases this with rfl | rfl | rfl | rfl | rfl | rfl | rfl | rfl | rfl | rfl <;> decide

theorem isSpace_ne_dot {c : Char} (h : isSpace c = true) : c ≠ '.' := by
  have := isSpace_cases h
  simp only [spaces, List.mem_cons, List.not_mem_nil, or_false] at this
  rcases this with rfl | rfl | rfl | rfl | rfl | rfl | rfl | rfl | rfl | rfl <;> decide

theorem dot_not_digit : isDigit '.' = false := by decide
theorem slash_not_word : isWord '/' = false := by decide

end TrackThroughput
